(* C19, second half: protobuf_c_message_check rejects every message that has a
   defect (Spec/Defect.v) at any depth. *)
From Coq Require Import ZArith List Bool Lia ZifyBool.
From PBC Require Import Base.CInt Impl.Desc Impl.Mem Impl.Check Spec.Defect Proofs.MsgInd Proofs.CheckSafe.
Import ListNotations.
Local Open Scope Z_scope.

Section Reject.
Variable E : env.

Definition rjP (m : msg) : Prop := check_msg E m = Ok true -> defect_msg E m = false.
Definition rjQ (v : sval) : Prop := forall m, v = VMsg (Some m) -> rjP m.

Lemma bytes_ok_bad : forall v, bytes_ok v = Ok true -> bad_bytes v = false.
Proof.
  intros v H. unfold bytes_ok in H. unfold bad_bytes. destruct (as_bytes v) as [[len p]|e]; [|reflexivity].
  cbn [bind fst snd] in H. inversion H as [H1]. destruct p; try reflexivity.
  rewrite andb_true_r in H1. apply negb_true_iff in H1. exact H1.
Qed.

Lemma elem_reject : forall f v, rjQ v -> ck_elem (check_msg E) f v = Ok true -> cell_defect (defect_msg E) f true v = false.
Proof.
  intros f v HQ H. unfold ck_elem in H. unfold cell_defect. destruct (f_type f); try reflexivity.
  - unfold null_str. destruct (as_str v) as [[| |]|]; cbn [bind] in H; try reflexivity. discriminate H.
  - apply bytes_ok_bad. exact H.
  - destruct v as [w| | |[m|]]; try discriminate H.
    + destruct w; discriminate H.
    + exact (HQ m eq_refl H).
Qed.

Lemma single_reject : forall f has v, rjQ v -> ck_single (check_msg E) f has v = Ok true ->
  (label_eqb (f_label f) LRequired = true -> cell_defect (defect_msg E) f true v = false) /\
  (f_type f <> TBytes -> cell_defect (defect_msg E) f false v = false) /\
  (f_type f = TBytes -> (negb (label_eqb (f_label f) LOptional) || f_oneof f || negb (has =? 0)) = true -> bad_bytes v = false).
Proof.
  intros f has v HQ H. unfold ck_single in H. unfold cell_defect.
  destruct (f_type f) eqn:Et; try (repeat split; intros; try reflexivity; congruence).
  - (* string *)
    repeat split; try reflexivity; try (intros; discriminate). intros Hl. rewrite Hl in H. unfold null_str.
    destruct (as_str v) as [[| |]|]; cbn [bind] in H; try reflexivity. discriminate H.
  - (* bytes *)
    repeat split; try congruence.
    + intros Hl. apply bytes_ok_bad. destruct (f_label f); try discriminate Hl. exact H.
    + intros _ Hc. rewrite Hc in H. apply bytes_ok_bad. exact H.
  - (* message *)
    repeat split; try congruence.
    + intros Hl. rewrite Hl in H. destruct v as [w| | |[m|]]; try discriminate H.
      * destruct w; discriminate H.
      * exact (HQ m eq_refl H).
    + intros _. destruct v as [w| | |[m|]]; try reflexivity. exact (HQ m eq_refl H).
Qed.

Lemma existsb_n_false : forall A (p : A -> bool) l k,
  (forall x, In x (firstn k l) -> p x = false) -> existsb_n p l k = false.
Proof.
  intros A p l. induction l as [|y l IH]; intros k H; destruct k; cbn [existsb_n]; try reflexivity.
  fold (existsb_n p). rewrite (H y (or_introl eq_refl)). apply IH. intros x Hx. apply H. right. exact Hx.
Qed.

Lemma field_reject : forall unions f s,
  slot_all rjQ s -> Forall (fun cv : Z * sval => rjQ (snd cv)) unions ->
  ck_field (check_msg E) unions f s = Ok true ->
  field_defect (defect_msg E) unions f s = false.
Proof.
  intros unions f s HQ HU Hck. unfold field_defect. unfold ck_field in Hck.
  destruct s as [has v | n cap arr | g].
  - cbn [slot_all] in HQ.
    destruct (f_label f) eqn:El; cbn [label_eqb] in Hck; try reflexivity;
      destruct (single_reject f has v HQ Hck) as (R1 & R2 & R3); rewrite El in *.
    + apply R1. reflexivity.
    + destruct (f_oneof f) eqn:Eo; [reflexivity|]. cbn [negb andb].
      destruct (f_type f) eqn:Et; try (apply R2; congruence).
      destruct (Z.eqb_spec has 0); [reflexivity|]. cbn [negb andb]. apply R3; [reflexivity|].
      cbn [label_eqb negb orb]. lia.
    + destruct (f_oneof f) eqn:Eo; [reflexivity|]. cbn [negb andb].
      destruct (f_type f) eqn:Et; try (unfold cell_defect in *; rewrite Et in *; apply R2; congruence).
      unfold cell_defect. rewrite Et. apply R3; reflexivity.
  - destruct (f_label f) eqn:El; cbn [label_eqb] in Hck; try reflexivity.
    destruct (Z.eqb_spec n 0) as [|Hn]; [reflexivity|]. cbn [negb andb].
    destruct arr as [l|]; [|inversion Hck; lia].
    cbn [slot_all] in HQ. rewrite Forall_forall in HQ.
    apply existsb_n_false. intros x Hx. pose proof (in_firstn _ _ _ _ Hx) as Hin.
    destruct (f_type f) eqn:Et;
      try (unfold cell_defect; rewrite Et; reflexivity);
      (apply elem_reject; [exact (HQ x Hin)|]; apply (allM_facts _ _ l (Z.to_nat n)); [|exact Hx]; exact Hck).
  - destruct (f_label f) eqn:El; try reflexivity; (destruct (f_oneof f) eqn:Eo; [|reflexivity]); cbn [andb] in *.
    all: destruct (with_nth_cases _ _ (fun cv : Z * sval => if negb (f_id f =? fst cv) then Ok true else ck_single (check_msg E) f (fst cv) (snd cv)) (Err EDesc) unions g)
           as [(cv & Hn & Hw) | (Hn & Hw)]; rewrite Hw in Hck; [|discriminate Hck].
    all: destruct (with_nth_cases _ _ (fun cv : Z * sval => (fst cv =? f_id f) && cell_defect (defect_msg E) f false (snd cv)) false unions g)
           as [(cv1 & Hn1 & ->) | (_ & ->)]; [|reflexivity].
    all: rewrite Hn in Hn1; inversion Hn1; subst cv1.
    all: destruct (Z.eqb_spec (fst cv) (f_id f)) as [Hc|Hc]; [|reflexivity]; cbn [andb].
    all: rewrite <- Hc in Hck; rewrite Z.eqb_refl in Hck; cbn [negb] in Hck.
    all: assert (HQc : rjQ (snd cv)) by (rewrite Forall_forall in HU; apply HU; eapply nth_error_In; exact Hn).
    all: destruct (single_reject f _ _ HQc Hck) as (R1 & R2 & R3).
    all: destruct (f_type f) eqn:Et; try (apply R2; congruence).
    all: unfold cell_defect; rewrite Et; apply R3; [reflexivity|]; rewrite Eo; apply orb_true_iff; left; apply orb_true_r.
Qed.

Lemma fields_reject : forall unions, Forall (fun cv : Z * sval => rjQ (snd cv)) unions ->
  forall fs ss, Forall (slot_all rjQ) ss ->
  ck_fields (check_msg E) unions fs ss = Ok true ->
  fields_defect (defect_msg E) unions fs ss = false.
Proof.
  intros unions HU fs. induction fs as [|f fs IH]; intros ss HQ Hck.
  - destruct ss; reflexivity.
  - destruct ss as [|s ss]; [reflexivity|].
    cbn [ck_fields] in Hck. fold (ck_fields (check_msg E) unions) in Hck.
    cbn [fields_defect]. fold (fields_defect (defect_msg E) unions).
    inversion HQ as [|? ? Hs Hss]; subst.
    destruct (ck_field (check_msg E) unions f s) as [[|]|e] eqn:Ef; cbn [bind] in Hck; try discriminate Hck.
    rewrite (field_reject unions f s Hs HU Ef). exact (IH ss Hss Hck).
Qed.

Theorem check_rejects_defects : forall m, defect_msg E m = true -> check_msg E m <> Ok true.
Proof.
  intros m Hd Hc. revert Hc Hd.
  assert (H : rjP m); [|unfold rjP in H; intros Hc Hd; rewrite (H Hc) in Hd; discriminate Hd].
  revert m. apply (msg_ind2 rjP rjQ); unfold rjQ, rjP; try (intros; discriminate).
  - intros m IH m' Hv. inversion Hv; subst m'. exact IH.
  - intros d slots unions unk HS HU Hck.
    cbn [check_msg defect_msg] in *.
    destruct (nth_error E d) as [md|]; [|reflexivity].
    exact (fields_reject unions HU (md_fields md) slots HS Hck).
Qed.

End Reject.

(* C02: for every well-formed message, get_packed_size = number of bytes pack
   writes = number of bytes pack_to_buffer appends, and the two byte sequences
   are the same.  One induction over the message tree, for any nesting. *)
From Coq Require Import ZArith List Bool Lia ZifyBool.
From PBC Require Import Base.CInt Base.Bits Gen.LeafC Spec.Wire Impl.Desc Impl.Mem Impl.Enc Impl.Size
     Impl.Pack Impl.PackBuf Impl.WF Proofs.LeafEnc Proofs.EncLemmas Proofs.MsgInd.
Import ListNotations.
Local Open Scope Z_scope.

Ltac Zify.zify_post_hook ::= Z.div_mod_to_equations.

Lemma zlen_app : forall A (a b : list A), zlen (a ++ b) = zlen a + zlen b.
Proof. intros. unfold zlen. rewrite app_length, Nat2Z.inj_add. reflexivity. Qed.
Lemma zlen_nil : forall A, zlen (@nil A) = 0.
Proof. reflexivity. Qed.
Lemma zlen_cons : forall A (x : A) l, zlen (x :: l) = 1 + zlen l.
Proof. intros. unfold zlen. cbn [length]. lia. Qed.
Lemma zlen_nonneg : forall A (l : list A), 0 <= zlen l.
Proof. intros. unfold zlen. lia. Qed.

Lemma varint_n_len_bounds : forall f v, (1 <= f)%nat -> (1 <= length (varint_n f v) <= f)%nat.
Proof.
  induction f as [|f IH]; intros v Hf; [lia|].
  cbn [varint_n]. destruct (v <? 128); cbn [length]; [lia|].
  destruct f as [|f]; [cbn [varint_n length]; lia|].
  specialize (IH (v / 128) ltac:(lia)). lia.
Qed.

Lemma varint_len_bounds : forall v, 1 <= zlen (varint v) <= 10.
Proof. intros v. unfold zlen, varint. pose proof (varint_n_len_bounds 10 v ltac:(lia)). lia. Qed.

Lemma le_n_length : forall n v, length (le_n n v) = n.
Proof. induction n as [|k IH]; intros v; cbn [le_n length]; [reflexivity | rewrite IH; reflexivity]. Qed.

(* ---------- scalars *)
Lemma scalar_agree : forall t w, is_scalar t = true ->
  exists b, e_scalar t w = Ok b /\ sz_scalar t w = Ok (zlen b) /\ 1 <= zlen b <= 10.
Proof.
  intros t w Ht.
  destruct t; try discriminate Ht; cbn [e_scalar sz_scalar].
  - (* int32 *) exists (varint (sext32 (u32 w))). rewrite e_int32_spec by apply u32_range.
    rewrite int32_size_spec by apply s32_range. rewrite u32_s32. auto using varint_len_bounds.
  - (* sint32 *) exists (varint (zigzag 32 (s32 w))). rewrite e_sint32_spec by apply s32_range.
    rewrite sint32_size_spec by apply s32_range. auto using varint_len_bounds.
  - (* sfixed32 *) exists (le_n 4 (u32 w)). rewrite e_fixed32_spec. unfold zlen. rewrite le_n_length. repeat split; lia.
  - (* int64 *) exists (varint (u64 w)). rewrite e_uint64_spec by apply u64_range.
    rewrite uint64_size_spec by apply u64_range. auto using varint_len_bounds.
  - (* sint64 *) exists (varint (zigzag 64 (s64 w))). rewrite e_sint64_spec by apply s64_range.
    rewrite sint64_size_spec by apply s64_range. auto using varint_len_bounds.
  - (* sfixed64 *) exists (le_n 8 (u64 w)). rewrite e_fixed64_spec. unfold zlen. rewrite le_n_length. repeat split; lia.
  - (* uint32 *) exists (varint (u32 w)). rewrite e_uint32_spec by apply u32_range.
    rewrite uint32_size_spec by apply u32_range. auto using varint_len_bounds.
  - (* fixed32 *) exists (le_n 4 (u32 w)). rewrite e_fixed32_spec. unfold zlen. rewrite le_n_length. repeat split; lia.
  - (* uint64 *) exists (varint (u64 w)). rewrite e_uint64_spec by apply u64_range.
    rewrite uint64_size_spec by apply u64_range. auto using varint_len_bounds.
  - (* fixed64 *) exists (le_n 8 (u64 w)). rewrite e_fixed64_spec. unfold zlen. rewrite le_n_length. repeat split; lia.
  - (* float *) exists (le_n 4 (u32 w)). rewrite e_fixed32_spec. unfold zlen. rewrite le_n_length. repeat split; lia.
  - (* double *) exists (le_n 8 (u64 w)). rewrite e_fixed64_spec. unfold zlen. rewrite le_n_length. repeat split; lia.
  - (* bool *) eexists. rewrite e_bool_spec. split; [reflexivity|]. cbn. repeat split; lia.
  - (* enum *) exists (varint (sext32 (u32 w))). rewrite e_int32_spec by apply u32_range.
    rewrite int32_size_spec by apply s32_range. rewrite u32_s32. auto using varint_len_bounds.
Qed.

Lemma wt_range : forall t, 0 <= wire_type_of t < 8.
Proof. intros t. destruct t; vm_compute; split; congruence. Qed.

Lemma field_ok_id : forall nu f, field_ok nu f = true -> 0 <= f_id f < 4294967296.
Proof. intros nu f H. unfold field_ok in H. rewrite !andb_true_iff in H. lia. Qed.

Lemma e_uint32_len : forall v, uint32_size (u32 v) = zlen (e_uint32 (u32 v)).
Proof. intros v. rewrite e_uint32_spec by apply u32_range. apply uint32_size_spec. apply u32_range. Qed.

Lemma e_uint32_0 : e_uint32 (u32 0) = [0].
Proof. vm_compute. reflexivity. Qed.
Lemma e_uint32_00 : e_uint32 0 = [0].
Proof. vm_compute. reflexivity. Qed.
Lemma uint32_size_0 : uint32_size (u32 0) = 1.
Proof. vm_compute. reflexivity. Qed.

Section Agree.
Variable E : env.

Definition agree_res (pb : res (list Z)) (sz : res Z) (ch : res (list (list Z))) : Prop :=
  exists b, pb = Ok b /\ sz = Ok (zlen b) /\ exists cs, ch = Ok cs /\ concat cs = b.

Definition msg_agree (m : msg) : Prop :=
  agree_res (pack_msg E m) (size_msg E m) (chunks_msg E m).

Lemma agree_nil : agree_res (Ok []) (Ok 0) (Ok []).
Proof. exists []. repeat split. exists []. split; reflexivity. Qed.

(* scalar cells under every per-type dispatcher *)
Lemma pk_required_scalar : forall rec f v, is_scalar (f_type f) = true ->
  pk_required rec f v =
  (do w <- as_word v; do b <- e_scalar (f_type f) w; Ok (e_tag (f_id f) (wire_type_of (f_type f)) ++ b)).
Proof. intros rec f v H. unfold pk_required. destruct (f_type f); try discriminate H; reflexivity. Qed.
Lemma sz_required_scalar : forall rec f v, is_scalar (f_type f) = true ->
  sz_required rec f v =
  (do w <- as_word v; do n <- sz_scalar (f_type f) w; Ok (get_tag_size (f_id f) + n)).
Proof. intros rec f v H. unfold sz_required. destruct (f_type f); try discriminate H; reflexivity. Qed.
Lemma pb_required_scalar : forall rec f v, is_scalar (f_type f) = true ->
  pb_required E rec f v =
  (do w <- as_word v; do b <- e_scalar (f_type f) w; Ok [e_tag (f_id f) (wire_type_of (f_type f)) ++ b]).
Proof. intros rec f v H. unfold pb_required. destruct (f_type f); try discriminate H; reflexivity. Qed.

Lemma wf_cell_scalar : forall rec f ia v, is_scalar (f_type f) = true ->
  wf_cell rec f ia v = true -> exists w, v = VWord w.
Proof.
  intros rec f ia v H W. unfold wf_cell in W.
  destruct (f_type f); try discriminate H; destruct v; try discriminate W; eauto.
Qed.

Lemma required_agree : forall nu f ia v,
  field_ok nu f = true -> wf_cell (wf_msg E) f ia v = true ->
  (forall m, v = VMsg (Some m) -> wf_msg E m = true -> msg_agree m) ->
  agree_res (pk_required (pack_msg E) f v) (sz_required (size_msg E) f v)
            (pb_required E (chunks_msg E) f v).
Proof.
  intros nu f ia v Hf W IH.
  pose proof (field_ok_id _ _ Hf) as Hid.
  pose proof (wt_range (f_type f)) as Hwt.
  pose proof (key_length (f_id f) (wire_type_of (f_type f)) Hid Hwt) as Hk.
  destruct (is_scalar (f_type f)) eqn:Es.
  - destruct (wf_cell_scalar _ _ _ _ Es W) as (w & ->).
    rewrite pk_required_scalar, sz_required_scalar, pb_required_scalar by exact Es.
    destruct (scalar_agree (f_type f) w Es) as (b & Hb & Hs & _).
    cbn [as_word bind]. rewrite Hb, Hs. cbn [bind].
    eexists. split; [reflexivity|]. split.
    + rewrite zlen_app. f_equal. fold (zlen (e_tag (f_id f) (wire_type_of (f_type f)))) in Hk. unfold zlen in *. lia.
    + eexists. split; [reflexivity|]. cbn [concat]. apply app_nil_r.
  - unfold pk_required, sz_required, pb_required, wf_cell in *.
    destruct (f_type f) eqn:Et; try discriminate Es.
    + (* string *)
      destruct v as [w | p | |]; try discriminate W.
      * destruct w; try discriminate W. cbn [as_str bind str_bytes].
        eexists. split; [reflexivity|]. split.
        -- rewrite zlen_app. change (zlen [0]) with 1. change (zlen (@nil Z)) with 0.
           rewrite uint32_size_0. unfold zlen in *. f_equal. lia.
        -- eexists. split; [reflexivity|]. cbn [concat]. change (zlen (@nil Z)) with 0. rewrite e_uint32_0, !app_nil_r. reflexivity.
      * destruct p as [| |s]; cbn [as_str bind str_bytes].
        -- eexists. split; [reflexivity|]. split.
           ++ rewrite zlen_app. change (zlen [0]) with 1. change (zlen (@nil Z)) with 0.
              rewrite uint32_size_0. unfold zlen in *. f_equal. lia.
           ++ eexists. split; [reflexivity|]. cbn [concat]. change (zlen (@nil Z)) with 0. rewrite e_uint32_0, !app_nil_r. reflexivity.
        -- destruct (f_default f) as [[ | s | ]|]; try (rewrite andb_false_r in W; discriminate W).
           cbn [bind]. eexists. split; [reflexivity|]. split.
           ++ rewrite !zlen_app. rewrite e_uint32_len. unfold zlen in *. f_equal. lia.
           ++ eexists. split; [reflexivity|]. cbn [concat]. rewrite app_nil_r, app_assoc. reflexivity.
        -- cbn [bind]. eexists. split; [reflexivity|]. split.
           ++ rewrite !zlen_app. rewrite e_uint32_len. unfold zlen in *. f_equal. lia.
           ++ eexists. split; [reflexivity|]. cbn [concat]. rewrite app_nil_r, app_assoc. reflexivity.
    + (* bytes *)
      assert (HD : exists b, (do lp <- as_bytes v; data_bytes f (fst lp) (snd lp)) = Ok b /\
                             (do lp <- as_bytes v; Ok (fst lp)) = Ok (zlen b)).
      { destruct v as [w | | len p |]; try discriminate W.
        - destruct w; try discriminate W. exists []. split; reflexivity.
        - cbn [as_bytes bind fst snd]. unfold data_bytes.
          destruct p as [| |s].
          + apply Z.eqb_eq in W. subst len. exists []. split; reflexivity.
          + rewrite !andb_true_iff in W. destruct W as [[_ Hl] Hd].
            destruct (f_default f) as [[ | | s]|]; try discriminate Hd.
            destruct (len =? 0) eqn:E0; [apply Z.eqb_eq in E0; subst len; exists []; split; reflexivity|].
            rewrite Hd. eexists. split; [reflexivity|]. unfold zlen. rewrite firstn_length_le; [f_equal; lia|].
            unfold zlen in Hd. lia.
          + rewrite !andb_true_iff in W. destruct W as [[Hl Hd] _].
            destruct (len =? 0) eqn:E0; [apply Z.eqb_eq in E0; subst len; exists []; split; reflexivity|].
            rewrite Hd. eexists. split; [reflexivity|]. unfold zlen. rewrite firstn_length_le; [f_equal; lia|].
            unfold zlen in Hd. lia. }
      destruct HD as (b & Hb & Hl).
      destruct (as_bytes v) as [lp|e] eqn:Ea; [|discriminate Hb].
      cbn [bind] in *. rewrite Hb. cbn [bind]. inversion Hl as [Hl']. 
      eexists. split; [reflexivity|]. split.
      * rewrite !zlen_app. rewrite e_uint32_len. unfold zlen in *. f_equal. lia.
      * eexists. split; [reflexivity|]. cbn [concat]. rewrite app_nil_r, app_assoc. reflexivity.
    + (* message *)
      destruct v as [w | | | [m|]]; try discriminate W.
      * destruct w; try discriminate W. cbn [bind].
        eexists. split; [reflexivity|]. split.
        -- rewrite zlen_app. change (zlen [0]) with 1. rewrite uint32_size_0. unfold zlen in *. f_equal. lia.
        -- eexists. split; [reflexivity|]. cbn [concat]. rewrite e_uint32_00, !app_nil_r. reflexivity.
      * destruct (IH m eq_refl W) as (b & Hp & Hs & cs & Hc & Hcc).
        rewrite Hp, Hs, Hc. cbn [bind].
        eexists. split; [reflexivity|]. split.
        -- rewrite !zlen_app. rewrite e_uint32_len. unfold zlen in *. f_equal. lia.
        -- eexists. split; [reflexivity|]. cbn [concat]. rewrite Hcc, app_assoc. reflexivity.
      * cbn [bind].
        eexists. split; [reflexivity|]. split.
        -- rewrite zlen_app. change (zlen [0]) with 1. rewrite uint32_size_0. unfold zlen in *. f_equal. lia.
        -- eexists. split; [reflexivity|]. cbn [concat]. rewrite e_uint32_00, !app_nil_r. reflexivity.
Qed.

End Agree.

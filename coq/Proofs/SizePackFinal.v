(* C02: whole messages.  size = length of pack; concatenated chunks = pack. *)
From Coq Require Import ZArith List Bool Lia ZifyBool.
From PBC Require Import Base.CInt Base.Bits Gen.LeafC Spec.Wire Impl.Desc Impl.Mem Impl.Enc Impl.Size
     Impl.Pack Impl.PackBuf Impl.WF Proofs.LeafEnc Proofs.EncLemmas Proofs.MsgInd Proofs.SizePack
     Proofs.SizePackRep Proofs.SizePackRep2 Proofs.SizePackMsg.
Import ListNotations.
Local Open Scope Z_scope.

Section Final.
Variable E : env.
Notation IHm v := (forall m, v = VMsg (Some m) -> wf_msg E m = true -> msg_agree E m).

Lemma with_nth_some : forall A B (k : A -> B) d l g, (exists x, nth_error l g = Some x /\ with_nth k d l g = k x) \/ (nth_error l g = None /\ with_nth k d l g = d).
Proof.
  intros A B k d l. induction l as [|x l IH]; intros g.
  - right. destruct g; split; reflexivity.
  - destruct g as [|g]; cbn [with_nth nth_error].
    + left. exists x. split; reflexivity.
    + apply IH.
Qed.

Lemma field_agree : forall nu unions f s,
  field_ok nu f = true ->
  wf_slot (wf_msg E) unions f s = true ->
  slot_all (fun v => IHm v) s ->
  Forall (fun cv : Z * sval => IHm (snd cv)) unions ->
  agree_res (pk_field (pack_msg E) unions f s) (sz_field (size_msg E) unions f s)
            (pb_field E (chunks_msg E) unions f s).
Proof.
  intros nu unions f s Hf W HS HU.
  unfold pk_field, sz_field, pb_field, wf_slot in *.
  destruct (f_label f) eqn:El.
  - (* required *)
    destruct s as [h v| |]; try discriminate W. apply andb_true_iff in W. destruct W as [_ W].
    eapply required_agree; eauto.
  - (* optional *)
    destruct s as [h v| |g]; try discriminate W.
    + apply andb_true_iff in W. destruct W as [Ho W]. apply negb_true_iff in Ho. rewrite Ho.
      eapply optional_agree; eauto.
    + apply andb_true_iff in W. destruct W as [Ho W]. rewrite Ho.
      destruct (with_nth_some _ _ (fun cv : Z * sval => if fst cv =? f_id f then wf_cell (wf_msg E) f false (snd cv) else true) false unions g)
        as [(x & Hx & Hw) | (Hx & Hw)]; rewrite Hw in W; [|discriminate W].
      destruct (with_nth_some _ _ (fun cv : Z * sval => pk_oneof (pack_msg E) f (fst cv) (snd cv)) (Err EDesc) unions g)
        as [(x1 & Hx1 & Hw1) | (Hx1 & _)]; [|congruence].
      destruct (with_nth_some _ _ (fun cv : Z * sval => sz_oneof (size_msg E) f (fst cv) (snd cv)) (Err EDesc) unions g)
        as [(x2 & Hx2 & Hw2) | (Hx2 & _)]; [|congruence].
      destruct (with_nth_some _ _ (fun cv : Z * sval => pb_oneof E (chunks_msg E) f (fst cv) (snd cv)) (Err EDesc) unions g)
        as [(x3 & Hx3 & Hw3) | (Hx3 & _)]; [|congruence].
      rewrite Hw1, Hw2, Hw3.
      assert (x1 = x) by congruence. assert (x2 = x) by congruence. assert (x3 = x) by congruence. subst x1 x2 x3.
      eapply oneof_agree; eauto.
      * intros Hc. rewrite Hc in W. exact W.
      * rewrite Forall_forall in HU. apply HU. eapply nth_error_In; eauto.
  - (* repeated *)
    destruct s as [|n cap arr|]; try discriminate W.
    rewrite !andb_true_iff in W. destruct W as [[Hn0 Hn1] Harr].
    eapply repeated_agree; eauto; [lia|].
    destruct arr as [l|]; [|lia].
    apply andb_true_iff in Harr. destruct Harr as [Hl Hw]. cbn [slot_all] in HS. split; [lia | split; assumption].
  - (* none *)
    destruct s as [h v| |g]; try discriminate W.
    + apply andb_true_iff in W. destruct W as [Ho W]. apply negb_true_iff in Ho. rewrite Ho.
      eapply unlabeled_agree; eauto.
    + apply andb_true_iff in W. destruct W as [Ho W]. rewrite Ho.
      destruct (with_nth_some _ _ (fun cv : Z * sval => if fst cv =? f_id f then wf_cell (wf_msg E) f false (snd cv) else true) false unions g)
        as [(x & Hx & Hw) | (Hx & Hw)]; rewrite Hw in W; [|discriminate W].
      destruct (with_nth_some _ _ (fun cv : Z * sval => pk_oneof (pack_msg E) f (fst cv) (snd cv)) (Err EDesc) unions g)
        as [(x1 & Hx1 & Hw1) | (Hx1 & _)]; [|congruence].
      destruct (with_nth_some _ _ (fun cv : Z * sval => sz_oneof (size_msg E) f (fst cv) (snd cv)) (Err EDesc) unions g)
        as [(x2 & Hx2 & Hw2) | (Hx2 & _)]; [|congruence].
      destruct (with_nth_some _ _ (fun cv : Z * sval => pb_oneof E (chunks_msg E) f (fst cv) (snd cv)) (Err EDesc) unions g)
        as [(x3 & Hx3 & Hw3) | (Hx3 & _)]; [|congruence].
      rewrite Hw1, Hw2, Hw3.
      assert (x1 = x) by congruence. assert (x2 = x) by congruence. assert (x3 = x) by congruence. subst x1 x2 x3.
      eapply oneof_agree; eauto.
      * intros Hc. rewrite Hc in W. exact W.
      * rewrite Forall_forall in HU. apply HU. eapply nth_error_In; eauto.
Qed.

Lemma fields_agree : forall nu unions fs ss,
  forallb (field_ok nu) fs = true ->
  wf_slots (wf_msg E) unions fs ss = true ->
  Forall (slot_all (fun v => IHm v)) ss ->
  Forall (fun cv : Z * sval => IHm (snd cv)) unions ->
  agree_res (pk_fields (pack_msg E) unions fs ss) (sz_fields (size_msg E) unions fs ss)
            (pb_fields E (chunks_msg E) unions fs ss).
Proof.
  intros nu unions fs. induction fs as [|f fs IH]; intros ss Hf W HS HU.
  - destruct ss; [|discriminate W]. apply agree_nil.
  - destruct ss as [|s ss]; [discriminate W|].
    cbn [forallb] in Hf. apply andb_true_iff in Hf. destruct Hf as [Hf1 Hf2].
    cbn [wf_slots] in W. apply andb_true_iff in W. destruct W as [W1 W2].
    inversion HS as [|? ? HS1 HS2]; subst.
    destruct (field_agree nu unions f s Hf1 W1 HS1 HU) as (b1 & Hp1 & Hs1 & cs1 & Hc1 & Hcc1).
    destruct (IH ss Hf2 W2 HS2 HU) as (b2 & Hp2 & Hs2 & cs2 & Hc2 & Hcc2).
    cbn [pk_fields sz_fields pb_fields].
    fold (pk_fields (pack_msg E) unions). fold (sz_fields (size_msg E) unions). fold (pb_fields E (chunks_msg E) unions).
    rewrite Hp1, Hp2, Hs1, Hs2, Hc1, Hc2. cbn [bind].
    exists (b1 ++ b2). split; [reflexivity|]. split; [rewrite zlen_app; reflexivity|].
    exists (cs1 ++ cs2). split; [reflexivity|]. rewrite concat_app, Hcc1, Hcc2. reflexivity.
Qed.

Lemma unknown_agree : forall unk, forallb wf_unk unk = true ->
  fold_right (fun u acc => sz_unknown u + acc) 0 unk = zlen (concat (map pk_unknown unk)) /\
  concat (concat (map pb_unknown unk)) = concat (map pk_unknown unk).
Proof.
  induction unk as [|u unk IH]; intros W; [split; reflexivity|].
  cbn [forallb] in W. apply andb_true_iff in W. destruct W as [Wu W].
  destruct (IH W) as [IH1 IH2].
  unfold wf_unk in Wu. rewrite !andb_true_iff in Wu.
  assert (Ht : 0 <= u_tag u < 4294967296) by lia. assert (Hw : 0 <= u_wt u < 8) by lia.
  pose proof (key_length (u_tag u) (u_wt u) Ht Hw) as Hk.
  cbn [fold_right map concat]. split.
  - rewrite zlen_app, IH1. unfold sz_unknown, pk_unknown. rewrite zlen_app. unfold zlen in *. lia.
  - rewrite concat_app, IH2. unfold pb_unknown, pk_unknown. cbn [concat]. rewrite app_nil_r. reflexivity.
Qed.

Theorem size_pack_chunks_agree : forall m, wf_msg E m = true -> msg_agree E m.
Proof.
  apply (msg_ind2 (fun m => wf_msg E m = true -> msg_agree E m) (fun v => IHm v)).
  - intros w m H. discriminate H.
  - intros p m H. discriminate H.
  - intros n p m H. discriminate H.
  - intros m H. discriminate H.
  - intros m IH m' H W. inversion H; subst m'. exact (IH W).
  - intros d slots unions unk HS HU W.
    cbn [wf_msg] in W. unfold msg_agree. cbn [pack_msg size_msg chunks_msg].
    destruct (nth_error E d) as [md|]; [|discriminate W].
    rewrite !andb_true_iff in W. destruct W as [[[Wf Wn] Ws] Wk].
    destruct (fields_agree _ unions (md_fields md) slots Wf Ws HS HU) as (b & Hp & Hs & cs & Hc & Hcc).
    rewrite Hp, Hs, Hc. cbn [bind].
    destruct (unknown_agree unk Wk) as [U1 U2].
    eexists. split; [reflexivity|]. split.
    + rewrite zlen_app, U1. reflexivity.
    + eexists. split; [reflexivity|]. rewrite concat_app, Hcc, U2. reflexivity.
Qed.

End Final.

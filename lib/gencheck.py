"""Generator-side machinery shared by the checks of C12, C13, C14, C15, C16 and C20.

One *case* = one schema (a fixed .proto under harness/gen/fixed_protos, or a random one from protogen).  For each
case the real tool chain is run from /repo's current sources (protoc + protoc-gen-c rebuilt by genloop.ensure_plugin,
gcc -std=c99 / -std=c11, g++ on the header, desc_dump linked against the generated code and the current runtime)
and the Coq model of the generator (GenModel/*.v, extracted: build/ocaml/gen_model) is run on the same schema
(fd_dump text).  The two section-2 texts of harness/GENFORMAT.md are compared line kind by line kind, and
property oracles are evaluated on the REAL output against the schema itself.
"""
import os, sys, re, json, glob, random, shutil, concurrent.futures, time

ROOT = os.path.dirname(os.path.dirname(os.path.abspath(__file__)))
sys.path.insert(0, os.path.join(ROOT, 'harness', 'gen'))
import genloop, gencmp, protogen   # noqa: E402

FIXED = os.path.join(ROOT, 'harness', 'gen', 'fixed_protos')
FINDINGS = os.path.join(FIXED, 'findings')

KINDS = {
    'C13': ['MD', 'MF', 'MR', 'MN', 'ED', 'EV', 'EN', 'ER', 'SD', 'SM', 'SN'],
    'C14': ['ML', 'MK', 'EL', 'EK', 'SL', 'MR', 'MN', 'EN', 'ER', 'SN'],
    'C12': ['MF', 'MI', 'MU'],
    'C20': ['SD', 'SM', 'SS', 'SI', 'SX'],
    'C15': [],
    'C03': ['MF'],
    'C01': ['MD', 'MF', 'MR'],
    'C16': ['MD', 'MF', 'MR', 'MN', 'ED', 'EV', 'EN', 'ER', 'SD', 'SM', 'SN', 'MI', 'MU'],
}


def case_list(tier, seed, n_quick=40, n_thorough=500):
    fixed = sorted(glob.glob(os.path.join(FIXED, '*.proto')))
    fixed = [f for f in fixed if not f.endswith('_dep.proto')]
    n = n_quick if tier == 'quick' else n_thorough
    return fixed + [seed * 100000 + i for i in range(n)]


def _one(case):
    cid = gencmp.case_id(case)
    try:
        protos, root = gencmp._case_protos(case, [FIXED, FINDINGS])
        work = os.path.join(genloop.DEFAULT_SCRATCH, 'chk_%d_%s' % (os.getpid(), cid))
        try:
            r = genloop.run_case(work, protos, root, check_cxx=True, jobs=2)
        finally:
            shutil.rmtree(work, ignore_errors=True)
        model, mrc, merr = '', None, ''
        if r['fd_dump']:
            mrc, model, merr = gencmp.run_model(r['fd_dump'])
        keep = {k: r[k] for k in ('protoc_rc', 'protoc_stderr', 'deterministic', 'compile_errors', 'cxx_errors', 'link_errors',
                                  'desc_dump', 'desc_dump_rc', 'desc_dump_stderr', 'fd_dump', 'fd_dump_rc', 'fd_dump_stderr',
                                  'symbols')}
        keep.update(id=cid, model=model, model_rc=mrc, model_err=merr[:500], protos=protos, root=root, error=None,
                    headers={k: v for k, v in r['generated'].items() if k.endswith('.h')})
        return keep
    except Exception as e:     # noqa: BLE001
        import traceback
        return {'id': cid, 'error': 'harness exception: %s\n%s' % (e, traceback.format_exc()[-1500:])}


def run_cases(cases, jobs=None):
    genloop.ensure_plugin()
    genloop.build_tools()
    jobs = jobs or min(16, os.cpu_count() or 4)
    with concurrent.futures.ProcessPoolExecutor(max_workers=jobs) as ex:
        return list(ex.map(_one, cases))


def lines_of(text, kinds):
    ks = set(kinds)
    return [l for l in text.splitlines() if l.split(' ', 1)[0] in ks]


def mask_line(pid, l):
    """what each property compares of a line"""
    t = l.split(' ')
    if t[0] == 'MF':
        if pid in ('C13', 'C03'):
            t[9] = '*'            # the default column belongs to C12
        elif pid == 'C12':
            return 'MF %s %s %s' % (t[1], t[3], t[9])      # index, id, default
    if t[0] in ('MI', 'MU') and len(t) == 2 and '|' in t[1]:
        # a union whose case is NOT_SET holds nothing observable
        head, tail = t[1].split('|', 1)
        us = []
        for u in tail.split(',') if tail else []:
            c, _, b = u.partition(':')
            us.append(c + ':' + ('-' if c == '0' else b))
        return t[0] + ' ' + head + '|' + ','.join(us)
    return ' '.join(t)


def kind_diff(pid, real, model):
    a = [mask_line(pid, l) for l in lines_of(real, KINDS[pid])]
    b = [mask_line(pid, l) for l in lines_of(model, KINDS[pid])]
    if a == b:
        return []
    import difflib
    return [l for l in difflib.unified_diff(a, b, 'real', 'model', lineterm='', n=0) if not l.startswith(('---', '+++', '@@'))]


# ------------------------------------------------------------------ oracles on the real output
LABEL = {('OPT', 2): 'OPT', ('OPT', 3): 'NONE', ('REQ', 2): 'REQ', ('REP', 2): 'REP', ('REP', 3): 'REP'}
PACKABLE = {'DOUBLE', 'FLOAT', 'INT64', 'UINT64', 'INT32', 'FIXED64', 'FIXED32', 'BOOL', 'UINT32', 'ENUM', 'SFIXED32',
            'SFIXED64', 'SINT32', 'SINT64'}
CTYPE = {'INT32': 'int32_t', 'SINT32': 'int32_t', 'SFIXED32': 'int32_t', 'INT64': 'int64_t', 'SINT64': 'int64_t', 'SFIXED64': 'int64_t',
         'UINT32': 'uint32_t', 'FIXED32': 'uint32_t', 'UINT64': 'uint64_t', 'FIXED64': 'uint64_t', 'FLOAT': 'float', 'DOUBLE': 'double',
         'BOOL': 'protobuf_c_boolean', 'BYTES': 'ProtobufCBinaryData'}
T4 = {'INT32', 'SINT32', 'SFIXED32', 'UINT32', 'FIXED32', 'FLOAT', 'ENUM', 'BOOL'}


def parse(r):
    return genloop.parse_fd_dump(r['fd_dump']), genloop.parse_desc_dump(r['desc_dump'])


def oracle_C13(r):
    """every message / enum / service of the schema has a descriptor that says what the schema says"""
    out = []
    fd, dd = parse(r)
    md = {m['name']: m for m in dd['messages'] if m['name'] is not None}
    ed = {e['name']: e for e in dd['enums'] if e['name'] is not None}
    sd = {s['name']: s for s in dd['services'] if s['name'] is not None}
    all_enums = {}
    for f in fd:
        for e in f['enums']:
            all_enums[e['full_name']] = e
    for f in fd:
        if f['no_generate']:
            continue
        cs = f['optimize_for'] == 'CODE_SIZE'
        n_expected = len(f['messages'])
        if cs:
            # names are NULL under CODE_SIZE: only counts and per-field facts can be checked positionally by the model tie
            continue
        for m in f['messages']:
            d = md.get(m['full_name'])
            if d is None:
                out.append('message %r has no descriptor' % m['full_name']); continue
            if d['package_name'] != f['package']:
                out.append('message %r: package_name %r != %r' % (m['full_name'], d['package_name'], f['package']))
            if not d['sizeof_ok']:
                out.append('message %r: sizeof_message implausible' % m['full_name'])
            if d['nfields'] != len(m['fields']):
                out.append('message %r: %d fields in the descriptor, %d in the schema' % (m['full_name'], d['nfields'], len(m['fields'])))
                continue
            ids = [x['id'] for x in d['fields']]
            if ids != sorted(ids) or len(set(ids)) != len(ids):
                out.append('message %r: descriptor fields not strictly ascending by number' % m['full_name'])
            by_id = {x['id']: x for x in d['fields']}
            for fl in m['fields']:
                x = by_id.get(fl['number'])
                if x is None:
                    out.append('message %r: field %d missing from the descriptor' % (m['full_name'], fl['number'])); continue
                want_name = fl['name']
                if f['use_oneof_field_name'] and fl['oneof_index'] >= 0:
                    want_name = dict(m['oneofs'])[fl['oneof_index']]
                if x['name'] != want_name:
                    out.append('message %r field %d: name %r != %r' % (m['full_name'], fl['number'], x['name'], want_name))
                wl = LABEL[(fl['label'], f['syntax'])]
                if x['label'] != wl:
                    out.append('message %r field %d: label %s != %s' % (m['full_name'], fl['number'], x['label'], wl))
                wt = fl['type']
                if wt == 'STRING' and fl['string_as_bytes']:
                    wt = 'BYTES'
                if wt == 'GROUP':
                    wt = 'MESSAGE'
                if x['type'] != wt:
                    out.append('message %r field %d: type %s != %s' % (m['full_name'], fl['number'], x['type'], wt))
                packed = fl['label'] == 'REP' and fl['type'] in PACKABLE and (fl['packed'] == '1' or (fl['packed'] == '-' and f['syntax'] == 3))
                flags = (1 if packed else 0) | (2 if fl['deprecated'] else 0) | (4 if fl['oneof_index'] >= 0 else 0)
                if x['flags'] != flags:
                    out.append('message %r field %d: flags %d != %d' % (m['full_name'], fl['number'], x['flags'], flags))
                if fl['type'] in ('MESSAGE', 'ENUM'):
                    want = 's:' + fl['type_name'].hex()
                    if x['desc'] != want and x['desc'] != 'NULL':      # NULL: the name of a CODE_SIZE descriptor
                        out.append('message %r field %d: refers to %r, schema says %r' % (m['full_name'], fl['number'], x['desc'], fl['type_name']))
                elif x['desc'] is not None:
                    out.append('message %r field %d: unexpected descriptor pointer' % (m['full_name'], fl['number']))
                if not x['off_ok']:
                    out.append('message %r field %d: offset / quantifier_offset outside the struct, misaligned or overlapping' % (m['full_name'], fl['number']))
                wq = 'K' if fl['label'] == 'REP' else None
                if fl['label'] != 'REP':
                    if fl['oneof_index'] >= 0:
                        wq = 'C'
                    elif fl['label'] == 'REQ' or f['syntax'] == 3 or wt in ('STRING', 'MESSAGE'):
                        wq = 'N'
                    else:
                        wq = 'H'
                if not x['quant'].startswith(wq):
                    out.append('message %r field %d: quantifier kind %s, expected %s' % (m['full_name'], fl['number'], x['quant'], wq))
        # the C types of the struct members (read from the generated header)
        hdr = '\n'.join(r.get('headers', {}).values())
        for m in f['messages']:
            d = md.get(m['full_name'])
            if d is None or d['c_name'] is None:
                continue
            mm = re.search(r'struct\s+%s\s*\n\{(.*?)\n\};' % re.escape(d['c_name'].decode()), hdr, re.S)
            if not mm:
                out.append('message %r: no struct %s in the generated header' % (m['full_name'], d['c_name'].decode())); continue
            body = mm.group(1)
            for fl in m['fields']:
                t = 'BYTES' if (fl['type'] == 'STRING' and fl['string_as_bytes']) else fl['type']
                base = CTYPE.get(t)
                stars = 0
                if t == 'STRING':
                    base, stars = 'char', 1
                elif t == 'ENUM':
                    e2 = ed.get(fl['type_name'])
                    base = e2['c_name'].decode() if e2 and e2['c_name'] else None
                elif t in ('MESSAGE', 'GROUP'):
                    m2 = md.get(fl['type_name'])
                    base = m2['c_name'].decode() if m2 and m2['c_name'] else None
                    stars = 1
                if base is None:
                    continue
                if fl['label'] == 'REP':
                    stars += 1
                member = fl['name'].decode().lower()
                rx = r'^\s*(?:const\s+)?%s\s*%s\s*%s_?\s*(?:PROTOBUF_C__DEPRECATED\s*)?;' % (re.escape(base), r'\s*'.join(['\*'] * stars), re.escape(member))
                if not re.search(rx, body, re.M):
                    got = re.search(r'^\s*([^;\n]*?)\b%s_?\s*(?:PROTOBUF_C__DEPRECATED\s*)?;' % re.escape(member), body, re.M)
                    out.append('message %r field %d (%s %s): struct member is declared %r, expected %s %s'
                               % (m['full_name'], fl['number'], fl['label'], t, got.group(1).strip() if got else None, base, '*' * stars))
        for e in f['enums']:
            d = ed.get(e['full_name'])
            if d is None:
                out.append('enum %r has no descriptor' % e['full_name']); continue
            nums = sorted(set(v for _, v in e['values']))
            got = [v[3] for v in d['values']]
            if got != nums:
                out.append('enum %r: values array %r != distinct declared numbers %r' % (e['full_name'], got[:8], nums[:8]))
            if d['by_name'] is not None:
                names = sorted(n for n, _ in e['values'])
                gotn = [n for n, _ in d['by_name']]
                if gotn != names:
                    out.append('enum %r: values_by_name is not the sorted list of all declared names' % e['full_name'])
                num_of = dict(e['values'])
                for n, idx in d['by_name']:
                    if not (0 <= idx < len(d['values'])) or d['values'][idx][3] != num_of.get(n):
                        out.append('enum %r: name %r maps to the wrong value' % (e['full_name'], n)); break
        for s in f['services']:
            d = sd.get(s['full_name'])
            if d is None:
                out.append('service %r has no descriptor' % s['full_name']); continue
            unhex = lambda tok: None if not tok.startswith('s:') else bytes.fromhex(tok[2:])   # NULL: name of a CODE_SIZE descriptor
            got = [(m[1], unhex(m[2]), unhex(m[3])) for m in d['methods']]
            want = [tuple(m) for m in s['methods']]
            same = len(got) == len(want) and all(g[0] == w[0] and g[1] in (None, w[1]) and g[2] in (None, w[2]) for g, w in zip(got, want))
            if not same:
                out.append('service %r: methods differ from the schema (name, input, output, in declaration order)' % s['full_name'])
    return out


def dec_default(fl):
    """declared default of a schema field as the descriptor token"""
    t, d = fl['type'], fl['default']
    if t in ('STRING', 'BYTES'):
        return d[2:]
    if t in ('FLOAT', 'DOUBLE'):
        return int(d[2:], 16)
    v = int(d)
    return v & (0xffffffff if t in T4 else 0xffffffffffffffff)


def oracle_C12(r):
    """MF default / MI / MU against the defaults declared in the schema"""
    out = []
    fd, dd = parse(r)
    md = {m['name']: m for m in dd['messages'] if m['name'] is not None}
    enums = {}
    for f in fd:
        for e in f['enums']:
            enums[e['full_name']] = e
    for f in fd:
        if f['no_generate'] or f['optimize_for'] == 'CODE_SIZE':
            continue
        for m in f['messages']:
            d = md.get(m['full_name'])
            if d is None or d['nfields'] != len(m['fields']) or d['MI'] is None:
                continue
            mu = None if d['MU'] in (None, 'FAIL') else d['MU'].split('|')[0].split(',')
            if d['has_init']:
                init_line = d['MI']
            elif mu is not None:
                init_line = d['MU']         # no generated initialiser: the initial state is what parsing nothing gives
            else:
                continue
            mi = init_line.split('|')[0].split(',') if d['nfields'] else []
            cases_mi = init_line.split('|')[1] if '|' in init_line else ''
            for u in cases_mi.split(','):
                if u and not u.startswith('0:'):
                    out.append('message %r: a oneof is not NOT_SET after init (%s)' % (m['full_name'], u))
            by_id = {x['id']: x for x in d['fields']}
            req_nodefault = False
            for fl in m['fields']:
                x = by_id.get(fl['number'])
                if x is None or x['index'] >= len(mi):
                    continue
                tok = mi[x['index']]
                q, _, cell = tok.partition('/')
                t = 'BYTES' if (fl['type'] == 'STRING' and fl['string_as_bytes']) else fl['type']
                where = 'message %r field %d (%s)' % (m['full_name'], fl['number'], t)
                if fl['oneof_index'] >= 0 and fl['label'] == 'OPT':
                    continue
                if fl['label'] == 'REP':
                    if tok != '0/RN':
                        out.append(where + ': repeated field not empty after init: ' + tok)
                    continue
                if q not in ('-', '0'):
                    out.append(where + ': has_ flag set after init: ' + tok)
                if fl['label'] == 'REQ' and not fl['has_default']:
                    req_nodefault = True
                if fl['has_default']:
                    dv = dec_default(fl)
                    if t == 'STRING':
                        want_mf, want_cell = 's:' + dv, 'TD'
                    elif t == 'BYTES':
                        want_mf, want_cell = 'b:' + dv, 'B%dD' % (len(dv) // 2)
                    else:
                        want_mf, want_cell = 'w:%016x' % dv, 'W%016x' % dv
                    if x['default'] != want_mf:
                        out.append(where + ': descriptor default %s, declared %s' % (x['default'], want_mf))
                    if cell != want_cell:
                        out.append(where + ': value after init %s, declared default %s' % (cell, want_cell))
                else:
                    if t == 'STRING':
                        ok = cell in (('TD',) if f['syntax'] == 3 else ('TN',))
                    elif t == 'BYTES':
                        ok = cell in ('B0N', 'B0D')
                    elif t == 'MESSAGE' or t == 'GROUP':
                        ok = cell == 'GN'
                    elif t == 'ENUM':
                        e = enums.get(fl['type_name'])
                        first = e['values'][0][1] & 0xffffffff if e and e['values'] else 0
                        ok = cell == 'W%016x' % first
                    else:
                        ok = cell == 'W%016x' % 0
                    if not ok:
                        out.append(where + ': value after init %s is not the implicit default' % cell)
                if mu is not None and x['index'] < len(mu) and mu[x['index']] != tok:
                    out.append(where + ': parsing empty input gives %s, the initialiser %s' % (mu[x['index']], tok))
            if d['MU'] == 'FAIL' and not req_nodefault:
                out.append('message %r: parsing empty input fails although no required field lacks a default' % m['full_name'])
    return out


def effective_helpers(f):
    """{full_name: (gen_pack, gen_init)} following the documented inheritance of the options"""
    res = {}
    msgs = {m['full_name']: m for m in f['messages']}

    def children(full):
        pre = full + b'.'
        return [m for m in f['messages'] if m['full_name'].startswith(pre) and b'.' not in m['full_name'][len(pre):]]

    def opt(m, k):
        return None if m[k] == '-' else (m[k] == '1')

    def walk(m, deep, gp, gi):
        if opt(m, 'gen_pack_helpers') is not None:
            gp = opt(m, 'gen_pack_helpers')
        if opt(m, 'gen_init_helpers') is not None:
            gi = opt(m, 'gen_init_helpers')
        for c in children(m['full_name']):
            np_ = (opt(m, 'gen_pack_helpers') or False) if not deep else gp
            walk(c, True, np_, gi)
        res[m['full_name']] = (gp, gi)
    has_gp = f.get('has_gen_pack_helpers')
    for m in f['messages']:
        if not m['is_nested']:
            walk(m, bool(has_gp), bool(f['gen_pack_helpers']), bool(f['gen_init_helpers']))
    return res


def oracle_C15(r):
    out = []
    if r['fd_dump_rc'] != 0:
        return ['schema rejected by libprotobuf itself (generator bug in the harness): ' + r['fd_dump_stderr'][:300]]
    if r['protoc_rc'] != 0:
        out.append('protoc-gen-c failed (exit %s): %s' % (r['protoc_rc'], r['protoc_stderr'][:400]))
        return out
    if not r['deterministic']:
        out.append('two runs of the generator on the same schema gave different output')
    for e in r['compile_errors']:
        out.append('generated %s does not compile as C (-std=%s): %s' % (e['file'], e['std'], e['stderr'][:600]))
    for e in r['cxx_errors']:
        out.append('generated %s does not compile as C++: %s' % (e['file'], e['stderr'][:600]))
    for e in r['link_errors']:
        out.append('generated code does not link: %s' % e['stderr'][:600])
    if r['desc_dump_rc'] not in (0, None):
        out.append('running code linked against the generated descriptors crashed (exit %s) %s' % (r['desc_dump_rc'], r['desc_dump_stderr'][:300]))
    if out:
        return out
    # the per-message API the options call for: count the helper groups among the defined symbols
    try:
        fd = genloop.parse_fd_dump(r['fd_dump'])
    except Exception as e:    # noqa: BLE001
        return ['fd_dump unreadable: %s' % e]
    want_pack = want_init = 0
    for f in fd:
        if f['no_generate']:
            continue
        text = r['protos'].get(f['name'].decode(), '')
        if isinstance(text, bytes):
            text = text.decode('utf-8', 'replace')
        f['has_gen_pack_helpers'] = bool(re.search(r'\(\s*pb_c_file\s*\)\s*\.\s*gen_pack_helpers', text))
        f['has_c_package'] = bool(re.search(r'\(\s*pb_c_file\s*\)\s*\.\s*c_package\s*=', text))
        for full, (gp, gi) in effective_helpers(f).items():
            if full in [m['full_name'] for m in f['messages'] if m['no_generate']]:
                continue
            want_pack += 1 if gp else 0
            want_init += 1 if gi else 0
    syms = set(r['symbols'])
    # ... under the documented names: <package, or c_package when the file sets it>__<message path>, each component
    # CamelCase -> lower_case, components joined by a double underscore (computed from the schema, not read off the output)
    def camel_lower(x):
        o, was_upper = '', True
        for ch in x:
            if ch.isupper():
                o += ('' if was_upper else '_') + ch.lower(); was_upper = True
            else:
                o += ch; was_upper = False
        return o
    def c_lower(f, full):
        full = full.decode() if isinstance(full, bytes) else full
        pkg = f['package'].decode() if isinstance(f['package'], bytes) else f['package']
        cp = f['c_package'].decode() if isinstance(f['c_package'], bytes) else f['c_package']
        if cp or f.get('has_c_package'):      # the option replaces the package even when it is set to the empty string
            rest = full[len(pkg):] if pkg else '.' + full
            full = cp + rest
        return '__'.join(camel_lower(c) for c in full.split('.') if c)     # empty components are skipped (SplitStringUsing)
    for f in fd:
        if f['no_generate']:
            continue
        for full, (gp, gi) in effective_helpers(f).items():
            if full in [m['full_name'] for m in f['messages'] if m['no_generate']]:
                continue
            base = c_lower(f, full)
            missing = [suf for suf, need in (('__descriptor', True), ('__init', gi), ('__pack', gp), ('__unpack', gp), ('__free_unpacked', gp),
                                             ('__get_packed_size', gp), ('__pack_to_buffer', gp)) if need and (base + suf) not in syms]
            if missing and len(out) < 3:
                out.append('message %s: the API is not provided under the documented name: no symbol %s%s' % (full.decode() if isinstance(full, bytes) else full, base, missing[0]))
    packs = [x[:-6] for x in syms if x.endswith('__pack')]
    groups_ok = [p for p in packs if all((p + suf) in syms for suf in ('__get_packed_size', '__pack_to_buffer', '__unpack', '__free_unpacked', '__descriptor'))]
    n_desc = len([x for x in syms if x.endswith('__descriptor')])
    inits = [x for x in syms if x.endswith('__init') and (x[:-6] + '__descriptor') in syms]
    n_msgs = sum(len([m for m in f['messages']]) for f in fd if not f['no_generate'])
    n_svc = sum(len(f['services']) for f in fd if not f['no_generate'])
    n_msg_inits = len(inits) - n_svc         # services have <svc>__init too
    if len(groups_ok) != len(packs):
        out.append('a message has __pack but not the whole group get_packed_size/pack/pack_to_buffer/unpack/free_unpacked')
    if len(packs) != want_pack:
        out.append('pack helper groups defined for %d messages, the options call for %d' % (len(packs), want_pack))
    if n_msg_inits != want_init:
        out.append('init functions defined for %d messages, the options call for %d' % (n_msg_inits, want_init))
    return out


def oracle_C20(r):
    out = []
    fd, dd = parse(r)
    for s in dd['services']:
        tests = s.get('service_tests', [])
        n = s['nmethods']
        ss = [t for t in tests if t[0] == 'SS']
        if len(ss) != n:
            out.append('service %r: %d stubs exercised, %d methods' % (s['name'], len(ss), n))
        for t in ss:
            _, mi, hi, a, b, c = t
            if hi != mi:
                out.append('service %r: the stub of method %d invoked handler %d' % (s['name'], mi, hi))
            if not (a and b and c):
                out.append('service %r method %d: input / closure / closure_data not passed through unchanged (%d %d %d)' % (s['name'], mi, a, b, c))
        for t in tests:
            if t[0] == 'SI' and t[1:] != (1, 1, 1):
                out.append('service %r: init did not record descriptor+invoke / destroy / clear the handlers %r' % (s['name'], t[1:]))
            if t[0] == 'SX' and t[1:] != (1,):
                out.append('service %r: destroy did not call the recorded callback with the service' % s['name'])
        if not any(t[0] == 'SI' for t in tests) or not any(t[0] == 'SX' for t in tests):
            out.append('service %r: init / destroy not exercised' % s['name'])
    return out


def oracle_C14(r):
    """every existing name / number is found at an entry that carries it; every other key is rejected"""
    out = []
    fd, dd = parse(r)
    uofn = any(f['use_oneof_field_name'] for f in fd)
    for m in dd['messages']:
        names = [x['name'] for x in m['fields']]
        for key, idx in m.get('lookups_by_name', []):
            if m['by_name'] is None:
                if idx != -1:
                    out.append('message %r: by-name lookup without a table returned %d' % (m['name'], idx))
                continue
            if idx == -1:
                if key in names:
                    out.append('message %r: existing field name %r not found' % (m['name'], key))
            elif not (0 <= idx < len(names)) or names[idx] != key:
                out.append('message %r: lookup of %r returned entry %d (%r)' % (m['name'], key, idx, names[idx] if 0 <= idx < len(names) else None))
        ids = [x['id'] for x in m['fields']]
        for k, idx in m.get('lookups_by_number', []):
            if idx == -1:
                if k in ids:
                    out.append('message %r: existing field number %d not found' % (m['name'], k))
            elif not (0 <= idx < len(ids)) or ids[idx] != k:
                out.append('message %r: lookup of number %d returned entry %d' % (m['name'], k, idx))
    for e in dd['enums']:
        vals = [v[3] for v in e['values']]
        by = dict(e['by_name']) if e['by_name'] else {}
        for key, idx in e.get('lookups_by_name', []):
            if e['by_name'] is None:
                if idx != -1:
                    out.append('enum %r: by-name lookup without a table returned %d' % (e['name'], idx))
                continue
            if idx == -1:
                if key in by:
                    out.append('enum %r: existing value name %r not found' % (e['name'], key))
            elif key not in by or by[key] != idx:
                out.append('enum %r: lookup of %r returned entry %d' % (e['name'], key, idx))
        for k, idx in e.get('lookups_by_number', []):
            sk = k - (1 << 32) if k >= (1 << 31) else k
            if idx == -1:
                if sk in vals:
                    out.append('enum %r: existing number %d not found' % (e['name'], sk))
            elif not (0 <= idx < len(vals)) or vals[idx] != sk:
                out.append('enum %r: lookup of number %d returned entry %d' % (e['name'], sk, idx))
    for s in dd['services']:
        names = [m[1] for m in s['methods']]
        for key, idx in s.get('lookups_by_name', []):
            if s['by_name'] is None:
                if idx != -1:
                    out.append('service %r: by-name lookup without a table returned %d' % (s['name'], idx))
                continue
            if idx == -1:
                if key in names:
                    out.append('service %r: existing method %r not found' % (s['name'], key))
            elif not (0 <= idx < len(names)) or names[idx] != key:
                out.append('service %r: lookup of %r returned entry %d' % (s['name'], key, idx))
    return out


ORACLES = {'C03': oracle_C13, 'C01': oracle_C13, 'C16': (lambda r: oracle_C12(r) + oracle_C13(r)), 'C12': oracle_C12, 'C13': oracle_C13, 'C14': oracle_C14, 'C15': oracle_C15, 'C20': oracle_C20}


# ------------------------------------------------------------------ known findings (committed file; never written here)
def load_findings(pid):
    d = json.load(open(os.path.join(ROOT, 'known_findings.json')))
    return [f for f in d.get('findings', []) if f.get('property') == pid]


def finding_matches(f, messages):
    """a listed finding is recognised by its reproducer and a regular expression on the failure text"""
    rx = re.compile(f['match'], re.S)
    return any(rx.search(m) for m in messages)


def generator_part(run, pid, tier, seed, n_quick=40, n_thorough=500, extra_ok=None):
    """runs the cases, reports model<->tool disagreements and oracle failures for property pid.
    returns statistics dict"""
    t0 = time.time()
    cases = case_list(tier, seed, n_quick, n_thorough)
    res = run_cases(cases)
    stats = {'cases': len(res), 'agree': 0, 'messages': 0, 'enums': 0, 'services': 0, 'lines_compared': 0,
             'oracle_failures': 0, 'harness_errors': 0}
    for r in res:
        if r.get('error'):
            stats['harness_errors'] += 1
            if len(run.violations) < 3:
                run.violation(run.replay('gen-harness-%s.txt' % r['id'], r['error']), True)
            continue
        problems = []
        c15 = oracle_C15(r)
        if pid == 'C15':
            problems += c15
        elif c15 and pid == 'C20' and '\nSVC ' in ('\n' + r.get('fd_dump', '')) and any('svct' in x or '_Service' in x or '__INIT' in x for x in c15):
            # the per-service test (handlers installed through <SVC>__INIT, every stub called) does not even build
            problems += ['the generated service structure / initialiser / stubs are inconsistent: ' + x for x in c15[:3]]
        elif c15:
            # the case could not be built: C15 reports it; nothing to compare here
            stats.setdefault('unbuildable', 0); stats['unbuildable'] += 1
            continue
        if pid != 'C15' and not (c15 and pid == 'C20'):
            if r['model_rc'] != 0:
                problems.append('model driver failed: ' + r['model_err'])
            else:
                d = kind_diff(pid, r['desc_dump'], r['model'])
                stats['lines_compared'] += len(lines_of(r['desc_dump'], KINDS[pid]))
                if d:
                    problems.append('generator model <-> protoc-gen-c disagree (- real, + model):\n' + '\n'.join(d[:40]))
            try:
                o = ORACLES[pid](r) if pid in ORACLES else []
            except Exception as e:    # noqa: BLE001
                o = ['oracle could not read the dumps: %s' % e]
            if o:
                stats['oracle_failures'] += 1
                problems += ['oracle on the generated code: ' + x for x in o[:12]]
        try:
            _, dd = parse(r)
            stats['messages'] += len(dd['messages']); stats['enums'] += len(dd['enums']); stats['services'] += len(dd['services'])
        except Exception:   # noqa: BLE001
            pass
        if not problems:
            stats['agree'] += 1
            continue
        # a random schema may contain the shape of a listed finding: recognised only if EVERY failing line is of that shape
        flat = [l for pr in problems for l in pr.splitlines() if l.strip() and not l.startswith('generator model <-> protoc-gen-c disagree')]
        hit = None
        for f in load_findings(pid):
            if f.get('every_line') and all(re.search(f['every_line'], l) for l in flat):
                hit = f
        if hit is not None:
            stats.setdefault('known_finding_occurrences', 0); stats['known_finding_occurrences'] += 1
            k = '%s: %s' % (hit['reproducer'], hit['what'])
            if k not in run.known:
                run.known.append(k)
            continue
        if len(run.violations) < 3:
            text = '%s\n--- case %s: schema\n%s\n' % ('\n'.join(problems), r['id'],
                                                      '\n'.join('### %s\n%s' % (k, v if isinstance(v, str) else v.decode('utf-8', 'replace'))
                                                                for k, v in r['protos'].items()))
            run.violation(run.replay('gen-%s.txt' % r['id'], text), False)
    # known findings: each reproducer must still fail the way the file says; otherwise nothing is printed for it
    for f in load_findings(pid):
        path = os.path.join(FINDINGS, f['reproducer'])
        if not os.path.exists(path):
            continue
        r = _one(path)
        msgs = []
        if r.get('error'):
            msgs.append(r['error'])
        else:
            msgs += oracle_C15(r)
            if not msgs and pid != 'C15':
                if r['model_rc'] == 0:
                    d = kind_diff(pid, r['desc_dump'], r['model'])
                    if d:
                        msgs.append('generator model <-> protoc-gen-c disagree:\n' + '\n'.join(d[:40]))
                try:
                    msgs += ORACLES[pid](r) if pid in ORACLES else []
                except Exception as e:   # noqa: BLE001
                    msgs.append('oracle could not read the dumps: %s' % e)
        if not msgs:
            continue                       # no longer fails: nothing to report
        if finding_matches(f, msgs):
            k = '%s: %s' % (f['reproducer'], f['what'])
            if k not in run.known:
                run.known.append(k)
        else:
            run.violation(run.replay('gen-finding-%s.txt' % f['reproducer'],
                                     'the reproducer of a listed finding now fails differently:\n' + '\n'.join(msgs)[:3000]), False)
    stats['wall_s'] = round(time.time() - t0, 1)
    return stats

(* Dispatch: every canonical slot has a field package. *)
From Coq Require Import ZArith List Bool Lia ZifyBool.
From PBC Require Import Base.CInt Base.Bits Base.Bits2 Gen.LeafC Spec.Wire
     Impl.Desc Impl.Mem Impl.Enc Impl.Pack Impl.WF Impl.Unpack Impl.Canon
     Proofs.LeafEnc Proofs.EncLemmas Proofs.LeafDec Proofs.SizePack Proofs.SizePackRep
     Proofs.ScanRec Proofs.ScanRecs Proofs.CellRT Proofs.CellRT2 Proofs.PackedDec Proofs.FieldRT Proofs.FieldRT2
     Proofs.MsgInd Proofs.FieldPkg.
Import ListNotations.
Local Open Scope Z_scope.

Lemma with_nth_cases : forall A B (k : A -> B) d l g,
  (exists x, nth_error l g = Some x /\ with_nth k d l g = k x) \/ (nth_error l g = None /\ with_nth k d l g = d).
Proof.
  intros A B k d l. induction l as [|x l IH]; intros g.
  - right. destruct g; split; reflexivity.
  - destruct g as [|g]; cbn [with_nth nth_error].
    + left. exists x. split; reflexivity.
    + apply IH.
Qed.

Section Dispatch.
Variable E : env.
Variable usub : nat -> list Z -> res msg.
Variable md : mdesc.
Variable lim : Z.
Hypothesis Hlim : lim <= 2147483647.

Notation SubIH v := (forall m, v = VMsg (Some m) -> sub_rt E usub lim m).

Lemma canon_not_absent : forall f v, canon_cell (canon_msg E) f v = true -> ptr_absent f v = Ok false.
Proof.
  intros f v C. unfold canon_cell, ptr_absent in *.
  destruct (f_type f); try reflexivity.
  - destruct v as [| [| |s] | |]; try discriminate C. reflexivity.
  - destruct v as [| | | [m|]]; try discriminate C. reflexivity.
Qed.

Lemma init_absent : forall f, (f_type f = TString \/ f_type f = TMessage) -> ptr_absent f (init_cell f) = Ok true.
Proof.
  intros f [H|H]; unfold ptr_absent, init_cell; rewrite H; [destruct (f_default f)|]; reflexivity.
Qed.

Lemma field_package : forall nu i f s um F,
  nth_error (md_fields md) i = Some f -> field_ok nu f = true -> 0 < f_id f < 536870912 ->
  (f_label f = LNone -> zeroish f (init_cell f) = Ok true) ->
  canon_slot (canon_msg E) um f s = true ->
  slot_all (fun v => SubIH v) s ->
  Forall (fun cv : Z * sval => SubIH (snd cv)) um ->
  pk_field (pack_msg E) um f s = Ok F -> zlen F <= lim ->
  fpkg E usub md i f s um F.
Proof.
  intros nu i f s um F Hn Hfo Hid Hz C HS HU Hpk Hlen.
  unfold field_ok in Hfo. rewrite !andb_true_iff in Hfo. destruct Hfo as [[[_ Hlq] Hpacked] _].
  unfold canon_slot in C. unfold pk_field in Hpk.
  destruct (f_label f) eqn:El.
  - (* required *)
    destruct s as [h v| |]; try discriminate C.
    apply andb_true_iff in C. destruct C as [Hh Cv]. apply Z.eqb_eq in Hh. subst h.
    destruct (f_quant f); try discriminate Hlq. apply negb_true_iff in Hlq.
    apply (fpkg_single E usub md lim i f 0 v um F Hn Hlq); [rewrite El; reflexivity | | exact Hpk | exact Hlen | rewrite El; reflexivity].
    apply (cell_rt_holds E usub lim Hlim); [exact Cv | exact HS].
  - (* optional *)
    destruct s as [h v| |g]; try discriminate C.
    + destruct (f_quant f) eqn:Eq; try discriminate Hlq.
      * (* no quantifier: string / message *)
        apply andb_true_iff in Hlq. destruct Hlq as [Ho Hty]. apply negb_true_iff in Ho. rewrite Ho in Hpk.
        apply andb_true_iff in C. destruct C as [Hh C]. apply Z.eqb_eq in Hh. subst h.
        assert (Hsm : f_type f = TString \/ f_type f = TMessage).
        { apply orb_true_iff in Hty. destruct Hty as [H|H]; [left | right]; destruct (f_type f); try discriminate H; reflexivity. }
        apply orb_true_iff in C. destruct C as [Ci | Cv].
        -- apply shallow_eq in Ci. subst v. unfold pk_optional in Hpk.
           assert (Hab := init_absent f Hsm).
           destruct Hsm as [Ht|Ht]; rewrite Ht in Hpk; rewrite Hab in Hpk; cbn [bind] in Hpk; inversion Hpk;
             apply fpkg_absent; try reflexivity; try (rewrite El; discriminate); try (intros E0; rewrite El in E0; discriminate); try (intros g0 Hg0; discriminate Hg0).
        -- unfold pk_optional in Hpk. assert (Hna := canon_not_absent f v Cv).
           assert (Hpk' : pk_required (pack_msg E) f v = Ok F).
           { destruct Hsm as [Ht|Ht]; rewrite Ht in Hpk; rewrite Hna in Hpk; exact Hpk. }
           apply (fpkg_single E usub md lim i f 0 v um F Hn Ho); [rewrite El; reflexivity | | exact Hpk' | exact Hlen | rewrite El, Eq; reflexivity].
           apply (cell_rt_holds E usub lim Hlim); [exact Cv | exact HS].
      * (* has flag *)
        rewrite !andb_true_iff in Hlq. destruct Hlq as [[Ho Hns] Hnm]. apply negb_true_iff in Ho. rewrite Ho in Hpk.
        unfold pk_optional in Hpk.
        assert (Hpk2 : (if h =? 0 then Ok [] else pk_required (pack_msg E) f v) = Ok F).
        { destruct (f_type f); try discriminate Hns; try discriminate Hnm; exact Hpk. }
        destruct (Z.eqb_spec h 0) as [-> | Hh].
        -- apply shallow_eq in C. subst v. inversion Hpk2.
           apply fpkg_absent; try reflexivity; try (rewrite El; discriminate); try (intros E0; rewrite El in E0; discriminate); try (intros g0 Hg0; discriminate Hg0).
        -- apply andb_true_iff in C. destruct C as [Hh1 Cv]. apply Z.eqb_eq in Hh1. subst h.
           apply (fpkg_single E usub md lim i f 1 v um F Hn Ho); [rewrite El; reflexivity | | exact Hpk2 | exact Hlen | rewrite El, Eq; reflexivity].
           apply (cell_rt_holds E usub lim Hlim); [exact Cv | exact HS].
      * apply andb_true_iff in Hlq. destruct Hlq as [Ho _]. rewrite Ho in Hpk. discriminate Hpk.
    + (* oneof member *)
      destruct (f_quant f) eqn:Eq; try discriminate Hlq;
        try (rewrite !andb_true_iff in Hlq; destruct Hlq as [[Ho _] _]; apply negb_true_iff in Ho; rewrite Ho in Hpk; discriminate Hpk);
        try (rewrite !andb_true_iff in Hlq; destruct Hlq as [Ho _]; apply negb_true_iff in Ho; rewrite Ho in Hpk; discriminate Hpk).
      apply andb_true_iff in Hlq. destruct Hlq as [Ho _]. rewrite Ho in Hpk.
      apply andb_true_iff in C. destruct C as [_ C].
      destruct (with_nth_cases _ _ (fun cv : Z * sval => if fst cv =? f_id f then canon_cell (canon_msg E) f (snd cv) else true) false um g)
        as [(x & Hx & Hw) | (Hx & Hw)]; rewrite Hw in C; [|discriminate C].
      destruct (with_nth_cases _ _ (fun cv : Z * sval => pk_oneof (pack_msg E) f (fst cv) (snd cv)) (Err EDesc) um g)
        as [(x1 & Hx1 & Hw1) | (Hx1 & _)]; [|congruence].
      assert (x1 = x) by congruence. subst x1. rewrite Hw1 in Hpk. destruct x as [case v]. cbn [fst snd] in *.
      unfold pk_oneof in Hpk.
      destruct (Z.eqb_spec case (f_id f)) as [-> | Hne]; cbn [negb] in Hpk.
      * rewrite (canon_not_absent f v C) in Hpk. cbn [bind] in Hpk.
        apply (fpkg_oneof E usub md lim i f g v um F Hn Ho (or_introl El)); [| exact Hx | exact Hpk | exact Hlen].
        apply (cell_rt_holds E usub lim Hlim); [exact C|]. rewrite Forall_forall in HU. exact (HU (f_id f, v) (nth_error_In _ _ Hx)).
      * inversion Hpk. apply fpkg_absent; try reflexivity; try (rewrite El; discriminate); try (intros E0; rewrite El in E0; discriminate).
        intros gg Hgg. inversion Hgg; subst gg. rewrite (nth_error_nth um g (0, VWord 0) Hx). cbn [fst]. exact Hne.
  - (* repeated *)
    destruct s as [|n cap arr|]; try discriminate C.
    destruct (f_quant f); try discriminate Hlq.
    destruct arr as [l|].
    + rewrite !andb_true_iff in C. destruct C as [[[[Hn0 Hnl] Hcap] Hn28] Hcells].
      apply Z.eqb_eq in Hnl, Hcap. subst n cap.
      assert (Hne : l <> []) by (intros ->; cbn in Hn0; lia).
      destruct (f_packed f) eqn:Ep.
      * apply andb_true_iff in Hpacked. destruct Hpacked as [_ Hs].
        destruct (words_of_canon E f l Hs Hcells) as (ws & -> & Hws).
        assert (Hzw : zlen (map VWord ws) = zlen ws) by (unfold zlen; rewrite map_length; reflexivity).
        rewrite Hzw in *.
        apply (fpkg_packed E usub md lim Hlim i f ws um F Hn El Ep Hs); try assumption; try lia.
        intros ->. apply Hne. reflexivity.
      * apply (fpkg_unpacked E usub md lim i f l um F Hn El Ep Hne); try assumption; try lia.
        cbn [slot_all] in HS. rewrite Forall_forall in *. intros v Hv. apply (cell_rt_holds E usub lim Hlim).
        -- rewrite forallb_forall in Hcells. exact (Hcells v Hv).
        -- exact (HS v Hv).
    + apply andb_true_iff in C. destruct C as [Hn0 Hc0]. apply Z.eqb_eq in Hn0, Hc0. subst n cap.
      unfold pk_repeated in Hpk. destruct (f_packed f); cbn [Z.eqb] in Hpk; inversion Hpk;
        apply fpkg_absent; try reflexivity; try (rewrite El; discriminate); try (intros g0 Hg0; discriminate Hg0).
  - (* none *)
    destruct s as [h v| |g]; try discriminate C.
    + destruct (f_quant f) eqn:Eq; try discriminate Hlq.
      * apply negb_true_iff in Hlq. rewrite Hlq in Hpk.
        apply andb_true_iff in C. destruct C as [Hh C]. apply Z.eqb_eq in Hh. subst h.
        unfold pk_unlabeled in Hpk.
        apply orb_true_iff in C. destruct C as [Ci | Cv].
        -- apply shallow_eq in Ci. subst v. rewrite (Hz eq_refl) in Hpk. cbn [bind] in Hpk. inversion Hpk.
           apply fpkg_absent; try reflexivity; try (rewrite El; discriminate); try (intros E0; rewrite El in E0; discriminate); try (intros g0 Hg0; discriminate Hg0).
        -- apply andb_true_iff in Cv. destruct Cv as [Cv Hzf].
           destruct (zeroish f v) as [[|]|e]; try discriminate Hzf. cbn [bind] in Hpk.
           apply (fpkg_single E usub md lim i f 0 v um F Hn Hlq); [rewrite El; reflexivity | | exact Hpk | exact Hlen | rewrite El, Eq; reflexivity].
           apply (cell_rt_holds E usub lim Hlim); [exact Cv | exact HS].
      * apply andb_true_iff in Hlq. destruct Hlq as [Ho _]. rewrite Ho in Hpk. discriminate Hpk.
    + destruct (f_quant f) eqn:Eq; try discriminate Hlq;
        try (apply negb_true_iff in Hlq; rewrite Hlq in Hpk; discriminate Hpk).
      apply andb_true_iff in Hlq. destruct Hlq as [Ho _]. rewrite Ho in Hpk.
      apply andb_true_iff in C. destruct C as [_ C].
      destruct (with_nth_cases _ _ (fun cv : Z * sval => if fst cv =? f_id f then canon_cell (canon_msg E) f (snd cv) else true) false um g)
        as [(x & Hx & Hw) | (Hx & Hw)]; rewrite Hw in C; [|discriminate C].
      destruct (with_nth_cases _ _ (fun cv : Z * sval => pk_oneof (pack_msg E) f (fst cv) (snd cv)) (Err EDesc) um g)
        as [(x1 & Hx1 & Hw1) | (Hx1 & _)]; [|congruence].
      assert (x1 = x) by congruence. subst x1. rewrite Hw1 in Hpk. destruct x as [case v]. cbn [fst snd] in *.
      unfold pk_oneof in Hpk.
      destruct (Z.eqb_spec case (f_id f)) as [-> | Hne]; cbn [negb] in Hpk.
      * rewrite (canon_not_absent f v C) in Hpk. cbn [bind] in Hpk.
        apply (fpkg_oneof E usub md lim i f g v um F Hn Ho (or_intror El)); [| exact Hx | exact Hpk | exact Hlen].
        apply (cell_rt_holds E usub lim Hlim); [exact C|]. rewrite Forall_forall in HU. exact (HU (f_id f, v) (nth_error_In _ _ Hx)).
      * inversion Hpk. apply fpkg_absent; try reflexivity; try (rewrite El; discriminate); try (intros E0; rewrite El in E0; discriminate).
        intros gg Hgg. inversion Hgg; subst gg. rewrite (nth_error_nth um g (0, VWord 0) Hx). cbn [fst]. exact Hne.
Qed.

End Dispatch.

(* Canonical in-memory messages: well-formed messages in the normal form the
   parser itself produces (has flags 0/1, booleans 0/1, scalars within their
   width, heap strings, counts equal to array lengths, absent fields holding
   their initial value).  Serialising and parsing such a message gives back
   the very same message (C01); every well-formed message has a canonical one
   with the same abstract value. *)
From Coq Require Import ZArith List Bool.
From PBC Require Import Base.CInt Gen.LeafC Spec.Wire Impl.Desc Impl.Mem Impl.Enc Impl.WF Impl.Unpack GenModel.Ranges.
Import ListNotations.
Local Open Scope Z_scope.

Definition is4 (t : ftype) : bool :=
  match t with
  | TInt32 | TSint32 | TSfixed32 | TUint32 | TFixed32 | TFloat | TBool | TEnum => true
  | _ => false
  end.

Definition canon_word (t : ftype) (w : Z) : bool :=
  match t with
  | TBool => (w =? 0) || (w =? 1)
  | _ => (0 <=? w) && (w <? (if is4 t then 4294967296 else 18446744073709551616))
  end.

(* a present (serialised) value of field f *)
Definition canon_cell (rec : msg -> bool) (f : field) (v : sval) : bool :=
  match f_type f with
  | TString => match v with VStr (PHeap s) => forallb char_ok s | _ => false end
  | TBytes =>
      match v with
      | VBytes len (PHeap s) => (0 <? len) && (len =? zlen s) && forallb byte_ok s
      | VBytes len PNull => len =? 0
      | _ => false
      end
  | TMessage => match v with VMsg (Some m) => rec m && Nat.eqb (m_desc m) (f_sub f) | _ => false end
  | t => match v with VWord w => canon_word t w | _ => false end
  end.

Definition sval_eqb_shallow (a b : sval) : bool :=
  match a, b with
  | VWord x, VWord y => x =? y
  | VStr PNull, VStr PNull | VStr PDef, VStr PDef => true
  | VBytes n PNull, VBytes k PNull | VBytes n PDef, VBytes k PDef => n =? k
  | VMsg None, VMsg None => true
  | _, _ => false
  end.

Definition canon_slot (rec : msg -> bool) (unions : list (Z * sval)) (f : field) (s : slot) : bool :=
  match f_label f, s with
  | LRepeated, SRep n cap arr =>
      match arr with
      | None => (n =? 0) && (cap =? 0)
      | Some l => (0 <? n) && (n =? zlen l) && (cap =? n) && (n <? 268435456) && forallb (canon_cell rec f) l
      end
  | LRequired, SOne has v => (has =? 0) && canon_cell rec f v
  | LOptional, SOne has v =>
      match f_quant f with
      | QHas => if has =? 0 then sval_eqb_shallow v (init_cell f) else (has =? 1) && canon_cell rec f v
      | _ => (has =? 0) && (sval_eqb_shallow v (init_cell f) || canon_cell rec f v)
      end
  | LNone, SOne has v =>
      (has =? 0) &&
      (sval_eqb_shallow v (init_cell f) ||
       (canon_cell rec f v && match zeroish f v with Ok false => true | _ => false end))
  | (LOptional | LNone), SUnion g =>
      match f_quant f with QCase g' => Nat.eqb g g' | _ => false end &&
      with_nth (fun cv : Z * sval => if fst cv =? f_id f then canon_cell rec f (snd cv) else true) false unions g
  | _, _ => false
  end.

Definition canon_slots (rec : msg -> bool) (unions : list (Z * sval)) : list field -> list slot -> bool :=
  fix go (fs : list field) (ss : list slot) {struct ss} : bool :=
    match fs, ss with
    | [], [] => true
    | f :: fs', s :: ss' => canon_slot rec unions f s && go fs' ss'
    | _, _ => false
    end.

(* the payload of an unknown field is what the scanner delimits for its wire type *)
Fixpoint take_varint (fuel : nat) (l : list Z) : option (list Z * list Z) :=
  match fuel, l with
  | S k, b :: t =>
      if b <? 128 then Some ([b], t)
      else match take_varint k t with Some (p, r) => Some (b :: p, r) | None => None end
  | _, _ => None
  end.

Definition unk_payload_ok (wt : Z) (data : list Z) : bool :=
  forallb byte_ok data &&
  (if wt =? 0 then match take_varint 10 data with Some (_, []) => true | _ => false end
   else if wt =? 1 then zlen data =? 8
   else if wt =? 5 then zlen data =? 4
   else if wt =? 2 then match take_varint 5 data with
                        | Some (lp, body) => (varint_val lp =? zlen body) && (zlen body <? 2147483648)
                        | None => false
                        end
   else false).

Definition canon_unk (ids : list Z) (u : ufield) : bool :=
  (0 <? u_tag u) && (u_tag u <? 536870912) && negb (existsb (Z.eqb (u_tag u)) ids) &&
  unk_payload_ok (u_wt u) (u_data u).

(* descriptor conditions: what protoc-gen-c guarantees (C13) *)
Fixpoint incrb (vs : list Z) : bool :=
  match vs with
  | v :: t => match t with w :: _ => (v <? w) && incrb t | [] => true end
  | [] => true
  end.

Definition desc_ok (nenv : nat) (md : mdesc) : bool :=
  let ids := map f_id (md_fields md) in
  incrb ids && forallb (fun id => (0 <? id) && (id <? 536870912)) ids &&
  forallb (field_ok (md_n_oneofs md)) (md_fields md) &&
  forallb (fun f => match f_type f with TMessage => Nat.ltb (f_sub f) nenv | _ => true end) (md_fields md) &&
  (Z.of_nat (length ids) <? 2147483648) &&
  (* ranges as emitted by the generator *)
  match mk_ranges ids with
  | (rs, n) => (n =? md_n_ranges md) &&
               Nat.eqb (length rs) (length (md_ranges md)) &&
               forallb (fun p => (start_value (fst p) =? start_value (snd p)) && (orig_index (fst p) =? orig_index (snd p)))
                       (combine rs (md_ranges md))
  end &&
  (* implicit-presence fields start out holding the zero value *)
  forallb (fun f => match f_label f with
                    | LNone => match zeroish f (init_cell f) with Ok true => true | _ => false end
                    | _ => true
                    end) (md_fields md).

Definition env_ok (E : env) : bool := forallb (desc_ok (length E)) E.

(* every union either selects one of its members or is in its initial state *)
Fixpoint canon_unions (fs : list field) (g : nat) (us : list (Z * sval)) : bool :=
  match us with
  | [] => true
  | cv :: t =>
      (existsb (fun f => (f_id f =? fst cv) && match f_quant f with QCase g' => Nat.eqb g g' | _ => false end) fs
       || ((fst cv =? 0) && sval_eqb_shallow (snd cv) (VWord 0))) &&
      canon_unions fs (S g) t
  end.

Section Canon.
Variable E : env.

Fixpoint canon_msg (m : msg) : bool :=
  match m with
  | Msg d slots unions unk =>
      match nth_error E d with
      | None => false
      | Some md =>
          Nat.eqb (length unions) (md_n_oneofs md) &&
          canon_slots canon_msg unions (md_fields md) slots &&
          canon_unions (md_fields md) 0 unions &&
          forallb (canon_unk (map f_id (md_fields md))) unk
      end
  end.

End Canon.

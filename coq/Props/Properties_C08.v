(* C08 -- a refused allocation at any point fails cleanly.
   First sentence (the parser): proved on the allocation-level model (Impl/Heap.v, see Properties_C07.v) for EVERY
   refusal plan -- any subset of the allocator requests refused: the first, the last, any in between, alone or with
   later ones -- every generator-producible environment and every input shorter than 2^31: the model never gets
   stuck (it is a total function: no crash), the event sequence obeys the discipline (nothing freed twice, nothing
   foreign or static freed), and when parsing reports failure nothing is outstanding (no leak); when it still
   succeeds (the refused requests were not needed -- impossible in fact, see the monitor) the message owns exactly
   the live blocks.  The model's event sequence is compared with the real library's for every refusal plan the
   check tries (every single k below the request count of the failure-free run, k+, random subsets).
   Second sentence (the simple append buffer): proved for every history (Proofs/BufHistory.v).
   Also kept: the sound trace monitor, judging the real traces. *)
From Coq Require Import ZArith List Bool.
From PBC Require Import Impl.Desc Impl.Mem Impl.Canon Impl.BufSimple Impl.Ledger Impl.Heap Impl.HeapInv Proofs.BufHistory Proofs.LedgerSound Proofs.HeapSafe Proofs.Examples.
Import ListNotations.
Local Open Scope Z_scope.

(* ---- the parser under an arbitrary refusal plan (allocation-level model) *)
Theorem C08_any_refusals_fail_cleanly : forall (E : env) (plan : nat -> bool) (szmsg : nat -> Z) (d : nat) (data : list Z),
  env_ok E = true -> Forall (fun b => 0 <= b < 256) data -> Mem.zlen data < 2147483648 ->
  let r := h_unpack E plan szmsg (S (length data)) d data (mkH 0 []) in
  match fst r with
  | None => live_of (snd r) = Some []
  | Some m => lives (snd r) (owned m) /\ live_of (snd (h_free E m (snd r))) = Some []
  end.
Proof. exact heap_trace_discipline. Qed.
Print Assumptions C08_any_refusals_fail_cleanly.

Theorem C08_nothing_outstanding_after_the_run : forall (E : env) (plan : nat -> bool) (szmsg : nat -> Z) (d : nat) (data : list Z),
  env_ok E = true -> Forall (fun b => 0 <= b < 256) data -> Mem.zlen data < 2147483648 ->
  live_of (snd (h_run E plan szmsg d data (mkH 0 []))) = Some [].
Proof. exact run_returns_everything. Qed.
Print Assumptions C08_nothing_outstanding_after_the_run.

(* refusing request number 3 of the accepted example input (the string of the embedded message): failure, and the
   three blocks granted before are returned *)
Example C08_nonvacuous :
  let r := h_run ex_env (fun k => Nat.eqb k 3) (fun _ => 152) 0 [8; 150; 1; 26; 2; 1; 2; 58; 4; 8; 1; 18; 0] (mkH 0 []) in
  fst r = false /\ existsb (fun e => match e with EvR 3 _ => true | _ => false end) (h_trace (snd r)) = true /\
  live_of (snd r) = Some [].
Proof. vm_compute. repeat split. Qed.

Theorem C08_refused_growth_keeps_buffer : forall cap plan b chunk,
  1 <= cap -> binv cap b ->
  plan (b_next b) = true -> b_len b + Z.of_nat (length chunk) > b_alloced b ->
  exists b', buf_append plan b chunk = Some b' /\
    b_data b' = b_data b /\ b_len b' = b_len b /\ b_alloced b' = b_alloced b /\
    b_must_free b' = b_must_free b /\ b_blk b' = b_blk b /\
    live_blocks (b_log b') = live_blocks (b_log b).
Proof. exact buffer_refusal_keeps_state. Qed.
Print Assumptions C08_refused_growth_keeps_buffer.

Theorem C08_monitor_sound_partial : forall evs, monitor evs = true ->
  (forall pre post, evs = pre ++ EvRet true :: post -> existsb is_refuse pre = false) /\
  (forall pre post, evs = pre ++ EvRet false :: post -> forall id, n_alloc id pre = n_free id pre) /\
  (forall pre id post, evs = pre ++ EvFree id :: post -> n_alloc id pre = 1%nat /\ n_free id pre = 0%nat) /\
  ~ In EvBadFree evs.
Proof.
  intros evs H. destruct (monitor_sound evs H) as [D1 D2 D3 D4 D5 D6]. auto.
Qed.
Print Assumptions C08_monitor_sound_partial.

(* Executable model of what protoc-gen-c (/repo/protoc-gen-c/*.cc) puts into the run-time
   descriptors of the C code it generates.

   Input : the schema as printed by harness/cxx/fd_dump (harness/GENFORMAT.md section 1):
           the files of one protoc invocation in dependency order, each with all its messages
           (pre-order, nested ones included), enums and services.
   Output: per message / enum / service the contents of the ProtobufC*Descriptor the generated
           .pb-c.c defines, in the vocabulary of harness/c/desc_dump (GENFORMAT.md section 2),
           plus the value of the <MSG>__INIT macro of the generated header.

   Conventions
   - strings are lists of bytes (0..255) as [list Z]; a C [char *] that may be NULL is [option str].
   - every definition names the C++ function it mirrors.  Where the tool's behaviour looks like a
     defect the model reproduces it and says so in a comment starting with "TOOL:".
   - the parts of the result that are produced by the C compiler from the emitted text (string
     literals, decimal floating constants) are modelled too; the only compiler parameter is
     whether trigraphs are replaced ([-std=c99]/[-std=c11]: yes, [-std=gnu*]: no).
   - plain Gallina: structural recursion over lists, no proofs, no axioms.

   Hand-written; tied to the tool by harness/gen/gencmp.py (real plugin + gcc + desc_dump against
   this model extracted to OCaml, harness/ocaml/gen_model.ml). *)
From Coq Require Import ZArith List Bool.
From PBC Require Import Base.CInt GenModel.Ranges.
Import ListNotations.
Local Open Scope Z_scope.

(* ====================================================================================== *)
(** * Byte strings                                                                          *)

Definition str := list Z.

Fixpoint str_eqb (a b : str) : bool :=
  match a, b with
  | [], [] => true
  | x :: a', y :: b' => (x =? y) && str_eqb a' b'
  | _, _ => false
  end.

(* std::string::compare(a, b) < 0: bytewise (unsigned char), a proper prefix is smaller *)
Fixpoint str_ltb (a b : str) : bool :=
  match a, b with
  | [], [] => false
  | [], _ :: _ => true
  | _ :: _, [] => false
  | x :: a', y :: b' => if x <? y then true else if y <? x then false else str_ltb a' b'
  end.

Definition str_is_empty (a : str) : bool := match a with [] => true | _ => false end.

Fixpoint drop (n : nat) (s : str) : str :=
  match n, s with
  | O, _ => s
  | S _, [] => []
  | S k, _ :: t => drop k t
  end.

(* the C locale's isupper / toupper / tolower on a byte *)
Definition is_upper (c : Z) : bool := (65 <=? c) && (c <=? 90).
Definition is_lower (c : Z) : bool := (97 <=? c) && (c <=? 122).
Definition to_upper (c : Z) : Z := if is_lower c then c - 32 else c.
Definition to_lower (c : Z) : Z := if is_upper c then c + 32 else c.

Definition ch_dot : Z := 46.          (* '.' *)
Definition ch_us : Z := 95.           (* '_' *)
Definition s_uu : str := [95; 95].    (* "__" *)
(* "__descriptor" *)
Definition s_descriptor : str := [95; 95; 100; 101; 115; 99; 114; 105; 112; 116; 111; 114].

(* ====================================================================================== *)
(** * Stable insertion sort
    The tool uses qsort (glibc: merge sort, but unspecified for equal keys).  Everywhere it is
    used the keys are pairwise different (field numbers and field names of one message, value
    names of one enum, method names of one service) or ties are broken by the original index
    (enum values: compare_value_indices_by_value_then_index), so any correct sort gives the
    same result; for the enum values "stable by value" is "by value, then index". *)

Fixpoint insert_by {A : Type} (lt : A -> A -> bool) (x : A) (l : list A) : list A :=
  match l with
  | [] => [x]
  | y :: t => if lt y x then y :: insert_by lt x t else x :: l
  end.

Fixpoint isort_by {A : Type} (lt : A -> A -> bool) (l : list A) : list A :=
  match l with
  | [] => []
  | x :: t => insert_by lt x (isort_by lt t)
  end.

(* [0; 1; ...] paired with the elements *)
Fixpoint number_from {A : Type} (i : Z) (l : list A) : list (Z * A) :=
  match l with
  | [] => []
  | x :: t => (i, x) :: number_from (i + 1) t
  end.

(* ====================================================================================== *)
(** * c_helpers.cc: identifier conversions                                                   *)

(* CamelToUpper: MyClass -> MY_CLASS ([was_upper] starts true: no leading '_') *)
Fixpoint camel_to_upper_from (was_upper : bool) (s : str) : str :=
  match s with
  | [] => []
  | c :: t =>
      let up := is_upper c in
      if up then (if was_upper then [c] else [ch_us; c]) ++ camel_to_upper_from up t
      else to_upper c :: camel_to_upper_from up t
  end.
Definition camel_to_upper (s : str) : str := camel_to_upper_from true s.

(* CamelToLower: MyClass -> my_class *)
Fixpoint camel_to_lower_from (was_upper : bool) (s : str) : str :=
  match s with
  | [] => []
  | c :: t =>
      let up := is_upper c in
      if up then (if was_upper then [to_lower c] else [ch_us; to_lower c]) ++ camel_to_lower_from up t
      else c :: camel_to_lower_from up t
  end.
Definition camel_to_lower (s : str) : str := camel_to_lower_from true s.

(* ToUpper / ToLower *)
Definition str_to_upper (s : str) : str := map to_upper s.
Definition str_to_lower (s : str) : str := map to_lower s.

(* ToCamel: foo_bar -> FooBar (underscores are dropped, the next character is upper-cased) *)
Fixpoint to_camel_from (next_is_upper : bool) (s : str) : str :=
  match s with
  | [] => []
  | c :: t =>
      if c =? ch_us then to_camel_from true t
      else if next_is_upper then to_upper c :: to_camel_from false t
      else c :: to_camel_from false t
  end.
Definition to_camel (s : str) : str := to_camel_from true s.

(* SplitStringUsing(full, "."): the non-empty pieces between dots.  [cur] is the piece being
   read, reversed. *)
Fixpoint split_dots_from (cur : str) (s : str) : list str :=
  match s with
  | [] => match cur with [] => [] | _ => [rev cur] end
  | c :: t =>
      if c =? ch_dot then
        match cur with [] => split_dots_from [] t | _ => rev cur :: split_dots_from [] t end
      else split_dots_from (c :: cur) t
  end.
Definition split_dots (s : str) : list str := split_dots_from [] s.

(* Descriptor::name() of something whose full_name is [full]: the last piece *)
Definition last_component (full : str) : str := last (split_dots full) [].

(* the loop shared by FullNameToLower / FullNameToUpper / FullNameToC:
     if (pieces[i] == "") continue;  if (rv != "") rv += "__";  rv += conv(pieces[i]); *)
Fixpoint join_pieces (conv : str -> str) (rv : str) (pieces : list str) : str :=
  match pieces with
  | [] => rv
  | p :: t =>
      if str_is_empty p then join_pieces conv rv t
      else join_pieces conv ((if str_is_empty rv then [] else rv ++ s_uu) ++ conv p) t
  end.

(* ====================================================================================== *)
(** * The schema (GENFORMAT.md section 1)                                                    *)

Inductive ptype :=
| PDouble | PFloat | PInt64 | PUint64 | PInt32 | PFixed64 | PFixed32 | PBool | PString | PGroup
| PMessage | PBytes | PUint32 | PEnum | PSfixed32 | PSfixed64 | PSint32 | PSint64.

Inductive plabel := POptional | PRequired | PRepeated.

(* FieldDescriptor::default_value_*() *)
Inductive pdefault :=
| PDInt (v : Z)        (* integer types: the value; bool: 0/1; enum: the number of the value *)
| PDBits (bits : Z)    (* float / double: the IEEE-754 bit pattern (32 / 64 bits) *)
| PDStr (s : str).     (* string / bytes *)

Record pfield := {
  pf_name : str;
  pf_number : Z;
  pf_label : plabel;
  pf_type : ptype;
  pf_type_name : str;              (* full name of the message / enum type, else empty *)
  pf_oneof : option nat;           (* containing_oneof()->index() *)
  pf_packed : option bool;         (* [packed = ...] if written *)
  pf_deprecated : bool;
  pf_string_as_bytes : bool;       (* (pb_c_field).string_as_bytes *)
  pf_default : option pdefault;    (* has_default_value() *)
  pf_proto3_optional : bool;       (* member of a synthetic oneof; protoc rejects such files for this
                                      plugin (GetSupportedFeatures() == 0), kept for completeness *)
}.

Record pmsg := {
  pm_full_name : str;
  pm_is_nested : bool;                   (* containing_type() != NULL *)
  pm_base_field_name : str;              (* (pb_c_msg).base_field_name; does not reach the descriptors *)
  pm_gen_pack_helpers : option bool;     (* (pb_c_msg).gen_pack_helpers if set; idem *)
  pm_gen_init_helpers : option bool;     (* (pb_c_msg).gen_init_helpers if set *)
  pm_oneofs : list str;                  (* oneof_decl(i)->name() *)
  pm_fields : list pfield;               (* declaration order *)
}.

Record penum := {
  pe_full_name : str;
  pe_values : list (str * Z);            (* declaration order *)
}.

Record pmethod := { pmt_name : str; pmt_input : str; pmt_output : str }.
Record psvc := { ps_full_name : str; ps_methods : list pmethod }.

Inductive optmode := OptUnset | OptSpeed | OptCodeSize | OptLiteRuntime.

Record pfile := {
  pfl_name : str;
  pfl_package : str;
  pfl_syntax : Z;                        (* 2 or 3 *)
  pfl_c_package : option str;            (* (pb_c_file).c_package if set *)
  pfl_no_generate : bool;                (* only suppresses #include lines; no effect on descriptors *)
  pfl_const_strings : bool;              (* only the C type of string members *)
  pfl_use_oneof_field_name : bool;
  pfl_gen_pack_helpers : bool;
  pfl_gen_init_helpers : bool;
  pfl_optimize_for : optmode;
  pfl_messages : list pmsg;              (* pre-order: a nested message after its parent *)
  pfl_enums : list penum;
  pfl_services : list psvc;
}.

(* ====================================================================================== *)
(** * Full names -> C identifiers (c_helpers.cc)                                            *)

(* OverrideFullName: with (pb_c_file).c_package the package prefix is replaced *)
Definition override_full_name (f : pfile) (full : str) : str :=
  match pfl_c_package f with
  | None => full
  | Some cp =>
      (cp ++ (if str_is_empty (pfl_package f) then [ch_dot] else []))
        ++ drop (length (pfl_package f)) full
  end.

Definition full_name_to_lower (f : pfile) (full : str) : str :=
  join_pieces camel_to_lower [] (split_dots (override_full_name f full)).
Definition full_name_to_upper (f : pfile) (full : str) : str :=
  join_pieces camel_to_upper [] (split_dots (override_full_name f full)).
Definition full_name_to_c (f : pfile) (full : str) : str :=
  join_pieces to_camel [] (split_dots (override_full_name f full)).

(* the C symbol of a descriptor: <FullNameToLower>__descriptor *)
Definition descriptor_sym (f : pfile) (full : str) : str := full_name_to_lower f full ++ s_descriptor.

(* optimize_for = CODE_SIZE: every name pointer in the descriptors is NULL, no by-name tables *)
Definition code_size (f : pfile) : bool :=
  match pfl_optimize_for f with OptCodeSize => true | _ => false end.
Definition name_ptr (f : pfile) (s : str) : option str := if code_size f then None else Some s.

(* ---- looking a type up in the files of the run (Descriptor::file() of a referenced type) *)

Fixpoint find_msg (ms : list pmsg) (full : str) : option pmsg :=
  match ms with
  | [] => None
  | m :: t => if str_eqb (pm_full_name m) full then Some m else find_msg t full
  end.
Fixpoint find_enum (es : list penum) (full : str) : option penum :=
  match es with
  | [] => None
  | e :: t => if str_eqb (pe_full_name e) full then Some e else find_enum t full
  end.
Fixpoint file_of_msg (fs : list pfile) (full : str) : option pfile :=
  match fs with
  | [] => None
  | f :: t => match find_msg (pfl_messages f) full with Some _ => Some f | None => file_of_msg t full end
  end.
Fixpoint file_of_enum (fs : list pfile) (full : str) : option (pfile * penum) :=
  match fs with
  | [] => None
  | f :: t => match find_enum (pfl_enums f) full with Some e => Some (f, e) | None => file_of_enum t full end
  end.

(* &<lcclassname>__descriptor of a message / enum type.  A type of a file that is not part of the
   input (google/protobuf/*.proto) is named as if its file had no c_package. *)
Definition plain_sym (full : str) : str :=
  join_pieces camel_to_lower [] (split_dots full) ++ s_descriptor.
Definition msg_sym (fs : list pfile) (full : str) : str :=
  match file_of_msg fs full with Some f => descriptor_sym f full | None => plain_sym full end.
Definition enum_sym (fs : list pfile) (full : str) : str :=
  match file_of_enum fs full with Some (f, _) => descriptor_sym f full | None => plain_sym full end.

(* EnumDescriptor::value(0)->number(): what default_value_enum() is without [default = ...] *)
Definition enum_first_number (fs : list pfile) (full : str) : Z :=
  match file_of_enum fs full with
  | Some (_, e) => match pe_values e with (_, v) :: _ => v | [] => 0 end
  | None => 0
  end.

(* ====================================================================================== *)
(** * The text of a default value and what the C compiler makes of it                        *)

(** ** String literals: CEscape (c_helpers.cc), then the compiler *)

Definition octal3 (c : Z) : str := [48 + (c / 64) mod 8; 48 + (c / 8) mod 8; 48 + c mod 8].

(* isprint in the C locale; bytes >= 128 are negative chars for which isprint is false *)
Definition is_print (c : Z) : bool := (32 <=? c) && (c <=? 126).

(* CEscapeInternal(use_hex = false) on one byte *)
Definition c_escape_char (c : Z) : str :=
  if c =? 10 then [92; 110]            (* \n *)
  else if c =? 13 then [92; 114]       (* \r *)
  else if c =? 9 then [92; 116]        (* \t *)
  else if c =? 34 then [92; 34]        (* backslash, double quote *)
  else if c =? 39 then [92; 39]        (* \' *)
  else if c =? 92 then [92; 92]        (* \\ *)
  else if c =? 63 then [92; 63]        (* \? : no trigraph can form in the emitted literal *)
  else if is_print c then [c]
  else 92 :: octal3 c.                 (* \ooo *)
Definition c_escape (s : str) : str := flat_map c_escape_char s.

(* translation phase 1: ??= ??( ??/ ??) ??' ??< ??! ??> ??-  become  # [ \ ] ^ { | } ~
   (CEscape escapes '?' since the "fix:" commit, so none of these can occur in an emitted literal:
   Proofs/GenDefaults.v.) *)
Definition trigraph_char (c : Z) : option Z :=
  if c =? 61 then Some 35 else if c =? 40 then Some 91 else if c =? 47 then Some 92
  else if c =? 41 then Some 93 else if c =? 39 then Some 94 else if c =? 60 then Some 123
  else if c =? 33 then Some 124 else if c =? 62 then Some 125 else if c =? 45 then Some 126
  else None.
Fixpoint replace_trigraphs (s : str) : str :=
  match s with
  | [] => []
  | c1 :: r1 =>
      match r1 with
      | c2 :: c3 :: r3 =>
          if (c1 =? 63) && (c2 =? 63) then
            match trigraph_char c3 with
            | Some x => x :: replace_trigraphs r3
            | None => c1 :: replace_trigraphs r1
            end
          else c1 :: replace_trigraphs r1
      | _ => c1 :: replace_trigraphs r1
      end
  end.

Definition is_octal (c : Z) : bool := (48 <=? c) && (c <=? 55).
Definition simple_escape (c : Z) : Z :=
  if c =? 110 then 10 else if c =? 114 then 13 else if c =? 116 then 9 else if c =? 97 then 7
  else if c =? 98 then 8 else if c =? 102 then 12 else if c =? 118 then 11 else c.

(* translation phase 5 on the body of a string literal: simple and octal escape sequences.
   [st] = 0: ordinary; 1: just after a backslash; 2 / 3: inside an octal escape with one / two
   digits read, value [acc].  (No \x escapes are ever emitted; a backslash that a trigraph
   produced in front of another character is treated like gcc does: the character itself.) *)
Fixpoint c_unescape_from (st : Z) (acc : Z) (s : str) : str :=
  match s with
  | [] => if (st =? 2) || (st =? 3) then [acc mod 256] else []
  | c :: t =>
      if st =? 0 then
        if c =? 92 then c_unescape_from 1 0 t else c :: c_unescape_from 0 0 t
      else if st =? 1 then
        if is_octal c then c_unescape_from 2 (c - 48) t
        else simple_escape c :: c_unescape_from 0 0 t
      else if is_octal c then
        if st =? 2 then c_unescape_from 3 (acc * 8 + (c - 48)) t
        else ((acc * 8 + (c - 48)) mod 256) :: c_unescape_from 0 0 t
      else (* the octal escape ends in front of c *)
        (acc mod 256) ::
        (if c =? 92 then c_unescape_from 1 0 t else c :: c_unescape_from 0 0 t)
  end.

(* the bytes of the array  char x[] = "<CEscape(s)>";  without the terminating NUL *)
Definition c_literal_bytes (trigraphs : bool) (s : str) : str :=
  let e := c_escape s in
  c_unescape_from 0 0 (if trigraphs then replace_trigraphs e else e).

(** ** Floating constants: SimpleFtoa / SimpleDtoa (printf "%.*g" with FLT_DIG = 6 / DBL_DIG = 15),
       then the compiler reads the decimal text as a [double] constant and, for a float, converts.
    Everything is exact rational arithmetic on Z: a positive value is a pair numerator/denominator. *)

(* n / d rounded to the nearest integer, ties to even (n >= 0, d > 0) *)
Definition round_half_even (n d : Z) : Z :=
  let '(q, r) := Z.div_eucl n d in
  if 2 * r <? d then q else if d <? 2 * r then q + 1 else if Z.even q then q else q + 1.

(* n / d >= 10 ^ k,  n / d >= 2 ^ k *)
Definition ge_pow10 (n d k : Z) : bool :=
  if 0 <=? k then d * 10 ^ k <=? n else d <=? n * 10 ^ (- k).
Definition ge_pow2 (n d k : Z) : bool :=
  if 0 <=? k then Z.shiftl d k <=? n else d <=? Z.shiftl n (- k).

(* floor (log2 (n / d)) for n, d > 0: the difference of the bit lengths or one less *)
Definition floor_log2 (n d : Z) : Z :=
  let e0 := Z.log2 n - Z.log2 d in
  if ge_pow2 n d e0 then e0 else e0 - 1.

(* floor (log10 (n / d)) for n, d > 0.  floor_log2 * log10(2), with 1233 / 4096 for log10(2),
   is within one of the result; the comparisons settle it (they cover e0 - 2 .. e0 + 1). *)
Definition floor_log10 (n d : Z) : Z :=
  let e0 := ((Z.log2 n - Z.log2 d) * 1233) / 4096 in
  if ge_pow10 n d e0 then (if ge_pow10 n d (e0 + 1) then e0 + 1 else e0)
  else (if ge_pow10 n d (e0 - 1) then e0 - 1 else e0 - 2).

(* a binary interchange format: [fmt_mbits] fraction bits, [fmt_ebits] exponent bits *)
Record fpfmt := { fmt_mbits : Z; fmt_ebits : Z }.
Definition fmt_float : fpfmt := {| fmt_mbits := 23; fmt_ebits := 8 |}.
Definition fmt_double : fpfmt := {| fmt_mbits := 52; fmt_ebits := 11 |}.
Definition fmt_bias (f : fpfmt) : Z := 2 ^ (fmt_ebits f - 1) - 1.
(* exponent of the unit in the last place of the subnormals: -149 / -1074 *)
Definition fmt_emin (f : fpfmt) : Z := 1 - fmt_bias f - fmt_mbits f.
Definition fmt_inf (f : fpfmt) : Z := (2 ^ fmt_ebits f - 1) * 2 ^ fmt_mbits f.
Definition fmt_sign (f : fpfmt) : Z := 2 ^ (fmt_mbits f + fmt_ebits f).

(* the bit pattern (without sign) of n / d > 0 rounded to nearest-even in format f; a value beyond
   the largest finite number becomes infinity.  With q the exponent of the last kept bit and m
   the rounded significand, (q - emin) * 2^mbits + m is the encoding for subnormals, normals and
   for a significand that rounded up to the next power of two alike. *)
Definition fp_round (f : fpfmt) (n d : Z) : Z :=
  let e := floor_log2 n d in
  let q := Z.max (e - fmt_mbits f) (fmt_emin f) in
  let m := if 0 <=? q then round_half_even n (Z.shiftl d q) else round_half_even (Z.shiftl n (- q)) d in
  let bits := (q - fmt_emin f) * 2 ^ fmt_mbits f + m in
  if fmt_inf f <=? bits then fmt_inf f else bits.

(* the value of a finite non-zero bit pattern (sign ignored) as numerator / denominator *)
Definition fp_value (f : fpfmt) (bits : Z) : Z * Z :=
  let m := bits mod 2 ^ fmt_mbits f in
  let e := (bits / 2 ^ fmt_mbits f) mod 2 ^ fmt_ebits f in
  let sig := if e =? 0 then m else m + 2 ^ fmt_mbits f in
  let q := (if e =? 0 then 1 else e) - fmt_bias f - fmt_mbits f in
  if 0 <=? q then (Z.shiftl sig q, 1) else (sig, Z.shiftl 1 (- q)).

(* the decimal number printf("%.<p>g") prints for n / d > 0, as numerator / denominator:
   p significant digits, round-half-even on the exact value (glibc).  The choice between the %e
   and %f styles and the removal of trailing zeros do not change the number. *)
Definition printf_g_value (p : Z) (n d : Z) : Z * Z :=
  let x := floor_log10 n d in
  let s := x - p + 1 in                 (* exponent of the last printed digit *)
  let digits := if 0 <=? s then round_half_even n (d * 10 ^ s) else round_half_even (n * 10 ^ (- s)) d in
  if 0 <=? s then (digits * 10 ^ s, 1) else (digits, 10 ^ (- s)).

(* bits of the C object initialised with the text SimpleFtoa / SimpleDtoa prints for the value
   with bit pattern [bits] of format [f].
   (9 / 17 significant digits since the "fix:" commit; an integral text gets ".0" appended, so a
   negative zero keeps its sign.)  TOOL: infinities and NaN print as "inf" / "nan", which does not
   compile (the bit pattern is returned unchanged for them). *)
Definition compiled_fp_default (f : fpfmt) (bits : Z) : Z :=
  let mag := bits mod fmt_sign f in
  let neg := fmt_sign f <=? bits in
  if mag =? 0 then bits                 (* "0.0" / "-0.0" *)
  else if fmt_inf f <=? mag then bits
  else
    let '(n, d) := fp_value f mag in
    let '(pn, pd) := printf_g_value (if fmt_mbits f =? 23 then 9 else 17) n d in
    (* the constant has type double *)
    let dbits := fp_round fmt_double pn pd in
    let r :=
      if fmt_mbits f =? 52 then dbits
      else if fmt_inf fmt_double <=? dbits then fmt_inf f
      else if dbits =? 0 then 0
      else let '(n2, d2) := fp_value fmt_double dbits in fp_round f n2 d2 in
    if neg then r + fmt_sign f else r.

(* ====================================================================================== *)
(** * Descriptors (GENFORMAT.md section 2)                                                   *)

(* PROTOBUF_C_TYPE_* *)
Inductive gtype :=
| GInt32 | GSint32 | GSfixed32 | GInt64 | GSint64 | GSfixed64 | GUint32 | GFixed32 | GUint64
| GFixed64 | GFloat | GDouble | GBool | GEnum | GString | GBytes | GMessage.

(* PROTOBUF_C_LABEL_* *)
Inductive glabel := GRequired | GOptional | GRepeated | GNone.

(* what quantifier_offset is *)
Inductive gquant :=
| GQNone               (* 0 *)
| GQHas                (* offsetof(has_<name>) *)
| GQCase (g : nat)     (* offsetof(<oneof>_case); groups numbered by first appearance in the
                          field array (desc_dump's numbering) *)
| GQCount.             (* offsetof(n_<name>) *)

(* what default_value points to *)
Inductive gdefault :=
| GDWord (w : Z)                  (* a scalar object: its bits, zero-extended (4-byte types: 32 bits) *)
| GDString (s : str)              (* char[]: the array without the final NUL; C code sees it up to the
                                     first NUL *)
| GDBytes (len : Z) (data : str)  (* ProtobufCBinaryData { len, data }: data = the uint8_t[] without
                                     the final NUL.  len is the length of the schema's default. *)
| GDEmptyString.                  (* &protobuf_c_empty_string *)

Definition FLAG_PACKED : Z := 1.
Definition FLAG_DEPRECATED : Z := 2.
Definition FLAG_ONEOF : Z := 4.

Record gfield := {
  gf_name : option str;
  gf_id : Z;
  gf_label : glabel;
  gf_type : gtype;
  gf_quant : gquant;
  gf_flags : Z;
  gf_descriptor : option str;       (* C symbol of the message / enum descriptor pointed to *)
  gf_default : option gdefault;
}.

(* the static initialiser of one struct member in <MSG>__INIT *)
Inductive gcell :=
| GCWord (w : Z)                  (* scalar, bits as in GDWord *)
| GCStringNull                    (* char * = NULL *)
| GCStringDefault                 (* char * = the object default_value points to *)
| GCBytes (len : Z) (dflt : bool) (* { len, data }: data = the default's array, or NULL *)
| GCMessageNull                   (* sub-message pointer = NULL *)
| GCRepeatedNull                  (* array pointer of a repeated field = NULL *)
| GCUnion.                        (* member of a oneof: see gm_oneof_case_init *)

Record gfield_init := {
  gi_quant : option Z;            (* has_ / n_ member, None when the field has none of its own *)
  gi_cell : gcell;
}.

Record gmsg := {
  gm_sym : str;                          (* C symbol of the descriptor *)
  gm_name : option str;
  gm_short_name : option str;
  gm_c_name : option str;
  gm_package_name : option str;
  gm_fields : list gfield;               (* sorted by number *)
  gm_fields_sorted_by_name : option (list Z);
  gm_n_field_ranges : Z;
  gm_field_ranges : list IntRange;       (* n + 1 entries, [] = NULL *)
  gm_has_init : bool;                    (* message_init != NULL *)
  gm_init : list gfield_init;            (* <MSG>__INIT, in the order of gm_fields *)
  gm_oneof_case_init : list Z;           (* <MSG>__INIT: the case member of each oneof group
                                            (group order as in GQCase); the union itself is
                                            initialised with {0} *)
}.

Record genum_value := { gev_name : option str; gev_c_name : option str; gev_value : Z }.

Record genum := {
  ge_sym : str;
  ge_name : option str;
  ge_short_name : option str;
  ge_c_name : option str;
  ge_package_name : option str;
  ge_values : list genum_value;          (* unique by number, ascending *)
  ge_n_value_names : Z;
  ge_values_by_name : option (list (str * Z));   (* name, index into ge_values *)
  ge_n_value_ranges : Z;
  ge_value_ranges : list IntRange;
}.

Record gmethod := { gmt_name : option str; gmt_input : str; gmt_output : str }.  (* descriptor symbols *)

Record gsvc := {
  gs_sym : str;
  gs_name : option str;
  gs_short_name : option str;
  gs_c_name : option str;
  gs_package : option str;
  gs_methods : list gmethod;             (* declaration order *)
  gs_method_indices_by_name : option (list Z);
}.

Record goutput := { go_msgs : list gmsg; go_enums : list genum; go_svcs : list gsvc }.

(* ====================================================================================== *)
(** * Fields (c_field.cc and the FieldGenerator classes)                                    *)

(* which FieldGenerator class FieldGeneratorMap::MakeGenerator picks *)
Inductive fgen := FGPrimitive | FGEnum | FGString | FGBytes | FGMessage | FGNone.

Definition field_generator (fd : pfield) : fgen :=
  match pf_type fd with
  | PMessage => FGMessage
  | PString => if pf_string_as_bytes fd then FGBytes else FGString
  | PBytes => FGBytes
  | PEnum => FGEnum
  | PGroup => FGNone             (* "return 0; // XXX": the plugin crashes on the first use *)
  | _ => FGPrimitive
  end.

(* the type macro each class passes to GenerateDescriptorInitializerGeneric *)
Definition field_gtype (fd : pfield) : gtype :=
  match field_generator fd with
  | FGMessage | FGNone => GMessage
  | FGString => GString
  | FGBytes => GBytes
  | FGEnum => GEnum
  | FGPrimitive =>
      match pf_type fd with
      | PInt32 => GInt32 | PSint32 => GSint32 | PUint32 => GUint32 | PSfixed32 => GSfixed32
      | PFixed32 => GFixed32 | PInt64 => GInt64 | PSint64 => GSint64 | PUint64 => GUint64
      | PFixed64 => GFixed64 | PSfixed64 => GSfixed64 | PFloat => GFloat | PDouble => GDouble
      | _ => GBool
      end
  end.

(* the [optional_uses_has] argument each class passes *)
Definition optional_uses_has (fd : pfield) : bool :=
  match field_generator fd with
  | FGPrimitive | FGEnum | FGBytes => true
  | FGString | FGMessage | FGNone => false
  end.

(* is_packable_type (c_field.cc) *)
Definition is_packable (t : ptype) : bool :=
  match t with
  | PString | PBytes | PGroup | PMessage => false
  | _ => true
  end.

Definition is_repeated (fd : pfield) : bool := match pf_label fd with PRepeated => true | _ => false end.
Definition is_optional (fd : pfield) : bool := match pf_label fd with POptional => true | _ => false end.

(* GenerateDescriptorInitializerGeneric: $LABEL$ *)
Definition field_label (f : pfile) (fd : pfield) : glabel :=
  match pf_label fd with
  | POptional => if pfl_syntax f =? 3 then GNone else GOptional
  | PRequired => GRequired
  | PRepeated => GRepeated
  end.

(* GenerateDescriptorInitializerGeneric: the quantifier_offset line.  [grp] is the group number of
   the field's oneof. *)
Definition field_quant (f : pfile) (fd : pfield) (grp : option nat) : gquant :=
  match pf_label fd with
  | PRequired => GQNone
  | PRepeated => GQCount
  | POptional =>
      match grp with
      | Some g => GQCase g
      | None => if optional_uses_has fd && negb (pfl_syntax f =? 3) then GQHas else GQNone
      end
  end.

(* GenerateDescriptorInitializerGeneric: $flags$ *)
Definition field_flags (f : pfile) (fd : pfield) : Z :=
  let packed :=
    is_repeated fd && is_packable (pf_type fd) &&
    (match pf_packed fd with
     | Some b => b                             (* options().packed() *)
     | None => pfl_syntax f =? 3               (* proto3 && !has_packed() *)
     end) in
  (if packed then FLAG_PACKED else 0)
  + (if pf_deprecated fd then FLAG_DEPRECATED else 0)
  + (match pf_oneof fd with Some _ => FLAG_ONEOF | None => 0 end).

(* GenerateDescriptorInitializerGeneric: $proto_name$.
   TOOL: with (pb_c_file).use_oneof_field_name the plugin dereferences containing_oneof() of every
   field and crashes on a field outside a oneof; the model then keeps the field's own name. *)
Definition field_proto_name (f : pfile) (m : pmsg) (fd : pfield) : str :=
  if pfl_use_oneof_field_name f then
    match pf_oneof fd with
    | Some k => nth k (pm_oneofs m) (pf_name fd)
    | None => pf_name fd
    end
  else pf_name fd.

(* $descriptor_addr$ *)
Definition field_descriptor_sym (fs : list pfile) (fd : pfield) : option str :=
  match field_generator fd with
  | FGMessage => Some (msg_sym fs (pf_type_name fd))
  | FGEnum => Some (enum_sym fs (pf_type_name fd))
  | _ => None
  end.

Definition two32 : Z := 4294967296.
Definition two64 : Z := 18446744073709551616.

(* the bits of the scalar C object  static const <ctype> x = <GetDefaultValue()>;
   (c_message.cc GenerateMessageDescriptor; PrimitiveFieldGenerator / EnumFieldGenerator::GetDefaultValue) *)
Definition scalar_default_bits (fd : pfield) (d : pdefault) : Z :=
  match d with
  | PDInt v =>
      match pf_type fd with
      | PInt64 | PSint64 | PSfixed64 | PUint64 | PFixed64 => v mod two64
      | _ => v mod two32                      (* int32_t, uint32_t, protobuf_c_boolean, enum *)
      end
  | PDBits b =>
      match pf_type fd with
      | PFloat => compiled_fp_default fmt_float b
      | _ => compiled_fp_default fmt_double b
      end
  | PDStr _ => 0
  end.

(* $default_value$ *)
Definition field_default (trigraphs : bool) (f : pfile) (fd : pfield) : option gdefault :=
  match pf_default fd with
  | Some d =>
      match field_generator fd, d with
      | FGString, PDStr s => Some (GDString (c_literal_bytes trigraphs s))
      | FGBytes, PDStr s => Some (GDBytes (Z.of_nat (length s)) (c_literal_bytes trigraphs s))
      | _, _ => Some (GDWord (scalar_default_bits fd d))
      end
  | None =>
      (* TOOL: the test is on the schema type, so a proto3 string field with string_as_bytes gets
         &protobuf_c_empty_string as the default of a BYTES field. *)
      match pf_type fd with
      | PString => if pfl_syntax f =? 3 then Some GDEmptyString else None
      | _ => None
      end
  end.

(* [dflt] = field_default of the field: computed once per field and shared with the __INIT value *)
Definition gen_field (fs : list pfile) (f : pfile) (m : pmsg)
           (fd : pfield) (grp : option nat) (dflt : option gdefault) : gfield :=
  {| gf_name := name_ptr f (field_proto_name f m fd);
     gf_id := pf_number fd;
     gf_label := field_label f fd;
     gf_type := field_gtype fd;
     gf_quant := field_quant f fd grp;
     gf_flags := field_flags f fd;
     gf_descriptor := field_descriptor_sym fs fd;
     gf_default := dflt |}.

(* ---- GenerateStaticInit of the five classes: the members' values in <MSG>__INIT *)

(* [dflt] = field_default of the field.  The member of a scalar field with a default is initialised
   with the same text (GetDefaultValue()) as the <field>__default_value object and has the same C
   type, so it holds the same bits. *)
Definition field_init_cell (fs : list pfile) (f : pfile) (fd : pfield) (dflt : option gdefault) : gcell :=
  if is_repeated fd then GCRepeatedNull          (* "0,NULL" in every class *)
  else
    match field_generator fd with
    | FGPrimitive =>
        GCWord (match dflt with Some (GDWord w) => w | _ => 0 end)
    | FGEnum =>
        (* $default$ is always default_value_enum(): the first declared value without [default] *)
        GCWord (match dflt with
                | Some (GDWord w) => w
                | _ => enum_first_number fs (pf_type_name fd) mod two32
                end)
    | FGString =>
        match pf_default fd with
        | Some _ => GCStringDefault
        | None => if pfl_syntax f =? 3 then GCStringDefault (* protobuf_c_empty_string *) else GCStringNull
        end
    | FGBytes =>
        match pf_default fd with
        | Some (PDStr s) => GCBytes (Z.of_nat (length s)) true
        | _ => GCBytes 0 false                   (* {0,NULL} *)
        end
    | FGMessage | FGNone => GCMessageNull
    end.

Definition field_init (fs : list pfile) (f : pfile) (fd : pfield) (dflt : option gdefault) : gfield_init :=
  match pf_oneof fd with
  | Some _ => {| gi_quant := None; gi_cell := GCUnion |}
  | None =>
      {| gi_quant :=
           match pf_label fd with
           | PRepeated => Some 0
           | PRequired => None
           | POptional =>                         (* "0, " in front of the value: proto2 and a class
                                                     that has a has_ member *)
               if optional_uses_has fd && negb (pfl_syntax f =? 3) then Some 0 else None
           end;
         gi_cell := field_init_cell fs f fd dflt |}
  end.

(* ====================================================================================== *)
(** * Messages (c_message.cc)                                                                *)

(* qsort(sorted_fields, compare_pfields_by_number) *)
Definition sort_fields (l : list pfield) : list pfield :=
  isort_by (fun a b => pf_number a <? pf_number b) l.

Fixpoint index_of (k : nat) (l : list nat) (i : nat) : option nat :=
  match l with
  | [] => None
  | x :: t => if Nat.eqb x k then Some i else index_of k t (S i)
  end.

(* desc_dump's group numbers: the oneofs in the order in which their first member appears in the
   sorted field array.  [seen] = oneof indices met so far.  Returns per field its group. *)
Fixpoint assign_groups (seen : list nat) (l : list pfield) : list (option nat) * list nat :=
  match l with
  | [] => ([], seen)
  | fd :: t =>
      match pf_oneof fd with
      | Some k =>
          if is_optional fd then
            match index_of k seen O with
            | Some g => let '(r, s) := assign_groups seen t in (Some g :: r, s)
            | None => let '(r, s) := assign_groups (seen ++ [k]) t in (Some (length seen) :: r, s)
            end
          else let '(r, s) := assign_groups seen t in (None :: r, s)
      | None => let '(r, s) := assign_groups seen t in (None :: r, s)
      end
  end.

Fixpoint map2 {A B C : Type} (f : A -> B -> C) (la : list A) (lb : list B) : list C :=
  match la, lb with
  | a :: ta, b :: tb => f a b :: map2 f ta tb
  | _, _ => []
  end.
Fixpoint map3 {A B C D : Type} (f : A -> B -> C -> D) (la : list A) (lb : list B) (lc : list C) : list D :=
  match la, lb, lc with
  | a :: ta, b :: tb, c :: tc => f a b c :: map3 f ta tb tc
  | _, _, _ => []
  end.

(* field_indices_by_name: qsort of { index in the sorted array, field->name() } by name.
   (the sort key is always the field's own name, also with use_oneof_field_name) *)
Definition fields_by_name (sorted : list pfield) : list Z :=
  map fst (isort_by (fun a b => str_ltb (snd a) (snd b))
                    (number_from 0 (map pf_name sorted))).

(* The value of gen_init that GenerateMessageDescriptor receives for each message of a file:
   the file option, overridden by the nearest enclosing message that sets (pb_c_msg).gen_init_helpers.
   The messages come in pre-order, so the parent of a nested message has been handled before:
   [done] maps full names to effective values. *)
Fixpoint join_dots (l : list str) : str :=
  match l with
  | [] => []
  | [p] => p
  | p :: t => p ++ ch_dot :: join_dots t
  end.
(* full name of the enclosing scope: everything before the last '.' *)
Definition parent_name (full : str) : str := join_dots (removelast (split_dots full)).

Fixpoint lookup_bool (done : list (str * bool)) (k : str) (dflt : bool) : bool :=
  match done with
  | [] => dflt
  | (n, b) :: t => if str_eqb n k then b else lookup_bool t k dflt
  end.

Fixpoint effective_gen_init (file_dflt : bool) (done : list (str * bool)) (ms : list pmsg)
  : list (str * bool) :=
  match ms with
  | [] => done
  | m :: t =>
      let inherited :=
        if pm_is_nested m then lookup_bool done (parent_name (pm_full_name m)) file_dflt
        else file_dflt in
      let v := match pm_gen_init_helpers m with Some b => b | None => inherited end in
      effective_gen_init file_dflt ((pm_full_name m, v) :: done) t
  end.

(* MessageGenerator::GenerateMessageDescriptor (+ the __INIT macro of GenerateStructDefinition) *)
Definition gen_msg (trigraphs : bool) (fs : list pfile) (f : pfile) (gen_init : bool) (m : pmsg) : gmsg :=
  let sorted := sort_fields (pm_fields m) in
  let '(groups, seen) := assign_groups [] sorted in
  let '(ranges, n_ranges) := mk_ranges (map pf_number sorted) in
  let dflts := map (field_default trigraphs f) sorted in
  {| gm_sym := descriptor_sym f (pm_full_name m);
     gm_name := name_ptr f (pm_full_name m);
     gm_short_name := name_ptr f (to_camel (last_component (pm_full_name m)));
     gm_c_name := name_ptr f (full_name_to_c f (pm_full_name m));
     gm_package_name := name_ptr f (pfl_package f);
     gm_fields := map3 (gen_field fs f m) sorted groups dflts;
     gm_fields_sorted_by_name :=
       (* "#define ..__field_indices_by_name NULL" for a message without fields *)
       match sorted with
       | [] => None
       | _ => if code_size f then None else Some (fields_by_name sorted)
       end;
     gm_n_field_ranges := n_ranges;
     gm_field_ranges := ranges;
     gm_has_init := gen_init;
     gm_init := map2 (field_init fs f) sorted dflts;
     gm_oneof_case_init := map (fun _ => 0) seen      (* <ONEOF>__NOT_SET = 0 *)
  |}.

(* ====================================================================================== *)
(** * Enums (c_enum.cc)                                                                      *)

(* value_index after qsort(compare_value_indices_by_value_then_index) *)
Definition sort_enum_values (l : list (str * Z)) : list (str * Z) :=
  isort_by (fun a b => snd a <? snd b) l.

(* the entries of enum_values_by_number: the first of each run of equal numbers *)
Fixpoint unique_values (prev : option Z) (l : list (str * Z)) : list (str * Z) :=
  match l with
  | [] => []
  | (n, v) :: t =>
      match prev with
      | Some p => if p =? v then unique_values prev t else (n, v) :: unique_values (Some v) t
      | None => (n, v) :: unique_values (Some v) t
      end
  end.

(* final_index of every value (aliases get the index of the entry that represents their number);
   [next] = number of unique values so far *)
Fixpoint final_indices (prev : option Z) (next : Z) (l : list (str * Z)) : list (str * Z) :=
  match l with
  | [] => []
  | (n, v) :: t =>
      match prev with
      | Some p => if p =? v then (n, next - 1) :: final_indices prev next t
                  else (n, next) :: final_indices (Some v) (next + 1) t
      | None => (n, next) :: final_indices (Some v) (next + 1) t
      end
  end.

(* EnumGenerator::GenerateEnumDescriptor; the range table it writes is WriteIntRanges' table for
   the unique numbers (Ranges.mk_ranges) *)
Definition gen_enum (f : pfile) (e : penum) : genum :=
  let sorted := sort_enum_values (pe_values e) in
  let uniq := unique_values None sorted in
  let '(ranges, n_ranges) := mk_ranges (map snd uniq) in
  let uc := full_name_to_upper f (pe_full_name e) in
  {| ge_sym := descriptor_sym f (pe_full_name e);
     ge_name := name_ptr f (pe_full_name e);
     ge_short_name := name_ptr f (last_component (pe_full_name e));
     ge_c_name := name_ptr f (full_name_to_c f (pe_full_name e));
     ge_package_name := name_ptr f (pfl_package f);
     ge_values :=
       map (fun nv => {| gev_name := name_ptr f (fst nv);
                         gev_c_name := name_ptr f (uc ++ s_uu ++ fst nv);
                         gev_value := snd nv |}) uniq;
     ge_n_value_names := if code_size f then 0 else Z.of_nat (length (pe_values e));
     ge_values_by_name :=
       if code_size f then None
       else Some (isort_by (fun a b => str_ltb (fst a) (fst b)) (final_indices None 0 sorted));
     ge_n_value_ranges := n_ranges;
     ge_value_ranges := ranges |}.

(* ====================================================================================== *)
(** * Services (c_service.cc)                                                                *)

Definition gen_method (fs : list pfile) (f : pfile) (mt : pmethod) : gmethod :=
  {| gmt_name := name_ptr f (pmt_name mt);
     gmt_input := msg_sym fs (pmt_input mt);
     gmt_output := msg_sym fs (pmt_output mt) |}.

(* ServiceGenerator::GenerateServiceDescriptor *)
Definition gen_svc (fs : list pfile) (f : pfile) (s : psvc) : gsvc :=
  {| gs_sym := descriptor_sym f (ps_full_name s);
     gs_name := name_ptr f (ps_full_name s);
     gs_short_name := name_ptr f (last_component (ps_full_name s));
     gs_c_name := name_ptr f (full_name_to_c f (ps_full_name s));
     gs_package := name_ptr f (pfl_package f);
     gs_methods := map (gen_method fs f) (ps_methods s);
     gs_method_indices_by_name :=
       if code_size f then None
       else Some (map fst (isort_by (fun a b => str_ltb (snd a) (snd b))
                                    (number_from 0 (map pmt_name (ps_methods s))))) |}.

(* ====================================================================================== *)
(** * Files (c_file.cc FileGenerator::GenerateSource)                                        *)

Definition gen_file_msgs (trigraphs : bool) (fs : list pfile) (f : pfile) : list gmsg :=
  let eff := effective_gen_init (pfl_gen_init_helpers f) [] (pfl_messages f) in
  map (fun m => gen_msg trigraphs fs f (lookup_bool eff (pm_full_name m) (pfl_gen_init_helpers f)) m)
      (pfl_messages f).

(* everything one protoc run over the files [fs] defines *)
Definition gen_all (trigraphs : bool) (fs : list pfile) : goutput :=
  {| go_msgs := flat_map (gen_file_msgs trigraphs fs) fs;
     go_enums := flat_map (fun f => map (gen_enum f) (pfl_enums f)) fs;
     go_svcs := flat_map (fun f => map (gen_svc fs f) (pfl_services f)) fs |}.

(* ====================================================================================== *)
(** * What desc_dump observes beyond the descriptor's fields                                 *)

(* the struct after message_init on zeroed memory (the MI line): <MSG>__INIT if the descriptor has
   an init function, else still all zero *)
Definition zero_cell (gf : gfield) : gcell :=
  match gf_quant gf with
  | GQCase _ => GCUnion
  | GQCount => GCRepeatedNull
  | _ =>
      match gf_type gf with
      | GString => GCStringNull
      | GBytes => GCBytes 0 false
      | GMessage => GCMessageNull
      | _ => GCWord 0
      end
  end.
Definition zero_init (gf : gfield) : gfield_init :=
  {| gi_quant := match gf_quant gf with GQHas | GQCount => Some 0 | _ => None end;
     gi_cell := zero_cell gf |}.

Definition init_state (m : gmsg) : list gfield_init :=
  if gm_has_init m then gm_init m else map zero_init (gm_fields m).

(* schemas on which the plugin itself fails (no output to compare with) *)
Definition field_supported (f : pfile) (fd : pfield) : bool :=
  match field_generator fd with
  | FGNone => false
  | _ => match pf_oneof fd with
         | None => negb (pfl_use_oneof_field_name f)
         | Some _ => true
         end
  end.
Definition file_supported (f : pfile) : bool :=
  forallb (fun m => forallb (field_supported f) (pm_fields m)) (pfl_messages f).

(* Why [elem_width] is in Impl/SpecParse.v: the LAX variant of the specification, machine-checked NOT to be refined.

   [Lax] is Impl/SpecParse.v with the elements of a packed record read as varints of at most ten bytes whatever the
   type ([packed_varints] with [read_varint_raw 10], and, textually unchanged, what depends on it).  For a repeated bool
   field the scanner of protobuf_c_message_unpack counts ONE ELEMENT PER BYTE of a packed payload
   (count_packed_elements, type BOOL: count = len) while parse_packed_repeated_member stores one element per varint.  A
   packed bool payload with a padded element (the two bytes 128 0 = the value 0) is therefore read as 1 element into
   an array allocated for 2:
     env = [ one message: repeated bool 1 ]      d = 0      bytes = [10; 2; 128; 0]
     Lax.spec_parse_top = Some (Msg 0 [SRep 1 1 (Some [VWord 0])] [] [])
     unpack_top         = Ok   (Msg 0 [SRep 1 2 (Some [VWord 0])] [] [])
   ([lax_packed_bool_counter_example], [lax_not_refined]).  The specification proper asks the elements of a packed bool
   record to be single bytes ([elem_width TBool = 1]) and reads these bytes as [None]; with that it IS refined
   (Proofs/SpecRefine5.v, [spec_parse_refined]). *)
From Coq Require Import ZArith List Bool Lia.
From PBC Require Import Base.CInt Spec.Wire Spec.WireMsg Spec.WireRaw Impl.Desc Impl.Mem Impl.Unpack Impl.Canon Impl.SpecParse.
From PBC Require Proofs.LeafSafe Proofs.Examples.
Import ListNotations.
Local Open Scope Z_scope.

Module Lax.

Fixpoint packed_varints (fuel : nat) (t : ftype) (bs : list Z) : option (list sval) :=
  match bs with
  | [] => Some []
  | _ :: _ =>
      match fuel with
      | O => None
      | S k =>
          match read_varint_raw 10 bs with
          | Some (v, _, r) =>
              if v <? two64 then
                match scalar_of t (PVar v), packed_varints k t r with
                | Some w, Some ws => Some (VWord w :: ws)
                | _, _ => None
                end
              else None
          | None => None
          end
      end
  end.

Definition packed_elems (t : ftype) (bs : list Z) : option (list sval) :=
  match t with
  | TSfixed32 | TFixed32 | TFloat =>
      if zlen bs mod 4 =? 0 then Some (map (fun c => VWord (le_val c)) (chunks 4 (Nat.div (length bs) 4) bs)) else None
  | TSfixed64 | TFixed64 | TDouble =>
      if zlen bs mod 8 =? 0 then Some (map (fun c => VWord (le_val c)) (chunks 8 (Nat.div (length bs) 8) bs)) else None
  | TString | TBytes | TMessage => None
  | t => packed_varints (length bs) t bs
  end.

Section Step.
Variable E : env.
Variable sub : nat -> list Z -> option msg.     (* the reading of a sub-message's bytes *)

Definition spec_record (md : mdesc) (r : rawrec) (m : msg) : option msg :=
  let '(Msg d slots unions unk) := m in
  match field_index md (rr_num r) with
  | None =>
      Some (Msg d slots unions (unk ++ [{| u_tag := rr_num r; u_wt := wt_of (rr_pay r); u_data := rr_raw r |}]))
  | Some i =>
      match nth_error (md_fields md) i, nth_error slots i with
      | Some f, Some s =>
          match f_label f with
          | LRepeated =>
              match (if packable (f_type f) then match rr_pay r with PLen bs => Some bs | _ => None end else None) with
              | Some bs =>
                  obind (packed_elems (f_type f) bs) (fun vs =>
                  obind (spec_append s vs) (fun s' => Some (Msg d (set_nth slots i s') unions unk)))
              | None =>
                  obind (cell_of E sub f (rr_pay r) None) (fun v =>
                  obind (spec_append s [v]) (fun s' => Some (Msg d (set_nth slots i s') unions unk)))
              end
          | LRequired =>
              match s with
              | SOne h old =>
                  obind (cell_of E sub f (rr_pay r) (old_msg old)) (fun v =>
                  Some (Msg d (set_nth slots i (SOne h v)) unions unk))
              | _ => None
              end
          | LOptional | LNone =>
              match s with
              | SUnion g =>
                  match nth_error unions g with
                  | Some (case, cell) =>
                      let old := if case =? rr_num r then old_msg cell else None in
                      obind (cell_of E sub f (rr_pay r) old) (fun v =>
                      Some (Msg d slots (set_nth unions g (rr_num r, v)) unk))
                  | None => None
                  end
              | SOne h old =>
                  obind (cell_of E sub f (rr_pay r) (old_msg old)) (fun v =>
                  let h' := match f_quant f with QNone => h | _ => 1 end in
                  Some (Msg d (set_nth slots i (SOne h' v)) unions unk))
              | _ => None
              end
          end
      | _, _ => None
      end
  end.

Fixpoint spec_records (md : mdesc) (rs : list rawrec) (m : msg) : option msg :=
  match rs with
  | [] => Some m
  | r :: t => obind (spec_record md r m) (spec_records md t)
  end.

End Step.

Section Top.
Variable E : env.

Fixpoint spec_parse (fuel : nat) (d : nat) (b : list Z) : option msg :=
  match fuel with
  | O => None
  | S k =>
      match nth_error E d with
      | None => None
      | Some md =>
          match read_raw 5 b with
          | None => None
          | Some rs =>
              if required_present md rs
              then spec_records E (spec_parse k) md rs (init_msg d md)
              else None
          end
      end
  end.

Definition spec_parse_top (d : nat) (b : list Z) : option msg := spec_parse (S (length b)) d b.

End Top.

End Lax.

(* ------------------------------------------------------------------ *)
(* the counter-example                                                  *)

(* one message with one field: repeated bool 1 *)
Definition cx_env : env :=
  [ Examples.mkdesc [ Examples.mkf 1 LRepeated TBool QCount false false 0%nat None ] 0 ].
(* field 1, length-delimited, 2 bytes: the varint 128 0, a padded zero *)
Definition cx_bytes : list Z := [10; 2; 128; 0].

Example cx_env_ok : env_ok cx_env = true.
Proof. vm_compute. reflexivity. Qed.
Example cx_is_bytes : LeafSafe.bytes cx_bytes.
Proof. unfold LeafSafe.bytes, cx_bytes. repeat constructor; lia. Qed.

(* the lax variant reads the bytes as an array of 1 element, capacity 1; the implementation returns capacity 2;
   the specification proper does not read them *)
Theorem lax_packed_bool_counter_example :
  Lax.spec_parse_top cx_env 0 cx_bytes = Some (Msg 0 [SRep 1 1 (Some [VWord 0])] [] []) /\
  unpack_top cx_env 0 cx_bytes = Ok (Msg 0 [SRep 1 2 (Some [VWord 0])] [] []) /\
  spec_parse_top cx_env 0 cx_bytes = None.
Proof. split; [vm_compute; reflexivity|]. split; vm_compute; reflexivity. Qed.

(* so the refinement theorem is false of the lax variant *)
Theorem lax_not_refined :
  ~ (forall (E : env) (d : nat) (b : list Z) (m : msg),
       env_ok E = true -> LeafSafe.bytes b -> Mem.zlen b <= 268435425 ->
       Lax.spec_parse_top E d b = Some m -> unpack_top E d b = Ok m).
Proof.
  intros H. destruct lax_packed_bool_counter_example as (Hs & Hu & _).
  specialize (H cx_env 0%nat cx_bytes _ cx_env_ok cx_is_bytes ltac:(vm_compute; discriminate) Hs).
  rewrite Hu in H. inversion H.
Qed.

Print Assumptions lax_packed_bool_counter_example.
Print Assumptions lax_not_refined.

(* C11 -- missing required fields are always detected, never misjudged.
   Statements only; proofs in Proofs/ScanInv.v and Proofs/Required.v.

   unpack E fuel d data : the model of protobuf_c_message_unpack for message type d (Impl/Unpack.v);
   an embedded message occurrence is parsed by the same function (parse_required, TMessage case), so
   each statement below applies to every embedded occurrence at every depth as well.
   st_init / scan_loop : the scanning loop, which records one member per key met on the wire, with
                         the index of the field it belongs to (sm_field).
   must_appear f : f is required and has no declared default.  No hypothesis on the input bytes or on
   the descriptor environment. *)
From Coq Require Import ZArith List Bool.
From PBC Require Import Impl.Desc Impl.Mem Impl.Unpack Proofs.ScanInv Proofs.Required.
Import ListNotations.
Local Open Scope Z_scope.

(* success => every required field without default occurred at least once (at this level) *)
Theorem C11_success_implies_present : forall (E : env) k d data m md,
  unpack E (S k) d data = Ok m -> nth_error E d = Some md ->
  exists st, scan_loop (S (length data)) md (st_init d md data) = Ok st /\
    forall i f, nth_error (md_fields md) i = Some f -> must_appear f = true ->
      exists sm, In sm (st_members st) /\ sm_field sm = Some i.
Proof. exact unpack_ok_required_present. Qed.
Print Assumptions C11_success_implies_present.

(* one missing => failure is reported (not an incomplete message), whichever field it is, among however many *)
Theorem C11_missing_is_rejected : forall (E : env) k d data md st i f,
  nth_error E d = Some md ->
  scan_loop (S (length data)) md (st_init d md data) = Ok st ->
  nth_error (md_fields md) i = Some f -> must_appear f = true ->
  (forall sm, In sm (st_members st) -> sm_field sm <> Some i) ->
  unpack E (S k) d data = Err EFail.
Proof. exact missing_required_rejected. Qed.
Print Assumptions C11_missing_is_rejected.

(* never misjudged: when every such field occurred, the required-field test lets the message through;
   the absence of optional, repeated, oneof (or defaulted required) fields never causes rejection *)
Theorem C11_test_is_exact : forall d data md st,
  scan_loop (S (length data)) md (st_init d md data) = Ok st ->
  (forall i f, nth_error (md_fields md) i = Some f -> must_appear f = true ->
     exists sm, In sm (st_members st) /\ sm_field sm = Some i) ->
  exists slots, alloc_slots (md_fields md) (st_bitmap st) (st_slots st) = Ok slots.
Proof. exact required_test_exact. Qed.
Print Assumptions C11_test_is_exact.

(* C09, tools (1): the message-level round trip of MsgRT4.v with the serialiser taken out.  Whatever bytes are
   a field-ordered concatenation of per-field packages ([fpkg_with]: a run of well-formed records of the field
   that parse to its slot) followed by canonical unknown fields, unpack to the message made of the slots, the
   unions and the unknown fields ([unpack_quads]).  [roundtrip_canonical] is the instance where the packages
   come from [pack_msg]; C09 needs two other instances (the older parser on newer data; the newer parser on
   data whose sub-message payloads were re-serialised by the older program).
   Also: a wire payload accepted by [payload_ok] is a canonical unknown-field payload ([payload_unk]), and the
   splitting of a run of records into unknown fields ([split_recs], used to define the projection). *)
From Coq Require Import ZArith List Bool Lia ZifyBool.
From PBC Require Import Base.CInt Base.Bits Gen.LeafC Spec.Wire
     Impl.Desc Impl.Mem Impl.Enc Impl.Pack Impl.WF Impl.Unpack Impl.Canon
     Proofs.LeafEnc Proofs.EncLemmas Proofs.LeafDec Proofs.SizePack Proofs.ScanRec Proofs.ScanRecs
     Proofs.CellRT2 Proofs.FieldRT Proofs.FieldPkg Proofs.FieldPkg2 Proofs.MsgInd Proofs.MsgRT Proofs.MsgRT2 Proofs.MsgRT3
     Proofs.MsgRT4 Proofs.MemberCount.
Import ListNotations.
Local Open Scope Z_scope.

Ltac Zify.zify_post_hook ::= Z.div_mod_to_equations.

(* ---------- the round trip over packages *)
Section UQ.
Variable E : env.
Hypothesis EO : env_ok E = true.

Theorem unpack_quads : forall k d md um unk qs,
  nth_error E d = Some md ->
  map q_f qs = md_fields md ->
  (forall i q, nth_error qs i = Some q ->
     fpkg_with E (unpack E k) md (q_r q) i (q_f q) (q_s q) um (q_F q)) ->
  Forall (fun q => kind_ok (q_f q) (q_s q)) qs ->
  length um = md_n_oneofs md ->
  canon_unions (md_fields md) 0 um = true ->
  forallb (canon_unk (map f_id (md_fields md))) unk = true ->
  zlen (concat (map q_F qs) ++ concat (map pk_unknown unk)) <= max_input ->
  unpack E (S k) d (concat (map q_F qs) ++ concat (map pk_unknown unk)) = Ok (Msg d (map q_s qs) um unk).
Proof.
  intros k d md um unk qs Ed Q1 Q4 Q5 Cn Cu Ck Hlen.
  pose proof (env_desc E EO d md Ed) as D.
  set (usub := unpack E k) in *.
  set (a := concat (map q_F qs)) in *.
  set (U := concat (map pk_unknown unk)) in *.
  pose proof Hlen as Hlen0. unfold max_input in Hlen.
  rewrite zlen_app in Hlen. pose proof (zlen_nonneg _ a). pose proof (zlen_nonneg _ U).
  assert (Hids : forall q, In q qs -> 0 < f_id (q_f q) < 536870912).
  { intros q Hq. apply (desc_ok_fields _ _ D). rewrite <- Q1. apply in_map. exact Hq. }
  unfold unpack. fold (unpack E). rewrite Ed. cbv zeta. fold usub.
  set (st0 := {| st_at := a ++ U;
                 st_last := match md_fields md with [] => None | _ :: _ => Some 0%nat end;
                 st_last_idx := 0%nat; st_bitmap := repeat false (length (md_fields md));
                 st_members := []; st_slots := m_slots (init_msg d md); st_nunk := 0 |}).
  assert (Hc0 : cache_ok md st0).
  { unfold cache_ok. subst st0. cbn [st_last st_last_idx]. destruct (md_fields md); [exact I | split; [reflexivity | cbn; lia]]. }
  assert (Hl0 : zlen (st_at st0) < 4294967296) by (subst st0; cbn [st_at]; rewrite zlen_app; lia).
  assert (P1 : md_fields md = [] ++ map q_f qs) by (symmetry; exact Q1).
  assert (P5 : forall q, In q qs -> f_label (q_f q) = LRepeated -> exists n c a0, q_s q = SRep n c a0 /\ 0 <= n < 268435456).
  { intros q Hq El. rewrite Forall_forall in Q5. specialize (Q5 q Hq). unfold kind_ok in Q5. rewrite El in Q5.
    destruct (q_s q) as [|n c a0|]; try contradiction. exists n, c, a0. auto. }
  assert (P6 : forall q, In q qs -> f_label (q_f q) <> LRepeated -> forall n c a0, q_s q <> SRep n c a0).
  { intros q Hq El n c a0 Hs. rewrite Forall_forall in Q5. specialize (Q5 q Hq). unfold kind_ok in Q5. rewrite Hs in Q5.
    destruct (f_label (q_f q)); contradiction. }
  assert (P7 : st_slots st0 = [] ++ map (fun q => init_slot (q_f q)) qs).
  { subst st0. cbn [st_slots init_msg m_slots app]. rewrite <- Q1, map_map. reflexivity. }
  assert (P8 : st_bitmap st0 = [] ++ repeat false (length qs)).
  { subst st0. cbn [st_bitmap app]. rewrite <- Q1, map_length. reflexivity. }
  assert (P9 : st_at st0 = concat (map q_F qs) ++ U) by reflexivity.
  assert (Q4' : forall k0 q, nth_error qs k0 = Some q ->
            fpkg_with E usub md (q_r q) (length (@nil field) + k0) (q_f q) (q_s q) um (q_F q)).
  { intros k0 q Hq. cbn [length Nat.add]. apply Q4. exact Hq. }
  destruct (scan_quads (length E) E usub md D um qs [] [] [] st0 U P1 eq_refl eq_refl Q4' P5 P6 P7 P8 P9 Hc0 Hl0)
    as (st1 & S1 & A1 & M1 & N1 & C1 & SL1 & B1).
  assert (Hl1 : zlen (st_at st1) < 4294967296) by (rewrite A1; lia).
  destruct (scan_unknowns (length E) usub md D unk st1 [] Ck ltac:(rewrite A1, app_nil_r; reflexivity) C1 Hl1)
    as (prefs & st2 & PL & S2 & A2 & M2 & N2 & SL2 & B2 & C2).
  assert (HK1 : (length (concat (map q_r qs)) <= length a)%nat).
  { subst a. apply (recs_le_bytes E usub md um qs 0%nat); [exact Q4 | exact Hids]. }
  assert (HK2 : (length unk <= length U)%nat).
  { subst U. clear - Ck. induction unk as [|u unk IH]; [cbn; lia|]. cbn [forallb] in Ck. apply andb_true_iff in Ck.
    destruct Ck as [Cu Ck]. cbn [map concat length]. rewrite app_length. specialize (IH Ck).
    unfold canon_unk in Cu. rewrite !andb_true_iff in Cu. destruct Cu as [[[T0 T1] _] Hp].
    destruct (unk_payload _ _ Hp) as (Hwt & _).
    assert (1 <= length (pk_unknown u))%nat.
    { unfold pk_unknown. rewrite app_length. pose proof (key_nonempty (u_tag u) (u_wt u) ltac:(lia) Hwt).
      destruct (e_tag (u_tag u) (u_wt u)); [congruence | cbn; lia]. }
    lia. }
  assert (Hscan : scan_loop (S (length (a ++ U))) md st0 = Ok st2).
  { rewrite app_length.
    replace (S (length a + length U)) with
      (length (concat (map q_r qs)) + (length unk + (S (length a + length U) - length (concat (map q_r qs)) - length unk)))%nat by lia.
    rewrite S1, S2. destruct (S (length a + length U) - length (concat (map q_r qs)) - length unk)%nat; cbn [scan_loop]; rewrite A2; reflexivity. }
  rewrite Hscan. cbn [bind].
  rewrite (member_limit_ok _ _ _ _ Hscan eq_refl Hlen0).
  rewrite B2, B1, SL2, SL1. cbn [app]. rewrite <- Q1.
  rewrite (alloc_quads qs Q5). cbn [bind].
  rewrite M2, M1. cbn [length]. rewrite app_nil_r. rewrite rev_app_distr, !rev_involutive.
  rewrite (parse_members_app E usub md).
  cbn [init_msg m_unions].
  pose proof (parse_quads E usub md um qs [] (repeat (0, VWord 0) (md_n_oneofs md)) d []) as PQ.
  cbn [length app Nat.add] in PQ. rewrite PQ; clear PQ.
  - cbn [bind]. rewrite (parse_unknowns (length E) E usub md unk prefs d _ _ [] PL). cbn [app].
    rewrite (final_unions E usub md um qs D Q1 Cn Cu Q5 Q4). reflexivity.
  - exact Q4.
  - intros q g Hq [Hs _]. rewrite Forall_forall in Q5. pose proof (Q5 q Hq) as Kq.
    assert (Hfin : In (q_f q) (md_fields md)) by (rewrite <- Q1; apply in_map; exact Hq).
    destruct (desc_ok_fields _ _ D _ Hfin) as (Hfo & _ & _).
    unfold field_ok in Hfo. rewrite !andb_true_iff in Hfo. destruct Hfo as [[[_ Hlq] _] _].
    unfold kind_ok in Kq. rewrite Hs in Kq.
    apply nth_error_repeat.
    destruct (f_label (q_f q)); try contradiction; rewrite Kq in Hlq; try discriminate Hlq;
      apply andb_true_iff in Hlq; destruct Hlq as [_ Hg]; apply Nat.ltb_lt in Hg; exact Hg.
  - intros k1 k2 q1 q2 g H1 H2 [Hs1 Hr1] [Hs2 Hr2].
    destruct (Q4 k1 q1 H1) as (_ & _ & _ & _ & A1' & _). destruct (Q4 k2 q2 H2) as (_ & _ & _ & _ & A2' & _).
    pose proof (proj1 (A1' g Hs1) Hr1) as I1. pose proof (proj1 (A2' g Hs2) Hr2) as I2.
    assert (F1 : nth_error (md_fields md) k1 = Some (q_f q1)) by (rewrite <- Q1, nth_error_map, H1; reflexivity).
    assert (F2 : nth_error (md_fields md) k2 = Some (q_f q2)) by (rewrite <- Q1, nth_error_map, H2; reflexivity).
    apply (field_index_unique (length E) md D k1 k2 _ _ F1 F2). congruence.
Qed.

End UQ.

(* ---------- a well-formed wire payload is a canonical unknown-field payload *)
Lemma take_varint_wfv : forall p fuel r, wfv p -> (length p <= fuel)%nat ->
  (forall b, In b p -> 0 <= b < 256) -> take_varint fuel (p ++ r) = Some (p, r).
Proof.
  induction p as [|b t IH]; intros fuel r W L HB; [contradiction|].
  destruct fuel as [|k]; [cbn in L; lia|]. cbn [app take_varint].
  pose proof (HB b (or_introl eq_refl)) as Bb.
  destruct t as [|b1 t'].
  - cbn [wfv] in W. replace (b <? 128) with true by lia. reflexivity.
  - cbn [wfv] in W. destruct W as [W0 W]. replace (b <? 128) with false by lia.
    change ((b1 :: t') ++ r) with ((b1 :: t') ++ r).
    rewrite (IH k r W ltac:(cbn [length] in *; lia) ltac:(intros x Hx; apply HB; right; exact Hx)). reflexivity.
Qed.

Lemma forallb_byte_ok : forall l, (forall b, In b l -> 0 <= b < 256) -> forallb byte_ok l = true.
Proof. intros l H. apply forallb_forall. intros b Hb. specialize (H b Hb). unfold byte_ok. lia. Qed.

Lemma payload_unk : forall wt data pref, 0 <= wt < 8 -> payload_ok wt data pref -> unk_payload_ok wt data = true.
Proof.
  intros wt data pref Hwt [HB H]. unfold unk_payload_ok. rewrite (forallb_byte_ok _ HB). cbn [andb].
  destruct H as [(-> & W & L & _) | [(-> & L & _) | [(-> & L & _) | (-> & lp & body & -> & W & L & V & Hmax & _)]]].
  - change (WT_VARINT =? 0) with true. cbv iota.
    rewrite <- (app_nil_r data). rewrite (take_varint_wfv data 10 [] W L HB). reflexivity.
  - change (WT_64BIT =? 0) with false. change (WT_64BIT =? 1) with true. cbv iota. unfold zlen. lia.
  - change (WT_32BIT =? 0) with false. change (WT_32BIT =? 1) with false. change (WT_32BIT =? 5) with true. cbv iota.
    unfold zlen. lia.
  - change (WT_LEN =? 0) with false. change (WT_LEN =? 1) with false. change (WT_LEN =? 5) with false.
    change (WT_LEN =? 2) with true. cbv iota.
    rewrite (take_varint_wfv lp 5 body W L ltac:(intros b Hb; apply HB; apply in_or_app; left; exact Hb)).
    rewrite V. pose proof (zlen_nonneg _ body). lia.
Qed.

(* ---------- splitting a run of records into unknown fields *)
Definition scan_payload (wt : Z) (at1 : list Z) : res (Z * Z) :=
  if wt =? WT_VARINT then
    match varint_end at1 10 with Some i => Ok (i + 1, 0) | None => Err EFail end
  else if wt =? WT_64BIT then (if zlen at1 <? 8 then Err EFail else Ok (8, 0))
  else if wt =? WT_LEN then
    let '(l, pref) := scan_length_prefixed_data (zlen at1) at1 0 in
    if l =? 0 then Err EFail else Ok (l, pref)
  else if wt =? WT_32BIT then (if zlen at1 <? 4 then Err EFail else Ok (4, 0))
  else Err EFail.

Fixpoint split_recs_n (fuel : nat) (bs : list Z) : list ufield :=
  match fuel with
  | O => []
  | S k =>
      match bs with
      | [] => []
      | _ :: _ =>
          let '(used, tag, wt) := parse_tag_and_wiretype (zlen bs) bs 0 0 in
          let at1 := skipn (Z.to_nat used) bs in
          match scan_payload wt at1 with
          | Ok (len, _) =>
              {| u_tag := tag; u_wt := wt; u_data := firstn (Z.to_nat len) at1 |}
                :: split_recs_n k (skipn (Z.to_nat len) at1)
          | Err _ => []
          end
      end
  end.
(* the unknown fields a parser that knows none of the field numbers retains from these bytes *)
Definition split_recs (bs : list Z) : list ufield := split_recs_n (length bs) bs.

Definition rec_uf (id : Z) (r : wrec) : ufield := {| u_tag := id; u_wt := r_wt r; u_data := r_payload r |}.

Lemma pk_unknown_rec_uf : forall id r, pk_unknown (rec_uf id r) = rec_bytes id r.
Proof. reflexivity. Qed.

(* ScanRec.payload_scan and ScanRec.tag_of_record carry two unused section parameters *)
Definition md0 : mdesc :=
  {| md_fields := []; md_ranges := []; md_n_ranges := 0; md_n_oneofs := 0%nat; md_generic_init := true |}.

Lemma scan_payload_ok : forall wt payload pref rest, payload_ok wt payload pref ->
  zlen (payload ++ rest) < 4294967296 -> scan_payload wt (payload ++ rest) = Ok (zlen payload, pref).
Proof. intros wt payload pref rest Hp Hl. unfold scan_payload. exact (payload_scan 0%nat md0 wt payload pref rest Hp Hl). Qed.

Lemma rec_bytes_nonempty : forall id r, 0 < id < 536870912 -> rec_ok r -> rec_bytes id r <> [].
Proof.
  intros id r Hid [Hwt _] E0. unfold rec_bytes in E0. apply app_eq_nil in E0. destruct E0 as [E0 _].
  exact (key_nonempty _ _ Hid Hwt E0).
Qed.

Lemma split_recs_n_S : forall k bs, bs <> [] ->
  split_recs_n (S k) bs =
  (let '(used, tag, wt) := parse_tag_and_wiretype (zlen bs) bs 0 0 in
   let at1 := skipn (Z.to_nat used) bs in
   match scan_payload wt at1 with
   | Ok (len, _) =>
       {| u_tag := tag; u_wt := wt; u_data := firstn (Z.to_nat len) at1 |}
         :: split_recs_n k (skipn (Z.to_nat len) at1)
   | Err _ => []
   end).
Proof. intros k bs H. destruct bs; [congruence | reflexivity]. Qed.

Lemma split_recs_n_spec : forall id recs fuel,
  0 < id < 536870912 -> Forall rec_ok recs -> (length recs <= fuel)%nat ->
  zlen (concat (map (rec_bytes id) recs)) < 4294967296 ->
  split_recs_n fuel (concat (map (rec_bytes id) recs)) = map (rec_uf id) recs.
Proof.
  intros id. induction recs as [|r recs IH]; intros fuel Hid Hok Hf Hlen.
  - destruct fuel; reflexivity.
  - inversion Hok as [|? ? Hr Hok']; subst. destruct Hr as [Hwt Hp].
    destruct fuel as [|k]; [cbn [length] in Hf; lia|].
    cbn [map concat] in *. unfold rec_bytes at 1. unfold rec_bytes at 1 in Hlen. rewrite <- app_assoc in *.
    set (tail := concat (map (rec_bytes id) recs)) in *.
    rewrite split_recs_n_S.
    2:{ intros Eb. apply app_eq_nil in Eb. destruct Eb as [Eb _]. exact (key_nonempty _ _ Hid Hwt Eb). }
    rewrite (tag_of_record 0%nat md0 id (r_wt r) (r_payload r ++ tail) Hid Hwt Hlen). cbv beta iota zeta.
    assert (Esk : skipn (Z.to_nat (zlen (e_tag id (r_wt r)))) (e_tag id (r_wt r) ++ r_payload r ++ tail) = r_payload r ++ tail).
    { unfold zlen. rewrite Nat2Z.id. apply skipn_app_exact. }
    rewrite Esk.
    assert (Hl2 : zlen (r_payload r ++ tail) < 4294967296).
    { rewrite !zlen_app in *. pose proof (zlen_nonneg _ (e_tag id (r_wt r))). lia. }
    rewrite (scan_payload_ok _ _ _ tail Hp Hl2).
    assert (Efn : firstn (Z.to_nat (zlen (r_payload r))) (r_payload r ++ tail) = r_payload r).
    { unfold zlen. rewrite Nat2Z.id. apply firstn_app_exact. }
    assert (Esk2 : skipn (Z.to_nat (zlen (r_payload r))) (r_payload r ++ tail) = tail).
    { unfold zlen. rewrite Nat2Z.id. apply skipn_app_exact. }
    rewrite Efn, Esk2. cbn [map]. unfold rec_uf at 1. f_equal.
    apply (IH k Hid Hok'); [cbn [length] in Hf; lia|].
    subst tail. rewrite !zlen_app in Hlen. pose proof (zlen_nonneg _ (e_tag id (r_wt r))). pose proof (zlen_nonneg _ (r_payload r)). lia.
Qed.

Lemma recs_count_le : forall id recs, 0 < id < 536870912 -> Forall rec_ok recs ->
  (length recs <= length (concat (map (rec_bytes id) recs)))%nat.
Proof.
  intros id recs Hid Hok. induction Hok as [|r rs Hr _ IH]; [cbn; lia|].
  cbn [map concat length]. rewrite app_length.
  pose proof (rec_bytes_nonempty id r Hid Hr). destruct (rec_bytes id r); [congruence | cbn [length]; lia].
Qed.

Lemma split_recs_spec : forall id recs, 0 < id < 536870912 -> Forall rec_ok recs ->
  zlen (concat (map (rec_bytes id) recs)) < 4294967296 ->
  split_recs (concat (map (rec_bytes id) recs)) = map (rec_uf id) recs.
Proof.
  intros id recs Hid Hok Hlen. unfold split_recs.
  apply (split_recs_n_spec id recs _ Hid Hok (recs_count_le id recs Hid Hok) Hlen).
Qed.

(* the unknown fields made of well-formed records of a number that is not a field are canonical *)
Lemma rec_uf_canon : forall ids id r, 0 < id < 536870912 -> existsb (Z.eqb id) ids = false -> rec_ok r ->
  canon_unk ids (rec_uf id r) = true.
Proof.
  intros ids id r Hid Hex [Hwt Hp]. unfold canon_unk, rec_uf. cbn [u_tag u_wt u_data].
  rewrite Hex. cbn [negb]. rewrite (payload_unk _ _ _ Hwt Hp). lia.
Qed.

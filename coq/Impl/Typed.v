(* Well-TYPED in-memory messages: the structural conditions that Impl/WF.v does not state and that the C types
   (or, for unknown fields, the wire format) impose on every message a program builds through the generated
   structs.  [wf_msg] says "the serialiser may be given this message"; [typed_msg] adds "the pointers point at
   structs of the type the .proto declares, the case word of a oneof holds a value of that oneof's enum, the
   unknown fields are records".  No conjunct restricts a VALUE: has flags other than 0/1, bools other than 0/1,
   NULL / default pointers, array slack and stale values behind cleared flags all stay allowed (Impl/WNorm.v
   removes them).  Proofs/WfCanon.v: the normal form of a well-formed, well-typed message is canonical.

   Only what the serialiser READS is constrained: elements beyond the count of a repeated field, and the cell
   of a oneof whose case does not select the member, are not looked at.

   [reqsub_msg] is a separate, value-level condition (a required sub-message pointer is not NULL); see the
   comment there. *)
From Coq Require Import ZArith List Bool.
From PBC Require Import Base.CInt Gen.LeafC Impl.Desc Impl.Mem Impl.Enc Impl.WF Impl.Unpack Impl.Canon.
Import ListNotations.
Local Open Scope Z_scope.

(* the first k elements satisfy p (all of them when the list is shorter); p is taken outside the fix so that a
   recursive function over [msg] may be passed (guard condition) *)
Definition all_n {A} (p : A -> bool) : list A -> nat -> bool :=
  fix go (l : list A) (k : nat) {struct l} : bool :=
    match k, l with
    | S k', x :: t => p x && go t k'
    | _, _ => true
    end.

(* pointwise over two lists; a difference in length is NOT reported here: wf_slots already demands
   length slots = length fields *)
Definition all2 {A B} (p : A -> B -> bool) : list A -> list B -> bool :=
  fix go (fs : list A) (ss : list B) {struct ss} : bool :=
    match fs, ss with
    | f :: fs', s :: ss' => p f s && go fs' ss'
    | _, _ => true
    end.

(* a message field that holds a sub-message *)
Definition sub_set (f : field) (v : sval) : bool :=
  match f_type f with
  | TMessage => match v with VMsg (Some _) => true | _ => false end
  | _ => true
  end.

Section Typed.
Variable E : env.

(* (c) A non-NULL sub-message pointer of field f points at a message whose descriptor is the one the field
   declares (in C: the member has type Sub *, and Sub__INIT stores &sub__descriptor), and that message is typed.
   Nothing is said about cells of any other type, nor about a NULL pointer. *)
Definition typed_cell (rec : msg -> bool) (f : field) (v : sval) : bool :=
  match f_type f with
  | TMessage => match v with VMsg (Some sub) => Nat.eqb (m_desc sub) (f_sub f) && rec sub | _ => true end
  | _ => true
  end.

(* (a),(c) per member.
   SOne: the cell is typed (c).  [wf_slot] + [field_ok] already give: SOne sits only at a field outside every
     oneof whose label is not repeated.
   SRep: the first n elements -- the ones that are serialised -- are typed (c); the slack is unconstrained.
     [wf_slot] already gives SRep <-> repeated.
   SUnion g: (a) the member lives in the union of ITS OWN oneof: f_quant f = QCase g (in C: offset and
     quantifier_offset of a oneof member designate the same anonymous union / case pair; wf_slot only gives
     f_oneof f and g < length unions); and, when the case word selects this member, the shared cell is typed (c). *)
Definition typed_slot (rec : msg -> bool) (unions : list (Z * sval)) (f : field) (s : slot) : bool :=
  match s with
  | SOne _ v => typed_cell rec f v
  | SRep n _ (Some l) => all_n (typed_cell rec f) l (Z.to_nat n)
  | SRep _ _ None => true
  | SUnion g =>
      match f_quant f with QCase g' => Nat.eqb g g' | _ => false end &&
      with_nth (fun cv : Z * sval => if fst cv =? f_id f then typed_cell rec f (snd cv) else true) true unions g
  end.

Definition typed_slots (rec : msg -> bool) (unions : list (Z * sval)) : list field -> list slot -> bool :=
  all2 (typed_slot rec unions).

(* (b) The case word of union number g holds a value of that oneof's enum: every field whose id equals the case
   is a member of group g.  So the case is 0 (no field has id 0), or names no field at all (both serialise as
   "nothing selected"), or names a member of this very oneof; a case naming a member of a DIFFERENT oneof or a
   field outside every oneof is excluded (the generated enum Msg__GroupCase has no such enumerator). *)
Fixpoint typed_unions (fs : list field) (g : nat) (us : list (Z * sval)) : bool :=
  match us with
  | [] => true
  | cv :: t =>
      forallb (fun f => if f_id f =? fst cv
                        then match f_quant f with QCase g' => Nat.eqb g g' | _ => false end
                        else true) fs &&
      typed_unions fs (S g) t
  end.

(* typed_msg =
     the descriptor index is in range (wf_msg says so too)
     (a),(c) every member is typed against its field
     (b) every case word is typed against its oneof
     (d) every unknown field is a record the scanner would have stored: number in 1 .. 2^29-1 and NOT the
         number of a declared field (else the parser would read it as that field), payload delimited as its
         wire type says (wf_unk only bounds the number by 2^32 and the wire type by 8).  This is a statement
         about data that normally comes from the parser, not about C types.
   Recursion through typed_cell reaches every sub-message the serialiser visits, so (a)-(d) hold at every depth. *)
Fixpoint typed_msg (m : msg) : bool :=
  match m with
  | Msg d slots unions unk =>
      match nth_error E d with
      | None => false
      | Some md =>
          typed_slots typed_msg unions (md_fields md) slots &&
          typed_unions (md_fields md) 0 unions &&
          forallb (canon_unk (map f_id (md_fields md))) unk
      end
  end.

(* ---- the one VALUE condition the theorem needs in addition (it is not a typing condition and not part of
   typed_msg).  protobuf-c serialises a REQUIRED sub-message whose pointer is NULL as an empty sub-message
   (prefixed_message_pack(NULL): key, length 0); the parser hands back a non-NULL, freshly initialised
   sub-message, or rejects the input when that sub-message has required fields of its own.  Impl/WNorm.v leaves
   the NULL in place (wn_present maps VMsg None to itself), so for such a message wnorm_msg is not what the
   parser returns and is not canonical.  reqsub_msg excludes exactly this: at every depth the serialiser
   visits, a required field of message type holds a non-NULL pointer. *)
Definition reqsub_cell (rec : msg -> bool) (f : field) (v : sval) : bool :=
  match f_type f with
  | TMessage => match v with VMsg (Some sub) => rec sub | _ => true end
  | _ => true
  end.

Definition reqsub_slot (rec : msg -> bool) (unions : list (Z * sval)) (f : field) (s : slot) : bool :=
  match s with
  | SOne _ v => (if label_eqb (f_label f) LRequired then sub_set f v else true) && reqsub_cell rec f v
  | SRep n _ (Some l) => all_n (reqsub_cell rec f) l (Z.to_nat n)
  | SRep _ _ None => true
  | SUnion g =>
      with_nth (fun cv : Z * sval => if fst cv =? f_id f then reqsub_cell rec f (snd cv) else true) true unions g
  end.

Fixpoint reqsub_msg (m : msg) : bool :=
  match m with
  | Msg d slots unions unk =>
      match nth_error E d with
      | None => false
      | Some md => all2 (reqsub_slot reqsub_msg unions) (md_fields md) slots
      end
  end.

End Typed.

(* an environment in which no field is both required and of message type: there reqsub_msg follows from wf_msg
   (Proofs/WfCanon.v wf_reqsub) *)
Definition no_required_sub (E : env) : bool :=
  forallb (fun md => forallb (fun f => negb (label_eqb (f_label f) LRequired && ftype_eqb (f_type f) TMessage))
                             (md_fields md)) E.

(* every retained unknown field, at every depth the serialiser visits, has a field number below 2^29 (the parser
   accepts 5-byte keys carrying larger numbers; they are not valid protobuf field numbers): the side condition of
   Proofs/ParseGood.v *)
Section UnkSmall.
Variable E : env.

Definition unk_cell (rec : msg -> bool) (f : field) (v : sval) : bool :=
  match f_type f with
  | TMessage => match v with VMsg (Some sub) => rec sub | _ => true end
  | _ => true
  end.

Definition unk_slot (rec : msg -> bool) (unions : list (Z * sval)) (f : field) (s : slot) : bool :=
  match s with
  | SOne _ v => unk_cell rec f v
  | SRep n _ (Some l) => all_n (unk_cell rec f) l (Z.to_nat n)
  | SRep _ _ None => true
  | SUnion g =>
      with_nth (fun cv : Z * sval => if fst cv =? f_id f then unk_cell rec f (snd cv) else true) true unions g
  end.

Fixpoint unk_small (m : msg) : bool :=
  match m with
  | Msg d slots unions unk =>
      match nth_error E d with
      | None => false
      | Some md =>
          all2 (unk_slot unk_small unions) (md_fields md) slots &&
          forallb (fun u => u_tag u <? 536870912) unk
      end
  end.
End UnkSmall.

(* Descriptors as the runtime sees them (ProtobufCFieldDescriptor /
   ProtobufCMessageDescriptor), with struct offsets abstracted to slot
   identities.  Hand-written; tied to the C code by the correspondence check. *)
From Coq Require Import ZArith List Bool.
From PBC Require Import Base.CInt Gen.LeafC.
Import ListNotations.
Local Open Scope Z_scope.

Inductive ftype :=
| TInt32 | TSint32 | TSfixed32 | TInt64 | TSint64 | TSfixed64 | TUint32 | TFixed32
| TUint64 | TFixed64 | TFloat | TDouble | TBool | TEnum | TString | TBytes | TMessage.

Definition ftype_eqb (a b : ftype) : bool :=
  match a, b with
  | TInt32, TInt32 | TSint32, TSint32 | TSfixed32, TSfixed32 | TInt64, TInt64
  | TSint64, TSint64 | TSfixed64, TSfixed64 | TUint32, TUint32 | TFixed32, TFixed32
  | TUint64, TUint64 | TFixed64, TFixed64 | TFloat, TFloat | TDouble, TDouble
  | TBool, TBool | TEnum, TEnum | TString, TString | TBytes, TBytes | TMessage, TMessage => true
  | _, _ => false
  end.

(* the numeric value of PROTOBUF_C_TYPE_*, taken from the regenerated leaf file *)
Definition type_code (t : ftype) : Z :=
  match t with
  | TInt32 => PROTOBUF_C_TYPE_INT32 | TSint32 => PROTOBUF_C_TYPE_SINT32
  | TSfixed32 => PROTOBUF_C_TYPE_SFIXED32 | TInt64 => PROTOBUF_C_TYPE_INT64
  | TSint64 => PROTOBUF_C_TYPE_SINT64 | TSfixed64 => PROTOBUF_C_TYPE_SFIXED64
  | TUint32 => PROTOBUF_C_TYPE_UINT32 | TFixed32 => PROTOBUF_C_TYPE_FIXED32
  | TUint64 => PROTOBUF_C_TYPE_UINT64 | TFixed64 => PROTOBUF_C_TYPE_FIXED64
  | TFloat => PROTOBUF_C_TYPE_FLOAT | TDouble => PROTOBUF_C_TYPE_DOUBLE
  | TBool => PROTOBUF_C_TYPE_BOOL | TEnum => PROTOBUF_C_TYPE_ENUM
  | TString => PROTOBUF_C_TYPE_STRING | TBytes => PROTOBUF_C_TYPE_BYTES
  | TMessage => PROTOBUF_C_TYPE_MESSAGE
  end.

Inductive label := LRequired | LOptional | LRepeated | LNone.
Definition label_eqb (a b : label) : bool :=
  match a, b with
  | LRequired, LRequired | LOptional, LOptional | LRepeated, LRepeated | LNone, LNone => true
  | _, _ => false
  end.

(* what quantifier_offset designates *)
Inductive quant :=
| QNone              (* quantifier_offset = 0 *)
| QHas               (* protobuf_c_boolean has_<name> *)
| QCase (g : nat)    (* the case word of oneof group g *)
| QCount.            (* size_t n_<name> *)

(* contents behind default_value *)
Inductive dflt :=
| DWord (w : Z)             (* scalar / enum / bool: raw bits *)
| DStr (s : list Z)         (* char[]: bytes before the NUL *)
| DBytes (s : list Z).      (* ProtobufCBinaryData { len, data } *)

Record field := {
  f_id : Z;
  f_label : label;
  f_type : ftype;
  f_quant : quant;
  f_packed : bool;           (* PROTOBUF_C_FIELD_FLAG_PACKED *)
  f_oneof : bool;            (* PROTOBUF_C_FIELD_FLAG_ONEOF *)
  f_sub : nat;               (* TMessage: index of the sub-descriptor in the environment *)
  f_default : option dflt;   (* default_value; None = NULL *)
}.

Record mdesc := {
  md_fields : list field;          (* sorted by id, as emitted *)
  md_ranges : list IntRange;       (* field_ranges, n_field_ranges + 1 entries *)
  md_n_ranges : Z;
  md_n_oneofs : nat;               (* number of oneof groups (unions) in the struct *)
  md_generic_init : bool;          (* message_init == NULL *)
}.

Definition env := list mdesc.

Definition is_len_type (t : ftype) : bool :=
  match t with TString | TBytes | TMessage => true | _ => false end.

(* wire types *)
Definition WT_VARINT := PROTOBUF_C_WIRE_TYPE_VARINT.
Definition WT_64BIT := PROTOBUF_C_WIRE_TYPE_64BIT.
Definition WT_LEN := PROTOBUF_C_WIRE_TYPE_LENGTH_PREFIXED.
Definition WT_32BIT := PROTOBUF_C_WIRE_TYPE_32BIT.

(* The specification-level parser reads every canonical encoding back, part 3: one record folded into the message
   ([spec_record] on the record of a known field, case by case), then all the records of one slot: the slot goes from
   its initial contents to the contents the canonical message holds; the union cells visited so far hold what the
   message holds, the others are still in their initial state. *)
From Coq Require Import ZArith List Bool Lia ZifyBool.
From PBC Require Import Base.CInt Base.Bits Spec.Wire Spec.WireMsg Spec.WireRaw Impl.Desc Impl.Mem Impl.Enc Impl.Pack Impl.WF
     Impl.Unpack Impl.Canon Impl.Denote Impl.SpecParse.
From PBC Require Proofs.EncLemmas Proofs.MsgInd.
From PBC Require Import Proofs.WholeMsg Proofs.SpecCanon1 Proofs.SpecCanon2.
Import ListNotations.
Local Open Scope Z_scope.

Ltac Zify.zify_post_hook ::= Z.div_mod_to_equations.

(* ---------------------------------------------------------------- lists *)
Lemma nth_error_mid : forall A (pre : list A) x post, nth_error (pre ++ x :: post) (length pre) = Some x.
Proof. intros A pre. induction pre as [|y pre IH]; intros x post; [reflexivity|]. cbn [app length nth_error]. apply IH. Qed.

Lemma set_nth_mid : forall A (pre : list A) x y post, set_nth (pre ++ x :: post) (length pre) y = pre ++ y :: post.
Proof.
  intros A pre. induction pre as [|z pre IH]; intros x y post; [reflexivity|].
  cbn [app length set_nth]. f_equal. apply IH.
Qed.

Lemma set_nth_same : forall A (l : list A) i x, nth_error l i = Some x -> set_nth l i x = l.
Proof.
  intros A l. induction l as [|y l IH]; intros i x H; [reflexivity|].
  destruct i as [|i]; cbn [nth_error] in H; cbn [set_nth].
  - inversion H. reflexivity.
  - f_equal. apply IH. exact H.
Qed.

Lemma set_nth_twice : forall A (l : list A) i x y, set_nth (set_nth l i x) i y = set_nth l i y.
Proof.
  intros A l. induction l as [|z l IH]; intros i x y; [reflexivity|].
  destruct i as [|i]; cbn [set_nth]; [reflexivity|]. f_equal. apply IH.
Qed.

Lemma nth_error_set_nth_eq : forall A (l : list A) i x y, nth_error l i = Some y -> nth_error (set_nth l i x) i = Some x.
Proof.
  intros A l. induction l as [|z l IH]; intros i x y H; [destruct i; discriminate H|].
  destruct i as [|i]; cbn [set_nth nth_error]; [reflexivity|]. cbn [nth_error] in H. apply (IH i x y H).
Qed.

Lemma nth_error_set_nth_neq : forall A (l : list A) i j x, i <> j -> nth_error (set_nth l i x) j = nth_error l j.
Proof.
  intros A l. induction l as [|z l IH]; intros i j x H; [reflexivity|].
  destruct i as [|i]; destruct j as [|j]; cbn [set_nth nth_error]; try reflexivity; [congruence|].
  apply IH. congruence.
Qed.

Lemma set_nth_length : forall A (l : list A) i x, length (set_nth l i x) = length l.
Proof.
  intros A l. induction l as [|z l IH]; intros i x; [reflexivity|].
  destruct i as [|i]; cbn [set_nth length]; [reflexivity|]. f_equal. apply IH.
Qed.

Lemma nth_error_eq_ext : forall A (l l' : list A), (forall n, nth_error l n = nth_error l' n) -> l = l'.
Proof.
  intros A l. induction l as [|x l IH]; intros l' H.
  - destruct l' as [|y l']; [reflexivity|]. specialize (H 0%nat). discriminate H.
  - destruct l' as [|y l']; [specialize (H 0%nat); discriminate H|].
    pose proof (H 0%nat) as H0. cbn [nth_error] in H0. inversion H0. subst y. f_equal.
    apply IH. intros n. apply (H (S n)).
Qed.

Lemma nth_error_rep : forall A (x : A) n g, (g < n)%nat -> nth_error (repeat x n) g = Some x.
Proof.
  intros A x n. induction n as [|n IH]; intros g H; [lia|].
  destruct g as [|g]; cbn [repeat nth_error]; [reflexivity|]. apply IH. lia.
Qed.

(* ---------------------------------------------------------------- field numbers *)
Lemma incrb_app_lt : forall pre x post, incrb (pre ++ x :: post) = true -> Forall (fun y => y < x) pre.
Proof.
  induction pre as [|y pre IH]; intros x post H; [constructor|].
  cbn [app] in H. cbn [incrb] in H.
  destruct (pre ++ x :: post) as [|w t] eqn:Et.
  { destruct pre; discriminate Et. }
  apply andb_true_iff in H. destruct H as [Hyw Ht]. apply Z.ltb_lt in Hyw.
  rewrite <- Et in Ht. pose proof (IH x post Ht) as Hall.
  constructor; [|exact Hall].
  destruct pre as [|y1 pre'].
  - cbn [app] in Et. inversion Et. subst. exact Hyw.
  - cbn [app] in Et. inversion Et. subst. inversion Hall; subst. lia.
Qed.

Lemma field_index_from_app : forall pre k f post, (forall f', In f' pre -> f_id f' <> f_id f) ->
  field_index_from k (pre ++ f :: post) (f_id f) = Some (k + length pre)%nat.
Proof.
  induction pre as [|g pre IH]; intros k f post H.
  - cbn [app field_index_from length]. rewrite Z.eqb_refl. f_equal. lia.
  - cbn [app field_index_from length].
    assert (Hg : f_id g <> f_id f) by (apply H; left; reflexivity).
    replace (f_id g =? f_id f) with false by lia.
    rewrite IH by (intros f' Hf'; apply H; right; exact Hf'). f_equal. lia.
Qed.

Lemma field_index_from_none : forall fs k num, existsb (Z.eqb num) (map f_id fs) = false ->
  field_index_from k fs num = None.
Proof.
  induction fs as [|f fs IH]; intros k num H; [reflexivity|].
  cbn [map existsb] in H. apply orb_false_iff in H. destruct H as [H1 H2].
  cbn [field_index_from]. replace (f_id f =? num) with false by lia. apply IH. exact H2.
Qed.

Lemma pre_ids_ne : forall md pre f post, incrb (map f_id (md_fields md)) = true -> md_fields md = pre ++ f :: post ->
  forall f', In f' pre -> f_id f' <> f_id f.
Proof.
  intros md pre f post Hi Hmd f' Hin. rewrite Hmd in Hi. rewrite map_app in Hi. cbn [map] in Hi.
  pose proof (incrb_app_lt _ _ _ Hi) as Hall. rewrite Forall_forall in Hall.
  specialize (Hall (f_id f') (in_map f_id _ _ Hin)). lia.
Qed.

(* ---------------------------------------------------------------- initial contents *)
Lemma old_msg_init : forall f, old_msg (init_cell f) = None.
Proof.
  intros f. unfold init_cell. destruct (f_type f); try reflexivity.
  destruct (f_default f) as [[w|s|s]|]; reflexivity.
Qed.

Lemma init_slot_one : forall f, f_label f <> LRepeated -> (forall g, f_quant f <> QCase g) ->
  init_slot f = SOne 0 (init_cell f).
Proof.
  intros f Hl Hq. unfold init_slot. destruct (f_label f); try congruence; destruct (f_quant f) as [| |g|]; try reflexivity;
    exfalso; apply (Hq g); reflexivity.
Qed.

Definition slot_of (acc : list sval) : slot :=
  match acc with [] => SRep 0 0 None | _ :: _ => SRep (zlen acc) (zlen acc) (Some acc) end.

Lemma append_one : forall acc x, spec_append (slot_of acc) [x] = Some (slot_of (acc ++ [x])).
Proof.
  intros acc x. destruct acc as [|y t]; [reflexivity|].
  unfold slot_of at 1. cbn [spec_append]. rewrite <- zlen_app'. reflexivity.
Qed.

(* ---------------------------------------------------------------- union cells visited so far *)
Definition qcase (g : nat) (f : field) : bool := match f_quant f with QCase g' => Nat.eqb g g' | _ => false end.

Definition selb (pre : list field) (g : nat) (cv : Z * sval) : bool :=
  existsb (fun f => (f_id f =? fst cv) && qcase g f) pre.

Definition Uinv (unions : list (Z * sval)) (pre : list field) (U : list (Z * sval)) : Prop :=
  length U = length unions /\
  forall g cv, nth_error unions g = Some cv -> nth_error U g = Some (if selb pre g cv then cv else (0, VWord 0)).

Lemma selb_snoc : forall pre f g cv, selb (pre ++ [f]) g cv = selb pre g cv || ((f_id f =? fst cv) && qcase g f).
Proof. intros. unfold selb. rewrite existsb_app. cbn [existsb]. rewrite orb_false_r. reflexivity. Qed.

Lemma Uinv_snoc_same : forall unions pre f U,
  (forall g cv, nth_error unions g = Some cv -> (f_id f =? fst cv) && qcase g f = false) ->
  Uinv unions pre U -> Uinv unions (pre ++ [f]) U.
Proof.
  intros unions pre f U H [Hl HU]. split; [exact Hl|]. intros g cv Hg.
  rewrite selb_snoc, (H g cv Hg), orb_false_r. apply HU. exact Hg.
Qed.

Lemma Uinv_snoc_other : forall unions pre f U, (forall g, f_quant f <> QCase g) ->
  Uinv unions pre U -> Uinv unions (pre ++ [f]) U.
Proof.
  intros unions pre f U Hq. apply Uinv_snoc_same. intros g cv _. unfold qcase.
  destruct (f_quant f) as [| |g'|]; try apply andb_false_r. exfalso. apply (Hq g'). reflexivity.
Qed.

Lemma Uinv_snoc_skip : forall unions pre f U g0 c v, f_quant f = QCase g0 ->
  nth_error unions g0 = Some (c, v) -> c <> f_id f ->
  Uinv unions pre U -> Uinv unions (pre ++ [f]) U.
Proof.
  intros unions pre f U g0 c v Hq Hg0 Hc. apply Uinv_snoc_same. intros g cv Hg. unfold qcase. rewrite Hq.
  destruct (Nat.eqb_spec g g0) as [->|Hne]; [|apply andb_false_r].
  rewrite Hg0 in Hg. inversion Hg. subst cv. cbn [fst]. replace (f_id f =? c) with false by lia. reflexivity.
Qed.

Lemma Uinv_snoc_sel : forall unions pre f U g0 v, f_quant f = QCase g0 ->
  nth_error unions g0 = Some (f_id f, v) ->
  Uinv unions pre U -> Uinv unions (pre ++ [f]) (set_nth U g0 (f_id f, v)).
Proof.
  intros unions pre f U g0 v Hq Hg0 [Hl HU]. split; [rewrite set_nth_length; exact Hl|].
  intros g cv Hg. rewrite selb_snoc. unfold qcase at 1. rewrite Hq.
  destruct (Nat.eqb_spec g g0) as [->|Hne].
  - rewrite Hg0 in Hg. inversion Hg. subst cv. cbn [fst]. rewrite Z.eqb_refl. rewrite orb_true_r.
    apply (nth_error_set_nth_eq _ U g0 _ _ (HU g0 _ Hg0)).
  - rewrite andb_false_r, orb_false_r. rewrite nth_error_set_nth_neq by congruence. apply HU. exact Hg.
Qed.

Lemma Uinv_init : forall unions, Uinv unions [] (repeat (0, VWord 0) (length unions)).
Proof.
  intros unions. split; [apply repeat_length|]. intros g cv Hg. cbn [selb existsb].
  apply nth_error_rep. apply nth_error_Some. congruence.
Qed.

Lemma canon_unions_nth : forall fs us g0 j cv, canon_unions fs g0 us = true -> nth_error us j = Some cv ->
  selb fs (g0 + j) cv = true \/ cv = (0, VWord 0).
Proof.
  intros fs us. induction us as [|u us IH]; intros g0 j cv H Hj; [destruct j; discriminate Hj|].
  cbn [canon_unions] in H. apply andb_true_iff in H. destruct H as [Hu Hus].
  destruct j as [|j].
  - cbn [nth_error] in Hj. inversion Hj. subst u. rewrite Nat.add_0_r.
    apply orb_true_iff in Hu. destruct Hu as [Hu|Hu]; [left; exact Hu|]. right.
    apply andb_true_iff in Hu. destruct Hu as [H0 Hv]. apply Z.eqb_eq in H0. apply shallow_eq' in Hv.
    destruct cv as [c v]. cbn [fst snd] in *. subst. reflexivity.
  - cbn [nth_error] in Hj. replace (g0 + S j)%nat with (S g0 + j)%nat by lia. apply (IH (S g0) j cv Hus Hj).
Qed.

Lemma Uinv_final : forall fs unions U, canon_unions fs 0 unions = true -> Uinv unions fs U -> U = unions.
Proof.
  intros fs unions U Hc [Hl HU]. apply nth_error_eq_ext. intros g.
  destruct (nth_error unions g) as [cv|] eqn:Hg.
  - rewrite (HU g cv Hg). destruct (canon_unions_nth fs unions 0 g cv Hc Hg) as [Hs| ->].
    + cbn [Nat.add] in Hs. rewrite Hs. reflexivity.
    + destruct (selb fs g (0, VWord 0)); reflexivity.
  - apply nth_error_None in Hg. apply nth_error_None. lia.
Qed.

(* ---------------------------------------------------------------- one record *)
Section Fold.
Variable E : env.
Variable sub : nat -> list Z -> option msg.
Variable N : Z.
Hypothesis HN : N < 2147483648.
Variable md : mdesc.
Variable d : nat.

Lemma spec_records_app : forall a b m,
  spec_records E sub md (a ++ b) m = obind (spec_records E sub md a m) (spec_records E sub md b).
Proof.
  induction a as [|r a IH]; intros b m; [reflexivity|]. cbn [app spec_records].
  destruct (spec_record E sub md r m) as [m'|]; cbn [obind]; [apply IH | reflexivity].
Qed.

Lemma spec_records_one : forall r m m', spec_record E sub md r m = Some m' -> spec_records E sub md [r] m = Some m'.
Proof. intros r m m' H. cbn [spec_records]. rewrite H. reflexivity. Qed.

Lemma rec_required : forall r i f (slots : list (slot_ sval)) U unk h old v,
  field_index md (rr_num r) = Some i -> nth_error (md_fields md) i = Some f -> nth_error slots i = Some (SOne h old) ->
  f_label f = LRequired -> cell_of E sub f (rr_pay r) (old_msg old) = Some v ->
  spec_record E sub md r (Msg d slots U unk) = Some (Msg d (set_nth slots i (SOne h v)) U unk).
Proof. intros r i f slots U unk h old v Hi Hf Hs Hl Hc. unfold spec_record. rewrite Hi, Hf, Hs, Hl, Hc. reflexivity. Qed.

Lemma rec_optional : forall r i f (slots : list (slot_ sval)) U unk h old v,
  field_index md (rr_num r) = Some i -> nth_error (md_fields md) i = Some f -> nth_error slots i = Some (SOne h old) ->
  (f_label f = LOptional \/ f_label f = LNone) -> cell_of E sub f (rr_pay r) (old_msg old) = Some v ->
  spec_record E sub md r (Msg d slots U unk) =
  Some (Msg d (set_nth slots i (SOne (match f_quant f with QNone => h | _ => 1 end) v)) U unk).
Proof.
  intros r i f slots U unk h old v Hi Hf Hs Hl Hc. unfold spec_record. rewrite Hi, Hf, Hs.
  destruct Hl as [Hl|Hl]; rewrite Hl, Hc; reflexivity.
Qed.

Lemma rec_union : forall r i f (slots : list (slot_ sval)) U unk g c cell v,
  field_index md (rr_num r) = Some i -> nth_error (md_fields md) i = Some f -> nth_error slots i = Some (SUnion g) ->
  (f_label f = LOptional \/ f_label f = LNone) -> nth_error U g = Some (c, cell) ->
  cell_of E sub f (rr_pay r) (if c =? rr_num r then old_msg cell else None) = Some v ->
  spec_record E sub md r (Msg d slots U unk) = Some (Msg d slots (set_nth U g (rr_num r, v)) unk).
Proof.
  intros r i f slots U unk g c cell v Hi Hf Hs Hl Hu Hc. unfold spec_record. rewrite Hi, Hf, Hs, Hu.
  destruct Hl as [Hl|Hl]; rewrite Hl; cbv zeta; rewrite Hc; reflexivity.
Qed.

Lemma rec_rep_elem : forall r i f (slots : list (slot_ sval)) U unk s v s',
  field_index md (rr_num r) = Some i -> nth_error (md_fields md) i = Some f -> nth_error slots i = Some s ->
  f_label f = LRepeated ->
  (if packable (f_type f) then match rr_pay r with PLen bs => Some bs | _ => None end else None) = None ->
  cell_of E sub f (rr_pay r) None = Some v -> spec_append s [v] = Some s' ->
  spec_record E sub md r (Msg d slots U unk) = Some (Msg d (set_nth slots i s') U unk).
Proof.
  intros r i f slots U unk s v s' Hi Hf Hs Hl Hsel Hc Ha. unfold spec_record.
  rewrite Hi, Hf, Hs, Hl, Hsel, Hc. cbn [obind]. rewrite Ha. reflexivity.
Qed.

Lemma rec_rep_packed : forall r i f (slots : list (slot_ sval)) U unk s bs vs s',
  field_index md (rr_num r) = Some i -> nth_error (md_fields md) i = Some f -> nth_error slots i = Some s ->
  f_label f = LRepeated -> packable (f_type f) = true -> rr_pay r = PLen bs ->
  packed_elems (f_type f) bs = Some vs -> spec_append s vs = Some s' ->
  spec_record E sub md r (Msg d slots U unk) = Some (Msg d (set_nth slots i s') U unk).
Proof.
  intros r i f slots U unk s bs vs s' Hi Hf Hs Hl Hpk Hp He Ha. unfold spec_record.
  rewrite Hi, Hf, Hs, Hl, Hpk, Hp, He. cbn [obind]. rewrite Ha. reflexivity.
Qed.

Lemma rec_unknown : forall r slots U unk, field_index md (rr_num r) = None ->
  spec_record E sub md r (Msg d slots U unk) =
  Some (Msg d slots U (unk ++ [{| u_tag := rr_num r; u_wt := wt_of (rr_pay r); u_data := rr_raw r |}])).
Proof. intros r slots U unk H. unfold spec_record. rewrite H. reflexivity. Qed.

(* ---------------------------------------------------------------- a singular member that is present *)
Lemma present_one : forall pre_s f post U unk v,
  field_index md (f_id f) = Some (length pre_s) -> nth_error (md_fields md) (length pre_s) = Some f ->
  f_label f <> LRepeated -> init_slot f = SOne 0 (init_cell f) ->
  cell_of E sub f (cell_payload E f v) None = Some v ->
  spec_records E sub md (map to_raw (one E f v)) (Msg d (pre_s ++ init_slot f :: post) U unk) =
  Some (Msg d (pre_s ++ SOne (match f_label f with
                              | LRequired => 0
                              | _ => match f_quant f with QNone => 0 | _ => 1 end
                              end) v :: post) U unk).
Proof.
  intros pre_s f post U unk v Hfi Hnf Hl Hinit Hcell. unfold one. cbn [map].
  apply spec_records_one. rewrite Hinit.
  pose proof (nth_error_mid _ pre_s (SOne 0 (init_cell f)) post) as Hns.
  destruct (f_label f) eqn:El; try congruence.
  - rewrite (rec_required (to_raw (f_id f, cell_payload E f v)) (length pre_s) f _ U unk 0 (init_cell f) v Hfi Hnf Hns El)
      by (rewrite old_msg_init; exact Hcell).
    rewrite set_nth_mid. reflexivity.
  - rewrite (rec_optional (to_raw (f_id f, cell_payload E f v)) (length pre_s) f _ U unk 0 (init_cell f) v Hfi Hnf Hns (or_introl El))
      by (rewrite old_msg_init; exact Hcell).
    rewrite set_nth_mid. reflexivity.
  - rewrite (rec_optional (to_raw (f_id f, cell_payload E f v)) (length pre_s) f _ U unk 0 (init_cell f) v Hfi Hnf Hns (or_intror El))
      by (rewrite old_msg_init; exact Hcell).
    rewrite set_nth_mid. reflexivity.
Qed.

(* ---------------------------------------------------------------- the elements of a repeated member, one record each *)
Lemma sel_none : forall rec f v, canon_cell rec f v = true ->
  (if packable (f_type f) then match cell_payload E f v with PLen bs => Some bs | _ => None end else None) = None.
Proof.
  intros rec f v Hc. change (packable (f_type f)) with (is_scalar (f_type f)).
  destruct (is_scalar (f_type f)) eqn:Hs; [|reflexivity].
  destruct (canon_cell_scalar _ _ _ Hs Hc) as [w ->]. rewrite cell_payload_scalar by exact Hs.
  destruct (f_type f); try discriminate Hs; reflexivity.
Qed.

Lemma rep_fold : forall f i l acc (slots : list (slot_ sval)) U unk a,
  field_index md (f_id f) = Some i -> nth_error (md_fields md) i = Some f -> f_label f = LRepeated ->
  0 < f_id f < 536870912 ->
  nth_error slots i = Some (slot_of acc) ->
  forallb (canon_cell (canon_msg E) f) l = true ->
  concatM_n (pk_required (pack_msg E) f) l (length l) = Ok a -> zlen a <= N ->
  Forall (sub_ok E sub N) l ->
  spec_records E sub md (map to_raw (map (fun v => (f_id f, cell_payload E f v)) l)) (Msg d slots U unk) =
  Some (Msg d (set_nth slots i (slot_of (acc ++ l))) U unk).
Proof.
  intros f i l. induction l as [|x t IH]; intros acc slots U unk a Hfi Hnf Hl Hid Hns Hc Hp Hz Hsub.
  - cbn [map spec_records]. rewrite app_nil_r. rewrite set_nth_same by exact Hns. reflexivity.
  - cbn [length] in Hp. rewrite concatM_n_cons in Hp. cbn [forallb] in Hc.
    apply andb_true_iff in Hc. destruct Hc as [Hx Ht].
    destruct (pk_required (pack_msg E) f x) as [y|e] eqn:Ey; cbn [bind] in Hp; [|discriminate Hp].
    destruct (concatM_n (pk_required (pack_msg E) f) t (length t)) as [ys|e] eqn:Eys; cbn [bind] in Hp; [|discriminate Hp].
    inversion Hp; subst a. clear Hp. rewrite zlen_app' in Hz.
    pose proof (zlen_nonneg' _ y). pose proof (zlen_nonneg' _ ys).
    inversion Hsub as [|x' t' Hsx Hst]; subst.
    pose proof (cell_reads E sub N f x y Hid Hx Ey ltac:(lia) HN Hsx) as Hcell.
    cbn [map spec_records].
    rewrite (rec_rep_elem (to_raw (f_id f, cell_payload E f x)) i f slots U unk (slot_of acc) x (slot_of (acc ++ [x]))
               Hfi Hnf Hns Hl (sel_none _ f x Hx) Hcell (append_one acc x)).
    cbn [obind].
    rewrite (IH (acc ++ [x]) (set_nth slots i (slot_of (acc ++ [x]))) U unk ys Hfi Hnf Hl Hid
               (nth_error_set_nth_eq _ slots i _ _ Hns) Ht eq_refl ltac:(lia) Hst).
    rewrite set_nth_twice. rewrite <- app_assoc. reflexivity.
Qed.

(* ---------------------------------------------------------------- all the records of one slot *)
Variable unions : list (Z * sval).
Hypothesis Hincr : incrb (map f_id (md_fields md)) = true.

Lemma slot_fold : forall nu pre_f f post_f pre_s s post a U unk,
  md_fields md = pre_f ++ f :: post_f -> length pre_s = length pre_f ->
  fgood nu f -> canon_slot (canon_msg E) unions f s = true ->
  pk_field (pack_msg E) unions f s = Ok a -> zlen a <= N ->
  MsgInd.slot_all (sub_ok E sub N) s -> Forall (fun cv : Z * sval => sub_ok E sub N (snd cv)) unions ->
  Uinv unions pre_f U ->
  exists U',
    spec_records E sub md (map to_raw (slot_records E unions f s)) (Msg d (pre_s ++ init_slot f :: post) U unk) =
    Some (Msg d (pre_s ++ s :: post) U' unk) /\ Uinv unions (pre_f ++ [f]) U'.
Proof.
  intros nu pre_f f post_f pre_s s post a U unk Hmd Hlen [Hok [Hid Hzero]] Hc Hp Hz Hsub Hsubu HU.
  destruct (field_ok_parts _ _ Hok) as [_ [Hsh Hpk]].
  assert (Hfi : field_index md (f_id f) = Some (length pre_s)).
  { unfold field_index. rewrite Hmd. rewrite field_index_from_app by (apply (pre_ids_ne md pre_f f post_f Hincr Hmd)).
    rewrite Hlen. reflexivity. }
  assert (Hnf : nth_error (md_fields md) (length pre_s) = Some f).
  { rewrite Hmd, Hlen. apply nth_error_mid. }
  revert Hc Hp Hsh Hzero. unfold canon_slot, pk_field, slot_records.
  destruct (f_label f) eqn:El; destruct s as [has v|n cap arr|g]; intros Hc Hp Hsh Hzero; try discriminate Hc.
  - (* required *)
    apply andb_true_iff in Hc. destruct Hc as [Hh Hc]. apply Z.eqb_eq in Hh. subst has.
    destruct (f_quant f) eqn:Eq; try discriminate Hsh.
    assert (Hq : forall g, f_quant f <> QCase g) by (intros g; congruence).
    assert (Hlr : f_label f <> LRepeated) by congruence.
    exists U. split; [|apply Uinv_snoc_other; assumption].
    rewrite (present_one pre_s f post U unk v Hfi Hnf Hlr (init_slot_one f Hlr Hq)
               (cell_reads E sub N f v a Hid Hc Hp Hz HN Hsub)).
    rewrite El. reflexivity.
  - (* optional, own member *)
    destruct (f_oneof f) eqn:Eo; [discriminate Hp|].
    assert (Hlr : f_label f <> LRepeated) by congruence.
    destruct (f_quant f) eqn:Eq; try discriminate Hsh.
    + (* pointer-valued: string / message *)
      assert (Hq : forall g, f_quant f <> QCase g) by (intros g; congruence).
      cbn [negb andb] in Hsh. rewrite (pk_optional_ptr _ _ _ _ Hsh) in Hp.
      apply andb_true_iff in Hc. destruct Hc as [Hh Hc]. apply Z.eqb_eq in Hh. subst has. unfold is_init.
      exists U. split; [|apply Uinv_snoc_other; assumption].
      destruct (sval_eqb_shallow v (init_cell f)) eqn:Ei.
      * apply shallow_eq' in Ei. subst v. cbn [map spec_records]. rewrite (init_slot_one f Hlr Hq). reflexivity.
      * cbn [orb] in Hc. rewrite (canon_ptr_present _ _ _ Hc) in Hp. cbn [bind] in Hp.
        rewrite (present_one pre_s f post U unk v Hfi Hnf Hlr (init_slot_one f Hlr Hq)
                   (cell_reads E sub N f v a Hid Hc Hp Hz HN Hsub)).
        rewrite El, Eq. reflexivity.
    + (* has_ flag *)
      assert (Hq : forall g, f_quant f <> QCase g) by (intros g; congruence).
      cbn [negb andb] in Hsh. apply andb_true_iff in Hsh. destruct Hsh as [Hs1 Hs2].
      apply negb_true_iff in Hs1. apply negb_true_iff in Hs2.
      rewrite (pk_optional_has _ _ _ _ Hs1 Hs2) in Hp.
      exists U. split; [|apply Uinv_snoc_other; assumption].
      destruct (Z.eqb_spec has 0) as [Hh|Hh].
      * subst has. apply shallow_eq' in Hc. subst v. cbn [map spec_records]. rewrite (init_slot_one f Hlr Hq). reflexivity.
      * apply andb_true_iff in Hc. destruct Hc as [Hh1 Hc]. apply Z.eqb_eq in Hh1. subst has.
        rewrite (present_one pre_s f post U unk v Hfi Hnf Hlr (init_slot_one f Hlr Hq)
                   (cell_reads E sub N f v a Hid Hc Hp Hz HN Hsub)).
        rewrite El, Eq. reflexivity.
  - (* optional, oneof member *)
    destruct (f_oneof f) eqn:Eo; [|discriminate Hp].
    apply andb_true_iff in Hc. destruct Hc as [Hg Hc].
    destruct (f_quant f) as [| |g'|] eqn:Eq; try discriminate Hg. apply Nat.eqb_eq in Hg. subst g'.
    assert (Hinit : init_slot f = SUnion g) by (unfold init_slot; rewrite El, Eq; reflexivity).
    rewrite Hinit. rewrite with_nth_nth_error in Hc, Hp. rewrite with_nth_nth_error.
    destruct (nth_error unions g) as [[c v]|] eqn:Hug; [|discriminate Hc].
    cbn [fst snd] in *. unfold pk_oneof in Hp.
    destruct (Z.eqb_spec c (f_id f)) as [Hcf|Hcf].
    + subst c. cbn [negb] in Hp. rewrite (canon_ptr_present _ _ _ Hc) in Hp. cbn [bind] in Hp.
      assert (Hsv : sub_ok E sub N v).
      { rewrite Forall_forall in Hsubu. apply (Hsubu (f_id f, v)). apply (nth_error_In _ _ Hug). }
      pose proof (cell_reads E sub N f v a Hid Hc Hp Hz HN Hsv) as Hcell.
      exists (set_nth U g (f_id f, v)). split; [|apply (Uinv_snoc_sel unions pre_f f U g v Eq Hug HU)].
      unfold one. cbn [map]. apply spec_records_one.
      destruct HU as [HlU HU]. pose proof (HU g _ Hug) as HUg.
      assert (Hsel : selb pre_f g (f_id f, v) = false).
      { unfold selb. apply not_true_is_false. intros Hex. apply existsb_exists in Hex.
        destruct Hex as [f' [Hin Hf']]. apply andb_true_iff in Hf'. destruct Hf' as [Hf' _]. cbn [fst] in Hf'.
        apply Z.eqb_eq in Hf'. apply (pre_ids_ne md pre_f f post_f Hincr Hmd f' Hin). exact Hf'. }
      rewrite Hsel in HUg.
      apply (rec_union (to_raw (f_id f, cell_payload E f v)) (length pre_s) f _ U unk g 0 (VWord 0) v Hfi Hnf
               (nth_error_mid _ pre_s (SUnion g) post) (or_introl El) HUg).
      cbn [to_raw rr_num rr_pay fst snd]. destruct (0 =? f_id f); exact Hcell.
    + cbn [negb] in Hp. exists U. split; [reflexivity|].
      apply (Uinv_snoc_skip unions pre_f f U g c v Eq Hug Hcf HU).
  - (* repeated *)
    destruct (f_quant f) eqn:Eq; try discriminate Hsh.
    assert (Hq : forall g, f_quant f <> QCase g) by (intros g; congruence).
    assert (Hinit : init_slot f = SRep 0 0 None) by (unfold init_slot; rewrite El; reflexivity).
    rewrite Hinit.
    exists U. split; [|apply Uinv_snoc_other; assumption].
    unfold pk_repeated in Hp.
    destruct arr as [l|].
    + apply andb_true_iff in Hc. destruct Hc as [Hc Hall].
      apply andb_true_iff in Hc. destruct Hc as [Hc _].
      apply andb_true_iff in Hc. destruct Hc as [Hc Hcap].
      apply andb_true_iff in Hc. destruct Hc as [Hn0 Hn].
      apply Z.ltb_lt in Hn0. apply Z.eqb_eq in Hn. apply Z.eqb_eq in Hcap. subst cap.
      replace (n =? 0) with false in Hp by lia.
      assert (Hlen' : Z.to_nat n = length l) by (rewrite Hn; unfold zlen; apply Nat2Z.id).
      rewrite Hlen' in Hp.
      assert (Hso : slot_of l = SRep n n (Some l)).
      { destruct l as [|x t]; [unfold zlen in Hn; cbn [length] in Hn; lia|]. cbn [slot_of]. rewrite <- Hn. reflexivity. }
      destruct (f_packed f) eqn:Epk.
      * specialize (Hpk eq_refl). cbn [map]. apply spec_records_one.
        match goal with |- spec_record _ _ _ ?r _ = _ =>
        rewrite (rec_rep_packed r (length pre_s) f _ U unk (SRep 0 0 None) _ l (slot_of l) Hfi Hnf
                   (nth_error_mid _ pre_s (SRep 0 0 None) post) El Hpk eq_refl (packed_reads E _ f l Hpk Hall)) end.
        -- rewrite set_nth_mid, Hso. reflexivity.
        -- destruct l as [|x t]; [unfold zlen in Hn; cbn [length] in Hn; lia|]. reflexivity.
      * cbn [MsgInd.slot_all] in Hsub.
        refine (eq_trans (rep_fold f (length pre_s) l [] (pre_s ++ SRep 0 0 None :: post) U unk a Hfi Hnf El Hid
                   (nth_error_mid _ pre_s (SRep 0 0 None) post) Hall Hp Hz Hsub) _).
        cbn [app]. rewrite set_nth_mid, Hso. reflexivity.
    + apply andb_true_iff in Hc. destruct Hc as [Hn Hcap]. apply Z.eqb_eq in Hn. apply Z.eqb_eq in Hcap. subst n cap.
      reflexivity.
  - (* implicit presence, own member *)
    destruct (f_oneof f) eqn:Eo; [discriminate Hp|].
    assert (Hlr : f_label f <> LRepeated) by congruence.
    destruct (f_quant f) eqn:Eq; try discriminate Hsh.
    assert (Hq : forall g, f_quant f <> QCase g) by (intros g; congruence).
    unfold pk_unlabeled in Hp. apply andb_true_iff in Hc. destruct Hc as [Hh Hc]. apply Z.eqb_eq in Hh. subst has.
    unfold is_init.
    exists U. split; [|apply Uinv_snoc_other; assumption].
    destruct (sval_eqb_shallow v (init_cell f)) eqn:Ei.
    + apply shallow_eq' in Ei. subst v. cbn [map spec_records]. rewrite (init_slot_one f Hlr Hq). reflexivity.
    + cbn [orb] in Hc. apply andb_true_iff in Hc. destruct Hc as [Hc Hnz].
      destruct (zeroish f v) as [[|]|e]; try discriminate Hnz. cbn [bind] in Hp.
      rewrite (present_one pre_s f post U unk v Hfi Hnf Hlr (init_slot_one f Hlr Hq)
                 (cell_reads E sub N f v a Hid Hc Hp Hz HN Hsub)).
      rewrite El, Eq. reflexivity.
  - (* implicit presence, oneof member *)
    destruct (f_oneof f) eqn:Eo; [|discriminate Hp].
    apply andb_true_iff in Hc. destruct Hc as [Hg Hc].
    destruct (f_quant f) as [| |g'|] eqn:Eq; try discriminate Hg. apply Nat.eqb_eq in Hg. subst g'.
    assert (Hinit : init_slot f = SUnion g) by (unfold init_slot; rewrite El, Eq; reflexivity).
    rewrite Hinit. rewrite with_nth_nth_error in Hc, Hp. rewrite with_nth_nth_error.
    destruct (nth_error unions g) as [[c v]|] eqn:Hug; [|discriminate Hc].
    cbn [fst snd] in *. unfold pk_oneof in Hp.
    destruct (Z.eqb_spec c (f_id f)) as [Hcf|Hcf].
    + subst c. cbn [negb] in Hp. rewrite (canon_ptr_present _ _ _ Hc) in Hp. cbn [bind] in Hp.
      assert (Hsv : sub_ok E sub N v).
      { rewrite Forall_forall in Hsubu. apply (Hsubu (f_id f, v)). apply (nth_error_In _ _ Hug). }
      pose proof (cell_reads E sub N f v a Hid Hc Hp Hz HN Hsv) as Hcell.
      exists (set_nth U g (f_id f, v)). split; [|apply (Uinv_snoc_sel unions pre_f f U g v Eq Hug HU)].
      unfold one. cbn [map]. apply spec_records_one.
      destruct HU as [HlU HU]. pose proof (HU g _ Hug) as HUg.
      assert (Hsel : selb pre_f g (f_id f, v) = false).
      { unfold selb. apply not_true_is_false. intros Hex. apply existsb_exists in Hex.
        destruct Hex as [f' [Hin Hf']]. apply andb_true_iff in Hf'. destruct Hf' as [Hf' _]. cbn [fst] in Hf'.
        apply Z.eqb_eq in Hf'. apply (pre_ids_ne md pre_f f post_f Hincr Hmd f' Hin). exact Hf'. }
      rewrite Hsel in HUg.
      apply (rec_union (to_raw (f_id f, cell_payload E f v)) (length pre_s) f _ U unk g 0 (VWord 0) v Hfi Hnf
               (nth_error_mid _ pre_s (SUnion g) post) (or_intror El) HUg).
      cbn [to_raw rr_num rr_pay fst snd]. destruct (0 =? f_id f); exact Hcell.
    + cbn [negb] in Hp. exists U. split; [reflexivity|].
      apply (Uinv_snoc_skip unions pre_f f U g c v Eq Hug Hcf HU).
Qed.

End Fold.

(* Thin wrappers that turn the regenerated leaf encoders (which write through
   a buffer and return a count) into byte lists: the bytes that occupy the
   [count] positions the caller then skips. *)
From Coq Require Import ZArith List Bool.
From PBC Require Import Base.CInt Gen.LeafC Impl.Desc Impl.Mem.
Import ListNotations.
Local Open Scope Z_scope.

Definition enc (r : Z * list Z) : list Z := take_pad (Z.to_nat (fst r)) (snd r).

Definition e_uint32 (v : Z) := enc (uint32_pack v []).
Definition e_int32 (v : Z) := enc (int32_pack v []).
Definition e_sint32 (v : Z) := enc (sint32_pack v []).
Definition e_uint64 (v : Z) := enc (uint64_pack v []).
Definition e_sint64 (v : Z) := enc (sint64_pack v []).
Definition e_fixed32 (v : Z) := enc (fixed32_pack v []).
Definition e_fixed64 (v : Z) := enc (fixed64_pack v []).
Definition e_bool (v : Z) := enc (boolean_pack v []).

(* tag_pack(id, out); out[0] |= wire_type *)
Definition e_tag (id wt : Z) : list Z :=
  let o := enc (tag_pack id []) in
  upd o 0 (u8 (Z.lor (rd o 0) wt)).

(* the wire type each required_field_pack case ORs into the key *)
Definition wire_type_of (t : ftype) : Z :=
  match t with
  | TSint32 | TEnum | TInt32 | TUint32 | TSint64 | TInt64 | TUint64 | TBool => WT_VARINT
  | TSfixed32 | TFixed32 | TFloat => WT_32BIT
  | TSfixed64 | TFixed64 | TDouble => WT_64BIT
  | TString | TBytes | TMessage => WT_LEN
  end.

(* the bytes required_field_pack writes after the key for a scalar cell *)
Definition e_scalar (t : ftype) (w : Z) : res (list Z) :=
  match t with
  | TSint32 => Ok (e_sint32 (s32 w))
  | TEnum | TInt32 => Ok (e_int32 (u32 w))
  | TUint32 => Ok (e_uint32 (u32 w))
  | TSint64 => Ok (e_sint64 (s64 w))
  | TInt64 | TUint64 => Ok (e_uint64 (u64 w))
  | TSfixed32 | TFixed32 | TFloat => Ok (e_fixed32 (u32 w))
  | TSfixed64 | TFixed64 | TDouble => Ok (e_fixed64 (u64 w))
  | TBool => Ok (e_bool (s32 w))
  | TString | TBytes | TMessage => Err EDesc
  end.

(* the size required_field_get_packed_size adds after the key for a scalar cell *)
Definition sz_scalar (t : ftype) (w : Z) : res Z :=
  match t with
  | TSint32 => Ok (sint32_size (s32 w))
  | TEnum | TInt32 => Ok (int32_size (s32 w))
  | TUint32 => Ok (uint32_size (u32 w))
  | TSint64 => Ok (sint64_size (s64 w))
  | TInt64 | TUint64 => Ok (uint64_size (u64 w))
  | TSfixed32 | TFixed32 | TFloat => Ok 4
  | TSfixed64 | TFixed64 | TDouble => Ok 8
  | TBool => Ok 1
  | TString | TBytes | TMessage => Err EDesc
  end.

(* contents behind a string pointer *)
Definition str_bytes (f : field) (p : ptr (list Z)) : res (option (list Z)) :=
  match p with
  | PNull => Ok None
  | PHeap s => Ok (Some s)
  | PDef => match f_default f with Some (DStr s) => Ok (Some s) | _ => Err EDesc end
  end.

(* contents behind a ProtobufCBinaryData.data pointer, first [len] bytes *)
Definition data_bytes (f : field) (len : Z) (p : ptr (list Z)) : res (list Z) :=
  if len =? 0 then Ok []
  else
    let take (s : list Z) :=
      if len <=? zlen s then Ok (firstn (Z.to_nat len) s) else Err EOob in
    match p with
    | PNull => Err ENull
    | PHeap s => take s
    | PDef => match f_default f with Some (DBytes s) => take s | _ => Err EDesc end
    end.

(* field_is_zeroish *)
Definition zeroish (f : field) (v : sval) : res bool :=
  match f_type f with
  | TBool | TEnum | TSint32 | TInt32 | TUint32 | TSfixed32 | TFixed32 | TFloat =>
      do w <- as_word v; Ok (u32 w =? 0)
  | TSint64 | TInt64 | TUint64 | TSfixed64 | TFixed64 | TDouble =>
      do w <- as_word v; Ok (u64 w =? 0)
  | TString =>
      do p <- as_str v;
      do s <- str_bytes f p;
      Ok (match s with None => true | Some [] => true | Some (c :: _) => c =? 0 end)
  | TBytes => do lp <- as_bytes v; Ok (fst lp =? 0)   (* reads the first word of the struct: len *)
  | TMessage => do p <- as_msg v; Ok (match p with None => true | Some _ => false end)
  end.

(* "ptr == NULL || ptr == field->default_value" for STRING / MESSAGE members *)
Definition ptr_absent (f : field) (v : sval) : res bool :=
  match f_type f with
  | TString => do p <- as_str v; Ok (match p with PNull | PDef => true | PHeap _ => false end)
  | TMessage => do p <- as_msg v; Ok (match p with None => true | Some _ => false end)
  | _ => Ok false
  end.

(* first n elements of a repeated field's array *)
Definition get_elems {V} (n : Z) (arr : option (list V)) : res (list V) :=
  if n =? 0 then Ok []
  else match arr with
       | None => Err ENull
       | Some l => if (0 <=? n) && (n <=? zlen l) then Ok (firstn (Z.to_nat n) l) else Err EOob
       end.

(* C14 -- descriptor lookups find every key and reject every non-key.
   Numeric lookups: int_range_lookup is regenerated from protobuf-c.c; the table
   is the generator's (GenModel/Ranges.v, tied to the emitted tables). *)
From Coq Require Import ZArith List Bool Sorted.
From PBC Require Import Base.CInt Gen.LeafC GenModel.Ranges GenModel.Gen GenModel.LookupModel Proofs.Lookup Proofs.LookupGen
     Proofs.GenStruct Proofs.NameLookup Proofs.GenNameLookup.
Import ListNotations.
Local Open Scope Z_scope.

(* any table satisfying the invariant, any 32-bit key: the search returns the unique hit, or -1 *)
Theorem C14_range_lookup_exact : forall rs N v,
  ranges_ok rs N -> -2147483648 <= v < 2147483648 ->
  (forall i, 0 <= i < N -> hit rs v i -> int_range_lookup N rs v = v - rst rs i + rorig rs i) /\
  ((forall i, 0 <= i < N -> ~ hit rs v i) -> int_range_lookup N rs v = -1).
Proof.
  intros rs N v R Hv. destruct (lookup_correct rs N R v Hv) as [A B]. split; [|exact B].
  intros i Hi Hh. apply A. exists i. auto.
Qed.
Print Assumptions C14_range_lookup_exact.

(* the generated table for any strictly increasing list of 32-bit numbers (field numbers of a message,
   distinct values of an enum, up to INT32_MIN / INT32_MAX): lookup = index in the list, or -1 *)
Theorem C14_generated_table_lookup : forall vs x,
  vs <> [] -> incr vs -> Forall in32 vs -> Z.of_nat (length vs) < 2147483648 -> in32 x ->
  int_range_lookup (snd (mk_ranges vs)) (fst (mk_ranges vs)) x =
  match index_of x vs with Some k => k | None => -1 end.
Proof. exact generated_table_lookup. Qed.
Print Assumptions C14_generated_table_lookup.

(* non-vacuity: a table with runs touching both ends of the int range *)
Example C14_extremes :
  let vs := [-2147483648; -2147483647; -5; 0; 1; 2; 2147483646; 2147483647] in
  map (fun x => int_range_lookup (snd (mk_ranges vs)) (fst (mk_ranges vs)) x)
      [-2147483648; -2147483647; -2147483646; -5; -1; 0; 2; 3; 2147483645; 2147483646; 2147483647]
  = [0; 1; -1; 2; -1; 3; 5; -1; -1; 6; 7].
Proof. vm_compute. reflexivity. Qed.

(* ---- the generated descriptors (GenModel/Gen.v) under the library's lookups (GenModel/LookupModel.v) *)

(* field by number: index of the entry with that number, or -1, for every 32-bit key *)
Theorem C14_generated_message_by_number : forall tg fs f gi m x,
  pm_fields m <> [] -> NoDup (map pf_number (pm_fields m)) -> Forall in32 (map pf_number (pm_fields m)) ->
  Z.of_nat (length (pm_fields m)) < 2147483648 -> in32 x ->
  let g := gen_msg tg fs f gi m in
  int_range_lookup (gm_n_field_ranges g) (gm_field_ranges g) x =
  match LookupGen.index_of x (map gf_id (gm_fields g)) with Some k => k | None => -1 end.
Proof. exact gen_msg_number_lookup. Qed.
Print Assumptions C14_generated_message_by_number.

(* enum value by number (negative, sparse, aliased, INT32_MIN / INT32_MAX) *)
Theorem C14_generated_enum_by_number : forall f e x,
  pe_values e <> [] -> Forall in32 (map snd (pe_values e)) -> Z.of_nat (length (pe_values e)) < 2147483648 -> in32 x ->
  let g := gen_enum f e in
  int_range_lookup (ge_n_value_ranges g) (ge_value_ranges g) x =
  match LookupGen.index_of x (map gev_value (ge_values g)) with Some k => k | None => -1 end.
Proof. exact gen_enum_number_lookup. Qed.
Print Assumptions C14_generated_enum_by_number.

(* the strcmp binary search of the three ..._by_name functions, on any strictly ascending table, any key *)
Theorem C14_name_search_exact : forall names, StronglySorted slt names -> forall key,
  match name_search names key with
  | Some p => (p < length names)%nat /\ nth p names [] = key
  | None => ~ In key names
  end.
Proof. exact name_search_correct. Qed.
Print Assumptions C14_name_search_exact.

(* field by name on a generated message descriptor (names pairwise distinct, as protoc guarantees; not
   CODE_SIZE, where the table is NULL; not use_oneof_field_name: see the known finding) *)
Theorem C14_generated_message_by_name : forall tg fs f gi m,
  code_size f = false -> pfl_use_oneof_field_name f = false -> NoDup (map pf_name (pm_fields m)) ->
  forall key,
  match msg_field_by_name (gen_msg tg fs f gi m) key with
  | Some i => exists gf, nth_error (gm_fields (gen_msg tg fs f gi m)) i = Some gf /\ gf_name gf = Some key
  | None => forall gf, In gf (gm_fields (gen_msg tg fs f gi m)) -> gf_name gf <> Some key
  end.
Proof. exact gen_msg_name_lookup. Qed.
Print Assumptions C14_generated_message_by_name.

(* enum value by name, aliases included: the entry found carries the number declared for that name *)
Theorem C14_generated_enum_by_name : forall f e,
  code_size f = false -> NoDup (map fst (pe_values e)) -> forall key,
  match enum_value_by_name (gen_enum f e) key with
  | Some i => exists v gv, In (key, v) (pe_values e) /\ nth_error (ge_values (gen_enum f e)) i = Some gv /\ gev_value gv = v
  | None => forall v, ~ In (key, v) (pe_values e)
  end.
Proof. exact gen_enum_name_lookup. Qed.
Print Assumptions C14_generated_enum_by_name.

(* service method by name *)
Theorem C14_generated_service_by_name : forall fs f s,
  code_size f = false -> NoDup (map pmt_name (ps_methods s)) -> forall key,
  match svc_method_by_name (gen_svc fs f s) key with
  | Some i => exists mt, nth_error (gs_methods (gen_svc fs f s)) i = Some mt /\ gmt_name mt = Some key
  | None => forall mt, In mt (gs_methods (gen_svc fs f s)) -> gmt_name mt <> Some key
  end.
Proof. exact gen_svc_name_lookup. Qed.
Print Assumptions C14_generated_service_by_name.

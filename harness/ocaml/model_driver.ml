(* Model driver: runs the extracted Coq model on a case file (harness/FORMAT.md)
   and prints one line per case, in the format the C driver prints. *)
open BinNums
open Datatypes
open Desc
open Mem

open Model_util

(* records of Spec/WireMsg.v, as ref_driver RAW prints them *)
let print_recs (b : Buffer.t) (rs : WireMsg.wrec list) : unit =
  List.iter (fun (num, p) ->
      Buffer.add_string b (Printf.sprintf " %d:" (int_of_z num));
      match p with
      | WireMsg.PVar v -> Buffer.add_string b ("0:" ^ hex_of_z_width v 16)
      | WireMsg.PI64 v -> Buffer.add_string b ("1:" ^ hex_of_z_width v 16)
      | WireMsg.PLen bs -> Buffer.add_string b ("2:" ^ hex_of_bytes bs)
      | WireMsg.PI32 v -> Buffer.add_string b ("5:" ^ hex_of_z_width v 8)) rs

(* ---------- tokens *)
type toks = { arr : string array; mutable pos : int }
let next t = let s = t.arr.(t.pos) in t.pos <- t.pos + 1; s
let next_int t = int_of_string (next t)
let toks_of_line (l : string) : toks =
  { arr = Array.of_list (List.filter (fun s -> s <> "") (String.split_on_char ' ' l)); pos = 0 }

(* ---------- schema *)
let ftype_of_string = function
  | "INT32" -> TInt32 | "SINT32" -> TSint32 | "SFIXED32" -> TSfixed32 | "INT64" -> TInt64
  | "SINT64" -> TSint64 | "SFIXED64" -> TSfixed64 | "UINT32" -> TUint32 | "FIXED32" -> TFixed32
  | "UINT64" -> TUint64 | "FIXED64" -> TFixed64 | "FLOAT" -> TFloat | "DOUBLE" -> TDouble
  | "BOOL" -> TBool | "ENUM" -> TEnum | "STRING" -> TString | "BYTES" -> TBytes | "MESSAGE" -> TMessage
  | s -> failwith ("bad type " ^ s)
let is4 = function
  | TInt32 | TSint32 | TSfixed32 | TUint32 | TFixed32 | TFloat | TBool | TEnum -> true | _ -> false
let label_of_string = function
  | "REQ" -> LRequired | "OPT" -> LOptional | "REP" -> LRepeated | "NONE" -> LNone
  | s -> failwith ("bad label " ^ s)
let quant_of_string s =
  if s = "N" then QNone else if s = "H" then QHas else if s = "K" then QCount
  else if s.[0] = 'C' then QCase (nat_of_int (int_of_string (String.sub s 1 (String.length s - 1))))
  else failwith ("bad quant " ^ s)
let dflt_of_string s =
  if s = "-" then None
  else let body = String.sub s 2 (String.length s - 2) in
    match s.[0] with
    | 'W' -> Some (DWord (z_of_hex body))
    | 'S' -> Some (DStr (bytes_of_hex (if body = "" then "-" else body)))
    | 'B' -> Some (DBytes (bytes_of_hex (if body = "" then "-" else body)))
    | _ -> failwith "bad default"

let parse_field (t : toks) : field =
  let _ = next t in (* F *)
  let id = next_int t in
  let lab = label_of_string (next t) in
  let ty = ftype_of_string (next t) in
  let q = quant_of_string (next t) in
  let packed = (next_int t) land 1 = 1 in   (* bit 1 = DEPRECATED: of no consequence to the model *)
  let oneof = next_int t = 1 in
  let sub = (let s = next t in if s = "-" then 0 else int_of_string s) in
  let d = dflt_of_string (next t) in
  { f_id = z_of_int id; f_label = lab; f_type = ty; f_quant = q; f_packed = packed; f_oneof = oneof;
    f_sub = nat_of_int sub; f_default = d }

let read_env (ic : in_channel) : mdesc array =
  let l = input_line ic in
  let t = toks_of_line l in
  if next t <> "ENV" then failwith "expected ENV";
  let n = next_int t in
  let res = Array.make n { md_fields = []; md_ranges = []; md_n_ranges = Z0; md_n_oneofs = O; md_generic_init = true } in
  for _ = 1 to n do
    let t = toks_of_line (input_line ic) in
    if next t <> "MSG" then failwith "expected MSG";
    let idx = next_int t in
    let nf = next_int t in
    let no = next_int t in
    let gi = next_int t = 1 in
    let fs = ref [] in
    for _ = 1 to nf do fs := parse_field (toks_of_line (input_line ic)) :: !fs done;
    let fs = List.rev !fs in
    let (rs, nr) = Ranges.mk_ranges (List.map (fun f -> f.f_id) fs) in
    res.(idx) <- { md_fields = fs; md_ranges = rs; md_n_ranges = nr; md_n_oneofs = nat_of_int no; md_generic_init = gi }
  done;
  if String.trim (input_line ic) <> "END" then failwith "expected END";
  res

(* ---------- messages *)
let parse_ptr (t : toks) : coq_Z list ptr =
  match next t with
  | "N" -> PNull | "D" -> PDef | "H" -> PHeap (bytes_of_hex (next t))
  | s -> failwith ("bad ptr " ^ s)

let rec parse_cell (t : toks) : sval =
  match next t with
  | "W" -> VWord (z_of_hex (next t))
  | "T" -> VStr (parse_ptr t)
  | "B" -> let len = next_int t in VBytes (z_of_int len, parse_ptr t)
  | "G" -> if t.arr.(t.pos) = "N" then (t.pos <- t.pos + 1; VMsg None) else VMsg (Some (parse_msg t))
  | s -> failwith ("bad cell " ^ s)
and parse_msg (t : toks) : msg =
  if next t <> "M" then failwith "expected M";
  let d = next_int t in
  let ns = next_int t in
  let slots = ref [] in
  for _ = 1 to ns do
    let s = match next t with
      | "S" -> let h = next_int t in SOne (z_of_int h, parse_cell t)
      | "R" -> let n = next_int t in let cap = next_int t in
        (match next t with
         | "N" -> SRep (z_of_int n, z_of_int cap, None)
         | "A" -> let c = next_int t in
           let els = ref [] in
           for _ = 1 to c do els := parse_cell t :: !els done;
           SRep (z_of_int n, z_of_int cap, Some (List.rev !els))
         | s -> failwith ("bad arr " ^ s))
      | "U" -> SUnion (nat_of_int (next_int t))
      | s -> failwith ("bad slot " ^ s) in
    slots := s :: !slots
  done;
  let nu = next_int t in
  let unions = ref [] in
  for _ = 1 to nu do
    let c = next_int t in
    let v = parse_cell t in
    unions := (z_of_int c, v) :: !unions
  done;
  let nk = next_int t in
  let unk = ref [] in
  for _ = 1 to nk do
    let tag = next_int t in let wt = next_int t in let data = bytes_of_hex (next t) in
    unk := { u_tag = z_of_int tag; u_wt = z_of_int wt; u_data = data } :: !unk
  done;
  Msg (nat_of_int d, List.rev !slots, List.rev !unions, List.rev !unk)

let print_ptr (b : Buffer.t) (p : coq_Z list ptr) =
  match p with
  | PNull -> Buffer.add_string b " N"
  | PDef -> Buffer.add_string b " D"
  | PHeap l -> Buffer.add_string b " H "; Buffer.add_string b (hex_of_bytes l)

let rec print_cell (env : mdesc array) (b : Buffer.t) (ty : ftype) (v : sval) =
  match ty, v with
  | TString, VStr p -> Buffer.add_string b " T"; print_ptr b p
  | TString, VWord Z0 -> Buffer.add_string b " T N"
  | TBytes, VBytes (len, p) -> Buffer.add_string b (Printf.sprintf " B %d" (int_of_z len)); print_ptr b p
  | TBytes, VWord Z0 -> Buffer.add_string b " B 0 N"
  | TMessage, VMsg None -> Buffer.add_string b " G N"
  | TMessage, VWord Z0 -> Buffer.add_string b " G N"
  | TMessage, VMsg (Some m) -> Buffer.add_string b " G"; print_msg env b m
  | _, VWord w ->
    let h = hex_of_z_width w 16 in
    let h = if is4 ty then "00000000" ^ String.sub h 8 8 else h in
    Buffer.add_string b " W "; Buffer.add_string b h
  | _, _ -> Buffer.add_string b " ?CONFUSED"
and print_msg (env : mdesc array) (b : Buffer.t) (m : msg) =
  let Msg (d, slots, unions, unk) = m in
  let di = int_of_nat d in
  let md = env.(di) in
  Buffer.add_string b (Printf.sprintf " M %d %d" di (List.length slots));
  List.iter2 (fun (f : field) s ->
      match s with
      | SOne (h, v) ->
        let h = match f.f_quant with QNone -> 0 | _ -> int_of_z h in
        Buffer.add_string b (Printf.sprintf " S %d" h); print_cell env b f.f_type v
      | SRep (n, _cap, arr) ->
        let n = int_of_z n in
        Buffer.add_string b (Printf.sprintf " R %d %d" n n);
        (match arr with
         | Some l when n > 0 ->
           Buffer.add_string b (Printf.sprintf " A %d" n);
           List.iteri (fun i v -> if i < n then print_cell env b f.f_type v) l
         | _ -> Buffer.add_string b " N")
      | SUnion g -> Buffer.add_string b (Printf.sprintf " U %d" (int_of_nat g)))
    md.md_fields slots;
  Buffer.add_string b (Printf.sprintf " %d" (List.length unions));
  List.iteri (fun g (c, v) ->
      let ci = int_of_z c in
      let member = List.find_opt (fun (f : field) ->
          (match f.f_quant with QCase g' -> int_of_nat g' = g | _ -> false) && int_of_z f.f_id = ci) md.md_fields in
      Buffer.add_string b (Printf.sprintf " %d" ci);
      match member with
      | Some f when ci <> 0 -> print_cell env b f.f_type v
      | _ -> Buffer.add_string b " W 0000000000000000")
    unions;
  Buffer.add_string b (Printf.sprintf " %d" (List.length unk));
  List.iter (fun u -> Buffer.add_string b (Printf.sprintf " %d %d %s" (int_of_z u.u_tag) (int_of_z u.u_wt) (hex_of_bytes u.u_data))) unk

let err_name = function
  | EFail -> "FAIL" | ENull -> "NULLDEREF" | EOob -> "OOB" | EAssert -> "ASSERT" | EConfused -> "CONFUSED"
  | EFuel -> "FUEL" | EUb -> "UB" | EDesc -> "DESC"

(* ---------- plans *)
let parse_plan (s : string) : nat -> bool =
  if s = "-" then (fun _ -> false)
  else begin
    let parts = String.split_on_char ',' s in
    let singles = ref [] and from = ref None in
    List.iter (fun p ->
        let n = String.length p in
        if n > 0 && p.[n-1] = '+' then from := Some (nat_of_int (int_of_string (String.sub p 0 (n-1))))
        else singles := nat_of_int (int_of_string p) :: !singles) parts;
    BufSimple.plan_of_list !singles !from
  end

(* ---------- cases *)
let run_case (env : mdesc array) (envl : mdesc list) (line : string) : string option =
  if String.length line = 0 || line.[0] = '#' then None
  else begin
    let t = toks_of_line line in
    let b = Buffer.create 256 in
    (try
       match next t with
       | "PACK" ->
         let m = parse_msg t in
         (match Size.size_msg envl m, Pack.pack_msg envl m, PackBuf.chunks_msg envl m with
          | Ok sz, Ok bytes, Ok chunks ->
            let total = List.fold_left (fun a c -> a + List.length c) 0 chunks in
            Buffer.add_string b (Printf.sprintf "P %d %d %s 0 %d %d" (int_of_z sz) (List.length bytes)
                                   (hex_of_bytes bytes) total (List.length chunks));
            List.iter (fun c -> Buffer.add_char b ' '; Buffer.add_string b (hex_of_bytes c)) chunks
          | Err e, _, _ -> Buffer.add_string b ("P MODEL-SIZE-" ^ err_name e)
          | _, Err e, _ -> Buffer.add_string b ("P MODEL-PACK-" ^ err_name e)
          | _, _, Err e -> Buffer.add_string b ("P MODEL-CHUNKS-" ^ err_name e))
       | "UNPACK" ->
         let d = next_int t in
         let data = bytes_of_hex (next t) in
         (match Unpack.unpack_top envl (nat_of_int d) data with
          | Ok m -> Buffer.add_string b "U"; print_msg env b m
          | Err EFail -> Buffer.add_string b "U FAIL"
          | Err e -> Buffer.add_string b ("U MODEL-" ^ err_name e))
       | "RT" ->
         let d = next_int t in
         let data = bytes_of_hex (next t) in
         (match Unpack.unpack_top envl (nat_of_int d) data with
          | Err EFail -> Buffer.add_string b "RT FAIL"
          | Err e -> Buffer.add_string b ("RT MODEL-" ^ err_name e)
          | Ok m ->
            let ck = match Check.check_msg envl m with Ok true -> "1" | Ok false -> "0" | Err e -> "MODEL-" ^ err_name e in
            (match Size.size_msg envl m, Pack.pack_msg envl m, PackBuf.chunks_msg envl m with
             | Ok sz, Ok bytes, Ok chunks ->
               Buffer.add_string b (Printf.sprintf "RT %s %d %s %s " ck (int_of_z sz) (hex_of_bytes bytes)
                                      (hex_of_bytes (List.concat chunks)));
               (match Unpack.unpack_top envl (nat_of_int d) bytes with
                | Ok m2 -> (match Pack.pack_msg envl m2 with
                    | Ok b2 -> Buffer.add_string b (hex_of_bytes b2)
                    | Err e -> Buffer.add_string b ("MODEL-PACK2-" ^ err_name e))
                | Err EFail -> Buffer.add_string b "FAIL2"
                | Err e -> Buffer.add_string b ("MODEL-" ^ err_name e))
             | _ -> Buffer.add_string b "RT MODEL-PACK-ERR"))
       | "CHECK" ->
         let m = parse_msg t in
         (match Check.check_msg envl m with
          | Ok false -> Buffer.add_string b "C 0 -"
          | Ok true ->
            (match Size.size_msg envl m, Pack.pack_msg envl m, PackBuf.chunks_msg envl m with
             | Ok _, Ok bytes, Ok _ ->
               (match Unpack.unpack_top envl (m_desc m) bytes with
                | Ok _ -> Buffer.add_string b "C 1 OK"
                | Err EFail -> Buffer.add_string b "C 1 REPARSE"
                | Err e -> Buffer.add_string b ("C 1 MODEL-" ^ err_name e))
             | _ -> Buffer.add_string b "C 1 CRASH")
          | Err e -> Buffer.add_string b ("C MODEL-" ^ err_name e))
       | "BUF" ->
         let cap = next_int t in
         let plan = parse_plan (next t) in
         let lens = ref [] in
         while t.pos < Array.length t.arr do lens := next_int t :: !lens done;
         let lens = List.rev !lens in
         let ctr = ref 0 in
         let chunks = List.map (fun n ->
             List.init n (fun _ -> let v = (!ctr * 7 + 3) land 255 in incr ctr; z_of_int v)) lens in
         (match BufSimple.buf_appends plan (BufSimple.buf_init (z_of_int cap)) chunks with
          | None -> Buffer.add_string b "BF MODEL-NONTERMINATION"
          | Some st ->
            let open BufSimple in
            let evs = List.rev st.b_log in
            let sizes = List.filter_map (function BAlloc (_, s) -> Some (string_of_int (int_of_z s))
                                                | BRefused (_, s) -> Some (string_of_int (int_of_z s) ^ "!")
                                                | _ -> None) evs in
            let st2 = buf_clear st in
            let evs2 = List.rev st2.b_log in
            let nfree = List.length (List.filter (function BFree _ -> true | _ -> false) evs2) in
            let fscr = List.exists (function BFreeScratch -> true | _ -> false) evs2 in
            Buffer.add_string b (Printf.sprintf "BF %d %d %d %s %d %s %d %d %d 0"
                                   (int_of_z st.b_alloced) (int_of_z st.b_len) (if st.b_must_free then 1 else 0)
                                   (hex_of_bytes st.b_data) (List.length sizes)
                                   (if sizes = [] then "-" else String.concat "," sizes)
                                   nfree (if fscr then 1 else 0) (List.length (live_blocks st2.b_log))))
       | "SPARSE" ->
         (* the specification-level reading (Impl/SpecParse.v): U <msg> as UNPACK prints it, or U NONE when the bytes
            are not a valid encoding for the schema *)
         let d = next_int t in
         let data = bytes_of_hex (next t) in
         (match SpecParse.spec_parse_top envl (nat_of_int d) data with
          | Some m -> Buffer.add_string b "U"; print_msg env b m
          | None -> Buffer.add_string b "U NONE")
       | "SREAD" ->
         (* the reference reader of Spec/WireMsg.v on arbitrary bytes: R <num:wt:value>* | R - *)
         let bytes = bytes_of_hex (next t) in
         (match WireMsg.read_message bytes with
          | Some rs -> Buffer.add_string b "R"; print_recs b rs
          | None -> Buffer.add_string b "R -")
       | "RECS" ->
         (* the records a message denotes (Impl/Denote.v) *)
         let m = parse_msg t in
         Buffer.add_string b "R"; print_recs b (Denote.records envl m)
       | "WFCANON" ->
         (* model only: is the message in the domain of the C02 (wf) and C01 (canonical) theorems? *)
         let m = parse_msg t in
         Buffer.add_string b (Printf.sprintf "W %d %d %d"
                                (if WF.wf_msg envl m then 1 else 0) (if Canon.canon_msg envl m then 1 else 0)
                                (if Canon.env_ok envl then 1 else 0))
       | "WNORM" ->
         (* model only: the normal form (Impl/WNorm.v) of a hand-built message, and whether it is canonical *)
         let m = parse_msg t in
         let n = WNorm.wnorm_msg envl m in
         (* WN <canon (wnorm m)> <hypotheses of C01_roundtrip_of_every_checked_well_typed_message: wf, typed, check accepts> *)
         let hyp = WF.wf_msg envl m && Typed.typed_msg envl m && (match Check.check_msg envl m with Ok true -> true | _ -> false) in
         Buffer.add_string b (Printf.sprintf "WN %d%s U" (if Canon.canon_msg envl n then 1 else 0) (if hyp then "h" else ""));
         print_msg env b n
       | "UNORM" ->
         (* model only: is the normalisation (Impl/Norm.v) of what unpack returns in the normal form of the
            round-trip theorem?  N - : unpack failed;  N <canon (norm m)> <canon m> *)
         let d = next_int t in
         let bytes = bytes_of_hex (next t) in
         (match Unpack.unpack_top envl (nat_of_int d) bytes with
          | Ok m ->
            Buffer.add_string b (Printf.sprintf "N %d %d %d %d %d %d"
                                   (if Canon.canon_msg envl (Norm.norm_msg envl m) then 1 else 0)
                                   (if Canon.canon_msg envl m then 1 else 0)
                                   (if WF.wf_msg envl m then 1 else 0)
                                   (if Typed.typed_msg envl m then 1 else 0)
                                   (match Check.check_msg envl m with Ok true -> 1 | _ -> 0)
                                   (if Typed.unk_small envl m then 1 else 0))
          | Err _ -> Buffer.add_string b "N -")
       | "LEDGER" ->
         (* the verified allocation monitor (Impl/Ledger.v, Proofs/LedgerSound.v) on a trace of UNPACKT events *)
         let evs = ref [] in
         while t.pos < Array.length t.arr do
           let tok = next t in
           let num s = nat_of_int (int_of_string s) in
           let two s = match String.index_opt s ':' with
             | Some i -> (String.sub s 0 i, String.sub s (i + 1) (String.length s - i - 1))
             | None -> (s, "0") in
           let body = String.sub tok 1 (String.length tok - 1) in
           let e = match tok.[0] with
             | 'a' -> let (i, z) = two body in Ledger.EvAlloc (num i, z_of_int (int_of_string z))
             | 'r' -> let (i, z) = two body in Ledger.EvRefuse (num i, z_of_int (int_of_string z))
             | 'f' -> if body = "18446744073709551615" then Ledger.EvBadFree else Ledger.EvFree (num body)
             | 'x' -> Ledger.EvBadFree
             | 'U' -> Ledger.EvRet (body = "1")
             | 'F' -> Ledger.EvFreeDone
             | _ -> failwith ("bad event " ^ tok) in
           evs := e :: !evs
         done;
         Buffer.add_string b (if Ledger.monitor (List.rev !evs) then "L 1" else "L 0")
       | "HTRACE" ->
         (* the allocation-level model (Impl/Heap.v): the allocator events of unpack (+ free_unpacked) under a refusal plan,
            printed as the C driver prints them for UNPACKT.  HTRACE <sizeof_message of each descriptor, comma separated> <d> <hex> <plan> *)
         let sizes = Array.of_list (List.map int_of_string (String.split_on_char ',' (next t))) in
         let d = next_int t in
         let bytes = bytes_of_hex (next t) in
         let plan = parse_plan (next t) in
         let szmsg n = let i = int_of_nat n in if i < Array.length sizes then z_of_int sizes.(i) else z_of_int 0 in
         let s0 = { Heap.h_next = nat_of_int 0; Heap.h_trace = [] } in
         (* unpack first, so that U1/U0 can be placed between the two phases *)
         let (o, s1) = Heap.h_unpack envl plan szmsg (nat_of_int (List.length bytes + 1)) (nat_of_int d) bytes s0 in
         let pr evs =
           List.iter (fun e -> match e with
               | Heap.EvA (i, z) -> Buffer.add_string b (Printf.sprintf " a%d:%d" (int_of_nat i) (int_of_z z))
               | Heap.EvR (i, z) -> Buffer.add_string b (Printf.sprintf " r%d:%d" (int_of_nat i) (int_of_z z))
               | Heap.EvF i -> Buffer.add_string b (Printf.sprintf " f%d" (int_of_nat i))
               | Heap.EvX -> Buffer.add_string b " x1") (List.rev evs) in
         Buffer.add_string b "T";
         pr s1.Heap.h_trace;
         (match o with
          | Some m ->
            Buffer.add_string b " U1";
            let ((), s2) = Heap.h_free envl m { Heap.h_next = s1.Heap.h_next; Heap.h_trace = [] } in
            pr s2.Heap.h_trace;
            Buffer.add_string b " F"
          | None -> Buffer.add_string b " U0")
       | "DEFECT" ->
         (* model only: Spec/Defect.v, the C19 notion of "lacks something serialisation needs" *)
         let m = parse_msg t in
         Buffer.add_string b (Printf.sprintf "D %d" (if Defect.defect_msg envl m then 1 else 0))
       | op -> Buffer.add_string b ("ERR unknown op " ^ op)
     with
     | Failure s -> Buffer.clear b; Buffer.add_string b ("ERR " ^ s)
     | Invalid_argument s -> Buffer.clear b; Buffer.add_string b ("ERR " ^ s)
     | Not_found -> Buffer.clear b; Buffer.add_string b "ERR not found");
    Some (Buffer.contents b)
  end

let () =
  let ic = open_in Sys.argv.(1) in
  let env = read_env ic in
  let envl = Array.to_list env in
  (try
     while true do
       let line = input_line ic in
       match run_case env envl line with
       | None -> ()
       | Some s -> print_string s; print_char '\n'
     done
   with End_of_file -> ());
  close_in ic

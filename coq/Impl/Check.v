(* protobuf_c_message_check (protobuf-c.c), as repaired by the "fix:" commit
   on the bytes presence test. *)
From Coq Require Import ZArith List Bool.
From PBC Require Import Base.CInt Gen.LeafC Impl.Desc Impl.Mem Impl.Enc.
Import ListNotations.
Local Open Scope Z_scope.

Section Check.
Variable E : env.

Definition allM {A} (f : A -> res bool) : list A -> nat -> res bool :=
  fix go (l : list A) (k : nat) {struct l} : res bool :=
    match k, l with
    | O, _ => Ok true
    | S k', x :: t => do b <- f x; if b then go t k' else Ok false
    | S _, [] => Err EOob
    end.

Definition bytes_ok (v : sval) : res bool :=
  do lp <- as_bytes v;
  (* bd->len > 0 on a size_t *)
  Ok (negb (negb (fst lp =? 0) && match snd lp with PNull => true | _ => false end)).

Definition ck_elem (rec : msg -> res bool) (f : field) (v : sval) : res bool :=
  match f_type f with
  | TMessage => match v with
                | VMsg (Some sub) => rec sub
                | VMsg None | VWord 0 => Ok false
                | _ => Err EConfused
                end
  | TString => do p <- as_str v; Ok (match p with PNull => false | _ => true end)
  | TBytes => bytes_ok v
  | _ => Ok true
  end.

Definition ck_single (rec : msg -> res bool) (f : field) (has : Z) (v : sval) : res bool :=
  match f_type f with
  | TMessage =>
      match v with
      | VMsg (Some sub) => rec sub
      | VMsg None | VWord 0 => Ok (negb (label_eqb (f_label f) LRequired))
      | _ => Err EConfused
      end
  | TString =>
      do p <- as_str v;
      Ok (negb (label_eqb (f_label f) LRequired && match p with PNull => true | _ => false end))
  | TBytes =>
      if negb (label_eqb (f_label f) LOptional) || f_oneof f || negb (has =? 0)
      then bytes_ok v else Ok true
  | _ => Ok true
  end.

Definition ck_field rec (unions : list (Z * sval)) (f : field) (s : slot) : res bool :=
  match s with
  | SUnion g =>
      with_nth (fun cv : Z * sval =>
                  if f_oneof f && negb (f_id f =? fst cv) then Ok true
                  else ck_single rec f (fst cv) (snd cv)) (Err EDesc) unions g
  | SRep n _ arr =>
      if label_eqb (f_label f) LRepeated then
        match arr with
        | None => Ok (n =? 0)          (* *quantity > 0 on a size_t *)
        | Some l =>
            match f_type f with
            | TMessage | TString | TBytes => allM (ck_elem rec f) l (Z.to_nat n)
            | _ => Ok true
            end
        end
      else Err EDesc
  | SOne has v =>
      if label_eqb (f_label f) LRepeated then Err EDesc
      else ck_single rec f has v
  end.

Definition ck_fields rec unions : list field -> list slot -> res bool :=
  fix go (fs : list field) (ss : list slot) {struct ss} : res bool :=
    match fs, ss with
    | [], _ => Ok true
    | f :: fs', s :: ss' =>
        do a <- ck_field rec unions f s;
        if a then go fs' ss' else Ok false
    | _ :: _, [] => Err EDesc
    end.

Fixpoint check_msg (m : msg) : res bool :=
  match m with
  | Msg d slots unions unk =>
      match nth_error E d with
      | None => Err EDesc
      | Some md => ck_fields check_msg unions (md_fields md) slots
      end
  end.

End Check.

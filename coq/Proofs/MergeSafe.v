(* merge_messages on two well-shaped messages of the same type never fails (no count outside an
   array, no null array with a positive count, no cell read at the wrong kind, no unknown oneof
   case) and gives a well-shaped message of that type. *)
From Coq Require Import ZArith List Bool Lia ZifyBool.
From PBC Require Import Base.CInt Gen.LeafC Impl.Desc Impl.Mem Impl.Enc Impl.WF Impl.Unpack Impl.Canon
     Proofs.MsgInd Proofs.Shape Proofs.SizePack Proofs.ScanRec.
Import ListNotations.
Local Open Scope Z_scope.

Section MergeSafe.
Variable E : env.
Hypothesis EO : env_ok E = true.

Notation shp := (shape_msg E).

(* what the recursive call is expected to do on the later sub-message lm *)
Definition merge_good (rec : msg -> msg -> res msg) (lm : msg) : Prop :=
  forall em, shp em = true -> shp lm = true -> m_desc em = m_desc lm ->
    exists m, rec em lm = Ok m /\ shp m = true /\ m_desc m = m_desc lm.

Definition merge_goodv (rec : msg -> msg -> res msg) (v : sval) : Prop :=
  forall lm, v = VMsg (Some lm) -> merge_good rec lm.

Lemma env_desc_ok : forall d md, nth_error E d = Some md -> desc_ok (length E) md = true.
Proof.
  intros d md H. unfold env_ok in EO. rewrite forallb_forall in EO. apply EO. eapply nth_error_In; eauto.
Qed.

Lemma firstn_zlen : forall A (l : list A), firstn (Z.to_nat (zlen l)) l = l.
Proof. intros A l. unfold zlen. rewrite Nat2Z.id. apply firstn_all. Qed.

(* ---------- one slot *)
Lemma merge_slot_shape : forall rec nu f es ls,
  slot_shape shp nu f es = true -> slot_shape shp nu f ls = true ->
  slot_all (merge_goodv rec) ls ->
  exists s, merge_slot rec f es ls = Ok s /\ slot_shape shp nu f s = true.
Proof.
  intros rec nu f es ls He Hl HQ. unfold merge_slot.
  destruct es as [eh ev|ne ce ae|ge]; destruct ls as [lh lv|nl cl al|gl];
    cbn [slot_shape] in He, Hl; repeat rewrite andb_true_iff in He; repeat rewrite andb_true_iff in Hl.
  - (* SOne, SOne *)
    destruct He as [[[He1 He2] He3] He4]. destruct Hl as [_ Hl4].
    assert (Keep : forall h v, cell_shape shp f v = true -> slot_shape shp nu f (SOne h v) = true).
    { intros h v Hv. cbn [slot_shape]. rewrite He1, He2, He3, Hv. reflexivity. }
    cbn [slot_all] in HQ.
    destruct (f_label f) eqn:EL; try discriminate He1.
    + (* required: a sub-message is merged like an optional one, anything else keeps the latter *)
      destruct (f_type f) eqn:ET; try (eexists; split; [reflexivity | apply Keep; exact Hl4]).
      unfold cell_shape in He4, Hl4. rewrite ET in He4, Hl4.
      destruct ev as [| | |[em|]]; try discriminate He4; destruct lv as [| | |[lm|]]; try discriminate Hl4.
      * apply andb_true_iff in He4, Hl4. destruct He4 as [Se De], Hl4 as [Sl Dl].
        apply Nat.eqb_eq in De, Dl.
        destruct (HQ lm eq_refl em Se Sl ltac:(congruence)) as (m & Hm & Sm & Dm).
        rewrite Hm. cbn [bind]. eexists; split; [reflexivity|]. apply Keep. unfold cell_shape. rewrite ET.
        rewrite Sm. cbn [andb]. apply Nat.eqb_eq. congruence.
      * eexists; split; [reflexivity|]. apply Keep. unfold cell_shape. rewrite ET. exact He4.
      * eexists; split; [reflexivity|]. apply Keep. unfold cell_shape. rewrite ET. exact Hl4.
      * eexists; split; [reflexivity|]. apply Keep. unfold cell_shape. rewrite ET. exact Hl4.
    + unfold cell_shape in He4, Hl4.
      destruct (f_type f) eqn:ET;
        try (destruct ev; try discriminate He4; destruct lv; try discriminate Hl4;
             unfold zeroish; rewrite ET; cbn [as_word as_bytes bind];
             destruct (f_quant f); try discriminate He2;
             match goal with |- context [if ?c then _ else _] => destruct c end;
             eexists; (split; [reflexivity|]); apply Keep; unfold cell_shape; rewrite ET; reflexivity).
      * destruct ev; try discriminate He4; destruct lv; try discriminate Hl4. cbn [as_str bind].
        match goal with |- context [if ?c then _ else _] => destruct c end;
          eexists; (split; [reflexivity|]); apply Keep; unfold cell_shape; rewrite ET; reflexivity.
      * destruct ev as [| | |[em|]]; try discriminate He4; destruct lv as [| | |[lm|]]; try discriminate Hl4.
        -- apply andb_true_iff in He4, Hl4. destruct He4 as [Se De], Hl4 as [Sl Dl].
           apply Nat.eqb_eq in De, Dl.
           destruct (HQ lm eq_refl em Se Sl ltac:(congruence)) as (m & Hm & Sm & Dm).
           rewrite Hm. cbn [bind]. eexists; split; [reflexivity|]. apply Keep. unfold cell_shape. rewrite ET.
           rewrite Sm. cbn [andb]. apply Nat.eqb_eq. congruence.
        -- eexists; split; [reflexivity|]. apply Keep. unfold cell_shape. rewrite ET. exact He4.
        -- eexists; split; [reflexivity|]. apply Keep. unfold cell_shape. rewrite ET. exact Hl4.
        -- eexists; split; [reflexivity|]. apply Keep. unfold cell_shape. rewrite ET. exact Hl4.
    + unfold cell_shape in He4, Hl4.
      destruct (f_type f) eqn:ET;
        try (destruct ev; try discriminate He4; destruct lv; try discriminate Hl4;
             unfold zeroish; rewrite ET; cbn [as_word as_bytes bind];
             destruct (f_quant f); try discriminate He2;
             match goal with |- context [if ?c then _ else _] => destruct c end;
             eexists; (split; [reflexivity|]); apply Keep; unfold cell_shape; rewrite ET; reflexivity).
      * destruct ev; try discriminate He4; destruct lv; try discriminate Hl4. cbn [as_str bind].
        match goal with |- context [if ?c then _ else _] => destruct c end;
          eexists; (split; [reflexivity|]); apply Keep; unfold cell_shape; rewrite ET; reflexivity.
      * destruct ev as [| | |[em|]]; try discriminate He4; destruct lv as [| | |[lm|]]; try discriminate Hl4.
        -- apply andb_true_iff in He4, Hl4. destruct He4 as [Se De], Hl4 as [Sl Dl].
           apply Nat.eqb_eq in De, Dl.
           destruct (HQ lm eq_refl em Se Sl ltac:(congruence)) as (m & Hm & Sm & Dm).
           rewrite Hm. cbn [bind]. eexists; split; [reflexivity|]. apply Keep. unfold cell_shape. rewrite ET.
           rewrite Sm. cbn [andb]. apply Nat.eqb_eq. congruence.
        -- eexists; split; [reflexivity|]. apply Keep. unfold cell_shape. rewrite ET. exact He4.
        -- eexists; split; [reflexivity|]. apply Keep. unfold cell_shape. rewrite ET. exact Hl4.
        -- eexists; split; [reflexivity|]. apply Keep. unfold cell_shape. rewrite ET. exact Hl4.
  - (* SOne, SRep *)
    destruct He as [[[He1 _] _] _]. destruct Hl as [Hl1 _].
    destruct (f_label f); discriminate.
  - (* SOne, SUnion *)
    destruct He as [[[_ He2] _] _]. destruct Hl as [[[_ Hl2] _] _].
    destruct (f_quant f); discriminate.
  - destruct He as [He1 _]. destruct Hl as [[[Hl1 _] _] _]. destruct (f_label f); discriminate.
  - (* SRep, SRep *)
    destruct He as [He1 He2]. destruct Hl as [_ Hl2].
    destruct (f_label f) eqn:EL; try discriminate He1.
    destruct (ne >? 0) eqn:Ene.
    + destruct (nl >? 0) eqn:Enl.
      * destruct ae as [le|]; [|lia]. destruct al as [ll|]; [|lia].
        rewrite !andb_true_iff in He2, Hl2. destruct He2 as [[A1 A2] A3]. destruct Hl2 as [[B1 B2] B3].
        replace ((ne <=? zlen le) && (nl <=? zlen ll)) with true by lia.
        eexists; split; [reflexivity|]. cbn [slot_shape]. rewrite EL. cbn [label_eqb andb].
        assert (ne = zlen le) by lia. assert (nl = zlen ll) by lia. subst ne nl.
        rewrite !firstn_zlen. rewrite forallb_app, A3, B3. rewrite zlen_app. cbn [andb].
        rewrite !andb_true_iff. split; lia.
      * eexists; split; [reflexivity|]. cbn [slot_shape]. rewrite EL. cbn [label_eqb andb].
        destruct ae as [le|]; [|exact He2].
        rewrite !andb_true_iff in He2. destruct He2 as [[A1 A2] A3]. rewrite A1, A3.
        replace (ne <=? ne) with true by lia. reflexivity.
    + eexists; split; [reflexivity|]. cbn [slot_shape]. rewrite EL. cbn [label_eqb andb]. exact Hl2.
  - destruct He as [He1 _]. destruct Hl as [[[Hl1 _] _] _].
    destruct (f_label f); try discriminate He1. discriminate Hl1.
  - destruct He as [[[_ He2] _] _]. destruct Hl as [[[_ Hl2] _] _]. destruct (f_quant f); discriminate.
  - destruct He as [[[He1 _] _] _]. destruct Hl as [Hl1 _]. destruct (f_label f); discriminate.
  - (* SUnion, SUnion *)
    assert (Hl' : slot_shape shp nu f (SUnion gl) = true).
    { cbn [slot_shape]. rewrite !andb_true_iff. exact Hl. }
    destruct He as [[[He1 _] _] _].
    destruct (f_label f); try discriminate He1; eexists; split; try reflexivity; exact Hl'.
Qed.

(* ---------- the slots *)
Lemma merge_slots_shape : forall rec nu fs es ls,
  slots_shape shp nu fs es = true -> slots_shape shp nu fs ls = true ->
  Forall (slot_all (merge_goodv rec)) ls ->
  exists ss, merge_slots rec fs es ls = Ok ss /\ slots_shape shp nu fs ss = true.
Proof.
  intros rec nu. induction fs as [|f fs IH]; intros es ls He Hl HQ.
  - destruct ls as [|l ls]; [|destruct es; discriminate Hl]. exists []. split; reflexivity.
  - destruct es as [|e es]; [discriminate He|]. destruct ls as [|l ls]; [discriminate Hl|].
    cbn [slots_shape] in He, Hl. apply andb_true_iff in He, Hl. destruct He as [He1 He2], Hl as [Hl1 Hl2].
    inversion HQ as [|? ? HQ1 HQ2]; subst.
    destruct (merge_slot_shape rec nu f e l He1 Hl1 HQ1) as (s & Hs & Ss).
    destruct (IH es ls He2 Hl2 HQ2) as (ss & Hss & Sss).
    cbn [merge_slots]. rewrite Hs. cbn [bind]. fold (merge_slots rec). rewrite Hss. cbn [bind].
    eexists; split; [reflexivity|]. cbn [slots_shape]. rewrite Ss, Sss. reflexivity.
Qed.

(* ---------- one union *)
Lemma union_shape_inv : forall fs g c v, union_shape shp fs g (c, v) = true ->
  (c = 0 /\ v = VWord 0) \/
  exists f, In f fs /\ f_id f = c /\ f_quant f = QCase g /\ f_oneof f = true /\ cell_shape shp f v = true.
Proof.
  intros fs g c v H. unfold union_shape in H. cbn [fst snd] in H. apply orb_true_iff in H. destruct H as [H|H].
  - left. apply andb_true_iff in H. destruct H as [H1 H2]. split; [lia|].
    destruct v as [w| | |]; try discriminate H2. destruct w; try discriminate H2. reflexivity.
  - right. apply existsb_exists in H. destruct H as (f & Hin & H). exists f.
    rewrite !andb_true_iff in H. destruct H as [[[H1 H2] H3] H4].
    split; [exact Hin|]. split; [lia|]. split; [|split; assumption].
    destruct (f_quant f) as [| |g'|]; try discriminate H2. apply Nat.eqb_eq in H2. subst. reflexivity.
Qed.

Lemma union_shape_member : forall fs g f v, In f fs -> f_quant f = QCase g -> f_oneof f = true ->
  cell_shape shp f v = true -> union_shape shp fs g (f_id f, v) = true.
Proof.
  intros fs g f v Hin Hq Ho Hc. unfold union_shape. cbn [fst snd]. apply orb_true_iff. right.
  apply existsb_exists. exists f. split; [exact Hin|]. rewrite Hq, Ho, Hc, Z.eqb_refl, Nat.eqb_refl. reflexivity.
Qed.

Section Union.
Variable md : mdesc.
Hypothesis D : desc_ok (length E) md = true.

Lemma field_unique : forall f f', In f (md_fields md) -> In f' (md_fields md) -> f_id f = f_id f' -> f = f'.
Proof.
  intros f f' H H' Hid. apply In_nth_error in H, H'. destruct H as [i Hi], H' as [j Hj].
  assert (i = j) by (eapply (field_index_unique (length E) md D); eauto). subst j. congruence.
Qed.

Lemma merge_union_shape : forall rec g eu lu,
  union_shape shp (md_fields md) g eu = true -> union_shape shp (md_fields md) g lu = true ->
  merge_goodv rec (snd lu) ->
  exists u, merge_union rec md g eu lu = Ok u /\ union_shape shp (md_fields md) g u = true.
Proof.
  intros rec g [ec ev] [lc lv] He Hl HQ. cbn [snd] in HQ. unfold merge_union.
  destruct (Z.eqb_spec lc 0) as [Elc|Elc].
  - destruct (Z.eqb_spec ec 0) as [Eec|Eec]; [eexists; split; [reflexivity | exact Hl]|].
    destruct (union_shape_inv _ _ _ _ He) as [[H _]|(f & Hin & Hid & Hq & Ho & Hc)]; [contradiction|].
    destruct (In_nth_error _ _ Hin) as [i Hi].
    rewrite <- Hid. rewrite (find_field_known (length E) md D i f Hi). rewrite Hi.
    unfold in_group. rewrite Hq, Nat.eqb_refl. cbn [negb].
    assert (Keep : union_shape shp (md_fields md) g (f_id f, ev) = true) by (rewrite Hid; exact He).
    unfold cell_shape in Hc.
    destruct (f_type f); try (eexists; split; [reflexivity | exact Keep]).
    destruct ev as [| | |[em|]]; try discriminate Hc; eexists; (split; [reflexivity|]); [exact Keep | exact Hl].
  - destruct (Z.eqb_spec lc ec) as [Ec|Ec]; [|eexists; split; [reflexivity | exact Hl]].
    subst ec.
    destruct (find_by_id _ lc) as [f|] eqn:Ef; [|eexists; split; [reflexivity | exact Hl]].
    unfold find_by_id in Ef. apply find_some in Ef. destruct Ef as [Hin Hid].
    apply filter_In in Hin. destruct Hin as [Hin _]. apply Z.eqb_eq in Hid.
    destruct (f_type f) eqn:ET; try (eexists; split; [reflexivity | exact Hl]).
    destruct (union_shape_inv _ _ _ _ He) as [[H _]|(fe & Hine & Hide & Hqe & Hoe & Hce)]; [contradiction|].
    destruct (union_shape_inv _ _ _ _ Hl) as [[H _]|(fl & Hinl & Hidl & Hql & Hol & Hcl)]; [contradiction|].
    assert (fe = f) by (apply field_unique; [assumption | assumption | congruence]).
    assert (fl = f) by (apply field_unique; [assumption | assumption | congruence]).
    subst fe fl. unfold cell_shape in Hce, Hcl. rewrite ET in Hce, Hcl.
    destruct ev as [| | |[em|]]; try discriminate Hce; destruct lv as [| | |[lm|]]; try discriminate Hcl;
      try (eexists; split; [reflexivity | exact Hl]).
    + apply andb_true_iff in Hce, Hcl. destruct Hce as [Se De], Hcl as [Sl Dl].
      apply Nat.eqb_eq in De, Dl.
      destruct (HQ lm eq_refl em Se Sl ltac:(congruence)) as (m & Hm & Sm & Dm).
      rewrite Hm. cbn [bind]. eexists; split; [reflexivity|]. rewrite <- Hid.
      apply union_shape_member; try assumption. unfold cell_shape. rewrite ET, Sm. cbn [andb].
      apply Nat.eqb_eq. congruence.
    + eexists; split; [reflexivity | exact He].
Qed.

(* ---------- the unions *)
Lemma merge_unions_shape : forall rec lu g eu,
  length eu = length lu ->
  unions_shape shp (md_fields md) g eu = true -> unions_shape shp (md_fields md) g lu = true ->
  Forall (fun cv : Z * sval => merge_goodv rec (snd cv)) lu ->
  exists us, merge_unions rec md g eu lu = Ok us /\ unions_shape shp (md_fields md) g us = true /\
             length us = length lu.
Proof.
  intros rec. induction lu as [|l lu IH]; intros g eu Hlen He Hl HQ.
  - destruct eu; [|discriminate Hlen]. exists []. repeat split; reflexivity.
  - destruct eu as [|e eu]; [discriminate Hlen|].
    cbn [unions_shape] in He, Hl. apply andb_true_iff in He, Hl. destruct He as [He1 He2], Hl as [Hl1 Hl2].
    inversion HQ as [|? ? HQ1 HQ2]; subst.
    destruct (merge_union_shape rec g e l He1 Hl1 HQ1) as (u & Hu & Su).
    destruct (IH (S g) eu ltac:(cbn [length] in Hlen; lia) He2 Hl2 HQ2) as (us & Hus & Sus & Lus).
    cbn [merge_unions]. rewrite Hu. cbn [bind]. fold (merge_unions rec md). rewrite Hus. cbn [bind].
    eexists; split; [reflexivity|]. cbn [unions_shape length]. rewrite Su, Sus, Lus. split; reflexivity.
Qed.

End Union.

(* ---------- the whole message *)
Theorem merge_shape : forall e l, shp e = true -> shp l = true -> m_desc e = m_desc l ->
  exists m, merge_messages E e l = Ok m /\ shp m = true /\ m_desc m = m_desc l.
Proof.
  intros e l. revert e.
  apply (msg_ind2 (merge_good (merge_messages E)) (merge_goodv (merge_messages E)));
    unfold merge_goodv; try (intros; discriminate).
  - intros m IH lm Hv. inversion Hv; subst. exact IH.
  - intros d ls lu lk HS HU [de es eu ek] Se Sl Dd. cbn [m_desc] in Dd. subst de.
    cbn [shape_msg] in Se, Sl. destruct (nth_error E d) as [md|] eqn:Emd; [|discriminate Sl].
    rewrite !andb_true_iff in Se, Sl. destruct Se as [[Se1 Se2] Se3], Sl as [[Sl1 Sl2] Sl3].
    apply Nat.eqb_eq in Se2, Sl2. rewrite Se2 in Se1. rewrite Sl2 in Sl1.
    pose proof (env_desc_ok d md Emd) as D.
    destruct (merge_slots_shape (merge_messages E) _ _ es ls Se1 Sl1 HS) as (ss & Hss & Sss).
    destruct (merge_unions_shape md D (merge_messages E) lu 0%nat eu ltac:(congruence) Se3 Sl3 HU)
      as (us & Hus & Sus & Lus).
    cbn [merge_messages m_slots m_unions m_unk]. rewrite Emd.
    fold (merge_slots (merge_messages E)). fold (merge_unions (merge_messages E) md).
    rewrite Hss. cbn [bind]. rewrite Hus. cbn [bind].
    eexists; split; [reflexivity|]. split; [|reflexivity].
    cbn [shape_msg]. rewrite Emd. rewrite Lus, Sl2, Sss, Sus, Nat.eqb_refl. reflexivity.
Qed.

End MergeSafe.

Print Assumptions merge_shape.

(* Refinement of the specification-level parser, part 5: the result.

   [spec_parse_refined], the last statement of this file: whenever the specification (Impl/SpecParse.v) reads the
   bytes as a value, the implementation model (Impl/Unpack.v, [unpack_top]) returns exactly that value.

   Before it:
   - the specification compared with its lax variant (Proofs/SpecRefine0.v, [Lax]: packed bool elements of up to ten
     bytes, which is NOT refined, [lax_packed_bool_counter_example]): the specification only ever rejects more
     ([spec_stricter_than_lax]) and the two agree on every environment without a repeated bool field
     ([lax_same_without_repeated_bool]), so the lax variant is refined on those ([lax_refined_without_repeated_bool]);
   - non-vacuity: the specification reads what [pack_msg] writes for [ex_msg] ([spec_reads_ex_msg]), a packed bool
     record of single bytes ([spec_reads_packed_bool]), and a NON-canonical valid encoding: fields out of order, a
     padded key and a padded varint, a packable field sent unpacked then packed, an unknown field
     ([spec_reads_noncanonical]). *)
From Coq Require Import ZArith List Bool Lia.
From PBC Require Import Base.CInt Gen.LeafC Spec.Wire Spec.WireMsg Spec.WireRaw Impl.Desc Impl.Mem Impl.Unpack Impl.Canon Impl.SpecParse.
From PBC Require Proofs.LeafSafe.
From PBC Require Import Impl.Pack Proofs.Examples Proofs.SpecRefine0 Proofs.SpecRefine4.
Import ListNotations.
Local Open Scope Z_scope.

(* ------------------------------------------------------------------ *)
(* 1. the specification and its lax variant compared                    *)

(* [spec_record] with the reading of a packed record as a parameter: both versions are instances *)
Definition spec_record_gen (pe : ftype -> list Z -> option (list sval)) (E : env) (sub : nat -> list Z -> option msg)
           (md : mdesc) (r : rawrec) (m : msg) : option msg :=
  let '(Msg d slots unions unk) := m in
  match field_index md (rr_num r) with
  | None =>
      Some (Msg d slots unions (unk ++ [{| u_tag := rr_num r; u_wt := wt_of (rr_pay r); u_data := rr_raw r |}]))
  | Some i =>
      match nth_error (md_fields md) i, nth_error slots i with
      | Some f, Some s =>
          match f_label f with
          | LRepeated =>
              match (if packable (f_type f) then match rr_pay r with PLen bs => Some bs | _ => None end else None) with
              | Some bs =>
                  obind (pe (f_type f) bs) (fun vs =>
                  obind (spec_append s vs) (fun s' => Some (Msg d (set_nth slots i s') unions unk)))
              | None =>
                  obind (cell_of E sub f (rr_pay r) None) (fun v =>
                  obind (spec_append s [v]) (fun s' => Some (Msg d (set_nth slots i s') unions unk)))
              end
          | LRequired =>
              match s with
              | SOne h old =>
                  obind (cell_of E sub f (rr_pay r) (old_msg old)) (fun v =>
                  Some (Msg d (set_nth slots i (SOne h v)) unions unk))
              | _ => None
              end
          | LOptional | LNone =>
              match s with
              | SUnion g =>
                  match nth_error unions g with
                  | Some (case, cell) =>
                      let old := if case =? rr_num r then old_msg cell else None in
                      obind (cell_of E sub f (rr_pay r) old) (fun v =>
                      Some (Msg d slots (set_nth unions g (rr_num r, v)) unk))
                  | None => None
                  end
              | SOne h old =>
                  obind (cell_of E sub f (rr_pay r) (old_msg old)) (fun v =>
                  let h' := match f_quant f with QNone => h | _ => 1 end in
                  Some (Msg d (set_nth slots i (SOne h' v)) unions unk))
              | _ => None
              end
          end
      | _, _ => None
      end
  end.

Lemma spec_record_lax_gen : forall E sub md r m,
  Lax.spec_record E sub md r m = spec_record_gen Lax.packed_elems E sub md r m.
Proof. reflexivity. Qed.

Lemma spec_record_real_gen : forall E sub md r m,
  spec_record E sub md r m = spec_record_gen packed_elems E sub md r m.
Proof. reflexivity. Qed.

Lemma cell_of_mono : forall E (sub1 sub2 : nat -> list Z -> option msg) f p old v,
  (forall d p m, sub1 d p = Some m -> sub2 d p = Some m) ->
  cell_of E sub1 f p old = Some v -> cell_of E sub2 f p old = Some v.
Proof.
  intros E sub1 sub2 f p old v Hs H. unfold cell_of in *.
  destruct (f_type f); try exact H.
  destruct p as [x|x|bs|x]; try exact H.
  destruct (sub1 (f_sub f) bs) as [m|] eqn:E1; cbn [obind] in H; [|discriminate H].
  rewrite (Hs _ _ _ E1). cbn [obind]. exact H.
Qed.

Lemma spec_record_gen_mono : forall pe1 pe2 E (sub1 sub2 : nat -> list Z -> option msg) md r m m',
  (forall d p m, sub1 d p = Some m -> sub2 d p = Some m) ->
  (forall f bs vs, In f (md_fields md) -> f_label f = LRepeated -> pe1 (f_type f) bs = Some vs -> pe2 (f_type f) bs = Some vs) ->
  spec_record_gen pe1 E sub1 md r m = Some m' -> spec_record_gen pe2 E sub2 md r m = Some m'.
Proof.
  intros pe1 pe2 E sub1 sub2 md r [d slots unions unk] m' Hs Hpe H. unfold spec_record_gen in *.
  destruct (field_index md (rr_num r)) as [i|]; [|exact H].
  destruct (nth_error (md_fields md) i) as [f|] eqn:Hn; [|discriminate H].
  destruct (nth_error slots i) as [s|]; [|discriminate H].
  assert (Hcell : forall old (k : sval -> option msg),
            obind (cell_of E sub1 f (rr_pay r) old) k = Some m' -> obind (cell_of E sub2 f (rr_pay r) old) k = Some m').
  { intros old k H0. destruct (cell_of E sub1 f (rr_pay r) old) as [v|] eqn:Ec; cbn [obind] in H0; [|discriminate H0].
    rewrite (cell_of_mono E sub1 sub2 f _ old v Hs Ec). cbn [obind]. exact H0. }
  destruct (f_label f) eqn:El.
  - destruct s as [h old|n c a|g]; try discriminate H. exact (Hcell _ _ H).
  - destruct s as [h old|n c a|g]; try discriminate H; [exact (Hcell _ _ H)|].
    destruct (nth_error unions g) as [[case cell]|]; [|discriminate H]. cbv zeta in *. exact (Hcell _ _ H).
  - destruct (if packable (f_type f) then match rr_pay r with PLen bs => Some bs | _ => None end else None) as [bs|];
      [|exact (Hcell _ _ H)].
    destruct (pe1 (f_type f) bs) as [vs|] eqn:Ep; cbn [obind] in H; [|discriminate H].
    rewrite (Hpe f bs vs (nth_error_In _ _ Hn) El Ep). cbn [obind]. exact H.
  - destruct s as [h old|n c a|g]; try discriminate H; [exact (Hcell _ _ H)|].
    destruct (nth_error unions g) as [[case cell]|]; [|discriminate H]. cbv zeta in *. exact (Hcell _ _ H).
Qed.

(* a varint read within a width is read within any larger width *)
Lemma rvr_mono : forall k k' bs x, (k <= k')%nat -> read_varint_raw k bs = Some x -> read_varint_raw k' bs = Some x.
Proof.
  induction k as [|k IH]; intros k' bs x Hk H; [destruct bs; discriminate H|].
  destruct k' as [|k']; [lia|]. destruct bs as [|b t]; [discriminate H|].
  cbn [read_varint_raw] in H |- *. destruct (b <? 128); [exact H|].
  destruct (read_varint_raw k t) as [[[v raw] r]|] eqn:Er; [|discriminate H].
  rewrite (IH k' t _ ltac:(lia) Er). exact H.
Qed.

Lemma packed_varints_stricter : forall k t bs vs,
  packed_varints k t bs = Some vs -> Lax.packed_varints k t bs = Some vs.
Proof.
  induction k as [|k IH]; intros t bs vs H; destruct bs as [|b bs]; cbn [packed_varints Lax.packed_varints] in *;
    try exact H.
  destruct (read_varint_raw (elem_width t) (b :: bs)) as [[[v raw] r]|] eqn:Er; [|discriminate H].
  assert (Hw : (elem_width t <= 10)%nat) by (destruct t; cbn [elem_width]; lia).
  rewrite (rvr_mono _ 10 _ _ Hw Er).
  destruct (v <? two64); [|discriminate H].
  destruct (scalar_of t (PVar v)) as [w|]; [|discriminate H].
  destruct (packed_varints k t r) as [ws|] eqn:Ers; [|discriminate H].
  rewrite (IH t r ws Ers). exact H.
Qed.

Lemma packed_elems_stricter : forall t bs vs, packed_elems t bs = Some vs -> Lax.packed_elems t bs = Some vs.
Proof.
  intros t bs vs H. unfold packed_elems, Lax.packed_elems in *.
  destruct t; try exact H; apply packed_varints_stricter; exact H.
Qed.

(* except at bool the two readings of a packed record are the same function *)
Lemma packed_varints_same : forall k t bs, t <> TBool -> Lax.packed_varints k t bs = packed_varints k t bs.
Proof.
  induction k as [|k IH]; intros t bs Ht; destruct bs as [|b bs]; cbn [packed_varints Lax.packed_varints];
    try reflexivity.
  replace (elem_width t) with 10%nat by (destruct t; try reflexivity; congruence).
  destruct (read_varint_raw 10 (b :: bs)) as [[[v raw] r]|]; [|reflexivity].
  rewrite (IH t r Ht). reflexivity.
Qed.

Lemma packed_elems_same : forall t bs, t <> TBool -> Lax.packed_elems t bs = packed_elems t bs.
Proof.
  intros t bs Ht. unfold packed_elems, Lax.packed_elems.
  destruct t; try reflexivity; try (apply packed_varints_same; exact Ht).
Qed.

(* no repeated bool field anywhere in the environment *)
Definition no_repeated_bool (E : env) : bool :=
  forallb (fun md => forallb (fun f => negb (label_eqb (f_label f) LRepeated && ftype_eqb (f_type f) TBool)) (md_fields md)) E.

Section Compare.
Variable E : env.

Lemma spec_records_stricter : forall (sub1 sub2 : nat -> list Z -> option msg) md rs m m',
  (forall d p m, sub1 d p = Some m -> sub2 d p = Some m) ->
  spec_records E sub1 md rs m = Some m' -> Lax.spec_records E sub2 md rs m = Some m'.
Proof.
  intros sub1 sub2 md. induction rs as [|r t IH]; intros m m' Hs H; cbn [spec_records Lax.spec_records] in *; [exact H|].
  destruct (spec_record E sub1 md r m) as [m1|] eqn:E1; cbn [obind] in H; [|discriminate H].
  rewrite spec_record_real_gen in E1. rewrite spec_record_lax_gen.
  rewrite (spec_record_gen_mono packed_elems Lax.packed_elems E sub1 sub2 md r m m1 Hs
             (fun f bs vs _ _ Hp => packed_elems_stricter _ bs vs Hp) E1).
  cbn [obind]. exact (IH m1 m' Hs H).
Qed.

Lemma spec_parse_stricter : forall k d b m, spec_parse E k d b = Some m -> Lax.spec_parse E k d b = Some m.
Proof.
  induction k as [|k IH]; intros d b m H; [discriminate H|].
  cbn [spec_parse Lax.spec_parse] in *.
  destruct (nth_error E d) as [md|]; [|discriminate H].
  destruct (read_raw 5 b) as [rs|]; [|discriminate H].
  destruct (required_present md rs); [|discriminate H].
  exact (spec_records_stricter _ _ md rs _ m IH H).
Qed.

Hypothesis NB : no_repeated_bool E = true.

Lemma repeated_not_bool : forall md f, In md E -> In f (md_fields md) -> f_label f = LRepeated -> f_type f <> TBool.
Proof.
  intros md f Hmd Hf Hl Ht. unfold no_repeated_bool in NB. rewrite forallb_forall in NB.
  specialize (NB md Hmd). rewrite forallb_forall in NB. specialize (NB f Hf). rewrite Hl, Ht in NB. discriminate NB.
Qed.

Lemma spec_records_same : forall (sub1 sub2 : nat -> list Z -> option msg) md rs m m', In md E ->
  (forall d p m, sub1 d p = Some m -> sub2 d p = Some m) ->
  Lax.spec_records E sub1 md rs m = Some m' -> spec_records E sub2 md rs m = Some m'.
Proof.
  intros sub1 sub2 md rs m m' Hmd. revert m m'.
  induction rs as [|r t IH]; intros m m' Hs H; cbn [spec_records Lax.spec_records] in *; [exact H|].
  destruct (Lax.spec_record E sub1 md r m) as [m1|] eqn:E1; cbn [obind] in H; [|discriminate H].
  rewrite spec_record_lax_gen in E1. rewrite spec_record_real_gen.
  rewrite (spec_record_gen_mono Lax.packed_elems packed_elems E sub1 sub2 md r m m1 Hs
             (fun f bs vs Hf Hl Hp => eq_trans (eq_sym (packed_elems_same _ bs (repeated_not_bool md f Hmd Hf Hl))) Hp) E1).
  cbn [obind]. exact (IH m1 m' Hs H).
Qed.

Lemma spec_parse_same : forall k d b m, Lax.spec_parse E k d b = Some m -> spec_parse E k d b = Some m.
Proof.
  induction k as [|k IH]; intros d b m H; [discriminate H|].
  cbn [spec_parse Lax.spec_parse] in *.
  destruct (nth_error E d) as [md|] eqn:Hmd; [|discriminate H].
  destruct (read_raw 5 b) as [rs|]; [|discriminate H].
  destruct (required_present md rs); [|discriminate H].
  exact (spec_records_same _ _ md rs _ m (nth_error_In _ _ Hmd) IH H).
Qed.

End Compare.

(* the specification only ever rejects more than its lax variant *)
Theorem spec_stricter_than_lax : forall E d b m, spec_parse_top E d b = Some m -> Lax.spec_parse_top E d b = Some m.
Proof. intros E d b m H. exact (spec_parse_stricter E _ d b m H). Qed.

(* and the two agree on every environment without a repeated bool field *)
Theorem lax_same_without_repeated_bool : forall E d b m, no_repeated_bool E = true ->
  Lax.spec_parse_top E d b = Some m -> spec_parse_top E d b = Some m.
Proof. intros E d b m NB H. exact (spec_parse_same E NB _ d b m H). Qed.

(* the lax variant is refined where it is the specification *)
Theorem lax_refined_without_repeated_bool : forall (E : env) (d : nat) (b : list Z) (m : msg),
  env_ok E = true -> no_repeated_bool E = true -> LeafSafe.bytes b -> Mem.zlen b <= 268435425 ->
  Lax.spec_parse_top E d b = Some m -> unpack_top E d b = Ok m.
Proof.
  intros E d b m EO NB HB Hlen H. unfold unpack_top.
  exact (spec_parse_refines E EO (S (length b)) d b m HB Hlen (lax_same_without_repeated_bool E d b m NB H)).
Qed.

(* ------------------------------------------------------------------ *)
(* 2. non-vacuity                                                       *)

(* the 56 bytes [pack_msg] writes for [ex_msg] (required, optional, packed repeated, oneof, nested message, repeated
   string, proto3 double) *)
Theorem spec_reads_ex_msg :
  exists b, pack_msg ex_env ex_msg = Ok b /\ spec_parse_top ex_env 0 b = Some ex_msg.
Proof. eexists. split; [vm_compute; reflexivity|]. vm_compute. reflexivity. Qed.

(* a packed bool record whose elements are single bytes *)
Theorem spec_reads_packed_bool :
  spec_parse_top cx_env 0 [10; 2; 1; 0] = Some (Msg 0 [SRep 2 2 (Some [VWord 1; VWord 0])] [] []).
Proof. vm_compute. reflexivity. Qed.

(* a non-canonical valid encoding: field 9 before field 1; field 1 with a padded key (136 0) and a padded varint
   (150 128 0); field 3 (packed uint32) sent unpacked (24 5) and then packed (26 2 6 7); unknown field 1000 *)
Definition ex_bytes : list Z := [74;1;120; 136;0;150;128;0; 24;5; 26;2;6;7; 192;62;1].

Theorem spec_reads_noncanonical :
  exists m, spec_parse_top ex_env 0 ex_bytes = Some m /\ unpack_top ex_env 0 ex_bytes = Ok m /\
            pack_msg ex_env m <> Ok ex_bytes.
Proof.
  eexists. split; [vm_compute; reflexivity|]. split; [vm_compute; reflexivity|].
  vm_compute. intros H. discriminate H.
Qed.

(* ------------------------------------------------------------------ *)
(* 3. the theorem                                                       *)

(* whenever the specification reads the bytes as a value, the implementation model returns exactly that value *)
Theorem spec_parse_refined : forall (E : env) (d : nat) (b : list Z) (m : msg),
  env_ok E = true -> LeafSafe.bytes b -> Mem.zlen b <= 268435425 ->
  spec_parse_top E d b = Some m -> unpack_top E d b = Ok m.
Proof.
  intros E d b m EO HB Hlen H. unfold spec_parse_top in H. unfold unpack_top.
  exact (spec_parse_refines E EO (S (length b)) d b m HB Hlen H).
Qed.

Print Assumptions spec_stricter_than_lax.
Print Assumptions lax_refined_without_repeated_bool.
Print Assumptions spec_reads_ex_msg.
Print Assumptions spec_reads_packed_bool.
Print Assumptions spec_reads_noncanonical.
Print Assumptions spec_parse_refined.

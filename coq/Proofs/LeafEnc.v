(* Leaf lemmas, encoders and sizes: what the regenerated C encoders write is
   the specification's varint / fixed encoding, and the size functions return
   its length.  These are the only proofs that look inside Gen/LeafC.v for the
   encoding direction. *)
From Coq Require Import ZArith List Bool Lia ZifyBool.
From PBC Require Import Base.CInt Base.Bits Gen.LeafC Spec.Wire.
Import ListNotations.
Local Open Scope Z_scope.

Ltac Zify.zify_post_hook ::= Z.div_mod_to_equations.

Lemma varint_small : forall f v, v < 128 -> varint_n (S f) v = [v].
Proof. intros f v H. cbn [varint_n]. destruct (Z.ltb_spec v 128); [reflexivity | lia]. Qed.
Lemma varint_big : forall f v, 128 <= v -> varint_n (S f) v = (v mod 128 + 128) :: varint_n f (v / 128).
Proof. intros f v H. cbn [varint_n]. destruct (Z.ltb_spec v 128); [lia | reflexivity]. Qed.

(* concrete buffer writes at the high-water mark *)
Ltac upd_simpl :=
  repeat match goal with
         | |- context [upd ?l ?i ?x] => change (upd l i x) with (l ++ [x]); cbn [app]
         end.

Ltac geb_split H :=
  match goal with
  | |- context [?a >=? ?b] => rewrite (Z.geb_leb a b); destruct (Z.leb_spec b a) as [H|H]
  end.

Lemma uint32_pack_spec : forall v, 0 <= v < 4294967296 ->
  uint32_pack v [] = (Z.of_nat (length (varint v)), varint v).
Proof.
  intros v Hv. unfold uint32_pack, varint. cbv zeta.
  change (u32 (0 + 1)) with 1. change (u32 (1 + 1)) with 2. change (u32 (2 + 1)) with 3.
  change (u32 (3 + 1)) with 4. change (u32 (4 + 1)) with 5.
  rewrite !shiftr7, !u8_lor128.
  geb_split H1; [rewrite (varint_big _ v) by lia | rewrite varint_small by lia; rewrite u8_small by lia; upd_simpl; reflexivity].
  geb_split H2; [rewrite (varint_big _ (v / 128)) by lia | rewrite varint_small by lia; rewrite u8_small by lia; upd_simpl; reflexivity].
  geb_split H3; [rewrite (varint_big _ (v / 128 / 128)) by lia | rewrite varint_small by lia; rewrite u8_small by lia; upd_simpl; reflexivity].
  geb_split H4; [rewrite (varint_big _ (v / 128 / 128 / 128)) by lia | rewrite varint_small by lia; rewrite u8_small by lia; upd_simpl; reflexivity].
  rewrite varint_small by lia. rewrite u8_small by lia. upd_simpl. reflexivity.
Qed.

Ltac vstep := first [ rewrite varint_small by lia | rewrite varint_big by lia ].
Ltac ltb_split H :=
  match goal with
  | |- context [?a <? ?b] => destruct (Z.ltb_spec a b) as [H|H]
  end.

Lemma uint32_size_spec : forall v, 0 <= v < 4294967296 ->
  uint32_size v = Z.of_nat (length (varint v)).
Proof.
  intros v Hv. unfold uint32_size, varint.
  ltb_split H1; [repeat vstep; reflexivity|].
  ltb_split H2; [repeat vstep; reflexivity|].
  ltb_split H3; [repeat vstep; reflexivity|].
  ltb_split H4; [repeat vstep; reflexivity|].
  repeat vstep; reflexivity.
Qed.

Lemma get_tag_size_spec : forall id wt, 0 <= id < 4294967296 -> 0 <= wt < 8 ->
  get_tag_size id = Z.of_nat (length (key id wt)).
Proof.
  intros id wt Hid Hwt. unfold get_tag_size, key, varint.
  ltb_split H1; [repeat vstep; reflexivity|].
  ltb_split H2; [repeat vstep; reflexivity|].
  ltb_split H3; [repeat vstep; reflexivity|].
  ltb_split H4; [repeat vstep; reflexivity|].
  repeat vstep; reflexivity.
Qed.

(* fixed width, bool *)
Lemma le_bytes_le_n : forall n v, le_bytes n v = le_n n v.
Proof. induction n as [|k IH]; intros v; cbn [le_bytes le_n]; [reflexivity | rewrite IH; reflexivity]. Qed.

Lemma fixed32_pack_spec : forall v, fixed32_pack v [] = (4, le_n 4 v).
Proof. intros v. unfold fixed32_pack, store_le. change (Z.to_nat 4) with 4%nat. rewrite le_bytes_le_n. reflexivity. Qed.

Lemma fixed64_pack_spec : forall v, fixed64_pack v [] = (8, le_n 8 v).
Proof. intros v. unfold fixed64_pack, store_le. change (Z.to_nat 8) with 8%nat. rewrite le_bytes_le_n. reflexivity. Qed.

Lemma boolean_pack_spec : forall v, boolean_pack v [] = (1, [if v =? 0 then 0 else 1]).
Proof. intros v. unfold boolean_pack. cbv zeta. destruct (v =? 0); reflexivity. Qed.

(* zig-zag *)
Lemma zigzag32_spec : forall v, -2147483648 <= v < 2147483648 ->
  zigzag32 v = zigzag 32 v /\ 0 <= zigzag 32 v < 4294967296.
Proof.
  intros v Hv. unfold zigzag32, zigzag.
  rewrite (shiftr_div _ 31), (shiftl_mul _ 1) by lia.
  change (2 ^ 31) with 2147483648. change (2 ^ 1) with 2.
  destruct (Z.ltb_spec v 0) as [Hn | Hp].
  - assert (E : u32 v = v + 4294967296) by (unfold u32; lia). rewrite E.
    replace ((v + 4294967296) / 2147483648) with 1 by lia.
    change (u32 (- (1))) with (2 ^ 32 - 1).
    replace (u32 ((v + 4294967296) * 2)) with (2 * v + 4294967296) by (unfold u32; lia).
    rewrite (lxor_ones_sub 32) by (change (2 ^ 32) with 4294967296; lia).
    change (2 ^ 32) with 4294967296. lia.
  - assert (E : u32 v = v) by (unfold u32; lia). rewrite E.
    replace (v / 2147483648) with 0 by lia.
    change (u32 (- 0)) with 0. rewrite Z.lxor_0_r.
    split; [unfold u32; lia | lia].
Qed.

Lemma zigzag64_spec : forall v, -9223372036854775808 <= v < 9223372036854775808 ->
  zigzag64 v = zigzag 64 v /\ 0 <= zigzag 64 v < 18446744073709551616.
Proof.
  intros v Hv. unfold zigzag64, zigzag.
  rewrite (shiftr_div _ 63), (shiftl_mul _ 1) by lia.
  change (2 ^ 63) with 9223372036854775808. change (2 ^ 1) with 2.
  destruct (Z.ltb_spec v 0) as [Hn | Hp].
  - assert (E : u64 v = v + 18446744073709551616) by (unfold u64; lia). rewrite E.
    replace ((v + 18446744073709551616) / 9223372036854775808) with 1 by lia.
    change (u64 (- (1))) with (2 ^ 64 - 1).
    replace (u64 ((v + 18446744073709551616) * 2)) with (2 * v + 18446744073709551616) by (unfold u64; lia).
    rewrite (lxor_ones_sub 64) by (change (2 ^ 64) with 18446744073709551616; lia).
    change (2 ^ 64) with 18446744073709551616. lia.
  - assert (E : u64 v = v) by (unfold u64; lia). rewrite E.
    replace (v / 9223372036854775808) with 0 by lia.
    change (u64 (- 0)) with 0. rewrite Z.lxor_0_r.
    split; [unfold u64; lia | lia].
Qed.

(* int32: negative values are written as ten bytes (sign-extended to 64 bits) *)
Ltac upd_calc :=
  unfold upd;
  change (Z.to_nat 0) with 0%nat; change (Z.to_nat 1) with 1%nat; change (Z.to_nat 2) with 2%nat;
  change (Z.to_nat 3) with 3%nat; change (Z.to_nat 4) with 4%nat; change (Z.to_nat 5) with 5%nat;
  change (Z.to_nat 6) with 6%nat; change (Z.to_nat 7) with 7%nat; change (Z.to_nat 8) with 8%nat;
  change (Z.to_nat 9) with 9%nat;
  cbn [upd_nat].

Lemma lor240_sweep : forallb (fun x => Z.lor x 240 =? x mod 16 + 240) (zrange 16) = true.
Proof. vm_compute. reflexivity. Qed.

Lemma s32_neg_iff : forall v, 0 <= v < 4294967296 -> (s32 v <? 0) = (2147483648 <=? v).
Proof.
  intros v Hv. unfold s32, sw. rewrite Z.mod_small by lia.
  destruct (v <? 2147483648) eqn:E; lia.
Qed.

Lemma int32_pack_spec : forall v, 0 <= v < 4294967296 ->
  int32_pack v [] = (Z.of_nat (length (varint (sext32 v))), varint (sext32 v)).
Proof.
  intros v Hv. unfold int32_pack. cbv zeta. rewrite s32_neg_iff by lia. unfold sext32.
  destruct (Z.leb_spec 2147483648 v) as [Hn | Hp].
  - destruct (Z.ltb_spec v 2147483648) as [?|_]; [lia|].
    rewrite !shiftr_div by lia. rewrite !u8_lor128.
    assert (E5 : u8 (Z.lor (v / 2 ^ 28) 240) = (v / 2 ^ 28) mod 16 + 240).
    { change (2 ^ 28) with 268435456.
      pose proof (sweep 16 _ lor240_sweep (v / 268435456) ltac:(change (Z.of_nat 16) with 16; lia)) as H.
      apply Z.eqb_eq in H. rewrite H. apply u8_small. lia. }
    rewrite E5. change (2 ^ 7) with 128. change (2 ^ 14) with 16384. change (2 ^ 21) with 2097152.
    change (2 ^ 28) with 268435456.
    upd_calc. unfold varint.
    do 9 (rewrite varint_big by lia). rewrite varint_small by lia.
    cbn [length]. f_equal. repeat (f_equal; try lia).
  - destruct (Z.ltb_spec v 2147483648) as [_|?]; [|lia].
    rewrite uint32_pack_spec by lia. reflexivity.
Qed.

Lemma sint32_pack_spec : forall v, -2147483648 <= v < 2147483648 ->
  sint32_pack v [] = (Z.of_nat (length (varint (zigzag 32 v))), varint (zigzag 32 v)).
Proof.
  intros v Hv. unfold sint32_pack. cbv zeta.
  destruct (zigzag32_spec v Hv) as [E R]. rewrite E.
  rewrite uint32_pack_spec by lia. reflexivity.
Qed.

Lemma sint32_size_spec : forall v, -2147483648 <= v < 2147483648 ->
  sint32_size v = Z.of_nat (length (varint (zigzag 32 v))).
Proof.
  intros v Hv. unfold sint32_size. destruct (zigzag32_spec v Hv) as [E R]. rewrite E.
  apply uint32_size_spec. lia.
Qed.

(* int32_size takes the signed value; the encoder takes its unsigned image *)
Lemma int32_size_spec : forall v, -2147483648 <= v < 2147483648 ->
  int32_size v = Z.of_nat (length (varint (sext32 (u32 v)))).
Proof.
  intros v Hv. unfold int32_size, sext32, varint.
  destruct (Z.ltb_spec v 0) as [Hn | Hp].
  - assert (E : u32 v = v + 4294967296) by (unfold u32; lia). rewrite E.
    destruct (Z.ltb_spec (v + 4294967296) 2147483648) as [?|_]; [lia|].
    do 9 (rewrite varint_big by lia). rewrite varint_small by lia. reflexivity.
  - assert (E : u32 v = v) by (unfold u32; lia). rewrite E.
    destruct (Z.ltb_spec v 2147483648) as [_|?]; [|lia].
    ltb_split H1; [repeat vstep; reflexivity|].
    ltb_split H2; [repeat vstep; reflexivity|].
    ltb_split H3; [repeat vstep; reflexivity|].
    ltb_split H4; [repeat vstep; reflexivity|].
    repeat vstep; reflexivity.
Qed.

(* ---------- uint64_pack: four bytes from the low word, one mixed byte, then a loop *)
Lemma while_S : forall (S R : Type) f (b : S -> step S R) s,
  while_ (Datatypes.S f) b s =
  match b s with Continue s' => while_ f b s' | Break s' => LDone s' | Return r => LRet r end.
Proof. reflexivity. Qed.

Lemma lor_hi4_sweep :
  forallb (fun x => forallb (fun y => Z.lor (x * 16) y =? x * 16 + y) (zrange 16)) (zrange 8) = true.
Proof. vm_compute. reflexivity. Qed.
Lemma lor_hi4_128_sweep :
  forallb (fun x => forallb (fun y => Z.lor (Z.lor (x * 16) y) 128 =? x * 16 + y + 128) (zrange 16)) (zrange 8) = true.
Proof. vm_compute. reflexivity. Qed.

Lemma uint64_pack_spec : forall v, 0 <= v < 18446744073709551616 ->
  uint64_pack v [] = (Z.of_nat (length (varint v)), varint v).
Proof.
  intros v Hv. unfold uint64_pack. cbv zeta.
  rewrite (shiftr_div v 32) by lia. change (2 ^ 32) with 4294967296.
  assert (Ehi : u32 (v / 4294967296) = v / 4294967296) by (apply u32_small; lia).
  rewrite Ehi.
  set (hi := v / 4294967296). set (lo := u32 v).
  assert (Hhi : 0 <= hi < 4294967296) by (subst hi; lia).
  assert (Hlo : 0 <= lo < 4294967296) by (subst lo; apply u32_range).
  assert (Hvl : v = hi * 4294967296 + lo) by (subst hi lo; unfold u32; lia).
  clearbody hi lo. clear Ehi.
  destruct (Z.eqb_spec hi 0) as [H0 | H0].
  - rewrite uint32_pack_spec by lia. replace v with lo by lia. reflexivity.
  - rewrite !shiftr_div by lia. rewrite !u8_lor128.
    change (2 ^ 7) with 128. change (2 ^ 14) with 16384. change (2 ^ 21) with 2097152.
    change (2 ^ 28) with 268435456. change (2 ^ 3) with 8.
    destruct (Z.ltb_spec hi 8) as [H8 | H8].
    + rewrite (shiftl_mul hi 4) by lia. change (2 ^ 4) with 16. rewrite (u32_small (hi * 16)) by lia.
      pose proof (sweep2 8 16 _ lor_hi4_sweep hi (lo / 268435456)
                    ltac:(change (Z.of_nat 8) with 8; lia) ltac:(change (Z.of_nat 16) with 16; lia)) as Hs.
      apply Z.eqb_eq in Hs. rewrite Hs. rewrite u8_small by lia.
      upd_calc. unfold varint.
      do 4 (rewrite varint_big by lia). rewrite varint_small by lia.
      cbn [length]. f_equal. repeat (f_equal; try lia).
    + rewrite land7. rewrite (shiftl_mul (hi mod 8) 4) by lia. change (2 ^ 4) with 16.
      rewrite (u32_small (hi mod 8 * 16)) by lia.
      pose proof (sweep2 8 16 _ lor_hi4_sweep (hi mod 8) (lo / 268435456)
                    ltac:(change (Z.of_nat 8) with 8; lia) ltac:(change (Z.of_nat 16) with 16; lia)) as Hs.
      apply Z.eqb_eq in Hs. rewrite Hs.
      upd_calc. unfold varint.
      do 5 (rewrite varint_big by lia).
      (* the loop: at most four more continuation bytes *)
      rewrite while_S. cbv beta iota zeta.
      geb_split L1.
      2:{ rewrite varint_small by lia. rewrite u8_small by lia.
          change (u32 (5 + 1)) with 6. upd_calc. cbn [length]. f_equal. repeat (f_equal; try lia). }
      rewrite (varint_big _ (v / 128 / 128 / 128 / 128 / 128)) by lia.
      change (u32 (5 + 1)) with 6. rewrite !shiftr_div by lia. change (2 ^ 7) with 128. rewrite u8_lor128.
      rewrite while_S. cbv beta iota zeta.
      geb_split L2.
      2:{ rewrite varint_small by lia. rewrite u8_small by lia.
          change (u32 (6 + 1)) with 7. upd_calc. cbn [length]. f_equal. repeat (f_equal; try lia). }
      rewrite (varint_big _ (v / 128 / 128 / 128 / 128 / 128 / 128)) by lia.
      change (u32 (6 + 1)) with 7. rewrite !shiftr_div by lia. change (2 ^ 7) with 128. rewrite u8_lor128.
      rewrite while_S. cbv beta iota zeta.
      geb_split L3.
      2:{ rewrite varint_small by lia. rewrite u8_small by lia.
          change (u32 (7 + 1)) with 8. upd_calc. cbn [length]. f_equal. repeat (f_equal; try lia). }
      rewrite (varint_big _ (v / 128 / 128 / 128 / 128 / 128 / 128 / 128)) by lia.
      change (u32 (7 + 1)) with 8. rewrite !shiftr_div by lia. change (2 ^ 7) with 128. rewrite u8_lor128.
      rewrite while_S. cbv beta iota zeta.
      geb_split L4.
      2:{ rewrite varint_small by lia. rewrite u8_small by lia.
          change (u32 (8 + 1)) with 9. upd_calc. cbn [length]. f_equal. repeat (f_equal; try lia). }
      rewrite (varint_big _ (v / 128 / 128 / 128 / 128 / 128 / 128 / 128 / 128)) by lia.
      change (u32 (8 + 1)) with 9. rewrite !shiftr_div by lia. change (2 ^ 7) with 128. rewrite u8_lor128.
      rewrite while_S. cbv beta iota zeta.
      geb_split L5; [exfalso; lia|].
      rewrite varint_small by lia. rewrite u8_small by lia.
      change (u32 (9 + 1)) with 10. upd_calc. cbn [length]. f_equal. repeat (f_equal; try lia).
Qed.

(* ---------- length of a varint by magnitude *)
Lemma varint_n_length : forall k f v, (1 <= k)%nat -> (k <= f)%nat ->
  0 <= v < 128 ^ Z.of_nat k -> (k = 1%nat \/ 128 ^ (Z.of_nat k - 1) <= v) ->
  length (varint_n f v) = k.
Proof.
  induction k as [|k IH]; intros f v Hk Hf Hv Hlo; [lia|].
  destruct f as [|f]; [lia|].
  destruct k as [|k].
  - change (Z.of_nat 1) with 1 in Hv. rewrite Z.pow_1_r in Hv. rewrite varint_small by lia. reflexivity.
  - assert (Hp : 128 ^ Z.of_nat (S (S k)) = 128 * 128 ^ Z.of_nat (S k)).
    { rewrite (Nat2Z.inj_succ (S k)), Z.pow_succ_r by lia. reflexivity. }
    assert (Hq : 128 ^ (Z.of_nat (S (S k)) - 1) = 128 ^ Z.of_nat (S k)).
    { f_equal. lia. }
    destruct Hlo as [Hlo | Hlo]; [lia|].
    rewrite Hq in Hlo. rewrite Hp in Hv.
    assert (Hpos : 128 <= 128 ^ Z.of_nat (S k)).
    { rewrite Nat2Z.inj_succ, Z.pow_succ_r by lia.
      assert (0 < 128 ^ Z.of_nat k) by (apply Z.pow_pos_nonneg; lia). lia. }
    rewrite varint_big by lia. cbn [length]. f_equal.
    apply IH; [lia | lia | |].
    + split; [apply Z.div_pos; lia|]. apply Z.div_lt_upper_bound; lia.
    + destruct k as [|k]; [left; reflexivity | right].
      assert (Hr : 128 ^ Z.of_nat (S (S k)) = 128 * 128 ^ (Z.of_nat (S (S k)) - 1)).
      { replace (Z.of_nat (S (S k))) with (Z.succ (Z.of_nat (S (S k)) - 1)) at 1 by lia.
        rewrite Z.pow_succ_r by lia. reflexivity. }
      rewrite Hr in Hlo. apply Z.div_le_lower_bound; lia.
Qed.

Lemma varint_length : forall (k : nat) v, (1 <= k <= 10)%nat ->
  0 <= v < 128 ^ Z.of_nat k -> (k = 1%nat \/ 128 ^ (Z.of_nat k - 1) <= v) ->
  Z.of_nat (length (varint v)) = Z.of_nat k.
Proof. intros k v Hk Hv Hlo. unfold varint. rewrite (varint_n_length k 10 v); try lia. Qed.

Lemma uint64_size_spec : forall v, 0 <= v < 18446744073709551616 ->
  uint64_size v = Z.of_nat (length (varint v)).
Proof.
  intros v Hv. unfold uint64_size. cbv zeta.
  rewrite (shiftr_div v 32) by lia. change (2 ^ 32) with 4294967296.
  rewrite (u32_small (v / 4294967296)) by lia.
  destruct (Z.eqb_spec (v / 4294967296) 0) as [H0 | H0].
  - rewrite (u32_small v) by lia. apply uint32_size_spec. lia.
  - ltb_split H1; [symmetry; apply (varint_length 5); [lia | change (128 ^ Z.of_nat 5) with 34359738368; lia | right; change (128 ^ (Z.of_nat 5 - 1)) with 268435456; lia]|].
    ltb_split H2; [symmetry; apply (varint_length 6); [lia | change (128 ^ Z.of_nat 6) with 4398046511104; lia | right; change (128 ^ (Z.of_nat 6 - 1)) with 34359738368; lia]|].
    ltb_split H3; [symmetry; apply (varint_length 7); [lia | change (128 ^ Z.of_nat 7) with 562949953421312; lia | right; change (128 ^ (Z.of_nat 7 - 1)) with 4398046511104; lia]|].
    ltb_split H4; [symmetry; apply (varint_length 8); [lia | change (128 ^ Z.of_nat 8) with 72057594037927936; lia | right; change (128 ^ (Z.of_nat 8 - 1)) with 562949953421312; lia]|].
    ltb_split H5; [symmetry; apply (varint_length 9); [lia | change (128 ^ Z.of_nat 9) with 9223372036854775808; lia | right; change (128 ^ (Z.of_nat 9 - 1)) with 72057594037927936; lia]|].
    symmetry; apply (varint_length 10); [lia | change (128 ^ Z.of_nat 10) with 1180591620717411303424; lia | right; change (128 ^ (Z.of_nat 10 - 1)) with 9223372036854775808; lia].
Qed.

Lemma sint64_pack_spec : forall v, -9223372036854775808 <= v < 9223372036854775808 ->
  sint64_pack v [] = (Z.of_nat (length (varint (zigzag 64 v))), varint (zigzag 64 v)).
Proof.
  intros v Hv. unfold sint64_pack. cbv zeta.
  destruct (zigzag64_spec v Hv) as [E R]. rewrite E.
  rewrite uint64_pack_spec by lia. reflexivity.
Qed.

Lemma sint64_size_spec : forall v, -9223372036854775808 <= v < 9223372036854775808 ->
  sint64_size v = Z.of_nat (length (varint (zigzag 64 v))).
Proof.
  intros v Hv. unfold sint64_size. destruct (zigzag64_spec v Hv) as [E R]. rewrite E.
  apply uint64_size_spec. lia.
Qed.

(* ---------- field keys *)
Lemma tag_pack_spec : forall id, 0 <= id < 4294967296 ->
  tag_pack id [] = (Z.of_nat (length (varint (id * 8))), varint (id * 8)).
Proof.
  intros id Hid. unfold tag_pack. cbv zeta.
  rewrite (shiftl_mul id 3) by lia. change (2 ^ 3) with 8.
  destruct (Z.ltb_spec id 536870912) as [Hs | Hb].
  - rewrite (u32_small (id * 8)) by lia. rewrite uint32_pack_spec by lia. reflexivity.
  - rewrite (u64_small (id * 8)) by lia. rewrite uint64_pack_spec by lia. reflexivity.
Qed.

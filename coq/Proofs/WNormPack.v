(* Serialisation does not see the difference between a message and its normal form (Impl/WNorm.v). *)
From Coq Require Import ZArith List Bool Lia ZifyBool.
From PBC Require Import Base.CInt Base.Bits Gen.LeafC Impl.Desc Impl.Mem Impl.Enc Impl.Pack Impl.WF Impl.Unpack Impl.Canon Impl.WNorm
     Proofs.EncLemmas Proofs.SizePack Proofs.MsgInd Proofs.LookupGen Proofs.ScanRec Proofs.MsgRT4 Proofs.NormPack.
Import ListNotations.
Local Open Scope Z_scope.

Ltac Zify.zify_post_hook ::= Z.div_mod_to_equations.

(* ---- integers *)
Lemma u32_idem : forall w, u32 (u32 w) = u32 w. Proof. intros w. unfold u32. lia. Qed.
Lemma u64_idem : forall w, u64 (u64 w) = u64 w. Proof. intros w. unfold u64. lia. Qed.
Lemma s32_u32 : forall w, s32 (u32 w) = s32 w. Proof. intros w. unfold s32, sw, u32. replace (w mod 4294967296 mod 4294967296) with (w mod 4294967296) by lia. reflexivity. Qed.
Lemma s64_u64 : forall w, s64 (u64 w) = s64 w. Proof. intros w. unfold s64, sw, u64. replace (w mod 18446744073709551616 mod 18446744073709551616) with (w mod 18446744073709551616) by lia. reflexivity. Qed.
Lemma s32_zero_iff : forall w, (s32 w =? 0) = (u32 w =? 0).
Proof. intros w. unfold s32, sw, u32. destruct (Z.ltb_spec (w mod 4294967296) 2147483648); lia. Qed.

Lemma e_scalar_wn : forall t w, e_scalar t (wn_word t w) = e_scalar t w.
Proof.
  intros t w. destruct t; cbn [e_scalar wn_word is4]; rewrite ?u32_idem, ?u64_idem, ?s32_u32, ?s64_u64; try reflexivity.
  (* bool *)
  rewrite !e_bool_spec. destruct (Z.eqb_spec (s32 w) 0) as [Hz|Hn]; reflexivity.
Qed.

Section WP.
Variable E : env.
Hypothesis EO : env_ok E = true.
Notation rec := (pack_msg E).
Notation wn := (wnorm_msg E).

Definition wP (m : msg) : Prop := pack_msg E (wn m) = pack_msg E m.
Definition wQ (v : sval) : Prop := forall sub, v = VMsg (Some sub) -> wP sub.

Lemma data_bytes_idem : forall f len p b, data_bytes f len p = Ok b -> len <> 0 ->
  data_bytes f len (PHeap b) = Ok b.
Proof.
  intros f len p b H Hn. unfold data_bytes in *. destruct (Z.eqb_spec len 0); [contradiction|].
  assert (Hb : exists s, len <= zlen s /\ b = firstn (Z.to_nat len) s).
  { destruct p as [| |s].
    - discriminate H.
    - destruct (f_default f) as [[| |s]|]; try discriminate H. destruct (Z.leb_spec len (zlen s)); [|discriminate H]. inversion H. eauto.
    - destruct (Z.leb_spec len (zlen s)); [|discriminate H]. inversion H. eauto. }
  destruct Hb as (s & Hl & ->).
  assert (Hz : len <= zlen (firstn (Z.to_nat len) s)) by (unfold zlen in *; rewrite firstn_length; lia).
  destruct (Z.leb_spec len (zlen (firstn (Z.to_nat len) s))); [|lia].
  f_equal. rewrite firstn_firstn. f_equal. lia.
Qed.

Lemma pk_required_wn : forall f v, wQ v -> pk_required rec f (wn_present wn f v) = pk_required rec f v.
Proof.
  intros f v HQ. unfold pk_required, wn_present.
  destruct (f_type f) eqn:Et; try (destruct v as [w| | |]; try reflexivity; cbn [as_word bind]; rewrite e_scalar_wn; reflexivity).
  - (* string *)
    destruct (as_str v) as [p|e] eqn:Ea; [|cbv beta iota; rewrite Ea; reflexivity].
    destruct (str_bytes f p) as [[s|]|e] eqn:Es; cbn [bind].
    + cbn [as_str bind str_bytes]. rewrite Es. reflexivity.
    + cbn [as_str bind str_bytes]. rewrite Es. cbn [bind]. change (zlen (@nil Z)) with 0. rewrite e_uint32_0. rewrite app_nil_r. reflexivity.
    + rewrite Ea. cbn [bind]. rewrite Es. reflexivity.
  - (* bytes *)
    destruct (as_bytes v) as [[len p]|e] eqn:Ea; [|cbv beta iota; rewrite Ea; reflexivity].
    destruct (data_bytes f len p) as [b|e] eqn:Ed; cbn [bind fst snd].
    + destruct (Z.eqb_spec len 0) as [->|Hn].
      * cbn [as_bytes bind fst snd]. rewrite Ed. unfold data_bytes in *. cbn [Z.eqb] in *. inversion Ed. reflexivity.
      * cbn [as_bytes bind fst snd]. rewrite Ed. rewrite (data_bytes_idem f len p b Ed Hn). reflexivity.
    + rewrite Ea. cbn [bind fst snd]. rewrite Ed. reflexivity.
  - (* message *)
    destruct v as [w| | |[m|]]; try reflexivity. rewrite (HQ m eq_refl). reflexivity.
Qed.

Lemma ptr_present_wn : forall f v, ptr_absent f v = Ok false -> ptr_absent f (wn_present wn f v) = Ok false.
Proof.
  intros f v H. unfold ptr_absent, wn_present in *. destruct (f_type f); try exact H.
  - destruct (as_str v) as [p|] eqn:Ea; cbn [bind] in H; [|discriminate H].
    destruct p as [| |s]; try discriminate H. cbn [str_bytes]. reflexivity.
  - destruct v as [w| | |[m|]]; try exact H.
Qed.

Lemma nonzero_wn : forall f v, zeroish f v = Ok false -> zeroish f (wn_present wn f v) = Ok false.
Proof.
  intros f v H. unfold zeroish, wn_present in *.
  destruct (f_type f) eqn:Et;
    try (destruct v as [w| | |]; try discriminate H; cbn [as_word bind] in *; cbn [wn_word is4];
         rewrite ?u32_idem, ?u64_idem; exact H).
  - (* bool *)
    destruct v as [w| | |]; try discriminate H. cbn [as_word bind wn_word] in *.
    rewrite s32_zero_iff. inversion H as [H1]. rewrite H1. reflexivity.
  - (* string *)
    destruct (as_str v) as [p|] eqn:Ea; cbn [bind] in H; [|discriminate H].
    destruct (str_bytes f p) as [[s|]|] eqn:Es; cbn [bind] in H; try discriminate H.
    cbn [as_str bind str_bytes]. exact H.
  - (* bytes *)
    destruct (as_bytes v) as [[len p]|] eqn:Ea; cbn [bind fst] in H; [|discriminate H].
    inversion H as [H1]. destruct (data_bytes f len p) as [b|e]; [|rewrite Ea; cbn [bind fst]; rewrite H1; reflexivity].
    rewrite H1. cbn [as_bytes bind fst]. rewrite H1. reflexivity.
  - destruct v as [w| | |[m|]]; try exact H.
Qed.

Lemma concatM_n_firstn_map : forall (g : sval -> res (list Z)) (h : sval -> sval) l k,
  (forall x, In x l -> g (h x) = g x) -> concatM_n g (firstn k (map h l)) k = concatM_n g l k.
Proof.
  intros g h l. induction l as [|x l IH]; intros k H; destruct k; cbn [map firstn concatM_n]; try reflexivity.
  fold (concatM_n g). rewrite (H x (or_introl eq_refl)). rewrite IH by (intros y Hy; apply H; right; exact Hy). reflexivity.
Qed.

Lemma pk_packed_elem_wn : forall f v, pk_packed_elem f (wn_present wn f v) = pk_packed_elem f v.
Proof.
  intros f v. unfold pk_packed_elem, wn_present.
  destruct (f_type f); try reflexivity; destruct v as [w| | |]; try reflexivity; cbn [as_word bind]; rewrite e_scalar_wn; reflexivity.
Qed.

(* ---- fields *)
Section Fields.
Variable md : mdesc.
Hypothesis D : desc_ok (length E) md = true.

Lemma find_by_id_unique : forall f, In f (md_fields md) ->
  find (fun x => f_id x =? f_id f) (md_fields md) = Some f.
Proof.
  intros f Hin. destruct (In_nth_error _ _ Hin) as (i & Hi).
  destruct (desc_ok_parts (length E) md D) as (Hinc & _).
  assert (G : forall l, incr (map f_id l) -> forall j, nth_error l j = Some f -> find (fun x => f_id x =? f_id f) l = Some f).
  { induction l as [|y l IH]; intros Hl j Hj; [destruct j; discriminate Hj|].
    destruct j as [|j]; cbn [nth_error] in Hj.
    - inversion Hj; subst. cbn [find]. rewrite Z.eqb_refl. reflexivity.
    - cbn [find]. destruct (Z.eqb_spec (f_id y) (f_id f)) as [Heq|_].
      + exfalso. cbn [map] in Hl.
        assert (Hin2 : In (f_id f) (map f_id l)) by (apply in_map; eapply nth_error_In; exact Hj).
        pose proof (Proofs.LookupGen.incr_lower (map f_id l) (f_id y) (f_id f) Hl Hin2). lia.
      + apply (IH ltac:(cbn [map] in Hl; destruct l; [exact I | exact (proj2 Hl)]) j Hj). }
  exact (G _ Hinc i Hi).
Qed.

Lemma pk_field_wn : forall unions f s,
  In f (md_fields md) -> slot_all wQ s -> Forall (fun cv : Z * sval => wQ (snd cv)) unions ->
  pk_field rec (map (wn_union wn (md_fields md)) unions) f (wn_slot wn f s) = pk_field rec unions f s.
Proof.
  intros unions f s Hin HS HU. unfold pk_field.
  destruct (desc_ok_fields _ _ D f Hin) as (_ & Hid & Hz).
  assert (Hun : f_oneof f = true -> forall g,
            with_nth (fun cv : Z * sval => pk_oneof rec f (fst cv) (snd cv)) (Err EDesc) (map (wn_union wn (md_fields md)) unions) g =
            with_nth (fun cv : Z * sval => pk_oneof rec f (fst cv) (snd cv)) (Err EDesc) unions g).
  { intros Ho g. rewrite Proofs.NormPack.with_nth_map. apply Proofs.NormPack.with_nth_ext. intros cv Hcv.
    assert (HQc : wQ (snd cv)) by (rewrite Forall_forall in HU; exact (HU cv Hcv)).
    unfold wn_union, pk_oneof. destruct (Z.eqb_spec (fst cv) (f_id f)) as [Hc|Hc]; cbn [negb].
    - rewrite Hc. rewrite (find_by_id_unique f Hin). rewrite Ho.
      destruct (ptr_absent f (snd cv)) as [[|]|e] eqn:Ea; cbn [fst snd bind].
      + replace (0 =? f_id f) with false by lia. reflexivity.
      + rewrite Z.eqb_refl. cbn [negb]. rewrite (ptr_present_wn f _ Ea). cbn [bind]. apply pk_required_wn. exact HQc.
      + rewrite Hc, Z.eqb_refl. cbn [negb]. rewrite Ea. reflexivity.
    - destruct (find (fun x => f_id x =? fst cv) (md_fields md)) as [f'|]; cbn [fst snd].
      + destruct (f_oneof f').
        * destruct (ptr_absent f' (snd cv)) as [[|]|e]; cbn [fst snd].
          -- replace (0 =? f_id f) with false by lia. reflexivity.
          -- destruct (Z.eqb_spec (fst cv) (f_id f)); [contradiction | reflexivity].
          -- destruct (Z.eqb_spec (fst cv) (f_id f)); [contradiction | reflexivity].
        * destruct (Z.eqb_spec (fst cv) (f_id f)); [contradiction | reflexivity].
      + replace (0 =? f_id f) with false by lia. reflexivity. }
  destruct s as [h v | n cap arr | g]; cbn [wn_slot slot_all] in *.
  - (* one cell *)
    destruct (f_label f) eqn:El.
    + apply pk_required_wn. exact HS.
    + destruct (f_oneof f) eqn:Eo.
      * destruct (f_type f); try (destruct (h =? 0)); try (destruct (ptr_absent f v) as [[|]|]); reflexivity.
      * unfold pk_optional.
        destruct (f_type f) eqn:Et;
          try (destruct (Z.eqb_spec h 0); cbn [Z.eqb]; [reflexivity | apply pk_required_wn; exact HS]).
        -- destruct (ptr_absent f v) as [[|]|e] eqn:Ea; cbn [bind].
           ++ unfold ptr_absent, init_cell. rewrite Et. cbn [as_str bind]. destruct (f_default f); reflexivity.
           ++ rewrite (ptr_present_wn f v Ea). cbn [bind]. apply pk_required_wn. exact HS.
           ++ rewrite Ea. reflexivity.
        -- destruct (ptr_absent f v) as [[|]|e] eqn:Ea; cbn [bind].
           ++ unfold ptr_absent, init_cell. rewrite Et. cbn [as_msg bind]. reflexivity.
           ++ rewrite (ptr_present_wn f v Ea). cbn [bind]. apply pk_required_wn. exact HS.
           ++ rewrite Ea. reflexivity.
    + reflexivity.
    + destruct (f_oneof f) eqn:Eo.
      * destruct (zeroish f v) as [[|]|]; reflexivity.
      * unfold pk_unlabeled. destruct (zeroish f v) as [[|]|e] eqn:Ez; cbn [bind].
        -- rewrite (Hz eq_refl). reflexivity.
        -- rewrite (nonzero_wn f v Ez). cbn [bind]. apply pk_required_wn. exact HS.
        -- rewrite Ez. reflexivity.
  - (* repeated *)
    destruct (f_label f) eqn:El;
      try (destruct (n =? 0); [|destruct arr]; try reflexivity; destruct (f_oneof f); reflexivity).
    unfold pk_repeated. destruct (Z.eqb_spec n 0) as [->|Hn].
    + cbn [Z.eqb]. destruct (f_packed f); reflexivity.
    + assert (En : (n =? 0) = false) by lia.
      destruct arr as [l|]; [|unfold pk_repeated; rewrite ?En; reflexivity].
      unfold pk_repeated; rewrite ?En.
      destruct (f_packed f).
      * rewrite concatM_n_firstn_map by (intros x _; apply pk_packed_elem_wn). reflexivity.
      * rewrite concatM_n_firstn_map; [reflexivity|]. intros x Hx. apply pk_required_wn.
        rewrite Forall_forall in HS. exact (HS x Hx).
  - destruct (f_label f); try reflexivity; destruct (f_oneof f) eqn:Eo; try reflexivity; apply (Hun eq_refl).
Qed.

Lemma pk_fields_wn : forall unions fs ss,
  (forall f, In f fs -> In f (md_fields md)) ->
  Forall (slot_all wQ) ss -> Forall (fun cv : Z * sval => wQ (snd cv)) unions ->
  pk_fields rec (map (wn_union wn (md_fields md)) unions) fs (wn_slots wn fs ss) = pk_fields rec unions fs ss.
Proof.
  intros unions fs. induction fs as [|f fs IH]; intros ss Hsub HS HU.
  - destruct ss; reflexivity.
  - destruct ss as [|s ss]; [reflexivity|]. inversion HS; subst.
    cbn [wn_slots pk_fields]. fold (wn_slots wn). fold (pk_fields rec (map (wn_union wn (md_fields md)) unions)). fold (pk_fields rec unions).
    rewrite pk_field_wn by (try assumption; apply Hsub; left; reflexivity).
    rewrite IH by (try assumption; intros f' Hf'; apply Hsub; right; exact Hf'). reflexivity.
Qed.
End Fields.

Theorem pack_wnorm : forall m, pack_msg E (wn m) = pack_msg E m.
Proof.
  apply (msg_ind2 wP wQ); unfold wQ, wP; try (intros; discriminate).
  - intros m IH sub Hv. inversion Hv; subst. exact IH.
  - intros d slots unions unk HS HU. cbn [wnorm_msg].
    destruct (nth_error E d) as [md|] eqn:Ed; [|reflexivity].
    cbn [pack_msg]. rewrite Ed.
    assert (D : desc_ok (length E) md = true).
    { unfold env_ok in EO. rewrite forallb_forall in EO. apply EO. eapply nth_error_In; exact Ed. }
    rewrite (pk_fields_wn md D); [reflexivity | auto | exact HS | exact HU].
Qed.

Lemma wnorm_desc : forall m, m_desc (wn m) = m_desc m.
Proof. intros [d s u k]. cbn [wnorm_msg]. destruct (nth_error E d); reflexivity. Qed.

(* the round trip for every message whose normal form is canonical: parsing what pack writes gives the normal form *)
Theorem roundtrip_to_normal_form : forall m b,
  canon_msg E (wn m) = true -> pack_msg E m = Ok b -> Z.of_nat (length b) <= max_input ->
  unpack_top E (m_desc m) b = Ok (wn m).
Proof.
  intros m b C Hp Hl. rewrite <- pack_wnorm in Hp. rewrite <- wnorm_desc. unfold unpack_top.
  exact (proj1 (roundtrip_canonical E EO (wn m) C (S (length b)) b Hp Hl (Nat.lt_succ_diag_r _))).
Qed.
End WP.

(* C09 -- unknown fields survive parse and re-serialise.
   Statements only; proofs in Proofs/Unknown.v (and C01's round trip, whose canonical messages carry
   arbitrary unknown fields), and for the two-schema consequence Proofs/Older*.v + Proofs/Forward.v:
   for EVERY generator-producible schema, EVERY older version of it (the same messages with an arbitrary subset
   of the fields removed, per message type: Impl/Older.v) and EVERY canonical message of the newer schema
   (any nesting, repeated / packed fields, oneofs, unknown fields of its own): the older program accepts the
   newer program's bytes, keeps the fields it does not know as unknown fields (the result is `proj m`: the kept
   fields, sub-messages projected recursively, and the dropped fields' wire records byte for byte, in arrival
   order, before the message's own unknown fields), re-serialises it to bytes of the same length, and the
   newer program reads exactly the original message back.  The proof combines the canonical round trip with the
   order independence of records (C04): the older program writes the dropped fields' records after its known
   fields, at every nesting level.
   What is outside the theorem: non-canonical encodings by the newer program (re-encodings in which each
   singular sub-message occurs once are covered on the implementation by the check's two-schema oracle on
   protobuf-c and libprotobuf). *)
From Coq Require Import ZArith List Bool.
From PBC Require Import Base.CInt Impl.Desc Impl.Mem Impl.Enc Impl.Pack Impl.Unpack Impl.Canon Impl.Older Proofs.Required Proofs.Unknown Proofs.MsgRT4 Proofs.OlderEnv Proofs.OlderProj Proofs.Forward Proofs.Examples.
From PBC Require Spec.WireRaw Impl.SpecParse Proofs.LeafSafe Proofs.SpecRefine5 Proofs.SpecUnknown.
Import ListNotations.
Local Open Scope Z_scope.

(* whenever parsing succeeds -- any input, any schema, any nesting level (embedded messages are parsed by
   the same function) -- the unknown fields of the result are exactly the scanned members that belong to
   no field, in arrival order, each with its number, wire type and the very bytes that followed its key *)
Theorem C09_unknown_retained_in_order : forall E k d data m md,
  unpack E (S k) d data = Ok m -> nth_error E d = Some md ->
  exists st, scan_loop (S (length data)) md (st_init d md data) = Ok st /\
    m_unk m = flat_map unknown_of (rev (st_members st)).
Proof. exact unknown_retained. Qed.
Print Assumptions C09_unknown_retained_in_order.

(* serialisation writes every retained unknown field out again: key from number and wire type, then the
   retained bytes, in order, after the known fields *)
Theorem C09_unknown_written_back : forall E m b, pack_msg E m = Ok b ->
  exists known, b = known ++ concat (map (fun u => e_tag (u_tag u) (u_wt u) ++ u_data u) (m_unk m)).
Proof. exact unknown_written. Qed.
Print Assumptions C09_unknown_written_back.

(* and reading that back gives the same message, unknown fields of every wire type and every number below
   2^29 included (canon_msg constrains unknown fields only to be delimited according to their wire type).
   Bound 268435425 = max_input: up to there no message can have more members than the parser's slabs hold. *)
Theorem C09_roundtrip_with_unknown : forall (E : env) (m : msg) (b : list Z),
  env_ok E = true -> canon_msg E m = true ->
  pack_msg E m = Ok b -> Z.of_nat (length b) <= 268435425 ->
  unpack_top E (m_desc m) b = Ok m.
Proof.
  intros E m b EO C Hp Hl. unfold unpack_top.
  exact (proj1 (roundtrip_canonical E EO m C (S (length b)) b Hp Hl (Nat.lt_succ_diag_r _))).
Qed.
Print Assumptions C09_roundtrip_with_unknown.

(* ---- forward compatibility across two versions of a schema *)
Theorem C09_older_schema_is_a_schema : forall (keep : nat -> field -> bool) (E : env),
  env_ok E = true -> env_ok (older keep E) = true.
Proof. exact older_env_ok. Qed.
Print Assumptions C09_older_schema_is_a_schema.

Theorem C09_newer_data_survives_an_older_program : forall (E : env) (keep : nat -> field -> bool) (m : msg) (b : list Z),
  env_ok E = true -> canon_msg E m = true -> pack_msg E m = Ok b -> Z.of_nat (length b) <= 268435425 ->
  exists mo b',
    unpack_top (older keep E) (m_desc m) b = Ok mo /\          (* the older program accepts the newer data *)
    pack_msg (older keep E) mo = Ok b' /\                      (* re-serialises it *)
    length b' = length b /\
    unpack_top E (m_desc m) b' = Ok m.                         (* and the newer program reads the original back *)
Proof. exact forward_compatible. Qed.
Print Assumptions C09_newer_data_survives_an_older_program.

(* what the older program holds in between: the projection, canonical for the older schema *)
Theorem C09_what_the_older_program_sees : forall (E : env) (keep : nat -> field -> bool) (m : msg) (b : list Z),
  env_ok E = true -> canon_msg E m = true -> pack_msg E m = Ok b -> Z.of_nat (length b) <= 268435425 ->
  env_ok (older keep E) = true /\ unpack_top (older keep E) (m_desc m) b = Ok (proj E keep m) /\
  canon_msg (older keep E) (proj E keep m) = true /\
  exists b', pack_msg (older keep E) (proj E keep m) = Ok b' /\ length b' = length b /\ unpack_top E (m_desc m) b' = Ok m.
Proof. exact forward_compatible_proj. Qed.
Print Assumptions C09_what_the_older_program_sees.

(* ---- stated against the REFERENCE READER (Spec/WireRaw.v, compared with libprotobuf on every run): for every env_ok
   schema and every input <= 268435425 bytes that the specification-level parser (Impl/SpecParse.v) reads -- canonical
   or not, fields in any order, padded, split -- the implementation model returns that value, and the unknown fields
   it retains are EXACTLY the reference reader's records whose number the schema does not know, in wire order, each
   with its number, wire type and exact bytes (SpecUnknown.unknown_records: a flat_map over the records). *)
Theorem C09_retained_unknowns_are_exactly_the_unknown_records : forall (E : env) d b m,
  env_ok E = true -> LeafSafe.bytes b -> Mem.zlen b <= 268435425 ->
  SpecParse.spec_parse_top E d b = Some m ->
  unpack_top E d b = Ok m /\
  exists md rs, nth_error E d = Some md /\ WireRaw.read_raw 5 b = Some rs /\
                m_unk m = SpecUnknown.unknown_records md rs.
Proof. exact SpecUnknown.unpack_retains_exactly_the_unknown_records. Qed.
Print Assumptions C09_retained_unknowns_are_exactly_the_unknown_records.

(* non-vacuity: a non-canonical input of the example schema ending with field 1000, which the schema does not know *)
Theorem C09_unknown_records_not_vacuous :
  exists m, SpecParse.spec_parse_top ex_env 0 SpecRefine5.ex_bytes = Some m /\
            m_unk m = [{| u_tag := 1000; u_wt := 0; u_data := [1] |}].
Proof. exact SpecUnknown.unknown_records_example. Qed.
Print Assumptions C09_unknown_records_not_vacuous.

(* C16 -- behaviour is independent of build configuration and byte-order path.
   Statements only.  (a) portable byte-by-byte code = little-endian fast path, for
   the four leaf functions whose text depends on WORDS_BIGENDIAN (all others are
   literally the same definition: Gen/EndianSame.v, regenerated and re-checked on
   every run); (b) every assert site is accounted for.  Agreement of compilers and
   optimisation levels is observed by the tie, not proved. *)
From Coq Require Import ZArith List Bool String.
From PBC Require Import Base.CInt Gen.LeafC Gen.LeafC_BE Gen.EndianSame Gen.Asserts Proofs.Endian Proofs.Audits.
Import ListNotations.
Local Open Scope Z_scope.

Theorem C16_fixed32_pack_endian : forall v, LeafC_BE.fixed32_pack v [] = LeafC.fixed32_pack v [].
Proof. exact fixed32_pack_endian. Qed.
Print Assumptions C16_fixed32_pack_endian.

Theorem C16_fixed64_pack_endian : forall v, 0 <= v < 18446744073709551616 ->
  LeafC_BE.fixed64_pack v [] = LeafC.fixed64_pack v [].
Proof. exact fixed64_pack_endian. Qed.
Print Assumptions C16_fixed64_pack_endian.

Theorem C16_parse_fixed_uint32_endian : forall b0 b1 b2 b3 rest,
  0 <= b0 < 256 -> 0 <= b1 < 256 -> 0 <= b2 < 256 -> 0 <= b3 < 256 ->
  LeafC_BE.parse_fixed_uint32 (b0 :: b1 :: b2 :: b3 :: rest) = LeafC.parse_fixed_uint32 (b0 :: b1 :: b2 :: b3 :: rest).
Proof. exact parse_fixed_uint32_endian. Qed.
Print Assumptions C16_parse_fixed_uint32_endian.

Theorem C16_parse_fixed_uint64_endian : forall b0 b1 b2 b3 b4 b5 b6 b7 rest,
  0 <= b0 < 256 -> 0 <= b1 < 256 -> 0 <= b2 < 256 -> 0 <= b3 < 256 ->
  0 <= b4 < 256 -> 0 <= b5 < 256 -> 0 <= b6 < 256 -> 0 <= b7 < 256 ->
  LeafC_BE.parse_fixed_uint64 (b0 :: b1 :: b2 :: b3 :: b4 :: b5 :: b6 :: b7 :: rest) =
  LeafC.parse_fixed_uint64 (b0 :: b1 :: b2 :: b3 :: b4 :: b5 :: b6 :: b7 :: rest).
Proof. exact parse_fixed_uint64_endian. Qed.
Print Assumptions C16_parse_fixed_uint64_endian.

(* the remaining thirty leaf functions do not depend on the byte-order macro at all *)
Theorem C16_other_leaves_identical :
  LeafC_BE.uint32_pack = LeafC.uint32_pack /\ LeafC_BE.uint64_pack = LeafC.uint64_pack /\
  LeafC_BE.tag_pack = LeafC.tag_pack /\ LeafC_BE.parse_uint32 = LeafC.parse_uint32 /\
  LeafC_BE.parse_uint64 = LeafC.parse_uint64 /\ LeafC_BE.parse_tag_and_wiretype = LeafC.parse_tag_and_wiretype /\
  LeafC_BE.scan_length_prefixed_data = LeafC.scan_length_prefixed_data /\
  LeafC_BE.int_range_lookup = LeafC.int_range_lookup /\ LeafC_BE.count_packed_elements = LeafC.count_packed_elements.
Proof.
  exact (conj same_uint32_pack (conj same_uint64_pack (conj same_tag_pack (conj same_parse_uint32
        (conj same_parse_uint64 (conj same_parse_tag_and_wiretype (conj same_scan_length_prefixed_data
        (conj same_int_range_lookup same_count_packed_elements)))))))).
Qed.
Print Assumptions C16_other_leaves_identical.

(* -DNDEBUG removes only the asserts of this reviewed list *)
Theorem C16_assert_sites : List.length assert_sites = 19%nat.
Proof. rewrite assert_sites_reviewed. reflexivity. Qed.
Print Assumptions C16_assert_sites.

(* Protocol Buffers wire primitives, written from the encoding specification
   (not from the C code): base-128 varints, zig-zag, little-endian fixed. *)
From Coq Require Import ZArith List Bool Lia.
Import ListNotations.
Local Open Scope Z_scope.

(* shortest base-128 little-endian encoding; 10 bytes suffice below 2^64 *)
Fixpoint varint_n (fuel : nat) (v : Z) : list Z :=
  match fuel with
  | O => []
  | S f => if v <? 128 then [v] else (v mod 128 + 128) :: varint_n f (v / 128)
  end.
Definition varint (v : Z) : list Z := varint_n 10 v.

(* value of a (possibly padded) varint: continuation bits ignored *)
Fixpoint varint_val (l : list Z) : Z :=
  match l with
  | [] => 0
  | b :: t => b mod 128 + 128 * varint_val t
  end.

Definition zigzag (bits : Z) (v : Z) : Z := if v <? 0 then - 2 * v - 1 else 2 * v.
Definition unzigzag (z : Z) : Z := if Z.even z then z / 2 else - ((z + 1) / 2).

Definition sext32 (w : Z) : Z := if w <? 2147483648 then w else w + 18446744069414584320.

Fixpoint le_n (n : nat) (v : Z) : list Z :=
  match n with O => [] | S k => (v mod 256) :: le_n k (v / 256) end.

(* field key *)
Definition key (num wt : Z) : list Z := varint (num * 8 + wt).

(* a well-formed varint: continuation bit on every byte but the last *)
Fixpoint wfv (bs : list Z) : Prop :=
  match bs with
  | [] => False
  | b :: t => match t with
              | [] => 0 <= b < 128
              | _ => 128 <= b < 256 /\ wfv t
              end
  end.

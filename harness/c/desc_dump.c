/* desc_dump: print the descriptor dump of harness/GENFORMAT.md section 2.
 *
 * Linked with: the generated *.pb-c.c of one case, a generated registry.c (genloop.py) and
 * /repo/protobuf-c/protobuf-c.c compiled from source.  Include path: -I/repo.
 *
 * The registry defines
 *   const ProtobufCMessageDescriptor *const all_msgs[];  const unsigned n_all_msgs;
 *   const ProtobufCEnumDescriptor    *const all_enums[]; const unsigned n_all_enums;
 *   const ProtobufCServiceDescriptor *const all_svcs[];  const unsigned n_all_svcs;
 *   const DescDumpSvcTest all_svc_tests[];               const unsigned n_all_svc_tests;
 *       { descriptor, function that exercises the generated stubs / init of that service and prints
 *         the SS / SI / SX lines }
 *
 * Blocks are sorted by the descriptor's `name` (bytewise, NULL sorts as the empty string) with a
 * stable sort, so descriptors whose name is NULL (optimize_for = CODE_SIZE) keep registry order.
 */
#include <stdint.h>
#include <stdio.h>
#include <stdlib.h>
#include <string.h>
#include <stddef.h>

#include <protobuf-c/protobuf-c.h>

extern const ProtobufCMessageDescriptor *const all_msgs[];
extern const unsigned n_all_msgs;
extern const ProtobufCEnumDescriptor *const all_enums[];
extern const unsigned n_all_enums;
extern const ProtobufCServiceDescriptor *const all_svcs[];
extern const unsigned n_all_svcs;
typedef struct {
	const ProtobufCServiceDescriptor *desc;
	void (*run)(void);
} DescDumpSvcTest;
extern const DescDumpSvcTest all_svc_tests[];
extern const unsigned n_all_svc_tests;

/* ---------------------------------------------------------------- printing helpers */

static void put_hex(const void *p, size_t n)
{
	const unsigned char *b = p;
	for (size_t i = 0; i < n; i++)
		printf("%02x", b[i]);
}

/* s:<hex> | NULL */
static void put_str(const char *s)
{
	if (s == NULL) {
		fputs("NULL", stdout);
		return;
	}
	fputs("s:", stdout);
	put_hex(s, strlen(s));
}

static const char *label_name(ProtobufCLabel l)
{
	switch (l) {
	case PROTOBUF_C_LABEL_REQUIRED: return "REQ";
	case PROTOBUF_C_LABEL_OPTIONAL: return "OPT";
	case PROTOBUF_C_LABEL_REPEATED: return "REP";
	case PROTOBUF_C_LABEL_NONE: return "NONE";
	}
	return "BADLABEL";
}

static const char *type_name(ProtobufCType t)
{
	switch (t) {
	case PROTOBUF_C_TYPE_INT32: return "INT32";
	case PROTOBUF_C_TYPE_SINT32: return "SINT32";
	case PROTOBUF_C_TYPE_SFIXED32: return "SFIXED32";
	case PROTOBUF_C_TYPE_INT64: return "INT64";
	case PROTOBUF_C_TYPE_SINT64: return "SINT64";
	case PROTOBUF_C_TYPE_SFIXED64: return "SFIXED64";
	case PROTOBUF_C_TYPE_UINT32: return "UINT32";
	case PROTOBUF_C_TYPE_FIXED32: return "FIXED32";
	case PROTOBUF_C_TYPE_UINT64: return "UINT64";
	case PROTOBUF_C_TYPE_FIXED64: return "FIXED64";
	case PROTOBUF_C_TYPE_FLOAT: return "FLOAT";
	case PROTOBUF_C_TYPE_DOUBLE: return "DOUBLE";
	case PROTOBUF_C_TYPE_BOOL: return "BOOL";
	case PROTOBUF_C_TYPE_ENUM: return "ENUM";
	case PROTOBUF_C_TYPE_STRING: return "STRING";
	case PROTOBUF_C_TYPE_BYTES: return "BYTES";
	case PROTOBUF_C_TYPE_MESSAGE: return "MESSAGE";
	}
	return "BADTYPE";
}

/* Size and alignment of ONE element of the member type. */
static void elem_layout(ProtobufCType t, size_t *size, size_t *align)
{
	switch (t) {
	case PROTOBUF_C_TYPE_INT32:
	case PROTOBUF_C_TYPE_SINT32:
	case PROTOBUF_C_TYPE_SFIXED32:
	case PROTOBUF_C_TYPE_UINT32:
	case PROTOBUF_C_TYPE_FIXED32:
		*size = sizeof(int32_t); *align = _Alignof(int32_t); return;
	case PROTOBUF_C_TYPE_FLOAT:
		*size = sizeof(float); *align = _Alignof(float); return;
	case PROTOBUF_C_TYPE_BOOL:
		*size = sizeof(protobuf_c_boolean); *align = _Alignof(protobuf_c_boolean); return;
	case PROTOBUF_C_TYPE_ENUM:
		*size = sizeof(int); *align = _Alignof(int); return;
	case PROTOBUF_C_TYPE_INT64:
	case PROTOBUF_C_TYPE_SINT64:
	case PROTOBUF_C_TYPE_SFIXED64:
	case PROTOBUF_C_TYPE_UINT64:
	case PROTOBUF_C_TYPE_FIXED64:
		*size = sizeof(int64_t); *align = _Alignof(int64_t); return;
	case PROTOBUF_C_TYPE_DOUBLE:
		*size = sizeof(double); *align = _Alignof(double); return;
	case PROTOBUF_C_TYPE_STRING:
	case PROTOBUF_C_TYPE_MESSAGE:
		*size = sizeof(void *); *align = _Alignof(void *); return;
	case PROTOBUF_C_TYPE_BYTES:
		*size = sizeof(ProtobufCBinaryData); *align = _Alignof(ProtobufCBinaryData); return;
	}
	*size = 1; *align = 1;
}

static int is_4byte_scalar(ProtobufCType t)
{
	switch (t) {
	case PROTOBUF_C_TYPE_INT32:
	case PROTOBUF_C_TYPE_SINT32:
	case PROTOBUF_C_TYPE_SFIXED32:
	case PROTOBUF_C_TYPE_UINT32:
	case PROTOBUF_C_TYPE_FIXED32:
	case PROTOBUF_C_TYPE_FLOAT:
	case PROTOBUF_C_TYPE_BOOL:
	case PROTOBUF_C_TYPE_ENUM:
		return 1;
	default:
		return 0;
	}
}

/* raw bits of a scalar, zero-extended to 64 bits (4-byte types: low 32 bits only) */
static uint64_t scalar_bits(ProtobufCType t, const void *p)
{
	if (is_4byte_scalar(t)) {
		uint32_t v;
		memcpy(&v, p, 4);
		return v;
	} else {
		uint64_t v;
		memcpy(&v, p, 8);
		return v;
	}
}

/* ---------------------------------------------------------------- per-field classification */

enum { Q_N, Q_H, Q_C, Q_K };

typedef struct {
	int quant;          /* Q_* */
	int group;          /* oneof group number for Q_C, else -1 */
	size_t voff, vsize, valign;   /* value cell */
	size_t qoff, qsize, qalign;   /* quantifier cell (qsize = 0 when Q_N) */
} FieldInfo;

static int is_oneof(const ProtobufCFieldDescriptor *f)
{
	return (f->flags & PROTOBUF_C_FIELD_FLAG_ONEOF) != 0;
}

static void classify(const ProtobufCMessageDescriptor *d, FieldInfo *fi, unsigned *n_groups_out,
		     unsigned *group_qoff /* n_fields entries */)
{
	unsigned n_groups = 0;
	for (unsigned i = 0; i < d->n_fields; i++) {
		const ProtobufCFieldDescriptor *f = &d->fields[i];
		FieldInfo *x = &fi[i];
		size_t es, ea;
		elem_layout(f->type, &es, &ea);
		x->group = -1;
		x->voff = f->offset;
		x->qoff = f->quantifier_offset;
		if (f->label == PROTOBUF_C_LABEL_REPEATED) {
			x->vsize = sizeof(void *);
			x->valign = _Alignof(void *);
		} else {
			x->vsize = es;
			x->valign = ea;
		}
		if (f->quantifier_offset == 0) {
			x->quant = Q_N;
			x->qsize = 0;
			x->qalign = 1;
		} else if (f->label == PROTOBUF_C_LABEL_REPEATED) {
			x->quant = Q_K;
			x->qsize = sizeof(size_t);
			x->qalign = _Alignof(size_t);
		} else if (is_oneof(f)) {
			unsigned g;
			x->quant = Q_C;
			x->qsize = sizeof(int);
			x->qalign = _Alignof(int);
			for (g = 0; g < n_groups; g++)
				if (group_qoff[g] == f->quantifier_offset)
					break;
			if (g == n_groups)
				group_qoff[n_groups++] = f->quantifier_offset;
			x->group = (int)g;
		} else {
			x->quant = Q_H;
			x->qsize = sizeof(protobuf_c_boolean);
			x->qalign = _Alignof(protobuf_c_boolean);
		}
	}
	*n_groups_out = n_groups;
}

static int overlap(size_t a, size_t an, size_t b, size_t bn)
{
	if (an == 0 || bn == 0)
		return 0;
	return a < b + bn && b < a + an;
}

static int field_off_ok(const ProtobufCMessageDescriptor *d, const FieldInfo *fi, unsigned i)
{
	const FieldInfo *x = &fi[i];
	size_t total = d->sizeof_message;
	size_t base = sizeof(ProtobufCMessage);

	/* inside the struct, after the base, aligned */
	if (x->voff + x->vsize > total || x->voff % x->valign != 0 || x->voff < base)
		return 0;
	if (x->quant != Q_N) {
		if (x->qoff + x->qsize > total || x->qoff % x->qalign != 0 || x->qoff < base)
			return 0;
		if (overlap(x->qoff, x->qsize, x->voff, x->vsize))
			return 0;
	}
	for (unsigned j = 0; j < d->n_fields; j++) {
		const FieldInfo *y = &fi[j];
		int same_group;
		if (j == i)
			continue;
		same_group = x->quant == Q_C && y->quant == Q_C && x->group == y->group;
		/* value cells */
		if (!same_group && overlap(x->voff, x->vsize, y->voff, y->vsize))
			return 0;
		/* my value against the other's quantifier, my quantifier against the other's value */
		if (y->quant != Q_N && overlap(x->voff, x->vsize, y->qoff, y->qsize))
			return 0;
		if (x->quant != Q_N && overlap(x->qoff, x->qsize, y->voff, y->vsize))
			return 0;
		/* quantifier cells: only members of one oneof share one */
		if (x->quant != Q_N && y->quant != Q_N && !same_group &&
		    overlap(x->qoff, x->qsize, y->qoff, y->qsize))
			return 0;
	}
	return 1;
}

/* ---------------------------------------------------------------- MF default */

static void put_default(const ProtobufCFieldDescriptor *f)
{
	if (f->default_value == NULL) {
		putchar('-');
		return;
	}
	switch (f->type) {
	case PROTOBUF_C_TYPE_STRING:
		/* &protobuf_c_empty_string prints s: like any other empty string */
		fputs("s:", stdout);
		put_hex(f->default_value, strlen((const char *)f->default_value));
		return;
	case PROTOBUF_C_TYPE_BYTES: {
		const ProtobufCBinaryData *bd = f->default_value;
		fputs("b:", stdout);
		if (bd->data != NULL)
			put_hex(bd->data, bd->len);
		return;
	}
	case PROTOBUF_C_TYPE_MESSAGE:
		fputs("m:?", stdout);   /* never generated */
		return;
	default:
		printf("w:%016llx", (unsigned long long)scalar_bits(f->type, f->default_value));
		return;
	}
}

/* ---------------------------------------------------------------- MI / MU */

static void put_cell(const ProtobufCFieldDescriptor *f, const unsigned char *cell)
{
	switch (f->type) {
	case PROTOBUF_C_TYPE_STRING: {
		const char *s;
		memcpy(&s, cell, sizeof s);
		if (s == NULL)
			fputs("TN", stdout);
		else if ((const void *)s == f->default_value)
			fputs("TD", stdout);
		else {
			fputs("TH", stdout);
			put_hex(s, strlen(s));
		}
		return;
	}
	case PROTOBUF_C_TYPE_BYTES: {
		ProtobufCBinaryData bd;
		const ProtobufCBinaryData *def = f->default_value;
		memcpy(&bd, cell, sizeof bd);
		printf("B%zu", bd.len);
		if (bd.data == NULL)
			putchar('N');
		else if (def != NULL && bd.data == def->data)
			putchar('D');
		else {
			putchar('H');
			put_hex(bd.data, bd.len);
		}
		return;
	}
	case PROTOBUF_C_TYPE_MESSAGE: {
		const void *p;
		memcpy(&p, cell, sizeof p);
		fputs(p == NULL ? "GN" : "G?", stdout);
		return;
	}
	default:
		printf("W%016llx", (unsigned long long)scalar_bits(f->type, cell));
		return;
	}
}

static void put_state(const char *prefix, const ProtobufCMessageDescriptor *d, const FieldInfo *fi,
		      unsigned n_groups, const unsigned *group_qoff, const unsigned char *m)
{
	printf("%s ", prefix);
	for (unsigned i = 0; i < d->n_fields; i++) {
		const ProtobufCFieldDescriptor *f = &d->fields[i];
		const FieldInfo *x = &fi[i];
		if (i)
			putchar(',');
		if (x->quant == Q_C) {
			putchar('U');
			continue;
		}
		if (x->voff + x->vsize > d->sizeof_message ||
		    (x->quant != Q_N && x->qoff + x->qsize > d->sizeof_message)) {
			putchar('!');           /* cell outside the struct: cannot be read */
			continue;
		}
		if (x->quant == Q_N) {
			putchar('-');
		} else if (x->quant == Q_K) {
			size_t n;
			memcpy(&n, m + x->qoff, sizeof n);
			printf("%zu", n);
		} else {
			protobuf_c_boolean h;
			memcpy(&h, m + x->qoff, sizeof h);
			printf("%d", (int)h);
		}
		putchar('/');
		if (f->label == PROTOBUF_C_LABEL_REPEATED) {
			const void *p;
			memcpy(&p, m + x->voff, sizeof p);
			fputs(p == NULL ? "RN" : "R?", stdout);
		} else {
			put_cell(f, m + x->voff);
		}
	}
	putchar('|');
	for (unsigned g = 0; g < n_groups; g++) {
		size_t uoff = 0, usize = 0;
		int have = 0;
		int cs = 0;
		if (g)
			putchar(',');
		for (unsigned i = 0; i < d->n_fields; i++) {
			if (fi[i].quant == Q_C && (unsigned)fi[i].group == g) {
				if (!have) {
					uoff = fi[i].voff;
					have = 1;
				}
				if (fi[i].vsize > usize)
					usize = fi[i].vsize;
			}
		}
		if (usize > 16)
			usize = 16;
		if (group_qoff[g] + sizeof(int) > d->sizeof_message || uoff + usize > d->sizeof_message) {
			putchar('!');
			continue;
		}
		memcpy(&cs, m + group_qoff[g], sizeof cs);
		printf("%d:", cs);
		put_hex(m + uoff, usize);
	}
	putchar('\n');
}


/* length of the C string in the first n bytes of t */
static size_t strlen_bounded(const char *t, size_t n)
{
	size_t i = 0;
	while (i < n && t[i] != 0)
		i++;
	return i;
}

/* ---------------------------------------------------------------- lookups (ML MK EL EK SL) */

/* Keys are derived from the descriptor itself, so that the model side can derive the same ones:
 * names: for every existing name n (in array order): n, n+"x", n without its last character, n with
 * its last character +1 and -1; then "" and "~"; duplicates dropped (first occurrence stays).
 * numbers: for every existing number v (in array order): v, v+1, v-1; then 0, 1, -1, 2147483647,
 * -2147483648, 536870911, 4294967295; computed in 64 bits, converted to the parameter type of the
 * library function (unsigned for fields, int for enum values), duplicates dropped. */

typedef struct {
	char **v;
	unsigned n, cap;
} NameKeys;

static void name_key_add(NameKeys *k, const char *s, size_t len)
{
	char *c = malloc(len + 1);
	memcpy(c, s, len);
	c[len] = 0;
	for (unsigned i = 0; i < k->n; i++)
		if (strcmp(k->v[i], c) == 0) {
			free(c);
			return;
		}
	if (k->n == k->cap) {
		k->cap = k->cap ? 2 * k->cap : 16;
		k->v = realloc(k->v, k->cap * sizeof *k->v);
	}
	k->v[k->n++] = c;
}

static void name_keys_of(NameKeys *k, const char *name)
{
	size_t len;
	char *t;
	if (name == NULL)
		return;
	len = strlen(name);
	t = malloc(len + 2);
	name_key_add(k, name, len);
	memcpy(t, name, len);
	t[len] = 'x';
	name_key_add(k, t, len + 1);
	if (len > 0) {
		name_key_add(k, name, len - 1);
		memcpy(t, name, len);
		t[len - 1] = (char)((unsigned char)name[len - 1] + 1);
		name_key_add(k, t, strlen_bounded(t, len));
		t[len - 1] = (char)((unsigned char)name[len - 1] - 1);
		name_key_add(k, t, strlen_bounded(t, len));
	}
	free(t);
}

static void name_keys_finish(NameKeys *k)
{
	name_key_add(k, "", 0);
	name_key_add(k, "~", 1);
}

static void name_keys_free(NameKeys *k)
{
	for (unsigned i = 0; i < k->n; i++)
		free(k->v[i]);
	free(k->v);
}

typedef struct {
	int64_t *v;
	unsigned n, cap;
} NumKeys;

/* as_unsigned: the key is passed as `unsigned`, else as `int` */
static void num_key_add(NumKeys *k, int64_t x, int as_unsigned)
{
	int64_t c = as_unsigned ? (int64_t)(uint32_t)x : (int64_t)(int32_t)(uint32_t)x;
	for (unsigned i = 0; i < k->n; i++)
		if (k->v[i] == c)
			return;
	if (k->n == k->cap) {
		k->cap = k->cap ? 2 * k->cap : 16;
		k->v = realloc(k->v, k->cap * sizeof *k->v);
	}
	k->v[k->n++] = c;
}

static void num_keys_of(NumKeys *k, int64_t v, int as_unsigned)
{
	num_key_add(k, v, as_unsigned);
	num_key_add(k, v + 1, as_unsigned);
	num_key_add(k, v - 1, as_unsigned);
}

static void num_keys_finish(NumKeys *k, int as_unsigned)
{
	static const int64_t fixed[] = { 0, 1, -1, 2147483647LL, -2147483648LL, 536870911LL, 4294967295LL };
	for (unsigned i = 0; i < sizeof fixed / sizeof fixed[0]; i++)
		num_key_add(k, fixed[i], as_unsigned);
}

static void message_lookups(const ProtobufCMessageDescriptor *d)
{
	NameKeys nk = { NULL, 0, 0 };
	NumKeys uk = { NULL, 0, 0 };
	for (unsigned i = 0; i < d->n_fields; i++)
		name_keys_of(&nk, d->fields[i].name);
	name_keys_finish(&nk);
	for (unsigned i = 0; i < nk.n; i++) {
		const ProtobufCFieldDescriptor *f = protobuf_c_message_descriptor_get_field_by_name(d, nk.v[i]);
		fputs("ML ", stdout);
		put_str(nk.v[i]);
		printf(" %ld\n", f == NULL ? -1L : (long)(f - d->fields));
	}
	for (unsigned i = 0; i < d->n_fields; i++)
		num_keys_of(&uk, (int64_t)d->fields[i].id, 1);
	num_keys_finish(&uk, 1);
	for (unsigned i = 0; i < uk.n; i++) {
		const ProtobufCFieldDescriptor *f = protobuf_c_message_descriptor_get_field(d, (unsigned)uk.v[i]);
		printf("MK %u %ld\n", (unsigned)uk.v[i], f == NULL ? -1L : (long)(f - d->fields));
	}
	name_keys_free(&nk);
	free(uk.v);
}

static void enum_lookups(const ProtobufCEnumDescriptor *d)
{
	NameKeys nk = { NULL, 0, 0 };
	NumKeys ik = { NULL, 0, 0 };
	if (d->values_by_name != NULL)
		for (unsigned i = 0; i < d->n_value_names; i++)
			name_keys_of(&nk, d->values_by_name[i].name);
	name_keys_finish(&nk);
	for (unsigned i = 0; i < nk.n; i++) {
		const ProtobufCEnumValue *v = protobuf_c_enum_descriptor_get_value_by_name(d, nk.v[i]);
		fputs("EL ", stdout);
		put_str(nk.v[i]);
		printf(" %ld\n", v == NULL ? -1L : (long)(v - d->values));
	}
	for (unsigned i = 0; i < d->n_values; i++)
		num_keys_of(&ik, (int64_t)d->values[i].value, 0);
	num_keys_finish(&ik, 0);
	for (unsigned i = 0; i < ik.n; i++) {
		const ProtobufCEnumValue *v = protobuf_c_enum_descriptor_get_value(d, (int)ik.v[i]);
		printf("EK %d %ld\n", (int)ik.v[i], v == NULL ? -1L : (long)(v - d->values));
	}
	name_keys_free(&nk);
	free(ik.v);
}

static void service_lookups(const ProtobufCServiceDescriptor *d)
{
	NameKeys nk = { NULL, 0, 0 };
	for (unsigned i = 0; i < d->n_methods; i++)
		name_keys_of(&nk, d->methods[i].name);
	name_keys_finish(&nk);
	for (unsigned i = 0; i < nk.n; i++) {
		const ProtobufCMethodDescriptor *m = protobuf_c_service_descriptor_get_method_by_name(d, nk.v[i]);
		fputs("SL ", stdout);
		put_str(nk.v[i]);
		printf(" %ld\n", m == NULL ? -1L : (long)(m - d->methods));
	}
	name_keys_free(&nk);
}

/* ---------------------------------------------------------------- blocks */

static void dump_message(const ProtobufCMessageDescriptor *d)
{
	FieldInfo *fi = calloc(d->n_fields + 1, sizeof *fi);
	unsigned *group_qoff = calloc(d->n_fields + 1, sizeof *group_qoff);
	unsigned n_groups = 0;
	int sizeof_ok;

	if (d->magic != PROTOBUF_C__MESSAGE_DESCRIPTOR_MAGIC) {
		printf("MD BADMAGIC\n");
		free(fi);
		free(group_qoff);
		return;
	}
	classify(d, fi, &n_groups, group_qoff);
	sizeof_ok = d->sizeof_message >= sizeof(ProtobufCMessage) &&
		    d->sizeof_message % _Alignof(void *) == 0;

	fputs("MD ", stdout);
	put_str(d->name); putchar(' ');
	put_str(d->short_name); putchar(' ');
	put_str(d->c_name); putchar(' ');
	put_str(d->package_name);
	printf(" %u %u %d %d\n", d->n_fields, d->n_field_ranges, d->message_init != NULL, sizeof_ok);

	for (unsigned i = 0; i < d->n_fields; i++) {
		const ProtobufCFieldDescriptor *f = &d->fields[i];
		printf("MF %u ", i);
		put_str(f->name);
		printf(" %u %s %s ", (unsigned)f->id, label_name(f->label), type_name(f->type));
		switch (fi[i].quant) {
		case Q_N: putchar('N'); break;
		case Q_H: putchar('H'); break;
		case Q_K: putchar('K'); break;
		case Q_C: printf("C%d", fi[i].group); break;
		}
		printf(" %u ", (unsigned)f->flags);
		if (f->descriptor == NULL) {
			putchar('-');
		} else if (f->type == PROTOBUF_C_TYPE_MESSAGE) {
			put_str(((const ProtobufCMessageDescriptor *)f->descriptor)->name);
		} else if (f->type == PROTOBUF_C_TYPE_ENUM) {
			put_str(((const ProtobufCEnumDescriptor *)f->descriptor)->name);
		} else {
			fputs("?", stdout);    /* descriptor on a type that has none */
		}
		putchar(' ');
		put_default(f);
		printf(" %d\n", field_off_ok(d, fi, i));
	}
	if (d->field_ranges != NULL) {
		for (unsigned i = 0; i <= d->n_field_ranges; i++)
			printf("MR %d %u\n", d->field_ranges[i].start_value, d->field_ranges[i].orig_index);
	}
	if (d->fields_sorted_by_name == NULL) {
		printf("MN NULL\n");
	} else {
		fputs("MN", stdout);
		for (unsigned i = 0; i < d->n_fields; i++)
			printf(" %u", d->fields_sorted_by_name[i]);
		putchar('\n');
	}

	if (sizeof_ok) {
		/* MI */
		unsigned char *buf = calloc(1, d->sizeof_message + 64);
		fflush(stdout);         /* keep what was printed if generated code crashes */
		if (d->message_init != NULL)
			d->message_init((ProtobufCMessage *)buf);
		put_state("MI", d, fi, n_groups, group_qoff, buf);
		free(buf);
		fflush(stdout);
		/* MU */
		ProtobufCMessage *u = protobuf_c_message_unpack(d, NULL, 0, NULL);
		if (u == NULL) {
			printf("MU FAIL\n");
		} else {
			put_state("MU", d, fi, n_groups, group_qoff, (const unsigned char *)u);
			protobuf_c_message_free_unpacked(u, NULL);
		}
	} else {
		printf("MI !\nMU !\n");
	}
	message_lookups(d);
	free(fi);
	free(group_qoff);
}

static void dump_enum(const ProtobufCEnumDescriptor *d)
{
	if (d->magic != PROTOBUF_C__ENUM_DESCRIPTOR_MAGIC) {
		printf("ED BADMAGIC\n");
		return;
	}
	fputs("ED ", stdout);
	put_str(d->name); putchar(' ');
	put_str(d->short_name); putchar(' ');
	put_str(d->c_name); putchar(' ');
	put_str(d->package_name);
	printf(" %u %u %u\n", d->n_values, d->n_value_names, d->n_value_ranges);
	for (unsigned i = 0; i < d->n_values; i++) {
		printf("EV %u ", i);
		put_str(d->values[i].name); putchar(' ');
		put_str(d->values[i].c_name);
		printf(" %d\n", d->values[i].value);
	}
	if (d->values_by_name == NULL) {
		printf("EN NULL\n");
	} else {
		for (unsigned i = 0; i < d->n_value_names; i++) {
			fputs("EN ", stdout);
			put_str(d->values_by_name[i].name);
			printf(" %u\n", d->values_by_name[i].index);
		}
	}
	if (d->value_ranges != NULL) {
		for (unsigned i = 0; i <= d->n_value_ranges; i++)
			printf("ER %d %u\n", d->value_ranges[i].start_value, d->value_ranges[i].orig_index);
	}
	enum_lookups(d);
}

static void dump_service(const ProtobufCServiceDescriptor *d)
{
	if (d->magic != PROTOBUF_C__SERVICE_DESCRIPTOR_MAGIC) {
		printf("SD BADMAGIC\n");
		return;
	}
	fputs("SD ", stdout);
	put_str(d->name); putchar(' ');
	put_str(d->short_name); putchar(' ');
	put_str(d->c_name); putchar(' ');
	put_str(d->package);
	printf(" %u\n", d->n_methods);
	for (unsigned i = 0; i < d->n_methods; i++) {
		const ProtobufCMethodDescriptor *m = &d->methods[i];
		printf("SM %u ", i);
		put_str(m->name); putchar(' ');
		if (m->input == NULL) fputs("-", stdout); else put_str(m->input->name);
		putchar(' ');
		if (m->output == NULL) fputs("-", stdout); else put_str(m->output->name);
		putchar('\n');
	}
	if (d->method_indices_by_name == NULL) {
		printf("SN NULL\n");
	} else {
		fputs("SN", stdout);
		for (unsigned i = 0; i < d->n_methods; i++)
			printf(" %u", d->method_indices_by_name[i]);
		putchar('\n');
	}
	service_lookups(d);
	/* SS / SI / SX: the generated stubs, <svc>__init and protobuf_c_service_destroy (code generated
	 * by genloop.py into registry.c) */
	fflush(stdout);
	for (unsigned i = 0; i < n_all_svc_tests; i++)
		if (all_svc_tests[i].desc == d && all_svc_tests[i].run != NULL)
			all_svc_tests[i].run();
}

/* ---------------------------------------------------------------- stable sort by name */

static int name_cmp(const char *a, const char *b)
{
	if (a == NULL) a = "";
	if (b == NULL) b = "";
	/* bytewise, unsigned */
	for (;; a++, b++) {
		unsigned char ca = (unsigned char)*a, cb = (unsigned char)*b;
		if (ca != cb)
			return ca < cb ? -1 : 1;
		if (ca == 0)
			return 0;
	}
}

/* insertion sort of an index array (stable) */
static unsigned *sorted_index(unsigned n, const char *(*get)(unsigned))
{
	unsigned *ix = calloc(n + 1, sizeof *ix);
	for (unsigned i = 0; i < n; i++) {
		unsigned j = i;
		while (j > 0 && name_cmp(get(ix[j - 1]), get(i)) > 0) {
			ix[j] = ix[j - 1];
			j--;
		}
		ix[j] = i;
	}
	return ix;
}

static const char *msg_name(unsigned i) { return all_msgs[i]->name; }
static const char *enum_name(unsigned i) { return all_enums[i]->name; }
static const char *svc_name(unsigned i) { return all_svcs[i]->name; }

int main(void)
{
	unsigned *ix;

	ix = sorted_index(n_all_msgs, msg_name);
	for (unsigned i = 0; i < n_all_msgs; i++)
		dump_message(all_msgs[ix[i]]);
	free(ix);
	ix = sorted_index(n_all_enums, enum_name);
	for (unsigned i = 0; i < n_all_enums; i++)
		dump_enum(all_enums[ix[i]]);
	free(ix);
	ix = sorted_index(n_all_svcs, svc_name);
	for (unsigned i = 0; i < n_all_svcs; i++)
		dump_service(all_svcs[ix[i]]);
	free(ix);
	if (fflush(stdout) != 0)
		return 1;
	return 0;
}

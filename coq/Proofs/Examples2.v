(* Non-vacuity examples for C19. *)
From Coq Require Import ZArith List Bool.
From PBC Require Import Base.CInt Impl.Desc Impl.Mem Impl.Check Spec.Defect Proofs.Examples.
Import ListNotations.
Local Open Scope Z_scope.

Example ex_check_ok : check_msg ex_env ex_msg = Ok true.
Proof. vm_compute. reflexivity. Qed.

(* the same message with the nested oneof bytes member holding a length but no data *)
Definition ex_inner_bad : msg :=
  match ex_inner with Msg d s _ u => Msg d s [ (6, VBytes 3 PNull) ] u end.
Definition ex_msg_bad : msg :=
  Msg 0 [ SOne 0 (VWord 150); SOne 0 (VStr (PHeap [65; 66]));
          SRep 3 3 (Some [VWord 1; VWord 300; VWord 4294967295]); SUnion 0; SUnion 0;
          SOne 0 (VMsg (Some ex_inner_bad)); SRep 2 2 (Some [VStr (PHeap []); VStr (PHeap [120])]);
          SOne 0 (VWord 0) ]
      [ (5, VWord 18446744073709551615) ] [].
Example ex_bad_defect : defect_msg ex_env ex_msg_bad = true /\ check_msg ex_env ex_msg_bad = Ok false.
Proof. split; vm_compute; reflexivity. Qed.

(* C11: required fields.  protobuf_c_message_unpack succeeds only if every required field without
   a default was met by the scan (at this level; embedded messages are parsed by the same function),
   and the required-field test rejects for no other reason. *)
From Coq Require Import ZArith List Bool Lia ZifyBool.
From PBC Require Import Base.CInt Gen.LeafC Impl.Desc Impl.Mem Impl.Enc Impl.Unpack Proofs.ScanInv.
Import ListNotations.
Local Open Scope Z_scope.

Definition must_appear (f : field) : bool :=
  label_eqb (f_label f) LRequired && match f_default f with None => true | Some _ => false end.

Lemma alloc_slots_required : forall fs bm ss ss', alloc_slots fs bm ss = Ok ss' ->
  forall i f, nth_error fs i = Some f -> must_appear f = true -> nth i bm false = true.
Proof.
  induction fs as [|f0 fs IH]; intros bm ss ss' H i f Hn Hm; [destruct i; discriminate Hn|].
  cbn [alloc_slots] in H. destruct ss as [|s ss]; [discriminate H|].
  destruct (alloc_slot f0 (hd false bm) s) as [s'|e] eqn:Es; cbn [bind] in H; [|discriminate H].
  destruct (alloc_slots fs (tl bm) ss) as [r|e] eqn:Er; cbn [bind] in H; [|discriminate H].
  destruct i as [|i].
  - inversion Hn; subst f0. unfold must_appear in Hm. apply andb_true_iff in Hm. destruct Hm as [Hl Hd].
    unfold alloc_slot in Es. destruct (f_label f); try discriminate Hl. destruct (f_default f); [discriminate Hd|].
    destruct bm as [|b bm]; cbn [hd nth] in *; destruct (hd false []) eqn:?; try (destruct b; [reflexivity | discriminate Es]); discriminate Es.
  - cbn [nth_error] in Hn. specialize (IH (tl bm) ss r Er i f Hn Hm).
    destruct bm as [|b bm]; cbn [tl nth] in *; [destruct i; exact IH | exact IH].
Qed.

(* slots fit the field list: a repeated field has a counter/array slot *)
Definition slot_fits (f : field) (s : slot) : Prop :=
  match f_label f with LRepeated => exists n c a, s = SRep n c a | _ => True end.

Lemma alloc_slots_total : forall fs bm ss,
  Forall2 slot_fits fs ss ->
  (forall i f, nth_error fs i = Some f -> must_appear f = true -> nth i bm false = true) ->
  exists ss', alloc_slots fs bm ss = Ok ss'.
Proof.
  induction fs as [|f0 fs IH]; intros bm ss HF Hb.
  - exists ss. destruct ss; reflexivity.
  - inversion HF as [|? s ? ss0 Hs HF']; subst. cbn [alloc_slots].
    assert (H0 : exists s', alloc_slot f0 (hd false bm) s = Ok s').
    { unfold alloc_slot. unfold slot_fits in Hs. destruct (f_label f0) eqn:El.
      - destruct (f_default f0) eqn:Ed; [eauto|].
        assert (Hh : nth 0 bm false = true) by (apply (Hb 0%nat f0 eq_refl); unfold must_appear; rewrite El, Ed; reflexivity).
        destruct bm as [|b bm]; cbn in Hh; [discriminate Hh|]. cbn [hd]. rewrite Hh. eauto.
      - eauto.
      - destruct Hs as (n & c & a & ->). destruct (n =? 0); eauto.
      - eauto. }
    destruct H0 as (s' & ->). cbn [bind].
    destruct (IH (tl bm) ss0 HF') as (r & ->).
    { intros i f Hn Hm. specialize (Hb (S i) f Hn Hm). destruct bm as [|b bm]; cbn [tl nth] in *; [destruct i; exact Hb | exact Hb]. }
    cbn [bind]. eauto.
Qed.

Lemma bump_count_fits : forall fs ss i c ss', Forall2 slot_fits fs ss -> bump_count ss i c = Ok ss' -> Forall2 slot_fits fs ss'.
Proof.
  intros fs ss i c ss' HF H. unfold bump_count in H.
  destruct (nth_error ss i) as [[| n cap arr |]|] eqn:En; try discriminate H. inversion H; subst ss'; clear H.
  revert i En. induction HF as [|f s fs ss Hs HF IH]; intros i En; [destruct i; discriminate En|].
  destruct i as [|i]; cbn [set_nth nth_error] in *.
  - inversion En; subst s. constructor; [|exact HF]. unfold slot_fits in *. destruct (f_label f); eauto.
  - constructor; [exact Hs | exact (IH i En)].
Qed.

Section Req.
Variable E : env.

Lemma scan_one_fits : forall md st st', scan_one md st = Ok st' ->
  Forall2 slot_fits (md_fields md) (st_slots st) -> Forall2 slot_fits (md_fields md) (st_slots st').
Proof.
  intros md st st' H HF. unfold scan_one in H.
  destruct (parse_tag_and_wiretype (zlen (st_at st)) (st_at st) 0 0) as [[used tag] wt].
  destruct (used =? 0); [discriminate H|].
  match type of H with context [if ?c then (st_last st, st_last st, st_last_idx st, st_nunk st) else _] => destruct c end;
    cbv beta iota zeta in H.
  - destruct (st_last st) as [li|]; cbn [bind] in H.
    + destruct (nth_error (md_fields md) li) as [f|]; cbn [bind] in H; [|discriminate H].
      match type of H with (do lp <- ?X; _) = _ => destruct X as [[len pref]|e]; [|discriminate H] end. cbn [bind] in H.
      match type of H with (do slots <- ?X; _) = _ => destruct X as [slots|e] eqn:Esl; [|discriminate H] end. cbn [bind] in H.
      inversion H; subst st'; cbn [st_slots].
      destruct (label_eqb (f_label f) LRepeated); [|inversion Esl; subst; exact HF].
      destruct (packed_arrival f wt).
      * destruct (count_packed_elements _ _ _ _) as [okc cnt]. destruct (okc =? 0); [discriminate Esl|].
        eapply bump_count_fits; eauto.
      * eapply bump_count_fits; eauto.
    + match type of H with (do lp <- ?X; _) = _ => destruct X as [[len pref]|e]; [|discriminate H] end. cbn [bind] in H.
      inversion H; subst st'; exact HF.
  - destruct (find_field md tag) as [i|].
    + destruct (nth_error (md_fields md) i) as [f|]; cbn [bind] in H; [|discriminate H].
      match type of H with (do lp <- ?X; _) = _ => destruct X as [[len pref]|e]; [|discriminate H] end. cbn [bind] in H.
      match type of H with (do slots <- ?X; _) = _ => destruct X as [slots|e] eqn:Esl; [|discriminate H] end. cbn [bind] in H.
      inversion H; subst st'; cbn [st_slots].
      destruct (label_eqb (f_label f) LRepeated); [|inversion Esl; subst; exact HF].
      destruct (packed_arrival f wt).
      * destruct (count_packed_elements _ _ _ _) as [okc cnt]. destruct (okc =? 0); [discriminate Esl|].
        eapply bump_count_fits; eauto.
      * eapply bump_count_fits; eauto.
    + cbn [bind] in H.
      match type of H with (do lp <- ?X; _) = _ => destruct X as [[len pref]|e]; [|discriminate H] end. cbn [bind] in H.
      inversion H; subst st'; exact HF.
Qed.

Lemma scan_loop_fits : forall md fuel st st', scan_loop fuel md st = Ok st' ->
  Forall2 slot_fits (md_fields md) (st_slots st) -> Forall2 slot_fits (md_fields md) (st_slots st').
Proof.
  intros md. induction fuel as [|k IH]; intros st st' H HF; cbn [scan_loop] in H.
  - destruct (st_at st); [inversion H; subst; exact HF | discriminate H].
  - destruct (st_at st); [inversion H; subst; exact HF|].
    destruct (scan_one md st) as [st1|e] eqn:E1; cbn [bind] in H; [|discriminate H].
    exact (IH st1 st' H (scan_one_fits md st st1 E1 HF)).
Qed.

Definition st_init (d : nat) (md : mdesc) (data : list Z) : sstate :=
  {| st_at := data;
     st_last := match md_fields md with [] => None | _ => Some 0%nat end;
     st_last_idx := 0%nat;
     st_bitmap := repeat false (length (md_fields md));
     st_members := []; st_slots := m_slots (init_msg d md); st_nunk := 0 |}.

Lemma nth_repeat_false : forall n i, nth i (repeat false n) false = false.
Proof. induction n as [|n IH]; intros [|i]; cbn; auto. Qed.

Lemma init_track : forall d md data, track_inv md (st_init d md data).
Proof.
  intros d md data. unfold track_inv, st_init; cbn. repeat split.
  - destruct (md_fields md); auto.
  - intros i H. rewrite nth_repeat_false in H. discriminate H.
  - intros sm i f [].
  - intros sm i [].
Qed.

Lemma init_fits : forall d md, Forall2 slot_fits (md_fields md) (m_slots (init_msg d md)).
Proof.
  intros d md. unfold init_msg. cbn [m_slots]. induction (md_fields md) as [|f fs IH]; cbn [map]; constructor; [|exact IH].
  unfold slot_fits, init_slot. destruct (f_label f); eauto.
Qed.

(* success implies presence: every required field without default was scanned at this level *)
Theorem unpack_ok_required_present : forall k d data m md,
  unpack E (S k) d data = Ok m -> nth_error E d = Some md ->
  exists st, scan_loop (S (length data)) md (st_init d md data) = Ok st /\
    forall i f, nth_error (md_fields md) i = Some f -> must_appear f = true ->
      exists sm, In sm (st_members st) /\ sm_field sm = Some i.
Proof.
  intros k d data m md H Hmd. cbn [unpack] in H. rewrite Hmd in H.
  fold (st_init d md data) in H.
  destruct (scan_loop (S (length data)) md (st_init d md data)) as [st|e] eqn:Es; cbn [bind] in H; [|discriminate H].
  destruct (max_members <? zlen (st_members st)) eqn:Hmax; [discriminate H|].
  destruct (alloc_slots (md_fields md) (st_bitmap st) (st_slots st)) as [slots|e] eqn:Ea; cbn [bind] in H; [|discriminate H].
  exists st. split; [reflexivity|]. intros i f Hn Hm.
  destruct (scan_loop_track md _ _ _ Es (init_track d md data)) as [(_ & I2 & _) _].
  apply I2. exact (alloc_slots_required _ _ _ _ Ea i f Hn Hm).
Qed.

(* the required-field test never rejects when every such field was scanned: absent optional,
   repeated, oneof or defaulted-required fields never cause rejection at this point *)
Theorem required_test_exact : forall d data md st,
  scan_loop (S (length data)) md (st_init d md data) = Ok st ->
  (forall i f, nth_error (md_fields md) i = Some f -> must_appear f = true ->
     exists sm, In sm (st_members st) /\ sm_field sm = Some i) ->
  exists slots, alloc_slots (md_fields md) (st_bitmap st) (st_slots st) = Ok slots.
Proof.
  intros d data md st Es Hall.
  destruct (scan_loop_track md _ _ _ Es (init_track d md data)) as [(_ & _ & I3 & _) HL].
  apply alloc_slots_total.
  - exact (scan_loop_fits md _ _ _ Es (init_fits d md)).
  - intros i f Hn Hm. destruct (Hall i f Hn Hm) as (sm & Hin & Hf).
    apply (I3 sm i f Hin Hf Hn).
    + unfold must_appear in Hm. apply andb_true_iff in Hm. exact (proj1 Hm).
    + rewrite HL. cbn [st_init st_bitmap]. rewrite repeat_length. apply nth_error_Some. congruence.
Qed.

(* and it does reject when one is missing *)
Theorem missing_required_rejected : forall k d data md st i f,
  nth_error E d = Some md ->
  scan_loop (S (length data)) md (st_init d md data) = Ok st ->
  nth_error (md_fields md) i = Some f -> must_appear f = true ->
  (forall sm, In sm (st_members st) -> sm_field sm <> Some i) ->
  unpack E (S k) d data = Err EFail.
Proof.
  intros k d data md st i f Hmd Es Hn Hm Hno. cbn [unpack]. rewrite Hmd. fold (st_init d md data). rewrite Es. cbn [bind].
  destruct (max_members <? zlen (st_members st)) eqn:Hmax; [reflexivity|].
  destruct (alloc_slots (md_fields md) (st_bitmap st) (st_slots st)) as [slots|e] eqn:Ea; cbn [bind].
  - exfalso. destruct (scan_loop_track md _ _ _ Es (init_track d md data)) as [(_ & I2 & _) _].
    destruct (I2 i (alloc_slots_required _ _ _ _ Ea i f Hn Hm)) as (sm & Hin & Hf). exact (Hno sm Hin Hf).
  - (* the only error alloc_slots can produce here is EFail *)
    assert (He : forall fs bm ss e0, Forall2 slot_fits fs ss -> alloc_slots fs bm ss = Err e0 -> e0 = EFail).
    { induction fs as [|f0 fs IH]; intros bm ss e0 HF H; [destruct ss; discriminate H|].
      inversion HF as [|? s ? ss0 Hs HF']; subst. cbn [alloc_slots] in H.
      destruct (alloc_slot f0 (hd false bm) s) as [s'|e1] eqn:E1; cbn [bind] in H.
      - destruct (alloc_slots fs (tl bm) ss0) as [r|e2] eqn:E2; cbn [bind] in H; [discriminate H|].
        inversion H; subst. exact (IH _ _ _ HF' E2).
      - inversion H; subst e1. unfold alloc_slot in E1. unfold slot_fits in Hs. destruct (f_label f0).
        + destruct (f_default f0); [discriminate E1|]. destruct (hd false bm); [discriminate E1 | inversion E1; reflexivity].
        + discriminate E1.
        + destruct Hs as (n & c & a & ->). destruct (n =? 0); discriminate E1.
        + discriminate E1. }
    f_equal. exact (He _ _ _ _ (scan_loop_fits md _ _ _ Es (init_fits d md)) Ea).
Qed.

End Req.

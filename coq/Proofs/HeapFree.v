(* protobuf_c_message_free_unpacked (h_free) returns exactly the blocks the message owns, each once (spec_free).

   The point that needs the invariant: the storage of a oneof is reached through the slot of the member whose id
   equals the case word, and handed to free_if_owned with that member's default.  hunion_ok says the cell either
   owns nothing and is not the static default pointer (no_def), or is a well-typed cell of the selected member; in
   both cases (hdef_ok below, implied by hwt under env_ok) freeing it through that member never hands a static
   default to free.  (Without no_def in hunion_ok the specification is false: a union holding HStr PDef whose
   case selects a string member without default is freed with is_def = false, event EvX.) *)
From Coq Require Import ZArith List Bool Permutation Lia.
From PBC Require Import Base.CInt Gen.LeafC Impl.Desc Impl.Mem Impl.Enc Impl.WF Impl.Unpack Impl.Canon
     Impl.Heap Impl.HeapInv Proofs.HeapLib.
Import ListNotations.
Local Open Scope Z_scope.

(* ---------- the missing conjunct *)
(* handing cell v to h_free_single for member f never frees the static default *)
Definition def_safe (f : field) (v : hval) : bool :=
  match v with
  | HStr PDef => negb (ftype_eqb (f_type f) TString) || has_default f
  | HBytes _ PDef => negb (ftype_eqb (f_type f) TBytes) || has_default f
  | _ => true
  end.

Definition hunion_def_ok (fs : list field) (g : nat) (cv : Z * hval) : bool :=
  forallb (fun f => negb ((f_id f =? fst cv) && in_group f g) || def_safe f (snd cv)) fs.

Definition hunions_def_ok (fs : list field) : nat -> list (Z * hval) -> bool :=
  fix go (g : nat) (us : list (Z * hval)) {struct us} : bool :=
    match us with
    | [] => true
    | cv :: t => hunion_def_ok fs g cv && go (S g) t
    end.

Definition sub_val (rec : hmsg -> bool) (v : hval) : bool := match v with HMsg (Some m) => rec m | _ => true end.
Definition sub_slot (rec : hmsg -> bool) (s : hslot) : bool :=
  match s with
  | HOne _ v => sub_val rec v
  | HRep (Some (_, el)) => forallb (sub_val rec) el
  | _ => true
  end.

Fixpoint hdef_ok (E : env) (m : hmsg) : bool :=
  match m with
  | HM id d slots unions utab unk =>
      match nth_error E d with
      | None => true
      | Some md =>
          forallb (sub_slot (hdef_ok E)) slots &&
          forallb (fun cv : Z * hval => sub_val (hdef_ok E) (snd cv)) unions &&
          hunions_def_ok (md_fields md) 0 unions
      end
  end.

(* ---------- unfolding equations *)
Lemma h_free_eq : forall E id d slots unions utab unk,
  h_free E (HM id d slots unions utab unk) =
  match nth_error E d with
  | None => ret tt
  | Some md =>
      bnd (h_free_slots (h_free E) unions (md_fields md) slots) (fun _ =>
      bnd (iterA free_opt unk) (fun _ =>
      bnd (free_opt utab) (fun _ => free_id id)))
  end.
Proof. reflexivity. Qed.

Lemma h_free_slots_cons : forall rec unions f fs s ss,
  h_free_slots rec unions (f :: fs) (s :: ss) =
  bnd (h_free_slot rec unions f s) (fun _ => h_free_slots rec unions fs ss).
Proof. reflexivity. Qed.

Lemma hwt_eq : forall E c id d slots unions utab unk,
  hwt E c (HM id d slots unions utab unk) =
  match nth_error E d with
  | None => false
  | Some md =>
      hslots_ok (hwt E true) c (length unions) (md_fields md) slots &&
      Nat.eqb (length unions) (md_n_oneofs md) &&
      hunions_ok (hwt E true) (md_fields md) 0 unions &&
      match utab with
      | None => match unk with [] => true | _ => false end
      | Some _ => negb c || nonempty unk
      end
  end.
Proof. reflexivity. Qed.

Lemma hdef_ok_eq : forall E id d slots unions utab unk,
  hdef_ok E (HM id d slots unions utab unk) =
  match nth_error E d with
  | None => true
  | Some md =>
      forallb (sub_slot (hdef_ok E)) slots &&
      forallb (fun cv : Z * hval => sub_val (hdef_ok E) (snd cv)) unions &&
      hunions_def_ok (md_fields md) 0 unions
  end.
Proof. reflexivity. Qed.

Lemma hslots_ok_cons : forall rec c n f fs s ss,
  hslots_ok rec c n (f :: fs) (s :: ss) = hslot_ok rec c n f s && hslots_ok rec c n fs ss.
Proof. reflexivity. Qed.

Lemma hslots_ok_length : forall rec c n fs ss, hslots_ok rec c n fs ss = true -> length fs = length ss.
Proof.
  intros rec c n fs. induction fs as [|f fs IH]; intros ss H; destruct ss as [|s ss]; try discriminate H; [reflexivity|].
  rewrite hslots_ok_cons in H. apply andb_true_iff in H. destruct H as [_ H]. cbn [length]. f_equal. apply IH. exact H.
Qed.

Lemma hunions_ok_nth : forall rec fs us a g cv, hunions_ok rec fs a us = true -> nth_error us g = Some cv ->
  hunion_ok rec fs (a + g) cv = true.
Proof.
  intros rec fs us. induction us as [|u t IH]; intros a g cv H Hn; [destruct g; discriminate Hn|].
  cbn [hunions_ok] in H. apply andb_true_iff in H. destruct H as [H1 H2].
  destruct g as [|g]; cbn [nth_error] in Hn.
  - inversion Hn; subst. rewrite Nat.add_0_r. exact H1.
  - replace (a + S g)%nat with (S a + g)%nat by lia. apply IH; assumption.
Qed.

Lemma hunions_def_ok_nth : forall fs us a g cv, hunions_def_ok fs a us = true -> nth_error us g = Some cv ->
  hunion_def_ok fs (a + g) cv = true.
Proof.
  intros fs us. induction us as [|u t IH]; intros a g cv H Hn; [destruct g; discriminate Hn|].
  cbn [hunions_def_ok] in H. apply andb_true_iff in H. destruct H as [H1 H2].
  destruct g as [|g]; cbn [nth_error] in Hn.
  - inversion Hn; subst. rewrite Nat.add_0_r. exact H1.
  - replace (a + S g)%nat with (S a + g)%nat by lia. apply IH; assumption.
Qed.

(* a well-typed cell is safe for its member *)
Lemma hcell_ok_def_safe : forall rec f v, hcell_ok rec f v = true -> def_safe f v = true.
Proof.
  intros rec f v H. unfold hcell_ok in H. unfold def_safe.
  destruct v as [|[| |i]|n [| |i]|o]; try reflexivity; destruct (f_type f); try discriminate H;
    cbn [ftype_eqb negb orb]; try reflexivity; exact H.
Qed.

(* ====================================================================== the proof *)
Section Free.
Variable E : env.
Hypothesis EO : env_ok E = true.

(* what is proved of every message, by induction over the tree *)
Definition freeP (m : hmsg) : Prop := forall c R, hwt E c m = true -> hdef_ok E m = true ->
  hoare (fun L => Permutation L (owned m ++ R)) (h_free E m) (fun _ L' => Permutation L' R).

(* ---------- cells *)
Lemma free_single_cell : forall f v R,
  hcell_ok (hwt E true) f v = true -> val_all freeP v -> sub_val (hdef_ok E) v = true ->
  hoare (fun L => Permutation L (owned_val owned v ++ R)) (h_free_single (h_free E) f v)
        (fun _ L' => Permutation L' R).
Proof.
  intros f v R H IH HD. unfold h_free_single. unfold hcell_ok in H.
  destruct (f_type f) eqn:Et; destruct v as [|p|n p|[m|]]; try discriminate H;
    cbn [as_hstr as_hbytes snd];
    try (rewrite ?owned_val_scalar, ?owned_val_nomsg; cbn [app]; apply hoare_ret; intros L HL; exact HL).
  - (* string cell *)
    rewrite owned_val_str. apply hoare_free_if_owned. intros ->. exact H.
  - (* bytes cell *)
    rewrite owned_val_bytes. apply hoare_free_if_owned. intros ->. exact H.
  - (* sub-message *)
    rewrite owned_val_msg. apply andb_true_iff in H. destruct H as [Hw _].
    exact (IH true R Hw HD).
Qed.

(* a cell that owns nothing and does not hold a default the member does not have: nothing happens *)
Lemma free_single_nothing : forall f v R,
  owns_nothing v = true -> def_safe f v = true ->
  hoare (fun L => Permutation L R) (h_free_single (h_free E) f v) (fun _ L' => Permutation L' R).
Proof.
  intros f v R Ho Hd. unfold h_free_single. unfold def_safe in Hd.
  assert (Hret : hoare (fun L => Permutation L R) (ret tt) (fun (_ : unit) L' => Permutation L' R)).
  { apply hoare_ret. intros L HL. exact HL. }
  destruct (f_type f) eqn:Et; try exact Hret.
  - (* TString *)
    destruct v as [|p|n p|o]; cbn [as_hstr]; try exact Hret.
    destruct p as [| |i]; [exact Hret | | discriminate Ho].
    cbn [ftype_eqb negb orb] in Hd.
    eapply hoare_pre; [apply (hoare_free_if_owned f PDef R); intros _; exact Hd|].
    intros L HL. exact HL.
  - (* TBytes *)
    destruct v as [|p|n p|o]; cbn [as_hbytes snd]; try exact Hret.
    destruct p as [| |i]; [exact Hret | | discriminate Ho].
    cbn [ftype_eqb negb orb] in Hd.
    eapply hoare_pre; [apply (hoare_free_if_owned f PDef R); intros _; exact Hd|].
    intros L HL. exact HL.
  - (* TMessage *)
    destruct v as [|p|n p|[m|]]; try exact Hret. discriminate Ho.
Qed.

(* an array element *)
Lemma free_elem_ok : forall f v R,
  helem_ok (hwt E true) f v = true -> val_all freeP v -> sub_val (hdef_ok E) v = true ->
  hoare (fun L => Permutation L (owned_val owned v ++ R)) (h_free_elem (h_free E) f v)
        (fun _ L' => Permutation L' R).
Proof.
  intros f v R H IH HD. unfold h_free_elem. unfold helem_ok in H.
  destruct (f_type f) eqn:Et; destruct v as [|p|n p|[m|]]; try discriminate H;
    cbn [as_hstr as_hbytes snd];
    try (rewrite ?owned_val_scalar; cbn [app]; apply hoare_ret; intros L HL; exact HL).
  - rewrite owned_val_str. apply hoare_free_raw. intros ->. discriminate H.
  - rewrite owned_val_bytes. apply hoare_free_raw. intros ->. discriminate H.
  - rewrite owned_val_msg. apply andb_true_iff in H. destruct H as [Hw _]. exact (IH true R Hw HD).
Qed.

(* ---------- one message: descriptor and unions fixed *)
Section OneMsg.
Variable d : nat.
Variable md : mdesc.
Hypothesis Emd : nth_error E d = Some md.
Variable unions : list (Z * hval).
Hypothesis HU : hunions_ok (hwt E true) (md_fields md) 0 unions = true.
Hypothesis HD : hunions_def_ok (md_fields md) 0 unions = true.
Hypothesis HUP : Forall (fun cv : Z * hval => val_all freeP (snd cv)) unions.
Hypothesis HUS : forallb (fun cv : Z * hval => sub_val (hdef_ok E) (snd cv)) unions = true.

(* what the slot of member f hands to free out of the unions *)
Definition ufrees (f : field) (s : hslot) : list nat :=
  match s with
  | HUnion g => match nth_error unions g with
                | Some cv => if fst cv =? f_id f then owned_val owned (snd cv) else []
                | None => []
                end
  | _ => []
  end.
Definition frees (fsp : field * hslot) : list nat := owned_slot owned (snd fsp) ++ ufrees (fst fsp) (snd fsp).

Lemma free_slot_ok : forall c f s R,
  In f (md_fields md) -> hslot_ok (hwt E true) c (length unions) f s = true ->
  slot_all freeP s -> sub_slot (hdef_ok E) s = true ->
  hoare (fun L => Permutation L (frees (f, s) ++ R)) (h_free_slot (h_free E) unions f s)
        (fun _ L' => Permutation L' R).
Proof.
  intros c f s R Hin H IH HS. unfold frees. cbn [fst snd].
  destruct s as [h v|arr|g]; cbn [h_free_slot ufrees].
  - (* singular member *)
    rewrite app_nil_r, owned_slot_one. cbn [hslot_ok] in H. rewrite !andb_true_iff in H.
    destruct H as [[_ Hc] _]. apply free_single_cell; [exact Hc | exact IH | exact HS].
  - (* repeated member *)
    rewrite app_nil_r. cbn [hslot_ok] in H. apply andb_true_iff in H. destruct H as [_ H].
    destruct arr as [[a el]|].
    + rewrite owned_slot_rep. apply andb_true_iff in H. destruct H as [Hel _].
      rewrite forallb_forall in Hel. cbn [slot_all] in IH. rewrite Forall_forall in IH.
      cbn [sub_slot] in HS. rewrite forallb_forall in HS.
      eapply hoare_bnd.
      * eapply hoare_pre; [apply (hoare_iterA_frees hval (h_free_elem (h_free E) f) (owned_val owned) el (a :: R))|].
        -- intros v Hv R'. apply free_elem_ok; [apply Hel | apply IH | apply HS]; exact Hv.
        -- intros L HL. perm_nat.
      * intros u. apply hoare_free_id.
    + rewrite owned_slot_norep. cbn [app]. apply hoare_ret. intros L HL. exact HL.
  - (* member of a oneof *)
    rewrite owned_slot_union. cbn [app]. rewrite with_nth_nth_error.
    cbn [hslot_ok] in H. rewrite !andb_true_iff in H. destruct H as [[[_ _] Hq] _].
    assert (Hg : in_group f g = true).
    { unfold in_group. destruct (f_quant f) as [| |g'|]; try discriminate Hq.
      exact Hq. }
    destruct (nth_error unions g) as [cv|] eqn:Eg; [|cbn [app]; apply hoare_ret; intros L HL; exact HL].
    destruct (Z.eqb_spec (fst cv) (f_id f)) as [Eid|Nid]; [|cbn [app]; apply hoare_ret; intros L HL; exact HL].
    pose proof (hunions_ok_nth _ _ _ 0%nat g cv HU Eg) as Hu. cbn [Nat.add] in Hu.
    pose proof (hunions_def_ok_nth _ _ 0%nat g cv HD Eg) as Hd. cbn [Nat.add] in Hd.
    unfold hunion_ok in Hu. destruct (owns_nothing (snd cv)) eqn:Eo.
    + rewrite (owns_nothing_owned owned _ Eo). cbn [app]. apply free_single_nothing; [exact Eo|].
      unfold hunion_def_ok in Hd. rewrite forallb_forall in Hd. specialize (Hd f Hin).
      rewrite Hg in Hd. replace (f_id f =? fst cv) with true in Hd by (symmetry; apply Z.eqb_eq; auto).
      cbn [andb negb orb] in Hd. exact Hd.
    + cbn [andb orb] in Hu. apply existsb_exists in Hu. destruct Hu as (f' & Hin' & Hf').
      rewrite !andb_true_iff in Hf'. destruct Hf' as [[[Hid' _] _] Hc']. apply Z.eqb_eq in Hid'.
      assert (f' = f) by (eapply (env_field_id_inj E EO d md); [exact Emd | exact Hin' | exact Hin | congruence]).
      subst f'. apply free_single_cell; [exact Hc' | |].
      * rewrite Forall_forall in HUP. apply (HUP cv). eapply nth_error_In; exact Eg.
      * rewrite forallb_forall in HUS. apply (HUS cv). eapply nth_error_In; exact Eg.
Qed.

Lemma free_slots_ok : forall c fs ss R,
  incl fs (md_fields md) -> hslots_ok (hwt E true) c (length unions) fs ss = true ->
  Forall (slot_all freeP) ss -> forallb (sub_slot (hdef_ok E)) ss = true ->
  hoare (fun L => Permutation L (flat_map frees (combine fs ss) ++ R)) (h_free_slots (h_free E) unions fs ss)
        (fun _ L' => Permutation L' R).
Proof.
  intros c fs. induction fs as [|f fs IHfs]; intros ss R Hincl H IH HS; destruct ss as [|s ss]; try discriminate H.
  - apply hoare_ret. intros L HL. exact HL.
  - rewrite hslots_ok_cons in H. apply andb_true_iff in H. destruct H as [H1 H2].
    inversion IH as [|s' ss' IH1 IH2]; subst.
    cbn [forallb] in HS. apply andb_true_iff in HS. destruct HS as [HS1 HS2].
    rewrite h_free_slots_cons. cbn [combine flat_map]. eapply hoare_bnd.
    + eapply hoare_pre; [apply (free_slot_ok c f s (flat_map frees (combine fs ss) ++ R))|].
      * apply Hincl. left. reflexivity.
      * exact H1.
      * exact IH1.
      * exact HS1.
      * intros L HL. rewrite <- app_assoc in HL. exact HL.
    + intros u. apply IHfs; [|exact H2 | exact IH2 | exact HS2].
      intros x Hx. apply Hincl. right. exact Hx.
Qed.

(* ---------- counting: every union cell is reached through exactly one slot when it owns something *)
(* contribution of the slot of member f to union cell g *)
Definition contrib (fsp : field * hslot) (gc : nat * (Z * hval)) : list nat :=
  match snd fsp with
  | HUnion g' => if Nat.eqb (fst gc) g'
                 then (if fst (snd gc) =? f_id (fst fsp) then owned_val owned (snd (snd gc)) else [])
                 else []
  | _ => []
  end.

Definition iunions : list (nat * (Z * hval)) := combine (seq 0 (length unions)) unions.

Lemma contrib_row : forall fsp, flat_map (contrib fsp) iunions = ufrees (fst fsp) (snd fsp).
Proof.
  intros [f s]. cbn [fst snd]. destruct s as [h v|arr|g']; cbn [ufrees].
  - apply flat_map_nil_all. intros gc _. reflexivity.
  - apply flat_map_nil_all. intros gc _. reflexivity.
  - unfold iunions.
    pose proof (flat_map_select (Z * hval) nat
                  (fun cv : Z * hval => if fst cv =? f_id f then owned_val owned (snd cv) else [])
                  g' unions 0%nat (Nat.le_0_l g')) as Hsel.
    rewrite Nat.sub_0_r in Hsel. exact Hsel.
Qed.

Lemma contrib_col_aux : forall c g cv fs ss,
  NoDup (map f_id fs) -> (forall f, In f fs -> field_ok (md_n_oneofs md) f = true) ->
  hslots_ok (hwt E true) c (length unions) fs ss = true ->
  flat_map (fun fsp => contrib fsp (g, cv)) (combine fs ss) =
  if existsb (fun f => (f_id f =? fst cv) && in_group f g) fs then owned_val owned (snd cv) else [].
Proof.
  intros c g cv fs. induction fs as [|f fs IHfs]; intros ss ND FO H; destruct ss as [|s ss]; try discriminate H;
    [reflexivity|].
  rewrite hslots_ok_cons in H. apply andb_true_iff in H. destruct H as [H1 H2].
  cbn [map] in ND. inversion ND as [|x l Hnin ND']; subst.
  assert (IHt := IHfs ss ND' (fun f0 Hf0 => FO f0 (or_intror Hf0)) H2).
  cbn [combine flat_map existsb]. rewrite IHt. clear IHt.
  pose proof (FO f (or_introl eq_refl)) as Ff.
  assert (Hhead : contrib (f, s) (g, cv) =
                  if (f_id f =? fst cv) && in_group f g then owned_val owned (snd cv) else []).
  { unfold contrib. cbn [fst snd]. destruct s as [h v|arr|g'].
    - cbn [hslot_ok] in H1. rewrite !andb_true_iff in H1. destruct H1 as [[[_ Hq] _] _].
      unfold in_group. destruct (f_quant f); try discriminate Hq; rewrite andb_false_r; reflexivity.
    - cbn [hslot_ok] in H1. apply andb_true_iff in H1. destruct H1 as [Hl _].
      assert (El : f_label f = LRepeated) by (destruct (f_label f); try discriminate Hl; reflexivity).
      destruct (field_ok_repeated _ _ Ff El) as [Eq _]. unfold in_group. rewrite Eq, andb_false_r. reflexivity.
    - cbn [hslot_ok] in H1. rewrite !andb_true_iff in H1. destruct H1 as [[_ Hq] _].
      unfold in_group. destruct (f_quant f) as [| |g''|]; try discriminate Hq. apply Nat.eqb_eq in Hq. subst g''.
      rewrite (Z.eqb_sym (fst cv) (f_id f)).
      destruct (Nat.eqb g g'); [|rewrite andb_false_r; reflexivity]. rewrite andb_true_r. reflexivity. }
  rewrite Hhead. destruct ((f_id f =? fst cv) && in_group f g) eqn:Eh; cbn [orb app]; [|reflexivity].
  apply andb_true_iff in Eh. destruct Eh as [Eid _]. apply Z.eqb_eq in Eid.
  replace (existsb (fun f0 : field => (f_id f0 =? fst cv) && in_group f0 g) fs) with false; [apply app_nil_r|].
  symmetry. apply not_true_is_false. intros Hex. apply existsb_exists in Hex. destruct Hex as (f2 & Hin2 & H2').
  apply andb_true_iff in H2'. destruct H2' as [Eid2 _]. apply Z.eqb_eq in Eid2.
  apply Hnin. rewrite Eid, <- Eid2. apply in_map. exact Hin2.
Qed.

Lemma contrib_col : forall c ss gc,
  hslots_ok (hwt E true) c (length unions) (md_fields md) ss = true -> In gc iunions ->
  flat_map (fun fsp => contrib fsp gc) (combine (md_fields md) ss) = owned_val owned (snd (snd gc)).
Proof.
  intros c ss [g cv] H Hin. cbn [snd]. unfold iunions in Hin.
  destruct (in_combine_seq _ unions 0%nat g cv Hin) as (i & -> & Hi). cbn [Nat.add].
  rewrite (contrib_col_aux c i cv (md_fields md) ss).
  - pose proof (hunions_ok_nth _ _ _ 0%nat i cv HU Hi) as Hu. cbn [Nat.add] in Hu. unfold hunion_ok in Hu.
    destruct (owns_nothing (snd cv)) eqn:Eo.
    + rewrite (owns_nothing_owned owned _ Eo). clear Hu.
      destruct (existsb (fun f : field => (f_id f =? fst cv) && in_group f i) (md_fields md)); reflexivity.
    + cbn [andb orb] in Hu. apply existsb_exists in Hu. destruct Hu as (f' & Hin' & Hf').
      rewrite !andb_true_iff in Hf'. destruct Hf' as [[[Hid' Hg'] _] _].
      replace (existsb (fun f : field => (f_id f =? fst cv) && in_group f i) (md_fields md)) with true; [reflexivity|].
      symmetry. apply existsb_exists. exists f'. split; [exact Hin'|]. rewrite Hid', Hg'. reflexivity.
  - exact (env_field_ids_NoDup E EO d md Emd).
  - intros f Hf. exact (env_field_ok E EO d md f Emd Hf).
  - exact H.
Qed.

Lemma frees_count : forall c ss,
  hslots_ok (hwt E true) c (length unions) (md_fields md) ss = true ->
  Permutation (flat_map frees (combine (md_fields md) ss))
              (flat_map (owned_slot owned) ss ++ flat_map (fun cv : Z * hval => owned_val owned (snd cv)) unions).
Proof.
  intros c ss H. unfold frees.
  eapply Permutation_trans;
    [apply (flat_map_app_perm _ _ (fun fsp : field * hslot => owned_slot owned (snd fsp))
                                  (fun fsp : field * hslot => ufrees (fst fsp) (snd fsp)))|].
  rewrite (flat_map_combine_snd field hslot nat (owned_slot owned)) by (eapply hslots_ok_length; exact H).
  apply Permutation_app_head.
  rewrite (flat_map_ext_in _ _ (fun fsp : field * hslot => ufrees (fst fsp) (snd fsp))
                               (fun fsp => flat_map (fun gc => contrib fsp gc) iunions))
    by (intros fsp _; symmetry; apply contrib_row).
  eapply Permutation_trans; [apply flat_map_swap|].
  rewrite (flat_map_ext_in _ _ (fun gc => flat_map (fun fsp => contrib fsp gc) (combine (md_fields md) ss))
                               (fun gc : nat * (Z * hval) => owned_val owned (snd (snd gc))))
    by (intros gc Hgc; apply (contrib_col c); assumption).
  unfold iunions.
  rewrite (flat_map_combine_snd nat (Z * hval) nat (fun cv : Z * hval => owned_val owned (snd cv)))
    by (rewrite seq_length; reflexivity).
  apply Permutation_refl.
Qed.

End OneMsg.

(* ---------- the whole message *)
Lemma free_ok_P : forall m, freeP m.
Proof.
  apply hmsg_ind2. intros id d slots unions utab unk IHS IHU c R Hw Hd.
  rewrite hwt_eq in Hw. rewrite hdef_ok_eq in Hd. rewrite h_free_eq.
  destruct (nth_error E d) as [md|] eqn:Emd; [|discriminate Hw].
  rewrite !andb_true_iff in Hw. destruct Hw as [[[Hs Hn] Hu] _].
  rewrite !andb_true_iff in Hd. destruct Hd as [[Hds Hdu] Hdd].
  pose proof (frees_count d md Emd unions Hu c slots Hs) as Hcount.
  rewrite owned_eq.
  set (T := opt_list utab) in *. set (K := flat_map opt_list unk) in *.
  set (F := flat_map (frees unions) (combine (md_fields md) slots)) in *.
  set (SL := flat_map (owned_slot owned) slots) in *.
  set (UL := flat_map (fun cv : Z * hval => owned_val owned (snd cv)) unions) in *.
  eapply hoare_bnd.
  { eapply hoare_pre;
      [apply (free_slots_ok d md Emd unions Hu Hdd IHU Hdu c (md_fields md) slots (K ++ T ++ id :: R));
         [apply incl_refl | exact Hs | exact IHS | exact Hds]|].
    fold F. intros L HL. perm_nat. }
  intros u1. eapply hoare_bnd; [apply hoare_iterA_free_opt|].
  intros u2. eapply hoare_bnd; [apply hoare_free_opt|].
  intros u3. apply hoare_free_id.
Qed.

Theorem free_ok_def : forall c m R, hwt E c m = true -> hdef_ok E m = true ->
  hoare (fun L => Permutation L (owned m ++ R)) (h_free E m) (fun _ L' => Permutation L' R).
Proof. intros c m R. exact (free_ok_P m c R). Qed.

(* ---------- hwt implies hdef_ok *)
Definition defP (m : hmsg) : Prop := forall c, hwt E c m = true -> hdef_ok E m = true.

Lemma hcell_sub : forall f v, hcell_ok (hwt E true) f v = true -> val_all defP v -> sub_val (hdef_ok E) v = true.
Proof.
  intros f [|p|n p|[m|]] H IH; try reflexivity. cbn [sub_val]. unfold hcell_ok in H.
  destruct (f_type f); try discriminate H. apply andb_true_iff in H. destruct H as [Hw _]. exact (IH true Hw).
Qed.

Lemma helem_sub : forall f v, helem_ok (hwt E true) f v = true -> val_all defP v -> sub_val (hdef_ok E) v = true.
Proof.
  intros f [|p|n p|[m|]] H IH; try reflexivity. cbn [sub_val]. unfold helem_ok in H.
  destruct (f_type f); try discriminate H. apply andb_true_iff in H. destruct H as [Hw _]. exact (IH true Hw).
Qed.

Lemma hslots_sub : forall c n fs ss, hslots_ok (hwt E true) c n fs ss = true -> Forall (slot_all defP) ss ->
  forallb (sub_slot (hdef_ok E)) ss = true.
Proof.
  intros c n fs. induction fs as [|f fs IHfs]; intros ss H IH; destruct ss as [|s ss]; try discriminate H; [reflexivity|].
  rewrite hslots_ok_cons in H. apply andb_true_iff in H. destruct H as [H1 H2].
  inversion IH as [|s' ss' IH1 IH2]; subst. cbn [forallb]. apply andb_true_iff. split; [|apply IHfs; assumption].
  destruct s as [h v|[[a el]|]|g]; try reflexivity.
  - cbn [hslot_ok] in H1. rewrite !andb_true_iff in H1. destruct H1 as [[_ Hc] _]. exact (hcell_sub f v Hc IH1).
  - cbn [hslot_ok] in H1. rewrite !andb_true_iff in H1. destruct H1 as [_ [Hel _]].
    cbn [sub_slot slot_all] in *. rewrite forallb_forall in *. rewrite Forall_forall in IH1.
    intros v Hv. exact (helem_sub f v (Hel v Hv) (IH1 v Hv)).
Qed.

Lemma hunion_ok_def : forall d md g cv, nth_error E d = Some md ->
  hunion_ok (hwt E true) (md_fields md) g cv = true -> hunion_def_ok (md_fields md) g cv = true.
Proof.
  intros d md g cv Emd H. unfold hunion_def_ok. apply forallb_forall. intros f Hin.
  destruct ((f_id f =? fst cv) && in_group f g) eqn:Esel; [|reflexivity]. cbn [negb orb].
  apply andb_true_iff in Esel. destruct Esel as [Eid _]. apply Z.eqb_eq in Eid.
  unfold hunion_ok in H. apply orb_true_iff in H. destruct H as [H|H].
  - apply andb_true_iff in H. destruct H as [_ Hn]. unfold def_safe.
    destruct (snd cv) as [|[| |i]|n [| |i]|o]; try reflexivity; discriminate Hn.
  - apply existsb_exists in H. destruct H as (f' & Hin' & Hf'). rewrite !andb_true_iff in Hf'.
    destruct Hf' as [[[Hid' _] _] Hc']. apply Z.eqb_eq in Hid'.
    assert (f' = f) by (eapply (env_field_id_inj E EO d md); [exact Emd | exact Hin' | exact Hin | congruence]).
    subst f'. exact (hcell_ok_def_safe _ f _ Hc').
Qed.

Lemma hunion_ok_sub : forall fs g cv, hunion_ok (hwt E true) fs g cv = true -> val_all defP (snd cv) ->
  sub_val (hdef_ok E) (snd cv) = true.
Proof.
  intros fs g cv H IH. unfold hunion_ok in H. apply orb_true_iff in H. destruct H as [H|H].
  - apply andb_true_iff in H. destruct H as [Ho _]. destruct (snd cv) as [|p|n p|[m|]]; try reflexivity. discriminate Ho.
  - apply existsb_exists in H. destruct H as (f' & _ & Hf'). rewrite !andb_true_iff in Hf'.
    destruct Hf' as [_ Hc']. exact (hcell_sub f' _ Hc' IH).
Qed.

Lemma hwt_hdef_P : forall m, defP m.
Proof.
  apply hmsg_ind2. intros id d slots unions utab unk IHS IHU c Hw.
  rewrite hwt_eq in Hw. rewrite hdef_ok_eq.
  destruct (nth_error E d) as [md|] eqn:Emd; [|reflexivity].
  rewrite !andb_true_iff in Hw. destruct Hw as [[[Hs _] Hu] _].
  rewrite !andb_true_iff. split; [split|].
  - exact (hslots_sub _ _ _ _ Hs IHS).
  - clear Hs. revert Hu IHU. generalize 0%nat. induction unions as [|cv t IH]; intros g Hu IHU; [reflexivity|].
    cbn [hunions_ok] in Hu. apply andb_true_iff in Hu. destruct Hu as [Hu1 Hu2].
    inversion IHU as [|cv' t' IH1 IH2]; subst. cbn [forallb]. apply andb_true_iff. split.
    + exact (hunion_ok_sub _ _ _ Hu1 IH1).
    + exact (IH (S g) Hu2 IH2).
  - clear Hs IHU. revert Hu. generalize 0%nat. induction unions as [|cv t IH]; intros g Hu; [reflexivity|].
    cbn [hunions_ok] in Hu. apply andb_true_iff in Hu. destruct Hu as [Hu1 Hu2].
    cbn [hunions_def_ok]. apply andb_true_iff. split.
    + exact (hunion_ok_def d md g cv Emd Hu1).
    + exact (IH (S g) Hu2).
Qed.

Lemma hwt_hdef : forall c m, hwt E c m = true -> hdef_ok E m = true.
Proof. intros c m. exact (hwt_hdef_P m c). Qed.

End Free.

(* ====================================================================== statement *)

(* protobuf_c_message_free_unpacked frees exactly what the message owns *)
Theorem free_ok : forall (E : env), env_ok E = true -> spec_free E.
Proof.
  intros E EO c m R Hw. exact (free_ok_def E EO c m R Hw (hwt_hdef E EO c m Hw)).
Qed.

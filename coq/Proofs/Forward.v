(* C09, forward compatibility: data produced under a newer version of a schema, parsed and re-serialised by a
   program built against an older version (the same messages with some fields removed), still reads back
   unchanged under the newer version.

   [forward_all]: for every canonical message m of the newer schema E, with b = pack_msg E m,
     A. the older parser reads b as the projection [proj E keep m] (OlderProj.v): the slots of the fields it
        knows, the records of the others retained as unknown fields, in arrival order, byte for byte;
     B. the older serialiser writes for it bytes b' of the same length (known fields first, then the retained
        records, then m's own unknown fields);
     C. the newer parser reads b' as m.
   By induction on the message tree ([msg_ind2]); the step is OlderMsg.v / OlderMsg2.v.
   [forward_compatible] is the statement with the projection and b' existentially quantified. *)
From Coq Require Import ZArith List Bool Lia ZifyBool.
From PBC Require Import Base.CInt Base.Bits Gen.LeafC Spec.Wire
     Impl.Desc Impl.Mem Impl.Enc Impl.Pack Impl.WF Impl.Unpack Impl.Canon Impl.Older
     Proofs.SizePack Proofs.ScanRec Proofs.ScanRecs Proofs.CellRT2 Proofs.FieldRT Proofs.FieldPkg Proofs.FieldPkg2 Proofs.MsgInd
     Proofs.MsgRT Proofs.MsgRT2 Proofs.MsgRT3 Proofs.MsgRT4
     Proofs.OlderEnv Proofs.OlderQuads Proofs.OlderField Proofs.OlderProj Proofs.OlderMsg Proofs.OlderMsg2.
Import ListNotations.
Local Open Scope Z_scope.

Ltac Zify.zify_post_hook ::= Z.div_mod_to_equations.

Section Fwd.
Variable E : env.
Variable keep : nat -> field -> bool.
Hypothesis EO : env_ok E = true.

Definition fc_stmt (m : msg) : Prop :=
  canon_msg E m = true ->
  forall fuel b, pack_msg E m = Ok b -> zlen b <= max_input -> (length b < fuel)%nat ->
  exists b', pack_msg (older keep E) (proj E keep m) = Ok b' /\ length b' = length b /\
    unpack (older keep E) fuel (m_desc m) b = Ok (proj E keep m) /\
    unpack E fuel (m_desc m) b' = Ok m /\
    (forall x, In x b -> 0 <= x < 256) /\ (forall x, In x b' -> 0 <= x < 256) /\
    canon_msg (older keep E) (proj E keep m) = true.

Theorem forward_all : forall m, fc_stmt m.
Proof.
  apply (msg_ind2 fc_stmt (fun v => forall m', v = VMsg (Some m') -> fc_stmt m')).
  - intros w m' H. discriminate H.
  - intros p m' H. discriminate H.
  - intros n p m' H. discriminate H.
  - intros m' H. discriminate H.
  - intros m IH m' H. inversion H; subst m'. exact IH.
  - intros d slots um unk HS HU C fuel b Hpk Hlen Hfuel.
    destruct fuel as [|k]; [lia|].
    destruct (roundtrip_canonical E EO (Msg d slots um unk) C (S k) b Hpk Hlen Hfuel) as [_ HBb].
    assert (SUB : forall v, (forall m', v = VMsg (Some m') -> fc_stmt m') ->
                  forall m', v = VMsg (Some m') ->
                    sub_tr E (older keep E) (unpack E k) (unpack (older keep E) k) (proj E keep)
                           (Z.min max_input (Z.of_nat k)) m').
    { intros v Q m' Hv Cm' b0 Hb0 Hlt.
      destruct (Q m' Hv Cm' k b0 Hb0 ltac:(unfold zlen in *; lia) ltac:(unfold zlen in *; lia))
        as (b0' & B1 & B2 & B3 & B4 & B5 & B6 & B7).
      exists b0'. repeat split; try assumption; try (apply B5; assumption); try (apply B6; assumption). apply proj_desc. }
    assert (HS' : Forall (slot_all (fun v => forall m', v = VMsg (Some m') ->
                    sub_tr E (older keep E) (unpack E k) (unpack (older keep E) k) (proj E keep)
                           (Z.min max_input (Z.of_nat k)) m')) slots).
    { rewrite Forall_forall in *. intros s Hs. specialize (HS s Hs). destruct s as [h v|n c [l|]|g]; cbn [slot_all] in *.
      - apply SUB. exact HS.
      - rewrite Forall_forall in *. intros v Hv. apply SUB. exact (HS v Hv).
      - exact I.
      - exact I. }
    assert (HU' : Forall (fun cv : Z * sval => forall m', snd cv = VMsg (Some m') ->
                    sub_tr E (older keep E) (unpack E k) (unpack (older keep E) k) (proj E keep)
                           (Z.min max_input (Z.of_nat k)) m') um).
    { rewrite Forall_forall in *. intros cv Hcv. apply SUB. exact (HU cv Hcv). }
    cbn [canon_msg] in C. cbn [m_desc].
    destruct (nth_error E d) as [md|] eqn:Ed; [|discriminate C].
    rewrite !andb_true_iff in C. destruct C as [[[Cn Cs] Cu] Ck]. apply Nat.eqb_eq in Cn.
    cbn [pack_msg] in Hpk. rewrite Ed in Hpk.
    destruct (pk_fields (pack_msg E) um (md_fields md) slots) as [a|e] eqn:Ea; [|discriminate Hpk].
    cbn [bind] in Hpk. inversion Hpk; subst b; clear Hpk.
    assert (Hza : zlen a <= Z.min max_input (Z.of_nat k)).
    { rewrite zlen_app in Hlen. rewrite app_length in Hfuel.
      pose proof (zlen_nonneg _ (concat (map pk_unknown unk))). unfold zlen in *. lia. }
    destruct (build_items E keep EO k d md Ed um (md_fields md) slots [] a eq_refl Cs HS' HU' Ea Hza)
      as (its & I1 & I2 & I3 & I4 & I5 & I6 & I7 & I8 & I9 & I10).
    cbn [length Nat.add filter] in I4, I7.
    assert (Hab : a = bytesA its) by exact I3.
    assert (Hl : zlen (bytesA its ++ U unk) <= max_input) by (rewrite <- Hab; exact Hlen).
    pose proof (older_parses E keep EO k d md Ed um unk its I1 I4 I5 I6 I7 Cn Cu Ck Hl) as PA.
    pose proof (newer_parses E keep EO k d md Ed um unk its I1 I4 I5 I6 I7 Cn Cu Ck Hl) as PC.
    pose proof (bytesB_length E keep EO k d md Ed um unk its I1 I4 I5 I6 I7 Cn) as PL.
    pose proof (bytesB_range E keep EO k d md Ed um unk its I1 I4 I5 I6 Ck) as PR.
    assert (Hproj : proj E keep (Msg d slots um unk) =
                    Msg d (map q_s (map t_A (filter t_k its)))
                        (map (punion (proj E keep) (filter (keep d) (md_fields md))) um) (dufs its ++ unk)).
    { cbn [proj]. rewrite Ed. f_equal.
      - rewrite (qsA_slots E keep d its I6), I1, I2. reflexivity.
      - f_equal. rewrite I9. unfold dufs, dufs_of. rewrite map_map. reflexivity. }
    exists (bytesB unk its).
    split.
    { rewrite Hproj. cbn [pack_msg]. rewrite (older_nth_some keep E d md Ed).
      rewrite drop_fields_fields.
      rewrite (qsA_slots E keep d its I6), I1, I2. rewrite I8. cbn [bind]. reflexivity. }
    split; [rewrite PL, <- Hab; reflexivity|].
    split; [rewrite Hproj, Hab; exact PA|].
    split; [rewrite PC, I2; reflexivity|].
    split; [exact HBb|]. split; [exact PR|].
    rewrite Hproj. cbn [canon_msg]. rewrite (older_nth_some keep E d md Ed).
    rewrite drop_fields_fields, drop_fields_oneofs, map_length, Cn, Nat.eqb_refl.
    rewrite (qsA_slots E keep d its I6), I1, I2, I10.
    rewrite (canon_unions_proj (length E) md (env_desc E EO d md Ed) (keep d) (proj E keep) um 0%nat Cu).
    pose proof (dufs_canon E keep EO d md Ed unk its I1 I5 I6 Ck) as DC.
    rewrite drop_fields_fields in DC. rewrite DC. reflexivity.
Qed.

End Fwd.

(* ---------- C09 *)
Theorem forward_compatible : forall (E : env) (keep : nat -> field -> bool) (m : msg) (b : list Z),
  env_ok E = true -> canon_msg E m = true ->
  pack_msg E m = Ok b -> Z.of_nat (length b) <= max_input ->
  exists mo b',
    unpack_top (older keep E) (m_desc m) b = Ok mo /\
    pack_msg (older keep E) mo = Ok b' /\
    length b' = length b /\
    unpack_top E (m_desc m) b' = Ok m.
Proof.
  intros E keep m b EO C Hpk Hlen.
  destruct (forward_all E keep EO m C (S (length b)) b Hpk Hlen ltac:(lia)) as (b' & HB & HL & HA & HC & _ & _ & HK).
  exists (proj E keep m), b'. unfold unpack_top.
  split; [exact HA|]. split; [exact HB|]. split; [exact HL|]. rewrite HL. exact HC.
Qed.

(* the same with the older program's message and bytes named: the projection, and (for a message whose
   descriptor is in the environment) known fields, then the retained records, then the own unknown fields *)
Theorem forward_compatible_proj : forall (E : env) (keep : nat -> field -> bool) (m : msg) (b : list Z),
  env_ok E = true -> canon_msg E m = true ->
  pack_msg E m = Ok b -> Z.of_nat (length b) <= max_input ->
  env_ok (older keep E) = true /\
  unpack_top (older keep E) (m_desc m) b = Ok (proj E keep m) /\
  canon_msg (older keep E) (proj E keep m) = true /\
  exists b', pack_msg (older keep E) (proj E keep m) = Ok b' /\ length b' = length b /\
             unpack_top E (m_desc m) b' = Ok m.
Proof.
  intros E keep m b EO C Hpk Hlen.
  destruct (forward_all E keep EO m C (S (length b)) b Hpk Hlen ltac:(lia)) as (b' & HB & HL & HA & HC & _ & _ & HK).
  split; [apply older_env_ok; exact EO|]. split; [exact HA|]. split; [exact HK|].
  exists b'. split; [exact HB|]. split; [exact HL|]. unfold unpack_top. rewrite HL. exact HC.
Qed.

(* ---------- non-vacuity: Examples.ex_env / ex_msg with four of the eight fields removed (a string, a packed
   repeated field, the selected oneof member's sibling, a proto3 double).  The hypotheses of the theorem hold, the
   older program's bytes differ from the original ones, and the older program's message is the projection. *)
From PBC Require Import Proofs.Examples.

Definition ex_keep (d : nat) (f : field) : bool :=
  negb ((f_id f =? 2) || (f_id f =? 3) || (f_id f =? 6) || (f_id f =? 300)).

Example forward_ex :
  exists b mo b',
    env_ok ex_env = true /\ canon_msg ex_env ex_msg = true /\
    pack_msg ex_env ex_msg = Ok b /\ Z.of_nat (length b) <= max_input /\
    unpack_top (older ex_keep ex_env) 0 b = Ok mo /\ mo = proj ex_env ex_keep ex_msg /\
    length (m_unk mo) = 2%nat /\
    pack_msg (older ex_keep ex_env) mo = Ok b' /\ b' <> b /\ length b' = length b /\
    unpack_top ex_env 0 b' = Ok ex_msg.
Proof.
  do 3 eexists.
  split; [vm_compute; reflexivity|]. split; [vm_compute; reflexivity|].
  split; [vm_compute; reflexivity|]. split; [vm_compute; discriminate|].
  split; [vm_compute; reflexivity|]. split; [vm_compute; reflexivity|].
  split; [reflexivity|]. split; [vm_compute; reflexivity|].
  split; [intros H; discriminate H|]. split; [reflexivity|]. vm_compute. reflexivity.
Qed.

(* shared conversions between OCaml values and the extracted Coq types *)
open BinNums
open Datatypes

(* ---------- Z conversions *)
let rec pos_of_int (n : int) : positive =
  if n = 1 then Coq_xH
  else if n land 1 = 0 then Coq_xO (pos_of_int (n lsr 1))
  else Coq_xI (pos_of_int (n lsr 1))
let z_of_int (n : int) : coq_Z =
  if n = 0 then Z0 else if n > 0 then Zpos (pos_of_int n) else Zneg (pos_of_int (-n))
let rec int_of_pos (p : positive) : int =
  match p with Coq_xH -> 1 | Coq_xO q -> 2 * int_of_pos q | Coq_xI q -> 2 * int_of_pos q + 1
let int_of_z (z : coq_Z) : int =
  match z with Z0 -> 0 | Zpos p -> int_of_pos p | Zneg p -> - (int_of_pos p)
let rec nat_of_int (n : int) : nat = if n <= 0 then O else S (nat_of_int (n - 1))
let rec int_of_nat (n : nat) : int = match n with O -> 0 | S k -> 1 + int_of_nat k

(* arbitrary-size non-negative Z from hex digits (most significant first) *)
let hexval c =
  match c with
  | '0'..'9' -> Char.code c - 48
  | 'a'..'f' -> Char.code c - 87
  | 'A'..'F' -> Char.code c - 55
  | _ -> failwith "bad hex digit"
let z_of_hex (s : string) : coq_Z =
  (* build bits from least significant *)
  let bits = ref [] in   (* most significant first *)
  String.iter (fun c -> let v = hexval c in
                bits := (v land 1 = 1) :: (v land 2 = 2) :: (v land 4 = 4) :: (v land 8 = 8) :: !bits) s;
  (* !bits now has least-significant-first order *)
  let rec build (l : bool list) : positive option =
    match l with
    | [] -> None
    | b :: t ->
      (match build t with
       | None -> if b then Some Coq_xH else None
       | Some p -> Some (if b then Coq_xI p else Coq_xO p)) in
  match build !bits with None -> Z0 | Some p -> Zpos p
let hex_of_z_width (z : coq_Z) (digits : int) : string =
  (* z non-negative *)
  let b = Bytes.make digits '0' in
  let rec bits p i acc =   (* i: bit index *)
    let set () = let d = digits - 1 - (i / 4) in
      if d >= 0 then begin
        let cur = hexval (Bytes.get b d) in
        let nv = cur lor (1 lsl (i mod 4)) in
        Bytes.set b d "0123456789abcdef".[nv] end in
    match p with
    | Coq_xH -> set ()
    | Coq_xO q -> bits q (i + 1) acc
    | Coq_xI q -> set (); bits q (i + 1) acc in
  (match z with Z0 -> () | Zpos p -> bits p 0 () | Zneg _ -> failwith "negative word");
  Bytes.to_string b

let bytes_of_hex (s : string) : coq_Z list =
  if s = "-" then [] else begin
    let n = String.length s / 2 in
    let rec go i acc = if i < 0 then acc
      else go (i - 1) (z_of_int (hexval s.[2*i] * 16 + hexval s.[2*i+1]) :: acc) in
    go (n - 1) [] end
let hex_of_bytes (l : coq_Z list) : string =
  match l with
  | [] -> "-"
  | _ ->
    let buf = Buffer.create 64 in
    List.iter (fun z -> Buffer.add_string buf (Printf.sprintf "%02x" ((int_of_z z) land 255))) l;
    Buffer.contents buf


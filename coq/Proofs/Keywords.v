(* C15 (one facet): the struct member protoc-gen-c derives from a field name is never a C99 keyword
   nor a C++98 keyword, for every field name.  The keyword list is regenerated from c_helpers.cc. *)
From Coq Require Import ZArith List Bool Lia.
From PBC Require Import Base.CInt GenModel.Gen Gen.Keywords Proofs.SortLemmas.
Import ListNotations.
Local Open Scope Z_scope.

(* FieldName (c_helpers.cc) *)
Definition field_member_name (name : str) : str :=
  let l := str_to_lower name in
  if existsb (str_eqb l) generator_keywords then l ++ [95] else l.

Definition w (l : list Z) : str := l.
(* ISO C99 6.4.1 keywords that a lower-cased identifier can spell (the three that start with an
   underscore followed by a capital cannot be the result of ToLower) *)
Definition c99_keywords : list str :=
  [ [97;117;116;111]; [98;114;101;97;107]; [99;97;115;101]; [99;104;97;114]; [99;111;110;115;116];
    [99;111;110;116;105;110;117;101]; [100;101;102;97;117;108;116]; [100;111]; [100;111;117;98;108;101];
    [101;108;115;101]; [101;110;117;109]; [101;120;116;101;114;110]; [102;108;111;97;116]; [102;111;114];
    [103;111;116;111]; [105;102]; [105;110;108;105;110;101]; [105;110;116]; [108;111;110;103];
    [114;101;103;105;115;116;101;114]; [114;101;115;116;114;105;99;116]; [114;101;116;117;114;110];
    [115;104;111;114;116]; [115;105;103;110;101;100]; [115;105;122;101;111;102]; [115;116;97;116;105;99];
    [115;116;114;117;99;116]; [115;119;105;116;99;104]; [116;121;112;101;100;101;102]; [117;110;105;111;110];
    [117;110;115;105;103;110;101;100]; [118;111;105;100]; [118;111;108;97;116;105;108;101]; [119;104;105;108;101] ].

(* ISO C++98 2.11 keywords and alternative tokens that C99 does not already have *)
Definition cxx98_extra_keywords : list str :=
  [ [97;115;109]; [98;111;111;108]; [99;97;116;99;104]; [99;108;97;115;115]; [99;111;110;115;116;95;99;97;115;116];
    [100;101;108;101;116;101]; [100;121;110;97;109;105;99;95;99;97;115;116]; [101;120;112;108;105;99;105;116];
    [102;97;108;115;101]; [102;114;105;101;110;100]; [109;117;116;97;98;108;101]; [110;97;109;101;115;112;97;99;101];
    [110;101;119]; [111;112;101;114;97;116;111;114]; [112;114;105;118;97;116;101]; [112;114;111;116;101;99;116;101;100];
    [112;117;98;108;105;99]; [114;101;105;110;116;101;114;112;114;101;116;95;99;97;115;116];
    [115;116;97;116;105;99;95;99;97;115;116]; [116;101;109;112;108;97;116;101]; [116;104;105;115]; [116;104;114;111;119];
    [116;114;117;101]; [116;114;121]; [116;121;112;101;105;100]; [116;121;112;101;110;97;109;101]; [117;115;105;110;103];
    [118;105;114;116;117;97;108]; [119;99;104;97;114;95;116];
    [97;110;100]; [97;110;100;95;101;113]; [98;105;116;97;110;100]; [98;105;116;111;114]; [99;111;109;112;108];
    [110;111;116]; [110;111;116;95;101;113]; [111;114]; [111;114;95;101;113]; [120;111;114]; [120;111;114;95;101;113] ].

Definition reserved := c99_keywords ++ cxx98_extra_keywords.

Lemma existsb_str : forall l ks, existsb (str_eqb l) ks = true <-> In l ks.
Proof.
  intros l ks. rewrite existsb_exists. split.
  - intros (x & Hx & He). apply str_eqb_eq in He. subst. exact Hx.
  - intros H. exists l. split; [exact H | apply str_eqb_eq; reflexivity].
Qed.

(* checked against the regenerated list: every reserved word is in kKeywordList, none ends in '_' *)
Lemma reserved_covered : forallb (fun k => existsb (str_eqb k) generator_keywords) reserved = true.
Proof. vm_compute. reflexivity. Qed.
Lemma reserved_no_trailing_underscore : forallb (fun k => negb (last k 0 =? 95)) reserved = true.
Proof. vm_compute. reflexivity. Qed.
Lemma shape_unchanged : field_name_shape_unchanged = true.
Proof. vm_compute. reflexivity. Qed.

Theorem member_never_reserved : forall name, ~ In (field_member_name name) reserved.
Proof.
  intros name H. unfold field_member_name in H. set (l := str_to_lower name) in *.
  destruct (existsb (str_eqb l) generator_keywords) eqn:E.
  - pose proof reserved_no_trailing_underscore as Hn. rewrite forallb_forall in Hn. specialize (Hn _ H).
    rewrite last_last in Hn. discriminate Hn.
  - pose proof reserved_covered as Hc. rewrite forallb_forall in Hc. specialize (Hc _ H). congruence.
Qed.

(* protobuf_c_message_pack and its helpers (protobuf-c.c 756-1523), as the
   list of bytes written, in order, from the start of the caller's buffer. *)
From Coq Require Import ZArith List Bool.
From PBC Require Import Base.CInt Gen.LeafC Impl.Desc Impl.Mem Impl.Enc.
Import ListNotations.
Local Open Scope Z_scope.

Section Pack.
Variable E : env.

(* required_field_pack *)
Definition pk_required (rec : msg -> res (list Z)) (f : field) (v : sval) : res (list Z) :=
  let key := e_tag (f_id f) (wire_type_of (f_type f)) in
  match f_type f with
  | TString =>
      do p <- as_str v;
      do s <- str_bytes f p;
      match s with
      | None => Ok (key ++ [0])                             (* string_pack(NULL) *)
      | Some b => Ok (key ++ e_uint32 (u32 (zlen b)) ++ b)
      end
  | TBytes =>
      do lp <- as_bytes v;
      do b <- data_bytes f (fst lp) (snd lp);
      Ok (key ++ e_uint32 (u32 (fst lp)) ++ b)
  | TMessage =>
      match v with
      | VMsg (Some sub) =>
          do b <- rec sub;
          Ok (key ++ e_uint32 (u32 (zlen b)) ++ b)
      | VMsg None | VWord 0 => Ok (key ++ [0])              (* prefixed_message_pack(NULL) *)
      | _ => Err EConfused
      end
  | t =>
      do w <- as_word v;
      do b <- e_scalar t w;
      Ok (key ++ b)
  end.

Definition pk_oneof rec (f : field) (case : Z) (v : sval) : res (list Z) :=
  if negb (case =? f_id f) then Ok []
  else do a <- ptr_absent f v;
       if a then Ok [] else pk_required rec f v.

Definition pk_optional rec (f : field) (has : Z) (v : sval) : res (list Z) :=
  match f_type f with
  | TMessage | TString =>
      do a <- ptr_absent f v;
      if a then Ok [] else pk_required rec f v
  | _ => if has =? 0 then Ok [] else pk_required rec f v
  end.

Definition pk_unlabeled rec (f : field) (v : sval) : res (list Z) :=
  do z <- zeroish f v;
  if z then Ok [] else pk_required rec f v.

(* one element of a packed payload *)
Definition pk_packed_elem (f : field) (v : sval) : res (list Z) :=
  match f_type f with
  | TString | TBytes | TMessage => Err EAssert            (* default: PROTOBUF_C__ASSERT_NOT_REACHED *)
  | t => do w <- as_word v; e_scalar t w
  end.

Definition pk_repeated rec (f : field) (count : Z) (arr : option (list sval)) : res (list Z) :=
  if f_packed f then
    if count =? 0 then Ok []
    else
      let key := e_tag (f_id f) WT_LEN in
      let min_length := u32 (get_type_min_size (type_code (f_type f)) * u32 count) in
      let length_size_min := uint32_size min_length in
      match arr with
      | None => Err ENull
      | Some l =>
          do payload <- concatM_n (pk_packed_elem f) l (Z.to_nat count);
          let payload_len := u32 (zlen payload) in
          let actual_length_size := uint32_size payload_len in
          if (length_size_min =? actual_length_size) || (actual_length_size =? length_size_min + 1)
          then Ok (key ++ e_uint32 payload_len ++ payload)
          else Err EAssert
      end
  else
    if count =? 0 then Ok []
    else match arr with
         | None => Err ENull
         | Some l => concatM_n (pk_required rec f) l (Z.to_nat count)
         end.

Definition pk_unknown (u : ufield) : list Z :=
  e_tag (u_tag u) (u_wt u) ++ u_data u.

Definition pk_field rec (unions : list (Z * sval)) (f : field) (s : slot) : res (list Z) :=
  match f_label f with
  | LRequired => match s with SOne _ v => pk_required rec f v | _ => Err EDesc end
  | LOptional | LNone =>
      if f_oneof f then
        match s with
        | SUnion g => with_nth (fun cv : Z * sval => pk_oneof rec f (fst cv) (snd cv)) (Err EDesc) unions g
        | _ => Err EDesc
        end
      else match s with
           | SOne has v =>
               match f_label f with
               | LOptional => pk_optional rec f has v
               | _ => pk_unlabeled rec f v
               end
           | _ => Err EDesc
           end
  | LRepeated => match s with SRep n _ arr => pk_repeated rec f n arr | _ => Err EDesc end
  end.

Definition pk_fields rec unions : list field -> list slot -> res (list Z) :=
  fix go (fs : list field) (ss : list slot) {struct ss} : res (list Z) :=
    match fs, ss with
    | [], _ => Ok []
    | f :: fs', s :: ss' =>
        do a <- pk_field rec unions f s;
        do b <- go fs' ss';
        Ok (a ++ b)
    | _ :: _, [] => Err EDesc
    end.

Fixpoint pack_msg (m : msg) : res (list Z) :=
  match m with
  | Msg d slots unions unk =>
      match nth_error E d with
      | None => Err EDesc
      | Some md =>
          do a <- pk_fields pack_msg unions (md_fields md) slots;
          Ok (a ++ concat (map pk_unknown unk))
      end
  end.

End Pack.

(* In-memory messages as the runtime sees them: raw quantifier words, pointer
   states (NULL / the static default / other memory), arrays with a capacity,
   one shared cell per oneof union, unknown fields.  Ill-formed states are
   representable on purpose. *)
From Coq Require Import ZArith List Bool.
From PBC Require Import Base.CInt Impl.Desc.
Import ListNotations.
Local Open Scope Z_scope.

(* outcomes other than a normal result *)
Inductive err :=
| EFail       (* the C function reports failure (NULL / FALSE) *)
| ENull       (* dereference of a null pointer *)
| EOob        (* access outside an object *)
| EAssert     (* an assert() fires *)
| EConfused   (* a union cell read at a type it does not hold *)
| EFuel       (* model ran out of fuel (never a C behaviour) *)
| EUb         (* other undefined behaviour *)
| EDesc.      (* descriptor / layout mismatch: message does not fit its descriptor *)

Inductive res (A : Type) := Ok (a : A) | Err (e : err).
Arguments Ok {A}. Arguments Err {A}.

Definition bind {A B} (r : res A) (f : A -> res B) : res B :=
  match r with Ok a => f a | Err e => Err e end.
Notation "'do' x <- r ; k" := (bind r (fun x => k)) (at level 200, x pattern, r at level 100, k at level 200).

Inductive ptr (A : Type) := PNull | PDef | PHeap (a : A).
Arguments PNull {A}. Arguments PDef {A}. Arguments PHeap {A}.

Inductive slot_ (V : Type) :=
| SOne (has : Z) (v : V)                          (* singular member outside any oneof *)
| SRep (n : Z) (cap : Z) (arr : option (list V))  (* n_<name>, allocation size in elements, elements written so far *)
| SUnion (g : nat).                               (* member of oneof group g; storage is unions[g] *)
Arguments SOne {V}. Arguments SRep {V}. Arguments SUnion {V}.

Record ufield := { u_tag : Z; u_wt : Z; u_data : list Z }.

Inductive sval :=
| VWord (w : Z)                          (* 4- or 8-byte scalar cell, raw unsigned bits *)
| VStr (p : ptr (list Z))                (* char *: the bytes before the NUL *)
| VBytes (len : Z) (p : ptr (list Z))    (* ProtobufCBinaryData *)
| VMsg (p : option msg)                  (* ProtobufCMessage * *)
with msg :=
| Msg (d : nat) (slots : list (slot_ sval)) (unions : list (Z * sval)) (unk : list ufield).

Definition slot := slot_ sval.

Definition m_desc (m : msg) := match m with Msg d _ _ _ => d end.
Definition m_slots (m : msg) := match m with Msg _ s _ _ => s end.
Definition m_unions (m : msg) := match m with Msg _ _ u _ => u end.
Definition m_unk (m : msg) := match m with Msg _ _ _ k => k end.

(* Reading a cell at a C type.  A zeroed cell reads as zero at every type. *)
Definition as_word (v : sval) : res Z :=
  match v with VWord w => Ok w | _ => Err EConfused end.
Definition as_str (v : sval) : res (ptr (list Z)) :=
  match v with VStr p => Ok p | VWord 0 => Ok PNull | _ => Err EConfused end.
Definition as_bytes (v : sval) : res (Z * ptr (list Z)) :=
  match v with VBytes n p => Ok (n, p) | VWord 0 => Ok (0, PNull) | _ => Err EConfused end.
Definition as_msg (v : sval) : res (option msg) :=
  match v with VMsg p => Ok p | VWord 0 => Ok None | _ => Err EConfused end.

(* Iterators take their function parameter outside the fix, so that a
   recursive function over [msg] may be passed to them (guard condition). *)
Definition mapM {A B} (f : A -> res B) : list A -> res (list B) :=
  fix go (l : list A) : res (list B) :=
    match l with
    | [] => Ok []
    | x :: t => do y <- f x; do ys <- go t; Ok (y :: ys)
    end.

Definition sumM {A} (f : A -> res Z) : list A -> res Z :=
  fix go (l : list A) : res Z :=
    match l with
    | [] => Ok 0
    | x :: t => do y <- f x; do ys <- go t; Ok (y + ys)
    end.

Definition concatM {A B} (f : A -> res (list B)) : list A -> res (list B) :=
  fix go (l : list A) : res (list B) :=
    match l with
    | [] => Ok []
    | x :: t => do y <- f x; do ys <- go t; Ok (y ++ ys)
    end.

(* the continuation is applied to a pattern variable *)
Definition with_nth {A B} (k : A -> B) (d : B) : list A -> nat -> B :=
  fix go (l : list A) (n : nat) : B :=
    match l, n with
    | x :: _, O => k x
    | _ :: t, S n' => go t n'
    | [], _ => d
    end.

(* the first k elements; reading past the end is an error *)
Definition sumM_n {A} (f : A -> res Z) : list A -> nat -> res Z :=
  fix go (l : list A) (k : nat) {struct l} : res Z :=
    match k, l with
    | O, _ => Ok 0
    | S k', x :: t => do y <- f x; do ys <- go t k'; Ok (y + ys)
    | S _, [] => Err EOob
    end.

Definition concatM_n {A B} (f : A -> res (list B)) : list A -> nat -> res (list B) :=
  fix go (l : list A) (k : nat) {struct l} : res (list B) :=
    match k, l with
    | O, _ => Ok []
    | S k', x :: t => do y <- f x; do ys <- go t k'; Ok (y ++ ys)
    | S _, [] => Err EOob
    end.

Definition zlen {A} (l : list A) : Z := Z.of_nat (length l).

Fixpoint set_nth {A} (l : list A) (i : nat) (x : A) : list A :=
  match l, i with
  | [], _ => []
  | _ :: t, O => x :: t
  | y :: t, S k => y :: set_nth t k x
  end.

(* C12, generator side: what the compiled defaults and the generated initialiser hold.
   - a string / bytes default is compiled to exactly the declared bytes (CEscape, then the C compiler's
     trigraph replacement and escape processing, is the identity on byte strings);
   - integer, bool and enum defaults hold the declared value modulo the width of the C type;
   - after <MSG>__INIT every optional field is absent, every repeated field empty, every oneof unset and
     every singular cell holds the default of its descriptor entry. *)
From Coq Require Import ZArith List Bool Lia ZifyBool.
From PBC Require Import Base.CInt GenModel.Ranges GenModel.Gen.
Import ListNotations.
Local Open Scope Z_scope.

Ltac Zify.zify_post_hook ::= Z.div_mod_to_equations.

Definition is_byte (c : Z) : Prop := 0 <= c < 256.

(* one escaped byte is read back as that byte, whatever follows *)
Lemma unescape_escape_char : forall c rest, is_byte c ->
  c_unescape_from 0 0 (c_escape_char c ++ rest) = c :: c_unescape_from 0 0 rest.
Proof.
  intros c rest Hc. unfold c_escape_char.
  destruct (Z.eqb_spec c 10) as [->|H10]; [reflexivity|].
  destruct (Z.eqb_spec c 13) as [->|H13]; [reflexivity|].
  destruct (Z.eqb_spec c 9) as [->|H9]; [reflexivity|].
  destruct (Z.eqb_spec c 34) as [->|H34]; [reflexivity|].
  destruct (Z.eqb_spec c 39) as [->|H39]; [reflexivity|].
  destruct (Z.eqb_spec c 92) as [->|H92]; [reflexivity|].
  destruct (Z.eqb_spec c 63) as [->|H63]; [reflexivity|].
  destruct (is_print c) eqn:Ep.
  - cbn [app c_unescape_from]. change (0 =? 0) with true. cbv beta iota.
    destruct (Z.eqb_spec c 92); [contradiction | reflexivity].
  - (* \ooo *)
    unfold octal3. cbn [app c_unescape_from].
    change (0 =? 0) with true. change (92 =? 92) with true. cbv beta iota.
    change (1 =? 0) with false. change (1 =? 1) with true. cbv beta iota.
    set (d1 := 48 + (c / 64) mod 8). set (d2 := 48 + (c / 8) mod 8). set (d3 := 48 + c mod 8).
    assert (H1 : is_octal d1 = true) by (unfold is_octal, d1; lia).
    assert (H2 : is_octal d2 = true) by (unfold is_octal, d2; lia).
    assert (H3 : is_octal d3 = true) by (unfold is_octal, d3; lia).
    rewrite H1. change (2 =? 0) with false. change (2 =? 1) with false. cbv beta iota. rewrite H2.
    change (2 =? 2) with true. cbv beta iota.
    change (3 =? 0) with false. change (3 =? 1) with false. change (3 =? 2) with false. cbv beta iota. rewrite H3.
    f_equal. unfold d1, d2, d3. unfold is_byte in Hc. lia.
Qed.

Lemma unescape_escape : forall s, Forall is_byte s -> c_unescape_from 0 0 (c_escape s) = s.
Proof.
  induction s as [|c s IH]; intros H; [reflexivity|]. inversion H; subst.
  unfold c_escape. cbn [flat_map]. rewrite unescape_escape_char by assumption. f_equal. apply IH. assumption.
Qed.

(* a '?' is never followed by a '?' in the emitted text, so trigraph replacement changes nothing *)
Definition no_qq_head (s : str) : Prop := match s with 63 :: _ => False | _ => True end.

Lemma escape_char_shape : forall c, is_byte c ->
  (exists x, c_escape_char c = [x] /\ x <> 63) \/
  (exists x, c_escape_char c = [92; x]) \/
  (exists a b d, c_escape_char c = [92; a; b; d] /\ a <> 63 /\ b <> 63 /\ d <> 63).
Proof.
  intros c Hc. unfold c_escape_char.
  destruct (c =? 10); [right; left; eauto|]. destruct (c =? 13); [right; left; eauto|].
  destruct (c =? 9); [right; left; eauto|]. destruct (c =? 34); [right; left; eauto|].
  destruct (c =? 39); [right; left; eauto|]. destruct (c =? 92); [right; left; eauto|].
  destruct (Z.eqb_spec c 63); [right; left; eauto|].
  destruct (is_print c); [left; eauto|].
  right; right. unfold octal3. do 3 eexists. split; [reflexivity|]. unfold is_byte in Hc. repeat split; lia.
Qed.

Lemma rt_cons : forall c s, (c <> 63 \/ no_qq_head s) -> replace_trigraphs (c :: s) = c :: replace_trigraphs s.
Proof.
  intros c s H. destruct s as [|c2 [|c3 r3]]; cbn [replace_trigraphs]; try reflexivity.
  destruct (Z.eqb_spec c 63); destruct (Z.eqb_spec c2 63); cbn [andb]; try reflexivity.
  subst. destruct H as [H|H]; [contradiction | cbn in H; contradiction].
Qed.

Lemma escaped_head : forall s, Forall is_byte s -> no_qq_head (c_escape s).
Proof.
  intros s H. destruct s as [|c s]; [exact I|]. inversion H as [|? ? Hc _]; subst.
  unfold c_escape. cbn [flat_map].
  destruct (escape_char_shape c Hc) as [(x & -> & Hx) | [(x & ->) | (a & b & d & -> & _)]]; cbn [app no_qq_head]; try exact I.
  destruct x; try exact I. repeat (destruct p; try exact I). contradiction.
Qed.

Lemma trigraphs_none : forall s, Forall is_byte s -> replace_trigraphs (c_escape s) = c_escape s.
Proof.
  induction s as [|c s IH]; intros H; [reflexivity|]. inversion H as [|? ? Hc Hs]; subst.
  specialize (IH Hs). pose proof (escaped_head s Hs) as Hh. unfold c_escape in *. cbn [flat_map].
  set (rest := flat_map c_escape_char s) in *.
  destruct (escape_char_shape c Hc) as [(x & -> & Hx) | [(x & ->) | (a & b & d & -> & Ha & Hb & Hd)]]; cbn [app].
  - rewrite rt_cons by (left; exact Hx). rewrite IH. reflexivity.
  - rewrite rt_cons by (left; discriminate). rewrite rt_cons by (right; exact Hh). rewrite IH. reflexivity.
  - rewrite rt_cons by (left; discriminate). rewrite rt_cons by (left; exact Ha).
    rewrite rt_cons by (left; exact Hb). rewrite rt_cons by (left; exact Hd). rewrite IH. reflexivity.
Qed.

(* the bytes of the compiled array are the declared bytes, with or without trigraph processing *)
Theorem default_literal_exact : forall tg s, Forall is_byte s -> c_literal_bytes tg s = s.
Proof.
  intros tg s H. unfold c_literal_bytes. destruct tg; [rewrite trigraphs_none by exact H|]; apply unescape_escape; exact H.
Qed.

(* descriptor defaults of string / bytes fields carry the declared bytes and the declared length *)
Theorem field_default_bytes_exact : forall tg f fd s, Forall is_byte s -> pf_default fd = Some (PDStr s) ->
  match field_generator fd with
  | FGString => field_default tg f fd = Some (GDString s)
  | FGBytes => field_default tg f fd = Some (GDBytes (Z.of_nat (length s)) s)
  | _ => True
  end.
Proof.
  intros tg f fd s H Hd. unfold field_default. rewrite Hd.
  destruct (field_generator fd); try exact I; rewrite default_literal_exact by exact H; reflexivity.
Qed.

(* integer / bool / enum defaults: the declared value modulo the width of the C type *)
Theorem field_default_int_exact : forall tg f fd v, pf_default fd = Some (PDInt v) ->
  match field_generator fd with
  | FGPrimitive | FGEnum =>
      field_default tg f fd = Some (GDWord (match pf_type fd with
                                            | PInt64 | PSint64 | PSfixed64 | PUint64 | PFixed64 => v mod 2 ^ 64
                                            | _ => v mod 2 ^ 32
                                            end))
  | _ => True
  end.
Proof.
  intros tg f fd v Hd. unfold field_default. rewrite Hd.
  destruct (field_generator fd); try exact I; unfold scalar_default_bits; destruct (pf_type fd); reflexivity.
Qed.

(* the generated initialiser: presence words are 0, arrays NULL, unions unset, cells hold the default *)
Theorem init_presence : forall fs f fd dflt,
  let gi := field_init fs f fd dflt in
  match pf_oneof fd with
  | Some _ => gi_cell gi = GCUnion /\ gi_quant gi = None
  | None =>
      match pf_label fd with
      | PRepeated => gi_quant gi = Some 0 /\ gi_cell gi = GCRepeatedNull
      | POptional => gi_quant gi = None \/ gi_quant gi = Some 0
      | PRequired => gi_quant gi = None
      end
  end.
Proof.
  intros fs f fd dflt gi. unfold gi, field_init. destruct (pf_oneof fd); [split; reflexivity|].
  destruct (pf_label fd) eqn:El; cbn [gi_quant gi_cell].
  - destruct (optional_uses_has fd && negb (pfl_syntax f =? 3)); auto.
  - reflexivity.
  - split; [reflexivity|]. unfold field_init_cell, is_repeated. rewrite El. reflexivity.
Qed.

Theorem init_cell_is_default : forall fs f fd, is_repeated fd = false ->
  let dflt := field_default true f fd in
  let cell := field_init_cell fs f fd dflt in
  (field_generator fd = FGPrimitive ->
     cell = GCWord (match pf_default fd with Some d => scalar_default_bits fd d | None => 0 end)) /\
  (field_generator fd = FGEnum ->
     cell = GCWord (match pf_default fd with
                    | Some d => scalar_default_bits fd d
                    | None => enum_first_number fs (pf_type_name fd) mod two32     (* the first declared value *)
                    end)) /\
  (field_generator fd = FGString ->
     cell = match pf_default fd with
            | Some _ => GCStringDefault
            | None => if pfl_syntax f =? 3 then GCStringDefault (* "" *) else GCStringNull
            end) /\
  (field_generator fd = FGBytes ->
     cell = match pf_default fd with
            | Some (PDStr s) => GCBytes (Z.of_nat (length s)) true
            | _ => GCBytes 0 false
            end) /\
  (field_generator fd = FGMessage -> cell = GCMessageNull).
Proof.
  intros fs f fd Hr dflt cell. unfold cell, field_init_cell. rewrite Hr. unfold dflt, field_default.
  repeat split; intros Eg; rewrite Eg; try reflexivity.
  - destruct (pf_default fd) as [[v|b|s]|]; try reflexivity.
    destruct (pf_type fd); try reflexivity; destruct (pfl_syntax f =? 3); reflexivity.
  - destruct (pf_default fd) as [[v|b|s]|]; try reflexivity.
    destruct (pf_type fd); try reflexivity; destruct (pfl_syntax f =? 3); reflexivity.
Qed.

(* all oneof cases start as NOT_SET *)
Theorem init_oneofs_unset : forall tg fs f gi m, Forall (fun c => c = 0) (gm_oneof_case_init (gen_msg tg fs f gi m)).
Proof.
  intros tg fs f gi m. unfold gen_msg.
  destruct (assign_groups [] (sort_fields (pm_fields m))) as [groups seen].
  destruct (mk_ranges (map pf_number (sort_fields (pm_fields m)))) as [ranges n].
  cbn [gm_oneof_case_init]. induction seen; cbn; constructor; auto.
Qed.

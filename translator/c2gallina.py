#!/usr/bin/env python3
"""c2gallina: translate the first-order integer/byte "leaf" functions of
protobuf-c.c into Gallina, from clang's JSON AST.

Every arithmetic node is wrapped according to the type clang assigned to it
(promotions / usual arithmetic conversions are the compiler's, not ours).
Each function f is emitted twice:
   f     : the value it computes (tuple: return value, then in/out pointer
           parameters in declaration order)
   f_ok  : bool, true iff the same execution performs no signed overflow, no
           out-of-range shift, no out-of-bounds read, no division by zero and
           does not run out of loop fuel.
Unsupported constructs abort the translation loudly (exit 2).

usage: c2gallina.py <protobuf-c.c> <out.v> [--be] [--module-comment TEXT]
"""
import json, subprocess, sys, os, hashlib

LEAVES = """get_tag_size uint32_size int32_size zigzag32 sint32_size uint64_size zigzag64
sint64_size uint32_pack int32_pack sint32_pack uint64_pack sint64_pack
fixed32_pack fixed64_pack boolean_pack tag_pack get_type_min_size
sizeof_elt_in_repeated_array is_packable_type int_range_lookup
parse_tag_and_wiretype scan_length_prefixed_data max_b128_numbers
count_packed_elements parse_uint32 parse_int32 unzigzag32 parse_fixed_uint32
parse_uint64 unzigzag64 parse_fixed_uint64 parse_boolean scan_varint""".split()

# loop fuel (Gallina nat expressions over the function's parameters), per function
FUEL = {
    'uint64_pack': '12%nat',
    'int_range_lookup': '40%nat',
    'parse_tag_and_wiretype': '8%nat',
    'scan_length_prefixed_data': '8%nat',
    'max_b128_numbers': '(S (Z.to_nat len))',
    'parse_uint64': '(S (Z.to_nat len))',
    'parse_boolean': '(S (Z.to_nat len))',
    'scan_varint': '12%nat',
}
# pointer parameter kinds that cannot be inferred from the type alone
PARAM_KIND = {
    ('parse_tag_and_wiretype', 'wiretype_out'): 'outparam',
}
SIZEOF = {'protobuf_c_boolean': 4, 'void *': 8, 'ProtobufCBinaryData': 16, 'int': 4}

class Unsupported(Exception):
    pass

def die(msg):
    sys.stderr.write("c2gallina: UNSUPPORTED: %s\n" % msg)
    sys.exit(2)

# ---------------------------------------------------------------- types
INT_TYPES = {
    'unsigned int': ('u', 32), 'int': ('s', 32), 'unsigned long': ('u', 64), 'long': ('s', 64),
    'unsigned char': ('u', 8), 'char': ('s', 8), 'signed char': ('s', 8),
    'unsigned short': ('u', 16), 'short': ('s', 16),
    'unsigned long long': ('u', 64), 'long long': ('s', 64), '_Bool': ('u', 8),
}
TYPEDEFS = {'uint32_t': 'unsigned int', 'int32_t': 'int', 'uint64_t': 'unsigned long', 'int64_t': 'long',
            'uint8_t': 'unsigned char', 'size_t': 'unsigned long', 'protobuf_c_boolean': 'int',
            'ProtobufCType': 'unsigned int', 'ProtobufCWireType': 'unsigned int',
            'enum ProtobufCType': 'unsigned int', 'unsigned': 'unsigned int'}

def strip_q(t):
    t = t.strip()
    changed = True
    while changed:
        changed = False
        for q in ('const ', 'volatile '):
            if t.startswith(q):
                t = t[len(q):]; changed = True
        for q in (' const', ' volatile'):
            if t.endswith(q):
                t = t[:-len(q)]; changed = True
    return t.strip()

def ity(node_or_type):
    """integer type (sign, bits) of an AST node (or a type dict)"""
    t = node_or_type['type'] if 'type' in node_or_type else node_or_type
    for key in ('desugaredQualType', 'qualType'):
        if key in t:
            s = strip_q(t[key])
            s = TYPEDEFS.get(s, s)
            if s in INT_TYPES:
                return INT_TYPES[s]
            if s.startswith('enum '):
                return ('u', 32)
    return None

def is_ptr(node):
    return node['type']['qualType'].strip().endswith('*')

def rng(t):
    s, b = t
    return (0, 2**b - 1) if s == 'u' else (-2**(b-1), 2**(b-1) - 1)

def castfn(t):
    return '%s%d' % t

class Ex:
    """a translated expression: Gallina text + optional literal value"""
    def __init__(self, txt, lit=None):
        self.txt = txt; self.lit = lit
    def __str__(self):
        return self.txt

def lit(v):
    return Ex(str(v) if v >= 0 else '(%d)' % v, v)

def wrapto(t, e, src_t=None):
    """cast expression e (of source int type src_t, or unknown) to type t"""
    lo, hi = rng(t)
    if e.lit is not None:
        v = e.lit
        m = 2**t[1]
        v2 = v % m
        if t[0] == 's' and v2 >= m // 2:
            v2 -= m
        return lit(v2)
    if src_t is not None:
        slo, shi = rng(src_t)
        if lo <= slo and shi <= hi:
            return e
    return Ex('(%s %s)' % (castfn(t), e.txt))

# ---------------------------------------------------------------- translator
class Fn:
    def __init__(self, tu, node, be):
        self.tu = tu; self.node = node; self.name = node['name']; self.be = be
        self.tmp = 0
        self.params = []   # (name, kind, type)
        body = None
        for c in node.get('inner', []):
            if c['kind'] == 'ParmVarDecl':
                self.params.append(self.classify_param(c))
            elif c['kind'] == 'CompoundStmt':
                body = c
        self.body = body
        rt = node['type']['qualType'].split('(')[0].strip()
        self.ret_t = ity({'qualType': rt}) if rt != 'void' else None
        if rt != 'void' and self.ret_t is None:
            raise Unsupported('%s: return type %s' % (self.name, rt))
        self.outs = [p[0] for p in self.params if p[1] in ('outparam', 'buf')]
        self.alias = {}    # local pointer variables initialised from a pointer parameter
        self.kinds = {p[0]: p[1] for p in self.params}
        self.ptypes = {p[0]: p[2] for p in self.params}

    def classify_param(self, c):
        name = c['name']; qt = c['type']['qualType']
        k = PARAM_KIND.get((self.name, name))
        if k:
            base = strip_q(qt.rstrip('*').strip())
            return (name, k, ity({'qualType': base}))
        if not qt.strip().endswith('*'):
            t = ity(c)
            if t is None:
                raise Unsupported('%s: param %s : %s' % (self.name, name, qt))
            return (name, 'int', t)
        base = strip_q(qt.strip()[:-1])
        const = 'const' in qt
        if base == 'ProtobufCIntRange':
            return (name, 'recarr', None)
        bt = ity({'qualType': base})
        if base == 'void' or (bt == ('u', 8) and not const):
            return (name, 'buf', ('u', 8))
        if bt == ('u', 8) and const:
            return (name, 'in', ('u', 8))
        if bt is not None and not const:
            return (name, 'outparam', bt)
        raise Unsupported('%s: pointer param %s : %s' % (self.name, name, qt))

    def fresh(self, base='t'):
        self.tmp += 1
        return '%s_%d' % (base, self.tmp)

    # ---- expressions.  returns (pres, Ex).  pres: list of ('let',name,txt) | ('ok',txt)
    def expr(self, n):
        k = n['kind']
        m = getattr(self, 'e_' + k, None)
        if m is None:
            raise Unsupported('%s: expression kind %s' % (self.name, k))
        return m(n)

    def e_ParenExpr(self, n):
        return self.expr(n['inner'][0])

    def e_ConstantExpr(self, n):
        return self.expr(n['inner'][0])

    def e_IntegerLiteral(self, n):
        return [], lit(int(n['value']))

    def e_CharacterLiteral(self, n):
        return [], lit(int(n['value']))

    def e_DeclRefExpr(self, n):
        rd = n['referencedDecl']
        if rd['kind'] == 'EnumConstantDecl':
            return [], lit(self.tu.enumval[rd['name']])
        return [], Ex(rd['name'])

    def e_ImplicitCastExpr(self, n):
        ck = n['castKind']; inner = n['inner'][0]
        if ck in ('LValueToRValue', 'NoOp', 'ArrayToPointerDecay', 'BitCast'):
            return self.rvalue(inner) if ck == 'LValueToRValue' else self.expr(inner)
        if ck == 'IntegralCast':
            pres, e = self.expr(inner)
            return pres, wrapto(ity(n), e, ity(inner))
        if ck == 'IntegralToBoolean':
            pres, e = self.expr(inner)
            return pres, Ex('(b2z (negb (%s =? 0)))' % e.txt)
        raise Unsupported('%s: cast kind %s' % (self.name, ck))

    def e_CStyleCastExpr(self, n):
        ck = n['castKind']; inner = n['inner'][0]
        if ck == 'ToVoid':
            return self.expr(inner)
        if ck in ('NoOp', 'BitCast'):
            return self.expr(inner)
        if ck == 'IntegralCast':
            pres, e = self.expr(inner)
            return pres, wrapto(ity(n), e, ity(inner))
        raise Unsupported('%s: C cast kind %s' % (self.name, ck))

    def rvalue(self, lv):
        """read an lvalue"""
        lv = self.unparen(lv)
        k = lv['kind']
        if k == 'DeclRefExpr':
            return self.e_DeclRefExpr(lv)
        if k == 'ArraySubscriptExpr':
            base, idx = lv['inner']
            bname = self.ptr_name(base)
            pres, ie = self.expr(idx)
            kind = self.kinds.get(bname, 'local')
            if kind == 'recarr':
                raise Unsupported('%s: whole-record read' % self.name)
            pres = pres + [('ok', '(idx_ok %s %s)' % (bname, ie.txt))]
            return pres, Ex('(rd %s %s)' % (bname, ie.txt))
        if k == 'UnaryOperator' and lv['opcode'] == '*':
            inner = self.unparen(lv['inner'][0])
            # *p++ on an input pointer
            if inner['kind'] == 'UnaryOperator' and inner['opcode'] == '++' and inner.get('isPostfix'):
                pname = self.ptr_name(inner['inner'][0])
                if self.kinds.get(pname) != 'in':
                    raise Unsupported('%s: *p++ on non-input pointer' % self.name)
                t = self.fresh()
                return [('ok', '(idx_ok %s 0)' % pname), ('let', t, '(rd %s 0)' % pname),
                        ('let', pname, '(skipn 1 %s)' % pname)], Ex(t)
            pname = self.ptr_name(inner)
            kind = self.kinds.get(pname)
            if kind == 'outparam':
                return [], Ex(pname)
            if kind in ('in', 'buf'):
                return [('ok', '(idx_ok %s 0)' % pname)], Ex('(rd %s 0)' % pname)
            raise Unsupported('%s: deref of %s' % (self.name, pname))
        if k == 'MemberExpr':
            base = self.unparen(lv['inner'][0])
            fld = lv['name']
            if base['kind'] == 'ArraySubscriptExpr':
                b, idx = base['inner']
                bname = self.ptr_name(b)
                if self.kinds.get(bname) != 'recarr':
                    raise Unsupported('%s: member of non-record array' % self.name)
                pres, ie = self.expr(idx)
                return pres + [('ok', '(ridx_ok %s %s)' % (bname, ie.txt))], \
                    Ex('(%s (rdr %s %s))' % (fld, bname, ie.txt))
            raise Unsupported('%s: member expr' % self.name)
        raise Unsupported('%s: rvalue of %s' % (self.name, k))

    def unparen(self, n):
        while n['kind'] in ('ParenExpr',) or (n['kind'] in ('ImplicitCastExpr', 'CStyleCastExpr')
                                               and n.get('castKind') in ('NoOp', 'BitCast', 'ArrayToPointerDecay')):
            n = n['inner'][0]
        return n

    def ptr_name(self, n):
        n = self.unparen(n)
        if n['kind'] == 'ImplicitCastExpr' and n['castKind'] == 'LValueToRValue':
            n = self.unparen(n['inner'][0])
        if n['kind'] == 'DeclRefExpr':
            nm = n['referencedDecl']['name']
            return self.alias.get(nm, nm)
        raise Unsupported('%s: pointer expression %s' % (self.name, n['kind']))

    def e_ArraySubscriptExpr(self, n):
        return self.rvalue(n)

    def e_MemberExpr(self, n):
        return self.rvalue(n)

    def e_UnaryExprOrTypeTraitExpr(self, n):
        if n.get('name') != 'sizeof':
            raise Unsupported('%s: %s' % (self.name, n.get('name')))
        at = n.get('argType', {}).get('qualType')
        if at is None and n.get('inner'):
            at = n['inner'][0]['type']['qualType']
        at = strip_q(at)
        if at not in SIZEOF:
            raise Unsupported('%s: sizeof(%s)' % (self.name, at))
        return [], lit(SIZEOF[at])

    def e_UnaryOperator(self, n):
        op = n['opcode']; inner = n['inner'][0]
        t = ity(n)
        if op in ('++', '--'):
            lv = self.unparen(inner)
            if lv['kind'] != 'DeclRefExpr':
                raise Unsupported('%s: ++/-- on non-variable' % self.name)
            v = lv['referencedDecl']['name']
            vt = ity(lv)
            delta = '+ 1' if op == '++' else '- 1'
            pres = []
            if vt[0] == 's':
                pres.append(('ok', '(in_%s (%s %s))' % (castfn(vt), v, delta)))
            new = '(%s (%s %s))' % (castfn(vt), v, delta)
            if n.get('isPostfix'):
                old = self.fresh(v + '_old')
                return pres + [('let', old, v), ('let', v, new)], Ex(old)
            return pres + [('let', v, new)], Ex(v)
        if op == '*':
            return self.rvalue(n)
        pres, e = self.expr(inner)
        if op == '-':
            if e.lit is not None:
                return pres, wrapto(t, lit(-e.lit))
            if t[0] == 's':
                pres = pres + [('ok', '(in_%s (- %s))' % (castfn(t), e.txt))]
            return pres, Ex('(%s (- %s))' % (castfn(t), e.txt))
        if op == '+':
            return pres, e
        if op == '~':
            return pres, Ex('(%s (Z.lnot %s))' % (castfn(t), e.txt))
        if op == '!':
            return pres, Ex('(b2z (%s =? 0))' % e.txt)
        raise Unsupported('%s: unary %s' % (self.name, op))

    ARITH = {'+': '+', '-': '-', '*': '*'}
    CMP = {'<': '<?', '<=': '<=?', '>': '>?', '>=': '>=?', '==': '=?'}

    def binop(self, op, t, a, b, bnode_t=None):
        """arithmetic on two translated operands with result type t; returns (oks, Ex)"""
        oks = []
        fn = castfn(t)
        if op in self.ARITH:
            raw = '(%s %s %s)' % (a.txt, self.ARITH[op], b.txt)
            if a.lit is not None and b.lit is not None:
                v = {'+': a.lit + b.lit, '-': a.lit - b.lit, '*': a.lit * b.lit}[op]
                return oks, wrapto(t, lit(v))
            if t[0] == 's':
                oks.append('(in_%s %s)' % (fn, raw))
            return oks, Ex('(%s %s)' % (fn, raw))
        if op in ('/', '%'):
            if b.lit is None or b.lit == 0:
                oks.append('(negb (%s =? 0))' % b.txt)
            if t[0] == 'u':
                return oks, Ex('(%s %s %s)' % (a.txt, '/' if op == '/' else 'mod', b.txt))
            f = 'Z.quot' if op == '/' else 'Z.rem'
            oks.append('(in_%s (%s %s %s))' % (fn, f, a.txt, b.txt))
            return oks, Ex('(%s %s %s)' % (f, a.txt, b.txt))
        if op == '<<':
            if a.lit is not None and b.lit is not None and 0 <= b.lit < t[1]:
                v = a.lit << b.lit
                lo, hi = rng(t)
                if t[0] == 'u' or (a.lit >= 0 and v <= hi):
                    return oks, wrapto(t, lit(v))
            if not (b.lit is not None and 0 <= b.lit < t[1]):
                oks.append('(shift_ok %d %s)' % (t[1], b.txt))
            if t[0] == 's':
                oks.append('(shl_s_ok %d %s %s)' % (t[1], a.txt, b.txt))
            return oks, Ex('(%s (Z.shiftl %s %s))' % (fn, a.txt, b.txt))
        if op == '>>':
            if not (b.lit is not None and 0 <= b.lit < t[1]):
                oks.append('(shift_ok %d %s)' % (t[1], b.txt))
            return oks, Ex('(Z.shiftr %s %s)' % (a.txt, b.txt))
        if op in ('&', '|', '^'):
            f = {'&': 'Z.land', '|': 'Z.lor', '^': 'Z.lxor'}[op]
            if a.lit is not None and b.lit is not None:
                v = {'&': a.lit & b.lit, '|': a.lit | b.lit, '^': a.lit ^ b.lit}[op]
                return oks, lit(v)
            return oks, Ex('(%s %s %s)' % (f, a.txt, b.txt))
        raise Unsupported('%s: binary %s' % (self.name, op))

    def e_BinaryOperator(self, n):
        op = n['opcode']; l, r = n['inner']
        if op == '=':
            return self.assign(l, r)
        if op == ',':
            p1, _ = self.expr(l); p2, e2 = self.expr(r)
            return p1 + p2, e2
        if op in self.CMP or op in ('!=', '&&', '||'):
            pres, c = self.cond(n)
            return pres, Ex('(b2z %s)' % c)
        t = ity(n)
        if t is None:
            raise Unsupported('%s: binary %s on non-integers' % (self.name, op))
        p1, a = self.expr(l); p2, b = self.expr(r)
        oks, e = self.binop(op, t, a, b)
        return p1 + p2 + [('ok', o) for o in oks], e

    def e_CompoundAssignOperator(self, n):
        op = n['opcode'][:-1]; l, r = n['inner']
        lv = self.unparen(l)
        ct = ity({'qualType': n['computeResultType']['qualType']})
        lt = ity(lv)
        p2, b = self.expr(r)
        pl, a = self.rvalue(lv)
        a2 = wrapto(ity({'qualType': n['computeLHSType']['qualType']}), a, lt)
        oks, e = self.binop(op, ct, a2, b)
        e = wrapto(lt, e, ct)
        pw, _ = self.store(lv, e)
        return p2 + pl + [('ok', o) for o in oks] + pw, e

    def store(self, lv, e):
        """assign translated value e to lvalue node lv; returns (pres, value Ex)"""
        lv = self.unparen(lv)
        k = lv['kind']
        if k == 'DeclRefExpr':
            v = lv['referencedDecl']['name']
            return [('let', v, e.txt)], Ex(v)
        if k == 'ArraySubscriptExpr':
            base, idx = lv['inner']
            bname = self.ptr_name(base)
            if self.kinds.get(bname, 'localbuf') not in ('buf', 'localbuf'):
                raise Unsupported('%s: write through %s' % (self.name, bname))
            pres, ie = self.expr(idx)
            return pres + [('let', bname, '(upd %s %s %s)' % (bname, ie.txt, e.txt))], e
        if k == 'UnaryOperator' and lv['opcode'] == '*':
            pname = self.ptr_name(lv['inner'][0])
            kind = self.kinds.get(pname)
            if kind == 'outparam':
                return [('let', pname, e.txt)], Ex(pname)
            if kind == 'buf':
                return [('let', pname, '(upd %s 0 %s)' % (pname, e.txt))], e
        raise Unsupported('%s: store to %s' % (self.name, k))

    def assign(self, l, r):
        pr, e = self.expr(r)
        if e.lit is None and not e.txt.isidentifier():
            t = self.fresh()
            pr = pr + [('let', t, e.txt)]
            e = Ex(t)
        pw, v = self.store(l, e)
        return pr + pw, e

    def e_ConditionalOperator(self, n):
        c, a, b = n['inner']
        pc, ce = self.cond(c)
        pa, ae = self.expr(a); pb, be_ = self.expr(b)
        if pa or pb:
            raise Unsupported('%s: side effects in ?:' % self.name)
        return pc, Ex('(if %s then %s else %s)' % (ce, ae.txt, be_.txt))

    def e_CallExpr(self, n):
        callee = self.unparen(n['inner'][0])
        if callee['kind'] == 'ImplicitCastExpr':
            callee = self.unparen(callee['inner'][0])
        fname = callee['referencedDecl']['name']
        args = n['inner'][1:]
        if fname == 'memcpy':
            return self.memcpy(args)
        if fname not in self.tu.fns:
            raise Unsupported('%s: call to %s' % (self.name, fname))
        g = self.tu.fns[fname]
        pres = []; argtxt = []; backs = []
        for (pname, pkind, ptype), a in zip(g.params, args):
            if pkind == 'int':
                p, e = self.expr(a); pres += p; argtxt.append(e.txt)
            elif pkind in ('in', 'recarr'):
                txt = self.ptr_arg(a, pres)
                argtxt.append(txt)
            elif pkind == 'buf':
                base, off = self.ptr_off(a, pres)
                if off is None:
                    argtxt.append(base); backs.append(('buf', base, None))
                else:
                    argtxt.append('(skipn (Z.to_nat %s) %s)' % (off, base)); backs.append(('buf', base, off))
            elif pkind == 'outparam':
                a2 = self.unparen(a)
                if a2['kind'] == 'UnaryOperator' and a2['opcode'] == '&':
                    v = self.unparen(a2['inner'][0])['referencedDecl']['name']
                else:
                    v = self.ptr_name(a2)
                argtxt.append(v); backs.append(('out', v, None))
        call = '(%s %s)' % (fname, ' '.join(argtxt)) if argtxt else fname
        pres.append(('ok', '(%s_ok %s)' % (fname, ' '.join(argtxt))))
        if not g.outs:
            return pres, Ex(call)
        r = self.fresh('r')
        names = [r] + [self.fresh('o') for _ in g.outs]
        pres.append(('letp', names, call))
        for (kind, base, off), nm in zip(backs, names[1:]):
            if kind == 'out' or off is None:
                pres.append(('let', base, nm))
            else:
                pres.append(('let', base, '(splice %s %s %s)' % (base, off, nm)))
        return pres, Ex(r)

    def ptr_arg(self, a, pres):
        base, off = self.ptr_off(a, pres)
        return base if off is None else '(skipn (Z.to_nat %s) %s)' % (off, base)

    def ptr_off(self, a, pres):
        a = self.unparen(a)
        if a['kind'] == 'ImplicitCastExpr' and a['castKind'] == 'LValueToRValue':
            a = self.unparen(a['inner'][0])
        if a['kind'] == 'DeclRefExpr':
            return a['referencedDecl']['name'], None
        if a['kind'] == 'BinaryOperator' and a['opcode'] == '+':
            b, o = a['inner']
            base = self.ptr_name(b)
            p, e = self.expr(o); pres += p
            return base, e.txt
        raise Unsupported('%s: pointer argument %s' % (self.name, a['kind']))

    def memcpy(self, args):
        dst, src, cnt = [self.unparen(x) for x in args]
        pc, ce = self.expr(cnt)
        if ce.lit is None:
            raise Unsupported('%s: memcpy with non-constant size' % self.name)
        def addr_of(x):
            x = self.unparen(x)
            if x['kind'] == 'UnaryOperator' and x['opcode'] == '&':
                return self.unparen(x['inner'][0])['referencedDecl']['name']
            return None
        sv = addr_of(src); dv = addr_of(dst)
        if sv is not None and dv is None:
            d = self.ptr_name(dst)
            return [('let', d, '(store_le %s %s %d)' % (d, sv, ce.lit))], Ex(d)
        if dv is not None and sv is None:
            s = self.ptr_name(src)
            return [('ok', '(%d <=? Z.of_nat (length %s))' % (ce.lit, s)),
                    ('let', dv, '(load_le %s %d)' % (s, ce.lit))], Ex(dv)
        raise Unsupported('%s: memcpy shape' % self.name)

    # ---- conditions: returns (pres, bool text)
    def cond(self, n):
        n0 = n
        n = self.unparen(n)
        if n['kind'] == 'ImplicitCastExpr' and n['castKind'] == 'IntegralCast':
            return self.cond(n['inner'][0]) if False else self.cond_val(n0)
        if n['kind'] == 'BinaryOperator':
            op = n['opcode']
            if op in self.CMP or op == '!=':
                l, r = n['inner']
                p1, a = self.expr(l); p2, b = self.expr(r)
                if op == '!=':
                    return p1 + p2, '(negb (%s =? %s))' % (a.txt, b.txt)
                return p1 + p2, '(%s %s %s)' % (a.txt, self.CMP[op], b.txt)
            if op in ('&&', '||'):
                l, r = n['inner']
                p1, a = self.cond(l); p2, b = self.cond(r)
                if any(x[0] != 'ok' for x in p2):
                    raise Unsupported('%s: side effect under short-circuit' % self.name)
                # short-circuit: the right operand's checks only matter when it is evaluated
                guard = a if op == '&&' else '(negb %s)' % a
                p2 = [('ok', '(implb %s %s)' % (guard, x[1])) for x in p2]
                f = 'andb' if op == '&&' else 'orb'
                return p1 + p2, '(%s %s %s)' % (f, a, b)
        if n['kind'] == 'UnaryOperator' and n['opcode'] == '!':
            p, c = self.cond(n['inner'][0])
            return p, '(negb %s)' % c
        return self.cond_val(n0)

    def cond_val(self, n):
        p, e = self.expr(n)
        if e.lit is not None:
            return p, 'true' if e.lit != 0 else 'false'
        return p, '(negb (%s =? 0))' % e.txt

    # ---- statements
    def assigned_vars(self, n, acc, declared):
        """variables (declared outside n) that n may assign"""
        k = n.get('kind')
        if k == 'VarDecl':
            declared.add(n['name'])
        def note(lv):
            lv = self.unparen(lv)
            if lv['kind'] == 'DeclRefExpr':
                acc.append(lv['referencedDecl']['name'])
            elif lv['kind'] == 'ArraySubscriptExpr':
                acc.append(self.ptr_name(lv['inner'][0]))
            elif lv['kind'] == 'UnaryOperator' and lv['opcode'] == '*':
                inner = self.unparen(lv['inner'][0])
                if inner['kind'] == 'UnaryOperator':
                    inner = self.unparen(inner['inner'][0])
                acc.append(self.ptr_name(inner))
        if k == 'BinaryOperator' and n['opcode'] == '=':
            note(n['inner'][0])
        if k == 'CompoundAssignOperator':
            note(n['inner'][0])
        if k == 'UnaryOperator' and n['opcode'] in ('++', '--'):
            note(n['inner'][0])
        if k == 'CallExpr':
            callee = self.unparen(n['inner'][0])
            if callee['kind'] == 'ImplicitCastExpr':
                callee = self.unparen(callee['inner'][0])
            fname = callee.get('referencedDecl', {}).get('name')
            if fname == 'memcpy':
                d = self.unparen(n['inner'][1])
                if d['kind'] == 'UnaryOperator' and d['opcode'] == '&':
                    note(d['inner'][0])
                else:
                    acc.append(self.ptr_name(d))
            elif fname in self.tu.fns:
                g = self.tu.fns[fname]
                for (pname, pkind, _), a in zip(g.params, n['inner'][1:]):
                    if pkind in ('buf', 'outparam'):
                        a2 = self.unparen(a)
                        if a2['kind'] == 'UnaryOperator' and a2['opcode'] == '&':
                            note(a2['inner'][0])
                        elif a2['kind'] == 'BinaryOperator':
                            acc.append(self.ptr_name(a2['inner'][0]))
                        else:
                            acc.append(self.ptr_name(a2))
        for c in n.get('inner', []):
            if isinstance(c, dict) and c:
                self.assigned_vars(c, acc, declared)

    def emit_pres(self, pres, body, mode):
        for item in reversed(pres):
            if item[0] == 'let':
                body = 'let %s := %s in\n%s' % (item[1], item[2], body)
            elif item[0] == 'letp':
                body = "let '(%s) := %s in\n%s" % (', '.join(item[1]), item[2], body)
            elif item[0] == 'ok':
                if mode == 'ok':
                    body = 'andb %s (\n%s)' % (item[1], body)
        return body

    def ret_tuple(self, e):
        parts = ([e] if self.ret_t is not None else ['0']) + self.outs
        return parts[0] if len(parts) == 1 else '(%s)' % ', '.join(parts)

    def stmts(self, lst, ctx, mode):
        """translate a statement list; ctx: dict(k=fallthrough thunk, brk=, cont=, ret=)"""
        if not lst:
            return ctx['k']()
        s, rest = lst[0], lst[1:]
        k = s['kind']
        restk = lambda: self.stmts(rest, ctx, mode)
        if k == 'NullStmt':
            return restk()
        if k == 'CompoundStmt':
            return self.stmts(list(s.get('inner', [])) + rest, ctx, mode)
        if k == 'DeclStmt':
            pres = []
            for d in s['inner']:
                if d['kind'] != 'VarDecl':
                    raise Unsupported('%s: decl %s' % (self.name, d['kind']))
                init = [c for c in d.get('inner', []) if c.get('kind')]
                if init and d['type']['qualType'].strip().endswith('*'):
                    # T *p = <pointer parameter>;  p is another name for that buffer
                    self.alias[d['name']] = self.ptr_name(init[0])
                    continue
                if init:
                    p, e = self.expr(init[0])
                    pres += p + [('let', d['name'], e.txt)]
                else:
                    t = ity(d)
                    if t is None and not d['type']['qualType'].endswith(']'):
                        raise Unsupported('%s: local %s : %s' % (self.name, d['name'], d['type']['qualType']))
                    pres.append(('let', d['name'], '0' if t is not None else '(@nil Z)'))
            return self.emit_pres(pres, restk(), mode)
        if k == 'ReturnStmt':
            if s.get('inner'):
                p, e = self.expr(s['inner'][0])
                return self.emit_pres(p, ctx['ret'](e.txt), mode)
            return ctx['ret']('0')
        if k == 'BreakStmt':
            return ctx['brk']()
        if k == 'ContinueStmt':
            return ctx['cont']()
        if k == 'IfStmt':
            inner = s['inner']
            c = inner[0]; th = inner[1]; el = inner[2] if len(inner) > 2 else None
            p, ce = self.cond(c)
            tcode = self.stmts([th] + rest, ctx, mode)
            ecode = self.stmts(([el] if el else []) + rest, ctx, mode)
            return self.emit_pres(p, 'if %s then (\n%s)\nelse (\n%s)' % (ce, tcode, ecode), mode)
        if k in ('WhileStmt', 'ForStmt'):
            return self.loop(s, rest, ctx, mode)
        if k == 'SwitchStmt':
            return self.switch(s, rest, ctx, mode)
        # expression statement
        p, e = self.expr(s)
        return self.emit_pres(p, restk(), mode)

    def loop(self, s, rest, ctx, mode):
        if s['kind'] == 'WhileStmt':
            init, cnd, inc, body = None, s['inner'][0], None, s['inner'][1]
        else:
            init, _cv, cnd, inc, body = s['inner']
            init = init if init else None; inc = inc if inc else None; cnd = cnd if cnd else None
        acc = []; declared = set()
        for part in (cnd, inc, body):
            if part:
                self.assigned_vars(part, acc, declared)
        vars_ = []
        for v in acc:
            if v not in declared and v not in vars_:
                vars_.append(v)
        if not vars_:
            vars_ = ['loop_dummy']
        tup = vars_[0] if len(vars_) == 1 else '(%s)' % ', '.join(vars_)
        pat = lambda: ("let %s := st in\n" % tup) if len(vars_) == 1 else ("let '%s := st in\n" % tup)
        fuel = FUEL.get(self.name)
        if fuel is None:
            raise Unsupported('%s: loop without a fuel entry' % self.name)

        def body_code(m):
            inc_pres = []
            if inc:
                inc_pres, _ = self.expr(inc)
            bctx = dict(
                k=lambda: self.emit_pres(inc_pres, 'Continue %s' % tup if m == 'val' else 'true', m),
                brk=lambda: ('Break %s' % tup) if m == 'val' else 'true',
                cont=lambda: self.emit_pres(inc_pres, 'Continue %s' % tup if m == 'val' else 'true', m),
                ret=(lambda e: 'Return %s' % self.ret_tuple(e)) if m == 'val' else (lambda e: 'true'))
            inner = self.stmts([body], bctx, m)
            if cnd:
                p, ce = self.cond(cnd)
                stop = ('Break %s' % tup) if m == 'val' else 'true'
                inner = self.emit_pres(p, 'if %s then (\n%s)\nelse %s' % (ce, inner, stop), m)
            return '(fun st => %s%s)' % (pat(), inner)

        save = self.tmp
        step_v = body_code('val')
        pre_init = []
        if init:
            if init['kind'] == 'DeclStmt':
                raise Unsupported('%s: declaration in for-init' % self.name)
            pre_init, _ = self.expr(init)
        if 'loop_dummy' in vars_:
            pre_init = pre_init + [('let', 'loop_dummy', '0')]
        after = self.stmts(rest, ctx, mode)
        if mode == 'val':
            code = ('match @while_ _ %s %s %s %s with\n| LDone st => %s%s\n| LRet r => r\n| LFuel => %s\nend'
                    % (self.ret_type(), fuel, step_v, tup, pat(), after, self.fuel_out()))
        else:
            self.tmp = save
            step_ok = body_code('ok')
            code = ('andb (@while_ok _ %s %s %s %s %s) (\nmatch @while_ _ %s %s %s %s with\n| LDone st => %s%s\n| LRet r => true\n| LFuel => false\nend)'
                    % (self.ret_type(), fuel, step_v, step_ok, tup, self.ret_type(), fuel, step_v, tup, pat(), after))
        return self.emit_pres(pre_init, code, mode)

    def ret_type(self):
        parts = ['Z'] + [('Z' if self.kinds[o] == 'outparam' else 'list Z') for o in self.outs]
        return '(%s)%%type' % ' * '.join(parts)

    def fuel_out(self):
        parts = ['FUEL_OUT'] + self.outs
        return parts[0] if len(parts) == 1 else '(%s)' % ', '.join(parts)

    def switch(self, s, rest, ctx, mode):
        c, body = s['inner']
        p, ce = self.expr(c)
        sv = self.fresh('sw')
        groups = []   # (labels or None for default, stmts)
        cur = None
        def open_case(n):
            labels = []; is_default = False
            while n['kind'] in ('CaseStmt', 'DefaultStmt'):
                if n['kind'] == 'CaseStmt':
                    _, le = self.expr(n['inner'][0])
                    if le.lit is None:
                        raise Unsupported('%s: non-constant case label' % self.name)
                    labels.append(le.lit)
                    n = n['inner'][-1]
                else:
                    is_default = True
                    n = n['inner'][-1]
            return labels, is_default, n
        for st in body.get('inner', []):
            if st['kind'] in ('CaseStmt', 'DefaultStmt'):
                labels, is_default, first = open_case(st)
                cur = [labels, is_default, [first]]
                groups.append(cur)
            else:
                if cur is None:
                    raise Unsupported('%s: statement before first case' % self.name)
                cur[2].append(st)
        def terminates(stl):
            if not stl:
                return False
            last = stl[-1]
            if last['kind'] in ('ReturnStmt', 'BreakStmt'):
                return True
            if last['kind'] == 'CompoundStmt':
                return terminates(last.get('inner', []))
            return False
        afterk = lambda: self.stmts(rest, ctx, mode)
        sctx = dict(ctx); sctx['brk'] = afterk; sctx['k'] = afterk
        # fallthrough between non-empty groups: append the next group's statements
        code_default = None
        arms = []
        for i, (labels, is_default, stl) in enumerate(groups):
            full = list(stl); j = i
            while not terminates(full) and j + 1 < len(groups):
                j += 1
                full = full + groups[j][2]
            gcode = self.stmts(full, sctx, mode)
            if is_default:
                code_default = gcode
            if labels:
                arms.append((labels, gcode))
        if code_default is None:
            code_default = afterk()
        code = code_default
        for labels, gcode in reversed(arms):
            test = ' || '.join('(%s =? %d)' % (sv, l) for l in labels)
            code = 'if (%s)%%bool then (\n%s)\nelse (\n%s)' % (test, gcode, code)
        return self.emit_pres(p + [('let', sv, ce.txt)], code, mode)

    def emit(self):
        args = []
        for (pname, pkind, ptype) in self.params:
            if pkind in ('int', 'outparam'):
                args.append('(%s : Z)' % pname)
            elif pkind in ('in', 'buf'):
                args.append('(%s : list Z)' % pname)
            elif pkind == 'recarr':
                args.append('(%s : list IntRange)' % pname)
        out = []
        for mode, suffix in (('val', ''), ('ok', '_ok')):
            self.tmp = 0
            ctx = dict(k=lambda: (self.ret_tuple('0') if mode == 'val' else 'true'),
                       brk=lambda: die('break outside loop'), cont=lambda: die('continue outside loop'),
                       ret=(lambda e: self.ret_tuple(e)) if mode == 'val' else (lambda e: 'true'))
            code = self.stmts([self.body], ctx, mode)
            out.append('Definition %s%s %s :=\n%s.\n' % (self.name, suffix, ' '.join(args), code))
        return '\n'.join(out)


class TU:
    def __init__(self, src, be):
        cmd = ['clang', '-fsyntax-only', '-DNDEBUG', '-DHAVE_CONFIG_H', '-I' + os.path.dirname(os.path.dirname(src)),
               '-I' + os.path.dirname(src), '-Xclang', '-ast-dump=json', src]
        if be:
            cmd.insert(2, '-DWORDS_BIGENDIAN')
        r = subprocess.run(cmd, stdout=subprocess.PIPE, stderr=subprocess.PIPE)
        if r.returncode != 0:
            sys.stderr.write(r.stderr.decode()[:2000])
            die('clang failed')
        self.ast = json.loads(r.stdout)
        self.enumval = {}
        self.collect_enums(self.ast)
        self.fns = {}
        self.be = be
        decls = {}
        for n in self.ast['inner']:
            if n.get('kind') == 'FunctionDecl' and any(c.get('kind') == 'CompoundStmt' for c in n.get('inner', [])):
                decls[n['name']] = n
        self.decls = decls
        for name in LEAVES:
            if name not in decls:
                die('leaf function %s not found in %s' % (name, src))
            try:
                self.fns[name] = Fn(self, decls[name], be)
            except Unsupported as e:
                die(str(e))

    def collect_enums(self, n):
        if n.get('kind') == 'EnumDecl':
            nxt = 0
            for c in n.get('inner', []):
                if c.get('kind') == 'EnumConstantDecl':
                    v = None
                    for i in c.get('inner', []):
                        if i.get('kind', '').endswith('Comment'):
                            continue
                        v = self.const_eval(i)
                    if v is None:
                        v = nxt
                    self.enumval[c['name']] = v
                    nxt = v + 1
        for c in n.get('inner', []):
            if isinstance(c, dict):
                self.collect_enums(c)

    def const_eval(self, n):
        k = n.get('kind')
        if k == 'IntegerLiteral':
            return int(n['value'])
        if k in ('ConstantExpr', 'ParenExpr', 'ImplicitCastExpr', 'CStyleCastExpr'):
            if 'value' in n and k == 'ConstantExpr':
                try:
                    return int(n['value'])
                except ValueError:
                    pass
            return self.const_eval(n['inner'][0])
        if k == 'UnaryOperator' and n['opcode'] == '-':
            return -self.const_eval(n['inner'][0])
        if k == 'BinaryOperator':
            a = self.const_eval(n['inner'][0]); b = self.const_eval(n['inner'][1])
            op = n['opcode']
            return {'+': a + b, '-': a - b, '*': a * b, '<<': a << b, '|': a | b}[op]
        if k == 'DeclRefExpr':
            return self.enumval[n['referencedDecl']['name']]
        die('cannot evaluate enum initialiser %s' % k)

    def emit(self, srcpath, comment):
        out = ['(* GENERATED by translator/c2gallina.py from %s%s -- do not edit.\n   %s *)' %
               (os.path.basename(srcpath), ' with -DWORDS_BIGENDIAN' if self.be else '', comment),
               'From Coq Require Import ZArith List Bool.',
               'From PBC Require Import Base.CInt.',
               'Import ListNotations.',
               'Local Open Scope Z_scope.', '']
        for name in ('PROTOBUF_C_TYPE_INT32 PROTOBUF_C_TYPE_SINT32 PROTOBUF_C_TYPE_SFIXED32 PROTOBUF_C_TYPE_INT64 '
                     'PROTOBUF_C_TYPE_SINT64 PROTOBUF_C_TYPE_SFIXED64 PROTOBUF_C_TYPE_UINT32 PROTOBUF_C_TYPE_FIXED32 '
                     'PROTOBUF_C_TYPE_UINT64 PROTOBUF_C_TYPE_FIXED64 PROTOBUF_C_TYPE_FLOAT PROTOBUF_C_TYPE_DOUBLE '
                     'PROTOBUF_C_TYPE_BOOL PROTOBUF_C_TYPE_ENUM PROTOBUF_C_TYPE_STRING PROTOBUF_C_TYPE_BYTES '
                     'PROTOBUF_C_TYPE_MESSAGE PROTOBUF_C_LABEL_REQUIRED PROTOBUF_C_LABEL_OPTIONAL '
                     'PROTOBUF_C_LABEL_REPEATED PROTOBUF_C_LABEL_NONE PROTOBUF_C_WIRE_TYPE_VARINT '
                     'PROTOBUF_C_WIRE_TYPE_64BIT PROTOBUF_C_WIRE_TYPE_LENGTH_PREFIXED PROTOBUF_C_WIRE_TYPE_32BIT '
                     'PROTOBUF_C_FIELD_FLAG_PACKED PROTOBUF_C_FIELD_FLAG_DEPRECATED PROTOBUF_C_FIELD_FLAG_ONEOF').split():
            if name not in self.enumval:
                die('enum constant %s not found' % name)
            out.append('Definition %s : Z := %d.' % (name, self.enumval[name]))
        out.append('')
        for name in LEAVES:
            try:
                out.append(self.fns[name].emit())
            except Unsupported as e:
                die(str(e))
        return '\n'.join(out)


def main():
    src = sys.argv[1]; dst = sys.argv[2]
    be = '--be' in sys.argv
    tu = TU(src, be)
    h = hashlib.sha256(open(src, 'rb').read()).hexdigest()[:16]
    txt = tu.emit(src, 'source sha256 prefix is recorded by bin/check, not here, so that the file is stable.')
    old = open(dst).read() if os.path.exists(dst) else None
    if old != txt:
        with open(dst, 'w') as f:
            f.write(txt)
        print('c2gallina: wrote %s (%d leaf functions, source %s)' % (dst, len(LEAVES), h))
    else:
        print('c2gallina: %s unchanged' % dst)

if __name__ == '__main__':
    main()

(* merge_messages at the allocation level (Impl/Heap.v h_merge) meets its specification (Impl/HeapInv.v spec_merge):
   whatever it returns -- TRUE, or FALSE at any of its exit points (refused array / unknown-table request, oneof case
   naming no field, failure inside a sub-message) -- both (updated) messages are well-typed and complete, and the
   live blocks are exactly what the two of them own plus the frame: nothing is lost, nothing is owned twice. *)
From Coq Require Import ZArith List Bool Permutation Lia.
From PBC Require Import Base.CInt Gen.LeafC Impl.Desc Impl.Mem Impl.Enc Impl.WF Impl.Unpack Impl.Canon
     Impl.Heap Impl.HeapInv Proofs.HeapLib.
Import ListNotations.
Local Open Scope Z_scope.

(* ====================================================================== permutations of concatenations *)

Lemma perm_bring : forall (A : Type) (a b q q' : list A),
  Permutation q (a ++ q') -> Permutation (b ++ q) (a ++ b ++ q').
Proof.
  intros A a b q q' H. eapply Permutation_trans; [apply Permutation_app_head; exact H|]. apply perm_app_swap_l.
Qed.

Lemma perm_bring_last : forall (A : Type) (a : list A), Permutation a (a ++ []).
Proof. intros A a. rewrite app_nil_r. apply Permutation_refl. Qed.

Lemma perm_main : forall (A : Type) (a l r q' : list A),
  Permutation r (a ++ q') -> Permutation l q' -> Permutation (a ++ l) r.
Proof.
  intros A a l r q' H1 H2. eapply Permutation_trans; [apply Permutation_app_head; exact H2|].
  apply Permutation_sym. exact H1.
Qed.

Lemma perm_main_last : forall (A : Type) (a r : list A), Permutation r (a ++ []) -> Permutation a r.
Proof. intros A a r H. rewrite app_nil_r in H. apply Permutation_sym. exact H. Qed.

Lemma cons_app1 : forall (A : Type) (x : A) (l : list A), x :: l = [x] ++ l.
Proof. reflexivity. Qed.

(* goal: Permutation r (a ++ ?q) *)
Ltac perm_bring a :=
  lazymatch goal with
  | |- Permutation (a ++ _) _ => apply Permutation_refl
  | |- Permutation a _ => apply perm_bring_last
  | |- Permutation (_ ++ _) _ => eapply perm_bring; perm_bring a
  end.

Ltac perm_go :=
  lazymatch goal with
  | |- Permutation [] [] => apply perm_nil
  | |- Permutation (?a ++ ?l) ?r => eapply (perm_main _ a l r); [perm_bring a | perm_go]
  | |- Permutation ?a ?r => first [apply Permutation_refl | apply perm_main_last; perm_bring a]
  end.

(* both sides are concatenations of the same pieces *)
Ltac perm_solve :=
  repeat (progress (cbn [app]; rewrite ?app_nil_r; rewrite <- ?app_assoc));
  repeat match goal with |- context [?x :: ?l] =>
           lazymatch l with [] => fail | _ => rewrite (cons_app1 _ x l) end end;
  perm_go.

Ltac perm_from H := eapply Permutation_trans; [exact H|]; perm_solve.

Lemma perm_solve_test : forall (a b c d : list nat) (x y : nat),
  Permutation ((a ++ x :: b) ++ c ++ y :: d) (y :: c ++ (d ++ x :: a) ++ b).
Proof. intros. perm_solve. Qed.

Lemma perm_solve_test2 : forall (a b : list nat) (x : nat), Permutation (x :: a ++ [] ++ b) (b ++ a ++ [x]).
Proof. intros. perm_solve. Qed.

(* ====================================================================== indexed lists *)

Lemma with_nth_eq : forall (A B : Type) (k : A -> B) d l g,
  with_nth k d l g = match nth_error l g with Some x => k x | None => d end.
Proof.
  intros A B k d l. induction l as [|x t IH]; intros [|g]; cbn [with_nth nth_error]; try reflexivity. apply IH.
Qed.

Lemma set_nth_len : forall (A : Type) (l : list A) i x, length (set_nth l i x) = length l.
Proof.
  intros A l. induction l as [|y t IH]; intros [|i] x; cbn [set_nth length]; try reflexivity. rewrite IH. reflexivity.
Qed.

Lemma set_nth_hit : forall (A : Type) (l : list A) i x y, nth_error l i = Some y -> nth_error (set_nth l i x) i = Some x.
Proof.
  intros A l. induction l as [|z t IH]; intros [|i] x y H; cbn [set_nth nth_error] in *; try discriminate H.
  - reflexivity.
  - eapply IH. exact H.
Qed.

Lemma set_nth_miss : forall (A : Type) (l : list A) i j x, i <> j -> nth_error (set_nth l i x) j = nth_error l j.
Proof.
  intros A l. induction l as [|z t IH]; intros [|i] [|j] x H; cbn [set_nth nth_error]; try reflexivity.
  - contradiction.
  - apply IH. intros ->. apply H. reflexivity.
Qed.

(* what the unions own, with one entry singled out *)
Definition ou (us : list (Z * hval)) : list nat := flat_map (fun cv : Z * hval => owned_val owned (snd cv)) us.
Definition os (ss : list hslot) : list nat := flat_map (owned_slot owned) ss.

Lemma ou_set_nth : forall us g cv, nth_error us g = Some cv ->
  exists rest, Permutation (ou us) (owned_val owned (snd cv) ++ rest) /\
               forall cv', Permutation (ou (set_nth us g cv')) (owned_val owned (snd cv') ++ rest).
Proof.
  induction us as [|u t IH]; intros [|g] cv H; cbn [nth_error] in H; try discriminate H.
  - inversion H; subst u. exists (ou t). split; [apply Permutation_refl|]. intros cv'. apply Permutation_refl.
  - destruct (IH g cv H) as (rest & H1 & H2). exists (owned_val owned (snd u) ++ rest). split.
    + unfold ou in *. cbn [flat_map]. rewrite H1. perm_solve.
    + intros cv'. unfold ou in *. cbn [set_nth flat_map]. rewrite (H2 cv'). perm_solve.
Qed.

Lemma owned_msg_eq : forall id d slots unions utab unk,
  owned (HM id d slots unions utab unk) = id :: os slots ++ ou unions ++ opt_list utab ++ flat_map opt_list unk.
Proof. reflexivity. Qed.

Lemma hwt_eq : forall E c id d slots unions utab unk,
  hwt E c (HM id d slots unions utab unk) =
  match nth_error E d with
  | None => false
  | Some md =>
      hslots_ok (hwt E true) c (length unions) (md_fields md) slots &&
      Nat.eqb (length unions) (md_n_oneofs md) &&
      hunions_ok (hwt E true) (md_fields md) 0 unions &&
      match utab with
      | None => match unk with [] => true | _ => false end
      | Some _ => negb c || nonempty unk
      end
  end.
Proof. reflexivity. Qed.

Lemma h_merge_eq : forall E plan eid ed es eu et ek lid ld ls lu lt lk,
  h_merge E plan (HM eid ed es eu et ek) (HM lid ld ls lu lt lk) =
  match nth_error E ld with
  | None => ret (false, HM eid ed es eu et ek, HM lid ld ls lu lt lk)
  | Some md =>
      doA r <- h_merge_slots plan (h_merge E plan) md lu (md_fields md) es ls eu lu;
      let '(ok, es', ls', eu', lu') := r in
      if negb ok then ret (false, HM eid ed es' eu' et ek, HM lid ld ls' lu' lt lk) else
      if nonempty ek then
        if nonempty lk then
          doA o <- alloc plan ((zlen ek + zlen lk) * 24);
          match o with
          | None => ret (false, HM eid ed es' eu' et ek, HM lid ld ls' lu' lt lk)
          | Some id => doA _ <- free_opt lt; doA _ <- free_opt et;
                       ret (true, HM eid ed es' eu' None [], HM lid ld ls' lu' (Some id) (ek ++ lk))
          end
        else ret (true, HM eid ed es' eu' None [], HM lid ld ls' lu' et ek)
      else ret (true, HM eid ed es' eu' et ek, HM lid ld ls' lu' lt lk)
  end.
Proof. reflexivity. Qed.

(* pointwise form of hunions_ok *)
Lemma hunions_ok_nth : forall rec fs us a,
  hunions_ok rec fs a us = true <->
  (forall g cv, nth_error us g = Some cv -> hunion_ok rec fs (a + g) cv = true).
Proof.
  intros rec fs. induction us as [|u t IH]; intros a.
  - split; [intros _ [|g] cv H; discriminate H | reflexivity].
  - cbn [hunions_ok]. rewrite andb_true_iff, IH. split.
    + intros [H1 H2] [|g] cv H; cbn [nth_error] in H.
      * inversion H; subst. rewrite Nat.add_0_r. exact H1.
      * replace (a + S g)%nat with (S a + g)%nat by lia. apply H2. exact H.
    + intros H. split.
      * rewrite <- (Nat.add_0_r a). apply H. reflexivity.
      * intros g cv Hg. replace (S a + g)%nat with (a + S g)%nat by lia. apply H. exact Hg.
Qed.

(* ====================================================================== one storage cell *)

Definition mv (f : field) (eq : Z) (ev : hval) (lq : Z) (lv : hval) (need : bool) : A (bool * (Z * hval) * (Z * hval)) :=
  if need then
    match f_quant f with
    | QNone => ret (true, (eq, HScalar), (lq, ev))
    | _ => ret (true, (0, HScalar), (eq, ev))
    end
  else ret (true, (eq, ev), (lq, lv)).

Lemma h_merge_cell_eq : forall rec f om eq ev lq lv,
  h_merge_cell rec f om eq ev lq lv =
  match f_type f with
  | TMessage =>
      match ev with
      | HMsg (Some em) =>
          match lv with
          | HMsg (Some lm) =>
              doA r <- rec em lm;
              let '(ok, em', lm') := r in
              ret (ok, (eq, HMsg (Some em')), (lq, HMsg (Some lm')))
          | _ => mv f eq ev lq lv true
          end
      | _ => mv f eq ev lq lv false
      end
  | TString => mv f eq ev lq lv (om || (negb (is_def f (as_hstr ev)) && is_def f (as_hstr lv)))
  | TBytes =>
      match f_quant f with
      | QNone => mv f eq ev lq lv (negb (fst (as_hbytes ev) =? 0) && (fst (as_hbytes lv) =? 0))
      | _ => mv f eq ev lq lv (negb (eq =? 0) && (lq =? 0))
      end
  | _ =>
      match f_quant f with
      | QNone => mv f eq ev lq lv false
      | _ => mv f eq ev lq lv (negb (eq =? 0) && (lq =? 0))
      end
  end.
Proof. reflexivity. Qed.

Section Merge.
Variable E : env.
Variable plan : nat -> bool.
Hypothesis EO : env_ok E = true.

Notation wt := (hwt E true).

Definition merge_post (e l : hmsg) (R : list nat) (r : bool * hmsg * hmsg) (L' : list nat) : Prop :=
  let '(ok, e', l') := r in
  wt e' = true /\ hm_d e' = hm_d e /\ wt l' = true /\ hm_d l' = hm_d l /\
  Permutation L' (owned e' ++ owned l' ++ R).

(* what the recursive call is expected to do on the latter sub-message lm *)
Definition rec_good (rec : hmsg -> hmsg -> A (bool * hmsg * hmsg)) (lm : hmsg) : Prop :=
  forall em R, wt em = true -> wt lm = true -> hm_d em = hm_d lm ->
    hoare (fun L => Permutation L (owned em ++ owned lm ++ R)) (rec em lm) (merge_post em lm R).

(* the three things that can happen to a pair of cells: nothing; the earlier value moves into the latter cell,
   whose old contents own nothing; both hold sub-messages, which are merged in place *)
Definition cell_res (f : field) (eq : Z) (ev : hval) (lq : Z) (lv : hval)
           (eq' : Z) (ev' : hval) (lq' : Z) (lv' : hval) : Prop :=
  (eq' = eq /\ ev' = ev /\ lq' = lq /\ lv' = lv) \/
  (ev' = HScalar /\ lv' = ev /\ owns_nothing lv = true /\
   match f_quant f with QNone => eq' = eq /\ lq' = lq | _ => eq' = 0 /\ lq' = eq end) \/
  (exists em lm em' lm', ev = HMsg (Some em) /\ lv = HMsg (Some lm) /\
     ev' = HMsg (Some em') /\ lv' = HMsg (Some lm') /\ eq' = eq /\ lq' = lq /\
     wt em' = true /\ wt lm' = true /\ hm_d em' = hm_d em /\ hm_d lm' = hm_d lm).

Definition cell_post (f : field) (eq : Z) (ev : hval) (lq : Z) (lv : hval) (R : list nat)
           (r : bool * (Z * hval) * (Z * hval)) (L' : list nat) : Prop :=
  let '(ok, (eq', ev'), (lq', lv')) := r in
  cell_res f eq ev lq lv eq' ev' lq' lv' /\
  Permutation L' (owned_val owned ev' ++ owned_val owned lv' ++ R).

Lemma move_ok : forall f eq ev lq lv R (need : bool),
  (need = true -> owns_nothing lv = true) ->
  hoare (fun L => Permutation L (owned_val owned ev ++ owned_val owned lv ++ R))
        (mv f eq ev lq lv need) (cell_post f eq ev lq lv R).
Proof.
  intros f eq ev lq lv R need Hneed. unfold mv. destruct need.
  - pose proof (Hneed eq_refl) as Hn. pose proof (owns_nothing_owned owned lv Hn) as Ho.
    destruct (f_quant f) eqn:EQ; apply hoare_ret; intros L HL; (split;
      [right; left; rewrite EQ; repeat split; assumption
      |rewrite Ho in HL; cbn [owned_val app] in *; rewrite HL; perm_solve]).
  - apply hoare_ret. intros L HL. split; [left; repeat split | exact HL].
Qed.

Lemma move_quant_ok : forall f eq ev lq lv R (b1 b2 : bool),
  (b1 = true -> owns_nothing lv = true) ->
  (f_quant f <> QNone -> b2 = true -> owns_nothing lv = true) ->
  hoare (fun L => Permutation L (owned_val owned ev ++ owned_val owned lv ++ R))
        (match f_quant f with QNone => mv f eq ev lq lv b1 | _ => mv f eq ev lq lv b2 end)
        (cell_post f eq ev lq lv R).
Proof.
  intros f eq ev lq lv R b1 b2 H1 H2.
  destruct (f_quant f) eqn:EQ; apply move_ok; try exact H1; apply H2; discriminate.
Qed.

Lemma merge_cell_ok : forall rec f om eq ev lq lv R,
  val_all (rec_good rec) lv ->
  (owns_nothing lv = true \/ hcell_ok wt f lv = true) ->
  (om = true -> owns_nothing lv = true) ->
  (lq = 0 -> f_quant f <> QNone -> owns_nothing lv = true) ->
  (forall em lm, ev = HMsg (Some em) -> lv = HMsg (Some lm) ->
     wt em = true /\ wt lm = true /\ hm_d em = hm_d lm) ->
  hoare (fun L => Permutation L (owned_val owned ev ++ owned_val owned lv ++ R))
        (h_merge_cell rec f om eq ev lq lv) (cell_post f eq ev lq lv R).
Proof.
  intros rec f om eq ev lq lv R Hrec Hty Hom Hq Hsub. rewrite h_merge_cell_eq.
  assert (Hflag : f_quant f <> QNone -> negb (eq =? 0) && (lq =? 0) = true -> owns_nothing lv = true).
  { intros Hne Hb. apply andb_true_iff in Hb. destruct Hb as [_ Hb]. apply Z.eqb_eq in Hb. apply Hq; assumption. }
  destruct (f_type f) eqn:ET;
    try (apply move_quant_ok; [intros Hf; discriminate Hf | exact Hflag]).
  - (* string *)
    apply move_ok. intros Hb. apply orb_true_iff in Hb. destruct Hb as [Hb|Hb]; [apply Hom; exact Hb|].
    apply andb_true_iff in Hb. destruct Hb as [_ Hb].
    destruct Hty as [Hty|Hty]; [exact Hty|]. unfold hcell_ok in Hty. rewrite ET in Hty.
    destruct lv as [|[| |i]|n p|o]; try reflexivity; try discriminate Hty. discriminate Hb.
  - (* bytes *)
    apply move_quant_ok; [|exact Hflag]. intros Hb. apply andb_true_iff in Hb. destruct Hb as [_ Hb].
    destruct Hty as [Hty|Hty]; [exact Hty|]. unfold hcell_ok in Hty. rewrite ET in Hty.
    destruct lv as [|p|n [| |i]|o]; try reflexivity; try discriminate Hty.
    cbn [as_hbytes fst] in Hb. rewrite Hb in Hty. discriminate Hty.
  - (* sub-message *)
    assert (Hlv : match lv with HMsg (Some _) => True | _ => owns_nothing lv = true end).
    { destruct Hty as [Hty|Hty].
      - destruct lv as [|p|n p|[lm|]]; try exact Hty; exact I.
      - unfold hcell_ok in Hty. rewrite ET in Hty.
        destruct lv as [|p|n p|[lm|]]; try reflexivity; try discriminate Hty; exact I. }
    destruct ev as [|ep|en ep|[em|]]; try (apply move_ok; intros Hf; discriminate Hf).
    destruct lv as [|lp|ln lp|[lm|]]; try (apply move_ok; intros _; exact Hlv).
    destruct (Hsub em lm eq_refl eq_refl) as (We & Wl & Hd).
    eapply hoare_bnd; [apply (Hrec em R We Wl Hd)|].
    intros [[ok em'] lm']. apply hoare_ret. intros L (We' & Hde' & Wl' & Hdl' & HL). split; [|exact HL].
    right; right. exists em, lm, em', lm'. repeat split; assumption.
Qed.

(* ====================================================================== typing facts *)

Lemma hcell_ok_scalar : forall rec f, hcell_ok rec f HScalar = true.
Proof. intros rec f. unfold hcell_ok. destruct (f_type f); reflexivity. Qed.

Lemma hcell_ok_msg_inv : forall rec f m, hcell_ok rec f (HMsg (Some m)) = true ->
  f_type f = TMessage /\ rec m = true /\ hm_d m = f_sub f.
Proof.
  intros rec f m H. unfold hcell_ok in H. destruct (f_type f); try discriminate H.
  apply andb_true_iff in H. destruct H as [H1 H2]. apply Nat.eqb_eq in H2. repeat split; assumption.
Qed.

Lemma hcell_ok_msg_intro : forall rec f m, f_type f = TMessage -> rec m = true -> hm_d m = f_sub f ->
  hcell_ok rec f (HMsg (Some m)) = true.
Proof. intros rec f m Ht Hr Hd. unfold hcell_ok. rewrite Ht, Hr, Hd, Nat.eqb_refl. reflexivity. Qed.

Lemma hslot_ok_one_inv : forall rec c nu f h v, hslot_ok rec c nu f (HOne h v) = true ->
  f_label f <> LRepeated /\ (forall g, f_quant f <> QCase g) /\ hcell_ok rec f v = true /\
  (f_quant f = QHas -> h = 0 -> owns_nothing v = true).
Proof.
  intros rec c nu f h v H. cbn [hslot_ok] in H. rewrite !andb_true_iff in H.
  destruct H as [[[[H1 H2] H3] H4] H5]. split; [|split; [|split]].
  - intros Hl. rewrite Hl in H1. discriminate H1.
  - intros g Hq. rewrite Hq in H3. discriminate H3.
  - exact H4.
  - intros Hq Hh. rewrite Hq in H5. subst h. exact H5.
Qed.

Lemma hslot_ok_one_intro : forall rec c nu f h v h' v', hslot_ok rec c nu f (HOne h v) = true ->
  hcell_ok rec f v' = true -> (f_quant f = QHas -> h' = 0 -> owns_nothing v' = true) ->
  hslot_ok rec c nu f (HOne h' v') = true.
Proof.
  intros rec c nu f h v h' v' H Hc Hh. cbn [hslot_ok] in *. rewrite !andb_true_iff in *.
  destruct H as [[[[H1 H2] H3] H4] H5]. repeat split; try assumption.
  destruct (f_quant f) eqn:EQ; try reflexivity.
  destruct (Z.eqb_spec h' 0) as [Hz|Hz]; [|reflexivity]. cbn [negb orb]. apply Hh; [reflexivity | exact Hz].
Qed.

Lemma hslot_ok_rep_eq : forall rec nu f arr,
  hslot_ok rec true nu f (HRep arr) =
  label_eqb (f_label f) LRepeated &&
  match arr with None => true | Some (_, el) => forallb (helem_ok rec f) el && nonempty el end.
Proof. intros rec nu f [[a el]|]; reflexivity. Qed.

Lemma hslot_ok_union_inv : forall rec c nu f g, hslot_ok rec c nu f (HUnion g) = true ->
  f_quant f = QCase g /\ f_oneof f = true.
Proof.
  intros rec c nu f g H. cbn [hslot_ok] in H. rewrite !andb_true_iff in H. destruct H as [[[_ H2] H3] _].
  split; [|exact H2]. destruct (f_quant f) as [| |g'|]; try discriminate H3. apply Nat.eqb_eq in H3. subst. reflexivity.
Qed.

Lemma hunion_ok_inv : forall rec fs g c v, hunion_ok rec fs g (c, v) = true ->
  (owns_nothing v = true /\ no_def v = true) \/
  exists f, In f fs /\ f_id f = c /\ f_quant f = QCase g /\ f_oneof f = true /\ hcell_ok rec f v = true.
Proof.
  intros rec fs g c v H. unfold hunion_ok in H. cbn [fst snd] in H. apply orb_true_iff in H. destruct H as [H|H].
  - left. apply andb_true_iff in H. exact H.
  - right. apply existsb_exists in H. destruct H as (f & Hin & H). rewrite !andb_true_iff in H.
    destruct H as [[[H1 H2] H3] H4]. exists f. apply Z.eqb_eq in H1. apply in_group_case in H2. repeat split; assumption.
Qed.

Lemma hunion_ok_member : forall rec fs g f v, In f fs -> f_quant f = QCase g -> f_oneof f = true ->
  hcell_ok rec f v = true -> hunion_ok rec fs g (f_id f, v) = true.
Proof.
  intros rec fs g f v Hin Hq Ho Hc. unfold hunion_ok. cbn [fst snd]. apply orb_true_iff. right.
  apply existsb_exists. exists f. split; [exact Hin|]. apply in_group_case in Hq.
  rewrite Z.eqb_refl, Hq, Ho, Hc. reflexivity.
Qed.

Lemma hunion_ok_clear : forall rec fs g, hunion_ok rec fs g (0, HScalar) = true.
Proof. reflexivity. Qed.

(* the unions of a message of descriptor md, pointwise; which groups the loop has already acted upon *)
Definition uok (md : mdesc) (us : list (Z * hval)) : Prop :=
  forall g cv, nth_error us g = Some cv -> hunion_ok wt (md_fields md) g cv = true.

Lemma uok_set : forall md us g cv, uok md us -> hunion_ok wt (md_fields md) g cv = true -> uok md (set_nth us g cv).
Proof.
  intros md us g cv Hu Hc g' cv' H. destruct (Nat.eq_dec g g') as [<-|Hne].
  - destruct (nth_error us g) as [old|] eqn:Eo.
    + rewrite (set_nth_hit _ us g cv old Eo) in H. inversion H; subst. exact Hc.
    + assert (Hlen : nth_error (set_nth us g cv) g = None).
      { apply nth_error_None. rewrite set_nth_len. apply nth_error_None. exact Eo. }
      rewrite Hlen in H. discriminate H.
  - rewrite set_nth_miss in H by exact Hne. apply Hu. exact H.
Qed.

(* group g is untouched (the latter storage is still the original one), or it has been acted upon and no
   later member of the group will act again: after a move the earlier case is 0 and the latter is not; after a
   same-member merge both cases name a member the loop has passed *)
Definition uinv (lu0 : list (Z * hval)) (fs : list field) (eu lu : list (Z * hval)) : Prop :=
  forall g, nth_error lu g = nth_error lu0 g \/
    exists ec ev lc lv, nth_error eu g = Some (ec, ev) /\ nth_error lu g = Some (lc, lv) /\
                        lc <> 0 /\ (lc = ec -> ~ In lc (map f_id fs)).

Lemma uinv_tail : forall lu0 f fs eu lu, uinv lu0 (f :: fs) eu lu -> uinv lu0 fs eu lu.
Proof.
  intros lu0 f fs eu lu H g. destruct (H g) as [Hg|(ec & ev & lc & lv & H1 & H2 & H3 & H4)]; [left; exact Hg|].
  right. exists ec, ev, lc, lv. repeat split; try assumption. intros He Hin. apply (H4 He). right. exact Hin.
Qed.

(* a member acts only on an untouched group *)
Lemma uinv_untouched : forall lu0 f fs eu lu g ecase ev lcase lv, uinv lu0 (f :: fs) eu lu ->
  nth_error eu g = Some (ecase, ev) -> nth_error lu g = Some (lcase, lv) ->
  (lcase = 0 \/ (lcase = ecase /\ lcase = f_id f)) -> nth_error lu g = nth_error lu0 g.
Proof.
  intros lu0 f fs eu lu g ecase ev lcase lv H He Hl Hc.
  destruct (H g) as [Hg|(ec & ev' & lc & lv' & H1 & H2 & H3 & H4)]; [exact Hg|]. exfalso.
  rewrite He in H1. rewrite Hl in H2. inversion H1; inversion H2; subst.
  destruct Hc as [Hc|[Hc1 Hc2]]; [contradiction|]. apply (H4 Hc1). left. symmetry. exact Hc2.
Qed.

Lemma uinv_act : forall lu0 f fs eu lu g ecase ev lcase lv eq' ev' lq' lv', uinv lu0 (f :: fs) eu lu ->
  nth_error eu g = Some (ecase, ev) -> nth_error lu g = Some (lcase, lv) -> nth_error lu g = nth_error lu0 g ->
  ((lq', lv') = (lcase, lv) \/ (lq' <> 0 /\ (lq' = eq' -> ~ In lq' (map f_id fs)))) ->
  uinv lu0 fs (set_nth eu g (eq', ev')) (set_nth lu g (lq', lv')).
Proof.
  intros lu0 f fs eu lu g ecase ev lcase lv eq' ev' lq' lv' H He Hl H0 Hc g'.
  destruct (Nat.eq_dec g g') as [<-|Hne].
  - rewrite (set_nth_hit _ eu g _ _ He), (set_nth_hit _ lu g _ _ Hl). destruct Hc as [Hc|[Hc1 Hc2]].
    + left. rewrite Hc, <- Hl. exact H0.
    + right. exists eq', ev', lq', lv'. repeat split; assumption.
  - rewrite !set_nth_miss by exact Hne. apply (uinv_tail lu0 f fs eu lu H g').
Qed.

(* ====================================================================== one slot *)

Definition slot_post (md : mdesc) (lu0 : list (Z * hval)) (nu : nat) (f : field) (fs' : list field)
           (eu lu : list (Z * hval)) (R : list nat)
           (r : bool * hslot * hslot * list (Z * hval) * list (Z * hval)) (L' : list nat) : Prop :=
  let '(ok, e', l', eu', lu') := r in
  hslot_ok wt true nu f e' = true /\ hslot_ok wt true nu f l' = true /\ uok md eu' /\ uok md lu' /\
  length eu' = length eu /\ length lu' = length lu /\ uinv lu0 fs' eu' lu' /\
  Permutation L' (owned_slot owned e' ++ owned_slot owned l' ++ ou eu' ++ ou lu' ++ R).

Definition slot_pre (e l : hslot) (eu lu : list (Z * hval)) (R : list nat) (L : list nat) : Prop :=
  Permutation L (owned_slot owned e ++ owned_slot owned l ++ ou eu ++ ou lu ++ R).

Lemma slot_same : forall md lu0 nu f fs' e l eu lu R (ok : bool),
  hslot_ok wt true nu f e = true -> hslot_ok wt true nu f l = true -> uok md eu -> uok md lu ->
  uinv lu0 (f :: fs') eu lu ->
  hoare (slot_pre e l eu lu R) (ret (ok, e, l, eu, lu)) (slot_post md lu0 nu f fs' eu lu R).
Proof.
  intros md lu0 nu f fs' e l eu lu R ok He Hl Hue Hul Hinv. apply hoare_ret. intros L HL.
  repeat split; try assumption. eapply uinv_tail. exact Hinv.
Qed.

Lemma h_merge_slot_rep_eq : forall rec md lu0 f e larr eu lu,
  h_merge_slot plan rec md lu0 f e (HRep larr) eu lu =
  match e with
  | HRep (Some (ea, ee)) =>
      if nonempty ee then
        match larr with
        | Some (la, le) =>
            if nonempty le then
              doA o <- alloc plan ((zlen ee + zlen le) * elt_size (f_type f));
              match o with
              | None => ret (false, e, HRep larr, eu, lu)
              | Some id => doA _ <- free_id la; doA _ <- free_id ea;
                           ret (true, HRep None, HRep (Some (id, ee ++ le)), eu, lu)
              end
            else ret (true, HRep None, HRep (Some (ea, ee)), eu, lu)
        | None => ret (true, HRep None, HRep (Some (ea, ee)), eu, lu)
        end
      else ret (true, e, HRep larr, eu, lu)
  | _ => ret (true, e, HRep larr, eu, lu)
  end.
Proof. reflexivity. Qed.

Lemma nonempty_app : forall (X : Type) (a b : list X), nonempty a = true -> nonempty (a ++ b) = true.
Proof. intros X [|x a] b H; [discriminate H | reflexivity]. Qed.

Lemma merge_slot_rep : forall rec md lu0 nu f fs' e larr eu lu R,
  hslot_ok wt true nu f e = true -> hslot_ok wt true nu f (HRep larr) = true -> uok md eu -> uok md lu ->
  uinv lu0 (f :: fs') eu lu ->
  hoare (slot_pre e (HRep larr) eu lu R) (h_merge_slot plan rec md lu0 f e (HRep larr) eu lu)
        (slot_post md lu0 nu f fs' eu lu R).
Proof.
  intros rec md lu0 nu f fs' e larr eu lu R He Hl Hue Hul Hinv. rewrite h_merge_slot_rep_eq.
  pose proof (uinv_tail _ _ _ _ _ Hinv) as Hinv'.
  destruct e as [eh ev|[[ea ee]|]|ge]; try (apply slot_same; assumption).
  destruct (nonempty ee) eqn:Nee; [|apply slot_same; assumption].
  assert (Hmoved : forall L, slot_pre (HRep (Some (ea, ee))) (HRep None) eu lu R L ->
            slot_post md lu0 nu f fs' eu lu R (true, HRep None, HRep (Some (ea, ee)), eu, lu) L).
  { intros L HL. repeat split; try assumption.
    rewrite hslot_ok_rep_eq in *. apply andb_true_iff in He. destruct He as [He _]. rewrite He. reflexivity. }
  destruct larr as [[la le]|]; [|apply hoare_ret; exact Hmoved].
  destruct (nonempty le) eqn:Nle.
  - rewrite hslot_ok_rep_eq in He, Hl. rewrite !andb_true_iff in He, Hl.
    destruct He as [Hlab [Hee _]]. destruct Hl as [_ [Hle _]].
    eapply hoare_bnd; [apply hoare_alloc_perm|]. intros [id|].
    + eapply hoare_bnd.
      { eapply hoare_pre;
          [apply (hoare_free_id la (id :: ea :: flat_map (owned_val owned) ee ++ flat_map (owned_val owned) le
                                       ++ ou eu ++ ou lu ++ R))|].
        intros L [HL _]. cbn [owned_slot] in HL. perm_from HL. }
      intros u1. eapply hoare_bnd.
      { eapply hoare_pre;
          [apply (hoare_free_id ea (id :: flat_map (owned_val owned) ee ++ flat_map (owned_val owned) le
                                       ++ ou eu ++ ou lu ++ R))|].
        intros L HL. perm_from HL. }
      intros u2. apply hoare_ret. intros L HL. repeat split; try assumption.
      * rewrite hslot_ok_rep_eq, Hlab. reflexivity.
      * rewrite hslot_ok_rep_eq, Hlab, forallb_app, Hee, Hle, (nonempty_app _ ee le Nee). reflexivity.
      * cbn [owned_slot]. rewrite flat_map_app. perm_from HL.
    + apply hoare_ret. intros L HL. repeat split; try assumption.
      * rewrite hslot_ok_rep_eq, Hlab, Hee, Nee. reflexivity.
      * rewrite hslot_ok_rep_eq, Hlab, Hle, Nle. reflexivity.
  - exfalso. rewrite hslot_ok_rep_eq in Hl. rewrite Nle, !andb_false_r in Hl. discriminate Hl.
Qed.

Definition one_body (rec : hmsg -> hmsg -> A (bool * hmsg * hmsg)) (f : field) (eh : Z) (ev : hval) (lh : Z) (lv : hval)
           (eu lu : list (Z * hval)) : A (bool * hslot * hslot * list (Z * hval) * list (Z * hval)) :=
  doA r <- h_merge_cell rec f false eh ev lh lv;
  let '(ok, (eh', ev'), (lh', lv')) := r in
  ret (ok, HOne eh' ev', HOne lh' lv', eu, lu).

Lemma h_merge_slot_one_eq : forall rec md lu0 f e lh lv eu lu,
  h_merge_slot plan rec md lu0 f e (HOne lh lv) eu lu =
  match e with
  | HOne eh ev =>
      if label_eqb (f_label f) LOptional || label_eqb (f_label f) LNone ||
         (label_eqb (f_label f) LRequired && ftype_eqb (f_type f) TMessage)
      then one_body rec f eh ev lh lv eu lu
      else ret (true, e, HOne lh lv, eu, lu)
  | _ => ret (true, e, HOne lh lv, eu, lu)
  end.
Proof. intros. unfold h_merge_slot, one_body. destruct e; reflexivity. Qed.

Lemma field_ok_singular_quant : forall n f, field_ok n f = true -> f_label f = LOptional \/ f_label f = LNone ->
  f_quant f <> QCount.
Proof.
  intros n f H Hl Hq. unfold field_ok in H. rewrite !andb_true_iff in H. destruct H as [[[_ H] _] _].
  rewrite Hq in H. destruct Hl as [Hl|Hl]; rewrite Hl in H; discriminate H.
Qed.

(* a singular field (optional, implicit presence, or required) has no count quantifier *)
Lemma field_ok_nonrep_quant : forall n f, field_ok n f = true -> f_label f <> LRepeated -> f_quant f <> QCount.
Proof.
  intros n f H Hl Hq. unfold field_ok in H. rewrite !andb_true_iff in H. destruct H as [[[_ H] _] _].
  rewrite Hq in H. destruct (f_label f); try discriminate H. apply Hl. reflexivity.
Qed.

Lemma merge_one_body : forall rec md lu0 nu n f fs' eh ev lh lv eu lu R,
  field_ok n f = true -> f_label f <> LRepeated ->
  hslot_ok wt true nu f (HOne eh ev) = true -> hslot_ok wt true nu f (HOne lh lv) = true ->
  uok md eu -> uok md lu -> uinv lu0 (f :: fs') eu lu ->
  val_all (rec_good rec) lv ->
  hoare (slot_pre (HOne eh ev) (HOne lh lv) eu lu R) (one_body rec f eh ev lh lv eu lu)
        (slot_post md lu0 nu f fs' eu lu R).
Proof.
  intros rec md lu0 nu n f fs' eh ev lh lv eu lu R Hfo Hlab He Hl Hue Hul Hinv Hrec.
  pose proof (uinv_tail _ _ _ _ _ Hinv) as Hinv'.
  destruct (hslot_ok_one_inv _ _ _ _ _ _ He) as (_ & _ & Hce & Hhe).
  destruct (hslot_ok_one_inv _ _ _ _ _ _ Hl) as (_ & Hnc & Hcl & Hhl).
  unfold one_body. eapply hoare_bnd.
  - apply (merge_cell_ok rec f false eh ev lh lv (ou eu ++ ou lu ++ R)).
    + exact Hrec.
    + right. exact Hcl.
    + intros Hf. discriminate Hf.
    + intros Hz Hq. apply Hhl; [|exact Hz]. pose proof (field_ok_nonrep_quant n f Hfo Hlab) as Hnq.
      destruct (f_quant f) as [| |g|] eqn:EQ; try reflexivity; try contradiction. exfalso. apply (Hnc g). reflexivity.
    + intros em lm -> ->. destruct (hcell_ok_msg_inv _ _ _ Hce) as (_ & We & De).
      destruct (hcell_ok_msg_inv _ _ _ Hcl) as (_ & Wl & Dl). repeat split; try assumption. congruence.
  - intros [[ok [eh' ev']] [lh' lv']]. apply hoare_ret. intros L [Hres HL].
    assert (Hty : hslot_ok wt true nu f (HOne eh' ev') = true /\ hslot_ok wt true nu f (HOne lh' lv') = true).
    { destruct Hres as [(-> & -> & -> & ->)|[(-> & -> & Hon & Hq)|(em & lm & em' & lm' & -> & -> & -> & -> & -> & -> & We & Wl & De & Dl)]].
      - split; assumption.
      - split.
        + apply (hslot_ok_one_intro _ _ _ _ _ _ _ _ He); [apply hcell_ok_scalar | reflexivity].
        + apply (hslot_ok_one_intro _ _ _ _ _ _ _ _ Hl); [exact Hce|]. intros EQ Hz. rewrite EQ in Hq.
          destruct Hq as [_ Hq]. subst lh'. apply Hhe; [exact EQ | exact Hz].
      - destruct (hcell_ok_msg_inv _ _ _ Hce) as (Ht & _ & Dem).
        destruct (hcell_ok_msg_inv _ _ _ Hcl) as (_ & _ & Dlm). split.
        + apply (hslot_ok_one_intro _ _ _ _ _ _ _ _ He).
          * apply hcell_ok_msg_intro; [exact Ht | exact We | congruence].
          * intros EQ Hz. specialize (Hhe EQ Hz). discriminate Hhe.
        + apply (hslot_ok_one_intro _ _ _ _ _ _ _ _ Hl).
          * apply hcell_ok_msg_intro; [exact Ht | exact Wl | congruence].
          * intros EQ Hz. specialize (Hhl EQ Hz). discriminate Hhl. }
    destruct Hty as [Hty1 Hty2]. repeat split; try assumption.
Qed.

Lemma merge_slot_one : forall rec md lu0 nu n f fs' e lh lv eu lu R,
  field_ok n f = true ->
  hslot_ok wt true nu f e = true -> hslot_ok wt true nu f (HOne lh lv) = true ->
  uok md eu -> uok md lu -> uinv lu0 (f :: fs') eu lu ->
  val_all (rec_good rec) lv ->
  hoare (slot_pre e (HOne lh lv) eu lu R) (h_merge_slot plan rec md lu0 f e (HOne lh lv) eu lu)
        (slot_post md lu0 nu f fs' eu lu R).
Proof.
  intros rec md lu0 nu n f fs' e lh lv eu lu R Hfo He Hl Hue Hul Hinv Hrec. rewrite h_merge_slot_one_eq.
  destruct e as [eh ev|earr|ge]; try (apply slot_same; assumption).
  match goal with |- hoare _ (if ?c then _ else _) _ => destruct c end; [|apply slot_same; assumption].
  apply (merge_one_body rec md lu0 nu n); try assumption.
  destruct (hslot_ok_one_inv _ _ _ _ _ _ He) as (Hnr & _). exact Hnr.
Qed.

(* ---------- a member of a oneof *)
Definition actc (rec : hmsg -> hmsg -> A (bool * hmsg * hmsg)) (g : nat) (e l : hslot) (eu lu : list (Z * hval))
           (ecase : Z) (ev : hval) (lcase : Z) (lv0 : hval) (f' : field) (oneof_move : bool)
  : A (bool * hslot * hslot * list (Z * hval) * list (Z * hval)) :=
  doA r <- h_merge_cell rec f' oneof_move ecase ev lcase lv0;
  let '(ok, ecv', lcv') := r in
  ret (ok, e, l, set_nth eu g ecv', set_nth lu g lcv').

Lemma h_merge_slot_union_eq : forall rec md lu0 f e g eu lu,
  h_merge_slot plan rec md lu0 f e (HUnion g) eu lu =
  match nth_error lu0 g with
  | Some lcv0 =>
      match nth_error eu g, nth_error lu g with
      | Some (ecase, ev), Some (lcase, _) =>
          if lcase =? 0 then
            if ecase =? 0 then ret (true, e, HUnion g, eu, lu)
            else match find_field md ecase with
                 | None => ret (false, e, HUnion g, eu, lu)
                 | Some idx =>
                     match nth_error (md_fields md) idx with
                     | Some f' => if in_group f' g then actc rec g e (HUnion g) eu lu ecase ev lcase (snd lcv0) f' true
                                  else ret (false, e, HUnion g, eu, lu)
                     | None => ret (false, e, HUnion g, eu, lu)
                     end
                 end
          else if (lcase =? ecase) && (lcase =? f_id f) && ftype_eqb (f_type f) TMessage
               then actc rec g e (HUnion g) eu lu ecase ev lcase (snd lcv0) f false
               else ret (true, e, HUnion g, eu, lu)
      | _, _ => ret (true, e, HUnion g, eu, lu)
      end
  | None => ret (true, e, HUnion g, eu, lu)
  end.
Proof. intros. unfold h_merge_slot. rewrite with_nth_eq. reflexivity. Qed.

Lemma act_ok : forall rec md lu0 nu f fs' g e l eu lu ecase ev lcase lv f' om R,
  hslot_ok wt true nu f e = true -> hslot_ok wt true nu f l = true ->
  uok md eu -> uok md lu -> uinv lu0 (f :: fs') eu lu ->
  nth_error eu g = Some (ecase, ev) -> nth_error lu g = Some (lcase, lv) -> nth_error lu g = nth_error lu0 g ->
  val_all (rec_good rec) lv ->
  (owns_nothing lv = true \/ hcell_ok wt f' lv = true) ->
  (om = true -> owns_nothing lv = true) ->
  (lcase = 0 -> f_quant f' <> QNone -> owns_nothing lv = true) ->
  (forall em lm, ev = HMsg (Some em) -> lv = HMsg (Some lm) -> wt em = true /\ wt lm = true /\ hm_d em = hm_d lm) ->
  (forall eq' ev' lq' lv', cell_res f' ecase ev lcase lv eq' ev' lq' lv' ->
     hunion_ok wt (md_fields md) g (eq', ev') = true /\ hunion_ok wt (md_fields md) g (lq', lv') = true /\
     ((lq', lv') = (lcase, lv) \/ (lq' <> 0 /\ (lq' = eq' -> ~ In lq' (map f_id fs'))))) ->
  hoare (slot_pre e l eu lu R) (actc rec g e l eu lu ecase ev lcase lv f' om) (slot_post md lu0 nu f fs' eu lu R).
Proof.
  intros rec md lu0 nu f fs' g e l eu lu ecase ev lcase lv f' om R He Hl Hue Hul Hinv Ee El E0 Hrec H1 H2 H3 H4 Hafter.
  destruct (ou_set_nth eu g (ecase, ev) Ee) as (re & Pe & Pe').
  destruct (ou_set_nth lu g (lcase, lv) El) as (rl & Pl & Pl'). cbn [snd] in *.
  unfold actc. eapply hoare_bnd.
  - eapply hoare_pre;
      [apply (merge_cell_ok rec f' om ecase ev lcase lv (re ++ rl ++ owned_slot owned e ++ owned_slot owned l ++ R));
       assumption|].
    intros L HL. unfold slot_pre in HL. rewrite Pe, Pl in HL. perm_from HL.
  - intros [[ok [eq' ev']] [lq' lv']]. apply hoare_ret. intros L [Hres HL].
    destruct (Hafter _ _ _ _ Hres) as (Ue & Ul & Hc). repeat split; try assumption.
    + apply uok_set; assumption.
    + apply uok_set; assumption.
    + apply set_nth_len.
    + apply set_nth_len.
    + eapply uinv_act; eassumption.
    + rewrite (Pe' (eq', ev')), (Pl' (lq', lv')). cbn [snd]. perm_from HL.
Qed.

Lemma field_ok_id_pos : forall n f, field_ok n f = true -> f_id f <> 0.
Proof.
  intros n f H. unfold field_ok in H. rewrite !andb_true_iff in H. destruct H as [[[[H _] _] _] _]. lia.
Qed.

Lemma hunion_ok_zero : forall rec fs g v, (forall f, In f fs -> f_id f <> 0) ->
  hunion_ok rec fs g (0, v) = true -> owns_nothing v = true.
Proof.
  intros rec fs g v Hpos H. destruct (hunion_ok_inv _ _ _ _ _ H) as [[H1 _]|(f & Hin & Hid & _)]; [exact H1|].
  exfalso. apply (Hpos f Hin). exact Hid.
Qed.

Lemma union_cell : forall d md g f v, nth_error E d = Some md -> In f (md_fields md) ->
  hunion_ok wt (md_fields md) g (f_id f, v) = true -> owns_nothing v = true \/ hcell_ok wt f v = true.
Proof.
  intros d md g f v Hd Hin H. destruct (hunion_ok_inv _ _ _ _ _ H) as [[H1 _]|(f1 & Hin1 & Hid & _ & _ & Hc)].
  - left. exact H1.
  - right. rewrite <- (env_field_id_inj E EO d md f1 f Hd Hin1 Hin Hid). exact Hc.
Qed.

Lemma merge_slot_union : forall rec d md lu0 nu f fs' e g eu lu R,
  nth_error E d = Some md -> In f (md_fields md) -> ~ In (f_id f) (map f_id fs') ->
  hslot_ok wt true nu f e = true -> hslot_ok wt true nu f (HUnion g) = true ->
  uok md eu -> uok md lu -> uinv lu0 (f :: fs') eu lu ->
  Forall (fun cv : Z * hval => val_all (rec_good rec) (snd cv)) lu0 ->
  hoare (slot_pre e (HUnion g) eu lu R) (h_merge_slot plan rec md lu0 f e (HUnion g) eu lu)
        (slot_post md lu0 nu f fs' eu lu R).
Proof.
  intros rec d md lu0 nu f fs' e g eu lu R Hd Hin Hnd He Hl Hue Hul Hinv Hr0. rewrite h_merge_slot_union_eq.
  assert (Hpos : forall f1, In f1 (md_fields md) -> f_id f1 <> 0).
  { intros f1 H1. eapply field_ok_id_pos. eapply (env_field_ok E EO); eassumption. }
  destruct (nth_error lu0 g) as [lcv0|] eqn:E0; [|apply slot_same; assumption].
  destruct (nth_error eu g) as [[ecase ev]|] eqn:Ee; [|apply slot_same; assumption].
  destruct (nth_error lu g) as [[lcase lv]|] eqn:El; [|apply slot_same; assumption].
  pose proof (Hue g _ Ee) as Uev. pose proof (Hul g _ El) as Ulv.
  assert (Hr0' : val_all (rec_good rec) (snd lcv0)).
  { rewrite Forall_forall in Hr0. apply (Hr0 lcv0). eapply nth_error_In. exact E0. }
  destruct (Z.eqb_spec lcase 0) as [Hlz|Hlnz].
  - (* the latter union is unset *)
    destruct (Z.eqb_spec ecase 0) as [Hez|Henz]; [apply slot_same; assumption|].
    destruct (find_field md ecase) as [idx|]; [|apply slot_same; assumption].
    destruct (nth_error (md_fields md) idx) as [f'|]; [|apply slot_same; assumption].
    destruct (in_group f' g) eqn:Eg; [|apply slot_same; assumption].
    apply in_group_case in Eg.
    assert (Hu : nth_error lu g = nth_error lu0 g).
    { eapply uinv_untouched; try eassumption. left. exact Hlz. }
    assert (Hcv : lcv0 = (lcase, lv)) by congruence. subst lcv0. cbn [snd] in *. subst lcase.
    pose proof (hunion_ok_zero _ _ _ _ Hpos Ulv) as Hon.
    apply (act_ok rec md lu0 nu f fs' g e (HUnion g) eu lu ecase ev 0 lv f' true R); try assumption.
    + left. exact Hon.
    + intros _. exact Hon.
    + intros _ _. exact Hon.
    + intros em lm _ ->. discriminate Hon.
    + intros eq' ev' lq' lv'
        [(-> & -> & -> & ->)|[(-> & -> & _ & Hq)|(em & lm & em' & lm' & _ & -> & _)]].
      * split; [exact Uev|]. split; [exact Ulv|]. left. reflexivity.
      * rewrite Eg in Hq. destruct Hq as [-> ->]. split; [apply hunion_ok_clear|]. split; [exact Uev|].
        right. split; [exact Henz|]. intros Hc. exfalso. apply Henz. exact Hc.
      * discriminate Hon.
  - (* both select the member f, a sub-message *)
    destruct ((lcase =? ecase) && (lcase =? f_id f) && ftype_eqb (f_type f) TMessage) eqn:Ec;
      [|apply slot_same; assumption].
    rewrite !andb_true_iff in Ec. destruct Ec as [[Ec1 Ec2] Ec3]. apply Z.eqb_eq in Ec1, Ec2.
    assert (Hu : nth_error lu g = nth_error lu0 g).
    { eapply uinv_untouched; try eassumption. right. split; assumption. }
    assert (Hcv : lcv0 = (lcase, lv)) by congruence. subst lcv0. cbn [snd] in *.
    subst ecase. destruct (hslot_ok_union_inv _ _ _ _ _ Hl) as (Hq & Hoo).
    pose proof Ulv as Ulv'. pose proof Uev as Uev'. rewrite Ec2 in Ulv', Uev'.
    pose proof (union_cell d md g f lv Hd Hin Ulv') as Clv.
    pose proof (union_cell d md g f ev Hd Hin Uev') as Cev.
    assert (Hsub : forall em lm, ev = HMsg (Some em) -> lv = HMsg (Some lm) ->
              f_type f = TMessage /\ wt em = true /\ wt lm = true /\ hm_d em = f_sub f /\ hm_d lm = f_sub f).
    { intros em lm -> ->. destruct Cev as [Cev|Cev]; [discriminate Cev|].
      destruct Clv as [Clv|Clv]; [discriminate Clv|].
      destruct (hcell_ok_msg_inv _ _ _ Cev) as (Ht & We & De).
      destruct (hcell_ok_msg_inv _ _ _ Clv) as (_ & Wl & Dl). repeat split; assumption. }
    apply (act_ok rec md lu0 nu f fs' g e (HUnion g) eu lu lcase ev lcase lv f false R); try assumption.
    + intros Hf. discriminate Hf.
    + intros Hz. contradiction.
    + intros em lm Hev Hlv. destruct (Hsub em lm Hev Hlv) as (_ & We & Wl & De & Dl).
      repeat split; try assumption. congruence.
    + intros eq' ev' lq' lv'
        [(-> & -> & -> & ->)|[(-> & -> & _ & Hq')|(em & lm & em' & lm' & Hev & Hlv & -> & -> & -> & -> & We & Wl & De & Dl)]].
      * split; [exact Uev|]. split; [exact Ulv|]. left. reflexivity.
      * rewrite Hq in Hq'. destruct Hq' as [-> ->]. split; [apply hunion_ok_clear|]. split; [exact Uev|].
        right. split; [exact Hlnz|]. intros Hc. exfalso. apply Hlnz. exact Hc.
      * destruct (Hsub em lm Hev Hlv) as (Ht & _ & _ & De0 & Dl0). rewrite Ec2. split; [|split].
        -- apply hunion_ok_member; try assumption. apply hcell_ok_msg_intro; [exact Ht | exact We | congruence].
        -- apply hunion_ok_member; try assumption. apply hcell_ok_msg_intro; [exact Ht | exact Wl | congruence].
        -- right. split; [rewrite <- Ec2; exact Hlnz|]. intros _. exact Hnd.
Qed.

Lemma merge_slot_ok : forall rec d md lu0 nu f fs' e l eu lu R,
  nth_error E d = Some md -> In f (md_fields md) -> ~ In (f_id f) (map f_id fs') ->
  hslot_ok wt true nu f e = true -> hslot_ok wt true nu f l = true ->
  uok md eu -> uok md lu -> uinv lu0 (f :: fs') eu lu ->
  slot_all (rec_good rec) l ->
  Forall (fun cv : Z * hval => val_all (rec_good rec) (snd cv)) lu0 ->
  hoare (slot_pre e l eu lu R) (h_merge_slot plan rec md lu0 f e l eu lu) (slot_post md lu0 nu f fs' eu lu R).
Proof.
  intros rec d md lu0 nu f fs' e l eu lu R Hd Hin Hnd He Hl Hue Hul Hinv Hrl Hr0.
  destruct l as [lh lv|larr|g].
  - apply (merge_slot_one rec md lu0 nu (md_n_oneofs md)); try assumption.
    eapply (env_field_ok E EO); eassumption.
  - apply merge_slot_rep; assumption.
  - eapply merge_slot_union; eassumption.
Qed.

(* ====================================================================== the loop over the fields *)

Definition slots_post (md : mdesc) (nu : nat) (fs : list field) (eu lu : list (Z * hval)) (R : list nat)
           (r : bool * list hslot * list hslot * list (Z * hval) * list (Z * hval)) (L' : list nat) : Prop :=
  let '(ok, es', ls', eu', lu') := r in
  hslots_ok wt true nu fs es' = true /\ hslots_ok wt true nu fs ls' = true /\ uok md eu' /\ uok md lu' /\
  length eu' = length eu /\ length lu' = length lu /\
  Permutation L' (os es' ++ os ls' ++ ou eu' ++ ou lu' ++ R).

Lemma h_merge_slots_cons : forall rec md lu0 f fs' e es' l ls' eu lu,
  h_merge_slots plan rec md lu0 (f :: fs') (e :: es') (l :: ls') eu lu =
  doA r <- h_merge_slot plan rec md lu0 f e l eu lu;
  let '(ok, e', l', eu', lu') := r in
  if ok then
    doA r2 <- h_merge_slots plan rec md lu0 fs' es' ls' eu' lu';
    let '(ok2, es'', ls'', eu'', lu'') := r2 in
    ret (ok2, e' :: es'', l' :: ls'', eu'', lu'')
  else ret (false, e' :: es', l' :: ls', eu', lu').
Proof. reflexivity. Qed.

Lemma hslots_ok_cons : forall rec c nu f fs s ss,
  hslots_ok rec c nu (f :: fs) (s :: ss) = hslot_ok rec c nu f s && hslots_ok rec c nu fs ss.
Proof. reflexivity. Qed.

Lemma merge_slots_ok : forall rec d md lu0 nu,
  nth_error E d = Some md ->
  Forall (fun cv : Z * hval => val_all (rec_good rec) (snd cv)) lu0 ->
  forall fs es ls eu lu R,
  incl fs (md_fields md) -> NoDup (map f_id fs) ->
  hslots_ok wt true nu fs es = true -> hslots_ok wt true nu fs ls = true ->
  uok md eu -> uok md lu -> uinv lu0 fs eu lu ->
  Forall (slot_all (rec_good rec)) ls ->
  hoare (fun L => Permutation L (os es ++ os ls ++ ou eu ++ ou lu ++ R))
        (h_merge_slots plan rec md lu0 fs es ls eu lu) (slots_post md nu fs eu lu R).
Proof.
  intros rec d md lu0 nu Hd Hr0. induction fs as [|f fs' IH]; intros es ls eu lu R Hincl Hnd Se Sl Hue Hul Hinv Hrl.
  - destruct es as [|e es']; [|discriminate Se]. destruct ls as [|l ls']; [|discriminate Sl].
    apply hoare_ret. intros L HL. repeat split; try assumption.
  - destruct es as [|e es']; [discriminate Se|]. destruct ls as [|l ls']; [discriminate Sl|].
    rewrite hslots_ok_cons in Se, Sl. apply andb_true_iff in Se, Sl. destruct Se as [Se1 Se2], Sl as [Sl1 Sl2].
    cbn [map] in Hnd. inversion Hnd as [|x t Hnin Hnd']; subst x t.
    inversion Hrl as [|x t Hrl1 Hrl2]; subst x t.
    assert (Hincl' : incl fs' (md_fields md)) by (intros x Hx; apply Hincl; right; exact Hx).
    rewrite h_merge_slots_cons. eapply hoare_bnd.
    + eapply hoare_pre;
        [apply (merge_slot_ok rec d md lu0 nu f fs' e l eu lu (os es' ++ os ls' ++ R)); try assumption;
         apply Hincl; left; reflexivity|].
      intros L HL. unfold slot_pre. unfold os in *. cbn [flat_map] in HL. perm_from HL.
    + intros [[[[ok e'] l'] eu'] lu']. apply hoare_assume.
      intros L0 (He' & Hl' & Hue' & Hul' & Hle & Hll & Hinv' & _) _. destruct ok.
      * eapply hoare_bnd.
        -- eapply hoare_pre;
             [apply (IH es' ls' eu' lu' (owned_slot owned e' ++ owned_slot owned l' ++ R)); assumption|].
           intros L (_ & _ & _ & _ & _ & _ & _ & HL). perm_from HL.
        -- intros [[[[ok2 es''] ls''] eu''] lu'']. apply hoare_ret.
           intros L (Se'' & Sl'' & Hue'' & Hul'' & Hle' & Hll' & HL). repeat split; try assumption.
           ++ rewrite hslots_ok_cons, He', Se''. reflexivity.
           ++ rewrite hslots_ok_cons, Hl', Sl''. reflexivity.
           ++ congruence.
           ++ congruence.
           ++ unfold os in *. cbn [flat_map]. perm_from HL.
      * apply hoare_ret. intros L (_ & _ & _ & _ & _ & _ & _ & HL). repeat split; try assumption.
        -- rewrite hslots_ok_cons, He', Se2. reflexivity.
        -- rewrite hslots_ok_cons, Hl', Sl2. reflexivity.
        -- unfold os in *. cbn [flat_map]. perm_from HL.
Qed.

(* ====================================================================== the whole message *)

Definition tab_ok (t : option nat) (k : list (option nat)) : bool :=
  match t with
  | None => match k with [] => true | _ => false end
  | Some _ => nonempty k
  end.

Lemma wt_build : forall id d md ss us t k, nth_error E d = Some md ->
  hslots_ok wt true (md_n_oneofs md) (md_fields md) ss = true -> length us = md_n_oneofs md -> uok md us ->
  tab_ok t k = true -> wt (HM id d ss us t k) = true.
Proof.
  intros id d md ss us t k Hd Hs Hn Hu Ht. rewrite hwt_eq, Hd, Hn, Hs, Nat.eqb_refl. cbn [andb].
  assert (Hus : hunions_ok wt (md_fields md) 0 us = true) by (apply hunions_ok_nth; exact Hu).
  rewrite Hus. cbn [andb]. destruct t; exact Ht.
Qed.

Lemma wt_parts : forall id d ss us t k, wt (HM id d ss us t k) = true ->
  exists md, nth_error E d = Some md /\ hslots_ok wt true (md_n_oneofs md) (md_fields md) ss = true /\
             length us = md_n_oneofs md /\ uok md us /\ tab_ok t k = true.
Proof.
  intros id d ss us t k H. rewrite hwt_eq in H. destruct (nth_error E d) as [md|]; [|discriminate H].
  rewrite !andb_true_iff in H. destruct H as [[[Hs Hn] Hu] Ht]. apply Nat.eqb_eq in Hn. rewrite Hn in Hs.
  exists md. split; [reflexivity|]. split; [exact Hs|]. split; [exact Hn|]. split.
  - intros g cv Hg. apply (proj1 (hunions_ok_nth wt (md_fields md) us 0%nat) Hu g cv Hg).
  - destruct t; exact Ht.
Qed.

Theorem merge_rec_good : forall l, rec_good (h_merge E plan) l.
Proof.
  apply hmsg_ind2. intros lid ld ls lu lt lk HS HU [eid ed es eu et ek] R We Wl Hd.
  cbn [hm_d] in Hd. subst ed. rewrite h_merge_eq.
  destruct (wt_parts _ _ _ _ _ _ Wl) as (md & Emd & Sl & Nl & Ul & Tl).
  destruct (wt_parts _ _ _ _ _ _ We) as (md' & Emd' & Se & Ne & Ue & Te).
  rewrite Emd in Emd'. inversion Emd'; subst md'. clear Emd'. rewrite Emd.
  set (R0 := [eid] ++ [lid] ++ opt_list et ++ flat_map opt_list ek ++ opt_list lt ++ flat_map opt_list lk ++ R).
  eapply hoare_bnd.
  - eapply hoare_pre;
      [apply (merge_slots_ok (h_merge E plan) ld md lu (md_n_oneofs md) Emd HU (md_fields md) es ls eu lu R0);
       try assumption|].
    + apply incl_refl.
    + apply (env_field_ids_NoDup E EO ld md Emd).
    + intros g. left. reflexivity.
    + intros L HL. rewrite !owned_msg_eq in HL. unfold R0. perm_from HL.
  - intros [[[[ok es'] ls'] eu'] lu']. apply hoare_assume.
    intros L0 (Se' & Sl' & Ue' & Ul' & Le & Ll & _) _.
    assert (Ne' : length eu' = md_n_oneofs md) by congruence.
    assert (Nl' : length lu' = md_n_oneofs md) by congruence.
    assert (Hsame : forall b : bool,
              hoare (slots_post md (md_n_oneofs md) (md_fields md) eu lu R0 (ok, es', ls', eu', lu'))
                    (ret (b, HM eid ld es' eu' et ek, HM lid ld ls' lu' lt lk))
                    (merge_post (HM eid ld es eu et ek) (HM lid ld ls lu lt lk) R)).
    { intros b. apply hoare_ret. intros L (_ & _ & _ & _ & _ & _ & HL).
      split; [eapply wt_build; eassumption|]. split; [reflexivity|].
      split; [eapply wt_build; eassumption|]. split; [reflexivity|].
      rewrite !owned_msg_eq. unfold R0 in HL. perm_from HL. }
    destruct ok; cbn [negb]; [|apply Hsame].
    destruct (nonempty ek) eqn:Nek; [|apply Hsame].
    destruct (nonempty lk) eqn:Nlk.
    + (* both tables have entries: a new table *)
      eapply hoare_bnd.
      { eapply hoare_pre; [apply (hoare_alloc_perm plan _ (os es' ++ os ls' ++ ou eu' ++ ou lu' ++ R0))|].
        intros L (_ & _ & _ & _ & _ & _ & HL). exact HL. }
      intros [id|].
      * eapply hoare_bnd.
        { eapply hoare_pre;
            [apply (hoare_free_opt lt (id :: os es' ++ os ls' ++ ou eu' ++ ou lu' ++ [eid] ++ [lid] ++ opt_list et ++
                                       flat_map opt_list ek ++ flat_map opt_list lk ++ R))|].
          intros L [HL _]. unfold R0 in HL. perm_from HL. }
        intros u1. eapply hoare_bnd.
        { eapply hoare_pre;
            [apply (hoare_free_opt et (id :: os es' ++ os ls' ++ ou eu' ++ ou lu' ++ [eid] ++ [lid] ++
                                       flat_map opt_list ek ++ flat_map opt_list lk ++ R))|].
          intros L HL. perm_from HL. }
        intros u2. apply hoare_ret. intros L HL.
        split; [eapply wt_build; try eassumption; reflexivity|]. split; [reflexivity|].
        split; [eapply wt_build; try eassumption; cbn [tab_ok]; apply nonempty_app; exact Nek|].
        split; [reflexivity|].
        rewrite !owned_msg_eq. cbn [opt_list flat_map]. rewrite flat_map_app. perm_from HL.
      * apply hoare_ret. intros L HL.
        split; [eapply wt_build; eassumption|]. split; [reflexivity|].
        split; [eapply wt_build; eassumption|]. split; [reflexivity|].
        rewrite !owned_msg_eq. unfold R0 in HL. perm_from HL.
    + (* only the earlier message has entries: its table moves *)
      assert (lk = []) by (destruct lk; [reflexivity | discriminate Nlk]). subst lk.
      assert (lt = None) by (destruct lt; [discriminate Tl | reflexivity]). subst lt.
      apply hoare_ret. intros L (_ & _ & _ & _ & _ & _ & HL).
      split; [eapply wt_build; try eassumption; reflexivity|]. split; [reflexivity|].
      split; [eapply wt_build; eassumption|]. split; [reflexivity|].
      rewrite !owned_msg_eq. unfold R0 in HL. cbn [opt_list flat_map] in *. perm_from HL.
Qed.

Theorem merge_ok_sec : spec_merge E plan.
Proof. intros e l R We Wl Hd. apply (merge_rec_good l e R We Wl Hd). Qed.

End Merge.

Theorem merge_ok : forall (E : env) (plan : nat -> bool), env_ok E = true -> spec_merge E plan.
Proof. intros E plan EO. apply merge_ok_sec. exact EO. Qed.

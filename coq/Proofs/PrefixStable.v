(* Prefix stability of the scanner: what [scan_one] (one step of the scanning loop of
   protobuf_c_message_unpack, Impl/Unpack.v) does with the wire member at the front of the input does
   not depend on the bytes that FOLLOW that member.  Appending [extra] to the input changes neither the
   recorded member, nor the lookup cache, the required-field bitmap, the repeated-field counters or the
   unknown-field count; the only difference is that [extra] stays appended to the rest of the input.

   Statements, compared with the ones that were asked for:

   * [varint_end_app], [parse_tag_app], [scan_lpd_app], [scan_one_app] are proved exactly as stated.
     The hypotheses [bytes (st_at st)] (scan_one_app, scan_loop_app) and
     [Mem.zlen (d ++ extra) < 4294967296] (leaf lemmas) are kept for interface stability but turned out
     not to be needed: the proofs never use them (the leaf functions clamp their length argument to 5
     before the 32-bit truncation, and nothing here depends on the elements being < 256).  No
     [bytes extra] hypothesis is needed either.

   * [scan_loop_app]: the equation
         scan_loop (fuel + fuel2) md (set_at st (st_at st ++ extra)) = scan_loop fuel2 md (set_at st' extra)
     is FALSE as an unconditional statement.  [scan_loop fuel md st = Ok st'] only says that [fuel] was
     ENOUGH for the first part, not that it was used up: with [st_at st = []], [fuel = 1],
     [fuel2 = 0] and [extra] one valid member, the left side has one unit of fuel and succeeds whereas
     the right side is [Err EFuel].  The only way the two sides can differ is that the right side runs
     out of fuel, so the smallest correct strengthening is the extra hypothesis
         scan_loop fuel2 md (set_at st' extra) <> Err EFuel
     ([scan_loop_app]).  Two companions make the picture complete:
       - [scan_loop_app_steps]: the exact, unconditional equation, for the number [n <= fuel] of steps
         the first part really takes:  forall fuel2,
           scan_loop (n + fuel2) md (set_at st (st_at st ++ extra)) = scan_loop fuel2 md (set_at st' extra);
       - [scan_loop_app_enough]: the asked-for equation, unconditionally, whenever [fuel2] exceeds
         the length of [extra] (which is how every caller picks the fuel: [S (length data)]).
     [scan_loop_ok_nil] records that [st_at st' = []]. *)
From Coq Require Import ZArith List Bool Lia ZifyBool.
From PBC Require Import Base.CInt Base.Bits Gen.LeafC Impl.Desc Impl.Mem Impl.Enc Impl.Unpack
     Proofs.LeafSafe Proofs.ScanCount Proofs.Terminates.
Import ListNotations.
Local Open Scope Z_scope.

Ltac Zify.zify_post_hook ::= Z.div_mod_to_equations.

Local Notation bytes := LeafSafe.bytes.

(* ------------------------------------------------------------------ *)
(* Lists                                                               *)

Lemma rd_app : forall (d extra : list Z) i, 0 <= i < Z.of_nat (length d) -> rd (d ++ extra) i = rd d i.
Proof. intros d extra i Hi. unfold rd. apply app_nth1. lia. Qed.

Lemma skipn_app_le : forall (A : Type) n (d extra : list A), (n <= length d)%nat ->
  skipn n (d ++ extra) = skipn n d ++ extra.
Proof.
  intros A n d extra Hn. rewrite skipn_app. replace (n - length d)%nat with 0%nat by lia. reflexivity.
Qed.

Lemma firstn_app_le : forall (A : Type) n (d extra : list A), (n <= length d)%nat ->
  firstn n (d ++ extra) = firstn n d.
Proof.
  intros A n d extra Hn. rewrite firstn_app. replace (n - length d)%nat with 0%nat by lia.
  cbn [firstn]. apply app_nil_r.
Qed.

Lemma zlen_app : forall (d extra : list Z), Mem.zlen (d ++ extra) = Mem.zlen d + Mem.zlen extra.
Proof. intros d extra. unfold Mem.zlen. rewrite app_length. lia. Qed.

(* ------------------------------------------------------------------ *)
(* Fuelled loops: a run that does not end in a "bad" Break is repeated *)
(* verbatim by any body that agrees with it on the visited states.     *)

Section WhileSim.
Context {St R : Type}.
Variables b1 b2 : St -> step St R.
Variables I G B : St -> Prop.
Hypothesis Hsim : forall s, I s ->
  match b1 s with
  | Continue s' => b2 s = Continue s' /\ I s'
  | Break s' => (G s' /\ b2 s = Break s') \/ B s'
  | Return r => b2 s = Return r
  end.

Lemma while_sim : forall fuel s, I s ->
  match while_ fuel b1 s with
  | LDone s' => (G s' /\ while_ fuel b2 s = LDone s') \/ B s'
  | LRet r => while_ fuel b2 s = LRet r
  | LFuel => while_ fuel b2 s = LFuel
  end.
Proof.
  induction fuel as [|f IH]; intros s Hs; cbn [while_]; [reflexivity|].
  pose proof (Hsim s Hs) as HS. destruct (b1 s) as [s'|s'|r].
  - destruct HS as [E Hs']. rewrite E. apply IH. exact Hs'.
  - destruct HS as [[Hg E]|Hb]; [left; rewrite E; split; [exact Hg | reflexivity] | right; exact Hb].
  - rewrite HS. reflexivity.
Qed.
End WhileSim.

(* ------------------------------------------------------------------ *)
(* The three payload delimiters                                        *)

Lemma varint_end_app : forall d k i extra, varint_end d k = Some i -> varint_end (d ++ extra) k = Some i.
Proof.
  induction d as [|b t IH]; intros k i extra H; destruct k as [|k]; cbn [varint_end] in H; try discriminate H.
  cbn [app varint_end]. destruct (Z.land b 128 =? 0); [exact H|].
  destruct (varint_end t k) as [j|] eqn:E; [|discriminate H].
  rewrite (IH k j extra E). exact H.
Qed.

Lemma parse_tag_app : forall d extra t w used tag wt,
  d <> [] -> Mem.zlen (d ++ extra) < 4294967296 ->
  parse_tag_and_wiretype (Mem.zlen d) d t w = (used, tag, wt) -> used <> 0 ->
  parse_tag_and_wiretype (Mem.zlen (d ++ extra)) (d ++ extra) t w = (used, tag, wt) /\ 0 < used <= Mem.zlen d.
Proof.
  intros d extra t w used tag wt Hne _ H Hu.
  assert (Hlen : 1 <= Mem.zlen d <= LeafSafe.zlen d).
  { unfold Mem.zlen, LeafSafe.zlen. destruct d; [congruence | cbn [length]; lia]. }
  destruct (parse_tag_and_wiretype_used _ _ Hlen _ _ _ _ _ H) as [Hu1 Hu2].
  split; [|lia].
  revert H. unfold parse_tag_and_wiretype. cbv zeta.
  set (m1 := u32 (if Mem.zlen d >? 5 then 5 else Mem.zlen d)).
  set (m2 := u32 (if Mem.zlen (d ++ extra) >? 5 then 5 else Mem.zlen (d ++ extra))).
  assert (Hm : m1 <= m2 /\ m1 <= Mem.zlen d).
  { unfold m1, m2, u32. rewrite zlen_app. pose proof (zlen_nonneg_local extra).
    destruct (Mem.zlen d >? 5) eqn:E1; destruct (Mem.zlen d + Mem.zlen extra >? 5) eqn:E2; lia. }
  rewrite (rd_app d extra 0) by (unfold Mem.zlen in Hlen; lia).
  destruct (Z.land (rd d 0) 248 =? 0); [intros E; exact E|].
  destruct (Z.land (rd d 0) 128 =? 0); [intros E; exact E|].
  match goal with |- context [@while_ _ _ _ ?b ?s] => set (body1 := b); set (s0 := s) end.
  match goal with |- context [@while_ _ _ _ ?b _] => tryif is_var b then fail else set (body2 := b) end.
  assert (Hsim : forall s, (let '(rv, _, _, _) := s in 0 <= rv) ->
            match body1 s with
            | Continue s' => body2 s = Continue s' /\ (let '(rv, _, _, _) := s' in 0 <= rv)
            | Break s' => (False /\ body2 s = Break s') \/ True
            | Return r => body2 s = Return r
            end).
  { intros [[[rv tg] sh] tout] Hrv. cbv beta iota zeta delta [body1 body2].
    destruct (Z.ltb_spec rv m1) as [Hlt|Hge]; [|right; exact Logic.I].
    rewrite (rd_app d extra rv) by (unfold Mem.zlen in Hm; lia).
    replace (rv <? m2) with true by lia.
    destruct (negb (Z.land (rd d rv) 128 =? 0)).
    - split; [reflexivity|]. unfold u32. lia.
    - destruct (_ =? 0); reflexivity. }
  assert (H0 : let '(rv, _, _, _) := s0 in 0 <= rv) by (subst s0; cbv beta iota; lia).
  pose proof (while_sim body1 body2 _ _ _ Hsim 8 s0 H0) as W.
  destruct (while_ 8 body1 s0) as [[[[rv tg] sh] tout]|r|].
  - intros E. inversion E. congruence.
  - rewrite W. intros E; exact E.
  - rewrite W. intros E; exact E.
Qed.

Lemma scan_lpd_app : forall d extra p l pref,
  Mem.zlen (d ++ extra) < 4294967296 ->
  scan_length_prefixed_data (Mem.zlen d) d p = (l, pref) -> l <> 0 ->
  scan_length_prefixed_data (Mem.zlen (d ++ extra)) (d ++ extra) p = (l, pref) /\ 0 <= pref <= l /\ l <= Mem.zlen d.
Proof.
  intros d extra p l pref _ H Hl.
  pose proof (zlen_nonneg_local d) as Hd0. pose proof (zlen_nonneg_local extra) as He0.
  split.
  2:{ destruct (scan_length_prefixed_data_used (Mem.zlen d) d Hd0 p l pref H) as [Hz|Hb]; [contradiction | lia]. }
  revert H. unfold scan_length_prefixed_data. cbv zeta.
  set (h1 := u32 (if Mem.zlen d <? 5 then Mem.zlen d else 5)).
  set (h2 := u32 (if Mem.zlen (d ++ extra) <? 5 then Mem.zlen (d ++ extra) else 5)).
  assert (Hh : 0 <= h1 <= 5 /\ h1 <= h2 /\ h1 <= Mem.zlen d).
  { unfold h1, h2, u32. rewrite zlen_app.
    destruct (Mem.zlen d <? 5) eqn:E1; destruct (Mem.zlen d + Mem.zlen extra <? 5) eqn:E2; lia. }
  match goal with |- context [@while_ _ _ _ ?b ?s] => set (body1 := b); set (s0 := s) end.
  match goal with |- context [@while_ _ _ _ ?b _] => tryif is_var b then fail else set (body2 := b) end.
  set (I := fun s : Z * Z * Z => let '(i, _, _) := s in 0 <= i <= h1).
  set (G := fun s : Z * Z * Z => let '(i, _, _) := s in 0 <= i < h1).
  set (B := fun s : Z * Z * Z => let '(i, _, _) := s in i = h1).
  assert (Hsim : forall s, I s ->
            match body1 s with
            | Continue s' => body2 s = Continue s' /\ I s'
            | Break s' => (G s' /\ body2 s = Break s') \/ B s'
            | Return r => body2 s = Return r
            end).
  { intros [[i val] sh] Hi. cbv beta iota delta [I] in Hi. cbv beta iota zeta delta [body1 body2].
    destruct (Z.ltb_spec i h1) as [Hlt|Hge]; [|right; cbv beta iota delta [B]; lia].
    rewrite (rd_app d extra i) by (unfold Mem.zlen in Hh; lia).
    replace (i <? h2) with true by lia.
    destruct (Z.land (rd d i) 128 =? 0).
    - left. split; [cbv beta iota delta [G]; lia | reflexivity].
    - split; [reflexivity|]. cbv beta iota delta [I]. unfold u32. lia. }
  assert (H0 : I s0) by (subst s0; cbv beta iota delta [I]; lia).
  pose proof (while_sim body1 body2 I G B Hsim 8 s0 H0) as W.
  destruct (while_ 8 body1 s0) as [[[i val] sh]|r|].
  - destruct W as [[Hg W]|Hb].
    + rewrite W. cbv beta iota delta [G] in Hg.
      destruct (Z.eqb_spec i h1) as [Heq|_]; [lia|].
      destruct (Z.eqb_spec i h2) as [Heq|_]; [lia|].
      destruct (val >? 2147483647); [intros E; exact E|].
      destruct (Z.gtb_spec (u64 (u32 (i + 1) + val)) (Mem.zlen d)) as [Hgt|Hle];
        [intros E; inversion E; congruence|].
      destruct (Z.gtb_spec (u64 (u32 (i + 1) + val)) (Mem.zlen (d ++ extra))) as [Hgt|_];
        [rewrite zlen_app in Hgt; lia|].
      intros E; exact E.
    + cbv beta iota delta [B] in Hb. subst i. rewrite Z.eqb_refl. intros E. inversion E. congruence.
  - rewrite W. intros E; exact E.
  - rewrite W. intros E; exact E.
Qed.

(* ------------------------------------------------------------------ *)
(* One scanning step                                                   *)

Definition set_at (st : sstate) (a : list Z) : sstate :=
  {| st_at := a; st_last := st_last st; st_last_idx := st_last_idx st; st_bitmap := st_bitmap st;
     st_members := st_members st; st_slots := st_slots st; st_nunk := st_nunk st |}.

Lemma set_at_id : forall st, set_at st (st_at st) = st.
Proof. intros [a l li bm ms ss nu]. reflexivity. Qed.

Theorem scan_one_app : forall md st st' extra,
  st_at st <> [] -> bytes (st_at st) -> Mem.zlen (st_at st ++ extra) < 4294967296 ->
  scan_one md st = Ok st' ->
  scan_one md (set_at st (st_at st ++ extra)) = Ok (set_at st' (st_at st' ++ extra)).
Proof.
  intros md st st' extra Hne _ Hlt H. revert H.
  unfold scan_one. cbv zeta.
  cbn [set_at st_at st_last st_last_idx st_bitmap st_members st_slots st_nunk].
  set (at0 := st_at st) in *.
  destruct (parse_tag_and_wiretype (Mem.zlen at0) at0 0 0) as [[used tag] wt] eqn:Ep.
  destruct (Z.eqb_spec used 0) as [Hz|Hnz]; [intros H; discriminate H|].
  destruct (parse_tag_app at0 extra 0 0 used tag wt Hne Hlt Ep Hnz) as [Ep' Hu].
  rewrite Ep'.
  destruct (Z.eqb_spec used 0) as [Hz|_]; [contradiction|].
  (* the lookup: same on both sides *)
  match goal with |- context [if ?c then (st_last st, st_last st, st_last_idx st, st_nunk st) else ?e] =>
    destruct (if c then (st_last st, st_last st, st_last_idx st, st_nunk st) else e)
      as [[[fidx last] last_idx] nunk] end.
  destruct (match fidx with
            | Some i => match nth_error (md_fields md) i with Some f => Ok (Some f) | None => Err EOob end
            | None => Ok None
            end) as [fo|e]; cbn [bind]; [|intros H; discriminate H].
  (* the payload *)
  rewrite (skipn_app_le Z (Z.to_nat used) at0 extra) by (unfold Mem.zlen in Hu; lia).
  set (at1 := skipn (Z.to_nat used) at0).
  assert (Hat1 : Mem.zlen at1 = Mem.zlen at0 - used).
  { unfold at1, Mem.zlen. rewrite skipn_length. unfold Mem.zlen in Hu. lia. }
  assert (Hat1' : Mem.zlen (at1 ++ extra) = Mem.zlen (at0 ++ extra) - used).
  { rewrite !zlen_app. lia. }
  match goal with |- bind ?X _ = _ -> bind ?Y _ = _ => remember X as lp1 eqn:D1; remember Y as lp2 eqn:D2 end.
  assert (Hlp : forall len pref, lp1 = Ok (len, pref) ->
            lp2 = Ok (len, pref) /\ 0 <= pref <= len /\ 1 <= len <= Mem.zlen at1).
  { intros len pref E1. subst lp1 lp2. pose proof (zlen_nonneg_local extra) as He0.
    destruct (wt =? WT_VARINT).
    { destruct (varint_end at1 10) as [i|] eqn:Ev; [|discriminate E1].
      rewrite (varint_end_app at1 10 i extra Ev). inversion E1; subst.
      pose proof (varint_end_bound _ _ _ Ev). split; [reflexivity | lia]. }
    destruct (wt =? WT_64BIT).
    { destruct (Z.ltb_spec (Mem.zlen at0 - used) 8) as [Hs|Hs]; [discriminate E1|]. inversion E1; subst.
      destruct (Z.ltb_spec (Mem.zlen (at0 ++ extra) - used) 8) as [Hs'|_]; [rewrite zlen_app in Hs'; lia|].
      split; [reflexivity | lia]. }
    destruct (wt =? WT_LEN).
    { rewrite <- Hat1 in E1. rewrite <- Hat1'.
      destruct (scan_length_prefixed_data (Mem.zlen at1) at1 0) as [l p] eqn:Es.
      destruct (Z.eqb_spec l 0) as [Hz|Hlnz]; [discriminate E1|]. inversion E1; subst l p.
      assert (Hlt1 : Mem.zlen (at1 ++ extra) < 4294967296) by lia.
      destruct (scan_lpd_app at1 extra 0 len pref Hlt1 Es Hlnz) as (Es' & Hp & Hl).
      rewrite Es'. destruct (Z.eqb_spec len 0) as [Hz|_]; [contradiction|].
      split; [reflexivity | lia]. }
    destruct (wt =? WT_32BIT); [|discriminate E1].
    destruct (Z.ltb_spec (Mem.zlen at0 - used) 4) as [Hs|Hs]; [discriminate E1|]. inversion E1; subst.
    destruct (Z.ltb_spec (Mem.zlen (at0 ++ extra) - used) 4) as [Hs'|_]; [rewrite zlen_app in Hs'; lia|].
    split; [reflexivity | lia]. }
  clear D1 D2.
  destruct lp1 as [[len pref]|e]; cbn [bind]; [|intros H; discriminate H].
  destruct (Hlp len pref eq_refl) as (E2 & Hp & Hl). rewrite E2. cbn [bind].
  rewrite (firstn_app_le Z (Z.to_nat len) at1 extra) by (unfold Mem.zlen in Hl; lia).
  rewrite (skipn_app_le Z (Z.to_nat len) at1 extra) by (unfold Mem.zlen in Hl; lia).
  (* the counters: same on both sides *)
  match goal with |- bind ?X _ = _ -> _ => destruct X as [slots|e] end; cbn [bind]; [|intros H; discriminate H].
  intros H. inversion H; subst st'; clear H.
  cbn [st_at st_last st_last_idx st_bitmap st_members st_slots st_nunk]. reflexivity.
Qed.

(* what a step leaves of the input is a suffix of the input *)
Lemma scan_one_rest : forall md st st', scan_one md st = Ok st' ->
  exists a b, st_at st' = skipn a (skipn b (st_at st)).
Proof.
  intros md st st'. unfold scan_one. cbv zeta.
  destruct (parse_tag_and_wiretype (Mem.zlen (st_at st)) (st_at st) 0 0) as [[used tag] wt].
  destruct (used =? 0); [intros H; discriminate H|].
  match goal with |- context [if ?c then (st_last st, st_last st, st_last_idx st, st_nunk st) else ?e] =>
    destruct (if c then (st_last st, st_last st, st_last_idx st, st_nunk st) else e)
      as [[[fidx last] last_idx] nunk] end.
  match goal with |- bind ?X _ = _ -> _ => destruct X as [fo|e] end; cbn [bind]; [|intros H; discriminate H].
  match goal with |- bind ?X _ = _ -> _ => destruct X as [[len pref]|e] end; cbn [bind]; [|intros H; discriminate H].
  match goal with |- bind ?X _ = _ -> _ => destruct X as [slots|e] end; cbn [bind]; [|intros H; discriminate H].
  intros H. inversion H; subst st'. cbn [st_at]. eexists. eexists. reflexivity.
Qed.

(* ------------------------------------------------------------------ *)
(* The loop                                                            *)

Lemma scan_loop_nil : forall fuel md st, st_at st = [] -> scan_loop fuel md st = Ok st.
Proof. intros fuel md st E. destruct fuel; cbn [scan_loop]; rewrite E; reflexivity. Qed.

Lemma scan_loop_S : forall k md st, st_at st <> [] ->
  scan_loop (S k) md st = bind (scan_one md st) (scan_loop k md).
Proof. intros k md st Hne. cbn [scan_loop]. destruct (st_at st); [congruence | reflexivity]. Qed.

(* a successful scan has consumed everything *)
Lemma scan_loop_ok_nil : forall md fuel st st', scan_loop fuel md st = Ok st' -> st_at st' = [].
Proof.
  intros md. induction fuel as [|k IH]; intros st st' H; cbn [scan_loop] in H.
  - destruct (st_at st) eqn:Ea; [inversion H; subst; exact Ea | discriminate H].
  - destruct (st_at st) eqn:Ea; [inversion H; subst; exact Ea|].
    destruct (scan_one md st) as [st1|e]; cbn [bind] in H; [|discriminate H]. exact (IH st1 st' H).
Qed.

(* spare fuel changes nothing, unless the fuel ran out *)
Lemma scan_loop_fuel_mono : forall md k fuel st r,
  scan_loop fuel md st = r -> r <> Err EFuel -> scan_loop (fuel + k) md st = r.
Proof.
  intros md k. induction fuel as [|f IH]; intros st r H Hr.
  - cbn [scan_loop] in H. destruct (st_at st) eqn:Ea; [|congruence].
    rewrite scan_loop_nil by exact Ea. exact H.
  - cbn [Nat.add]. cbn [scan_loop] in H |- *. destruct (st_at st) eqn:Ea; [exact H|].
    destruct (scan_one md st) as [st1|e]; cbn [bind] in H |- *; [|exact H].
    apply IH; assumption.
Qed.

(* the exact form: [n] is the number of members in the first part *)
Theorem scan_loop_app_steps : forall md fuel st st' extra,
  bytes (st_at st) -> Mem.zlen (st_at st ++ extra) < 4294967296 ->
  scan_loop fuel md st = Ok st' ->
  exists n, (n <= fuel)%nat /\
    forall fuel2, scan_loop (n + fuel2) md (set_at st (st_at st ++ extra)) = scan_loop fuel2 md (set_at st' extra).
Proof.
  intros md. induction fuel as [|k IH]; intros st st' extra HB Hlt H.
  - cbn [scan_loop] in H. destruct (st_at st) eqn:Ea; [|discriminate H]. inversion H; subst st'.
    exists 0%nat. split; [lia|]. intros fuel2. reflexivity.
  - destruct (st_at st) as [|b t] eqn:Ea.
    + rewrite scan_loop_nil in H by exact Ea. inversion H; subst st'.
      exists 0%nat. split; [lia|]. intros fuel2. reflexivity.
    + assert (Hne : st_at st <> []) by congruence.
      rewrite scan_loop_S in H by exact Hne.
      destruct (scan_one md st) as [st1|e] eqn:E1; cbn [bind] in H; [|discriminate H].
      rewrite <- Ea in *.
      pose proof (scan_one_app md st st1 extra Hne HB Hlt E1) as E1'.
      destruct (scan_one_rest md st st1 E1) as (a & c & Hrest).
      destruct (scan_one_progress md st Hne st1 E1) as [Hshort _].
      assert (HB1 : bytes (st_at st1)) by (rewrite Hrest; apply bytes_skipn; apply bytes_skipn; exact HB).
      assert (Hlt1 : Mem.zlen (st_at st1 ++ extra) < 4294967296).
      { rewrite zlen_app in Hlt |- *. unfold Mem.zlen in *. lia. }
      destruct (IH st1 st' extra HB1 Hlt1 H) as (n & Hn & Heq).
      exists (S n). split; [lia|]. intros fuel2. cbn [Nat.add].
      rewrite scan_loop_S.
      * rewrite E1'. cbn [bind]. apply Heq.
      * cbn [set_at st_at]. destruct (st_at st); [congruence | discriminate].
Qed.

(* the requested form; the side condition is necessary (see the header) *)
Theorem scan_loop_app : forall md fuel st st' extra,
  bytes (st_at st) -> Mem.zlen (st_at st ++ extra) < 4294967296 ->
  scan_loop fuel md st = Ok st' ->          (* hence st_at st' = [] *)
  forall fuel2, scan_loop fuel2 md (set_at st' extra) <> Err EFuel ->
  scan_loop (fuel + fuel2) md (set_at st (st_at st ++ extra)) = scan_loop fuel2 md (set_at st' extra).
Proof.
  intros md fuel st st' extra HB Hlt H fuel2 Hnf.
  destruct (scan_loop_app_steps md fuel st st' extra HB Hlt H) as (n & Hn & Heq).
  replace (fuel + fuel2)%nat with ((n + fuel2) + (fuel - n))%nat by lia.
  apply scan_loop_fuel_mono; [apply Heq | exact Hnf].
Qed.

(* ... and it holds for every fuel that the callers use for the second part *)
Corollary scan_loop_app_enough : forall md fuel st st' extra,
  bytes (st_at st) -> Mem.zlen (st_at st ++ extra) < 4294967296 ->
  scan_loop fuel md st = Ok st' ->
  forall fuel2, (length extra < fuel2)%nat ->
  scan_loop (fuel + fuel2) md (set_at st (st_at st ++ extra)) = scan_loop fuel2 md (set_at st' extra).
Proof.
  intros md fuel st st' extra HB Hlt H fuel2 Hf.
  apply (scan_loop_app md fuel st st' extra HB Hlt H fuel2).
  apply scan_loop_terminates. cbn [set_at st_at]. exact Hf.
Qed.

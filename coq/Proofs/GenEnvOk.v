(* C13 -> C01: the descriptors the generator model emits satisfy the descriptor conditions (Canon.desc_ok /
   env_ok) under which the round-trip theorem is proved.  The hypotheses are what protoc itself guarantees
   about an accepted schema (distinct field numbers in [1, 2^29), oneof members are optional, defaults are
   of the field's type, proto3 has no required fields and no explicit defaults, referenced message types
   exist) plus the limits of the supported set (no groups; no proto3 string_as_bytes: a listed finding;
   string defaults without NUL: a listed finding). *)
From Coq Require Import ZArith List Bool Lia ZifyBool Permutation Sorted.
From PBC Require Import Base.CInt Gen.LeafC Impl.Desc Impl.Mem Impl.Enc Impl.WF Impl.Unpack Impl.Canon
     GenModel.Ranges GenModel.Gen GenModel.ToRuntime Proofs.SortLemmas Proofs.GenStruct Proofs.LookupGen Proofs.GenDefaults.
Import ListNotations.
Local Open Scope Z_scope.

Lemma incr_incrb : forall vs, incr vs -> incrb vs = true.
Proof.
  induction vs as [|v t IH]; intros H; [reflexivity|]. cbn [incrb]. destruct t as [|w t']; [reflexivity|].
  cbn [incr] in H. destruct H as [H1 H2]. apply andb_true_iff. split; [lia | apply IH; exact H2].
Qed.

(* ---- oneof group numbers *)
Lemma index_of_bound : forall k seen i g, Gen.index_of k seen i = Some g -> (i <= g < i + length seen)%nat.
Proof.
  intros k seen. induction seen as [|x t IH]; intros i g H; [discriminate H|]. cbn [Gen.index_of] in H.
  destruct (Nat.eqb x k); [inversion H; subst; cbn [length]; lia|].
  specialize (IH (S i) g H). cbn [length]. lia.
Qed.

Definition group_ok (nseen : nat) (fd : pfield) (grp : option nat) : Prop :=
  match pf_oneof fd with
  | Some _ => if is_optional fd then exists g, grp = Some g /\ (g < nseen)%nat else grp = None
  | None => grp = None
  end.

Lemma assign_groups_spec : forall l seen,
  (length seen <= length (snd (assign_groups seen l)))%nat /\
  forall n, (length (snd (assign_groups seen l)) <= n)%nat -> Forall2 (group_ok n) l (fst (assign_groups seen l)).
Proof.
  induction l as [|fd t IH]; intros seen; [cbn; split; [lia | constructor]|].
  cbn [assign_groups]. destruct (pf_oneof fd) as [k|] eqn:Eo.
  - destruct (is_optional fd) eqn:Ei.
    + destruct (Gen.index_of k seen 0%nat) as [g|] eqn:Ex.
      * destruct (IH seen) as [L F]. destruct (assign_groups seen t) as [r s]. cbn [fst snd] in *. split; [exact L|].
        intros n Hn. constructor; [|exact (F n Hn)]. unfold group_ok. rewrite Eo, Ei. exists g. split; [reflexivity|].
        pose proof (index_of_bound _ _ _ _ Ex). lia.
      * destruct (IH (seen ++ [k])) as [L F]. destruct (assign_groups (seen ++ [k]) t) as [r s]. cbn [fst snd] in *.
        rewrite app_length in L. cbn [length] in L. split; [lia|].
        intros n Hn. constructor; [|exact (F n Hn)]. unfold group_ok. rewrite Eo, Ei. exists (length seen). split; [reflexivity | lia].
    + destruct (IH seen) as [L F]. destruct (assign_groups seen t) as [r s]. cbn [fst snd] in *. split; [exact L|].
      intros n Hn. constructor; [|exact (F n Hn)]. unfold group_ok. rewrite Eo, Ei. reflexivity.
  - destruct (IH seen) as [L F]. destruct (assign_groups seen t) as [r s]. cbn [fst snd] in *. split; [exact L|].
    intros n Hn. constructor; [|exact (F n Hn)]. unfold group_ok. rewrite Eo. reflexivity.
Qed.

(* ---- what protoc guarantees about one field of an accepted schema (inside the supported set) *)
Record field_hyp (fs : list pfile) (f : pfile) (syms : list str) (fd : pfield) : Prop := {
  h_num : 0 < pf_number fd < 536870912;
  h_oneof_optional : forall k, pf_oneof fd = Some k -> pf_label fd = POptional;
  h_no_group : pf_type fd <> PGroup;
  h_p3_no_required : pfl_syntax f = 3 -> pf_label fd <> PRequired;
  h_p3_no_default : pfl_syntax f = 3 -> pf_default fd = None;
  h_p3_sab : pfl_syntax f = 3 -> pf_type fd = PString -> pf_string_as_bytes fd = false;
  h_default_kind : match pf_default fd with
                   | None => True
                   | Some (PDStr s) =>
                       match field_generator fd with
                       | FGString => Forall (fun c => 0 < c < 256) s          (* no NUL: listed finding *)
                       | FGBytes => Forall (fun c => 0 <= c < 256) s
                       | _ => False
                       end
                   | Some _ => match field_generator fd with FGPrimitive | FGEnum => True | _ => False end
                   end;
  h_msg_resolves : pf_type fd = PMessage -> (sym_index syms (msg_sym fs (pf_type_name fd)) < length syms)%nat;
}.

Lemma forallb_char_ok : forall s, Forall (fun c => 0 < c < 256) s -> forallb char_ok s = true.
Proof. intros s H. apply forallb_forall. intros c Hc. rewrite Forall_forall in H. specialize (H c Hc). unfold char_ok. lia. Qed.
Lemma forallb_byte_ok : forall s, Forall (fun c => 0 <= c < 256) s -> forallb byte_ok s = true.
Proof. intros s H. apply forallb_forall. intros c Hc. rewrite Forall_forall in H. specialize (H c Hc). unfold byte_ok. lia. Qed.

Section Field.
Variables (tg : bool) (fs : list pfile) (f : pfile) (m : pmsg) (syms : list str) (nseen : nat).
Hypothesis Hsyn : pfl_syntax f = 2 \/ pfl_syntax f = 3.

Lemma flags_bits : forall fd,
  Z.odd (field_flags f fd) = (is_repeated fd && is_packable (pf_type fd) &&
                              match pf_packed fd with Some b => b | None => pfl_syntax f =? 3 end) /\
  Z.odd (field_flags f fd / 4) = match pf_oneof fd with Some _ => true | None => false end.
Proof.
  intros fd. unfold field_flags, FLAG_PACKED, FLAG_DEPRECATED, FLAG_ONEOF.
  set (p := is_repeated fd && is_packable (pf_type fd) && match pf_packed fd with Some b => b | None => pfl_syntax f =? 3 end).
  destruct p; destruct (pf_deprecated fd); destruct (pf_oneof fd); split; reflexivity.
Qed.

Lemma gtype_scalar_of_packable : forall fd, is_packable (pf_type fd) = true -> is_scalar (rt_type (field_gtype fd)) = true.
Proof. intros fd H. unfold field_gtype, field_generator. destruct (pf_type fd); try discriminate H; reflexivity. Qed.

(* the runtime field of one schema field satisfies every per-field condition of desc_ok *)
Lemma rt_field_ok : forall fd grp,
  field_hyp fs f syms fd -> group_ok nseen fd grp ->
  let rf := rt_field syms (gen_field fs f m fd grp (field_default tg f fd)) in
  field_ok nseen rf = true /\
  (match f_type rf with TMessage => Nat.ltb (f_sub rf) (length syms) | _ => true end) = true /\
  (match f_label rf with
   | LNone => match zeroish rf (init_cell rf) with Ok true => true | _ => false end
   | _ => true
   end) = true.
Proof.
  intros fd grp H G rf. destruct H as [Hnum Hoo Hng Hp3r Hp3d Hp3s Hdk Hres].
  destruct (flags_bits fd) as [Fp Fo].
  unfold rf, rt_field, gen_field. cbn [gf_id gf_label gf_type gf_quant gf_flags gf_descriptor gf_default
    f_id f_label f_type f_quant f_packed f_oneof f_sub f_default].
  rewrite Fp, Fo. unfold group_ok in G.
  (* the default, by kind *)
  assert (Hdef : match option_map rt_default (field_default tg f fd), rt_type (field_gtype fd) with
                 | None, _ => true
                 | Some (DStr s), TString => forallb char_ok s
                 | Some (DBytes s), TBytes => forallb byte_ok s
                 | Some (DWord _), (TString | TBytes | TMessage) => false
                 | Some (DWord _), _ => true
                 | Some _, _ => false
                 end = true).
  { unfold field_default, field_gtype. destruct (pf_default fd) as [[v|b|s]|] eqn:Ed.
    - destruct (field_generator fd) eqn:Eg; try contradiction; cbn [option_map rt_default rt_type];
        try reflexivity. destruct (pf_type fd); reflexivity.
    - destruct (field_generator fd) eqn:Eg; try contradiction; cbn [option_map rt_default rt_type];
        try reflexivity. destruct (pf_type fd); reflexivity.
    - destruct (field_generator fd) eqn:Eg; try contradiction; cbn [option_map rt_default rt_type].
      + rewrite default_literal_exact by (eapply Forall_impl; [|exact Hdk]; cbv beta; intros; unfold is_byte; lia).
        apply forallb_char_ok. exact Hdk.
      + rewrite default_literal_exact by (eapply Forall_impl; [|exact Hdk]; cbv beta; intros; unfold is_byte; lia).
        apply forallb_byte_ok. exact Hdk.
    - destruct (pf_type fd) eqn:Et; try reflexivity.
      destruct (Z.eqb_spec (pfl_syntax f) 3) as [E3|]; [|reflexivity].
      unfold field_generator. rewrite Et, (Hp3s E3 eq_refl). reflexivity. }
  split; [|split].
  - (* field_ok *)
    unfold field_ok. cbn [f_id f_label f_type f_quant f_packed f_oneof f_default].
    rewrite Hdef. rewrite andb_true_r.
    apply andb_true_iff. split; [apply andb_true_iff; split|].
    + lia.
    + (* label / quantifier / oneof flag *)
      unfold field_label, field_quant. destruct (pf_label fd) eqn:El.
      * (* optional *)
        destruct (pf_oneof fd) as [k|] eqn:Eo.
        -- unfold is_optional in G. rewrite El in G. destruct G as (g & -> & Hg).
           destruct (pfl_syntax f =? 3); cbn [rt_label rt_quant]; apply andb_true_iff; (split; [reflexivity | apply Nat.ltb_lt; exact Hg]).
        -- subst grp. destruct (Z.eqb_spec (pfl_syntax f) 3) as [E3|E3]; cbn [rt_label].
           ++ rewrite andb_false_r. cbn [rt_quant]. reflexivity.
           ++ cbn [negb]. rewrite andb_true_r. unfold optional_uses_has, field_gtype.
              destruct (field_generator fd) eqn:Eg; cbn [rt_quant rt_type negb andb orb ftype_eqb]; try reflexivity;
                try (destruct (pf_type fd); reflexivity);
                exfalso; unfold field_generator in Eg; destruct (pf_type fd); try discriminate Eg;
                try (destruct (pf_string_as_bytes fd); discriminate Eg); apply Hng; reflexivity.
      * (* required *)
        destruct (pf_oneof fd) as [k|] eqn:Eo; [specialize (Hoo k eq_refl); congruence|]. reflexivity.
      * destruct (pf_oneof fd) as [k|] eqn:Eo; [specialize (Hoo k eq_refl); congruence|]. reflexivity.
    + (* packed only on repeated scalars *)
      destruct (is_repeated fd) eqn:Er; [|reflexivity].
      destruct (is_packable (pf_type fd)) eqn:Ep; [|reflexivity].
      destruct (match pf_packed fd with Some b => b | None => pfl_syntax f =? 3 end); [|reflexivity].
      cbn [andb]. unfold field_label. unfold is_repeated in Er. destruct (pf_label fd); try discriminate Er.
      cbn [rt_label label_eqb andb]. apply gtype_scalar_of_packable. exact Ep.
  - (* sub-descriptor index *)
    unfold field_gtype, field_descriptor_sym. destruct (field_generator fd) eqn:Eg; cbn [rt_type]; try reflexivity.
    + destruct (pf_type fd); reflexivity.
    + apply Nat.ltb_lt. apply Hres. unfold field_generator in Eg.
      destruct (pf_type fd); try discriminate Eg; try reflexivity; destruct (pf_string_as_bytes fd); discriminate Eg.
    + exfalso. unfold field_generator in Eg. destruct (pf_type fd); try discriminate Eg; try (destruct (pf_string_as_bytes fd); discriminate Eg). apply Hng. reflexivity.
  - (* implicit presence starts out zero *)
    unfold field_label. destruct (pf_label fd) eqn:El; cbn [rt_label]; try reflexivity.
    destruct (Z.eqb_spec (pfl_syntax f) 3) as [E3|]; cbn [rt_label]; [|reflexivity].
    assert (E3b : (pfl_syntax f =? 3) = true) by lia.
    unfold zeroish, init_cell. cbn [f_type f_default]. unfold field_default. rewrite (Hp3d E3). rewrite ?E3b.
    unfold field_gtype. destruct (field_generator fd) eqn:Eg; cbn [rt_type];
      unfold field_generator in Eg; destruct (pf_type fd) eqn:Et; try discriminate Eg;
      try (destruct (pf_string_as_bytes fd); discriminate Eg); try reflexivity;
      try (rewrite (Hp3s E3 eq_refl) in Eg; discriminate Eg).
Qed.
End Field.

(* ---- one message descriptor *)
Record msg_hyp (fs : list pfile) (f : pfile) (syms : list str) (m : pmsg) : Prop := {
  mh_nodup : NoDup (map pf_number (pm_fields m));
  mh_fields : Forall (field_hyp fs f syms) (pm_fields m);
  mh_count : Z.of_nat (length (pm_fields m)) < 2147483648;
}.

Lemma ranges_self : forall rs : list IntRange,
  forallb (fun p : IntRange * IntRange => (start_value (fst p) =? start_value (snd p)) && (orig_index (fst p) =? orig_index (snd p)))
          (combine rs rs) = true.
Proof. induction rs as [|r rs IH]; [reflexivity|]. cbn [combine forallb fst snd]. rewrite !Z.eqb_refl. exact IH. Qed.

Lemma map3_gen_fields : forall tg fs f m syms nseen sorted groups,
  Forall (field_hyp fs f syms) sorted -> Forall2 (group_ok nseen) sorted groups ->
  (pfl_syntax f = 2 \/ pfl_syntax f = 3) ->
  let rfs := map (rt_field syms) (map3 (gen_field fs f m) sorted groups (map (field_default tg f) sorted)) in
  map f_id rfs = map pf_number sorted /\
  forallb (field_ok nseen) rfs = true /\
  forallb (fun rf => match f_type rf with TMessage => Nat.ltb (f_sub rf) (length syms) | _ => true end) rfs = true /\
  forallb (fun rf => match f_label rf with
                     | LNone => match zeroish rf (init_cell rf) with Ok true => true | _ => false end
                     | _ => true
                     end) rfs = true.
Proof.
  intros tg fs f m syms nseen sorted groups HF HG Hsyn. revert HF.
  induction HG as [|fd grp sorted groups Hg HG IH]; intros HF; [cbn; auto|].
  inversion HF as [|? ? Hfd HF']; subst. cbn [map map3 forallb].
  destruct (IH HF') as (I1 & I2 & I3 & I4).
  destruct (rt_field_ok tg fs f m syms nseen Hsyn fd grp Hfd Hg) as (R1 & R2 & R3).
  cbv zeta in R1, R2, R3. rewrite R1, R2, R3. cbn [andb]. repeat split; try assumption.
  cbn [rt_field gen_field gf_id f_id]. f_equal. exact I1.
Qed.

Theorem gen_desc_ok : forall tg fs f gi m syms,
  (pfl_syntax f = 2 \/ pfl_syntax f = 3) -> msg_hyp fs f syms m ->
  desc_ok (length syms) (rt_desc syms (gen_msg tg fs f gi m)) = true.
Proof.
  intros tg fs f gi m syms Hsyn [Hnd Hfs Hcnt].
  unfold gen_msg. set (sorted := sort_fields (pm_fields m)).
  destruct (assign_groups_spec sorted []) as [_ HG].
  destruct (assign_groups [] sorted) as [groups seen] eqn:EG. cbn [fst snd] in HG.
  specialize (HG (length seen) (le_n _)).
  destruct (mk_ranges (map pf_number sorted)) as [ranges n] eqn:ER.
  assert (Hperm : Permutation sorted (pm_fields m)) by apply isort_by_perm.
  assert (HFs : Forall (field_hyp fs f syms) sorted).
  { rewrite Forall_forall in *. intros x Hx. apply Hfs. eapply Permutation_in; [exact Hperm | exact Hx]. }
  destruct (map3_gen_fields tg fs f m syms (length seen) sorted groups HFs HG Hsyn) as (M1 & M2 & M3 & M4).
  cbv zeta in M1, M2, M3, M4.
  unfold desc_ok, rt_desc. cbn [md_fields md_ranges md_n_ranges md_n_oneofs gm_fields gm_field_ranges gm_n_field_ranges gm_oneof_case_init].
  rewrite map_length. rewrite M1, M2, M3, M4. rewrite ER. rewrite Z.eqb_refl, Nat.eqb_refl, ranges_self.
  cbn [andb]. rewrite !andb_true_r.
  apply andb_true_iff. split; [apply andb_true_iff; split|].
  - apply incr_incrb. apply (isort_key_incr pfield pf_number). exact Hnd.
  - apply forallb_forall. intros id Hid. apply in_map_iff in Hid. destruct Hid as (fd & <- & Hin).
    rewrite Forall_forall in HFs. destruct (HFs fd Hin) as [Hnum _ _ _ _ _ _ _]. lia.
  - rewrite map_length. unfold sorted, sort_fields. rewrite isort_by_length. lia.
Qed.

(* ---- everything one protoc run defines *)
Theorem gen_env_ok : forall tg fs,
  let syms := map gm_sym (go_msgs (gen_all tg fs)) in
  (forall f, In f fs -> (pfl_syntax f = 2 \/ pfl_syntax f = 3) /\
                        forall m, In m (pfl_messages f) -> msg_hyp fs f syms m) ->
  env_ok (rt_env (gen_all tg fs)) = true.
Proof.
  intros tg fs syms H. unfold env_ok, rt_env. fold syms.
  rewrite map_length. replace (length (go_msgs (gen_all tg fs))) with (length syms) by (unfold syms; apply map_length).
  apply forallb_forall. intros d Hd. apply in_map_iff in Hd. destruct Hd as (g & <- & Hg).
  unfold gen_all in Hg. cbn [go_msgs] in Hg. apply in_flat_map in Hg. destruct Hg as (f & Hf & Hg).
  unfold gen_file_msgs in Hg. apply in_map_iff in Hg. destruct Hg as (m & <- & Hm).
  destruct (H f Hf) as [Hsyn Hms]. apply gen_desc_ok; [exact Hsyn | exact (Hms m Hm)].
Qed.

(* ---- the hypotheses are satisfiable: a proto2 file with one message {optional int32 a = 1; optional string s = 2; repeated sint64 r = 5 [packed]} *)
Definition ex_pf (name : str) (num : Z) (lab : plabel) (ty : ptype) (packed : option bool) : pfield :=
  {| pf_name := name; pf_number := num; pf_label := lab; pf_type := ty; pf_type_name := []; pf_oneof := None;
     pf_packed := packed; pf_deprecated := false; pf_string_as_bytes := false; pf_default := None; pf_proto3_optional := false |}.
Definition ex_pm : pmsg :=
  {| pm_full_name := [77]; pm_is_nested := false; pm_base_field_name := [98;97;115;101]; pm_gen_pack_helpers := None;
     pm_gen_init_helpers := None; pm_oneofs := [];
     pm_fields := [ex_pf [115] 2 POptional PString None; ex_pf [97] 1 POptional PInt32 None; ex_pf [114] 5 PRepeated PSint64 (Some true)] |}.
Definition ex_file : pfile :=
  {| pfl_name := [120]; pfl_package := []; pfl_syntax := 2; pfl_c_package := None; pfl_no_generate := false;
     pfl_const_strings := false; pfl_use_oneof_field_name := false; pfl_gen_pack_helpers := true; pfl_gen_init_helpers := true;
     pfl_optimize_for := OptUnset; pfl_messages := [ex_pm]; pfl_enums := []; pfl_services := [] |}.

Example ex_hyps : forall syms, msg_hyp [ex_file] ex_file syms ex_pm.
Proof.
  intros syms. constructor.
  - cbn. repeat constructor; cbn; intuition congruence.
  - cbn. repeat constructor; cbn; try lia; try (intros; discriminate); try exact I.
  - cbn. lia.
Qed.
Example ex_concl : env_ok (rt_env (gen_all true [ex_file])) = true.
Proof. vm_compute. reflexivity. Qed.

(* C07 / C08: the allocation discipline as a monitor over the sequence of allocator events of one
   protobuf_c_message_unpack (+ free_unpacked) run.  The events are what the recording allocator of
   harness/c/impl_driver.c observes (op UNPACKT); the monitor is extracted and run on those traces. *)
From Coq Require Import ZArith List Bool Arith.
Import ListNotations.

Inductive ev :=
| EvAlloc (id : nat) (size : Z)      (* request id granted: a new block *)
| EvRefuse (id : nat) (size : Z)     (* request id refused *)
| EvFree (id : nat)                  (* the block of request id handed back to the allocator *)
| EvBadFree                          (* free of NULL, of a pointer that is no live block of this allocator
                                        (static default, already freed, foreign) *)
| EvRet (ok : bool)                  (* protobuf_c_message_unpack returned (a message / NULL) *)
| EvFreeDone.                        (* protobuf_c_message_free_unpacked returned *)

Record mon := { live : list nat; seen : list nat; refused : bool }.
Definition mon0 : mon := {| live := []; seen := []; refused := false |}.

Definition mem (x : nat) (l : list nat) : bool := existsb (Nat.eqb x) l.

Definition step (s : mon) (e : ev) : option mon :=
  match e with
  | EvAlloc id _ =>
      if mem id (seen s) then None
      else Some {| live := id :: live s; seen := id :: seen s; refused := refused s |}
  | EvRefuse _ _ => Some {| live := live s; seen := seen s; refused := true |}
  | EvFree id =>
      if mem id (live s)
      then Some {| live := filter (fun y => negb (Nat.eqb id y)) (live s); seen := seen s; refused := refused s |}
      else None
  | EvBadFree => None
  | EvRet true => if refused s then None else Some s
  | EvRet false => match live s with [] => Some s | _ => None end
  | EvFreeDone => match live s with [] => Some s | _ => None end
  end.

Fixpoint run (s : mon) (evs : list ev) : option mon :=
  match evs with
  | [] => Some s
  | e :: t => match step s e with Some s' => run s' t | None => None end
  end.

Definition monitor (evs : list ev) : bool := match run mon0 evs with Some _ => true | None => false end.

(* Memory- and arithmetic-safety of the decoding-side leaf functions.

   Gen/LeafC.v pairs every regenerated C function f with a boolean f_ok that is
   true iff running f on those arguments performs no undefined behaviour (array
   reads inside the buffer, shift amounts in range, no signed overflow, loops
   ending within their fuel).  This file proves f_ok = true under exactly the
   preconditions established at the call sites of the parser
   (protobuf_c_message_unpack, parse_required_member,
   parse_packed_repeated_member, ...), for ARBITRARY buffer contents: no lemma
   below assumes anything about the bytes, not even that they are < 256.

   It also proves the consumed-length bounds that the termination argument of
   the parser relies on. *)
From Coq Require Import ZArith List Bool Lia ZifyBool.
From PBC Require Import Base.CInt Base.Bits Gen.LeafC Impl.Desc Proofs.Lookup.
From PBC Require Gen.LeafC_BE.
Import ListNotations.
Local Open Scope Z_scope.

Ltac Zify.zify_post_hook ::= Z.div_mod_to_equations.

Definition bytes (d : list Z) : Prop := Forall (fun b => 0 <= b < 256) d.
Definition zlen (d : list Z) : Z := Z.of_nat (length d).

(* ------------------------------------------------------------------ *)
(* Loops: invariant + variant rules for the fuelled combinators.       *)

Section WhileRules.
Context {St R : Type}.
Variable body : St -> step St R.
Variable I : St -> Prop.
Variable m : St -> nat.
Hypothesis Hstep : forall s s', I s -> body s = Continue s' -> I s' /\ (m s' < m s)%nat.

Section Ok.
Variable okf : St -> bool.
Hypothesis Hok : forall s, I s -> okf s = true.

Lemma while_ok_inv : forall fuel s, I s -> (m s < fuel)%nat -> while_ok fuel body okf s = true.
Proof.
  induction fuel as [|fuel IH]; intros s Hs Hm; [lia|].
  cbn [while_ok]. rewrite (Hok s Hs). cbn [andb].
  destruct (body s) as [s'| |] eqn:E; auto.
  destruct (Hstep s s' Hs E) as [Hs' Hm']. apply IH; [exact Hs'|lia].
Qed.
End Ok.

Section Post.
Variable P : St -> Prop.
Variable Q : R -> Prop.
Hypothesis Hbreak : forall s s', I s -> body s = Break s' -> P s'.
Hypothesis Hret : forall s r, I s -> body s = Return r -> Q r.

Lemma while_inv : forall fuel s, I s -> (m s < fuel)%nat ->
  match while_ fuel body s with LDone s' => P s' | LRet r => Q r | LFuel => False end.
Proof.
  induction fuel as [|fuel IH]; intros s Hs Hm; [lia|].
  cbn [while_].
  destruct (body s) as [s'|s'|r] eqn:E.
  - destruct (Hstep s s' Hs E) as [Hs' Hm']. apply IH; [exact Hs'|lia].
  - exact (Hbreak s s' Hs E).
  - exact (Hret s r Hs E).
Qed.
End Post.

Lemma while_nofuel : forall fuel s, I s -> (m s < fuel)%nat -> while_ fuel body s <> LFuel.
Proof.
  intros fuel s Hs Hm E.
  pose proof (while_inv (fun _ => True) (fun _ => True) (fun _ _ _ _ => Logic.I) (fun _ _ _ _ => Logic.I) fuel s Hs Hm) as H.
  rewrite E in H. exact H.
Qed.
End WhileRules.

(* small helpers *)
Lemma idx_ok_in : forall d i, 0 <= i < zlen d -> idx_ok d i = true.
Proof. intros d i H. unfold idx_ok, zlen in *. lia. Qed.

Lemma shift_ok_in : forall w n, 0 <= n < w -> shift_ok w n = true.
Proof. intros w n H. unfold shift_ok. lia. Qed.

Lemma ridx_ok_in : forall rs i, 0 <= i < Z.of_nat (length rs) -> ridx_ok rs i = true.
Proof. intros rs i H. unfold ridx_ok. lia. Qed.

Lemma u32_id : forall v, 0 <= v < 4294967296 -> u32 v = v.
Proof. exact u32_small. Qed.

(* all remaining [if]s have [true] in every branch *)
Ltac all_true :=
  repeat match goal with
         | |- (if ?c then _ else _) = true => destruct c
         | |- (let '(_, _) := ?p in _) = true => destruct p
         end; reflexivity.

(* ------------------------------------------------------------------ *)
(* 1. parse_tag_and_wiretype                                           *)

Section Tag.
Variables (len : Z) (d : list Z).
Hypothesis Hlen : 1 <= len <= zlen d.

Let max_rv := u32 (if len >? 5 then 5 else len).

Lemma max_rv_bounds : 1 <= max_rv <= 5 /\ max_rv <= len.
Proof. unfold max_rv, u32. destruct (len >? 5) eqn:E; lia. Qed.

Definition tag_I (st : Z * Z * Z * Z) : Prop :=
  let '(rv, tag, shift, tag_out) := st in 1 <= rv <= max_rv /\ shift = 7 * rv - 3.
Definition tag_m (st : Z * Z * Z * Z) : nat :=
  let '(rv, tag, shift, tag_out) := st in Z.to_nat (max_rv - rv).

Theorem parse_tag_and_wiretype_safe_len : forall t w,
  parse_tag_and_wiretype_ok len d t w = true.
Proof.
  intros t w. pose proof max_rv_bounds as HM.
  unfold parse_tag_and_wiretype_ok. cbv zeta. fold max_rv.
  rewrite (idx_ok_in d 0) by lia. cbn [andb].
  destruct (Z.land (rd d 0) 248 =? 0); [reflexivity|].
  destruct (Z.land (rd d 0) 128 =? 0); [reflexivity|].
  match goal with |- context [@while_ok _ _ _ ?b ?o ?s] => set (body := b); set (okf := o); set (s0 := s) end.
  assert (Hstep : forall s s', tag_I s -> body s = Continue s' -> tag_I s' /\ (tag_m s' < tag_m s)%nat).
  { intros [[[rv tag] shift] tout] s' [Hrv Hsh] Hb.
    cbv beta iota zeta delta [body] in Hb.
    destruct (Z.ltb_spec rv max_rv) as [Hlt|Hge]; [|discriminate Hb].
    destruct (negb (Z.land (rd d rv) 128 =? 0)).
    - inversion Hb; subst s'; clear Hb. cbv beta iota delta [tag_I tag_m].
      rewrite (u32_id (rv + 1)), (u32_id (shift + 7)) by lia. lia.
    - destruct (_ =? 0) in Hb; discriminate Hb. }
  assert (Hok : forall s, tag_I s -> okf s = true).
  { intros [[[rv tag] shift] tout] [Hrv Hsh].
    cbv beta iota zeta delta [okf].
    destruct (Z.ltb_spec rv max_rv) as [Hlt|Hge]; [|reflexivity].
    rewrite (idx_ok_in d rv) by lia. rewrite (shift_ok_in 32 shift) by lia. cbn [andb].
    all_true. }
  assert (H0 : tag_I s0) by (subst s0; cbv beta iota delta [tag_I]; lia).
  assert (Hm0 : (tag_m s0 < 8)%nat) by (subst s0; cbv beta iota delta [tag_m]; lia).
  rewrite (while_ok_inv body tag_I tag_m Hstep okf Hok 8 s0 H0 Hm0). cbn [andb].
  pose proof (while_nofuel body tag_I tag_m Hstep 8 s0 H0 Hm0) as NF.
  destruct (while_ 8 body s0) as [[[[? ?] ?] ?]| |]; [reflexivity|reflexivity|congruence].
Qed.

(* (a) the number of bytes consumed *)
Theorem parse_tag_and_wiretype_used : forall t w used tag wt,
  parse_tag_and_wiretype len d t w = (used, tag, wt) ->
  0 <= used <= 5 /\ used <= len.
Proof.
  intros t w used tag wt. pose proof max_rv_bounds as HM.
  unfold parse_tag_and_wiretype. cbv zeta. fold max_rv.
  destruct (Z.land (rd d 0) 248 =? 0); [intros E; inversion E; lia|].
  destruct (Z.land (rd d 0) 128 =? 0); [intros E; inversion E; lia|].
  match goal with |- context [@while_ _ _ _ ?b ?s] => set (body := b); set (s0 := s) end.
  assert (Hstep : forall s s', tag_I s -> body s = Continue s' -> tag_I s' /\ (tag_m s' < tag_m s)%nat).
  { intros [[[rv tg] shift] tout] s' [Hrv Hsh] Hb.
    cbv beta iota zeta delta [body] in Hb.
    destruct (Z.ltb_spec rv max_rv) as [Hlt|Hge]; [|discriminate Hb].
    destruct (negb (Z.land (rd d rv) 128 =? 0)).
    - inversion Hb; subst s'; clear Hb. cbv beta iota delta [tag_I tag_m].
      rewrite (u32_id (rv + 1)), (u32_id (shift + 7)) by lia. lia.
    - destruct (_ =? 0) in Hb; discriminate Hb. }
  set (Q := fun r : Z * Z * Z => 0 <= fst (fst r) <= max_rv).
  assert (Hret : forall s r, tag_I s -> body s = Return r -> Q r).
  { intros [[[rv tg] shift] tout] r [Hrv Hsh] Hb.
    cbv beta iota zeta delta [body] in Hb.
    destruct (Z.ltb_spec rv max_rv) as [Hlt|Hge]; [|discriminate Hb].
    destruct (negb (Z.land (rd d rv) 128 =? 0)); [discriminate Hb|].
    destruct (_ =? 0) in Hb; inversion Hb; subst r; unfold Q; cbn [fst].
    - lia.
    - rewrite (u32_id (rv + 1)) by lia. lia. }
  assert (H0 : tag_I s0) by (subst s0; cbv beta iota delta [tag_I]; lia).
  assert (Hm0 : (tag_m s0 < 8)%nat) by (subst s0; cbv beta iota delta [tag_m]; lia).
  pose proof (while_inv body tag_I tag_m Hstep (fun _ => True) Q (fun _ _ _ _ => Logic.I) Hret 8 s0 H0 Hm0) as W.
  destruct (while_ 8 body s0) as [[[[? ?] ?] ?]|r|]; [| |contradiction].
  - intros E; inversion E; lia.
  - intros E; subst r. unfold Q in W. cbn [fst] in W. lia.
Qed.
End Tag.

Theorem parse_tag_and_wiretype_safe : forall d t w, d <> [] ->
  parse_tag_and_wiretype_ok (zlen d) d t w = true.
Proof.
  intros d t w Hd. apply parse_tag_and_wiretype_safe_len.
  unfold zlen. destruct d; [congruence|]. cbn [length]. lia.
Qed.

(* ------------------------------------------------------------------ *)
(* 2. scan_length_prefixed_data                                        *)

Section LenPrefix.
Variables (len : Z) (d : list Z).
Hypothesis Hlen0 : 0 <= len.

Let hdr_max := u32 (if len <? 5 then len else 5).

Lemma hdr_max_bounds : 0 <= hdr_max <= 5 /\ hdr_max <= len.
Proof. unfold hdr_max, u32. destruct (len <? 5) eqn:E; lia. Qed.

Definition lp_I (st : Z * Z * Z) : Prop :=
  let '(i, val, shift) := st in 0 <= i <= hdr_max /\ shift = 7 * i /\ 0 <= val.
Definition lp_m (st : Z * Z * Z) : nat :=
  let '(i, val, shift) := st in Z.to_nat (hdr_max - i).

Lemma lp_val_nonneg : forall val b sh, 0 <= val -> 0 <= Z.lor val (u64 (Z.shiftl (Z.land b 127) sh)).
Proof. intros val b sh Hv. apply Z.lor_nonneg. split; [exact Hv|]. pose proof (u64_range (Z.shiftl (Z.land b 127) sh)). lia. Qed.

Theorem scan_length_prefixed_data_safe : forall p, len <= zlen d ->
  scan_length_prefixed_data_ok len d p = true.
Proof.
  intros p Hlen. pose proof hdr_max_bounds as HM.
  unfold scan_length_prefixed_data_ok. cbv zeta. fold hdr_max.
  match goal with |- context [@while_ok _ _ _ ?b ?o ?s] => set (body := b); set (okf := o); set (s0 := s) end.
  assert (Hstep : forall s s', lp_I s -> body s = Continue s' -> lp_I s' /\ (lp_m s' < lp_m s)%nat).
  { intros [[i val] shift] s' (Hi & Hsh & Hv) Hb.
    cbv beta iota zeta delta [body] in Hb.
    destruct (Z.ltb_spec i hdr_max) as [Hlt|Hge]; [|discriminate Hb].
    destruct (Z.land (rd d i) 128 =? 0); [discriminate Hb|].
    inversion Hb; subst s'; clear Hb. cbv beta iota delta [lp_I lp_m].
    rewrite (u32_id (i + 1)), (u32_id (shift + 7)) by lia.
    pose proof (lp_val_nonneg val (rd d i) shift Hv). lia. }
  assert (Hok : forall s, lp_I s -> okf s = true).
  { intros [[i val] shift] (Hi & Hsh & Hv).
    cbv beta iota zeta delta [okf].
    destruct (Z.ltb_spec i hdr_max) as [Hlt|Hge]; [|reflexivity].
    rewrite (idx_ok_in d i) by lia. rewrite (shift_ok_in 64 shift) by lia. cbn [andb].
    all_true. }
  assert (H0 : lp_I s0) by (subst s0; cbv beta iota delta [lp_I]; lia).
  assert (Hm0 : (lp_m s0 < 8)%nat) by (subst s0; cbv beta iota delta [lp_m]; lia).
  rewrite (while_ok_inv body lp_I lp_m Hstep okf Hok 8 s0 H0 Hm0). cbn [andb].
  pose proof (while_nofuel body lp_I lp_m Hstep 8 s0 H0 Hm0) as NF.
  destruct (while_ 8 body s0) as [[[? ?] ?]| |]; [|reflexivity|congruence].
  all_true.
Qed.

(* (c) a non-zero result covers its own prefix and stays inside len *)
Theorem scan_length_prefixed_data_used : forall p l pref,
  scan_length_prefixed_data len d p = (l, pref) ->
  l = 0 \/ (1 <= pref <= 5 /\ pref <= l <= len).
Proof.
  intros p l pref. pose proof hdr_max_bounds as HM.
  unfold scan_length_prefixed_data. cbv zeta. fold hdr_max.
  match goal with |- context [@while_ _ _ _ ?b ?s] => set (body := b); set (s0 := s) end.
  assert (Hstep : forall s s', lp_I s -> body s = Continue s' -> lp_I s' /\ (lp_m s' < lp_m s)%nat).
  { intros [[i val] shift] s' (Hi & Hsh & Hv) Hb.
    cbv beta iota zeta delta [body] in Hb.
    destruct (Z.ltb_spec i hdr_max) as [Hlt|Hge]; [|discriminate Hb].
    destruct (Z.land (rd d i) 128 =? 0); [discriminate Hb|].
    inversion Hb; subst s'; clear Hb. cbv beta iota delta [lp_I lp_m].
    rewrite (u32_id (i + 1)), (u32_id (shift + 7)) by lia.
    pose proof (lp_val_nonneg val (rd d i) shift Hv). lia. }
  set (P := fun st : Z * Z * Z => let '(i, val, shift) := st in 0 <= i <= hdr_max /\ 0 <= val).
  assert (Hbreak : forall s s', lp_I s -> body s = Break s' -> P s').
  { intros [[i val] shift] s' (Hi & Hsh & Hv) Hb.
    cbv beta iota zeta delta [body] in Hb.
    destruct (Z.ltb_spec i hdr_max) as [Hlt|Hge].
    - destruct (Z.land (rd d i) 128 =? 0); [|discriminate Hb].
      inversion Hb; subst s'; clear Hb. cbv beta iota delta [P].
      pose proof (lp_val_nonneg val (rd d i) shift Hv). lia.
    - inversion Hb; subst s'; clear Hb. cbv beta iota delta [P]. lia. }
  assert (Hret : forall s (r : Z * Z), lp_I s -> body s = Return r -> False).
  { intros [[i val] shift] r _ Hb.
    cbv beta iota zeta delta [body] in Hb.
    destruct (i <? hdr_max); [|discriminate Hb].
    destruct (Z.land (rd d i) 128 =? 0); discriminate Hb. }
  assert (H0 : lp_I s0) by (subst s0; cbv beta iota delta [lp_I]; lia).
  assert (Hm0 : (lp_m s0 < 8)%nat) by (subst s0; cbv beta iota delta [lp_m]; lia).
  pose proof (while_inv body lp_I lp_m Hstep P (fun _ => False) Hbreak Hret 8 s0 H0 Hm0) as W.
  destruct (while_ 8 body s0) as [[[i val] shift]|r|]; [|contradiction|contradiction].
  cbv beta iota delta [P] in W. destruct W as [Hi Hv].
  destruct (Z.eqb_spec i hdr_max) as [Heq|Hne]; [intros E; inversion E; left; reflexivity|].
  rewrite (u32_id (i + 1)) by lia.
  destruct (Z.gtb_spec val 2147483647) as [Hbig|Hsmall]; [intros E; inversion E; left; reflexivity|].
  rewrite (u64_small (i + 1 + val)) by lia.
  destruct (Z.gtb_spec (i + 1 + val) len) as [Hover|Hfit]; intros E; inversion E; subst; [left; reflexivity|].
  right. lia.
Qed.
End LenPrefix.

(* ------------------------------------------------------------------ *)
(* 4. max_b128_numbers (before 3: count_packed_elements calls it)      *)

Definition b128_I (st : Z * list Z * Z) : Prop :=
  let '(l, dd, rv) := st in 0 <= l <= zlen dd.
Definition b128_m (st : Z * list Z * Z) : nat :=
  let '(l, dd, rv) := st in Z.to_nat l.

Theorem max_b128_numbers_safe : forall len d, 0 <= len <= zlen d ->
  max_b128_numbers_ok len d = true.
Proof.
  intros len d Hlen.
  unfold max_b128_numbers_ok. cbv zeta.
  match goal with |- context [@while_ok _ _ ?f ?b ?o ?s] => set (body := b); set (okf := o); set (s0 := s); set (fuel := f) end.
  assert (Hstep : forall s s', b128_I s -> body s = Continue s' -> b128_I s' /\ (b128_m s' < b128_m s)%nat).
  { intros [[l dd] rv] s' Hl Hb.
    cbv beta iota zeta delta [body] in Hb. cbv beta iota delta [b128_I] in Hl.
    destruct (Z.eqb_spec l 0) as [Hz|Hnz]; cbn [negb] in Hb; [discriminate Hb|].
    assert (Hu : 0 <= u64 (l - 1) <= l - 1) by (unfold u64; lia).
    destruct dd as [|x t]; [unfold zlen in Hl; cbn [length] in Hl; lia|].
    assert (Hsk : zlen (x :: t) = zlen t + 1) by (unfold zlen; cbn [length]; lia).
    destruct (Z.land (rd (x :: t) 0) 128 =? 0); inversion Hb; subst s'; clear Hb;
      cbv beta iota delta [b128_I b128_m skipn]; lia. }
  assert (Hok : forall s, b128_I s -> okf s = true).
  { intros [[l dd] rv] Hl.
    cbv beta iota zeta delta [okf]. cbv beta iota delta [b128_I] in Hl.
    destruct (Z.eqb_spec l 0) as [Hz|Hnz]; cbn [negb]; [reflexivity|].
    rewrite (idx_ok_in dd 0) by lia. cbn [andb]. all_true. }
  assert (H0 : b128_I s0) by (subst s0; cbv beta iota delta [b128_I]; lia).
  assert (Hm0 : (b128_m s0 < fuel)%nat) by (subst s0 fuel; cbv beta iota delta [b128_m]; lia).
  rewrite (while_ok_inv body b128_I b128_m Hstep okf Hok fuel s0 H0 Hm0). cbn [andb].
  pose proof (while_nofuel body b128_I b128_m Hstep fuel s0 H0 Hm0) as NF.
  destruct (while_ fuel body s0) as [[[? ?] ?]| |]; [reflexivity|reflexivity|congruence].
Qed.

(* ------------------------------------------------------------------ *)
(* 3. count_packed_elements: any type code at all                      *)

Theorem count_packed_elements_safe : forall ty len d c, 0 <= len <= zlen d ->
  count_packed_elements_ok ty len d c = true.
Proof.
  intros ty len d c Hlen. unfold count_packed_elements_ok. cbv zeta.
  rewrite (max_b128_numbers_safe len d Hlen). cbn [andb]. all_true.
Qed.

(* ------------------------------------------------------------------ *)
(* 5. scan_varint                                                      *)

Definition sv_body (n : Z) (d : list Z) : Z -> step Z Z := fun i =>
  if i <? n then (if Z.land (rd d i) 128 =? 0 then Break i else Continue (u32 (i + 1))) else Break i.
Definition sv_okf (n : Z) (d : list Z) : Z -> bool := fun i =>
  if i <? n then idx_ok d i && (if Z.land (rd d i) 128 =? 0 then true else true) else true.

Lemma scan_varint_ok_eq : forall len d,
  scan_varint_ok len d =
  let n := if len >? 10 then 10 else len in
  while_ok 12 (sv_body n d) (sv_okf n d) 0 &&
  match while_ 12 (sv_body n d) 0 with LDone _ => true | LRet _ => true | LFuel => false end.
Proof.
  intros len d. unfold scan_varint_ok. cbv zeta.
  destruct (len >? 10).
  - f_equal. destruct (while_ _ _ _) as [i| |]; [destruct (i =? 10)|..]; reflexivity.
  - f_equal. destruct (while_ _ _ _) as [i| |]; [destruct (i =? len)|..]; reflexivity.
Qed.

Lemma scan_varint_eq : forall len d,
  scan_varint len d =
  let n := if len >? 10 then 10 else len in
  match while_ 12 (sv_body n d) 0 with
  | LDone i => if i =? n then 0 else u32 (i + 1)
  | LRet r => r
  | LFuel => FUEL_OUT
  end.
Proof. intros len d. unfold scan_varint. cbv zeta. destruct (len >? 10); reflexivity. Qed.

Section ScanVarint.
Variables (n : Z) (d : list Z).
Hypothesis Hn : 0 <= n <= 10.

Definition sv_I (i : Z) : Prop := 0 <= i <= n.
Definition sv_m (i : Z) : nat := Z.to_nat (n - i).

Lemma sv_step : forall s s', sv_I s -> sv_body n d s = Continue s' -> sv_I s' /\ (sv_m s' < sv_m s)%nat.
Proof.
  intros i s' Hi Hb. unfold sv_body in Hb. unfold sv_I, sv_m in *.
  destruct (Z.ltb_spec i n) as [Hlt|Hge]; [|discriminate Hb].
  destruct (Z.land (rd d i) 128 =? 0); [discriminate Hb|].
  inversion Hb; subst s'; clear Hb. rewrite (u32_id (i + 1)) by lia. lia.
Qed.

Lemma sv_loop_ok : n <= zlen d -> while_ok 12 (sv_body n d) (sv_okf n d) 0 = true.
Proof.
  intros Hd. apply (while_ok_inv (sv_body n d) sv_I sv_m sv_step).
  - intros i Hi. unfold sv_okf, sv_I in *.
    destruct (Z.ltb_spec i n) as [Hlt|Hge]; [|reflexivity].
    rewrite (idx_ok_in d i) by lia. cbn [andb]. all_true.
  - unfold sv_I. lia.
  - unfold sv_m. lia.
Qed.

Lemma sv_loop_res : exists i, while_ 12 (sv_body n d) 0 = LDone i /\ 0 <= i <= n.
Proof.
  assert (H0 : sv_I 0) by (unfold sv_I; lia).
  assert (Hm0 : (sv_m 0 < 12)%nat) by (unfold sv_m; lia).
  pose proof (while_inv (sv_body n d) sv_I sv_m sv_step sv_I (fun _ => False)) as W.
  specialize (W ltac:(intros i s' Hi Hb; unfold sv_body in Hb;
                      destruct (i <? n); [destruct (Z.land (rd d i) 128 =? 0)|];
                      inversion Hb; subst; exact Hi)).
  specialize (W ltac:(intros i r Hi Hb; unfold sv_body in Hb;
                      destruct (i <? n); [destruct (Z.land (rd d i) 128 =? 0)|];
                      discriminate Hb)).
  specialize (W 12%nat 0 H0 Hm0).
  destruct (while_ 12 (sv_body n d) 0) as [i|r|]; [|contradiction|contradiction].
  exists i. split; [reflexivity|exact W].
Qed.
End ScanVarint.

Theorem scan_varint_safe : forall len d, 0 <= len <= zlen d -> scan_varint_ok len d = true.
Proof.
  intros len d Hlen. rewrite scan_varint_ok_eq. cbv zeta.
  set (n := if len >? 10 then 10 else len).
  assert (Hn : 0 <= n <= 10 /\ n <= len) by (subst n; destruct (Z.gtb_spec len 10); lia).
  rewrite (sv_loop_ok n d) by lia. cbn [andb].
  destruct (sv_loop_res n d ltac:(lia)) as (i & E & _). rewrite E. reflexivity.
Qed.

(* (b) the scanned length; only needs len to be a valid unsigned value *)
Theorem scan_varint_used : forall len d, 0 <= len ->
  0 <= scan_varint len d <= 10 /\ scan_varint len d <= len.
Proof.
  intros len d Hlen. rewrite scan_varint_eq. cbv zeta.
  set (n := if len >? 10 then 10 else len).
  assert (Hn : 0 <= n <= 10 /\ n <= len) by (subst n; destruct (Z.gtb_spec len 10); lia).
  destruct (sv_loop_res n d ltac:(lia)) as (i & E & Hi). rewrite E.
  destruct (Z.eqb_spec i n); [lia|]. rewrite (u32_id (i + 1)) by lia. lia.
Qed.

(* ------------------------------------------------------------------ *)
(* 6. the varint value parsers                                         *)

Theorem parse_uint32_safe : forall len d, 1 <= len <= zlen d -> parse_uint32_ok len d = true.
Proof.
  intros len d Hlen. unfold parse_uint32_ok. cbv zeta.
  rewrite (idx_ok_in d 0) by lia. cbn [andb].
  destruct (Z.gtb_spec len 1); [|reflexivity]. rewrite (idx_ok_in d 1) by lia. cbn [andb].
  destruct (Z.gtb_spec len 2); [|reflexivity]. rewrite (idx_ok_in d 2) by lia. cbn [andb].
  destruct (Z.gtb_spec len 3); [|reflexivity]. rewrite (idx_ok_in d 3) by lia. cbn [andb].
  destruct (Z.gtb_spec len 4); [|reflexivity]. rewrite (idx_ok_in d 4) by lia. reflexivity.
Qed.

Theorem parse_int32_safe : forall len d, 1 <= len <= zlen d -> parse_int32_ok len d = true.
Proof. intros len d Hlen. unfold parse_int32_ok. rewrite parse_uint32_safe by exact Hlen. reflexivity. Qed.

Definition pu64_I (len : Z) (st : Z * Z * Z) : Prop :=
  let '(i, rv, shift) := st in 4 <= i <= len /\ shift = 7 * i.
Definition pu64_m (len : Z) (st : Z * Z * Z) : nat :=
  let '(i, rv, shift) := st in Z.to_nat (len - i).

(* the shift amount is 7*i, so the tenth byte (i = 9, shift 63) is the last one
   that may be consumed: len <= 10 is necessary, see parse_uint64_11_unsafe *)
Theorem parse_uint64_safe : forall len d, 1 <= len <= zlen d -> len <= 10 -> parse_uint64_ok len d = true.
Proof.
  intros len d Hlen H10. unfold parse_uint64_ok. cbv zeta.
  destruct (Z.ltb_spec len 5) as [Hlt|Hge].
  { rewrite parse_uint32_safe by exact Hlen. reflexivity. }
  rewrite (idx_ok_in d 0), (idx_ok_in d 1), (idx_ok_in d 2), (idx_ok_in d 3) by lia. cbn [andb].
  match goal with |- context [@while_ok _ _ ?f ?b ?o ?s] => set (body := b); set (okf := o); set (s0 := s); set (fuel := f) end.
  assert (Hstep : forall s s', pu64_I len s -> body s = Continue s' -> pu64_I len s' /\ (pu64_m len s' < pu64_m len s)%nat).
  { intros [[i rv] shift] s' (Hi & Hsh) Hb.
    cbv beta iota zeta delta [body] in Hb.
    destruct (Z.ltb_spec i len) as [Hl|Hg]; [|discriminate Hb].
    inversion Hb; subst s'; clear Hb. cbv beta iota delta [pu64_I pu64_m].
    rewrite (u32_id (i + 1)), (u32_id (shift + 7)) by lia. lia. }
  assert (Hok : forall s, pu64_I len s -> okf s = true).
  { intros [[i rv] shift] (Hi & Hsh).
    cbv beta iota zeta delta [okf].
    destruct (Z.ltb_spec i len) as [Hl|Hg]; [|reflexivity].
    rewrite (idx_ok_in d i) by lia. rewrite (shift_ok_in 64 shift) by lia. reflexivity. }
  assert (H0 : pu64_I len s0) by (subst s0; cbv beta iota delta [pu64_I]; lia).
  assert (Hm0 : (pu64_m len s0 < fuel)%nat) by (subst s0 fuel; cbv beta iota delta [pu64_m]; lia).
  rewrite (while_ok_inv body (pu64_I len) (pu64_m len) Hstep okf Hok fuel s0 H0 Hm0). cbn [andb].
  pose proof (while_nofuel body (pu64_I len) (pu64_m len) Hstep fuel s0 H0 Hm0) as NF.
  destruct (while_ fuel body s0) as [[[? ?] ?]| |]; [reflexivity|reflexivity|congruence].
Qed.

(* an eleven-byte "varint" would shift a uint64_t by 70 *)
Lemma parse_uint64_11_unsafe : parse_uint64_ok 11 (repeat 0 11) = false.
Proof. vm_compute. reflexivity. Qed.

(* parse_boolean is also reached with wire types other than VARINT (there is no
   wire-type check in the BOOL case of parse_required_member), so len is NOT
   bounded by 10 at that call site; what holds is len <= remaining bytes, and
   len < 2^32 because the parameter is an unsigned. *)
Theorem parse_boolean_safe : forall len d, 0 <= len <= zlen d -> len < 4294967296 -> parse_boolean_ok len d = true.
Proof.
  intros len d Hlen H32. unfold parse_boolean_ok. cbv zeta.
  match goal with |- context [@while_ok _ _ ?f ?b ?o ?s] => set (body := b); set (okf := o); set (fuel := f) end.
  set (I := fun i : Z => 0 <= i <= len). set (m := fun i : Z => Z.to_nat (len - i)).
  assert (Hstep : forall s s', I s -> body s = Continue s' -> I s' /\ (m s' < m s)%nat).
  { intros i s' Hi Hb. unfold I, m in *.
    cbv beta iota zeta delta [body] in Hb.
    destruct (Z.ltb_spec i len) as [Hl|Hg]; [|discriminate Hb].
    destruct (negb (Z.land (rd d i) 127 =? 0)); [discriminate Hb|].
    inversion Hb; subst s'; clear Hb.
    rewrite (u32_id (i + 1)) by lia. lia. }
  assert (Hok : forall s, I s -> okf s = true).
  { intros i Hi. unfold I in Hi.
    cbv beta iota zeta delta [okf].
    destruct (Z.ltb_spec i len) as [Hl|Hg]; [|reflexivity].
    rewrite (idx_ok_in d i) by lia. cbn [andb]. all_true. }
  assert (H0 : I 0) by (unfold I; lia).
  assert (Hm0 : (m 0%Z < fuel)%nat) by (subst fuel; unfold m; lia).
  rewrite (while_ok_inv body I m Hstep okf Hok fuel 0 H0 Hm0). cbn [andb].
  pose proof (while_nofuel body I m Hstep fuel 0 H0 Hm0) as NF.
  destruct (while_ fuel body 0) as [?| |]; [reflexivity|reflexivity|congruence].
Qed.

(* the packed-repeated loops: s = scan_varint(rem, at); if (s == 0) fail;
   ... parse_xxx(s, at) *)
Corollary parse_after_scan_varint : forall len d, 0 <= len <= zlen d ->
  scan_varint len d <> 0 ->
  parse_uint32_ok (scan_varint len d) d = true /\
  parse_int32_ok (scan_varint len d) d = true /\
  parse_uint64_ok (scan_varint len d) d = true /\
  parse_boolean_ok (scan_varint len d) d = true.
Proof.
  intros len d Hlen Hnz. pose proof (scan_varint_used len d ltac:(lia)) as Hs.
  repeat split.
  - apply parse_uint32_safe; lia.
  - apply parse_int32_safe; lia.
  - apply parse_uint64_safe; lia.
  - apply parse_boolean_safe; lia.
Qed.

(* ------------------------------------------------------------------ *)
(* 7. fixed-width readers, both byte orders                            *)

Theorem parse_fixed_uint32_safe : forall d, 4 <= zlen d -> parse_fixed_uint32_ok d = true.
Proof. intros d H. unfold parse_fixed_uint32_ok, zlen in *. cbv zeta. lia. Qed.

Theorem parse_fixed_uint64_safe : forall d, 8 <= zlen d -> parse_fixed_uint64_ok d = true.
Proof. intros d H. unfold parse_fixed_uint64_ok, zlen in *. cbv zeta. lia. Qed.

Theorem be_parse_fixed_uint32_safe : forall d, 4 <= zlen d -> LeafC_BE.parse_fixed_uint32_ok d = true.
Proof.
  intros d H. unfold LeafC_BE.parse_fixed_uint32_ok.
  rewrite (idx_ok_in d 0), (idx_ok_in d 1), (idx_ok_in d 2), (idx_ok_in d 3) by lia. reflexivity.
Qed.

Theorem be_parse_fixed_uint64_safe : forall d, 8 <= zlen d -> LeafC_BE.parse_fixed_uint64_ok d = true.
Proof.
  intros d H. unfold LeafC_BE.parse_fixed_uint64_ok.
  rewrite be_parse_fixed_uint32_safe by lia.
  rewrite be_parse_fixed_uint32_safe; [reflexivity|].
  unfold zlen in *. rewrite skipn_length. lia.
Qed.

(* ------------------------------------------------------------------ *)
(* 8. zig-zag decoding: unsigned arithmetic only                       *)

Theorem unzigzag32_safe : forall v, unzigzag32_ok v = true.
Proof. reflexivity. Qed.
Theorem unzigzag64_safe : forall v, unzigzag64_ok v = true.
Proof. reflexivity. Qed.

(* ------------------------------------------------------------------ *)
(* 9. int_range_lookup                                                 *)

(* What safety needs from a range table (much less than ranges_ok): N entries
   plus the sentinel, start values that are ints, and range sizes (differences
   of consecutive orig_index, as computed in unsigned arithmetic) of at most
   2^31, so that value - start_value cannot overflow once the unsigned
   comparison has placed value inside the range. *)
Record ranges_safe (rs : list IntRange) (N : Z) : Prop := {
  rs_len : Z.of_nat (length rs) = N + 1;
  rs_N : 0 < N < 4294967296;
  rs_start : forall i, 0 <= i < N -> -2147483648 <= rst rs i;
  rs_size : forall i, 0 <= i < N -> u32 (rorig rs (i + 1) - rorig rs i) <= 2147483648;
}.

Lemma ranges_ok_safe : forall rs N, ranges_ok rs N -> ranges_safe rs N.
Proof.
  intros rs N R. pose proof (ro_N _ _ R). constructor.
  - exact (ro_len _ _ R).
  - lia.
  - intros i Hi. apply (ro_start _ _ R i Hi).
  - intros i Hi. pose proof (ro_orig _ _ R i ltac:(lia)). pose proof (ro_orig _ _ R (i + 1) ltac:(lia)).
    pose proof (ro_sz _ _ R i Hi). unfold rsz, rorig, u32 in *. lia.
Qed.

Lemma found_in_s32 : forall v sv sz, -2147483648 <= v < 2147483648 -> -2147483648 <= sv -> sv <= v ->
  u32 (u32 v - u32 sv) < sz -> sz <= 2147483648 -> in_s32 (v - sv) = true.
Proof. intros v sv sz Hv Hsv Hle Hlt Hsz. unfold in_s32, u32 in *. lia. Qed.

Lemma log2_half : forall n n', 1 < n -> 0 <= n' <= n / 2 -> Z.log2 n' < Z.log2 n.
Proof.
  intros n n' Hn Hn'.
  assert (H1 : Z.log2 n' <= Z.log2 (n / 2)) by (apply Z.log2_le_mono; lia).
  assert (H2 : Z.log2 (n / 2) = Z.max 0 (Z.log2 n - 1)).
  { change 2 with (2 ^ 1). rewrite <- Z.shiftr_div_pow2 by lia. apply Z.log2_shiftr. lia. }
  assert (H3 : 1 <= Z.log2 n) by (change 1 with (Z.log2 2) at 1; apply Z.log2_le_mono; lia).
  lia.
Qed.

Section Lookup.
Variables (rs : list IntRange) (N v : Z).
Hypothesis RS : ranges_safe rs N.
Hypothesis Hv : -2147483648 <= v < 2147483648.

Definition irl_I (st : Z * Z) : Prop := let '(n, start) := st in 0 <= start /\ 0 <= n /\ start + n <= N.
Definition irl_m (st : Z * Z) : nat := let '(n, start) := st in Z.to_nat (Z.log2 n).

Theorem int_range_lookup_safe_gen : int_range_lookup_ok N rs v = true.
Proof.
  pose proof (rs_N _ _ RS) as HN. pose proof (rs_len _ _ RS) as HL.
  unfold int_range_lookup_ok. cbv zeta.
  destruct (Z.eqb_spec N 0) as [?|_]; [reflexivity|].
  match goal with |- context [@while_ok _ _ ?f ?b ?o ?s] => set (body := b); set (okf := o); set (s0 := s) end.
  assert (Hstep : forall s s', irl_I s -> body s = Continue s' -> irl_I s' /\ (irl_m s' < irl_m s)%nat).
  { intros [n start] s' (I1 & I2 & I3) Hb.
    cbv beta iota zeta delta [body] in Hb.
    destruct (Z.gtb_spec n 1) as [Hgt|Hle]; [|discriminate Hb].
    rewrite (u32_id (start + n / 2)) in Hb by lia.
    set (mid := start + n / 2) in *.
    assert (Hm : start < mid < start + n) by (subst mid; lia).
    rewrite (u32_id (mid + 1)), (u32_id (start + n)), (u32_id (mid - start)) in Hb by lia.
    rewrite (u32_id (start + n - (mid + 1))) in Hb by lia.
    assert (Hlog : forall n', 0 <= n' <= n / 2 -> (Z.to_nat (Z.log2 n') < Z.to_nat (Z.log2 n))%nat).
    { intros n' Hn'. pose proof (log2_half n n' Hgt Hn'). pose proof (Z.log2_nonneg n'). lia. }
    destruct (v <? start_value (rdr rs mid)).
    - inversion Hb; subst s'; clear Hb. cbv beta iota delta [irl_I irl_m].
      split; [lia|]. apply Hlog. subst mid. lia.
    - destruct (_ >=? _) in Hb; [|discriminate Hb].
      inversion Hb; subst s'; clear Hb. cbv beta iota delta [irl_I irl_m].
      split; [lia|]. apply Hlog. subst mid. lia. }
  assert (Hok : forall s, irl_I s -> okf s = true).
  { intros [n start] (I1 & I2 & I3).
    cbv beta iota zeta delta [okf].
    destruct (Z.gtb_spec n 1) as [Hgt|Hle]; [|reflexivity].
    rewrite (u32_id (start + n / 2)) by lia.
    set (mid := start + n / 2) in *.
    assert (Hm : start < mid < start + n) by (subst mid; lia).
    rewrite (u32_id (mid + 1)) by lia.
    rewrite (ridx_ok_in rs mid), (ridx_ok_in rs (mid + 1)) by lia. cbn [andb].
    destruct (Z.ltb_spec v (start_value (rdr rs mid))) as [Hlt|Hge]; [reflexivity|].
    destruct (_ >=? _) eqn:E; [reflexivity|].
    rewrite (found_in_s32 v (start_value (rdr rs mid)) (u32 (orig_index (rdr rs (mid + 1)) - orig_index (rdr rs mid)))).
    + reflexivity.
    + exact Hv.
    + apply (rs_start _ _ RS mid). lia.
    + exact Hge.
    + lia.
    + apply (rs_size _ _ RS mid). lia. }
  assert (H0 : irl_I s0) by (subst s0; cbv beta iota delta [irl_I]; lia).
  assert (Hm0 : (irl_m s0 < 40)%nat).
  { subst s0; cbv beta iota delta [irl_m].
    assert (Z.log2 N < 32) by (apply Z.log2_lt_pow2; [lia|change (2 ^ 32) with 4294967296; lia]).
    pose proof (Z.log2_nonneg N). lia. }
  rewrite (while_ok_inv body irl_I irl_m Hstep okf Hok 40 s0 H0 Hm0). cbn [andb].
  assert (Hbreak : forall s s', irl_I s -> body s = Break s' -> irl_I s' /\ fst s' <= 1).
  { intros [n start] s' HI Hb.
    cbv beta iota zeta delta [body] in Hb.
    destruct (Z.gtb_spec n 1) as [Hgt|Hle].
    - destruct (_ <? _) in Hb; [discriminate Hb|]. destruct (_ >=? _) in Hb; discriminate Hb.
    - inversion Hb; subst s'. split; [exact HI|cbn [fst]; lia]. }
  pose proof (while_inv body irl_I irl_m Hstep (fun s' => irl_I s' /\ fst s' <= 1) (fun _ => True)
                Hbreak (fun _ _ _ _ => Logic.I) 40 s0 H0 Hm0) as W.
  destruct (while_ 40 body s0) as [[n start]|r|]; [|reflexivity|contradiction].
  destruct W as [(I1 & I2 & I3) Hn1]. cbn [fst] in Hn1.
  destruct (Z.gtb_spec n 0) as [Hpos|Hz]; [|reflexivity].
  rewrite (u32_id (start + 1)) by lia.
  rewrite (ridx_ok_in rs start), (ridx_ok_in rs (start + 1)) by lia. cbn [andb].
  destruct (Z.leb_spec (start_value (rdr rs start)) v) as [Hle|Hgt]; cbn [implb andb]; [|reflexivity].
  destruct (Z.ltb_spec (u32 (u32 v - u32 (start_value (rdr rs start))))
                       (u32 (orig_index (rdr rs (start + 1)) - orig_index (rdr rs start)))) as [Hin|Hout];
    [|reflexivity].
  rewrite (found_in_s32 v (start_value (rdr rs start)) _ Hv (rs_start _ _ RS start ltac:(lia)) Hle Hin
             (rs_size _ _ RS start ltac:(lia))).
  reflexivity.
Qed.
End Lookup.

Theorem int_range_lookup_safe : forall n rs v, ranges_ok rs n -> -2147483648 <= v < 2147483648 ->
  int_range_lookup_ok n rs v = true.
Proof. intros n rs v R Hv. apply int_range_lookup_safe_gen; [apply ranges_ok_safe; exact R|exact Hv]. Qed.

(* rs_size is necessary: a single range wider than 2^31 makes the int
   subtraction value - start_value overflow (here 2^31-2 - (-2^31)) *)
Lemma int_range_lookup_wide_range_unsafe :
  int_range_lookup_ok 1 [ {| start_value := -2147483648; orig_index := 0 |};
                          {| start_value := 0; orig_index := 4294967295 |} ] 2147483646 = false.
Proof. vm_compute. reflexivity. Qed.

(* an empty table is never indexed, whatever the pointer *)
Theorem int_range_lookup_safe_0 : forall rs v, int_range_lookup_ok 0 rs v = true.
Proof. reflexivity. Qed.

(* ------------------------------------------------------------------ *)
(* 10. the type-code switches: safe for every value of the enum, and   *)
(*     the unreachable default is not reached for the 17 type codes    *)

Theorem get_type_min_size_safe : forall t, get_type_min_size_ok t = true.
Proof. intros t. unfold get_type_min_size_ok. all_true. Qed.

Theorem sizeof_elt_in_repeated_array_safe : forall t, sizeof_elt_in_repeated_array_ok t = true.
Proof. intros t. unfold sizeof_elt_in_repeated_array_ok. cbv zeta. all_true. Qed.

Theorem is_packable_type_safe : forall t, is_packable_type_ok t = true.
Proof. reflexivity. Qed.

Theorem type_code_range : forall t, 0 <= type_code t <= 16.
Proof. intros t. destruct t; cbv; split; discriminate. Qed.

(* PROTOBUF_C__ASSERT_NOT_REACHED in sizeof_elt_in_repeated_array *)
Theorem sizeof_elt_in_repeated_array_known : forall t, 0 < sizeof_elt_in_repeated_array (type_code t).
Proof. intros t. destruct t; reflexivity. Qed.

(* ------------------------------------------------------------------ *)
(* The statements as requested, with [bytes d] where the task had it    *)
(* (it is never needed).                                               *)

Corollary parse_tag_and_wiretype_safe_bytes : forall d t w, bytes d -> d <> [] ->
  parse_tag_and_wiretype_ok (zlen d) d t w = true.
Proof. intros d t w _ Hd. apply parse_tag_and_wiretype_safe. exact Hd. Qed.

Print Assumptions parse_tag_and_wiretype_safe_len.
Print Assumptions parse_tag_and_wiretype_safe.
Print Assumptions parse_tag_and_wiretype_used.
Print Assumptions scan_length_prefixed_data_safe.
Print Assumptions scan_length_prefixed_data_used.
Print Assumptions count_packed_elements_safe.
Print Assumptions max_b128_numbers_safe.
Print Assumptions scan_varint_safe.
Print Assumptions scan_varint_used.
Print Assumptions parse_uint32_safe.
Print Assumptions parse_int32_safe.
Print Assumptions parse_uint64_safe.
Print Assumptions parse_boolean_safe.
Print Assumptions parse_after_scan_varint.
Print Assumptions parse_fixed_uint32_safe.
Print Assumptions parse_fixed_uint64_safe.
Print Assumptions be_parse_fixed_uint32_safe.
Print Assumptions be_parse_fixed_uint64_safe.
Print Assumptions unzigzag32_safe.
Print Assumptions unzigzag64_safe.
Print Assumptions int_range_lookup_safe_gen.
Print Assumptions int_range_lookup_safe.
Print Assumptions int_range_lookup_safe_0.
Print Assumptions get_type_min_size_safe.
Print Assumptions sizeof_elt_in_repeated_array_safe.
Print Assumptions is_packable_type_safe.
Print Assumptions sizeof_elt_in_repeated_array_known.

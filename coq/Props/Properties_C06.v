(* C06 -- whatever the parser accepts is well-formed, re-serialisable and stable.
   Proved (Proofs/ParseGood.v on top of ParseSafe / UnpackSafe / MergeSafe, then WfCanon / CheckReqsub / WNormPack):
   for every generator-producible environment (env_ok), every message type and EVERY byte string shorter than
   2^28 that the parser accepts, the returned message
     - is well-formed (wf_msg: what the serialisers may be handed),
     - is accepted by protobuf_c_message_check (check_msg),
     - is well-typed (typed_msg) provided every unknown field number it retained is below 2^29 (unk_small) --
       the parser does accept 5-byte keys carrying larger numbers; those are not valid protobuf field numbers and
       cannot be written back faithfully (example below);
   hence it can be serialised (the three serialisers agree, C02), what is written parses again, to the message's
   normal form, and serialising that reproduces the bytes exactly: parse -> serialise -> parse -> serialise is
   stable from the first serialisation on.
   The bound 2^28 is the repeated-count bound of wf_msg.  What is not covered by a theorem: accepted inputs that
   retain an unknown field number >= 2^29 (decided on the implementation by the check's RT stream: all such
   inputs it generates are still re-serialised stably by protobuf-c). *)
From Coq Require Import ZArith List Bool.
From PBC Require Import Impl.Desc Impl.Mem Impl.Size Impl.Pack Impl.PackBuf Impl.Unpack Impl.Check Impl.WF Impl.Canon Impl.Norm
     Impl.WNorm Impl.Typed Proofs.MsgRT4 Proofs.SizePackFinal Proofs.CheckSafe Proofs.NormPack Proofs.ParseGood Proofs.Examples.
From PBC Require Proofs.LeafSafe.
Import ListNotations.
Local Open Scope Z_scope.

(* second serialisation = first serialisation, for the parser's normal form.  The bound 268435425 (max_input) on the
   serialisation is where the parser is sure to accept it again: beyond, one message could have more than the
   134217712 members its 23 slabs hold ("too many fields"), each member taking at least two bytes. *)
Theorem C06_stable_partial : forall (E : env) (m : msg) (b : list Z),
  env_ok E = true -> canon_msg E m = true ->
  pack_msg E m = Ok b -> Z.of_nat (length b) <= 268435425 ->
  exists m2, unpack_top E (m_desc m) b = Ok m2 /\ pack_msg E m2 = Ok b.
Proof.
  intros E m b EO C Hp Hl. exists m. split; [|exact Hp]. unfold unpack_top.
  exact (proj1 (roundtrip_canonical E EO m C (S (length b)) b Hp Hl (Nat.lt_succ_diag_r _))).
Qed.
Print Assumptions C06_stable_partial.

(* well-formed messages are measured and serialised consistently by all three serialisers *)
Theorem C06_serialisers_agree_partial : forall (E : env) (m : msg),
  wf_msg E m = true ->
  exists b, pack_msg E m = Ok b /\ size_msg E m = Ok (Z.of_nat (length b)) /\
            exists cs, chunks_msg E m = Ok cs /\ concat cs = b.
Proof. exact size_pack_chunks_agree. Qed.
Print Assumptions C06_serialisers_agree_partial.

(* what the check accepts, the serialisers handle without touching a null pointer *)
Theorem C06_checked_is_serialisable_partial : forall (E : env) (m : msg),
  check_msg E m = Ok true ->
  size_msg E m <> Err ENull /\ pack_msg E m <> Err ENull /\ chunks_msg E m <> Err ENull.
Proof. exact check_safe. Qed.
Print Assumptions C06_checked_is_serialisable_partial.

(* The same for every message whose NORMALISATION is in normal form.  Impl/Norm.v replaces the two
   representation choices of the parser that never reach the wire (array capacity larger than the element count;
   an implicit-presence field explicitly sent with its zero value) by the normal form; serialisation does not see
   the difference (pack_norm), so: what pack writes for m parses back (to the normalisation of m), and serialising
   that result reproduces the bytes.  The check evaluates the hypothesis canon_msg E (norm_msg E m), with the
   extracted predicates, on the parse result of every accepted input it generates and reports the count. *)
Theorem C06_serialisation_ignores_normalisation : forall (E : env), env_ok E = true ->
  forall m, pack_msg E (norm_msg E m) = pack_msg E m.
Proof. exact pack_norm. Qed.
Print Assumptions C06_serialisation_ignores_normalisation.

Theorem C06_stable_when_normal_form : forall (E : env), env_ok E = true -> forall m b,
  canon_msg E (norm_msg E m) = true -> pack_msg E m = Ok b -> Z.of_nat (length b) <= 268435425 ->
  unpack_top E (m_desc m) b = Ok (norm_msg E m) /\ pack_msg E (norm_msg E m) = Ok b.
Proof. exact stable_via_norm. Qed.
Print Assumptions C06_stable_when_normal_form.

(* ---- every accepted input *)
Theorem C06_parser_result_is_well_formed_checked_and_typed : forall (E : env) d data m,
  env_ok E = true -> LeafSafe.bytes data -> Mem.zlen data < 268435456 -> (d < length E)%nat ->
  unpack_top E d data = Ok m ->
  wf_msg E m = true /\ check_msg E m = Ok true /\ (unk_small E m = true -> typed_msg E m = true).
Proof. exact unpack_result_good. Qed.
Print Assumptions C06_parser_result_is_well_formed_checked_and_typed.

Theorem C06_accepted_input_is_reserialisable_and_stable : forall (E : env) d data m,
  env_ok E = true -> LeafSafe.bytes data -> Mem.zlen data < 268435456 -> (d < length E)%nat ->
  unpack_top E d data = Ok m -> unk_small E m = true ->
  exists b, pack_msg E m = Ok b /\
            (Z.of_nat (length b) <= 268435425 ->
             unpack_top E d b = Ok (wnorm_msg E m) /\ pack_msg E (wnorm_msg E m) = Ok b).
Proof. exact accepted_input_is_stable. Qed.
Print Assumptions C06_accepted_input_is_reserialisable_and_stable.

(* both cases occur: an accepted input with all three conclusions; an accepted input with a field number 2^29 in a
   5-byte key, which is well-formed and check-accepted but not typed *)
Theorem C06_nonvacuous :
  (exists m, unpack_top ex_env 0 [8;150;1;26;2;1;2;58;2;8;1] = Ok m /\ wf_msg ex_env m = true /\
             check_msg ex_env m = Ok true /\ unk_small ex_env m = true /\ typed_msg ex_env m = true) /\
  (exists m, unpack_top ex_env 0 [8;1;128;128;128;128;16;0] = Ok m /\ wf_msg ex_env m = true /\
             check_msg ex_env m = Ok true /\ unk_small ex_env m = false /\ typed_msg ex_env m = false).
Proof. split; eexists; (split; [vm_compute; reflexivity|]); vm_compute; repeat split. Qed.
Print Assumptions C06_nonvacuous.

(* Concatenation of two encoded messages, part 3: the message level.
   Parsing pack(m1) ++ pack(m2) gives merge_messages m1 m2, for canonical m1, m2 of one type -- whatever the
   descriptor is.  (Before merge_messages was repaired, a REQUIRED field of message type was the exception: the
   member loop merges the two sub-messages -- the second occurrence goes through parse_required_member with
   maybe_clear -- whereas merge_messages used to leave required fields alone and keep the later sub-message.
   Now it merges a required sub-message like an optional one: see the example at the end, the former
   counterexample.)  The input is bounded by max_input, so that the "too many fields" test of unpack
   (Proofs/MemberCount.v) never fires.
   The member loop goes through the members of m1, then those of m2, in field order; merge_messages goes
   through the slots, then the unions: [merge_quads] is the slot-wise invariant over the second half, and
   [final_unions2] collects the unions. *)
From Coq Require Import ZArith List Bool Lia ZifyBool.
From PBC Require Import Base.CInt Base.Bits Gen.LeafC Spec.Wire
     Impl.Desc Impl.Mem Impl.Enc Impl.Pack Impl.WF Impl.Unpack Impl.Canon
     Proofs.LeafEnc Proofs.EncLemmas Proofs.LeafDec Proofs.SizePack Proofs.ScanRec Proofs.ScanRecs
     Proofs.CellRT2 Proofs.FieldRT Proofs.FieldPkg Proofs.FieldPkg2 Proofs.MsgInd Proofs.MsgRT Proofs.MsgRT2 Proofs.MsgRT3
     Proofs.MemberCount Proofs.MsgRT4 Proofs.Shape Proofs.MergeSafe Proofs.UnpackSafe Proofs.ConcatScan Proofs.ConcatField.
From PBC Require Proofs.LeafSafe Proofs.Examples.
Import ListNotations.
Local Open Scope Z_scope.

Ltac Zify.zify_post_hook ::= Z.div_mod_to_equations.

(* ---------- merge_slots / merge_unions from their pointwise results *)
Lemma merge_slots_map : forall rec A (ff : A -> field) (e s r : A -> slot) (l : list A),
  (forall t, In t l -> merge_slot rec (ff t) (e t) (s t) = Ok (r t)) ->
  merge_slots rec (map ff l) (map e l) (map s l) = Ok (map r l).
Proof.
  intros rec A ff e s r. induction l as [|t l IH]; intros H; [reflexivity|].
  cbn [map merge_slots]. rewrite (H t (or_introl eq_refl)). cbn [bind].
  fold (merge_slots rec). rewrite IH by (intros t' Ht'; apply H; right; exact Ht'). reflexivity.
Qed.

Lemma merge_unions_pointwise : forall rec md lu g0 eu us,
  length eu = length lu -> length us = length lu ->
  (forall g cvE cvL cvU, nth_error eu g = Some cvE -> nth_error lu g = Some cvL -> nth_error us g = Some cvU ->
     merge_union rec md (g0 + g) cvE cvL = Ok cvU) ->
  merge_unions rec md g0 eu lu = Ok us.
Proof.
  intros rec md. induction lu as [|cl lu IH]; intros g0 eu us Le Lu H.
  - destruct eu; [|discriminate Le]. destruct us; [|discriminate Lu]. reflexivity.
  - destruct eu as [|ce eu]; [discriminate Le|]. destruct us as [|cu us]; [discriminate Lu|].
    cbn [merge_unions]. pose proof (H 0%nat ce cl cu eq_refl eq_refl eq_refl) as H0. rewrite Nat.add_0_r in H0.
    rewrite H0. cbn [bind]. fold (merge_unions rec md).
    rewrite (IH (S g0) eu us); [reflexivity | cbn [length] in Le; lia | cbn [length] in Lu; lia |].
    intros g cvE cvL cvU He Hl Hu. replace (S g0 + g)%nat with (g0 + S g)%nat by lia. apply (H (S g)); assumption.
Qed.

(* ---------- well-shaped sub-messages *)
Lemma cell_shape_sub : forall E f em, cell_shape (shape_msg E) f (VMsg (Some em)) = true -> shape_msg E em = true.
Proof.
  intros E f em H. unfold cell_shape in H. destruct (f_type f); try discriminate H.
  apply andb_true_iff in H. exact (proj1 H).
Qed.

Lemma slots_shape_nth : forall rec nu fs ss i f s, slots_shape rec nu fs ss = true ->
  nth_error fs i = Some f -> nth_error ss i = Some s -> slot_shape rec nu f s = true.
Proof.
  intros rec nu. induction fs as [|f0 fs IH]; intros ss i f s H Hf Hs; [destruct i; discriminate Hf|].
  destruct ss as [|s0 ss]; [destruct i; discriminate Hs|].
  cbn [slots_shape] in H. apply andb_true_iff in H. destruct H as [H0 H1].
  destruct i as [|i]; cbn [nth_error] in Hf, Hs.
  - inversion Hf; inversion Hs; subst. exact H0.
  - exact (IH ss i f s H1 Hf Hs).
Qed.

Lemma unions_shape_at : forall E fs us g0 g cv,
  unions_shape (shape_msg E) fs g0 us = true -> nth_error us g = Some cv -> union_shape (shape_msg E) fs (g0 + g) cv = true.
Proof.
  intros E fs. induction us as [|x t IH]; intros g0 g cv H Hn; [destruct g; discriminate Hn|].
  cbn [unions_shape] in H. fold (unions_shape (shape_msg E) fs) in H. apply andb_true_iff in H. destruct H as [Hx Ht].
  destruct g as [|g]; cbn [nth_error] in Hn.
  - inversion Hn; subst. replace (g0 + 0)%nat with g0 by lia. exact Hx.
  - replace (g0 + S g)%nat with (S g0 + g)%nat by lia. exact (IH (S g0) g cv Ht Hn).
Qed.

Lemma shape_sub_shaped : forall E d ss um unk md i f s,
  shape_msg E (Msg d ss um unk) = true -> nth_error E d = Some md ->
  nth_error (md_fields md) i = Some f -> nth_error ss i = Some s -> sub_shaped E f s um.
Proof.
  intros E d ss um unk md i f s S Ed Hf Hs. cbn [shape_msg] in S. rewrite Ed in S.
  rewrite !andb_true_iff in S. destruct S as [[S1 _] S3].
  pose proof (slots_shape_nth _ _ _ _ i f s S1 Hf Hs) as Hsl.
  unfold sub_shaped. intros em Hem. destruct s as [h v|n c a|g]; [| contradiction |].
  - subst v. cbn [slot_shape] in Hsl. rewrite !andb_true_iff in Hsl. exact (cell_shape_sub E f em (proj2 Hsl)).
  - destruct (nth_error um g) as [cv|] eqn:Ecv.
    + rewrite (nth_error_nth um g (0, VWord 0) Ecv) in Hem. subst cv.
      pose proof (unions_shape_at E _ _ 0%nat g _ S3 Ecv) as Hu. cbn [Nat.add] in Hu.
      unfold union_shape in Hu. cbn [fst snd] in Hu. apply orb_true_iff in Hu. destruct Hu as [Hu|Hu].
      * apply andb_true_iff in Hu. destruct Hu as [_ Hu]. discriminate Hu.
      * apply existsb_exists in Hu. destruct Hu as (f' & _ & Hu). rewrite !andb_true_iff in Hu.
        exact (cell_shape_sub E f' em (proj2 Hu)).
    + rewrite (nth_overflow um (0, VWord 0)) in Hem by (apply nth_error_None; exact Ecv). discriminate Hem.
Qed.

(* ---------- two runs of packages over the same fields, side by side *)
Lemma pair_quads : forall qs1 qs2 : list quad, map q_f qs1 = map q_f qs2 ->
  exists l : list (quad * quad), map fst l = qs1 /\ map snd l = qs2 /\ forall t, In t l -> q_f (fst t) = q_f (snd t).
Proof.
  induction qs1 as [|q1 qs1 IH]; intros qs2 H; destruct qs2 as [|q2 qs2]; try discriminate H.
  - exists []. repeat split. intros t [].
  - cbn [map] in H. inversion H as [[H0 H1]]. destruct (IH qs2 H1) as (l & L1 & L2 & L3).
    exists ((q1, q2) :: l). cbn [map fst snd]. rewrite L1, L2. repeat split.
    intros t [<- | Ht]; [exact H0 | exact (L3 t Ht)].
Qed.

Lemma nth_map_seq : forall (F : nat -> Z * sval) n g, (g < n)%nat -> nth g (map F (seq 0 n)) (0, VWord 0) = F g.
Proof.
  intros F n g Hg. rewrite (nth_indep _ (0, VWord 0) (F 0%nat)) by (rewrite map_length, seq_length; exact Hg).
  rewrite map_nth. rewrite seq_nth by exact Hg. reflexivity.
Qed.

(* ---------- the members of the later message, on top of the earlier message's slots *)
Section MergeQuads.
Variable E : env.
Variable usub : nat -> list Z -> res msg.
Variable md : mdesc.
Variables um1 um2 : list (Z * sval).
Variable A : Type.
Variable q2f : A -> quad.     (* the package of the later message *)
Variable s1f : A -> slot.     (* the slot of the earlier message *)
Notation rec := (merge_messages E).

Definition mslot (f : field) (s1 s2 : slot) : slot :=
  match merge_slot rec f s1 s2 with Ok s => s | Err _ => s2 end.
Definition munion (g : nat) : Z * sval :=
  match merge_union rec md g (nth g um1 (0, VWord 0)) (nth g um2 (0, VWord 0)) with
  | Ok u => u
  | Err _ => nth g um2 (0, VWord 0)
  end.
(* the merged unions, as a list *)
Definition umM (n : nat) : list (Z * sval) := map munion (seq 0 n).

Lemma merge_quads : forall n (l : list A) pre_s unions d unk,
  length unions = n ->
  (forall k t, nth_error l k = Some t ->
     mconcl E usub md (length pre_s + k) (q_f (q2f t)) (s1f t) (q_s (q2f t)) um1 um2 (q_r (q2f t))) ->
  (forall t g, In t l -> active (q2f t) g -> nth_error unions g = Some (nth g um1 (0, VWord 0))) ->
  (forall k1 k2 t1 t2 g, nth_error l k1 = Some t1 -> nth_error l k2 = Some t2 ->
     active (q2f t1) g -> active (q2f t2) g -> k1 = k2) ->
  parse_members E usub md (all_members (length pre_s) (map q2f l))
    (Msg d (pre_s ++ map (fun t => mid (s1f t) (slot_n (q_s (q2f t)))) l) unions unk) =
  Ok (Msg d (pre_s ++ map (fun t => mslot (q_f (q2f t)) (s1f t) (q_s (q2f t))) l)
          (apply_unions (umM n) (map q2f l) unions) unk).
Proof.
  intros n. induction l as [|t l IH]; intros pre_s unions d unk Hlen Hpk Hfresh Huniq.
  - cbn [all_members parse_members map apply_unions fold_left]. reflexivity.
  - cbn [all_members map]. rewrite (parse_members_app E usub md).
    set (rest := map (fun t0 => mid (s1f t0) (slot_n (q_s (q2f t0)))) l).
    pose proof (Hpk 0%nat t eq_refl) as P. rewrite Nat.add_0_r in P.
    pose proof (fun g => Hfresh t g (or_introl eq_refl)) as Hfr0.
    pose proof (fun k' t' g (H' : nth_error l k' = Some t') => Huniq 0%nat (S k') t t' g eq_refl H') as Hun0.
    unfold active in Hfr0, Hun0.
    destruct (q2f t) as [[[f s] F] recs] eqn:Eq.
    change (q_f (f, s, F, recs)) with f in *. change (q_s (f, s, F, recs)) with s in *.
    change (q_r (f, s, F, recs)) with recs in *. change (q_F (f, s, F, recs)) with F in *.
    destruct P as (s12 & u12 & Hms & Hmu & Hparse).
    assert (Hmsl : mslot f (s1f t) s = s12) by (unfold mslot; rewrite Hms; reflexivity).
    set (unions' := match s, recs with
                    | SUnion g, _ :: _ => set_nth unions g (nth g (umM n) (0, VWord 0))
                    | _, _ => unions
                    end).
    assert (Hu' : match s, recs with SUnion g, _ :: _ => set_nth unions g u12 | _, _ => unions end = unions').
    { subst unions'.
      destruct s as [| |g]; [reflexivity | reflexivity |].
      destruct recs as [|r0 recs0]; [reflexivity|].
      assert (Hne : r0 :: recs0 <> []) by (intros HH; discriminate HH).
      assert (Hg : (g < n)%nat).
      { rewrite <- Hlen. apply nth_error_Some. rewrite (Hfr0 g (conj eq_refl Hne)). intros HH; discriminate HH. }
      unfold umM.
      rewrite nth_map_seq by exact Hg.
      unfold munion.
      rewrite (Hmu g eq_refl Hne).
      reflexivity. }
    rewrite (Hparse d (pre_s ++ mid (s1f t) (slot_n s) :: rest) unions unk).
    + cbn [bind]. rewrite set_nth_app_mid, Hu', <- Hmsl.
      replace (pre_s ++ mslot f (s1f t) s :: rest) with ((pre_s ++ [mslot f (s1f t) s]) ++ rest) by (rewrite <- app_assoc; reflexivity).
      replace (S (length pre_s)) with (length (pre_s ++ [mslot f (s1f t) s])) by (rewrite app_length; cbn; lia).
      subst rest. rewrite (IH (pre_s ++ [mslot f (s1f t) s]) unions' d unk).
      * cbn [apply_unions fold_left]. change (q_s (f, s, F, recs)) with s. change (q_r (f, s, F, recs)) with recs.
        fold unions'. rewrite <- app_assoc. reflexivity.
      * subst unions'. destruct s; try exact Hlen. destruct recs; [exact Hlen | rewrite set_nth_length; exact Hlen].
      * intros k t' Ht'. rewrite app_length. cbn [length]. replace (length pre_s + 1 + k)%nat with (length pre_s + S k)%nat by lia.
        apply Hpk. exact Ht'.
      * intros t' g' Hin' Hact'.
        assert (Hfr : nth_error unions g' = Some (nth g' um1 (0, VWord 0))) by (apply (Hfresh t' g'); [right; exact Hin' | exact Hact']).
        subst unions'. destruct s as [| |g]; try exact Hfr.
        destruct recs as [|r0 rs0]; [exact Hfr|].
        destruct (Nat.eq_dec g g') as [-> | Hne]; [|rewrite nth_error_set_nth_other by exact Hne; exact Hfr].
        exfalso. apply In_nth_error in Hin'. destruct Hin' as (k' & Hk').
        assert (0%nat = S k') by (apply (Hun0 k' t' g' Hk'); [split; [reflexivity | discriminate] | exact Hact']).
        discriminate.
      * intros k1 k2 t1 t2 g H1 H2 A1 A2.
        assert (S k1 = S k2) by (apply (Huniq (S k1) (S k2) t1 t2 g); assumption). lia.
    + apply nth_error_app_mid.
    + intros g Hs Hr. apply (Hfr0 g). split; assumption.
Qed.

End MergeQuads.

Lemma canon_slots_nth : forall rec um fs ss i f s, canon_slots rec um fs ss = true ->
  nth_error fs i = Some f -> nth_error ss i = Some s -> canon_slot rec um f s = true.
Proof.
  intros rec um. induction fs as [|f0 fs IH]; intros ss i f s H Hf Hs; [destruct i; discriminate Hf|].
  destruct ss as [|s0 ss]; [destruct i; discriminate Hs|].
  cbn [canon_slots] in H. apply andb_true_iff in H. destruct H as [H0 H1].
  destruct i as [|i]; cbn [nth_error] in Hf, Hs.
  - inversion Hf; inversion Hs; subst. exact H0.
  - exact (IH ss i f s H1 Hf Hs).
Qed.

Lemma kind_case_union : forall nu f s g, field_ok nu f = true -> f_quant f = QCase g -> kind_ok f s ->
  s = SUnion g /\ f_oneof f = true /\ (f_label f = LOptional \/ f_label f = LNone) /\ (g < nu)%nat.
Proof.
  intros nu f s g Hfo Hq K. unfold field_ok in Hfo. rewrite !andb_true_iff in Hfo. destruct Hfo as [[[_ Hlq] _] _].
  rewrite Hq in Hlq. unfold kind_ok in K.
  destruct (f_label f) eqn:El; try discriminate Hlq; apply andb_true_iff in Hlq; destruct Hlq as [Ho Hg]; apply Nat.ltb_lt in Hg;
    (destruct s as [h v|n c a|g']; [exfalso; exact (K g Hq) | contradiction |]);
    (assert (g' = g) by congruence; subst g'; auto).
Qed.

Lemma unk_count_le : forall ids unk, forallb (canon_unk ids) unk = true ->
  (length unk <= length (concat (map pk_unknown unk)))%nat.
Proof.
  intros ids unk Ck. induction unk as [|u unk IH]; [cbn; lia|]. cbn [forallb] in Ck. apply andb_true_iff in Ck.
  destruct Ck as [Cu Ck]. cbn [map concat length]. rewrite app_length. specialize (IH Ck).
  unfold canon_unk in Cu. rewrite !andb_true_iff in Cu. destruct Cu as [[[T0 T1] _] Hp].
  destruct (unk_payload _ _ Hp) as (Hwt & _).
  assert (1 <= length (pk_unknown u))%nat.
  { unfold pk_unknown. rewrite app_length. pose proof (key_nonempty (u_tag u) (u_wt u) ltac:(lia) Hwt).
    destruct (e_tag (u_tag u) (u_wt u)); [congruence | cbn; lia]. }
  lia.
Qed.

Lemma with_nth_at : forall A B (k : A -> B) d l g x, nth_error l g = Some x -> with_nth k d l g = k x.
Proof.
  intros A B k d l. induction l as [|y l IH]; intros g x H; destruct g; try discriminate H.
  - inversion H. reflexivity.
  - cbn [with_nth nth_error] in *. apply IH. exact H.
Qed.

Lemma rev_rev_app : forall A (a b : list A), rev (rev a ++ b) = rev b ++ a.
Proof. intros A a b. rewrite rev_app_distr, rev_involutive. reflexivity. Qed.

(* ---------- the unions after both halves *)
Section Unions2.
Variable E : env.
Variable usub : nat -> list Z -> res msg.
Variable md : mdesc.
Hypothesis D : desc_ok (length E) md = true.
Variables um1 um2 : list (Z * sval).
Variable l : list (quad * quad).
Notation rec := (merge_messages E).
Notation cnm := (canon_msg E).
Notation n := (md_n_oneofs md).

Hypothesis Hl1 : length um1 = n.
Hypothesis Hl2 : length um2 = n.
Hypothesis CU1 : canon_unions (md_fields md) 0 um1 = true.
Hypothesis CU2 : canon_unions (md_fields md) 0 um2 = true.
Hypothesis Hfs : map (fun t => q_f (snd t)) l = md_fields md.
Hypothesis Hall : forall k t, nth_error l k = Some t ->
  kind_ok (q_f (snd t)) (q_s (fst t)) /\ kind_ok (q_f (snd t)) (q_s (snd t)) /\
  canon_slot cnm um1 (q_f (snd t)) (q_s (fst t)) = true /\
  fpkg_with E usub md (q_r (snd t)) k (q_f (snd t)) (q_s (snd t)) um2 (q_F (snd t)) /\
  mconcl E usub md k (q_f (snd t)) (q_s (fst t)) (q_s (snd t)) um1 um2 (q_r (snd t)).

Lemma field_at : forall j f', nth_error (md_fields md) j = Some f' ->
  exists t, nth_error l j = Some t /\ q_f (snd t) = f' /\ field_ok n f' = true.
Proof.
  intros j f' Hj. rewrite <- Hfs in Hj. rewrite nth_error_map in Hj.
  destruct (nth_error l j) as [t|] eqn:Et; [|discriminate Hj]. cbn [option_map] in Hj. inversion Hj as [Hq].
  exists t. split; [reflexivity|]. split; [reflexivity|].
  apply (desc_ok_fields _ _ D). rewrite <- Hfs. apply in_map_iff. exists t. split; [reflexivity | eapply nth_error_In; eauto].
Qed.

Lemma final_unions2 : forall g cvE cvL cvU,
  nth_error um1 g = Some cvE -> nth_error um2 g = Some cvL ->
  nth_error (apply_unions (umM E md um1 um2 n) (map snd l) um1) g = Some cvU ->
  merge_union rec md g cvE cvL = Ok cvU.
Proof.
  intros g cvE cvL cvU HE HL HU.
  assert (Hg : (g < n)%nat) by (rewrite <- Hl1; apply nth_error_Some; rewrite HE; intros HH; discriminate HH).
  rewrite apply_unions_nth in HU by (rewrite Hl1; exact Hg).
  pose proof (nth_error_nth um1 g (0, VWord 0) HE) as N1. pose proof (nth_error_nth um2 g (0, VWord 0) HL) as N2.
  destruct (existsb (fun q => activeb q g) (map snd l)) eqn:Eact.
  - (* a member of the union arrived in the second half *)
    inversion HU as [HU']. clear HU. unfold umM. rewrite nth_map_seq by exact Hg. unfold munion. rewrite N1, N2.
    apply existsb_exists in Eact. destruct Eact as (q2 & Hin & Hact). apply in_map_iff in Hin. destruct Hin as (t & <- & Hin).
    apply In_nth_error in Hin. destruct Hin as (k & Hk).
    destruct (Hall k t Hk) as (_ & _ & _ & _ & (s12 & u12 & _ & Hmu & _)).
    unfold activeb in Hact. destruct (q_s (snd t)) as [| |g'] eqn:Es; try discriminate Hact.
    destruct (q_r (snd t)) as [|r0 rs] eqn:Er; [discriminate Hact|]. apply Nat.eqb_eq in Hact. subst g'.
    assert (Hne : r0 :: rs <> []) by (intros HH; discriminate HH).
    pose proof (Hmu g eq_refl Hne) as Hm. rewrite N1, N2 in Hm. rewrite Hm. reflexivity.
  - (* the later message leaves the union unset *)
    rewrite HE in HU. inversion HU; subst cvU. clear HU.
    destruct cvL as [lc lv]. destruct cvE as [ec ev].
    pose proof (canon_unions_ucanon E md D um2 g CU2) as U2. unfold ucanon in U2. rewrite N2 in U2. cbn [fst snd] in U2.
    destruct U2 as [[-> ->] | (Hlc & j & f'' & Hj & Hid & Hq)].
    + apply (merge_union_unset E md D).
      pose proof (canon_unions_ucanon E md D um1 g CU1) as U1. unfold ucanon in U1. rewrite N1 in U1. cbn [fst snd] in U1.
      destruct U1 as [[-> ->] | (Hec & j & f' & Hj & Hid & Hq)]; [left; auto|].
      right. split; [exact Hec|]. exists j, f'. split; [exact Hj|]. split; [exact Hid|]. split; [exact Hq|].
      intros Ht. destruct (field_at j f' Hj) as (t & Ht' & Hqf & Hfo).
      destruct (Hall j t Ht') as (K1 & _ & C1 & _). rewrite Hqf in K1, C1.
      destruct (kind_case_union n f' _ g Hfo Hq K1) as (Hs & _ & Hl & _). rewrite Hs in C1.
      unfold canon_slot in C1.
      assert (C1' : with_nth (fun cv : Z * sval => if fst cv =? f_id f' then canon_cell cnm f' (snd cv) else true) false um1 g = true).
      { destruct Hl as [El|El]; rewrite El in C1; apply andb_true_iff in C1; exact (proj2 C1). }
      rewrite (with_nth_at _ _ _ _ um1 g _ HE) in C1'. cbn [fst snd] in C1'. rewrite Hid, Z.eqb_refl in C1'.
      destruct (canon_msgv E f' ev Ht C1') as (em & -> & _). exists em. reflexivity.
    + exfalso. destruct (field_at j f'' Hj) as (t & Ht' & Hqf & Hfo).
      destruct (Hall j t Ht') as (_ & K2 & _ & P2 & _). rewrite Hqf in K2, P2.
      destruct (kind_case_union n f'' _ g Hfo Hq K2) as (Hs & _).
      destruct P2 as (_ & _ & _ & _ & Hact & _).
      assert (Hne : q_r (snd t) <> []) by (apply (Hact g Hs); rewrite N2; cbn [fst]; symmetry; exact Hid).
      assert (Ht : existsb (fun q => activeb q g) (map snd l) = true).
      { apply existsb_exists. exists (snd t). split; [apply in_map; eapply nth_error_In; eauto|].
        unfold activeb. rewrite Hs. destruct (q_r (snd t)); [congruence | apply Nat.eqb_refl]. }
      rewrite Ht in Eact. discriminate Eact.
Qed.

End Unions2.

(* ---------- the theorem *)
Section Concat.
Variable E : env.
Hypothesis EO : env_ok E = true.
Notation rec := (merge_messages E).
Notation cnm := (canon_msg E).

(* a canonical message that can be serialised is well-shaped: it is what the parser returns for its bytes *)
Lemma canon_shape_rt : forall m b, cnm m = true -> pack_msg E m = Ok b -> zlen b <= max_input -> shape_msg E m = true.
Proof.
  intros m b C Hb Hl.
  destruct (roundtrip_canonical E EO m C (S (length b)) b Hb Hl ltac:(lia)) as [Hu HB]. unfold max_input in Hl.
  assert (Hd : (m_desc m < length E)%nat).
  { destruct m as [d ss um k]. cbn [canon_msg] in C. cbn [m_desc]. destruct (nth_error E d) eqn:Ed; [|discriminate C].
    apply nth_error_Some. rewrite Ed. intros HH; discriminate HH. }
  assert (HB' : LeafSafe.bytes b) by (apply Forall_forall; exact HB).
  assert (Hz : Mem.zlen b < 2147483648) by (unfold Mem.zlen, zlen in *; lia).
  destruct (unpack_top_total E EO (m_desc m) b HB' Hz Hd) as [Hf | (m' & Hm' & S' & _)].
  - unfold unpack_top in Hf. rewrite Hu in Hf. discriminate Hf.
  - unfold unpack_top in Hm'. rewrite Hu in Hm'. inversion Hm'; subst. exact S'.
Qed.

Theorem concat_merge_msg : forall d ss1 um1 k1 ss2 um2 k2 b1 b2 md,
  nth_error E d = Some md ->
  cnm (Msg d ss1 um1 k1) = true -> cnm (Msg d ss2 um2 k2) = true ->
  pack_msg E (Msg d ss1 um1 k1) = Ok b1 -> pack_msg E (Msg d ss2 um2 k2) = Ok b2 ->
  zlen (b1 ++ b2) <= max_input ->
  exists M, merge_messages E (Msg d ss1 um1 k1) (Msg d ss2 um2 k2) = Ok M /\ unpack_top E d (b1 ++ b2) = Ok M.
Proof.
  intros d ss1 um1 k1 ss2 um2 k2 b1 b2 md Ed C1 C2 Hp1 Hp2 Hlen.
  pose proof Hlen as Hlen0.
  rewrite zlen_app in Hlen. pose proof (zlen_nonneg _ b1) as Hb1n. pose proof (zlen_nonneg _ b2) as Hb2n.
  pose proof (canon_shape_rt _ _ C1 Hp1 ltac:(lia)) as S1.
  pose proof (canon_shape_rt _ _ C2 Hp2 ltac:(lia)) as S2.
  cbn [canon_msg] in C1, C2. rewrite Ed in C1, C2.
  rewrite !andb_true_iff in C1, C2. destruct C1 as [[[Cn1 Cs1] Cu1] Ck1]. destruct C2 as [[[Cn2 Cs2] Cu2] Ck2].
  apply Nat.eqb_eq in Cn1, Cn2.
  pose proof (env_desc E EO d md Ed) as D.
  set (kk := length (b1 ++ b2)).
  set (usub := unpack E kk).
  set (lim := Z.min max_input (Z.of_nat kk)).
  assert (Hlim : lim <= 2147483647) by (subst lim; unfold max_input; lia).
  assert (SUB : forall m, sub_rt E usub lim m).
  { intros m Cm b Hb Hlt. subst lim usub. apply (roundtrip_canonical E EO m Cm kk b Hb); unfold zlen in *; lia. }
  assert (Hkk : Z.of_nat kk = zlen b1 + zlen b2) by (subst kk; rewrite app_length; unfold zlen; lia).
  cbn [pack_msg] in Hp1, Hp2. rewrite Ed in Hp1, Hp2.
  destruct (pk_fields (pack_msg E) um1 (md_fields md) ss1) as [a1|e1] eqn:Ea1; [|discriminate Hp1].
  destruct (pk_fields (pack_msg E) um2 (md_fields md) ss2) as [a2|e2] eqn:Ea2; [|discriminate Hp2].
  cbn [bind] in Hp1, Hp2.
  set (U1 := concat (map pk_unknown k1)) in *. set (U2 := concat (map pk_unknown k2)) in *.
  assert (Eb1 : b1 = a1 ++ U1) by (inversion Hp1; reflexivity).
  assert (Eb2 : b2 = a2 ++ U2) by (inversion Hp2; reflexivity).
  clear Hp1 Hp2.
  assert (Hz1 : zlen b1 = zlen a1 + zlen U1) by (rewrite Eb1; apply zlen_app).
  assert (Hz2 : zlen b2 = zlen a2 + zlen U2) by (rewrite Eb2; apply zlen_app).
  pose proof (zlen_nonneg _ a1) as Ha1n. pose proof (zlen_nonneg _ a2) as Ha2n.
  pose proof (zlen_nonneg _ U1) as HU1n. pose proof (zlen_nonneg _ U2) as HU2n.
  destruct (build_quads2 E usub md lim Hlim D SUB um1 (md_fields md) ss1 [] a1 eq_refl Cs1 Ea1 ltac:(subst lim; lia))
    as (qs1 & Q11 & Q12 & Q13 & Q14 & Q15).
  destruct (build_quads2 E usub md lim Hlim D SUB um2 (md_fields md) ss2 [] a2 eq_refl Cs2 Ea2 ltac:(subst lim; lia))
    as (qs2 & Q21 & Q22 & Q23 & Q24 & Q25).
  destruct (pair_quads qs1 qs2 ltac:(congruence)) as (l & L1 & L2 & L3). subst qs1 qs2.
  cbn [length Nat.add] in Q14, Q24.
  assert (Hfs1 : map (fun t => q_f (fst t)) l = md_fields md) by (rewrite <- Q11, map_map; reflexivity).
  assert (Hfs2 : map (fun t => q_f (snd t)) l = md_fields md) by (rewrite <- Q21, map_map; reflexivity).
  assert (Hss1 : ss1 = map (fun t => q_s (fst t)) l) by (rewrite <- Q12, map_map; reflexivity).
  assert (Hss2 : ss2 = map (fun t => q_s (snd t)) l) by (rewrite <- Q22, map_map; reflexivity).
  set (n := md_n_oneofs md) in *.
  (* per field *)
  assert (Hel : forall j t, nth_error l j = Some t ->
            nth_error (md_fields md) j = Some (q_f (snd t)) /\ q_f (fst t) = q_f (snd t) /\
            nth_error ss1 j = Some (q_s (fst t)) /\ nth_error ss2 j = Some (q_s (snd t)) /\
            fpkg_with E usub md (q_r (fst t)) j (q_f (fst t)) (q_s (fst t)) um1 (q_F (fst t)) /\
            fpkg_with E usub md (q_r (snd t)) j (q_f (snd t)) (q_s (snd t)) um2 (q_F (snd t)) /\
            sing_info E usub (q_r (snd t)) (q_f (snd t)) (q_s (snd t)) um2 /\
            kind_ok (q_f (fst t)) (q_s (fst t)) /\ kind_ok (q_f (snd t)) (q_s (snd t))).
  { intros j t Ht.
    assert (H1 : nth_error (map fst l) j = Some (fst t)) by (apply map_nth_error; exact Ht).
    assert (H2 : nth_error (map snd l) j = Some (snd t)) by (apply map_nth_error; exact Ht).
    pose proof (nth_error_In _ _ Ht) as Hin.
    split; [rewrite <- Hfs2; apply (map_nth_error (fun t0 => q_f (snd t0))); exact Ht|].
    split; [apply L3; exact Hin|].
    split; [rewrite Hss1; apply (map_nth_error (fun t0 => q_s (fst t0))); exact Ht|].
    split; [rewrite Hss2; apply (map_nth_error (fun t0 => q_s (snd t0))); exact Ht|].
    destruct (Q14 j (fst t) H1) as [P1 _]. destruct (Q24 j (snd t) H2) as [P2 SI2].
    rewrite Forall_forall in Q15, Q25.
    split; [exact P1|]. split; [exact P2|]. split; [exact SI2|].
    split; [apply Q15; apply in_map; exact Hin | apply Q25; apply in_map; exact Hin]. }
  assert (Hmc : forall j t, nth_error l j = Some t ->
            mconcl E usub md j (q_f (snd t)) (q_s (fst t)) (q_s (snd t)) um1 um2 (q_r (snd t))).
  { intros j t Ht. destruct (Hel j t Ht) as (Hn & Hqf & Hs1 & Hs2 & _ & P2 & SI2 & K1 & K2). rewrite Hqf in K1.
    destruct (desc_ok_fields _ _ D _ (nth_error_In _ _ Hn)) as (Hfo & Hid & Hz).
    apply (field_merge E EO usub md D n j (q_f (snd t)) (q_s (fst t)) (q_s (snd t)) um1 um2 (q_r (snd t)) (q_F (snd t)));
      try assumption.
    - lia.
    - exact (canon_slots_nth _ _ _ _ j _ _ Cs1 Hn Hs1).
    - exact (canon_slots_nth _ _ _ _ j _ _ Cs2 Hn Hs2).
    - exact (shape_sub_shaped E d ss1 um1 k1 md j _ _ S1 Ed Hn Hs1).
    - exact (shape_sub_shaped E d ss2 um2 k2 md j _ _ S2 Ed Hn Hs2).
    - intros g _. exact (canon_unions_ucanon E md D um1 g Cu1). }
  (* merge_messages *)
  assert (Hslots : merge_slots rec (md_fields md) ss1 ss2 =
                   Ok (map (fun t => mslot E (q_f (snd t)) (q_s (fst t)) (q_s (snd t))) l)).
  { rewrite <- Hfs2, Hss1, Hss2. apply merge_slots_map. intros t Hin. apply In_nth_error in Hin. destruct Hin as (j & Hj).
    destruct (Hmc j t Hj) as (s12 & _ & Hms & _). unfold mslot. rewrite Hms. reflexivity. }
  set (Ufin := apply_unions (umM E md um1 um2 n) (map snd l) um1).
  assert (Hunions : merge_unions rec md 0 um1 um2 = Ok Ufin).
  { apply merge_unions_pointwise; [congruence | subst Ufin; rewrite apply_unions_length; congruence|].
    intros g cvE cvL cvU HE HL HU. cbn [Nat.add].
    apply (final_unions2 E usub md D um1 um2 l Cn1 Cu1 Cu2 Hfs2) with (g := g); try assumption.
    intros j t Ht. destruct (Hel j t Ht) as (Hn & Hqf & Hs1 & Hs2 & _ & P2 & _ & K1 & K2). rewrite Hqf in K1.
    split; [exact K1|]. split; [exact K2|]. split; [exact (canon_slots_nth _ _ _ _ j _ _ Cs1 Hn Hs1)|].
    split; [exact P2 | exact (Hmc j t Ht)]. }
  exists (Msg d (map (fun t => mslot E (q_f (snd t)) (q_s (fst t)) (q_s (snd t))) l) Ufin (k1 ++ k2)).
  split.
  { cbn [merge_messages m_slots m_unions m_unk]. rewrite Ed.
    fold (merge_slots rec). fold (merge_unions rec md). rewrite Hslots. cbn [bind]. rewrite Hunions. reflexivity. }
  (* the parser *)
  unfold unpack_top. fold kk. rewrite Eb1, Eb2.
  replace ((a1 ++ U1) ++ a2 ++ U2) with (a1 ++ U1 ++ a2 ++ U2) by (rewrite <- app_assoc; reflexivity).
  unfold unpack. fold (unpack E). rewrite Ed. cbv zeta. fold usub.
  set (st0 := {| st_at := a1 ++ U1 ++ a2 ++ U2;
                 st_last := match md_fields md with [] => None | _ :: _ => Some 0%nat end;
                 st_last_idx := 0%nat; st_bitmap := repeat false (length (md_fields md));
                 st_members := []; st_slots := m_slots (init_msg d md); st_nunk := 0 |}).
  assert (Hc0 : cache_ok md st0).
  { unfold cache_ok. subst st0. cbn [st_last st_last_idx]. destruct (md_fields md); [exact I | split; [reflexivity | cbn; lia]]. }
  assert (Hl0 : zlen (st_at st0) < 4294967296) by (subst st0; cbn [st_at]; rewrite !zlen_app; lia).
  assert (Kof : forall t, In t l -> kind_ok (q_f (fst t)) (q_s (fst t)) /\ kind_ok (q_f (snd t)) (q_s (snd t)) /\ q_f (fst t) = q_f (snd t)).
  { intros t Hin. apply In_nth_error in Hin. destruct Hin as (j & Hj).
    destruct (Hel j t Hj) as (_ & Hqf & _ & _ & _ & _ & _ & K1 & K2). auto. }
  (* scan 1: the fields of m1 *)
  assert (P1 : md_fields md = [] ++ map q_f (map fst l)) by (symmetry; exact Q11).
  assert (P5 : forall q, In q (map fst l) -> f_label (q_f q) = LRepeated -> exists n0 c a0, q_s q = SRep n0 c a0 /\ 0 <= n0 < 268435456).
  { intros q Hq El. rewrite Forall_forall in Q15. specialize (Q15 q Hq). unfold kind_ok in Q15. rewrite El in Q15.
    destruct (q_s q) as [|n0 c a0|]; try contradiction. exists n0, c, a0. auto. }
  assert (P6 : forall q, In q (map fst l) -> f_label (q_f q) <> LRepeated -> forall n0 c a0, q_s q <> SRep n0 c a0).
  { intros q Hq El n0 c a0 Hs. rewrite Forall_forall in Q15. specialize (Q15 q Hq). unfold kind_ok in Q15. rewrite Hs in Q15.
    destruct (f_label (q_f q)); contradiction. }
  assert (P7 : st_slots st0 = [] ++ map (fun q => init_slot (q_f q)) (map fst l)).
  { subst st0. cbn [st_slots init_msg m_slots app]. rewrite <- Q11, map_map. reflexivity. }
  assert (P8 : st_bitmap st0 = [] ++ repeat false (length (map fst l))).
  { subst st0. cbn [st_bitmap app]. rewrite <- Q11, map_length. reflexivity. }
  assert (P9 : st_at st0 = concat (map q_F (map fst l)) ++ (U1 ++ a2 ++ U2)) by (subst st0; cbn [st_at]; rewrite Q13; reflexivity).
  assert (Q14' : forall k0 q, nth_error (map fst l) k0 = Some q ->
            fpkg_with E usub md (q_r q) (length (@nil field) + k0) (q_f q) (q_s q) um1 (q_F q)).
  { intros k0 q Hq. cbn [length Nat.add]. exact (proj1 (Q14 k0 q Hq)). }
  destruct (scan_quads (length E) E usub md D um1 (map fst l) [] [] [] st0 (U1 ++ a2 ++ U2) P1 eq_refl eq_refl Q14' P5 P6 P7 P8 P9 Hc0 Hl0)
    as (st1 & Sc1 & A1 & M1 & N1 & Ca1 & SL1 & B1).
  (* scan 2: the unknown fields of m1 *)
  assert (Hl1 : zlen (st_at st1) < 4294967296) by (rewrite A1, !zlen_app; lia).
  destruct (scan_unknowns (length E) usub md D k1 st1 (a2 ++ U2) Ck1 A1 Ca1 Hl1)
    as (prefs1 & st2 & PL1 & Sc2 & A2 & M2 & N2 & SL2 & B2 & Ca2).
  (* scan 3: the fields of m2, counters continuing *)
  assert (P1' : md_fields md = [] ++ map (fun t => q_f (snd t)) l) by (symmetry; exact Hfs2).
  assert (Q24' : forall k0 t, nth_error l k0 = Some t ->
            fpkg_with E usub md (q_r (snd t)) (length (@nil field) + k0) (q_f (snd t)) (q_s (snd t)) um2 (q_F (snd t))).
  { intros k0 t Ht. cbn [length Nat.add]. destruct (Hel k0 t Ht) as (_ & _ & _ & _ & _ & P2 & _). exact P2. }
  assert (Kn : forall t, In t l -> kind_ok (q_f (snd t)) (q_s (snd t)) /\ 0 <= slot_n (q_s (fst t)) < 268435456).
  { intros t Hin. destruct (Kof t Hin) as (K1 & K2 & Hqf). split; [exact K2|].
    unfold kind_ok in K1. destruct (q_s (fst t)) as [|n0 c a0|]; cbn [slot_n]; try lia.
    destruct (f_label (q_f (fst t))); try contradiction. exact K1. }
  assert (P7' : st_slots st2 = [] ++ map (fun t => cslot (q_f (snd t)) (slot_n (q_s (fst t)))) l).
  { rewrite SL2, SL1. cbn [app]. rewrite map_map. apply map_ext_in. intros t Hin. destruct (Kof t Hin) as (K1 & _ & Hqf).
    rewrite (counted_cslot _ K1), Hqf. reflexivity. }
  assert (P8' : st_bitmap st2 = [] ++ map (fun t => label_eqb (f_label (q_f (snd t))) LRequired) l).
  { rewrite B2, B1. cbn [app]. rewrite map_map. apply map_ext_in. intros t Hin. destruct (Kof t Hin) as (_ & _ & Hqf).
    rewrite Hqf. reflexivity. }
  assert (P9' : st_at st2 = concat (map (fun t => q_F (snd t)) l) ++ U2) by (rewrite A2, Q23, map_map; reflexivity).
  assert (Hl2 : zlen (st_at st2) < 4294967296) by (rewrite A2, !zlen_app; lia).
  destruct (scan_quads_from (length E) E usub md D um2 (quad * quad) snd (fun t => slot_n (q_s (fst t))) l [] [] [] st2 U2
              P1' eq_refl eq_refl Q24' Kn P7' P8' P9' Ca2 Hl2)
    as (st3 & Sc3 & A3 & M3 & N3 & Ca3 & SL3 & B3).
  (* scan 4: the unknown fields of m2 *)
  assert (Hl3 : zlen (st_at st3) < 4294967296) by (rewrite A3; lia).
  destruct (scan_unknowns (length E) usub md D k2 st3 [] Ck2 ltac:(rewrite A3, app_nil_r; reflexivity) Ca3 Hl3)
    as (prefs2 & st4 & PL2 & Sc4 & A4 & M4 & N4 & SL4 & B4 & Ca4).
  (* enough fuel *)
  assert (Hids1 : forall q, In q (map fst l) -> 0 < f_id (q_f q) < 536870912).
  { intros q Hq. apply (desc_ok_fields _ _ D). rewrite <- Q11. apply in_map. exact Hq. }
  assert (Hids2 : forall q, In q (map snd l) -> 0 < f_id (q_f q) < 536870912).
  { intros q Hq. apply (desc_ok_fields _ _ D). rewrite <- Q21. apply in_map. exact Hq. }
  assert (HK1 : (length (concat (map q_r (map fst l))) <= length a1)%nat).
  { rewrite Q13. apply (recs_le_bytes E usub md um1 (map fst l) 0%nat); [intros k0 q Hq; exact (proj1 (Q14 k0 q Hq)) | exact Hids1]. }
  assert (HK3 : (length (concat (map (fun t => q_r (snd t)) l)) <= length a2)%nat).
  { rewrite Q23. rewrite <- (map_map snd q_r). apply (recs_le_bytes E usub md um2 (map snd l) 0%nat); [intros k0 q Hq; exact (proj1 (Q24 k0 q Hq)) | exact Hids2]. }
  pose proof (unk_count_le _ _ Ck1) as HK2. fold U1 in HK2.
  pose proof (unk_count_le _ _ Ck2) as HK4. fold U2 in HK4.
  assert (Hscan : scan_loop (S (length (a1 ++ U1 ++ a2 ++ U2))) md st0 = Ok st4).
  { rewrite !app_length.
    set (r1 := length (concat (map q_r (map fst l)))) in *. set (r3 := length (concat (map (fun t => q_r (snd t)) l))) in *.
    replace (S (length a1 + (length U1 + (length a2 + length U2)))) with
      (r1 + (length k1 + (r3 + (length k2 + (S (length a1 + (length U1 + (length a2 + length U2))) - r1 - length k1 - r3 - length k2)))))%nat by lia.
    rewrite Sc1, Sc2, Sc3, Sc4.
    destruct (S (length a1 + (length U1 + (length a2 + length U2))) - r1 - length k1 - r3 - length k2)%nat; cbn [scan_loop]; rewrite A4; reflexivity. }
  rewrite Hscan. cbn [bind].
  (* "too many fields" cannot happen on an input this short *)
  rewrite (member_limit_ok _ _ _ _ Hscan eq_refl
             ltac:(subst st0; cbn [st_at]; rewrite Eb1, Eb2, <- app_assoc in Hlen0; exact Hlen0)).
  (* the allocation pass *)
  rewrite B4, B3, P8', SL4, SL3. cbn [app]. rewrite <- Hfs2.
  rewrite (alloc_cslots _ (fun t => q_f (snd t)) (fun t => slot_n (q_s (fst t)) + slot_n (q_s (snd t))) l).
  2:{ intros t Hin. destruct (Kn t Hin) as [K2 Hn1]. unfold kind_ok in K2.
      destruct (q_s (snd t)) as [|n0 c a0|]; cbn [slot_n]; try lia. destruct (f_label (q_f (snd t))); try contradiction. lia. }
  cbn [bind].
  (* the members, in order *)
  assert (M0 : st_members st0 = []) by reflexivity.
  rewrite M4, M3, M2, M1, M0. rewrite !rev_rev_app. cbn [rev app length].
  rewrite !(parse_members_app E usub md). cbn [init_msg m_unions]. fold n.
  (* first half *)
  replace (map (fun t => aslot (q_f (snd t)) (slot_n (q_s (fst t)) + slot_n (q_s (snd t)))) l)
    with (map (fun t => aslot (q_f (fst t)) (slot_n (q_s (fst t)) + slot_n (q_s (snd t)))) l)
    by (apply map_ext_in; intros t Hin; destruct (Kof t Hin) as (_ & _ & Hqf); rewrite Hqf; reflexivity).
  pose proof (parse_quads_wide E usub md um1 (quad * quad) fst (fun t => slot_n (q_s (snd t))) l [] (repeat (0, VWord 0) n) d []) as PW.
  cbn [length app Nat.add] in PW. rewrite PW; clear PW.
  - cbn [bind].
    pose proof (final_unions E usub md um1 (map fst l) D Q11 Cn1 Cu1 Q15 ltac:(intros k0 q Hq; exact (proj1 (Q14 k0 q Hq)))) as FU.
    fold n in FU. rewrite FU.
    rewrite (parse_unknowns (length E) E usub md k1 prefs1 d _ _ [] PL1). cbn [bind app].
    (* second half *)
    pose proof (merge_quads E usub md um1 um2 (quad * quad) snd (fun t => q_s (fst t)) n l [] um1 d k1) as MQ.
    cbn [length app Nat.add] in MQ. rewrite MQ; clear MQ.
    + cbn [bind]. rewrite (parse_unknowns (length E) E usub md k2 prefs2 d _ _ k1 PL2). reflexivity.
    + exact Cn1.
    + exact Hmc.
    + intros t g Hin [Hs _]. destruct (Kof t Hin) as (_ & K2 & _).
      assert (Hfin : In (q_f (snd t)) (md_fields md)) by (rewrite <- Hfs2; apply (in_map (fun t0 => q_f (snd t0))); exact Hin).
      destruct (desc_ok_fields _ _ D _ Hfin) as (Hfo & _ & _).
      unfold kind_ok in K2. rewrite Hs in K2.
      assert (Hq : f_quant (q_f (snd t)) = QCase g) by (destruct (f_label (q_f (snd t))); try contradiction; exact K2).
      destruct (kind_case_union n _ (SUnion g) g Hfo Hq ltac:(unfold kind_ok; destruct (f_label (q_f (snd t))); try contradiction; exact K2))
        as (_ & _ & _ & Hg).
      apply nth_error_nth'. rewrite Cn1. exact Hg.
    + intros j1 j2 t1 t2 g H1 H2 [Hs1 Hr1] [Hs2 Hr2].
      destruct (Hel j1 t1 H1) as (F1 & _ & _ & _ & _ & (_ & _ & _ & _ & A1' & _) & _).
      destruct (Hel j2 t2 H2) as (F2 & _ & _ & _ & _ & (_ & _ & _ & _ & A2' & _) & _).
      pose proof (proj1 (A1' g Hs1) Hr1) as I1. pose proof (proj1 (A2' g Hs2) Hr2) as I2.
      apply (field_index_unique (length E) md D j1 j2 _ _ F1 F2). congruence.
  - intros j t Ht. destruct (Hel j t Ht) as (Hn & Hqf & _). rewrite Hqf. exact Hn.
  - intros j t Ht. destruct (Hel j t Ht) as (_ & _ & _ & _ & P1j & _). exact P1j.
  - intros t Hin. destruct (Kof t Hin) as (K1 & K2 & _). split; [exact K1|].
    unfold kind_ok in K2. destruct (q_s (snd t)) as [|n0 c a0|]; cbn [slot_n]; try lia.
    destruct (f_label (q_f (snd t))); try contradiction. lia.
  - intros t g Hin [Hs _]. destruct (Kof t Hin) as (K1 & _ & _).
    assert (Hfin : In (q_f (fst t)) (md_fields md)) by (rewrite <- Hfs1; apply (in_map (fun t0 => q_f (fst t0))); exact Hin).
    destruct (desc_ok_fields _ _ D _ Hfin) as (Hfo & _ & _).
    unfold kind_ok in K1. rewrite Hs in K1.
    assert (Hq : f_quant (q_f (fst t)) = QCase g) by (destruct (f_label (q_f (fst t))); try contradiction; exact K1).
    destruct (kind_case_union n _ (SUnion g) g Hfo Hq ltac:(unfold kind_ok; destruct (f_label (q_f (fst t))); try contradiction; exact K1))
      as (_ & _ & _ & Hg).
    apply nth_error_repeat. exact Hg.
  - intros j1 j2 t1 t2 g H1 H2 [Hs1 Hr1] [Hs2 Hr2].
    destruct (Hel j1 t1 H1) as (F1 & E1 & _ & _ & (_ & _ & _ & _ & A1' & _) & _).
    destruct (Hel j2 t2 H2) as (F2 & E2 & _ & _ & (_ & _ & _ & _ & A2' & _) & _).
    pose proof (proj1 (A1' g Hs1) Hr1) as I1. pose proof (proj1 (A2' g Hs2) Hr2) as I2.
    apply (field_index_unique (length E) md D j1 j2 _ _ F1 F2). congruence.
Qed.

End Concat.

(* ---------- the statement on messages: protobuf's own formulation of merging -- parsing the concatenation of two
   encodings gives the merge of the two messages *)
Theorem concatenation_parses_to_merge : forall (E : env) (m1 m2 : msg) (b1 b2 : list Z),
  env_ok E = true -> canon_msg E m1 = true -> canon_msg E m2 = true -> m_desc m1 = m_desc m2 ->
  pack_msg E m1 = Ok b1 -> pack_msg E m2 = Ok b2 -> Z.of_nat (length (b1 ++ b2)) <= 268435425 ->
  unpack_top E (m_desc m1) (b1 ++ b2) = merge_messages E m1 m2.
Proof.
  intros E [d ss1 um1 k1] [d2 ss2 um2 k2] b1 b2 EO C1 C2 Hd Hp1 Hp2 Hlen. cbn [m_desc] in *. subst d2.
  destruct (nth_error E d) as [md|] eqn:Ed; [|cbn [canon_msg] in C1; rewrite Ed in C1; discriminate C1].
  destruct (concat_merge_msg E EO d ss1 um1 k1 ss2 um2 k2 b1 b2 md Ed C1 C2 Hp1 Hp2 Hlen) as (M & HM & HU).
  rewrite HM, HU. reflexivity.
Qed.

(* both sides succeed *)
Corollary concatenation_parses_to_merge_ok : forall (E : env) (m1 m2 : msg) (b1 b2 : list Z),
  env_ok E = true -> canon_msg E m1 = true -> canon_msg E m2 = true -> m_desc m1 = m_desc m2 ->
  pack_msg E m1 = Ok b1 -> pack_msg E m2 = Ok b2 -> Z.of_nat (length (b1 ++ b2)) <= 268435425 ->
  exists m, merge_messages E m1 m2 = Ok m /\ unpack_top E (m_desc m1) (b1 ++ b2) = Ok m.
Proof.
  intros E [d ss1 um1 k1] [d2 ss2 um2 k2] b1 b2 EO C1 C2 Hd Hp1 Hp2 Hlen. cbn [m_desc] in *. subst d2.
  destruct (nth_error E d) as [md|] eqn:Ed; [|cbn [canon_msg] in C1; rewrite Ed in C1; discriminate C1].
  exact (concat_merge_msg E EO d ss1 um1 k1 ss2 um2 k2 b1 b2 md Ed C1 C2 Hp1 Hp2 Hlen).
Qed.

(* ---------- the former counterexample: a required sub-message sent twice.  The member loop merges the two
   occurrences (parse_required_member, maybe_clear); merge_messages used to leave required fields to the later
   message and returned { a = { y = 7 } }; since its repair it merges a required sub-message like an optional one.
   message 0 { required message-1 a = 1 }   message 1 { optional int32 x = 1; optional int32 y = 2 }
   m1 = { a = { x = 5 } }, m2 = { a = { y = 7 } }: the parser and merge_messages both return { a = { x = 5, y = 7 } }. *)
Definition cx_env : env :=
  [ Examples.mkdesc [ Examples.mkf 1 LRequired TMessage QNone false false 1%nat None ] 0;
    Examples.mkdesc [ Examples.mkf 1 LOptional TInt32 QHas false false 0%nat None;
                      Examples.mkf 2 LOptional TInt32 QHas false false 0%nat None ] 0 ].
Definition cx_m1 : msg := Msg 0 [SOne 0 (VMsg (Some (Msg 1 [SOne 1 (VWord 5); SOne 0 (VWord 0)] [] [])))] [] [].
Definition cx_m2 : msg := Msg 0 [SOne 0 (VMsg (Some (Msg 1 [SOne 0 (VWord 0); SOne 1 (VWord 7)] [] [])))] [] [].

Example required_submessage_example :
  env_ok cx_env = true /\ canon_msg cx_env cx_m1 = true /\ canon_msg cx_env cx_m2 = true /\
  exists b1 b2, pack_msg cx_env cx_m1 = Ok b1 /\ pack_msg cx_env cx_m2 = Ok b2 /\
    Z.of_nat (length (b1 ++ b2)) <= 268435425 /\
    unpack_top cx_env 0 (b1 ++ b2) = merge_messages cx_env cx_m1 cx_m2 /\
    merge_messages cx_env cx_m1 cx_m2 =
      Ok (Msg 0 [SOne 0 (VMsg (Some (Msg 1 [SOne 1 (VWord 5); SOne 1 (VWord 7)] [] [])))] [] []).
Proof.
  split; [vm_compute; reflexivity|]. split; [vm_compute; reflexivity|]. split; [vm_compute; reflexivity|].
  eexists. eexists. split; [vm_compute; reflexivity|]. split; [vm_compute; reflexivity|].
  split; [vm_compute; intros H; discriminate H|].
  split; vm_compute; reflexivity.
Qed.

(* the same, as an instance of the theorem: its hypotheses hold of this pair *)
Example required_submessage_by_theorem : forall b1 b2,
  pack_msg cx_env cx_m1 = Ok b1 -> pack_msg cx_env cx_m2 = Ok b2 ->
  unpack_top cx_env 0 (b1 ++ b2) = merge_messages cx_env cx_m1 cx_m2.
Proof.
  intros b1 b2 H1 H2.
  assert (Hlen : Z.of_nat (length (b1 ++ b2)) <= 268435425).
  { vm_compute in H1, H2. inversion H1; inversion H2; subst. vm_compute. intros H; discriminate H. }
  assert (EO : env_ok cx_env = true) by (vm_compute; reflexivity).
  assert (C1 : canon_msg cx_env cx_m1 = true) by (vm_compute; reflexivity).
  assert (C2 : canon_msg cx_env cx_m2 = true) by (vm_compute; reflexivity).
  exact (concatenation_parses_to_merge cx_env cx_m1 cx_m2 b1 b2 EO C1 C2 eq_refl H1 H2 Hlen).
Qed.

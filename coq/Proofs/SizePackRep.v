(* C02, continued: repeated fields (unpacked and packed). *)
From Coq Require Import ZArith List Bool Lia ZifyBool.
From PBC Require Import Base.CInt Base.Bits Gen.LeafC Spec.Wire Impl.Desc Impl.Mem Impl.Enc Impl.Size
     Impl.Pack Impl.PackBuf Impl.WF Proofs.LeafEnc Proofs.EncLemmas Proofs.MsgInd Proofs.SizePack.
Import ListNotations.
Local Open Scope Z_scope.

Ltac Zify.zify_post_hook ::= Z.div_mod_to_equations.

(* uint32_size facts behind the assert of repeated_field_pack *)
Lemma uint32_size_mono : forall a b, 0 <= a <= b -> uint32_size a <= uint32_size b.
Proof.
  intros a b H. unfold uint32_size.
  repeat match goal with |- context [?x <? ?y] => destruct (Z.ltb_spec x y) end; lia.
Qed.
Lemma uint32_size_x10 : forall a, 0 <= a -> uint32_size (10 * a) <= uint32_size a + 1.
Proof.
  intros a H. unfold uint32_size.
  repeat match goal with |- context [?x <? ?y] => destruct (Z.ltb_spec x y) end; lia.
Qed.

Definition min_size (t : ftype) : Z := get_type_min_size (type_code t).
Lemma min_size_val : forall t,
  min_size t = match t with
               | TSfixed32 | TFixed32 | TFloat => 4
               | TSfixed64 | TFixed64 | TDouble => 8
               | _ => 1
               end.
Proof. intros t. destruct t; vm_compute; reflexivity. Qed.

Lemma fixed_len : forall t w b, e_scalar t w = Ok b ->
  match t with
  | TSfixed32 | TFixed32 | TFloat => zlen b = 4
  | TSfixed64 | TFixed64 | TDouble => zlen b = 8
  | _ => True
  end.
Proof.
  intros t w b H. destruct t; try exact I; cbn [e_scalar] in H; inversion H; subst b;
    first [rewrite e_fixed32_spec | rewrite e_fixed64_spec]; unfold zlen; rewrite le_n_length; reflexivity.
Qed.

Lemma min_size_cases : forall t, is_scalar t = true ->
  (forall w b, e_scalar t w = Ok b -> min_size t <= zlen b <= 10) /\
  (min_size t = 1 \/ forall w b, e_scalar t w = Ok b -> zlen b = min_size t).
Proof.
  intros t Ht. split.
  - intros w b Hb. pose proof (fixed_len t w b Hb) as Hfl.
    destruct (scalar_agree t w Ht) as (b' & Hb' & _ & Hr). rewrite Hb in Hb'. inversion Hb'; subst b'.
    rewrite min_size_val. destruct t; try discriminate Ht; lia.
  - rewrite min_size_val.
    destruct t; try discriminate Ht; try (left; reflexivity);
      right; intros w b Hb; exact (fixed_len _ w b Hb).
Qed.

Definition const_size (t : ftype) : option Z :=
  match t with
  | TSfixed32 | TFixed32 | TFloat => Some 4
  | TSfixed64 | TFixed64 | TDouble => Some 8
  | TBool => Some 1
  | _ => None
  end.

Lemma const_len : forall t w b c, e_scalar t w = Ok b -> const_size t = Some c -> zlen b = c.
Proof.
  intros t w b c H Hc. pose proof (fixed_len t w b H) as Hf.
  destruct t; try discriminate Hc; inversion Hc; subst c; try exact Hf.
  cbn [e_scalar] in H. inversion H. rewrite e_bool_spec. reflexivity.
Qed.

Section Rep.
Variable E : env.
Notation IHm v := (forall m, v = VMsg (Some m) -> wf_msg E m = true -> msg_agree E m).

(* ---------- unpacked: each element is written like a required field *)
Lemma sz_elem_required : forall f v s,
  wf_cell (wf_msg E) f true v = true ->
  sz_required (size_msg E) f v = Ok s ->
  sz_elem (size_msg E) f v = Ok (s - get_tag_size (f_id f)).
Proof.
  intros f v s W H. unfold sz_required, sz_elem, wf_cell in *.
  destruct (f_type f) eqn:Et;
    try (destruct v as [w|p|n p|[m|]]; try discriminate W; cbn [as_word bind] in *;
         destruct (sz_scalar _ w) as [n|e]; cbn [bind] in *; [inversion H; f_equal; lia | discriminate H]).
  - (* string *) destruct v as [w|p|n p|[m|]]; try discriminate W.
    + destruct w; discriminate W.
    + destruct p as [| |s0]; try discriminate W. cbn [as_str bind str_bytes] in *. inversion H. f_equal. lia.
  - (* bytes *) destruct (as_bytes v) as [lp|e]; cbn [bind] in *; [inversion H; f_equal; lia | discriminate H].
  - (* message *) destruct v as [w|p|n p|[m|]]; try discriminate W.
    + destruct w; discriminate W.
    + destruct (size_msg E m) as [len|e]; cbn [bind] in *; [inversion H; f_equal; lia | discriminate H].
Qed.

Lemma unpacked_elems : forall nu f, field_ok nu f = true ->
  forall (l : list sval) (n : nat), (n <= length l)%nat ->
  forallb (wf_cell (wf_msg E) f true) l = true ->
  Forall (fun v => IHm v) l ->
  exists b, concatM_n (pk_required (pack_msg E) f) l n = Ok b /\
            sumM_n (sz_elem (size_msg E) f) l n = Ok (zlen b - get_tag_size (f_id f) * Z.of_nat n) /\
            exists cs, concatM_n (pb_required E (chunks_msg E) f) l n = Ok cs /\ concat cs = b.
Proof.
  intros nu f Hf l. induction l as [|v l IHl]; intros n Hn W HI.
  - destruct n; [|cbn in Hn; lia]. exists []. cbn. split; [reflexivity|]. split; [f_equal; lia|].
    exists []. split; reflexivity.
  - destruct n as [|n].
    + exists []. cbn. split; [reflexivity|]. split; [f_equal; lia|]. exists []. split; reflexivity.
    + cbn [forallb] in W. apply andb_true_iff in W. destruct W as [Wv Wl].
      inversion HI as [|? ? Hv Hl]; subst.
      destruct (required_agree E nu f true v Hf Wv Hv) as (b1 & Hp1 & Hs1 & cs1 & Hc1 & Hcc1).
      destruct (IHl n ltac:(cbn in Hn; lia) Wl Hl) as (b2 & Hp2 & Hs2 & cs2 & Hc2 & Hcc2).
      pose proof (sz_elem_required f v _ Wv Hs1) as He.
      exists (b1 ++ b2).
      cbn [concatM_n sumM_n]. fold (concatM_n (pk_required (pack_msg E) f)).
      fold (sumM_n (sz_elem (size_msg E) f)). fold (concatM_n (pb_required E (chunks_msg E) f)).
      rewrite Hp1, Hp2, He, Hs2, Hc1, Hc2. cbn [bind].
      split; [reflexivity|]. split.
      * f_equal. rewrite zlen_app. lia.
      * exists (cs1 ++ cs2). split; [reflexivity|]. rewrite concat_app, Hcc1, Hcc2. reflexivity.
Qed.

(* ---------- packed: scalar elements, no keys *)
Lemma packed_elems : forall f, is_scalar (f_type f) = true ->
  forall (l : list sval) (n : nat), (n <= length l)%nat ->
  forallb (wf_cell (wf_msg E) f true) l = true ->
  exists p cs,
    concatM_n (pk_packed_elem f) l n = Ok p /\
    sumM_n (sz_elem (size_msg E) f) l n = Ok (zlen p) /\
    sumM_n (pb_payload_len_elem f) l n = Ok (zlen p) /\
    concatM_n (pb_packed_elem f) l n = Ok cs /\ concat cs = p /\ length cs = n /\
    min_size (f_type f) * Z.of_nat n <= zlen p <= 10 * Z.of_nat n /\
    (min_size (f_type f) = 1 \/ zlen p = min_size (f_type f) * Z.of_nat n) /\
    (forall c, const_size (f_type f) = Some c -> zlen p = c * Z.of_nat n).
Proof.
  intros f Hs l. induction l as [|v l IHl]; intros n Hn W.
  - destruct n; [|cbn in Hn; lia]. exists [], []. cbn. repeat split; try lia.
  - destruct n as [|n].
    + exists [], []. cbn. repeat split; try lia.
    + cbn [forallb] in W. apply andb_true_iff in W. destruct W as [Wv Wl].
      destruct (wf_cell_scalar _ _ _ _ Hs Wv) as (w & ->).
      destruct (scalar_agree (f_type f) w Hs) as (b & Hb & Hsz & _).
      destruct (IHl n ltac:(cbn in Hn; lia) Wl) as (p & cs & H1 & H2 & H3 & H4 & H5 & H6 & H7 & H8 & H9).
      destruct (min_size_cases (f_type f) Hs) as [Hrange Hfix].
      pose proof (Hrange w b Hb) as Hr.
      assert (Ek : pk_packed_elem f (VWord w) = Ok b).
      { unfold pk_packed_elem. destruct (f_type f); try discriminate Hs; cbn [as_word bind]; rewrite Hb; reflexivity. }
      assert (Ez : sz_elem (size_msg E) f (VWord w) = Ok (zlen b)).
      { unfold sz_elem. destruct (f_type f); try discriminate Hs; cbn [as_word bind]; exact Hsz. }
      assert (El : pb_payload_len_elem f (VWord w) = Ok (zlen b)).
      { unfold pb_payload_len_elem. destruct (f_type f); try discriminate Hs; cbn [as_word bind]; exact Hsz. }
      assert (Ec : pb_packed_elem f (VWord w) = Ok [b]).
      { unfold pb_packed_elem. destruct (f_type f); try discriminate Hs; cbn [as_word bind]; rewrite Hb; reflexivity. }
      exists (b ++ p), ([b] ++ cs).
      cbn [concatM_n sumM_n].
      fold (concatM_n (pk_packed_elem f)). fold (sumM_n (sz_elem (size_msg E) f)).
      fold (sumM_n (pb_payload_len_elem f)). fold (concatM_n (pb_packed_elem f)).
      rewrite Ek, Ez, El, Ec, H1, H2, H3, H4. cbn [bind].
      rewrite zlen_app. rewrite Nat2Z.inj_succ.
      repeat split; try reflexivity; try lia.
      * cbn [app concat]. rewrite H5. reflexivity.
      * cbn [app length]. lia.
      * destruct Hfix as [Hf1 | Hfx]; [left; exact Hf1|].
        destruct H8 as [H8 | H8]; [left; exact H8|]. right. rewrite (Hfx w b Hb). lia.
      * intros c Hc. rewrite (const_len _ w b c Hb Hc). rewrite (H9 c Hc). lia.
Qed.

End Rep.

#include <stdio.h>
#include <stdlib.h>
#include <string.h>
#include "protobuf-c/protobuf-c.h"
typedef struct { unsigned allocs, frees; } Stats;
static void *my_alloc(void *ad, size_t n) { ((Stats *) ad)->allocs++; return malloc(n); }
static void my_free(void *ad, void *p) { ((Stats *) ad)->frees++; free(p); }
int main(void)
{
	Stats st = { 0, 0 };
	ProtobufCAllocator a = { my_alloc, my_free, &st };
	uint8_t scratch[4];
	ProtobufCBufferSimple b = PROTOBUF_C_BUFFER_SIMPLE_INIT(scratch);
	void *alloc_before = (void *) a.alloc;
	b.allocator = &a;
	b.base.append(&b.base, 10, (const uint8_t *) "0123456789");   /* outgrows the scratch array: one block */
	PROTOBUF_C_BUFFER_SIMPLE_CLEAR(&b);
	printf("allocs=%u frees=%u alloc-callback-intact=%d\n", st.allocs, st.frees, (void *) a.alloc == alloc_before);
	return !(st.allocs == 1 && st.frees == 1 && (void *) a.alloc == alloc_before);
}

(* C18 -- the append buffer holds exactly what was appended, for any history.
   Statements only; the proofs are in Proofs/BufHistory.v (buffer part) and
   Proofs/SizePack.v (streaming part). *)
From Coq Require Import ZArith List Bool.
From PBC Require Import Impl.BufSimple Proofs.BufHistory.
Import ListNotations.
Local Open Scope Z_scope.

(* For every initial capacity >= 1, every history h of appended chunks and every
   failure plan, folding protobuf_c_buffer_simple_append from the INIT state
   terminates (Some b) and: the contents are exactly the concatenation of the
   accepted chunks and the length their total; the length never exceeds the
   capacity (no write past it), which stays cap * 2^k; exactly the current heap
   block is outstanding (each outgrown block was freed exactly once); the scratch
   array is never freed; CLEAR frees the last block once and nothing else; and
   when no request is refused, every chunk is accepted. *)
Theorem C18_buffer_history : forall cap plan h,
  1 <= cap ->
  exists b acc,
    buf_appends plan (buf_init cap) h = Some b /\
    b_data b = concat acc /\ b_len b = Z.of_nat (length (concat acc)) /\
    b_len b <= b_alloced b /\ (exists k, 0 <= k /\ b_alloced b = cap * 2 ^ k) /\
    live_blocks (b_log b) = match b_blk b with Some id => [id] | None => [] end /\
    ~ In BFreeScratch (b_log b) /\
    live_blocks (b_log (buf_clear b)) = [] /\ ~ In BFreeScratch (b_log (buf_clear b)) /\
    ((forall k, plan k = false) -> acc = h).
Proof. exact buffer_history. Qed.
Print Assumptions C18_buffer_history.

(* A refused growth leaves contents, length, capacity, ownership and the set of
   outstanding blocks exactly as they were (shared with C08). *)
Theorem C18_refused_growth_keeps_state : forall cap plan b chunk,
  1 <= cap -> binv cap b ->
  plan (b_next b) = true -> b_len b + Z.of_nat (length chunk) > b_alloced b ->
  exists b', buf_append plan b chunk = Some b' /\
    b_data b' = b_data b /\ b_len b' = b_len b /\ b_alloced b' = b_alloced b /\
    b_must_free b' = b_must_free b /\ b_blk b' = b_blk b /\
    live_blocks (b_log b') = live_blocks (b_log b).
Proof. exact buffer_refusal_keeps_state. Qed.
Print Assumptions C18_refused_growth_keeps_state.

(* C14, generator side: the table mk_ranges builds for a strictly increasing
   list of 32-bit numbers satisfies ranges_ok, and int_range_lookup over it is
   exactly "index of the key in the list, or -1". *)
From Coq Require Import ZArith List Bool Lia ZifyBool Sorted.
From PBC Require Import Base.CInt Base.Bits Gen.LeafC GenModel.Ranges Proofs.Lookup.
Import ListNotations.
Local Open Scope Z_scope.

(* list-recursive forms of the table invariant and of the search *)
Fixpoint chain_ok (r : list IntRange) : Prop :=
  match r with
  | [] => False
  | a :: tl =>
      match tl with
      | [] => 0 <= orig_index a < 2147483648
      | b :: tl' =>
          0 <= orig_index a /\ 1 <= orig_index b - orig_index a /\
          -2147483648 <= start_value a /\ start_value a + (orig_index b - orig_index a) <= 2147483648 /\
          (match tl' with [] => True | _ => start_value a + (orig_index b - orig_index a) <= start_value b end) /\
          chain_ok tl
      end
  end.

Fixpoint lookup_list (r : list IntRange) (v : Z) : option Z :=
  match r with
  | a :: tl =>
      match tl with
      | b :: _ =>
          if (start_value a <=? v) && (v <? start_value a + (orig_index b - orig_index a))
          then Some (v - start_value a + orig_index a)
          else lookup_list tl v
      | [] => None
      end
  | [] => None
  end.

Lemma rdr_cons : forall a r j, 0 <= j -> rdr (a :: r) (j + 1) = rdr r j.
Proof. intros a r j Hj. unfold rdr. replace (Z.to_nat (j + 1)) with (S (Z.to_nat j)) by lia. reflexivity. Qed.
Lemma rdr_0 : forall a r, rdr (a :: r) 0 = a.
Proof. reflexivity. Qed.

Lemma chain_orig_mono : forall r, chain_ok r -> forall j, 0 <= j < Z.of_nat (length r) ->
  0 <= orig_index (rdr r 0) /\ orig_index (rdr r 0) + j <= orig_index (rdr r j) < 2147483648.
Proof.
  induction r as [|a tl IH]; intros C j Hj; [contradiction|].
  destruct tl as [|b tl'].
  - cbn [length] in Hj. replace j with 0 by lia. rewrite rdr_0. cbn in C. lia.
  - cbn [chain_ok] in C. destruct C as (C1 & C2 & C3 & C4 & C5 & C6).
    destruct (Z.eq_dec j 0) as [->|Hne].
    + rewrite rdr_0. specialize (IH C6 0 ltac:(cbn [length]; lia)). rewrite rdr_0 in IH. lia.
    + replace j with ((j - 1) + 1) by lia. rewrite rdr_cons by lia. rewrite rdr_0.
      specialize (IH C6 (j - 1) ltac:(cbn [length] in *; lia)). rewrite rdr_0 in IH. lia.
Qed.

Ltac shift1 := change (0 + 1) with 1; rewrite ?rdr_0; change 1 with (0 + 1); rewrite ?rdr_cons, ?rdr_0 by lia.
Ltac shiftn a i :=
  replace i with ((i - 1) + 1) by lia;
  replace (i - 1 + 1 + 1) with ((i - 1 + 1) + 1) by lia;
  rewrite ?(rdr_cons a _ (i - 1 + 1)) by lia; rewrite ?(rdr_cons a _ (i - 1)) by lia.

Lemma chain_ranges_ok : forall r, chain_ok r -> (2 <= length r)%nat ->
  ranges_ok r (Z.of_nat (length r) - 1).
Proof.
  induction r as [|a tl IH]; intros C Hl; [contradiction|].
  destruct tl as [|b tl']; [cbn in Hl; lia|].
  pose proof C as C0.
  cbn [chain_ok] in C. destruct C as (C1 & C2 & C3 & C4 & C5 & C6).
  assert (Hlen : Z.of_nat (length (a :: b :: tl')) - 1 = Z.of_nat (length (b :: tl'))) by (cbn [length]; lia).
  rewrite Hlen.
  destruct tl' as [|c tl''].
  - (* one real range *)
    cbn [length]. change (Z.of_nat 1) with 1.
    constructor; try (cbn [length]; lia).
    + intros i Hi. replace i with 0 by lia. unfold rst, rsz. change (0 + 1) with 1.
      change (rdr [a; b] 0) with a. change (rdr [a; b] 1) with b. lia.
    + intros i Hi. replace i with 0 by lia. unfold rsz. change (0 + 1) with 1.
      change (rdr [a; b] 0) with a. change (rdr [a; b] 1) with b. lia.
    + intros i Hi. unfold rorig. pose proof (chain_orig_mono _ C0 i ltac:(cbn [length]; lia)) as H.
      rewrite rdr_0 in H. lia.
  - specialize (IH C6 ltac:(cbn [length]; lia)).
    assert (Hl2 : Z.of_nat (length (b :: c :: tl'')) - 1 = Z.of_nat (length (c :: tl''))) by (cbn [length]; lia).
    rewrite Hl2 in IH. destruct IH as [L1 L2 L3 L4 L5 L6]. unfold rst, rsz, rorig in L3, L4, L5, L6.
    assert (HN : Z.of_nat (length (b :: c :: tl'')) = Z.of_nat (length (c :: tl'')) + 1) by (cbn [length]; lia).
    constructor.
    + cbn [length] in *. lia.
    + pose proof (chain_orig_mono _ C0 (Z.of_nat (length (b :: c :: tl''))) ltac:(cbn [length]; lia)) as H.
      cbn [length] in *. lia.
    + intros i Hi. destruct (Z.eq_dec i 0) as [->|Hne].
      * unfold rst, rsz. shift1. lia.
      * unfold rst, rsz. shiftn a i. apply (L3 (i - 1)). lia.
    + intros i Hi. destruct (Z.eq_dec i 0) as [->|Hne].
      * unfold rsz. shift1. lia.
      * unfold rsz. shiftn a i. apply (L4 (i - 1)). lia.
    + intros i Hi. unfold rorig.
      pose proof (chain_orig_mono _ C0 i ltac:(lia)) as H. rewrite rdr_0 in H. lia.
    + intros i Hi Hi2. destruct (Z.eq_dec i 0) as [->|Hne].
      * unfold rst, rsz. shift1. exact C5.
      * unfold rst, rsz. shiftn a i. apply (L6 (i - 1)); lia.
Qed.

(* the linear scan finds exactly the positional hits *)
Lemma lookup_list_hit : forall r v k, lookup_list r v = Some k ->
  exists i, 0 <= i < Z.of_nat (length r) - 1 /\ hit r v i /\ k = v - rst r i + rorig r i.
Proof.
  induction r as [|a tl IH]; intros v k H; [discriminate|].
  destruct tl as [|b tl']; [discriminate|].
  cbn [lookup_list] in H.
  destruct ((start_value a <=? v) && (v <? start_value a + (orig_index b - orig_index a))) eqn:E.
  - inversion H; subst k. exists 0. split; [cbn [length]; lia|].
    unfold hit, rst, rsz, rorig. shift1. split; lia.
  - destruct (IH v k H) as (i & Hi & Hh & Hk). exists (i + 1).
    split; [cbn [length] in *; lia|].
    unfold hit, rst, rsz, rorig in *. replace (i + 1 + 1) with ((i + 1) + 1) by lia.
    rewrite (rdr_cons a _ (i + 1)) by lia. rewrite !(rdr_cons a _ i) by lia.
    split; assumption.
Qed.

Lemma lookup_list_none : forall r v, lookup_list r v = None ->
  forall i, 0 <= i < Z.of_nat (length r) - 1 -> ~ hit r v i.
Proof.
  induction r as [|a tl IH]; intros v H i Hi; [cbn in Hi; lia|].
  destruct tl as [|b tl']; [cbn in Hi; lia|].
  cbn [lookup_list] in H.
  destruct ((start_value a <=? v) && (v <? start_value a + (orig_index b - orig_index a))) eqn:E; [discriminate|].
  destruct (Z.eq_dec i 0) as [->|Hne].
  - unfold hit, rst, rsz. shift1. lia.
  - intros Hh. apply (IH v H (i - 1) ltac:(cbn [length] in *; lia)).
    unfold hit, rst, rsz in *. replace i with ((i - 1) + 1) in Hh by lia.
    replace (i - 1 + 1 + 1) with ((i - 1 + 1) + 1) in Hh by lia.
    rewrite (rdr_cons a _ (i - 1 + 1)) in Hh by lia. rewrite !(rdr_cons a _ (i - 1)) in Hh by lia. exact Hh.
Qed.

Theorem lookup_is_scan : forall r v, chain_ok r -> (2 <= length r)%nat -> -2147483648 <= v < 2147483648 ->
  int_range_lookup (Z.of_nat (length r) - 1) r v =
  match lookup_list r v with Some k => k | None => -1 end.
Proof.
  intros r v C Hl Hv.
  pose proof (chain_ranges_ok r C Hl) as R.
  destruct (lookup_correct r _ R v Hv) as [Hyes Hno].
  destruct (lookup_list r v) as [k|] eqn:E.
  - apply Hyes. destruct (lookup_list_hit r v k E) as (i & Hi & Hh & Hk). exists i. auto.
  - apply Hno. intros i Hi. apply (lookup_list_none r v E i Hi).
Qed.

(* ---------- the generator's table *)
Fixpoint incr (vs : list Z) : Prop :=
  match vs with
  | v :: t => match t with w :: _ => v < w /\ incr t | [] => True end
  | [] => True
  end.

Fixpoint index_of (v : Z) (vs : list Z) : option Z :=
  match vs with
  | [] => None
  | x :: t => if x =? v then Some 0 else option_map Z.succ (index_of v t)
  end.

Definition in32 (v : Z) : Prop := -2147483648 <= v < 2147483648.

Lemma mk_cons : forall v t i,
  mk_ranges_from (v :: t) i =
  match t, mk_ranges_from t (i + 1) with
  | w :: _, _ :: r' => if v + 1 =? w then mkr v i :: r' else mkr v i :: mk_ranges_from t (i + 1)
  | _, _ => mkr v i :: mk_ranges_from t (i + 1)
  end.
Proof. intros. destruct t; reflexivity. Qed.

Lemma mk_head : forall t v i, exists tl, mk_ranges_from (v :: t) i = mkr v i :: tl /\ tl <> [].
Proof.
  induction t as [|w t' IH]; intros v i.
  - eexists. split; [reflexivity | discriminate].
  - rewrite mk_cons.
    destruct (IH w (i + 1)) as (r' & E & Hne). rewrite E.
    destruct (v + 1 =? w).
    + exists r'. split; [reflexivity | exact Hne].
    + eexists. split; [reflexivity | discriminate].
Qed.

Lemma incr_lower : forall t v w, incr (v :: t) -> In w t -> v < w.
Proof.
  induction t as [|x t IH]; intros v w Hi Hin; [contradiction|].
  cbn [incr] in Hi. destruct Hi as [Hvx Hi]. destruct Hin as [->|Hin]; [exact Hvx|].
  pose proof (IH x w Hi Hin). lia.
Qed.

Lemma index_of_none : forall t x, (forall w, In w t -> w <> x) -> index_of x t = None.
Proof.
  induction t as [|y t IH]; intros x H; [reflexivity|].
  cbn [index_of]. destruct (Z.eqb_spec y x) as [->|_]; [exfalso; apply (H x); [left; reflexivity | reflexivity]|].
  rewrite IH; [reflexivity|]. intros w Hw. apply H. right. exact Hw.
Qed.

Lemma index_of_cons : forall x y t,
  index_of x (y :: t) = if y =? x then Some 0 else option_map Z.succ (index_of x t).
Proof. reflexivity. Qed.

Lemma mk_spec : forall vs i, vs <> [] -> incr vs -> Forall in32 vs -> 0 <= i ->
  i + Z.of_nat (length vs) < 2147483648 ->
  let r := mk_ranges_from vs i in
  chain_ok r /\ (2 <= length r)%nat /\
  forall x, lookup_list r x = option_map (fun k => k + i) (index_of x vs).
Proof.
  induction vs as [|v t IH]; intros i Hne Hinc Hb Hi Hlen; [congruence|].
  inversion Hb as [|? ? Hbv Hbt]; subst. unfold in32 in Hbv.
  destruct t as [|w t'].
  - (* single value *)
    cbn [mk_ranges_from]. cbn [length] in Hlen. split; [|split].
    + cbn. lia.
    + cbn. lia.
    + intros x. cbn [lookup_list index_of mkr start_value orig_index].
      destruct (Z.eqb_spec v x) as [->|Hvx].
      * replace ((x <=? x) && (x <? x + (i + 1 - i))) with true by lia. cbn. f_equal. lia.
      * replace ((v <=? x) && (x <? v + (i + 1 - i))) with false by lia. reflexivity.
  - cbn [incr] in Hinc. destruct Hinc as [Hvw Hinc].
    specialize (IH (i + 1) ltac:(discriminate) Hinc Hbt ltac:(lia) ltac:(cbn [length] in *; lia)).
    cbv zeta in IH. destruct IH as (C & L & Q).
    destruct (mk_head t' w (i + 1)) as (r' & E & Hr').
    rewrite mk_cons. rewrite E in *.
    destruct r' as [|b r'']; [congruence|].
    cbn [chain_ok mkr start_value orig_index] in C. destruct C as (C1 & C2 & C3 & C4 & C5 & C6).
    inversion Hbt as [|? ? Hbw _]; subst. unfold in32 in Hbw.
    destruct (Z.eqb_spec (v + 1) w) as [Hadj | Hgap].
    + (* extend the first run to the left *)
      split; [|split].
      * cbn [chain_ok mkr start_value orig_index]. repeat split; try lia; try assumption.
        destruct r''; [exact I | lia].
      * cbn [length] in *. lia.
      * intros x. specialize (Q x). cbn [lookup_list mkr start_value orig_index] in Q |- *.
        rewrite (index_of_cons x v).
        destruct (Z.eqb_spec v x) as [->|Hvx].
        -- replace ((x <=? x) && (x <? x + (orig_index b - i))) with true by lia. cbn [option_map]. f_equal. lia.
        -- destruct ((w <=? x) && (x <? w + (orig_index b - (i + 1)))) eqn:Ein.
           ++ replace ((v <=? x) && (x <? v + (orig_index b - i))) with true by lia.
              destruct (index_of x (w :: t')) as [k|]; cbn [option_map] in Q |- *; [|discriminate Q].
              inversion Q. f_equal. lia.
           ++ replace ((v <=? x) && (x <? v + (orig_index b - i))) with false by lia.
              rewrite Q. destruct (index_of x (w :: t')); cbn [option_map]; [f_equal; lia | reflexivity].
    + (* a new run *)
      split; [|split].
      * cbn [chain_ok mkr start_value orig_index]. repeat split; try lia; try assumption.
      * cbn [length] in *. lia.
      * intros x. specialize (Q x).
        cbn [lookup_list mkr start_value orig_index]. cbn [lookup_list mkr start_value orig_index] in Q.
        rewrite (index_of_cons x v).
        destruct (Z.eqb_spec v x) as [->|Hvx].
        -- replace ((x <=? x) && (x <? x + (i + 1 - i))) with true by lia. cbn [option_map]. f_equal. lia.
        -- replace ((v <=? x) && (x <? v + (i + 1 - i))) with false by lia.
           rewrite Q. destruct (index_of x (w :: t')); cbn [option_map]; [f_equal; lia | reflexivity].
Qed.

(* For every strictly increasing list of 32-bit numbers (the field numbers of a
   message, or the distinct values of an enum) and every 32-bit key: looking the
   key up in the generated table returns its index in the list, or -1. *)
Theorem generated_table_lookup : forall vs x,
  vs <> [] -> incr vs -> Forall in32 vs -> Z.of_nat (length vs) < 2147483648 -> in32 x ->
  int_range_lookup (snd (mk_ranges vs)) (fst (mk_ranges vs)) x =
  match index_of x vs with Some k => k | None => -1 end.
Proof.
  intros vs x Hne Hinc Hb Hlen Hx.
  destruct (mk_spec vs 0 Hne Hinc Hb ltac:(lia) ltac:(lia)) as (C & L & Q).
  unfold mk_ranges. destruct vs as [|v t]; [congruence|]. cbn [fst snd].
  rewrite (lookup_is_scan _ x C L Hx). rewrite Q.
  destruct (index_of x (v :: t)); cbn [option_map]; [lia | reflexivity].
Qed.

Lemma empty_table_lookup : forall x, int_range_lookup (snd (mk_ranges [])) (fst (mk_ranges [])) x = -1.
Proof. reflexivity. Qed.

(* C18 -- the append buffer holds exactly what was appended, for any history.
   Statements only; the proofs are in Proofs/BufHistory.v (buffer part) and
   Proofs/SizePack.v (streaming part). *)
From Coq Require Import ZArith List Bool.
From PBC Require Import Impl.Desc Impl.Mem Impl.Pack Impl.PackBuf Impl.WF Impl.BufSimple Proofs.BufHistory Proofs.SizePackFinal.
Import ListNotations.
Local Open Scope Z_scope.

(* For every initial capacity >= 1, every history h of appended chunks and every
   failure plan, folding protobuf_c_buffer_simple_append from the INIT state
   terminates (Some b) and: the contents are exactly the concatenation of the
   accepted chunks and the length their total; the length never exceeds the
   capacity (no write past it), which stays cap * 2^k; exactly the current heap
   block is outstanding (each outgrown block was freed exactly once); the scratch
   array is never freed; CLEAR frees the last block once and nothing else; and
   when no request is refused, every chunk is accepted. *)
Theorem C18_buffer_history : forall cap plan h,
  1 <= cap ->
  exists b acc,
    buf_appends plan (buf_init cap) h = Some b /\
    b_data b = concat acc /\ b_len b = Z.of_nat (length (concat acc)) /\
    b_len b <= b_alloced b /\ (exists k, 0 <= k /\ b_alloced b = cap * 2 ^ k) /\
    live_blocks (b_log b) = match b_blk b with Some id => [id] | None => [] end /\
    ~ In BFreeScratch (b_log b) /\
    live_blocks (b_log (buf_clear b)) = [] /\ ~ In BFreeScratch (b_log (buf_clear b)) /\
    ((forall k, plan k = false) -> acc = h).
Proof. exact buffer_history. Qed.
Print Assumptions C18_buffer_history.

(* A refused growth leaves contents, length, capacity, ownership and the set of
   outstanding blocks exactly as they were (shared with C08). *)
Theorem C18_refused_growth_keeps_state : forall cap plan b chunk,
  1 <= cap -> binv cap b ->
  plan (b_next b) = true -> b_len b + Z.of_nat (length chunk) > b_alloced b ->
  exists b', buf_append plan b chunk = Some b' /\
    b_data b' = b_data b /\ b_len b' = b_len b /\ b_alloced b' = b_alloced b /\
    b_must_free b' = b_must_free b /\ b_blk b' = b_blk b /\
    live_blocks (b_log b') = live_blocks (b_log b).
Proof. exact buffer_refusal_keeps_state. Qed.
Print Assumptions C18_refused_growth_keeps_state.

(* Streaming: for every well-formed message, the chunks protobuf_c_message_pack_to_buffer hands to the
   buffer's append callback, concatenated in call order, are exactly the bytes protobuf_c_message_pack
   writes (whatever the number of append calls); composed with C18_buffer_history (no refusal: acc = h)
   the simple buffer then holds exactly those bytes. *)
Theorem C18_streaming_delivers_pack_bytes : forall (E : env) (m : msg),
  wf_msg E m = true ->
  exists b cs, pack_msg E m = Ok b /\ chunks_msg E m = Ok cs /\ concat cs = b.
Proof.
  intros E m W. destruct (size_pack_chunks_agree E m W) as (b & Hp & _ & cs & Hc & Hcat).
  exists b, cs. auto.
Qed.
Print Assumptions C18_streaming_delivers_pack_bytes.

(* Message level, continued: the allocation pass and the parse of all fields. *)
From Coq Require Import ZArith List Bool Lia ZifyBool.
From PBC Require Import Base.CInt Base.Bits Gen.LeafC Spec.Wire
     Impl.Desc Impl.Mem Impl.Enc Impl.Pack Impl.WF Impl.Unpack Impl.Canon
     Proofs.LeafEnc Proofs.EncLemmas Proofs.LeafDec Proofs.SizePack Proofs.ScanRec Proofs.ScanRecs
     Proofs.CellRT2 Proofs.FieldRT Proofs.FieldPkg Proofs.MsgRT.
Import ListNotations.
Local Open Scope Z_scope.

(* the slot has the shape its descriptor announces *)
Definition kind_ok (f : field) (s : slot) : Prop :=
  match f_label f, s with
  | LRepeated, SRep n _ _ => 0 <= n < 268435456
  | LRepeated, _ => False
  | _, SRep _ _ _ => False
  | _, SOne _ _ => forall g, f_quant f <> QCase g
  | _, SUnion g => f_quant f = QCase g
  end.

Lemma kind_counted_alloc : forall q present,
  kind_ok (q_f q) (q_s q) -> (f_label (q_f q) = LRequired -> present = true) ->
  alloc_slot (q_f q) present (counted q) = Ok (alloc_init (q_f q) (q_s q)).
Proof.
  intros [[[f s] F] r] present K Hp. unfold q_f, q_s in *. cbn [fst snd] in *. unfold alloc_slot, counted, q_s, q_f, kind_ok, alloc_init in *. cbn [fst snd].
  destruct (f_label f) eqn:El; destruct s as [h v|n c a|g]; try contradiction.
  - rewrite (Hp eq_refl). unfold init_slot. rewrite El. destruct (f_quant f) as [| |g|] eqn:Eq; try reflexivity; try (destruct (f_default f); reflexivity).
    exfalso. exact (K g eq_refl).
  - rewrite (Hp eq_refl). unfold init_slot. rewrite El, K. destruct (f_default f); reflexivity.
  - unfold init_slot. rewrite El. destruct (f_quant f) as [| |g|] eqn:Eq; try reflexivity. exfalso. exact (K g eq_refl).
  - unfold init_slot. rewrite El, K. reflexivity.
  - destruct (Z.eqb_spec n 0) as [-> | Hn]; reflexivity.
  - unfold init_slot. rewrite El. destruct (f_quant f) as [| |g|] eqn:Eq; try reflexivity. exfalso. exact (K g eq_refl).
  - unfold init_slot. rewrite El, K. reflexivity.
Qed.

Lemma alloc_quads : forall qs,
  Forall (fun q => kind_ok (q_f q) (q_s q)) qs ->
  alloc_slots (map q_f qs) (map (fun q => label_eqb (f_label (q_f q)) LRequired) qs) (map counted qs) =
  Ok (map (fun q => alloc_init (q_f q) (q_s q)) qs).
Proof.
  induction qs as [|q qs IH]; intros H; [reflexivity|].
  inversion H as [|? ? K H']; subst. cbn [map alloc_slots hd tl].
  rewrite (kind_counted_alloc q _ K).
  - cbn [bind]. rewrite (IH H'). reflexivity.
  - intros El. rewrite El. reflexivity.
Qed.

Definition apply_unions (um : list (Z * sval)) (qs : list quad) (u : list (Z * sval)) : list (Z * sval) :=
  fold_left (fun u q => match q_s q, q_r q with
                        | SUnion g, _ :: _ => set_nth u g (nth g um (0, VWord 0))
                        | _, _ => u
                        end) qs u.

Lemma nth_error_set_nth_other : forall A (l : list A) i j x, i <> j -> nth_error (set_nth l i x) j = nth_error l j.
Proof.
  induction l as [|y l IH]; intros i j x H; destruct i, j; cbn; try reflexivity; try congruence.
  apply IH. congruence.
Qed.

Section MsgParse.
Variable E : env.
Variable usub : nat -> list Z -> res msg.
Variable md : mdesc.
Variable um : list (Z * sval).

Definition active (q : quad) (g : nat) : Prop := q_s q = SUnion g /\ q_r q <> [].

Lemma parse_quads : forall qs pre_s unions d unk,
  (forall k q, nth_error qs k = Some q ->
     fpkg_with E usub md (q_r q) (length pre_s + k) (q_f q) (q_s q) um (q_F q)) ->
  (forall q g, In q qs -> active q g -> nth_error unions g = Some (0, VWord 0)) ->
  (forall k1 k2 q1 q2 g, nth_error qs k1 = Some q1 -> nth_error qs k2 = Some q2 -> active q1 g -> active q2 g -> k1 = k2) ->
  parse_members E usub md (all_members (length pre_s) qs)
    (Msg d (pre_s ++ map (fun q => alloc_init (q_f q) (q_s q)) qs) unions unk) =
  Ok (Msg d (pre_s ++ map q_s qs) (apply_unions um qs unions) unk).
Proof.
  induction qs as [|q qs IH]; intros pre_s unions d unk Hpk Hfresh Huniq.
  - cbn [all_members parse_members map apply_unions fold_left]. reflexivity.
  - cbn [all_members map]. rewrite parse_members_app.
    pose proof (Hpk 0%nat q eq_refl) as P. rewrite Nat.add_0_r in P.
    destruct P as (_ & _ & _ & _ & _ & Hparse).
    rewrite (Hparse d (pre_s ++ alloc_init (q_f q) (q_s q) :: map (fun q0 => alloc_init (q_f q0) (q_s q0)) qs) unions unk).
    + cbn [bind]. rewrite set_nth_app_mid.
      set (unions' := match q_s q, q_r q with
                      | SUnion g, _ :: _ => set_nth unions g (nth g um (0, VWord 0))
                      | _, _ => unions
                      end).
      replace (pre_s ++ q_s q :: map (fun q0 => alloc_init (q_f q0) (q_s q0)) qs)
        with ((pre_s ++ [q_s q]) ++ map (fun q0 => alloc_init (q_f q0) (q_s q0)) qs) by (rewrite <- app_assoc; reflexivity).
      replace (S (length pre_s)) with (length (pre_s ++ [q_s q])) by (rewrite app_length; cbn; lia).
      rewrite (IH (pre_s ++ [q_s q]) unions' d unk).
      * cbn [apply_unions fold_left]. fold unions'. rewrite <- app_assoc. reflexivity.
      * intros k q' Hq'. rewrite app_length. cbn [length]. replace (length pre_s + 1 + k)%nat with (length pre_s + S k)%nat by lia.
        apply Hpk. exact Hq'.
      * intros q' g' Hin' Hact'.
        assert (Hfr : nth_error unions g' = Some (0, VWord 0)) by (apply (Hfresh q' g'); [right; exact Hin' | exact Hact']).
        subst unions'. destruct (q_s q) as [| |g] eqn:Es; try exact Hfr.
        destruct (q_r q) as [|r0 rs0] eqn:Er; [exact Hfr|].
        destruct (Nat.eq_dec g g') as [-> | Hne]; [|rewrite nth_error_set_nth_other by exact Hne; exact Hfr].
        exfalso. apply In_nth_error in Hin'. destruct Hin' as (k' & Hk').
        assert (0%nat = S k') by (apply (Huniq 0%nat (S k') q q' g'); [reflexivity | exact Hk' | split; [exact Es | rewrite Er; discriminate] | exact Hact']).
        discriminate.
      * intros k1 k2 q1 q2 g H1 H2 A1 A2.
        assert (S k1 = S k2) by (apply (Huniq (S k1) (S k2) q1 q2 g); assumption). lia.
    + apply nth_error_app_mid.
    + intros g Hs Hr. apply (Hfresh q g); [left; reflexivity | split; assumption].
Qed.

End MsgParse.

#!/usr/bin/env python3
"""Compare the real generator with the Coq model of the generator (GenModel/Gen.v, extracted, driver
harness/ocaml/gen_model.ml) on one schema.

A *case* is either a path to a root .proto file (imports are searched in its directory and in the -I
directories) or a random seed for protogen.gen_case (an int, or the text "123", or "seed:123").

Library:
    real_dumps(case, incdirs=(), cache_dir=None) -> dict   genloop.run_case on the case: keys 'id', 'fd_dump',
                                                           'desc_dump', 'problems' (list of strings)
    run_model(fd_text, model_exe=None) -> (rc, stdout, stderr)
    diff_lines(real_text, model_text) -> [str]              unified line diff ('-' real, '+' model); [] = agreement
                                                           (every line of section 2: descriptors MD..SN, lookups
                                                           ML MK EL EK SL, service tests SS SI SX)
    line_kinds(diff) -> {kind: count}                       which kinds of lines a diff touches
    compare(case, incdirs=(), model_exe=None, cache_dir=None) -> dict
                                                           keys 'id', 'ok', 'diff', 'problems', 'fd_dump',
                                                           'real', 'model', 'model_s'
CLI:
    gencmp.py [--model EXE] [--cache DIR] [-I DIR]... [-j N] [-q] CASE...
      CASE: a .proto path | a seed N | a range A..B (inclusive) | the word `fixed` (= harness/gen/fixed_protos/*.proto)
    prints for every case `== <id>: AGREE` or `== <id>: DISAGREE` followed by the diff; exit status 1 if any case
    disagrees or could not be run.

The model driver is looked up as --model, $GEN_MODEL, <verif root>/build/ocaml/gen_model.
With --cache DIR the two texts produced by the real tool chain are stored in DIR/<id>.fd and DIR/<id>.dd and
reused by later runs (the plugin is not run again; delete the directory after changing /repo).
"""
import concurrent.futures
import difflib
import glob
import os
import random
import re
import shutil
import subprocess
import sys
import time

HERE = os.path.dirname(os.path.abspath(__file__))
ROOT = os.path.dirname(os.path.dirname(HERE))
sys.path.insert(0, HERE)
import genloop      # noqa: E402
import protogen     # noqa: E402

FIXED_DIR = os.path.join(HERE, 'fixed_protos')


def default_model_exe():
    return os.environ.get('GEN_MODEL') or os.path.join(ROOT, 'build', 'ocaml', 'gen_model')


def case_id(case):
    """Stable identifier of a case (also the cache key)."""
    if isinstance(case, int):
        return 'seed%d' % case
    s = str(case)
    m = re.fullmatch(r'(?:seed:?)?(\d+)', s)
    if m:
        return 'seed%d' % int(m.group(1))
    return re.sub(r'[^A-Za-z0-9_.-]', '_', os.path.splitext(os.path.basename(s))[0])


def _case_protos(case, incdirs):
    if isinstance(case, int):
        return protogen.gen_case(random.Random(case))
    s = str(case)
    m = re.fullmatch(r'(?:seed:?)?(\d+)', s)
    if m:
        return protogen.gen_case(random.Random(int(m.group(1))))
    return genloop.collect_protos(s, list(incdirs))


def real_dumps(case, incdirs=(), cache_dir=None):
    """Both texts of harness/GENFORMAT.md for the case, produced by libprotobuf (section 1) and by the real
    plugin + C compiler + desc_dump (section 2)."""
    cid = case_id(case)
    if cache_dir:
        pf, pd = os.path.join(cache_dir, cid + '.fd'), os.path.join(cache_dir, cid + '.dd')
        if os.path.exists(pf) and os.path.exists(pd):
            with open(pf) as f1, open(pd) as f2:
                return {'id': cid, 'fd_dump': f1.read(), 'desc_dump': f2.read(), 'problems': [], 'cached': True}
    protos, root = _case_protos(case, incdirs)
    work = os.path.join(genloop.DEFAULT_SCRATCH, 'gencmp_%d_%s' % (os.getpid(), cid))
    try:
        r = genloop.run_case(work, protos, root, check_cxx=False, jobs=2)
    finally:
        if not os.environ.get('GENLOOP_KEEP'):
            shutil.rmtree(work, ignore_errors=True)
    problems = []
    if r['fd_dump_rc'] != 0:
        problems.append('fd_dump failed (rc=%s): %s' % (r['fd_dump_rc'], r['fd_dump_stderr'].strip()))
    if r['protoc_rc'] != 0:
        problems.append('protoc failed (rc=%s): %s' % (r['protoc_rc'], r['protoc_stderr'].strip()))
    for k in ('compile_errors', 'link_errors'):
        for e in r[k]:
            problems.append('%s %s (%s): %s' % (k, e['file'], e['std'], e['stderr']))
    if r['desc_dump_rc'] not in (0,):
        problems.append('desc_dump exit status %s %s' % (r['desc_dump_rc'], r['desc_dump_stderr']))
    res = {'id': cid, 'fd_dump': r['fd_dump'], 'desc_dump': r['desc_dump'], 'problems': problems, 'cached': False}
    if cache_dir and not problems:
        os.makedirs(cache_dir, exist_ok=True)
        for suffix, text in (('.fd', r['fd_dump']), ('.dd', r['desc_dump'])):
            tmp = os.path.join(cache_dir, cid + suffix + '.tmp%d' % os.getpid())
            with open(tmp, 'w') as fh:
                fh.write(text)
            os.replace(tmp, os.path.join(cache_dir, cid + suffix))
    return res


def run_model(fd_text, model_exe=None):
    """Run the extracted model on a section-1 text (passed on stdin)."""
    exe = model_exe or default_model_exe()
    p = subprocess.run([exe, '-'], input=fd_text.encode(), stdout=subprocess.PIPE, stderr=subprocess.PIPE, timeout=120)
    return p.returncode, p.stdout.decode('utf-8', 'replace'), p.stderr.decode('utf-8', 'replace')


def diff_lines(real_text, model_text):
    a, b = real_text.splitlines(), model_text.splitlines()
    if a == b:
        return []
    return [l for l in difflib.unified_diff(a, b, 'real', 'model', lineterm='', n=1)]


def line_kinds(diff):
    """{'MU': 2, 'EK': 1, ...}: the number of real-side lines of each kind that a diff removes or changes."""
    kinds = {}
    for l in diff:
        if l.startswith('-') and not l.startswith('---'):
            k = l[1:].split(' ', 1)[0]
            kinds[k] = kinds.get(k, 0) + 1
        elif l.startswith('+') and not l.startswith('+++'):
            k = l[1:].split(' ', 1)[0]
            kinds.setdefault(k, 0)
    return kinds


def compare(case, incdirs=(), model_exe=None, cache_dir=None):
    r = real_dumps(case, incdirs, cache_dir)
    res = {'id': r['id'], 'ok': False, 'diff': [], 'problems': list(r['problems']), 'fd_dump': r['fd_dump'],
           'real': r['desc_dump'], 'model': '', 'model_s': 0.0}
    if not r['fd_dump']:
        return res
    t0 = time.time()
    rc, out, err = run_model(r['fd_dump'], model_exe)
    res['model_s'] = time.time() - t0
    res['model'] = out
    if rc != 0:
        res['problems'].append('model driver failed (rc=%d): %s' % (rc, err.strip()[:2000]))
        return res
    res['diff'] = diff_lines(r['desc_dump'], out)
    res['ok'] = not res['diff'] and not res['problems']
    return res


def expand_cases(args):
    cases = []
    for a in args:
        m = re.fullmatch(r'(\d+)\.\.(\d+)', a)
        if m:
            cases.extend(range(int(m.group(1)), int(m.group(2)) + 1))
        elif a == 'fixed':
            cases.extend(sorted(glob.glob(os.path.join(FIXED_DIR, '*.proto'))))
        elif re.fullmatch(r'(?:seed:?)?\d+', a):
            cases.append(int(re.sub(r'\D', '', a)))
        else:
            cases.append(a)
    return cases


def main(argv):
    model, cache, incs, jobs, quiet, pos = None, None, [], 4, False, []
    i = 0
    while i < len(argv):
        a = argv[i]
        if a == '--model':
            i += 1
            model = argv[i]
        elif a == '--cache':
            i += 1
            cache = argv[i]
        elif a == '-I':
            i += 1
            incs.append(argv[i])
        elif a.startswith('-I'):
            incs.append(a[2:])
        elif a == '-j':
            i += 1
            jobs = int(argv[i])
        elif a == '-q':
            quiet = True
        elif a == '--collect':          # only fill the cache, do not run the model
            model = False
        else:
            pos.append(a)
        i += 1
    cases = expand_cases(pos)
    if not cases:
        sys.stderr.write(__doc__)
        return 2
    genloop.ensure_plugin()
    genloop.build_tools()

    def one(c):
        try:
            if model is False:
                r = real_dumps(c, incs, cache)
                return {'id': r['id'], 'ok': not r['problems'], 'diff': [], 'problems': r['problems'], 'model_s': 0.0}
            return compare(c, incs, model, cache)
        except Exception as e:                      # keep going: one broken case must not hide the others
            return {'id': case_id(c), 'ok': False, 'diff': [], 'problems': ['exception: %r' % (e,)], 'model_s': 0.0}

    bad, n, tmax, kinds = 0, 0, 0.0, {}
    with concurrent.futures.ThreadPoolExecutor(max_workers=max(1, jobs)) as ex:
        for r in ex.map(one, cases):
            n += 1
            tmax = max(tmax, r['model_s'])
            if r['ok']:
                if not quiet:
                    print('== %s: AGREE' % r['id'])
            else:
                bad += 1
                print('== %s: DISAGREE' % r['id'])
                for p in r['problems']:
                    print('!! ' + p)
                for l in r['diff']:
                    print(l)
                for k, c in line_kinds(r['diff']).items():
                    kinds[k] = kinds.get(k, 0) + max(c, 1)
            sys.stdout.flush()
    print('%d cases, %d agree, %d disagree; slowest model run %.3fs' % (n, n - bad, bad, tmax))
    if kinds:
        print('differing lines by kind: ' + ' '.join('%s=%d' % kv for kv in sorted(kinds.items())))
    return 1 if bad else 0


if __name__ == '__main__':
    sys.exit(main(sys.argv[1:]))

#!/usr/bin/env python3
"""replay every finding: run_findings.py <impl_driver> <ref_driver>   (prints both outputs side by side)"""
import glob, os, subprocess, sys
here = os.path.dirname(os.path.abspath(__file__))
impl, ref = sys.argv[1], sys.argv[2]
for p in sorted(glob.glob(os.path.join(here, '*.txt'))):
    cases = [l for l in open(p).read().splitlines() if l.split(' ')[0] in ('UNPACK', 'PACK', 'REFPARSE')]
    c = subprocess.run([impl, p], stdout=subprocess.PIPE, stderr=subprocess.DEVNULL).stdout.decode().splitlines()
    r = subprocess.run([ref, p], stdout=subprocess.PIPE).stdout.decode().splitlines()
    print('==', os.path.basename(p))
    for k, x, y in zip(cases, c, r):
        print('  ' + k[:100]); print('    C  : ' + x[:160]); print('    REF: ' + y[:160])
        print('    ' + ('agree' if x == y else 'DIFFER'))

(* What the specification-level parser (Impl/SpecParse.v) prescribes for ONE record folded into a message, spelled out
   rule by rule: an unknown number is retained, a singular field takes the last value, occurrences of a singular
   sub-message merge, a repeated field appends, a oneof member replaces the member chosen before. *)
From Coq Require Import ZArith List Bool Lia.
From PBC Require Import Base.CInt Spec.Wire Spec.WireMsg Spec.WireRaw Impl.Desc Impl.Mem Impl.Unpack Impl.SpecParse.
Import ListNotations.
Local Open Scope Z_scope.

Definition has_after (f : field) (h : Z) : Z :=
  match f_label f with LRequired => h | _ => match f_quant f with QNone => h | _ => 1 end end.

Section Rules.
Variable E : env.
Variable sub : nat -> list Z -> option msg.
Variable md : mdesc.

(* 1. a record with a number the schema does not know is retained, with its bytes, after the unknown fields seen so far;
      nothing else changes *)
Theorem rule_unknown_retained : forall r d slots unions unk,
  field_index md (rr_num r) = None ->
  spec_record E sub md r (Msg d slots unions unk) =
  Some (Msg d slots unions (unk ++ [{| u_tag := rr_num r; u_wt := wt_of (rr_pay r); u_data := rr_raw r |}])).
Proof.
  intros r d slots unions unk H.
  unfold spec_record. rewrite H. reflexivity.
Qed.

(* 5b (used by 2). outside sub-messages, what the cell held before plays no part *)
Theorem rule_oneof_other_member_forgotten : forall f p old, f_type f <> TMessage ->
  cell_of E sub f p old = cell_of E sub f p None.
Proof.
  intros f p old H. unfold cell_of.
  destruct (f_type f) eqn:Ht; try reflexivity.
  exfalso; apply H; reflexivity.
Qed.

(* 2. LAST ONE WINS *)
Theorem rule_last_one_wins : forall r d slots unions unk i f h old,
  field_index md (rr_num r) = Some i -> nth_error (md_fields md) i = Some f ->
  nth_error slots i = Some (SOne h old) -> f_label f <> LRepeated -> f_type f <> TMessage ->
  spec_record E sub md r (Msg d slots unions unk) =
  match cell_of E sub f (rr_pay r) None with
  | Some v => Some (Msg d (set_nth slots i (SOne (has_after f h) v)) unions unk)
  | None => None
  end.
Proof.
  intros r d slots unions unk i f h old Hi Hf Hs Hl Ht.
  unfold spec_record. rewrite Hi, Hf, Hs.
  rewrite (rule_oneof_other_member_forgotten f (rr_pay r) (old_msg old) Ht).
  unfold has_after.
  destruct (f_label f) eqn:Hlab.
  - destruct (cell_of E sub f (rr_pay r) None) eqn:Hc; reflexivity.
  - destruct (cell_of E sub f (rr_pay r) None) eqn:Hc; reflexivity.
  - exfalso; apply Hl; reflexivity.
  - destruct (cell_of E sub f (rr_pay r) None) eqn:Hc; reflexivity.
Qed.

(* the step on a singular slot outside any oneof, whatever the type *)
Lemma spec_record_singular : forall r d slots unions unk i f h old,
  field_index md (rr_num r) = Some i -> nth_error (md_fields md) i = Some f ->
  nth_error slots i = Some (SOne h old) -> f_label f <> LRepeated ->
  spec_record E sub md r (Msg d slots unions unk) =
  match cell_of E sub f (rr_pay r) (old_msg old) with
  | Some v => Some (Msg d (set_nth slots i (SOne (has_after f h) v)) unions unk)
  | None => None
  end.
Proof.
  intros r d slots unions unk i f h old Hi Hf Hs Hl.
  unfold spec_record. rewrite Hi, Hf, Hs.
  unfold has_after.
  destruct (f_label f) eqn:Hlab.
  - destruct (cell_of E sub f (rr_pay r) (old_msg old)) eqn:Hc; reflexivity.
  - destruct (cell_of E sub f (rr_pay r) (old_msg old)) eqn:Hc; reflexivity.
  - exfalso; apply Hl; reflexivity.
  - destruct (cell_of E sub f (rr_pay r) (old_msg old)) eqn:Hc; reflexivity.
Qed.

(* 3. SUB-MESSAGES MERGE *)
Theorem rule_submessage_merged : forall r d slots unions unk i f h m1 bs m2 mm,
  field_index md (rr_num r) = Some i -> nth_error (md_fields md) i = Some f ->
  nth_error slots i = Some (SOne h (VMsg (Some m1))) -> f_label f <> LRepeated -> f_type f = TMessage ->
  rr_pay r = PLen bs -> sub (f_sub f) bs = Some m2 -> merge_messages E m1 m2 = Ok mm ->
  spec_record E sub md r (Msg d slots unions unk) =
  Some (Msg d (set_nth slots i (SOne (has_after f h) (VMsg (Some mm)))) unions unk).
Proof.
  intros r d slots unions unk i f h m1 bs m2 mm Hi Hf Hs Hl Ht Hp Hsub Hm.
  rewrite (spec_record_singular r d slots unions unk i f h (VMsg (Some m1)) Hi Hf Hs Hl).
  unfold cell_of. rewrite Ht, Hp, Hsub.
  cbn [obind old_msg]. rewrite Hm. reflexivity.
Qed.

Theorem rule_submessage_first : forall r d slots unions unk i f h old bs m2,
  field_index md (rr_num r) = Some i -> nth_error (md_fields md) i = Some f ->
  nth_error slots i = Some (SOne h old) -> old_msg old = None -> f_label f <> LRepeated -> f_type f = TMessage ->
  rr_pay r = PLen bs -> sub (f_sub f) bs = Some m2 ->
  spec_record E sub md r (Msg d slots unions unk) =
  Some (Msg d (set_nth slots i (SOne (has_after f h) (VMsg (Some m2)))) unions unk).
Proof.
  intros r d slots unions unk i f h old bs m2 Hi Hf Hs Ho Hl Ht Hp Hsub.
  rewrite (spec_record_singular r d slots unions unk i f h old Hi Hf Hs Hl).
  unfold cell_of. rewrite Ht, Hp, Hsub, Ho.
  cbn [obind]. reflexivity.
Qed.

(* 4. REPEATED FIELDS CONCATENATE *)
Lemma spec_append_some : forall n cap (l vs : list sval),
  spec_append (SRep n cap (Some l)) vs =
  Some (match vs with
        | [] => SRep n cap (Some l)
        | _ => SRep (n + zlen vs) (n + zlen vs) (Some (l ++ vs))
        end).
Proof. intros n cap l vs. destruct vs; reflexivity. Qed.

Theorem rule_repeated_appended : forall r d slots unions unk i f n cap l m',
  field_index md (rr_num r) = Some i -> nth_error (md_fields md) i = Some f ->
  nth_error slots i = Some (SRep n cap (Some l)) -> f_label f = LRepeated ->
  spec_record E sub md r (Msg d slots unions unk) = Some m' ->
  exists vs, m' = Msg d (set_nth slots i (match vs with
                                          | [] => SRep n cap (Some l)
                                          | _ => SRep (n + zlen vs) (n + zlen vs) (Some (l ++ vs))
                                          end)) unions unk.
Proof.
  intros r d slots unions unk i f n cap l m' Hi Hf Hs Hl H.
  unfold spec_record in H. rewrite Hi, Hf, Hs, Hl in H.
  destruct (if packable (f_type f) then match rr_pay r with PLen bs => Some bs | _ => None end else None)
    as [bs|] eqn:Hpk.
  - destruct (packed_elems (f_type f) bs) as [vs|] eqn:Hpe; cbn [obind] in H; [|discriminate].
    rewrite spec_append_some in H. cbn [obind] in H.
    exists vs. injection H as H. symmetry. exact H.
  - destruct (cell_of E sub f (rr_pay r) None) as [v|] eqn:Hc; cbn [obind] in H; [|discriminate].
    rewrite spec_append_some in H. cbn [obind] in H.
    exists [v]. injection H as H. symmetry. exact H.
Qed.

(* 5. ONEOF *)
Theorem rule_oneof_replaced : forall r d slots unions unk i f g case cell m',
  field_index md (rr_num r) = Some i -> nth_error (md_fields md) i = Some f ->
  nth_error slots i = Some (SUnion g) -> f_label f <> LRepeated -> nth_error unions g = Some (case, cell) ->
  spec_record E sub md r (Msg d slots unions unk) = Some m' ->
  exists v, m' = Msg d slots (set_nth unions g (rr_num r, v)) unk /\
            cell_of E sub f (rr_pay r) (if case =? rr_num r then old_msg cell else None) = Some v.
Proof.
  intros r d slots unions unk i f g case cell m' Hi Hf Hs Hl Hu H.
  unfold spec_record in H. rewrite Hi, Hf, Hs in H.
  destruct (f_label f) eqn:Hlab.
  - discriminate.
  - rewrite Hu in H.
    destruct (cell_of E sub f (rr_pay r) (if case =? rr_num r then old_msg cell else None)) as [v|] eqn:Hc;
      cbn [obind] in H; [|discriminate].
    exists v. split; [|reflexivity]. injection H as H. symmetry. exact H.
  - exfalso; apply Hl; reflexivity.
  - rewrite Hu in H.
    destruct (cell_of E sub f (rr_pay r) (if case =? rr_num r then old_msg cell else None)) as [v|] eqn:Hc;
      cbn [obind] in H; [|discriminate].
    exists v. split; [|reflexivity]. injection H as H. symmetry. exact H.
Qed.

End Rules.

Print Assumptions rule_unknown_retained.
Print Assumptions rule_last_one_wins.
Print Assumptions rule_submessage_merged.
Print Assumptions rule_submessage_first.
Print Assumptions rule_repeated_appended.
Print Assumptions rule_oneof_replaced.
Print Assumptions rule_oneof_other_member_forgotten.

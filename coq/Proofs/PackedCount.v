(* What the scanner counts for a packed payload (count_packed_elements) bounds
   what the element loops of parse_packed_repeated_member store, for ARBITRARY
   payload bytes (no canonicity assumption, unlike Proofs/PackedDec.v).

   A1  scan_varint returns the position after the first byte without the
       continuation bit (among the first min(len,10) bytes), or 0.
   A2  parse_packed_varints yields exactly one element per terminator byte.
   A3  parse_packed_fixed n yields exactly n elements.
   A4  count_packed_elements >= number of elements parse_packed stores.
   A5  count_packed_elements <= payload length. *)
From Coq Require Import ZArith List Bool Lia ZifyBool.
From PBC Require Import Base.CInt Base.Bits Base.Bits2 Gen.LeafC
     Impl.Desc Impl.Mem Impl.WF Impl.Unpack
     Proofs.SizePack Proofs.LeafDec Proofs.PackedDec.
From PBC Require Proofs.LeafSafe.
Import ListNotations.
Local Open Scope Z_scope.

Ltac Zify.zify_post_hook ::= Z.div_mod_to_equations.

(* the same predicate as Proofs.LeafSafe.bytes *)
Notation bytes := LeafSafe.bytes.

Lemma bytes_In : forall d, bytes d <-> (forall b, In b d -> 0 <= b < 256).
Proof. intros d. unfold LeafSafe.bytes. apply Forall_forall. Qed.

Lemma bytes_skipn : forall n d, bytes d -> bytes (skipn n d).
Proof.
  intros n d H. rewrite bytes_In in *. intros b Hb. apply H.
  rewrite <- (firstn_skipn n d). apply in_or_app. right. exact Hb.
Qed.

Lemma bytes_firstn : forall n d, bytes d -> bytes (firstn n d).
Proof.
  intros n d H. rewrite bytes_In in *. intros b Hb. apply H.
  rewrite <- (firstn_skipn n d). apply in_or_app. left. exact Hb.
Qed.

Lemma bytes_rd : forall d i, bytes d -> 0 <= rd d i < 256.
Proof.
  intros d i H. unfold rd. destruct (Nat.lt_ge_cases (Z.to_nat i) (length d)) as [Hlt|Hge].
  - rewrite bytes_In in H. apply H. apply nth_In. exact Hlt.
  - rewrite nth_overflow by exact Hge. lia.
Qed.

Lemma zlen_skipn : forall (A : Type) n (l : list A), zlen (skipn n l) = zlen l - Z.of_nat (Nat.min n (length l)).
Proof. intros A n l. unfold zlen. rewrite skipn_length. lia. Qed.

(* ------------------------------------------------------------------ *)
(* A1. scan_varint                                                      *)

Definition svc_I (n : Z) (d : list Z) (i : Z) : Prop :=
  0 <= i <= n /\ forall j, 0 <= j < i -> Z.land (rd d j) 128 <> 0.

Lemma sv_loop_first : forall n d, 0 <= n <= 10 ->
  exists i, while_ 12 (LeafSafe.sv_body n d) 0 = LDone i /\ svc_I n d i /\
            (i < n -> Z.land (rd d i) 128 = 0).
Proof.
  intros n d Hn.
  set (m := fun i : Z => Z.to_nat (n - i)).
  assert (Hstep : forall s s', svc_I n d s -> LeafSafe.sv_body n d s = Continue s' ->
                               svc_I n d s' /\ (m s' < m s)%nat).
  { intros i s' [Hi Hall] Hb. unfold LeafSafe.sv_body in Hb. unfold svc_I, m.
    destruct (Z.ltb_spec i n) as [Hlt|Hge]; [|discriminate Hb].
    destruct (Z.eqb_spec (Z.land (rd d i) 128) 0) as [Hz|Hnz]; [discriminate Hb|].
    inversion Hb; subst s'; clear Hb. rewrite (u32_small (i + 1)) by lia.
    split; [split; [lia|]|lia].
    intros j Hj. destruct (Z.eq_dec j i) as [->|Hne]; [exact Hnz|apply Hall; lia]. }
  pose proof (LeafSafe.while_inv (LeafSafe.sv_body n d) (svc_I n d) m Hstep
                (fun i => svc_I n d i /\ (i < n -> Z.land (rd d i) 128 = 0)) (fun _ : Z => False)) as W.
  assert (Hbreak : forall s s', svc_I n d s -> LeafSafe.sv_body n d s = Break s' ->
                                svc_I n d s' /\ (s' < n -> Z.land (rd d s') 128 = 0)).
  { intros i s' HI Hb. unfold LeafSafe.sv_body in Hb.
    destruct (Z.ltb_spec i n) as [Hlt|Hge].
    - destruct (Z.eqb_spec (Z.land (rd d i) 128) 0) as [Hz|Hnz]; [|discriminate Hb].
      inversion Hb; subst s'. split; [exact HI|intros _; exact Hz].
    - inversion Hb; subst s'. split; [exact HI|intros; lia]. }
  assert (Hret : forall s (r : Z), svc_I n d s -> LeafSafe.sv_body n d s = Return r -> False).
  { intros i r _ Hb. unfold LeafSafe.sv_body in Hb.
    destruct (i <? n); [destruct (Z.land (rd d i) 128 =? 0)|]; discriminate Hb. }
  specialize (W Hbreak Hret 12%nat 0).
  assert (H0 : svc_I n d 0) by (unfold svc_I; split; [lia|intros; lia]).
  assert (Hm0 : (m 0%Z < 12)%nat) by (unfold m; lia).
  specialize (W H0 Hm0).
  destruct (while_ 12 (LeafSafe.sv_body n d) 0) as [i|r|]; [|contradiction|contradiction].
  exists i. split; [reflexivity|exact W].
Qed.

(* the result is 0, or the position just after the first terminator byte *)
Theorem scan_varint_first : forall len d, 0 <= len <= zlen d -> scan_varint len d <> 0 ->
  let s := scan_varint len d in
  1 <= s <= 10 /\ s <= len /\ Z.land (rd d (s - 1)) 128 = 0 /\
  (forall i, 0 <= i < s - 1 -> Z.land (rd d i) 128 <> 0).
Proof.
  intros len d Hlen. cbv zeta. rewrite LeafSafe.scan_varint_eq. cbv zeta.
  set (n := if len >? 10 then 10 else len).
  assert (Hn : 0 <= n <= 10 /\ n <= len) by (subst n; destruct (Z.gtb_spec len 10); lia).
  destruct (sv_loop_first n d ltac:(lia)) as (i & E & [Hi Hall] & Hterm). rewrite E.
  destruct (Z.eqb_spec i n) as [Heq|Hne]; [intros Hnz; congruence|].
  rewrite (u32_small (i + 1)) by lia. intros _.
  replace (i + 1 - 1) with i by lia.
  split; [lia|]. split; [lia|]. split.
  - apply Hterm. lia.
  - intros j Hj. apply Hall. lia.
Qed.

(* a zero result means no terminator among the first min(len,10) bytes *)
Theorem scan_varint_zero : forall len d, 0 <= len -> scan_varint len d = 0 ->
  forall i, 0 <= i < Z.min len 10 -> Z.land (rd d i) 128 <> 0.
Proof.
  intros len d Hlen. rewrite LeafSafe.scan_varint_eq. cbv zeta.
  set (n := if len >? 10 then 10 else len).
  assert (Hn : 0 <= n <= 10 /\ n = Z.min len 10) by (subst n; destruct (Z.gtb_spec len 10); lia).
  destruct (sv_loop_first n d ltac:(lia)) as (i & E & [Hi Hall] & Hterm). rewrite E.
  destruct (Z.eqb_spec i n) as [Heq|Hne].
  - intros _ j Hj. apply Hall. lia.
  - rewrite (u32_small (i + 1)) by lia. intros; lia.
Qed.

Lemma cnt128_first_term : forall (k : nat) d, bytes d -> (k < length d)%nat ->
  (forall j, (j < k)%nat -> 128 <= nth j d 0) -> nth k d 0 < 128 ->
  cnt128 (firstn (S k) d) = 1.
Proof.
  induction k as [|k IH]; intros d HB Hk Hall Hterm.
  - destruct d as [|b t]; [cbn [length] in Hk; lia|].
    cbn [firstn cnt128 nth] in *. replace (b <? 128) with true by lia. reflexivity.
  - destruct d as [|b t]; [cbn [length] in Hk; lia|].
    change (firstn (S (S k)) (b :: t)) with (b :: firstn (S k) t). cbn [cnt128].
    pose proof (Hall 0%nat ltac:(lia)) as H0. cbn [nth] in H0.
    replace (b <? 128) with false by lia.
    rewrite IH; [reflexivity| | | |].
    + apply (bytes_skipn 1 (b :: t) HB).
    + cbn [length] in Hk. lia.
    + intros j Hj. apply (Hall (S j)). lia.
    + exact Hterm.
Qed.

Corollary scan_varint_cnt128_firstn : forall len d, bytes d -> 0 <= len <= zlen d -> scan_varint len d <> 0 ->
  cnt128 (firstn (Z.to_nat (scan_varint len d)) d) = 1.
Proof.
  intros len d HB Hlen Hnz.
  destruct (scan_varint_first len d Hlen Hnz) as (Hs & Hsl & Hterm & Hall).
  set (s := scan_varint len d) in *.
  replace (Z.to_nat s) with (S (Z.to_nat (s - 1))) by lia.
  apply cnt128_first_term.
  - exact HB.
  - unfold zlen in Hlen. lia.
  - intros j Hj. pose proof (Hall (Z.of_nat j) ltac:(lia)) as Hj2.
    pose proof (bytes_rd d (Z.of_nat j) HB) as Hr.
    pose proof (land128_zero (rd d (Z.of_nat j)) Hr) as E.
    unfold rd in *. rewrite Nat2Z.id in *.
    destruct (Z.eqb_spec (Z.land (nth j d 0) 128) 0); [contradiction|]. lia.
  - pose proof (bytes_rd d (s - 1) HB) as Hr.
    pose proof (land128_zero (rd d (s - 1)) Hr) as E. rewrite Hterm in E.
    unfold rd in *. change (0 =? 0) with true in E. lia.
Qed.

Corollary scan_varint_cnt128 : forall len d, bytes d -> 0 <= len <= zlen d -> scan_varint len d <> 0 ->
  cnt128 d = 1 + cnt128 (skipn (Z.to_nat (scan_varint len d)) d).
Proof.
  intros len d HB Hlen Hnz.
  rewrite <- (firstn_skipn (Z.to_nat (scan_varint len d)) d) at 1.
  rewrite cnt128_app, scan_varint_cnt128_firstn by assumption. reflexivity.
Qed.

(* ------------------------------------------------------------------ *)
(* A2. the packed varint loop                                           *)

Definition all_words (vs : list sval) : Prop := Forall (fun v => exists w, v = VWord w) vs.

Theorem parse_packed_varints_count : forall fuel t data vs,
  bytes data -> zlen data < 4294967296 ->
  parse_packed_varints fuel t data = Ok vs ->
  zlen vs = cnt128 data /\ all_words vs.
Proof.
  induction fuel as [|k IH]; intros t data vs HB Hlen H.
  - destruct data as [|b r]; cbn [parse_packed_varints] in H; [|discriminate H].
    inversion H; subst vs. split; [reflexivity|constructor].
  - destruct data as [|b r].
    { cbn [parse_packed_varints] in H. inversion H; subst vs. split; [reflexivity|constructor]. }
    rewrite ppv_step in H by discriminate. cbv zeta in H.
    set (data := b :: r) in *.
    pose proof (zlen_nonneg _ data) as Hnn.
    rewrite (u32_small (zlen data)) in H by lia.
    destruct (Z.eqb_spec (scan_varint (zlen data) data) 0) as [Hz|Hnz]; [discriminate H|].
    pose proof (scan_varint_cnt128 (zlen data) data HB ltac:(lia) Hnz) as Hc.
    set (s := scan_varint (zlen data) data) in *.
    destruct (dec_scalar t WT_VARINT s data) as [w|e]; cbn [bind] in H; [|discriminate H].
    destruct (parse_packed_varints k t (skipn (Z.to_nat s) data)) as [vs'|e] eqn:E;
      cbn [bind] in H; [|discriminate H].
    inversion H; subst vs; clear H.
    destruct (IH t (skipn (Z.to_nat s) data) vs') as [Hl Hw].
    + apply bytes_skipn. exact HB.
    + rewrite zlen_skipn. lia.
    + exact E.
    + split.
      * rewrite zlen_cons, Hl, Hc. reflexivity.
      * constructor; [exists w; reflexivity|exact Hw].
Qed.

(* ------------------------------------------------------------------ *)
(* A3. the packed fixed-width loop                                      *)

Theorem parse_packed_fixed_count : forall n width t wt data vs,
  parse_packed_fixed n width t wt data = Ok vs -> length vs = n /\ all_words vs.
Proof.
  induction n as [|n IH]; intros width t wt data vs H.
  - cbn [parse_packed_fixed] in H. inversion H; subst vs. split; [reflexivity|constructor].
  - cbn [parse_packed_fixed] in H.
    destruct (dec_scalar t wt (Z.of_nat width) (firstn width data)) as [w|e]; cbn [bind] in H; [|discriminate H].
    destruct (parse_packed_fixed n width t wt (skipn width data)) as [vs'|e] eqn:E;
      cbn [bind] in H; [|discriminate H].
    inversion H; subst vs; clear H.
    destruct (IH _ _ _ _ _ E) as [Hl Hw]. split.
    + cbn [length]. rewrite Hl. reflexivity.
    + constructor; [exists w; reflexivity|exact Hw].
Qed.

(* ------------------------------------------------------------------ *)
(* A5. the count never exceeds the payload length                       *)

Theorem count_packed_elements_le_len : forall ty len d c0 okc c,
  count_packed_elements ty len d c0 = (okc, c) -> okc <> 0 ->
  0 <= len -> len = zlen d -> bytes d -> len < 4294967296 ->
  0 <= c <= len.
Proof.
  intros ty len d c0 okc c H Hok Hlen Hld HB H32.
  unfold count_packed_elements in H. cbv zeta in H.
  destruct ((ty =? 2) || (ty =? 7) || (ty =? 10))%bool.
  { destruct (negb (len mod 4 =? 0)); inversion H; subst; [congruence|lia]. }
  destruct ((ty =? 5) || (ty =? 9) || (ty =? 11))%bool.
  { destruct (negb (len mod 8 =? 0)); inversion H; subst; [congruence|lia]. }
  destruct ((ty =? 13) || (ty =? 0) || (ty =? 1) || (ty =? 6) || (ty =? 3) || (ty =? 4) || (ty =? 8))%bool.
  { inversion H; subst okc c. rewrite Hld.
    rewrite max_b128_spec; [apply cnt128_bounds| apply bytes_In; exact HB | lia]. }
  destruct (ty =? 12).
  { inversion H; subst. lia. }
  destruct ((ty =? 14) || (ty =? 15) || (ty =? 16))%bool; inversion H; subst; congruence.
Qed.

(* the length-delimited types are not packable: the count fails *)
Lemma count_packed_elements_nonscalar : forall t len d c0, is_scalar t = false ->
  count_packed_elements (type_code t) len d c0 = (0, c0).
Proof. intros t len d c0 H. destruct t; try discriminate H; reflexivity. Qed.

(* and for scalar types it fails only on a fixed-width payload of the wrong size *)
Lemma count_packed_elements_scalar_ok : forall t len d c0, is_scalar t = true ->
  fst (count_packed_elements (type_code t) len d c0) =
  if is_fixed32 t then (if len mod 4 =? 0 then 1 else 0)
  else if is_fixed64 t then (if len mod 8 =? 0 then 1 else 0) else 1.
Proof.
  intros t len d c0 H.
  destruct t; try discriminate H; cbn [is_fixed32 is_fixed64];
    try reflexivity;
    (rewrite count_fixed32 by reflexivity) || (rewrite count_fixed64 by reflexivity);
    destruct (_ =? 0); reflexivity.
Qed.

(* ------------------------------------------------------------------ *)
(* A4. what the scan counted bounds what the parse stores               *)

Lemma parse_packed_fixed32 : forall f sm, is_fixed32 (f_type f) = true ->
  parse_packed f sm =
  parse_packed_fixed (Z.to_nat ((sm_len sm - sm_pref sm) / 4)) 4 (f_type f) WT_32BIT
                     (skipn (Z.to_nat (sm_pref sm)) (sm_data sm)).
Proof. intros f sm H. unfold parse_packed. destruct (f_type f); try discriminate H; reflexivity. Qed.

Lemma parse_packed_fixed64 : forall f sm, is_fixed64 (f_type f) = true ->
  parse_packed f sm =
  parse_packed_fixed (Z.to_nat ((sm_len sm - sm_pref sm) / 8)) 8 (f_type f) WT_64BIT
                     (skipn (Z.to_nat (sm_pref sm)) (sm_data sm)).
Proof. intros f sm H. unfold parse_packed. destruct (f_type f); try discriminate H; reflexivity. Qed.

Lemma parse_packed_varint : forall f sm, is_varint_type (f_type f) = true ->
  parse_packed f sm =
  parse_packed_varints (S (length (skipn (Z.to_nat (sm_pref sm)) (sm_data sm)))) (f_type f)
                       (skipn (Z.to_nat (sm_pref sm)) (sm_data sm)).
Proof. intros f sm H. unfold parse_packed. destruct (f_type f); try discriminate H; reflexivity. Qed.

(* exact element counts, per kind *)
Theorem parse_packed_exact : forall f sm vs,
  is_scalar (f_type f) = true ->
  bytes (sm_data sm) -> 0 <= sm_pref sm <= sm_len sm -> sm_len sm = zlen (sm_data sm) ->
  sm_len sm < 4294967296 ->
  parse_packed f sm = Ok vs ->
  all_words vs /\
  zlen vs = if is_fixed32 (f_type f) then (sm_len sm - sm_pref sm) / 4
            else if is_fixed64 (f_type f) then (sm_len sm - sm_pref sm) / 8
            else cnt128 (skipn (Z.to_nat (sm_pref sm)) (sm_data sm)).
Proof.
  intros f sm vs Hs HB Hpref Hlen H32 Hp.
  destruct (scalar_kinds _ Hs) as [H4 | [H8 | Hv]].
  - rewrite H4. rewrite parse_packed_fixed32 in Hp by exact H4.
    destruct (parse_packed_fixed_count _ _ _ _ _ _ Hp) as [Hl Hw].
    split; [exact Hw|]. unfold zlen. rewrite Hl. lia.
  - replace (is_fixed32 (f_type f)) with false by (destruct (f_type f); try discriminate H8; reflexivity).
    rewrite H8. rewrite parse_packed_fixed64 in Hp by exact H8.
    destruct (parse_packed_fixed_count _ _ _ _ _ _ Hp) as [Hl Hw].
    split; [exact Hw|]. unfold zlen. rewrite Hl. lia.
  - replace (is_fixed32 (f_type f)) with false by (destruct (f_type f); try discriminate Hv; reflexivity).
    replace (is_fixed64 (f_type f)) with false by (destruct (f_type f); try discriminate Hv; reflexivity).
    rewrite parse_packed_varint in Hp by exact Hv.
    destruct (parse_packed_varints_count _ _ _ _ (bytes_skipn _ _ HB)
                ltac:(rewrite zlen_skipn; lia) Hp) as [Hl Hw].
    split; [exact Hw|exact Hl].
Qed.

Theorem parse_packed_le_count : forall f sm okc c vs,
  is_scalar (f_type f) = true ->
  bytes (sm_data sm) -> 0 <= sm_pref sm <= sm_len sm -> sm_len sm = zlen (sm_data sm) ->
  sm_len sm < 4294967296 ->
  count_packed_elements (type_code (f_type f)) (sm_len sm - sm_pref sm)
                        (skipn (Z.to_nat (sm_pref sm)) (sm_data sm)) 0 = (okc, c) ->
  okc <> 0 ->
  parse_packed f sm = Ok vs ->
  zlen vs <= c /\ 0 <= c <= sm_len sm - sm_pref sm /\ all_words vs.
Proof.
  intros f sm okc c vs Hs HB Hpref Hlen H32 Hc Hok Hp.
  set (payload := skipn (Z.to_nat (sm_pref sm)) (sm_data sm)) in *.
  assert (Hpl : sm_len sm - sm_pref sm = zlen payload).
  { subst payload. rewrite zlen_skipn. unfold zlen in *. lia. }
  assert (HBp : bytes payload) by (apply bytes_skipn; exact HB).
  pose proof (count_packed_elements_le_len _ _ _ _ _ _ Hc Hok ltac:(lia) Hpl HBp ltac:(lia)) as Hcl.
  destruct (parse_packed_exact f sm vs Hs HB Hpref Hlen H32 Hp) as [Hw Hz].
  fold payload in Hz.
  split; [|split; [exact Hcl|exact Hw]].
  destruct (scalar_kinds _ Hs) as [H4 | [H8 | Hv]].
  - rewrite H4 in Hz. rewrite count_fixed32 in Hc by exact H4.
    destruct (negb (_ =? 0)); inversion Hc; subst; [congruence|lia].
  - replace (is_fixed32 (f_type f)) with false in Hz by (destruct (f_type f); try discriminate H8; reflexivity).
    rewrite H8 in Hz. rewrite count_fixed64 in Hc by exact H8.
    destruct (negb (_ =? 0)); inversion Hc; subst; [congruence|lia].
  - replace (is_fixed32 (f_type f)) with false in Hz by (destruct (f_type f); try discriminate Hv; reflexivity).
    replace (is_fixed64 (f_type f)) with false in Hz by (destruct (f_type f); try discriminate Hv; reflexivity).
    destruct (ftype_eqb (f_type f) TBool) eqn:Eb.
    + assert (Et : f_type f = TBool) by (destruct (f_type f); try discriminate Eb; reflexivity).
      rewrite Et in Hc. rewrite count_bool in Hc. inversion Hc; subst okc c.
      pose proof (cnt128_bounds payload). lia.
    + rewrite count_varint in Hc; [|exact Hv|intros Et; rewrite Et in Eb; discriminate Eb].
      inversion Hc; subst okc c. rewrite Hpl.
      rewrite max_b128_spec; [lia|apply bytes_In; exact HBp|lia].
Qed.

(* for every scalar type except bool the count is exact *)
Theorem parse_packed_eq_count : forall f sm okc c vs,
  is_scalar (f_type f) = true -> f_type f <> TBool ->
  bytes (sm_data sm) -> 0 <= sm_pref sm <= sm_len sm -> sm_len sm = zlen (sm_data sm) ->
  sm_len sm < 4294967296 ->
  count_packed_elements (type_code (f_type f)) (sm_len sm - sm_pref sm)
                        (skipn (Z.to_nat (sm_pref sm)) (sm_data sm)) 0 = (okc, c) ->
  okc <> 0 ->
  parse_packed f sm = Ok vs ->
  zlen vs = c.
Proof.
  intros f sm okc c vs Hs Hnb HB Hpref Hlen H32 Hc Hok Hp.
  set (payload := skipn (Z.to_nat (sm_pref sm)) (sm_data sm)) in *.
  assert (Hpl : sm_len sm - sm_pref sm = zlen payload).
  { subst payload. rewrite zlen_skipn. unfold zlen in *. lia. }
  assert (HBp : bytes payload) by (apply bytes_skipn; exact HB).
  destruct (parse_packed_exact f sm vs Hs HB Hpref Hlen H32 Hp) as [Hw Hz].
  fold payload in Hz.
  destruct (scalar_kinds _ Hs) as [H4 | [H8 | Hv]].
  - rewrite H4 in Hz. rewrite count_fixed32 in Hc by exact H4.
    destruct (negb (_ =? 0)); inversion Hc; subst; [congruence|lia].
  - replace (is_fixed32 (f_type f)) with false in Hz by (destruct (f_type f); try discriminate H8; reflexivity).
    rewrite H8 in Hz. rewrite count_fixed64 in Hc by exact H8.
    destruct (negb (_ =? 0)); inversion Hc; subst; [congruence|lia].
  - replace (is_fixed32 (f_type f)) with false in Hz by (destruct (f_type f); try discriminate Hv; reflexivity).
    replace (is_fixed64 (f_type f)) with false in Hz by (destruct (f_type f); try discriminate Hv; reflexivity).
    rewrite count_varint in Hc; [|exact Hv|exact Hnb].
    inversion Hc; subst okc c. rewrite Hpl.
    rewrite max_b128_spec; [lia|apply bytes_In; exact HBp|lia].
Qed.

(* C19: whatever protobuf_c_message_check accepts can be measured and
   serialised by all three serialisers without dereferencing a null pointer. *)
From Coq Require Import ZArith List Bool Lia ZifyBool.
From PBC Require Import Base.CInt Gen.LeafC Impl.Desc Impl.Mem Impl.Enc Impl.Size Impl.Pack Impl.PackBuf Impl.Check
     Proofs.MsgInd.
Import ListNotations.
Local Open Scope Z_scope.

Definition nn {A} (r : res A) : Prop := r <> Err ENull.

Lemma nn_ok : forall A (a : A), nn (Ok a).
Proof. intros A a H. discriminate H. Qed.
Lemma nn_err : forall A e, e <> ENull -> nn (@Err A e).
Proof. intros A e H E. inversion E. contradiction. Qed.
Lemma nn_bind : forall A B (r : res A) (f : A -> res B), nn r -> (forall a, r = Ok a -> nn (f a)) -> nn (bind r f).
Proof.
  intros A B r f Hr Hf. destruct r as [a|e]; cbn [bind]; [apply Hf; reflexivity|].
  intros E. apply Hr. inversion E. reflexivity.
Qed.

Ltac nn_simple :=
  repeat first [ apply nn_ok | apply nn_err; discriminate | apply nn_bind; [|intros ? ?] ].

Lemma nn_as_word : forall v, nn (as_word v). Proof. destruct v; nn_simple. Qed.
Lemma nn_as_str : forall v, nn (as_str v). Proof. destruct v as [[| |]| | |]; nn_simple. Qed.
Lemma nn_as_bytes : forall v, nn (as_bytes v). Proof. destruct v as [[| |]| | |]; nn_simple. Qed.
Lemma nn_as_msg : forall v, nn (as_msg v). Proof. destruct v as [[| |]| | |]; nn_simple. Qed.
Lemma nn_str_bytes : forall f p, nn (str_bytes f p).
Proof. intros f p. unfold str_bytes. destruct p; nn_simple. destruct (f_default f) as [[| |]|]; nn_simple. Qed.
Lemma nn_e_scalar : forall t w, nn (e_scalar t w). Proof. destruct t; intros w; cbn [e_scalar]; nn_simple. Qed.
Lemma nn_sz_scalar : forall t w, nn (sz_scalar t w). Proof. destruct t; intros w; cbn [sz_scalar]; nn_simple. Qed.
Lemma nn_zeroish : forall f v, nn (zeroish f v).
Proof.
  intros f v. unfold zeroish. destruct (f_type f); nn_simple;
    first [apply nn_as_word | apply nn_as_str | apply nn_as_bytes | apply nn_as_msg | apply nn_str_bytes | idtac].
Qed.
Lemma nn_ptr_absent : forall f v, nn (ptr_absent f v).
Proof. intros f v. unfold ptr_absent. destruct (f_type f); nn_simple; first [apply nn_as_str | apply nn_as_msg]. Qed.

(* data_bytes dereferences data only when len <> 0 *)
Lemma nn_data_bytes : forall f len p, (len = 0 \/ p <> PNull) -> nn (data_bytes f len p).
Proof.
  intros f len p H. unfold data_bytes. destruct (len =? 0) eqn:E; [nn_simple|].
  destruct H as [H|H]; [lia|].
  destruct p; [congruence | |]; [destruct (f_default f) as [[| |]|]; nn_simple|];
    destruct (len <=? _); nn_simple.
Qed.

Definition bytes_safe (v : sval) : Prop :=
  forall len p, as_bytes v = Ok (len, p) -> len = 0 \/ p <> PNull.

Lemma bytes_ok_safe : forall v, bytes_ok v = Ok true -> bytes_safe v.
Proof.
  intros v H len p Ha. unfold bytes_ok in H. rewrite Ha in H. cbn [bind fst snd] in H. inversion H as [H1].
  apply negb_true_iff in H1. apply andb_false_iff in H1. destruct H1 as [H1|H1].
  - left. apply negb_false_iff in H1. lia.
  - right. intros ->. discriminate H1.
Qed.

Lemma nn_data_bytes_safe : forall f v lp, bytes_safe v -> as_bytes v = Ok lp -> nn (data_bytes f (fst lp) (snd lp)).
Proof. intros f v [len p] Hs Ha. cbn [fst snd]. apply nn_data_bytes. exact (Hs len p Ha). Qed.

Section Safe.
Variable E : env.

Definition safe (m : msg) : Prop := nn (size_msg E m) /\ nn (pack_msg E m) /\ nn (chunks_msg E m).
Notation SubSafe f v := (f_type f = TMessage -> forall m, v = VMsg (Some m) -> safe m).

Lemma required_safe : forall f v,
  (f_type f = TBytes -> bytes_safe v) -> SubSafe f v ->
  nn (sz_required (size_msg E) f v) /\ nn (pk_required (pack_msg E) f v) /\ nn (pb_required E (chunks_msg E) f v).
Proof.
  intros f v Hb Hs. unfold sz_required, pk_required, pb_required.
  destruct (f_type f) eqn:Et;
    try (repeat split; nn_simple; first [apply nn_as_word | apply nn_sz_scalar | apply nn_e_scalar]).
  - (* string *)
    repeat split; nn_simple; try apply nn_as_str; try apply nn_str_bytes. destruct a0; nn_simple.
  - (* bytes *)
    repeat split; nn_simple; try apply nn_as_bytes; eapply nn_data_bytes_safe; eauto.
  - (* message *)
    destruct v as [w| | |[m|]]; try (repeat split; nn_simple; destruct w; nn_simple).
    destruct (Hs eq_refl m eq_refl) as (S1 & S2 & S3). repeat split; nn_simple; assumption.
Qed.

Lemma optional_safe : forall f has v,
  ((f_type f = TBytes /\ has <> 0) -> bytes_safe v) -> SubSafe f v ->
  nn (sz_optional (size_msg E) f has v) /\ nn (pk_optional (pack_msg E) f has v) /\ nn (pb_optional E (chunks_msg E) f has v).
Proof.
  intros f has v Hb Hs. unfold sz_optional, pk_optional, pb_optional.
  destruct (f_type f) eqn:Et; cbv beta iota;
    try (destruct (Z.eqb_spec has 0); [repeat split; nn_simple|];
         apply required_safe; [intros Ht; rewrite Et in Ht; first [discriminate Ht | (apply Hb; split; [reflexivity | assumption])] | intros Ht2; rewrite Et in Ht2; first [discriminate Ht2 | exact (Hs eq_refl)]]).
  - destruct (ptr_absent f v) as [[|]|e] eqn:Ea; cbn [bind].
    + repeat split; nn_simple.
    + apply required_safe; [intros Ht; rewrite Et in Ht; discriminate Ht | intros Ht2; rewrite Et in Ht2; first [discriminate Ht2 | exact (Hs eq_refl)]].
    + pose proof (nn_ptr_absent f v) as Hn. rewrite Ea in Hn. repeat split; (intros H; apply Hn; inversion H; reflexivity).
  - destruct (ptr_absent f v) as [[|]|e] eqn:Ea; cbn [bind].
    + repeat split; nn_simple.
    + apply required_safe; [intros Ht; rewrite Et in Ht; discriminate Ht | intros Ht2; rewrite Et in Ht2; first [discriminate Ht2 | exact (Hs eq_refl)]].
    + pose proof (nn_ptr_absent f v) as Hn. rewrite Ea in Hn. repeat split; (intros H; apply Hn; inversion H; reflexivity).
Qed.

Lemma oneof_safe : forall f case v,
  ((f_type f = TBytes /\ case = f_id f) -> bytes_safe v) -> (case = f_id f -> SubSafe f v) ->
  nn (sz_oneof (size_msg E) f case v) /\ nn (pk_oneof (pack_msg E) f case v) /\ nn (pb_oneof E (chunks_msg E) f case v).
Proof.
  intros f case v Hb Hs. unfold sz_oneof, pk_oneof, pb_oneof.
  destruct (Z.eqb_spec case (f_id f)) as [Hc|Hc]; cbn [negb]; [|repeat split; nn_simple].
  destruct (ptr_absent f v) as [[|]|e] eqn:Ea; cbn [bind].
  - repeat split; nn_simple.
  - apply required_safe; [intros Ht; apply Hb; split; assumption | exact (Hs Hc)].
  - pose proof (nn_ptr_absent f v) as Hn. rewrite Ea in Hn. repeat split; (intros H; apply Hn; inversion H; reflexivity).
Qed.

Lemma unlabeled_safe : forall f v,
  (f_type f = TBytes -> bytes_safe v) -> SubSafe f v ->
  nn (sz_unlabeled (size_msg E) f v) /\ nn (pk_unlabeled (pack_msg E) f v) /\ nn (pb_unlabeled E (chunks_msg E) f v).
Proof.
  intros f v Hb Hs. unfold sz_unlabeled, pk_unlabeled, pb_unlabeled.
  destruct (zeroish f v) as [[|]|e] eqn:Ez; cbn [bind].
  - repeat split; nn_simple.
  - apply required_safe; assumption.
  - pose proof (nn_zeroish f v) as Hn. rewrite Ez in Hn. repeat split; (intros H; apply Hn; inversion H; reflexivity).
Qed.

(* what the check establishes about one cell *)
Lemma ck_single_facts : forall f has v,
  ck_single (check_msg E) f has v = Ok true ->
  (forall m, v = VMsg (Some m) -> f_type f = TMessage -> check_msg E m = Ok true) /\
  (f_type f = TBytes -> (negb (label_eqb (f_label f) LOptional) || f_oneof f || negb (has =? 0)) = true -> bytes_safe v).
Proof.
  intros f has v H. unfold ck_single in H. split.
  - intros m -> Ht. rewrite Ht in H. exact H.
  - intros Ht Hc. rewrite Ht, Hc in H. apply bytes_ok_safe. exact H.
Qed.

Lemma ck_elem_facts : forall f v,
  ck_elem (check_msg E) f v = Ok true ->
  (forall m, v = VMsg (Some m) -> f_type f = TMessage -> check_msg E m = Ok true) /\
  (f_type f = TBytes -> bytes_safe v) /\
  (f_type f = TString -> as_str v <> Ok PNull) /\
  (f_type f = TMessage -> exists m, v = VMsg (Some m)).
Proof.
  intros f v H. unfold ck_elem in H. repeat split.
  - intros m -> Ht. rewrite Ht in H. exact H.
  - intros Ht. rewrite Ht in H. apply bytes_ok_safe. exact H.
  - intros Ht Hp. rewrite Ht, Hp in H. cbn [bind] in H. discriminate H.
  - intros Ht. rewrite Ht in H. destruct v as [w| | |[m|]]; try discriminate H; [destruct w; discriminate H | eauto].
Qed.

Lemma nn_sumM_n : forall A (g : A -> res Z) l k, (forall x, In x (firstn k l) -> nn (g x)) -> nn (sumM_n g l k).
Proof.
  intros A g l. induction l as [|x l IH]; intros k H; destruct k; cbn [sumM_n]; nn_simple.
  - apply H. left. reflexivity.
  - apply IH. intros y Hy. apply H. right. exact Hy.
Qed.
Lemma nn_concatM_n : forall A B (g : A -> res (list B)) l k, (forall x, In x (firstn k l) -> nn (g x)) -> nn (concatM_n g l k).
Proof.
  intros A B g l. induction l as [|x l IH]; intros k H; destruct k; cbn [concatM_n]; nn_simple.
  - apply H. left. reflexivity.
  - apply IH. intros y Hy. apply H. right. exact Hy.
Qed.

Lemma allM_facts : forall A (g : A -> res bool) l k, allM g l k = Ok true ->
  forall x, In x (firstn k l) -> g x = Ok true.
Proof.
  intros A g l. induction l as [|y l IH]; intros k H x Hx; destruct k; cbn [firstn] in Hx; try contradiction.
  cbn [allM] in H. fold (allM g) in H. destruct (g y) as [[|]|e] eqn:Eg; cbn [bind] in H; try discriminate H.
  destruct Hx as [<-|Hx]; [exact Eg | exact (IH k H x Hx)].
Qed.

Lemma nn_packed_scalar : forall f v, nn (pk_packed_elem f v) /\ nn (pb_packed_elem f v) /\ nn (pb_payload_len_elem f v).
Proof.
  intros f v. unfold pk_packed_elem, pb_packed_elem, pb_payload_len_elem.
  destruct (f_type f); repeat split; nn_simple; first [apply nn_as_word | apply nn_e_scalar | apply nn_sz_scalar].
Qed.

Lemma repeated_safe : forall f n arr,
  (match arr with
   | None => n = 0
   | Some l => forall x, In x (firstn (Z.to_nat n) l) ->
                 (f_type f = TBytes -> bytes_safe x) /\ (f_type f = TString -> as_str x <> Ok PNull) /\
                 (f_type f = TMessage -> exists m, x = VMsg (Some m) /\ safe m)
   end) ->
  nn (sz_repeated (size_msg E) f n arr) /\ nn (pk_repeated (pack_msg E) f n arr) /\ nn (pb_repeated E (chunks_msg E) f n arr).
Proof.
  intros f n arr H. unfold sz_repeated, pk_repeated, pb_repeated.
  destruct arr as [l|].
  2:{ subst n. change (u32 0) with 0. cbn [Z.eqb]. destruct (f_packed f); repeat split; nn_simple. }
  assert (Hreq : forall x, In x (firstn (Z.to_nat n) l) ->
            nn (sz_elem (size_msg E) f x) /\ nn (pk_required (pack_msg E) f x) /\ nn (pb_required E (chunks_msg E) f x)).
  { intros x Hx. destruct (H x Hx) as (Hb & Hstr & Hm).
    destruct (required_safe f x Hb) as (R1 & R2 & R3).
    { intros Ht m Hv. destruct (Hm Ht) as (m' & Hv' & Hs'). rewrite Hv in Hv'. inversion Hv'; subst m'. exact Hs'. }
    split; [|split; assumption].
    unfold sz_elem. destruct (f_type f) eqn:Et; nn_simple; try apply nn_as_word; try apply nn_sz_scalar; try apply nn_as_bytes.
    - apply nn_as_str. - apply nn_str_bytes.
    - destruct a0; nn_simple. exfalso.
      unfold str_bytes in H1. destruct a as [| |s]; try discriminate H1; [apply (Hstr eq_refl); exact H0|].
      destruct (f_default f) as [[| |]|]; discriminate H1.
    - destruct (Hm eq_refl) as (m & -> & (S1 & _)). nn_simple. exact S1. }
  split; [|split].
  - destruct (n =? 0); nn_simple. unfold sz_rep_payload.
    destruct (f_type f); nn_simple; apply nn_sumM_n; intros x Hx; exact (proj1 (Hreq x Hx)).
  - destruct (f_packed f).
    + destruct (n =? 0); nn_simple. apply nn_concatM_n. intros x _. apply nn_packed_scalar.
      destruct (_ || _); nn_simple.
    + destruct (n =? 0); nn_simple. apply nn_concatM_n. intros x Hx. exact (proj1 (proj2 (Hreq x Hx))).
  - destruct (n =? 0) eqn:E0; nn_simple.
    destruct (f_packed f).
    + nn_simple.
      * unfold pb_payload_len. destruct (f_type f); nn_simple; apply nn_sumM_n; intros x _; apply nn_packed_scalar.
      * unfold pb_payload. destruct (f_type f); nn_simple; apply nn_concatM_n; intros x _; apply nn_packed_scalar.
      * destruct (snd _ =? _); nn_simple.
    + apply nn_concatM_n. intros x Hx. exact (proj2 (proj2 (Hreq x Hx))).
Qed.

Lemma in_firstn : forall A (l : list A) k x, In x (firstn k l) -> In x l.
Proof.
  intros A l. induction l as [|y l IH]; intros k x H; destruct k; cbn [firstn] in H; try contradiction.
  destruct H as [H|H]; [left; exact H | right; exact (IH k x H)].
Qed.

Definition okP (m : msg) : Prop := check_msg E m = Ok true -> safe m.
Definition okQ (v : sval) : Prop := forall m, v = VMsg (Some m) -> okP m.

Lemma with_nth_cases : forall A B (k : A -> B) d l g,
  (exists x, nth_error l g = Some x /\ with_nth k d l g = k x) \/ (nth_error l g = None /\ with_nth k d l g = d).
Proof.
  intros A B k d l. induction l as [|y l IH]; intros g; destruct g; cbn [with_nth nth_error]; eauto.
Qed.

Lemma field_safe : forall unions f s,
  slot_all okQ s -> Forall (fun cv : Z * sval => okQ (snd cv)) unions ->
  ck_field (check_msg E) unions f s = Ok true ->
  nn (sz_field (size_msg E) unions f s) /\ nn (pk_field (pack_msg E) unions f s) /\ nn (pb_field E (chunks_msg E) unions f s).
Proof.
  intros unions f s HQ HU Hck. unfold sz_field, pk_field, pb_field.
  assert (Hbad : nn (@Err Z EDesc) /\ nn (@Err (list Z) EDesc) /\ nn (@Err (list (list Z)) EDesc)) by (repeat split; nn_simple).
  destruct s as [has v | n cap arr | g].
  - (* one cell *)
    unfold ck_field in Hck. cbn [slot_all] in HQ.
    destruct (f_label f) eqn:El; cbn [label_eqb] in Hck; try exact Hbad.
    + destruct (ck_single_facts f has v Hck) as (Hm & Hb).
      apply required_safe.
      * intros Ht. apply Hb; [exact Ht|]. rewrite El. reflexivity.
      * intros Ht m Hv. apply (HQ m Hv). exact (Hm m Hv Ht).
    + destruct (f_oneof f) eqn:Eo; [exact Hbad|].
      destruct (ck_single_facts f has v Hck) as (Hm & Hb).
      apply optional_safe.
      * intros [Ht Hh]. apply Hb; [exact Ht|]. rewrite El, Eo. cbn [label_eqb negb orb]. lia.
      * intros Ht m Hv. apply (HQ m Hv). exact (Hm m Hv Ht).
    + destruct (f_oneof f) eqn:Eo; [exact Hbad|].
      destruct (ck_single_facts f has v Hck) as (Hm & Hb).
      apply unlabeled_safe.
      * intros Ht. apply Hb; [exact Ht|]. rewrite El. reflexivity.
      * intros Ht m Hv. apply (HQ m Hv). exact (Hm m Hv Ht).
  - (* repeated *)
    unfold ck_field in Hck.
    destruct (f_label f) eqn:El; cbn [label_eqb] in Hck; try exact Hbad;
      try (destruct (f_oneof f); exact Hbad).
    apply repeated_safe. destruct arr as [l|].
    + cbn [slot_all] in HQ. rewrite Forall_forall in HQ.
      intros x Hx. pose proof (in_firstn _ _ _ _ Hx) as Hin.
      assert (Hx' : f_type f = TMessage \/ f_type f = TString \/ f_type f = TBytes -> ck_elem (check_msg E) f x = Ok true).
      { intros Ht. apply (allM_facts _ _ l (Z.to_nat n)); [|exact Hx].
        destruct Ht as [Ht|[Ht|Ht]]; rewrite Ht in Hck; exact Hck. }
      split; [|split].
      * intros Ht. exact (proj1 (proj2 (ck_elem_facts f x (Hx' (or_intror (or_intror Ht))))) Ht).
      * intros Ht. exact (proj1 (proj2 (proj2 (ck_elem_facts f x (Hx' (or_intror (or_introl Ht)))))) Ht).
      * intros Ht. destruct (ck_elem_facts f x (Hx' (or_introl Ht))) as (Hm & _ & _ & Hex).
        destruct (Hex Ht) as (m & Hv). exists m. split; [exact Hv|].
        apply (HQ x Hin m Hv). exact (Hm m Hv Ht).
    + inversion Hck as [H0]. lia.
  - (* union member *)
    unfold ck_field in Hck.
    destruct (f_label f) eqn:El; try exact Hbad; (destruct (f_oneof f) eqn:Eo; [|exact Hbad]);
      cbn [andb] in Hck.
    all: destruct (with_nth_cases _ _ (fun cv : Z * sval => if negb (f_id f =? fst cv) then Ok true else ck_single (check_msg E) f (fst cv) (snd cv)) (Err EDesc) unions g)
           as [(cv & Hn & Hw) | (Hn & Hw)]; rewrite Hw in Hck; [|discriminate Hck].
    all: destruct (with_nth_cases _ _ (fun cv : Z * sval => sz_oneof (size_msg E) f (fst cv) (snd cv)) (Err EDesc) unions g)
           as [(cv1 & Hn1 & ->) | (Hn1 & _)]; [|rewrite Hn in Hn1; discriminate].
    all: destruct (with_nth_cases _ _ (fun cv : Z * sval => pk_oneof (pack_msg E) f (fst cv) (snd cv)) (Err EDesc) unions g)
           as [(cv2 & Hn2 & ->) | (Hn2 & _)]; [|rewrite Hn in Hn2; discriminate].
    all: destruct (with_nth_cases _ _ (fun cv : Z * sval => pb_oneof E (chunks_msg E) f (fst cv) (snd cv)) (Err EDesc) unions g)
           as [(cv3 & Hn3 & ->) | (Hn3 & _)]; [|rewrite Hn in Hn3; discriminate].
    all: rewrite Hn in Hn1, Hn2, Hn3; inversion Hn1; inversion Hn2; inversion Hn3; subst cv1 cv2 cv3.
    all: assert (HQc : okQ (snd cv)) by (rewrite Forall_forall in HU; apply HU; eapply nth_error_In; exact Hn).
    all: apply oneof_safe.
    all: try (intros [Ht Hc]; rewrite <- Hc in Hck; rewrite Z.eqb_refl in Hck; cbn [negb] in Hck;
              apply (proj2 (ck_single_facts f _ _ Hck) Ht); rewrite Eo; apply orb_true_iff; left; apply orb_true_r).
    all: intros Hc Ht m Hv; apply (HQc m Hv); rewrite <- Hc in Hck; rewrite Z.eqb_refl in Hck; cbn [negb] in Hck;
         exact (proj1 (ck_single_facts f _ _ Hck) m Hv Ht).
Qed.

Lemma fields_safe : forall unions, Forall (fun cv : Z * sval => okQ (snd cv)) unions ->
  forall fs ss, Forall (slot_all okQ) ss ->
  ck_fields (check_msg E) unions fs ss = Ok true ->
  nn (sz_fields (size_msg E) unions fs ss) /\ nn (pk_fields (pack_msg E) unions fs ss) /\ nn (pb_fields E (chunks_msg E) unions fs ss).
Proof.
  intros unions HU fs. induction fs as [|f fs IH]; intros ss HQ Hck.
  - destruct ss; cbn [sz_fields pk_fields pb_fields]; repeat split; nn_simple.
  - destruct ss as [|s ss]; cbn [sz_fields pk_fields pb_fields]; [repeat split; nn_simple|].
    cbn [ck_fields] in Hck. fold (ck_fields (check_msg E) unions) in Hck.
    inversion HQ as [|? ? Hs Hss]; subst.
    destruct (ck_field (check_msg E) unions f s) as [[|]|e] eqn:Ef; cbn [bind] in Hck; try discriminate Hck.
    destruct (field_safe unions f s Hs HU Ef) as (F1 & F2 & F3).
    destruct (IH ss Hss Hck) as (I1 & I2 & I3).
    fold (sz_fields (size_msg E) unions). fold (pk_fields (pack_msg E) unions). fold (pb_fields E (chunks_msg E) unions).
    repeat split; nn_simple; assumption.
Qed.

Theorem check_safe : forall m, check_msg E m = Ok true -> safe m.
Proof.
  apply (msg_ind2 okP okQ); unfold okQ, okP; try (intros; discriminate).
  - intros m IH m' Hv. inversion Hv; subst m'. exact IH.
  - intros d slots unions unk HS HU Hck.
    unfold safe. cbn [check_msg size_msg pack_msg chunks_msg] in *.
    destruct (nth_error E d) as [md|]; [|repeat split; nn_simple].
    destruct (fields_safe unions HU (md_fields md) slots HS Hck) as (F1 & F2 & F3).
    repeat split; nn_simple; assumption.
Qed.

End Safe.

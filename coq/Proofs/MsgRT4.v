(* Message level, final assembly: C01 for canonical messages. *)
From Coq Require Import ZArith List Bool Lia ZifyBool.
From PBC Require Import Base.CInt Base.Bits Gen.LeafC Spec.Wire
     Impl.Desc Impl.Mem Impl.Enc Impl.Pack Impl.WF Impl.Unpack Impl.Canon
     Proofs.LeafEnc Proofs.EncLemmas Proofs.LeafDec Proofs.SizePack Proofs.ScanRec Proofs.ScanRecs
     Proofs.CellRT2 Proofs.FieldRT Proofs.FieldPkg Proofs.FieldPkg2 Proofs.MsgInd Proofs.MsgRT Proofs.MsgRT2 Proofs.MsgRT3 Proofs.MemberCount.
Import ListNotations.
Local Open Scope Z_scope.

(* ---------- from the canonical-form predicate to the per-field facts *)
Lemma canon_kind : forall E um nu f s F, field_ok nu f = true -> canon_slot (canon_msg E) um f s = true ->
  pk_field (pack_msg E) um f s = Ok F -> kind_ok f s.
Proof.
  intros E um nu f s F Hfo C Hpk. unfold field_ok in Hfo. rewrite !andb_true_iff in Hfo. destruct Hfo as [[[_ Hlq] _] _].
  unfold canon_slot in C. unfold kind_ok. unfold pk_field in Hpk.
  destruct (f_label f) eqn:El; destruct s as [h v|n c a|g]; try discriminate C.
  - destruct (f_quant f); try discriminate Hlq. intros g. discriminate.
  - destruct (f_quant f) eqn:Eq; try discriminate Hlq; try (intros g; discriminate).
    apply andb_true_iff in Hlq. destruct Hlq as [Ho _]. rewrite Ho in Hpk. discriminate Hpk.
  - apply andb_true_iff in C. destruct C as [Hg _]. destruct (f_quant f); try discriminate Hg.
    apply Nat.eqb_eq in Hg. subst. reflexivity.
  - destruct a as [l|].
    + rewrite !andb_true_iff in C. lia.
    + apply andb_true_iff in C. lia.
  - destruct (f_quant f) eqn:Eq; try discriminate Hlq; try (intros g; discriminate).
    apply andb_true_iff in Hlq. destruct Hlq as [Ho _]. rewrite Ho in Hpk. discriminate Hpk.
  - apply andb_true_iff in C. destruct C as [Hg _]. destruct (f_quant f); try discriminate Hg.
    apply Nat.eqb_eq in Hg. subst. reflexivity.
Qed.

Lemma desc_ok_fields : forall nenv md, desc_ok nenv md = true ->
  forall f, In f (md_fields md) ->
    field_ok (md_n_oneofs md) f = true /\ 0 < f_id f < 536870912 /\
    (f_label f = LNone -> zeroish f (init_cell f) = Ok true).
Proof.
  intros nenv md D f Hin. unfold desc_ok in D. rewrite !andb_true_iff in D.
  destruct D as [[[[[[Hi Hb] Hfo] _] _] _] Hz].
  rewrite forallb_forall in Hfo, Hb, Hz. split; [exact (Hfo f Hin)|]. split.
  - specialize (Hb (f_id f) (in_map f_id _ f Hin)). lia.
  - intros El. specialize (Hz f Hin). rewrite El in Hz. destruct (zeroish f (init_cell f)) as [[|]|]; try discriminate Hz. reflexivity.
Qed.

Section Assemble.
Variable E : env.
Variable usub : nat -> list Z -> res msg.
Variable md : mdesc.
Variable lim : Z.
Hypothesis Hlim : lim <= 2147483647.
Hypothesis D : desc_ok (length E) md = true.
Variable um : list (Z * sval).

Notation SubIH v := (forall m, v = VMsg (Some m) -> sub_rt E usub lim m).

(* decompose the bytes of all fields into per-field packages *)
Lemma build_quads : forall fs ss pre a,
  md_fields md = pre ++ fs ->
  canon_slots (canon_msg E) um fs ss = true ->
  Forall (slot_all (fun v => SubIH v)) ss ->
  Forall (fun cv : Z * sval => SubIH (snd cv)) um ->
  pk_fields (pack_msg E) um fs ss = Ok a -> zlen a <= lim ->
  exists qs, map q_f qs = fs /\ map q_s qs = ss /\ a = concat (map q_F qs) /\
    (forall k q, nth_error qs k = Some q ->
       fpkg_with E usub md (q_r q) (length pre + k) (q_f q) (q_s q) um (q_F q)) /\
    Forall (fun q => kind_ok (q_f q) (q_s q)) qs.
Proof.
  induction fs as [|f fs IH]; intros ss pre a Hfs C HS HU Hpk Hlen.
  - destruct ss; [|discriminate C]. cbn in Hpk. inversion Hpk; subst a.
    exists []. split; [reflexivity|]. split; [reflexivity|]. split; [reflexivity|]. split; [intros k0 q Hq; destruct k0; discriminate Hq | constructor].
  - destruct ss as [|s ss]; [discriminate C|].
    cbn [canon_slots] in C. apply andb_true_iff in C. destruct C as [C1 C2].
    inversion HS as [|? ? HS1 HS2]; subst.
    cbn [pk_fields] in Hpk. fold (pk_fields (pack_msg E) um) in Hpk.
    destruct (pk_field (pack_msg E) um f s) as [F|e] eqn:EF; [|discriminate Hpk]. cbn [bind] in Hpk.
    destruct (pk_fields (pack_msg E) um fs ss) as [a'|e] eqn:Ea; [|discriminate Hpk]. cbn [bind] in Hpk.
    inversion Hpk; subst a. rewrite zlen_app in Hlen.
    pose proof (zlen_nonneg _ F). pose proof (zlen_nonneg _ a').
    assert (Hin : In f (md_fields md)) by (rewrite Hfs; apply in_or_app; right; left; reflexivity).
    destruct (desc_ok_fields _ _ D f Hin) as (Hfo & Hid & Hz).
    assert (Hn : nth_error (md_fields md) (length pre) = Some f) by (rewrite Hfs; apply nth_error_app_mid).
    destruct (field_package E usub md lim Hlim (md_n_oneofs md) (length pre) f s um F Hn Hfo Hid Hz C1 HS1 HU EF ltac:(lia))
      as (recs & Hpkg).
    destruct (IH ss (pre ++ [f]) a') as (qs & Q1 & Q2 & Q3 & Q4 & Q5);
      [rewrite Hfs, <- app_assoc; reflexivity | exact C2 | exact HS2 | exact HU | exact Ea | lia |].
    exists ((f, s, F, recs) :: qs). cbn [map]. unfold q_f at 1, q_s at 1, q_F at 1. cbn [fst snd].
    split; [rewrite Q1; reflexivity|]. split; [rewrite Q2; reflexivity|]. split; [rewrite Q3; reflexivity|]. split.
    + intros k q Hq. destruct k as [|k].
      * inversion Hq; subst q. rewrite Nat.add_0_r. exact Hpkg.
      * replace (length pre + S k)%nat with (length (pre ++ [f]) + k)%nat by (rewrite app_length; cbn; lia).
        apply Q4. exact Hq.
    + constructor; [|exact Q5]. unfold q_f, q_s. cbn [fst snd]. eapply canon_kind; eauto.
Qed.

(* each record occupies at least one byte: the scan never runs out of fuel *)
Lemma recs_le_bytes : forall qs i0,
  (forall k q, nth_error qs k = Some q ->
     fpkg_with E usub md (q_r q) (i0 + k) (q_f q) (q_s q) um (q_F q)) ->
  (forall q, In q qs -> 0 < f_id (q_f q) < 536870912) ->
  (length (concat (map q_r qs)) <= length (concat (map q_F qs)))%nat.
Proof.
  induction qs as [|q qs IH]; intros i0 Hpk Hid; [cbn; lia|].
  cbn [map concat]. rewrite !app_length.
  pose proof (Hpk 0%nat q eq_refl) as (HF & Hok & _).
  assert (Hq : (length (q_r q) <= length (q_F q))%nat).
  { rewrite HF. pose proof (Hid q (or_introl eq_refl)) as Hidq. clear - Hok Hidq.
    induction Hok as [|r rs [Hwt _] _ IHr]; [cbn; lia|]. cbn [map concat length]. rewrite app_length.
    assert (1 <= length (rec_bytes (f_id (q_f q)) r))%nat.
    { unfold rec_bytes. rewrite app_length. pose proof (key_nonempty _ _ Hidq Hwt).
      destruct (e_tag (f_id (q_f q)) (r_wt r)); [congruence | cbn; lia]. }
    lia. }
  specialize (IH (S i0)).
  assert (length (concat (map q_r qs)) <= length (concat (map q_F qs)))%nat.
  { apply IH; [|intros q' Hq'; apply Hid; right; exact Hq'].
    intros k q' Hq'. replace (S i0 + k)%nat with (i0 + S k)%nat by lia. apply Hpk. exact Hq'. }
  lia.
Qed.

End Assemble.

(* ---------- the unions after all members have been parsed *)
Definition activeb (q : quad) (g : nat) : bool :=
  match q_s q, q_r q with SUnion g', _ :: _ => Nat.eqb g g' | _, _ => false end.

Definition union_step (um : list (Z * sval)) (u : list (Z * sval)) (q : quad) : list (Z * sval) :=
  match q_s q, q_r q with
  | SUnion g, _ :: _ => set_nth u g (nth g um (0, VWord 0))
  | _, _ => u
  end.
Lemma apply_unions_cons : forall um q qs U, apply_unions um (q :: qs) U = apply_unions um qs (union_step um U q).
Proof. reflexivity. Qed.

Lemma apply_unions_length : forall um qs U, length (apply_unions um qs U) = length U.
Proof.
  intros um qs. induction qs as [|q qs IH]; intros U; [reflexivity|].
  rewrite apply_unions_cons, IH. unfold union_step.
  destruct (q_s q); try reflexivity. destruct (q_r q); [reflexivity | apply set_nth_length].
Qed.

Lemma apply_unions_nth : forall um qs U g, (g < length U)%nat ->
  nth_error (apply_unions um qs U) g =
  if existsb (fun q => activeb q g) qs then Some (nth g um (0, VWord 0)) else nth_error U g.
Proof.
  intros um qs. induction qs as [|q qs IH]; intros U g Hg; [reflexivity|].
  rewrite apply_unions_cons. cbn [existsb]. unfold union_step.
  unfold activeb at 1.
  destruct (q_s q) as [| |g'] eqn:Es; try (cbn [orb]; apply IH; exact Hg).
  destruct (q_r q) as [|r0 rs] eqn:Er; [cbn [orb]; apply IH; exact Hg|].
  rewrite IH by (rewrite set_nth_length; exact Hg).
  destruct (Nat.eqb_spec g g') as [-> | Hne]; cbn [orb].
  - rewrite nth_error_set_nth by exact Hg. destruct (existsb _ qs); reflexivity.
  - rewrite nth_error_set_nth_other by congruence. reflexivity.
Qed.

Lemma canon_unions_nth : forall fs us g0 j cv, canon_unions fs g0 us = true -> nth_error us j = Some cv ->
  existsb (fun f => (f_id f =? fst cv) && match f_quant f with QCase g' => Nat.eqb (g0 + j) g' | _ => false end) fs = true
  \/ ((fst cv =? 0) && sval_eqb_shallow (snd cv) (VWord 0)) = true.
Proof.
  intros fs us. induction us as [|u us IH]; intros g0 j cv C Hn; [destruct j; discriminate Hn|].
  cbn [canon_unions] in C. apply andb_true_iff in C. destruct C as [C1 C2].
  destruct j as [|j].
  - inversion Hn; subst u. rewrite Nat.add_0_r. apply orb_true_iff in C1. exact C1.
  - cbn [nth_error] in Hn. replace (g0 + S j)%nat with (S g0 + j)%nat by lia. apply (IH (S g0) j cv C2 Hn).
Qed.

Lemma list_eq_nth_error : forall A (a b : list A), length a = length b ->
  (forall i, (i < length a)%nat -> nth_error a i = nth_error b i) -> a = b.
Proof.
  induction a as [|x a IH]; intros b Hl H; destruct b as [|y b]; try discriminate Hl; [reflexivity|].
  pose proof (H 0%nat ltac:(cbn; lia)) as H0. cbn in H0. inversion H0; subst. f_equal.
  apply IH; [cbn in Hl; lia|]. intros i Hi. apply (H (S i)). cbn. lia.
Qed.

Section Final.
Variable E : env.
Hypothesis EO : env_ok E = true.

Lemma env_desc : forall d md, nth_error E d = Some md -> desc_ok (length E) md = true.
Proof. intros d md H. unfold env_ok in EO. rewrite forallb_forall in EO. apply EO. eapply nth_error_In; eauto. Qed.

Lemma final_unions : forall usub md um qs,
  desc_ok (length E) md = true ->
  map q_f qs = md_fields md ->
  length um = md_n_oneofs md ->
  canon_unions (md_fields md) 0 um = true ->
  Forall (fun q => kind_ok (q_f q) (q_s q)) qs ->
  (forall k q, nth_error qs k = Some q -> fpkg_with E usub md (q_r q) k (q_f q) (q_s q) um (q_F q)) ->
  apply_unions um qs (repeat (0, VWord 0) (md_n_oneofs md)) = um.
Proof.
  intros usub md um qs D Hfs Hlen CU HK Hpk.
  apply list_eq_nth_error; [rewrite apply_unions_length, repeat_length; lia|].
  intros g Hg. rewrite apply_unions_length, repeat_length in Hg.
  rewrite apply_unions_nth by (rewrite repeat_length; exact Hg).
  destruct (nth_error um g) as [cv|] eqn:Ecv; [|apply nth_error_None in Ecv; lia].
  rewrite (nth_error_nth um g (0, VWord 0) Ecv).
  destruct (canon_unions_nth _ _ 0%nat g cv CU Ecv) as [Hex | Hzero].
  - (* some member of the group is selected: its quad is active *)
    apply existsb_exists in Hex. destruct Hex as (f & Hin & Hf). apply andb_true_iff in Hf. destruct Hf as [Hid Hq].
    apply Z.eqb_eq in Hid. cbn [Nat.add] in Hq.
    destruct (f_quant f) as [| |g'|] eqn:Eq; try discriminate Hq. apply Nat.eqb_eq in Hq. subst g'.
    rewrite <- Hfs in Hin. apply in_map_iff in Hin. destruct Hin as (q & Hqf & Hqin).
    apply In_nth_error in Hqin. destruct Hqin as (k & Hk).
    rewrite Forall_forall in HK. pose proof (HK q (nth_error_In _ _ Hk)) as Kq.
    destruct (Hpk k q Hk) as (_ & _ & _ & _ & Hact & _).
    assert (Hs : q_s q = SUnion g).
    { assert (Hfin : In f (md_fields md)) by (rewrite <- Hfs; apply in_map_iff; exists q; split; [exact Hqf | eapply nth_error_In; eauto]).
      destruct (desc_ok_fields _ _ D f Hfin) as (Hfo & _ & _).
      unfold field_ok in Hfo. rewrite !andb_true_iff in Hfo. destruct Hfo as [[[_ Hlq] _] _]. rewrite Eq in Hlq.
      unfold kind_ok in Kq. rewrite Hqf in Kq.
      destruct (f_label f); try discriminate Hlq; destruct (q_s q) as [| |g2]; try contradiction;
        try (exfalso; apply (Kq g); exact Eq); rewrite Eq in Kq; inversion Kq; reflexivity. }
    assert (Hne : q_r q <> []).
    { apply (Hact g Hs). rewrite (nth_error_nth um g (0, VWord 0) Ecv). rewrite Hqf. symmetry. exact Hid. }
    replace (existsb (fun q0 => activeb q0 g) qs) with true; [reflexivity|].
    symmetry. apply existsb_exists. exists q. split; [eapply nth_error_In; eauto|].
    unfold activeb. rewrite Hs. destruct (q_r q); [congruence | apply Nat.eqb_refl].
  - apply andb_true_iff in Hzero. destruct Hzero as [Hc Hz]. apply Z.eqb_eq in Hc. apply shallow_eq in Hz.
    destruct cv as [c v]. cbn [fst snd] in *. subst c v.
    destruct (existsb _ qs); [reflexivity|]. apply nth_error_repeat. exact Hg.
Qed.

End Final.

(* ---------- C01 for canonical messages *)
Lemma rec_bytes_range : forall id r, 0 < id < 536870912 -> rec_ok r ->
  forall x, In x (rec_bytes id r) -> 0 <= x < 256.
Proof.
  intros id r Hid [Hwt [HB _]] x Hx. unfold rec_bytes in Hx. apply in_app_or in Hx. destruct Hx as [Hx|Hx].
  - destruct (key_wfv id (r_wt r) Hid Hwt) as (_ & _ & B & _). exact (B x Hx).
  - exact (HB x Hx).
Qed.

Section Main.
Variable E : env.
Hypothesis EO : env_ok E = true.

Definition rt_stmt (m : msg) : Prop :=
  canon_msg E m = true ->
  forall fuel b, pack_msg E m = Ok b -> zlen b <= max_input -> (length b < fuel)%nat ->
  unpack E fuel (m_desc m) b = Ok m /\ (forall x, In x b -> 0 <= x < 256).

Theorem roundtrip_canonical : forall m, rt_stmt m.
Proof.
  apply (msg_ind2 rt_stmt (fun v => forall m', v = VMsg (Some m') -> rt_stmt m')).
  - intros w m' H. discriminate H.
  - intros p m' H. discriminate H.
  - intros n p m' H. discriminate H.
  - intros m' H. discriminate H.
  - intros m IH m' H. inversion H; subst m'. exact IH.
  - intros d slots um unk HS HU C fuel b Hpk Hlen Hfuel.
    cbn [canon_msg] in C. cbn [m_desc].
    destruct (nth_error E d) as [md|] eqn:Ed; [|discriminate C].
    rewrite !andb_true_iff in C. destruct C as [[[Cn Cs] Cu] Ck]. apply Nat.eqb_eq in Cn.
    pose proof (env_desc E EO d md Ed) as D.
    destruct fuel as [|k]; [lia|].
    set (lim := Z.min max_input (Z.of_nat k)).
    assert (Hlim : lim <= 2147483647) by (subst lim; unfold max_input; lia).
    assert (Hlim' : lim <= max_input) by (subst lim; lia).
    set (usub := unpack E k).
    (* the induction hypothesis in the form the field lemmas use *)
    assert (SUB : forall v, (forall m', v = VMsg (Some m') -> rt_stmt m') ->
                  forall m', v = VMsg (Some m') -> sub_rt E usub lim m').
    { intros v Q m' Hv Cm' b' Hb' Hlt. subst lim usub. apply (Q m' Hv Cm' k b' Hb'); unfold zlen in *; lia. }
    assert (HS' : Forall (slot_all (fun v => forall m', v = VMsg (Some m') -> sub_rt E usub lim m')) slots).
    { rewrite Forall_forall in *. intros s Hs. specialize (HS s Hs). destruct s as [h v|n c [l|]|g]; cbn [slot_all] in *.
      - apply SUB. exact HS.
      - rewrite Forall_forall in *. intros v Hv. apply SUB. exact (HS v Hv).
      - exact I.
      - exact I. }
    assert (HU' : Forall (fun cv : Z * sval => forall m', snd cv = VMsg (Some m') -> sub_rt E usub lim m') um).
    { rewrite Forall_forall in *. intros cv Hcv. apply SUB. exact (HU cv Hcv). }
    (* the bytes *)
    cbn [pack_msg] in Hpk. rewrite Ed in Hpk.
    destruct (pk_fields (pack_msg E) um (md_fields md) slots) as [a|e] eqn:Ea; [|discriminate Hpk].
    cbn [bind] in Hpk. inversion Hpk; subst b; clear Hpk.
    set (U := concat (map pk_unknown unk)) in *.
    assert (Hzk : zlen (a ++ U) <= lim) by (subst lim; unfold zlen in *; lia).
    rewrite zlen_app in Hzk. pose proof (zlen_nonneg _ a). pose proof (zlen_nonneg _ U).
    destruct (build_quads E usub md lim Hlim D um (md_fields md) slots [] a eq_refl Cs HS' HU' Ea ltac:(lia))
      as (qs & Q1 & Q2 & Q3 & Q4 & Q5).
    cbn [length Nat.add] in Q4.
    assert (Hids : forall q, In q qs -> 0 < f_id (q_f q) < 536870912).
    { intros q Hq. apply (desc_ok_fields _ _ D). rewrite <- Q1. apply in_map. exact Hq. }
    (* phase 1: scan *)
    unfold unpack. fold (unpack E). rewrite Ed. cbv zeta.
    set (st0 := {| st_at := a ++ U;
                   st_last := match md_fields md with [] => None | _ :: _ => Some 0%nat end;
                   st_last_idx := 0%nat; st_bitmap := repeat false (length (md_fields md));
                   st_members := []; st_slots := m_slots (init_msg d md); st_nunk := 0 |}).
    assert (Hc0 : cache_ok md st0).
    { unfold cache_ok. subst st0. cbn [st_last st_last_idx]. destruct (md_fields md); [exact I | split; [reflexivity | cbn; lia]]. }
    assert (Hl0 : zlen (st_at st0) < 4294967296) by (subst st0; cbn [st_at]; rewrite zlen_app; lia).
    assert (P1 : md_fields md = [] ++ map q_f qs) by (symmetry; exact Q1).
    assert (P5 : forall q, In q qs -> f_label (q_f q) = LRepeated -> exists n c a0, q_s q = SRep n c a0 /\ 0 <= n < 268435456).
    { intros q Hq El. rewrite Forall_forall in Q5. specialize (Q5 q Hq). unfold kind_ok in Q5. rewrite El in Q5.
      destruct (q_s q) as [|n c a0|]; try contradiction. exists n, c, a0. auto. }
    assert (P6 : forall q, In q qs -> f_label (q_f q) <> LRepeated -> forall n c a0, q_s q <> SRep n c a0).
    { intros q Hq El n c a0 Hs. rewrite Forall_forall in Q5. specialize (Q5 q Hq). unfold kind_ok in Q5. rewrite Hs in Q5.
      destruct (f_label (q_f q)); contradiction. }
    assert (P7 : st_slots st0 = [] ++ map (fun q => init_slot (q_f q)) qs).
    { subst st0. cbn [st_slots init_msg m_slots app]. rewrite <- Q1, map_map. reflexivity. }
    assert (P8 : st_bitmap st0 = [] ++ repeat false (length qs)).
    { subst st0. cbn [st_bitmap app]. rewrite <- Q1, map_length. reflexivity. }
    assert (P9 : st_at st0 = concat (map q_F qs) ++ U).
    { subst st0. cbn [st_at]. rewrite Q3. reflexivity. }
    destruct (scan_quads (length E) E usub md D um qs [] [] [] st0 U P1 eq_refl eq_refl Q4 P5 P6 P7 P8 P9 Hc0 Hl0)
      as (st1 & S1 & A1 & M1 & N1 & C1 & SL1 & B1).
    assert (Hl1 : zlen (st_at st1) < 4294967296) by (rewrite A1; lia).
    destruct (scan_unknowns (length E) usub md D unk st1 [] Ck ltac:(rewrite A1, app_nil_r; reflexivity) C1 Hl1)
      as (prefs & st2 & PL & S2 & A2 & M2 & N2 & SL2 & B2 & C2).
    assert (HK1 : (length (concat (map q_r qs)) <= length a)%nat).
    { rewrite Q3. apply (recs_le_bytes E usub md um qs 0%nat); [exact Q4 | exact Hids]. }
    assert (HK2 : (length unk <= length U)%nat).
    { subst U. clear - Ck. induction unk as [|u unk IH]; [cbn; lia|]. cbn [forallb] in Ck. apply andb_true_iff in Ck.
      destruct Ck as [Cu Ck]. cbn [map concat length]. rewrite app_length. specialize (IH Ck).
      unfold canon_unk in Cu. rewrite !andb_true_iff in Cu. destruct Cu as [[[T0 T1] _] Hp].
      destruct (unk_payload _ _ Hp) as (Hwt & _).
      assert (1 <= length (pk_unknown u))%nat.
      { unfold pk_unknown. rewrite app_length. pose proof (key_nonempty (u_tag u) (u_wt u) ltac:(lia) Hwt).
        destruct (e_tag (u_tag u) (u_wt u)); [congruence | cbn; lia]. }
      lia. }
    assert (Hscan : scan_loop (S (length (a ++ U))) md st0 = Ok st2).
    { rewrite app_length.
      replace (S (length a + length U)) with
        (length (concat (map q_r qs)) + (length unk + (S (length a + length U) - length (concat (map q_r qs)) - length unk)))%nat by lia.
      rewrite S1, S2. destruct (S (length a + length U) - length (concat (map q_r qs)) - length unk)%nat; cbn [scan_loop]; rewrite A2; reflexivity. }
    rewrite Hscan. cbn [bind].
    (* the member count is within the slab table: two bytes per member at least *)
    rewrite (member_limit_ok _ _ _ _ Hscan eq_refl Hlen).
    (* phase 2: allocation pass *)
    rewrite B2, B1, SL2, SL1. cbn [app]. rewrite <- Q1.
    rewrite (alloc_quads qs Q5). cbn [bind].
    (* phase 3: parse *)
    rewrite M2, M1. cbn [length]. rewrite app_nil_r. rewrite rev_app_distr, !rev_involutive.
    rewrite (parse_members_app E usub md).
    cbn [init_msg m_unions].
    pose proof (parse_quads E usub md um qs [] (repeat (0, VWord 0) (md_n_oneofs md)) d []) as PQ.
    cbn [length app Nat.add] in PQ. rewrite PQ; clear PQ.
    + cbn [bind]. rewrite (parse_unknowns (length E) E usub md unk prefs d _ _ [] PL). cbn [app].
      rewrite Q2.
      rewrite (final_unions E usub md um qs D Q1 Cn Cu Q5 Q4).
      split; [reflexivity|].
      (* byte range *)
      intros x Hx. apply in_app_or in Hx. destruct Hx as [Hx|Hx].
      * rewrite Q3 in Hx. apply in_concat in Hx. destruct Hx as (F & HF & HxF). apply in_map_iff in HF.
        destruct HF as (q & <- & Hq). apply In_nth_error in Hq. destruct Hq as (kq & Hkq).
        destruct (Q4 kq q Hkq) as (HFq & Hok & _). rewrite HFq in HxF. apply in_concat in HxF.
        destruct HxF as (rb & Hrb & Hxrb). apply in_map_iff in Hrb. destruct Hrb as (r & <- & Hr).
        rewrite Forall_forall in Hok. apply (rec_bytes_range (f_id (q_f q)) r (Hids q (nth_error_In _ _ Hkq)) (Hok r Hr) x Hxrb).
      * subst U. apply in_concat in Hx. destruct Hx as (ub & Hub & Hxub). apply in_map_iff in Hub.
        destruct Hub as (u & <- & Hu). rewrite forallb_forall in Ck. specialize (Ck u Hu).
        unfold canon_unk in Ck. rewrite !andb_true_iff in Ck. destruct Ck as [[[T0 T1] _] Hp].
        destruct (unk_payload _ _ Hp) as (Hwt & pref & Hpo).
        apply (rec_bytes_range (u_tag u) (u_wt u, u_data u, pref) ltac:(lia) (conj Hwt Hpo) x Hxub).
    + exact Q4.
    + (* unions are still initial when their selected member is parsed *)
      intros q g Hq [Hs _]. rewrite Forall_forall in Q5. pose proof (Q5 q Hq) as Kq.
      assert (Hfin : In (q_f q) (md_fields md)) by (rewrite <- Q1; apply in_map; exact Hq).
      destruct (desc_ok_fields _ _ D _ Hfin) as (Hfo & _ & _).
      unfold field_ok in Hfo. rewrite !andb_true_iff in Hfo. destruct Hfo as [[[_ Hlq] _] _].
      unfold kind_ok in Kq. rewrite Hs in Kq.
      apply nth_error_repeat.
      destruct (f_label (q_f q)); try contradiction; rewrite Kq in Hlq; try discriminate Hlq;
        apply andb_true_iff in Hlq; destruct Hlq as [_ Hg]; apply Nat.ltb_lt in Hg; exact Hg.
    + (* at most one member of a union is selected *)
      intros k1 k2 q1 q2 g H1 H2 [Hs1 Hr1] [Hs2 Hr2].
      destruct (Q4 k1 q1 H1) as (_ & _ & _ & _ & A1' & _). destruct (Q4 k2 q2 H2) as (_ & _ & _ & _ & A2' & _).
      pose proof (proj1 (A1' g Hs1) Hr1) as I1. pose proof (proj1 (A2' g Hs2) Hr2) as I2.
      assert (F1 : nth_error (md_fields md) k1 = Some (q_f q1)) by (rewrite <- Q1, nth_error_map, H1; reflexivity).
      assert (F2 : nth_error (md_fields md) k2 = Some (q_f q2)) by (rewrite <- Q1, nth_error_map, H2; reflexivity).
      apply (field_index_unique (length E) md D k1 k2 _ _ F1 F2). congruence.
Qed.

End Main.

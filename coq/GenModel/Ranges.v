(* WriteIntRanges (c_helpers.cc) and the enum variant (c_enum.cc): the range
   table the generator emits for a strictly increasing list of numbers.
   Written as a right fold (a run is extended leftwards), which yields the same
   table as the generator's left-to-right loop; the tie compares the emitted
   tables with this function on every run. *)
From Coq Require Import ZArith List Bool.
From PBC Require Import Base.CInt.
Import ListNotations.
Local Open Scope Z_scope.

Definition mkr (s o : Z) : IntRange := {| start_value := s; orig_index := o |}.

(* table for the values vs, the first of which has index i *)
Fixpoint mk_ranges_from (vs : list Z) (i : Z) : list IntRange :=
  match vs with
  | [] => [mkr 0 i]
  | v :: t =>
      let r := mk_ranges_from t (i + 1) in
      match t, r with
      | w :: _, _ :: r' => if v + 1 =? w then mkr v i :: r' else mkr v i :: r
      | _, _ => mkr v i :: r
      end
  end.

(* the table and n_ranges; no values: NULL table, 0 ranges *)
Definition mk_ranges (vs : list Z) : list IntRange * Z :=
  match vs with
  | [] => ([], 0)
  | _ => let r := mk_ranges_from vs 0 in (r, Z.of_nat (length r) - 1)
  end.

(* enum values sorted by number, aliases removed *)
Fixpoint dedup_sorted (vs : list Z) : list Z :=
  match vs with
  | [] => []
  | v :: t => match t with
              | [] => [v]
              | w :: _ => if v =? w then dedup_sorted t else v :: dedup_sorted t
              end
  end.

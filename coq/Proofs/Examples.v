(* Concrete non-trivial states satisfying the hypotheses of the property
   theorems (non-vacuity), evaluated by vm_compute. *)
From Coq Require Import ZArith List Bool.
From PBC Require Import Base.CInt Gen.LeafC Impl.Desc Impl.Mem Impl.Enc Impl.Size Impl.Pack Impl.PackBuf
     Impl.Unpack Impl.Check Impl.WF GenModel.Ranges.
Import ListNotations.
Local Open Scope Z_scope.

Definition mkf id lab ty q packed oneof sub d :=
  {| f_id := id; f_label := lab; f_type := ty; f_quant := q; f_packed := packed; f_oneof := oneof;
     f_sub := sub; f_default := d |}.

Definition mkdesc (fs : list field) (noneofs : nat) : mdesc :=
  let r := mk_ranges (map f_id fs) in
  {| md_fields := fs; md_ranges := fst r; md_n_ranges := snd r; md_n_oneofs := noneofs; md_generic_init := true |}.

(* message 0: required int32 1; optional string 2; repeated packed uint32 3; oneof {sint64 5, bytes 6};
   optional message 7 (self); repeated string 9; proto3-style double 300 *)
Definition ex_env : env :=
  [ mkdesc [ mkf 1 LRequired TInt32 QNone false false 0%nat None;
             mkf 2 LOptional TString QNone false false 0%nat (Some (DStr [104; 105]));
             mkf 3 LRepeated TUint32 QCount true false 0%nat None;
             mkf 5 LOptional TSint64 (QCase 0) false true 0%nat None;
             mkf 6 LOptional TBytes (QCase 0) false true 0%nat None;
             mkf 7 LOptional TMessage QNone false false 0%nat None;
             mkf 9 LRepeated TString QCount false false 0%nat None;
             mkf 300 LNone TDouble QNone false false 0%nat None ] 1 ].

Definition ex_inner : msg :=
  Msg 0 [ SOne 0 (VWord 4294967295); SOne 0 (VStr PDef); SRep 0 0 None; SUnion 0; SUnion 0;
          SOne 0 (VMsg None); SRep 0 0 None; SOne 0 (VWord 9223372036854775808) ]
      [ (6, VBytes 3 (PHeap [0; 255; 7])) ] [ {| u_tag := 1000; u_wt := 0; u_data := [150; 1] |} ].

Definition ex_msg : msg :=
  Msg 0 [ SOne 0 (VWord 150); SOne 0 (VStr (PHeap [65; 66]));
          SRep 3 3 (Some [VWord 1; VWord 300; VWord 4294967295]); SUnion 0; SUnion 0;
          SOne 0 (VMsg (Some ex_inner)); SRep 2 2 (Some [VStr (PHeap []); VStr (PHeap [120])]);
          SOne 0 (VWord 0) ]
      [ (5, VWord 18446744073709551615) ] [].

Example ex_wf : wf_msg ex_env ex_msg = true.
Proof. vm_compute. reflexivity. Qed.

Example ex_pack_nonempty :
  exists b, pack_msg ex_env ex_msg = Ok b /\ (length b = 56)%nat.
Proof. eexists. split; [vm_compute; reflexivity|]. reflexivity. Qed.

Example ex_roundtrip :
  exists b, pack_msg ex_env ex_msg = Ok b /\ unpack_top ex_env 0 b = Ok ex_msg.
Proof. eexists. split; [vm_compute; reflexivity|]. vm_compute. reflexivity. Qed.

From PBC Require Import Impl.Canon.
Example ex_env_ok : env_ok ex_env = true.
Proof. vm_compute. reflexivity. Qed.
Example ex_canon : canon_msg ex_env ex_msg = true.
Proof. vm_compute. reflexivity. Qed.

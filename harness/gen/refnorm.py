"""Normal form of the `U <msg>` lines printed by harness/c/impl_driver.c (protobuf-c) and by
harness/cxx/ref_driver.cc (libprotobuf), see harness/FORMAT.md section 4.

    normalise(line)            -> str      schema-free part of the normal form
    normalise(line, env)       -> str      full normal form (env: casegen.Env, ENV text, or parse_env(text))
    same(c_line, ref_line, env) -> bool
    pack_hex(line)             -> str      the packed bytes of a `P ...` line of either driver

The normal form is the text ref_driver prints, i.e. normalise(ref_line, env) == ref_line.  Two lines have the
same normal form iff they denote the same protobuf value: same presence, bit-identical scalar values, same
strings/bytes, same element order, same selected oneof member, and the same unknown fields in the same order
(field number, wire type, value).  What is normalised away (all of it is in-memory representation, not value):

  * unknown fields: protobuf-c keeps the bytes as they were on the wire, so a varint may be padded
    (`8000` for 0) and may carry bits above 2^64 in its 10th byte, and a length prefix may be padded;
    libprotobuf keeps the decoded value.  Normal form: minimal varint of (value mod 2^64); minimal length
    prefix followed by the payload; fixed32/fixed64 bytes unchanged.
  * repeated slots: `cap` := `n`; `N` when n = 0 (both drivers already print this).
  * a bytes cell of length 0 is `B 0 N` whatever the pointer.
  * implicit presence (label NONE outside a oneof; needs env): an empty string is the absent state, so
    `T H -` becomes what an absent field prints (`T D` when the field has a default_value, else `T N`).
    Without env this rule is not applied (explicitly encoded empty proto3 strings then compare unequal).

Options: cstr=True truncates every string (`T H <hex>`) at its first NUL byte on both sides: protobuf-c's
`char *` cannot represent what follows (a real loss of information, hidden only on request)."""

M64 = (1 << 64) - 1


class _F:
    __slots__ = ('id', 'label', 'type', 'quant', 'has_default')


class _M:
    __slots__ = ('fields',)


class NEnv:
    def __init__(self, msgs):
        self.msgs = msgs


def parse_env(text):
    """ENV block (text; later lines are ignored) -> NEnv"""
    msgs = []
    for l in text.splitlines():
        t = l.split(' ')
        if t[0] == 'MSG':
            m = _M(); m.fields = []
            msgs.append(m)
        elif t[0] == 'F':
            f = _F()
            f.id = int(t[1]); f.label = t[2]; f.type = t[3]; f.quant = t[4]; f.has_default = t[8] != '-'
            msgs[-1].fields.append(f)
        elif t[0] == 'END':
            break
    return NEnv(msgs)


def _as_env(env):
    if env is None or isinstance(env, NEnv):
        return env
    if isinstance(env, str):
        return parse_env(env)
    msgs = []                      # casegen.Env
    for md in env.msgs:
        m = _M(); m.fields = []
        for fd in md.fields:
            f = _F()
            f.id = fd.id; f.label = fd.label; f.type = fd.type; f.quant = fd.quant
            f.has_default = fd.default is not None
            m.fields.append(f)
        msgs.append(m)
    return NEnv(msgs)


def _varint(v):
    out = bytearray()
    while v >= 0x80:
        out.append((v & 0x7f) | 0x80)
        v >>= 7
    out.append(v)
    return bytes(out)


def _read_varint(b, pos=0):
    """(value mod 2^64, next position) or None"""
    v = 0
    for i in range(10):
        if pos >= len(b):
            return None
        c = b[pos]; pos += 1
        v |= (c & 0x7f) << (7 * i)
        if not c & 0x80:
            return v & M64, pos
    return None


def _hex(b):
    return b.hex() if b else '-'


def _unhex(h):
    return b'' if h == '-' else bytes.fromhex(h)


def _norm_unknown(tag, wt, h):
    try:
        b = _unhex(h)
    except ValueError:
        return h
    if wt == '0':
        r = _read_varint(b)
        if r and r[1] == len(b):
            return _hex(_varint(r[0]))
    elif wt == '2':
        r = _read_varint(b)
        if r and r[0] == len(b) - r[1]:
            return _hex(_varint(r[0]) + b[r[1]:])
    return h.lower()


class _N:
    def __init__(self, toks, env, cstr):
        self.t = toks; self.i = 0; self.env = env; self.cstr = cstr; self.out = []

    def next(self):
        v = self.t[self.i]; self.i += 1
        return v

    def cell(self, out, f=None, implicit=False):
        k = self.next()
        if k == 'W':
            out += ['W', '%016x' % int(self.next(), 16)]
        elif k == 'T':
            p = self.next()
            if p == 'H':
                h = self.next().lower()
                if self.cstr and h != '-':
                    b = _unhex(h)
                    z = b.find(b'\0')
                    if z >= 0:
                        h = _hex(b[:z])
                if implicit and h == '-':
                    out += ['T', 'D' if f.has_default else 'N']
                else:
                    out += ['T', 'H', h]
            else:
                out += ['T', p]
        elif k == 'B':
            n = self.next(); p = self.next()
            if p == 'H':
                h = self.next().lower()
                if n == '0':
                    out += ['B', '0', 'N']
                else:
                    out += ['B', n, 'H', h]
            else:
                out += ['B', n, p]
        elif k == 'G':
            out.append('G')
            p = self.next()
            if p == 'M':
                self.msg(out)
            else:
                out.append(p)
        else:
            raise ValueError('bad cell ' + k)

    def msg(self, out):
        d = self.next(); n = int(self.next())
        out += ['M', d, str(n)]
        fields = None
        if self.env is not None and int(d) < len(self.env.msgs) and len(self.env.msgs[int(d)].fields) == n:
            fields = self.env.msgs[int(d)].fields
        for k in range(n):
            f = fields[k] if fields else None
            s = self.next()
            if s == 'S':
                out += ['S', self.next()]
                self.cell(out, f, bool(f) and f.label == 'NONE' and not f.quant.startswith('C') and f.type == 'STRING')
            elif s == 'R':
                cnt = int(self.next()); self.next()
                a = self.next()
                cells = []
                if a == 'A':
                    for _ in range(int(self.next())):
                        c = []
                        self.cell(c, f)
                        cells.append(c)
                out += ['R', str(cnt), str(cnt)]
                if cnt == 0 or a != 'A':
                    out.append('N')
                else:
                    out += ['A', str(cnt)]
                    for c in cells[:cnt]:
                        out += c
            elif s == 'U':
                out += ['U', self.next()]
            else:
                raise ValueError('bad slot ' + s)
        nu = int(self.next())
        out.append(str(nu))
        for _ in range(nu):
            case = self.next()
            out.append(case)
            f = None
            if fields:
                for g in fields:
                    if str(g.id) == case:
                        f = g
            self.cell(out, f)
        nk = int(self.next())
        out.append(str(nk))
        for _ in range(nk):
            tag = self.next(); wt = self.next(); h = self.next()
            out += [tag, wt, _norm_unknown(tag, wt, h)]


def normalise(line, env=None, cstr=False):
    line = line.rstrip('\r\n')
    if not line.startswith('U M '):
        return line
    n = _N(line.split(' '), _as_env(env), cstr)
    out = [n.next()]
    try:
        n.next()
        n.msg(out)
        if n.i != len(n.t):
            return line
    except (IndexError, ValueError):
        return line
    return ' '.join(out)


def same(c_line, ref_line, env=None, cstr=False):
    env = _as_env(env)
    return normalise(c_line, env, cstr) == normalise(ref_line, env, cstr)


def pack_hex(line):
    """hex of the packed bytes ('' for the empty string); None if the line is not a P line.
    impl_driver: `P <size> <ret> <hex> <overrun> ...`; ref_driver: `P <len> <hex>`"""
    t = line.split()
    if not t or t[0] != 'P':
        return None
    h = t[2] if len(t) == 3 else t[3]
    return '' if h == '-' else h

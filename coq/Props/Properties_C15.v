(* C15 -- the generator handles every valid schema and its output always compiles.
   What a theorem can carry here: the generator model is a total Gallina function, so it terminates and is
   deterministic by construction; and the one identifier-level rule the generator has -- FieldName() appends
   '_' to a lower-cased field name that is in kKeywordList (regenerated from c_helpers.cc into
   Gen/Keywords.v on every run) -- makes the struct member never a C99 keyword nor a C++98 keyword, for
   every field name.  That the emitted text as a whole compiles is decided on the real output by the
   generator tie (gcc -std=c99, -std=c11, g++ on the header, link, run), see DESIGN.md. *)
From Coq Require Import ZArith List Bool.
From PBC Require Import Base.CInt GenModel.Gen Gen.Keywords Proofs.Keywords.
Import ListNotations.

Theorem C15_member_name_never_a_keyword : forall name : str, ~ In (field_member_name name) reserved.
Proof. exact member_never_reserved. Qed.
Print Assumptions C15_member_name_never_a_keyword.

Theorem C15_field_name_rule_unchanged : field_name_shape_unchanged = true.
Proof. exact shape_unchanged. Qed.
Print Assumptions C15_field_name_rule_unchanged.

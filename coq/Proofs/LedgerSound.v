(* Soundness of the allocation monitor: a trace it accepts satisfies the discipline of C07 / C08, stated
   declaratively by counting events in prefixes. *)
From Coq Require Import ZArith List Bool Arith Lia.
From PBC Require Import Impl.Ledger.
Import ListNotations.

Definition is_alloc (id : nat) (e : ev) : bool := match e with EvAlloc i _ => Nat.eqb i id | _ => false end.
Definition is_free (id : nat) (e : ev) : bool := match e with EvFree i => Nat.eqb i id | _ => false end.
Definition is_refuse (e : ev) : bool := match e with EvRefuse _ _ => true | _ => false end.
Definition n_alloc id l := length (filter (is_alloc id) l).
Definition n_free id l := length (filter (is_free id) l).

(* what a trace must satisfy *)
Record discipline (evs : list ev) : Prop := {
  (* never a free of NULL, of a static default, of a block already returned, or of a foreign pointer *)
  d_no_bad_free : ~ In EvBadFree evs;
  (* request numbers identify blocks *)
  d_ids_fresh : forall pre id sz post, evs = pre ++ EvAlloc id sz :: post -> n_alloc id pre = 0;
  (* a block is handed back only after it was obtained, and at most once *)
  d_free_live : forall pre id post, evs = pre ++ EvFree id :: post -> n_alloc id pre = 1 /\ n_free id pre = 0;
  (* when parsing fails, every block requested during the attempt has been returned before the call returns *)
  d_fail_clean : forall pre post, evs = pre ++ EvRet false :: post -> forall id, n_alloc id pre = n_free id pre;
  (* a refused request makes parsing report failure *)
  d_refusal_fails : forall pre post, evs = pre ++ EvRet true :: post -> existsb is_refuse pre = false;
  (* freeing the message leaves nothing outstanding *)
  d_free_all : forall pre post, evs = pre ++ EvFreeDone :: post -> forall id, n_alloc id pre = n_free id pre;
}.

(* the monitor state after a prefix *)
Definition inv (pre : list ev) (s : mon) : Prop :=
  (forall id, mem id (live s) = true <-> n_alloc id pre = 1 /\ n_free id pre = 0) /\
  (forall id, mem id (seen s) = true <-> 1 <= n_alloc id pre) /\
  (forall id, n_alloc id pre <= 1 /\ n_free id pre <= n_alloc id pre) /\
  refused s = existsb is_refuse pre.

Lemma mem_cons : forall x y l, mem x (y :: l) = Nat.eqb x y || mem x l.
Proof. reflexivity. Qed.

Lemma mem_in : forall x l, mem x l = true <-> In x l.
Proof.
  intros x l. unfold mem. rewrite existsb_exists. split.
  - intros (y & Hy & He). apply Nat.eqb_eq in He. subst. exact Hy.
  - intros H. exists x. split; [exact H | apply Nat.eqb_refl].
Qed.

Lemma mem_filter : forall x id l, mem x (filter (fun y => negb (Nat.eqb id y)) l) = negb (Nat.eqb id x) && mem x l.
Proof.
  intros x id l. apply Bool.eq_iff_eq_true. rewrite andb_true_iff, !mem_in, filter_In. tauto.
Qed.

Lemma counts_snoc : forall id pre e,
  n_alloc id (pre ++ [e]) = n_alloc id pre + (if is_alloc id e then 1 else 0) /\
  n_free id (pre ++ [e]) = n_free id pre + (if is_free id e then 1 else 0).
Proof.
  intros id pre e. unfold n_alloc, n_free. rewrite !filter_app, !app_length. cbn [filter].
  destruct (is_alloc id e); destruct (is_free id e); cbn [length]; split; lia.
Qed.

Lemma live_nil_balanced : forall pre s, inv pre s -> live s = [] -> forall id, n_alloc id pre = n_free id pre.
Proof.
  intros pre s (I1 & _ & I3 & _) Hl id. destruct (I3 id) as [Ha Hf].
  destruct (Nat.eq_dec (n_alloc id pre) 0) as [E|E]; [lia|].
  assert (n_alloc id pre = 1) by lia.
  destruct (Nat.eq_dec (n_free id pre) 0) as [F|F]; [|lia].
  assert (Hm : mem id (live s) = true) by (apply I1; split; assumption). rewrite Hl in Hm. discriminate Hm.
Qed.

Lemma inv_ext : forall pre pre' s s', inv pre s -> live s' = live s -> seen s' = seen s ->
  (forall id, n_alloc id pre' = n_alloc id pre /\ n_free id pre' = n_free id pre) ->
  refused s' = existsb is_refuse pre' -> inv pre' s'.
Proof.
  intros pre pre' s s' (I1 & I2 & I3 & I4) Hl Hs Hc Hr. unfold inv. rewrite Hl, Hs.
  split; [|split; [|split]].
  - intros id. destruct (Hc id) as [-> ->]. apply I1.
  - intros id. destruct (Hc id) as [-> _]. apply I2.
  - intros id. destruct (Hc id) as [-> ->]. apply I3.
  - exact Hr.
Qed.

Lemma step_inv : forall pre s e s', inv pre s -> step s e = Some s' -> inv (pre ++ [e]) s'.
Proof.
  intros pre s e s' I H. pose proof I as (I1 & I2 & I3 & I4).
  assert (Hc := fun id => counts_snoc id pre e).
  assert (Hr : existsb is_refuse (pre ++ [e]) = existsb is_refuse pre || is_refuse e)
    by (rewrite existsb_app; cbn; rewrite orb_false_r; reflexivity).
  destruct e as [id sz|id sz|id| |[|]|]; cbn [step] in H.
  - (* alloc *)
    destruct (mem id (seen s)) eqn:Es; [discriminate H|]. inversion H; subst s'; clear H.
    assert (H0 : n_alloc id pre = 0).
    { destruct (Nat.eq_dec (n_alloc id pre) 0); [assumption|]. assert (mem id (seen s) = true) by (apply I2; lia). congruence. }
    assert (Hcount : forall x, n_alloc x (pre ++ [EvAlloc id sz]) = n_alloc x pre + (if Nat.eqb id x then 1 else 0) /\
                               n_free x (pre ++ [EvAlloc id sz]) = n_free x pre).
    { intros x. destruct (Hc x) as [Ca Cf]. cbn [is_alloc is_free] in *. lia. }
    unfold inv; cbn [live seen refused]. split; [|split; [|split]].
    + intros x. rewrite mem_cons. destruct (Hcount x) as [-> ->]. destruct (I3 x) as [Ha Hf]. specialize (I1 x).
      rewrite (Nat.eqb_sym x id). destruct (Nat.eqb_spec id x) as [->|Hne]; cbn [orb]; [|rewrite I1; lia].
      split; [intros _; lia | reflexivity].
    + intros x. rewrite mem_cons. destruct (Hcount x) as [-> _]. specialize (I2 x).
      rewrite (Nat.eqb_sym x id). destruct (Nat.eqb_spec id x) as [->|Hne]; cbn [orb]; [|rewrite I2; lia].
      split; [intros _; lia | reflexivity].
    + intros x. destruct (Hcount x) as [-> ->]. destruct (I3 x). destruct (Nat.eqb_spec id x) as [->|]; lia.
    + rewrite Hr. cbn [is_refuse]. rewrite orb_false_r. exact I4.
  - (* refuse *)
    inversion H; subst s'; clear H. apply (inv_ext pre _ s); auto.
    + intros x. destruct (Hc x); cbn [is_alloc is_free] in *; lia.
    + cbn [refused]. rewrite Hr. cbn. rewrite orb_true_r. reflexivity.
  - (* free *)
    destruct (mem id (live s)) eqn:El; [|discriminate H]. inversion H; subst s'; clear H.
    apply I1 in El. destruct El as [Ea Ef].
    assert (Hcount : forall x, n_alloc x (pre ++ [EvFree id]) = n_alloc x pre /\
                               n_free x (pre ++ [EvFree id]) = n_free x pre + (if Nat.eqb id x then 1 else 0)).
    { intros x. destruct (Hc x) as [Ca Cf]. cbn [is_alloc is_free] in *. lia. }
    unfold inv; cbn [live seen refused]. split; [|split; [|split]].
    + intros x. rewrite mem_filter. destruct (Hcount x) as [-> ->]. specialize (I1 x). destruct (I3 x).
      destruct (Nat.eqb_spec id x) as [->|Hne]; cbn [negb andb]; [split; [discriminate | lia]|]. rewrite I1. lia.
    + intros x. destruct (Hcount x) as [-> _]. apply I2.
    + intros x. destruct (Hcount x) as [-> ->]. destruct (I3 x). destruct (Nat.eqb_spec id x) as [->|]; lia.
    + rewrite Hr. cbn [is_refuse]. rewrite orb_false_r. exact I4.
  - discriminate H.
  - (* ret true *)
    destruct (refused s) eqn:Er; [discriminate H|]. inversion H; subst s'; clear H. apply (inv_ext pre _ s); auto.
    + intros x. destruct (Hc x); cbn [is_alloc is_free] in *; lia.
    + rewrite Hr. cbn. rewrite orb_false_r. rewrite Er. exact I4.
  - (* ret false *)
    destruct (live s) eqn:El; [|discriminate H]. inversion H; subst s'; clear H. apply (inv_ext pre _ s); auto.
    + intros x. destruct (Hc x); cbn [is_alloc is_free] in *; lia.
    + rewrite Hr. cbn. rewrite orb_false_r. exact I4.
  - (* free done *)
    destruct (live s) eqn:El; [|discriminate H]. inversion H; subst s'; clear H. apply (inv_ext pre _ s); auto.
    + intros x. destruct (Hc x); cbn [is_alloc is_free] in *; lia.
    + rewrite Hr. cbn. rewrite orb_false_r. exact I4.
Qed.

Lemma inv0 : inv [] mon0.
Proof. unfold inv, mon0; cbn. repeat split; intros; try discriminate; try lia. Qed.

(* running from a state that fits the prefix: every event in the remainder is accepted in a fitting state *)
Lemma run_split : forall evs pre s sf, inv pre s -> run s evs = Some sf ->
  forall mid e post, evs = mid ++ e :: post ->
  exists s1 s2, inv (pre ++ mid) s1 /\ step s1 e = Some s2.
Proof.
  induction evs as [|x t IH]; intros pre s sf I H mid e post E.
  - destruct mid; discriminate E.
  - cbn [run] in H. destruct (step s x) as [s'|] eqn:Es; [|discriminate H].
    destruct mid as [|m mid].
    + cbn in E. inversion E; subst. exists s, s'. rewrite app_nil_r. auto.
    + cbn in E. inversion E; subst.
      destruct (IH (pre ++ [m]) s' sf (step_inv _ _ _ _ I Es) H mid e post eq_refl) as (s1 & s2 & I1 & S1).
      exists s1, s2. rewrite <- app_assoc in I1. auto.
Qed.

Theorem monitor_sound : forall evs, monitor evs = true -> discipline evs.
Proof.
  intros evs H. unfold monitor in H. destruct (run mon0 evs) as [sf|] eqn:R; [|discriminate H].
  pose proof (fun mid e post E => run_split evs [] mon0 sf inv0 R mid e post E) as Sp. cbn [app] in Sp.
  constructor.
  - intros Hin. apply in_split in Hin. destruct Hin as (pre & post & E).
    destruct (Sp pre _ post E) as (s1 & s2 & _ & S). discriminate S.
  - intros pre id sz post E. destruct (Sp pre _ post E) as (s1 & s2 & (I1 & I2 & I3 & I4) & S). cbn [step] in S.
    destruct (mem id (seen s1)) eqn:Em; [discriminate S|].
    destruct (Nat.eq_dec (n_alloc id pre) 0); [assumption|]. assert (mem id (seen s1) = true) by (apply I2; lia). congruence.
  - intros pre id post E. destruct (Sp pre _ post E) as (s1 & s2 & (I1 & _) & S). cbn [step] in S.
    destruct (mem id (live s1)) eqn:Em; [|discriminate S]. apply I1. exact Em.
  - intros pre post E id. destruct (Sp pre _ post E) as (s1 & s2 & I & S). cbn [step] in S.
    destruct (live s1) eqn:El; [|discriminate S]. exact (live_nil_balanced pre s1 I El id).
  - intros pre post E. destruct (Sp pre _ post E) as (s1 & s2 & (_ & _ & _ & I4) & S). cbn [step] in S.
    destruct (refused s1) eqn:Er; [discriminate S|]. congruence.
  - intros pre post E id. destruct (Sp pre _ post E) as (s1 & s2 & I & S). cbn [step] in S.
    destruct (live s1) eqn:El; [|discriminate S]. exact (live_nil_balanced pre s1 I El id).
Qed.

(* the monitor is not vacuous: the two runs of harness/FORMAT.md's example are accepted, a leak, a double
   free and a success after a refusal are not *)
Example ledger_accepts :
  monitor [EvAlloc 0 152; EvAlloc 1 48; EvAlloc 2 301; EvRet true; EvFree 2; EvFree 1; EvFree 0; EvFreeDone] = true /\
  monitor [EvAlloc 0 152; EvAlloc 1 48; EvRefuse 2 301; EvFree 1; EvFree 0; EvRet false] = true.
Proof. split; reflexivity. Qed.
Example ledger_rejects :
  monitor [EvAlloc 0 152; EvAlloc 1 48; EvRefuse 2 301; EvFree 1; EvRet false] = false /\
  monitor [EvAlloc 0 8; EvRet true; EvFree 0; EvFree 0; EvFreeDone] = false /\
  monitor [EvAlloc 0 8; EvRefuse 1 8; EvRet true; EvFree 0; EvFreeDone] = false /\
  monitor [EvAlloc 0 8; EvRet true; EvBadFree; EvFree 0; EvFreeDone] = false.
Proof. repeat split; reflexivity. Qed.

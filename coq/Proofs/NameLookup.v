(* C14, name lookups: the binary search of the three ..._by_name functions finds exactly the
   names of a table that is strictly ascending in strcmp order. *)
From Coq Require Import ZArith List Bool Lia Arith Sorted Permutation.
From PBC Require Import Base.CInt GenModel.Gen GenModel.LookupModel Proofs.SortLemmas.
Import ListNotations.

Ltac Zify.zify_post_hook ::= Z.div_mod_to_equations.

Definition slt (a b : str) : Prop := str_ltb a b = true.

Lemma strcmp_eq : forall a b, strcmp a b = Eq <-> a = b.
Proof.
  intros a b. unfold strcmp. destruct (str_eqb a b) eqn:E.
  - split; [intros _; apply str_eqb_eq; exact E | reflexivity].
  - destruct (str_ltb a b); split; try discriminate; intros ->;
      (assert (H : str_eqb b b = true) by (apply str_eqb_eq; reflexivity); congruence).
Qed.
Lemma strcmp_lt : forall a b, strcmp a b = Lt -> slt a b.
Proof. intros a b. unfold strcmp, slt. destruct (str_eqb a b); [discriminate|]. destruct (str_ltb a b); [reflexivity | discriminate]. Qed.
Lemma strcmp_gt : forall a b, strcmp a b = Gt -> slt b a.
Proof.
  intros a b. unfold strcmp, slt. destruct (str_eqb a b) eqn:E; [discriminate|]. destruct (str_ltb a b) eqn:L; [discriminate|]. intros _.
  destruct (str_ltb b a) eqn:L2; [reflexivity|]. exfalso.
  assert (a = b) by (apply str_ltb_total; assumption). subst b.
  assert (H : str_eqb a a = true) by (apply str_eqb_eq; reflexivity). congruence.
Qed.

Lemma sorted_nth : forall names, StronglySorted slt names ->
  forall i j, (i < j < length names)%nat -> slt (nth i names []) (nth j names []).
Proof.
  intros names H. induction H as [|a t Ht IH Ha]; intros i j Hij; [cbn in Hij; lia|].
  destruct j as [|j]; [lia|]. destruct i as [|i]; cbn [nth].
  - rewrite Forall_forall in Ha. apply Ha. apply nth_In. cbn [length] in Hij. lia.
  - apply IH. cbn [length] in Hij. lia.
Qed.

Lemma slt_irrefl : forall a, ~ slt a a.
Proof. intros a H. unfold slt in H. rewrite str_ltb_irrefl in H. discriminate H. Qed.
Lemma slt_trans : forall a b c, slt a b -> slt b c -> slt a c.
Proof. intros a b c. apply str_ltb_trans. Qed.

Section Search.
Variable names : list str.
Hypothesis Hs : StronglySorted slt names.

(* the search on the window [start, start+count): Some p iff names[p] = key for the (unique) p in it *)
Lemma search_window : forall fuel key start count,
  (count < fuel)%nat -> (start + count <= length names)%nat ->
  (forall p, (p < start \/ start + count <= p)%nat -> (p < length names)%nat -> nth p names [] <> key) ->
  match name_search_from fuel names key start count with
  | Some p => (p < length names)%nat /\ nth p names [] = key
  | None => forall p, (p < length names)%nat -> nth p names [] <> key
  end.
Proof.
  induction fuel as [|fuel IH]; intros key start count Hf Hw Hout; [lia|].
  cbn [name_search_from].
  destruct (Nat.ltb_spec 1 count) as [Hc|Hc].
  - set (mid := (start + count / 2)%nat).
    assert (Hmid : (start <= mid < start + count)%nat).
    { unfold mid. pose proof (Nat.div_mod count 2 ltac:(lia)) as Hd. pose proof (Nat.mod_upper_bound count 2 ltac:(lia)) as Hm.
      set (q := (count / 2)%nat) in *. clearbody q. lia. }
    destruct (strcmp (nth mid names []) key) eqn:Ec.
    + apply strcmp_eq in Ec. split; [lia | exact Ec].
    + apply strcmp_lt in Ec. apply IH; [lia | lia|].
      intros p Hp Hlen Heq. destruct (Nat.lt_ge_cases p start) as [Hlo|Hge]; [apply (Hout p); auto|].
      destruct (Nat.lt_ge_cases p (mid + 1)) as [Hle|Hhi].
      * (* start <= p <= mid : names[p] <= names[mid] < key *)
        destruct (Nat.eq_dec p mid) as [->|Hne]; [rewrite Heq in Ec; exact (slt_irrefl _ Ec)|].
        assert (slt (nth p names []) (nth mid names [])) by (apply sorted_nth; [exact Hs | lia]).
        rewrite Heq in H. exact (slt_irrefl _ (slt_trans _ _ _ H Ec)).
      * apply (Hout p); [right; lia | exact Hlen | exact Heq].
    + apply strcmp_gt in Ec. apply IH; [lia | lia|].
      intros p Hp Hlen Heq. destruct (Nat.lt_ge_cases p start) as [Hlo|Hge]; [apply (Hout p); auto|].
      destruct (Nat.lt_ge_cases p (start + count)) as [Hin|Hhi]; [|apply (Hout p); [right; lia | exact Hlen | exact Heq]].
      (* mid <= p < start+count : key < names[mid] <= names[p] *)
      destruct (Nat.eq_dec p mid) as [->|Hne]; [rewrite Heq in Ec; exact (slt_irrefl _ Ec)|].
      assert (slt (nth mid names []) (nth p names [])) by (apply sorted_nth; [exact Hs | lia]).
      rewrite Heq in H. exact (slt_irrefl _ (slt_trans _ _ _ Ec H)).
  - destruct (Nat.eqb_spec count 0) as [H0|H0].
    + intros p Hlen. apply Hout; [lia | exact Hlen].
    + assert (count = 1)%nat by lia. subst count.
      destruct (strcmp (nth start names []) key) eqn:Ec.
      * apply strcmp_eq in Ec. split; [lia | exact Ec].
      * intros p Hlen Heq. destruct (Nat.eq_dec p start) as [->|Hne].
        -- apply strcmp_lt in Ec. rewrite Heq in Ec. exact (slt_irrefl _ Ec).
        -- apply (Hout p); [lia | exact Hlen | exact Heq].
      * intros p Hlen Heq. destruct (Nat.eq_dec p start) as [->|Hne].
        -- apply strcmp_gt in Ec. rewrite Heq in Ec. exact (slt_irrefl _ Ec).
        -- apply (Hout p); [lia | exact Hlen | exact Heq].
Qed.

(* every name in the table is found at its slot, every other string is rejected *)
Theorem name_search_correct : forall key,
  match name_search names key with
  | Some p => (p < length names)%nat /\ nth p names [] = key
  | None => ~ In key names
  end.
Proof.
  intros key. unfold name_search.
  pose proof (search_window (S (length names)) key 0 (length names) ltac:(lia) ltac:(lia) ltac:(intros; lia)) as H.
  destruct (name_search_from (S (length names)) names key 0 (length names)); [exact H|].
  intros Hin. destruct (In_nth _ _ [] Hin) as (p & Hp & Heq). exact (H p Hp Heq).
Qed.

Corollary name_search_finds : forall p, (p < length names)%nat -> name_search names (nth p names []) = Some p.
Proof.
  intros p Hp. pose proof (name_search_correct (nth p names [])) as H.
  destruct (name_search names (nth p names [])) as [q|].
  - destruct H as [Hq Heq]. f_equal.
    destruct (Nat.lt_trichotomy q p) as [Hlt|[->|Hgt]]; [|reflexivity|].
    + pose proof (sorted_nth names Hs q p ltac:(lia)) as H1. rewrite Heq in H1. exfalso. exact (slt_irrefl _ H1).
    + pose proof (sorted_nth names Hs p q ltac:(lia)) as H1. rewrite Heq in H1. exfalso. exact (slt_irrefl _ H1).
  - exfalso. apply H. apply nth_In. exact Hp.
Qed.
End Search.

(* Range of the results of parse_tag_and_wiretype (Gen/LeafC.v).

   Whenever the key reader reports a non-zero number of consumed bytes, the
   field number it stored fits in 32 bits and the wire type is below 8.  This
   holds for ARBITRARY buffer contents (no [bytes d] hypothesis is needed, the
   elements of [d] may be any integers) and does not depend on the buffer being
   at least [len] long: the only thing needed about [len] is [0 <= len], which
   bounds the number of loop iterations by the fuel.

   [used <> 0] is necessary: with [used = 0] the function hands back the
   incoming [tag_out] / [wiretype_out] (or a partially filled wire type), which
   are arbitrary. *)
From Coq Require Import ZArith List Bool Lia ZifyBool.
From PBC Require Import Base.CInt Base.Bits Gen.LeafC Proofs.LeafSafe.
Import ListNotations.
Local Open Scope Z_scope.

Ltac Zify.zify_post_hook ::= Z.div_mod_to_equations.

(* ------------------------------------------------------------------ *)
(* Bit facts                                                           *)

Lemma lor_bound : forall n a b, 0 <= a < 2 ^ n -> 0 <= b < 2 ^ n ->
  0 <= Z.lor a b < 2 ^ n.
Proof.
  intros n a b Ha Hb.
  assert (H0 : 0 <= Z.lor a b) by (apply Z.lor_nonneg; lia).
  split; [exact H0|].
  destruct (Z.eq_dec (Z.lor a b) 0) as [E|NE]; [lia|].
  destruct (Z_lt_le_dec 0 n) as [Hn|Hn].
  - apply Z.log2_lt_pow2; [lia|].
    rewrite Z.log2_lor by lia.
    apply Z.max_lub_lt.
    + destruct (Z.eq_dec a 0) as [->|Na]; [exact Hn|]. apply Z.log2_lt_pow2; lia.
    + destruct (Z.eq_dec b 0) as [->|Nb]; [exact Hn|]. apply Z.log2_lt_pow2; lia.
  - exfalso. apply NE.
    assert (P : 2 ^ n <= 1).
    { destruct (Z.eq_dec n 0) as [->|Nn]; [reflexivity|].
      rewrite Z.pow_neg_r by lia. lia. }
    assert (a = 0) as -> by lia. assert (b = 0) as -> by lia. reflexivity.
Qed.

Lemma lor_u32_bound : forall a x, 0 <= a < 4294967296 ->
  0 <= Z.lor a (u32 x) < 4294967296.
Proof.
  intros a x Ha. pose proof (u32_range x) as Hx.
  change 4294967296 with (2 ^ 32) in *. apply lor_bound; assumption.
Qed.

Lemma land7_range : forall b, 0 <= Z.land b 7 < 8.
Proof.
  intros b. change 7 with (Z.ones 3). rewrite Z.land_ones by lia.
  change (2 ^ 3) with 8. lia.
Qed.

Lemma wiretype_range : forall b, 0 <= u8 (Z.land b 7) < 8.
Proof.
  intros b. pose proof (land7_range b) as H.
  rewrite u8_small by lia. exact H.
Qed.

(* ------------------------------------------------------------------ *)
(* The loop invariant: the accumulated field number stays within 32 bits *)

Section Range.
Variable len : Z.
Hypothesis Hlen : 0 <= len.

Let max_rv := u32 (if len >? 5 then 5 else len).

Lemma max_rv_le5 : 0 <= max_rv <= 5.
Proof. unfold max_rv, u32. destruct (len >? 5) eqn:E; lia. Qed.

Definition rng_I (st : Z * Z * Z * Z) : Prop :=
  let '(rv, tag, shift, tag_out) := st in 1 <= rv /\ 0 <= tag < 4294967296.
Definition rng_m (st : Z * Z * Z * Z) : nat :=
  let '(rv, tag, shift, tag_out) := st in Z.to_nat (max_rv - rv).

Theorem parse_tag_range_gen : forall d t w used tag wt,
  parse_tag_and_wiretype len d t w = (used, tag, wt) -> used <> 0 ->
  0 <= tag < 4294967296 /\ 0 <= wt < 8.
Proof.
  intros d t w used tag wt. pose proof max_rv_le5 as HM.
  unfold parse_tag_and_wiretype. cbv zeta. fold max_rv.
  destruct (Z.land (rd d 0) 248 =? 0); [intros E; inversion E; congruence|].
  pose proof (wiretype_range (rd d 0)) as HW.
  destruct (Z.land (rd d 0) 128 =? 0).
  { intros E _; inversion E; subst. split; [apply u32_range|exact HW]. }
  match goal with |- context [@while_ _ _ _ ?b ?s] => set (body := b); set (s0 := s) end.
  assert (Hstep : forall s s', rng_I s -> body s = Continue s' -> rng_I s' /\ (rng_m s' < rng_m s)%nat).
  { intros [[[rv tg] shift] tout] s' [Hrv Htg] Hb.
    cbv beta iota zeta delta [body] in Hb.
    destruct (Z.ltb_spec rv max_rv) as [Hlt|Hge]; [|discriminate Hb].
    destruct (negb (Z.land (rd d rv) 128 =? 0)).
    - inversion Hb; subst s'; clear Hb. cbv beta iota delta [rng_I rng_m].
      rewrite (u32_id (rv + 1)) by lia.
      pose proof (lor_u32_bound tg (Z.shiftl (u32 (Z.land (rd d rv) 127)) shift) Htg).
      lia.
    - destruct (_ =? 0) in Hb; discriminate Hb. }
  set (Q := fun r : Z * Z * Z =>
              fst (fst r) <> 0 -> 0 <= snd (fst r) < 4294967296 /\ snd r = u8 (Z.land (rd d 0) 7)).
  assert (Hret : forall s r, rng_I s -> body s = Return r -> Q r).
  { intros [[[rv tg] shift] tout] r [Hrv Htg] Hb.
    cbv beta iota zeta delta [body] in Hb.
    destruct (Z.ltb_spec rv max_rv) as [Hlt|Hge]; [|discriminate Hb].
    destruct (negb (Z.land (rd d rv) 128 =? 0)); [discriminate Hb|].
    destruct (_ =? 0) in Hb; inversion Hb; subst r; unfold Q; cbn [fst snd].
    - congruence.
    - intros _. split; [|reflexivity]. apply lor_u32_bound. exact Htg. }
  assert (H0 : rng_I s0).
  { subst s0; cbv beta iota delta [rng_I]. split; [lia|apply u32_range]. }
  assert (Hm0 : (rng_m s0 < 8)%nat) by (subst s0; cbv beta iota delta [rng_m]; lia).
  pose proof (while_inv body rng_I rng_m Hstep (fun _ => True) Q (fun _ _ _ _ => Logic.I) Hret 8 s0 H0 Hm0) as W.
  destruct (while_ 8 body s0) as [[[[? ?] ?] ?]|r|]; [| |contradiction].
  - intros E; inversion E; congruence.
  - intros E Hu; subst r. unfold Q in W. cbn [fst snd] in W.
    destruct (W Hu) as [W1 W2]. split; [exact W1|]. rewrite W2. exact HW.
Qed.
End Range.

(* The statement as requested; [bytes d] turned out to be unnecessary. *)
Lemma parse_tag_range : forall len d t w used tag wt,
  1 <= len <= LeafSafe.zlen d ->
  parse_tag_and_wiretype len d t w = (used, tag, wt) -> used <> 0 ->
  0 <= tag < 4294967296 /\ 0 <= wt < 8.
Proof.
  intros len d t w used tag wt Hlen. apply parse_tag_range_gen. lia.
Qed.

(* Same, with the (redundant) [bytes d] hypothesis, for drop-in use. *)
Corollary parse_tag_range_bytes : forall len d t w used tag wt,
  1 <= len <= LeafSafe.zlen d -> LeafSafe.bytes d ->
  parse_tag_and_wiretype len d t w = (used, tag, wt) -> used <> 0 ->
  0 <= tag < 4294967296 /\ 0 <= wt < 8.
Proof. intros len d t w used tag wt Hlen _. apply parse_tag_range. exact Hlen. Qed.

Print Assumptions parse_tag_range_gen.
Print Assumptions parse_tag_range.
Print Assumptions parse_tag_range_bytes.

(* Concatenation of two encoded messages, part 1: the scan of the second message's field packages from the
   state the scan of the first one has left (element counters are the sums: [scan_quads_from]), the allocation
   pass on the summed counters ([alloc_cslots]), a repeated field's members parsed into an array that already
   holds elements and has spare capacity ([rep_shift]), and the parse of the first message's members into
   the slots allocated for both ([parse_quads_wide]). *)
From Coq Require Import ZArith List Bool Lia ZifyBool.
From PBC Require Import Base.CInt Base.Bits Gen.LeafC Spec.Wire
     Impl.Desc Impl.Mem Impl.Enc Impl.Pack Impl.WF Impl.Unpack Impl.Canon
     Proofs.LeafEnc Proofs.EncLemmas Proofs.LeafDec Proofs.SizePack Proofs.ScanRec Proofs.ScanRecs
     Proofs.CellRT2 Proofs.FieldRT Proofs.FieldPkg Proofs.MsgRT Proofs.MsgRT2.
Import ListNotations.
Local Open Scope Z_scope.

Ltac Zify.zify_post_hook ::= Z.div_mod_to_equations.

(* the slot of field f during the scan, when n elements have been counted *)
Definition cslot (f : field) (n : Z) : slot :=
  match f_label f with LRepeated => SRep n 0 None | _ => init_slot f end.

(* ... and after the allocation pass *)
Definition aslot (f : field) (n : Z) : slot :=
  match f_label f with
  | LRepeated => if n =? 0 then SRep 0 0 None else SRep 0 n (Some [])
  | _ => init_slot f
  end.

Definition elems (a : option (list sval)) : list sval := match a with Some l => l | None => [] end.

(* the slot s1 of the earlier message once its members have been parsed into an array allocated for n2 more *)
Definition mid (s1 : slot) (n2 : Z) : slot :=
  match s1 with
  | SRep n1 _ a1 => if n1 + n2 =? 0 then s1 else SRep n1 (n1 + n2) (Some (elems a1))
  | _ => s1
  end.

Lemma cslot_init : forall f, cslot f 0 = init_slot f.
Proof. intros f. unfold cslot, init_slot. destruct (f_label f); reflexivity. Qed.

Lemma counted_cslot : forall q, kind_ok (q_f q) (q_s q) -> counted q = cslot (q_f q) (slot_n (q_s q)).
Proof.
  intros [[[f s] F] r] K. unfold counted, cslot, q_f, q_s, kind_ok in *. cbn [fst snd] in *.
  destruct s as [h v|n c a|g]; cbn [slot_n].
  - unfold init_slot. destruct (f_label f); try reflexivity; contradiction.
  - destruct (f_label f); try contradiction. reflexivity.
  - unfold init_slot. destruct (f_label f); try reflexivity; contradiction.
Qed.

Lemma alloc_init_aslot : forall f s, kind_ok f s -> alloc_init f s = aslot f (slot_n s).
Proof.
  intros f s K. unfold kind_ok, alloc_init, aslot, init_slot in *.
  destruct s as [h v|n c a|g]; cbn [slot_n].
  - destruct (f_label f); try contradiction;
      (destruct (f_quant f) as [| |g|] eqn:Eq; try reflexivity; exfalso; exact (K g eq_refl)).
  - destruct (f_label f); try contradiction. destruct (n =? 0); [reflexivity|]. rewrite u32_small by lia. reflexivity.
  - destruct (f_label f); try contradiction; rewrite K; reflexivity.
Qed.

(* ---------- the scan of a run of field packages from arbitrary element counters *)
Section ScanFrom.
Variable nenv : nat.
Variable E : env.
Variable usub : nat -> list Z -> res msg.
Variable md : mdesc.
Hypothesis D : desc_ok nenv md = true.
Variable um : list (Z * sval).
Variable A : Type.
Variable qf : A -> quad.      (* the package *)
Variable nf : A -> Z.         (* elements counted so far *)

Lemma scan_quads_from : forall (l : list A) pre_f pre_s pre_b st Ub,
  md_fields md = pre_f ++ map (fun t => q_f (qf t)) l ->
  length pre_s = length pre_f -> length pre_b = length pre_f ->
  (forall k t, nth_error l k = Some t ->
     fpkg_with E usub md (q_r (qf t)) (length pre_f + k) (q_f (qf t)) (q_s (qf t)) um (q_F (qf t))) ->
  (forall t, In t l -> kind_ok (q_f (qf t)) (q_s (qf t)) /\ 0 <= nf t < 268435456) ->
  st_slots st = pre_s ++ map (fun t => cslot (q_f (qf t)) (nf t)) l ->
  st_bitmap st = pre_b ++ map (fun t => label_eqb (f_label (q_f (qf t))) LRequired) l ->
  st_at st = concat (map (fun t => q_F (qf t)) l) ++ Ub -> cache_ok md st -> zlen (st_at st) < 4294967296 ->
  exists st',
    (forall fuel, scan_loop (length (concat (map (fun t => q_r (qf t)) l)) + fuel) md st = scan_loop fuel md st') /\
    st_at st' = Ub /\
    st_members st' = rev (all_members (length pre_f) (map qf l)) ++ st_members st /\
    st_nunk st' = st_nunk st /\ cache_ok md st' /\
    st_slots st' = pre_s ++ map (fun t => cslot (q_f (qf t)) (nf t + slot_n (q_s (qf t)))) l /\
    st_bitmap st' = st_bitmap st.
Proof.
  induction l as [|t l IH]; intros pre_f pre_s pre_b st Ub Hfs Hls Hlb Hpk Hkind Hslots Hbm Hat Hc Hlen.
  - exists st. cbn [map concat length app all_members rev Nat.add] in *.
    split; [intros fuel; reflexivity|]. repeat split; auto.
  - destruct (qf t) as [[[f s] F] recs] eqn:Eq.
    pose proof (Hpk 0%nat t eq_refl) as P0. rewrite Nat.add_0_r, Eq in P0.
    unfold q_r, q_f, q_s, q_F in P0. cbn [fst snd] in P0.
    destruct P0 as (HF & Hok & Hcnt & Hreq & _).
    destruct (Hkind t (or_introl eq_refl)) as [K Hn0]. rewrite Eq in K. unfold q_f, q_s in K. cbn [fst snd] in K.
    set (i := length pre_f).
    assert (Hn : nth_error (md_fields md) i = Some f).
    { rewrite Hfs. cbn [map]. rewrite Eq. unfold q_f at 1. cbn [fst]. apply nth_error_app_mid. }
    cbn [map concat] in Hat. rewrite Eq in Hat. unfold q_F at 1 in Hat. cbn [fst snd] in Hat.
    cbn [map] in Hslots, Hbm. rewrite Eq in Hslots, Hbm. unfold q_f at 1 in Hslots. unfold q_f at 1 in Hbm. cbn [fst] in Hslots, Hbm.
    set (tailF := concat (map (fun t0 => q_F (qf t0)) l)) in *.
    assert (Hat' : st_at st = concat (map (rec_bytes (f_id f)) recs) ++ (tailF ++ Ub)).
    { rewrite Hat, HF, <- app_assoc. reflexivity. }
    assert (Hstep : exists st1,
              (forall fuel, scan_loop (length recs + fuel) md st = scan_loop fuel md st1) /\
              st_at st1 = tailF ++ Ub /\
              st_members st1 = rev (members_of f i recs) ++ st_members st /\
              st_nunk st1 = st_nunk st /\ cache_ok md st1 /\
              st_slots st1 = (pre_s ++ [cslot f (nf t + slot_n s)]) ++ map (fun t0 => cslot (q_f (qf t0)) (nf t0)) l /\
              st_bitmap st1 = st_bitmap st).
    { destruct (label_eqb (f_label f) LRepeated) eqn:Erep.
      - assert (El : f_label f = LRepeated) by (destruct (f_label f); try discriminate Erep; reflexivity).
        unfold kind_ok in K. rewrite El in K. destruct s as [|n c a|]; try contradiction. cbn [slot_n] in *.
        destruct (Hcnt El) as (cs & Hcs & Hsum). cbn [slot_n] in Hsum.
        assert (Hslot : nth_error (st_slots st) i = Some (SRep (nf t) 0 None)).
        { rewrite Hslots. unfold cslot at 1. rewrite El. subst i. rewrite <- Hls. apply nth_error_app_mid. }
        pose proof (scan_records_repeated nenv md D recs cs st i f (tailF ++ Ub) (nf t) 0 None
                      Hn Erep Hat' Hok Hcs Hlen Hc Hslot ltac:(lia) ltac:(lia)) as Hscan.
        rewrite Hsum in Hscan.
        exists (after_recs st i f recs (tailF ++ Ub) (set_nth (st_slots st) i (SRep (nf t + n) 0 None))).
        split; [exact Hscan|].
        assert (Hsl' : set_nth (st_slots st) i (SRep (nf t + n) 0 None) =
                       (pre_s ++ [cslot f (nf t + n)]) ++ map (fun t0 => cslot (q_f (qf t0)) (nf t0)) l).
        { rewrite Hslots. subst i. rewrite <- Hls. rewrite set_nth_app_mid. rewrite <- app_assoc.
          unfold cslot at 2. rewrite El. reflexivity. }
        destruct recs as [|r recs'].
        + cbn [after_recs members_of map rev app].
          inversion Hcs; subst cs. cbn [fold_right] in Hsum. subst n.
          repeat split; auto.
          rewrite Hslots. rewrite Z.add_0_r. rewrite <- app_assoc. reflexivity.
        + cbn [after_recs st_at st_members st_nunk st_slots st_bitmap st_last st_last_idx].
          split; [reflexivity|]. split; [reflexivity|]. split; [reflexivity|]. split.
          { unfold cache_ok. cbn [st_last st_last_idx]. split; [reflexivity|]. apply nth_error_Some. rewrite Hn. discriminate. }
          split; [exact Hsl'|].
          rewrite El. cbn [label_eqb]. reflexivity.
      - pose proof (scan_records_single nenv md D recs st i f (tailF ++ Ub) Hn Erep Hat' Hok Hlen Hc) as Hscan.
        exists (after_recs st i f recs (tailF ++ Ub) (st_slots st)).
        split; [exact Hscan|].
        assert (Hcs0 : forall a b, cslot f a = cslot f b).
        { intros a b. unfold cslot. destruct (f_label f); try reflexivity. discriminate Erep. }
        assert (Hsl' : st_slots st = (pre_s ++ [cslot f (nf t + slot_n s)]) ++ map (fun t0 => cslot (q_f (qf t0)) (nf t0)) l).
        { rewrite Hslots, <- app_assoc. cbn [app]. rewrite (Hcs0 (nf t) (nf t + slot_n s)). reflexivity. }
        destruct recs as [|r recs'].
        + cbn [after_recs members_of map rev app]. repeat split; auto.
        + cbn [after_recs st_at st_members st_nunk st_slots st_bitmap st_last st_last_idx].
          split; [reflexivity|]. split; [reflexivity|]. split; [reflexivity|]. split.
          { unfold cache_ok. cbn [st_last st_last_idx]. split; [reflexivity|]. apply nth_error_Some. rewrite Hn. discriminate. }
          split; [exact Hsl'|].
          destruct (label_eqb (f_label f) LRequired) eqn:Er; [|reflexivity].
          rewrite Hbm. subst i. rewrite <- Hlb. rewrite set_nth_app_mid. reflexivity. }
    destruct Hstep as (st1 & Hs1 & Hat1 & Hm1 & Hu1 & Hc1 & Hsl1 & Hb1).
    assert (Hlen1 : zlen (st_at st1) < 4294967296).
    { rewrite Hat1. rewrite Hat in Hlen. rewrite !zlen_app in *. pose proof (zlen_nonneg _ F). lia. }
    destruct (IH (pre_f ++ [f]) (pre_s ++ [cslot f (nf t + slot_n s)]) (pre_b ++ [label_eqb (f_label f) LRequired]) st1 Ub)
      as (st' & Hs' & Hat2 & Hm2 & Hu2 & Hc2 & Hsl2 & Hb2).
    + rewrite Hfs. cbn [map]. rewrite Eq. unfold q_f at 1. cbn [fst]. rewrite <- app_assoc. reflexivity.
    + rewrite !app_length. cbn [length]. lia.
    + rewrite !app_length. cbn [length]. lia.
    + intros k t' Ht'. rewrite app_length. cbn [length]. replace (length pre_f + 1 + k)%nat with (length pre_f + S k)%nat by lia.
      apply Hpk. exact Ht'.
    + intros t' Ht'. apply Hkind. right. exact Ht'.
    + exact Hsl1.
    + rewrite Hb1, Hbm. rewrite <- app_assoc. reflexivity.
    + exact Hat1.
    + exact Hc1.
    + exact Hlen1.
    + exists st'. split.
      { intros fuel. cbn [map concat]. rewrite Eq. unfold q_r at 1. cbn [snd]. rewrite app_length.
        rewrite <- Nat.add_assoc. rewrite Hs1. apply Hs'. }
      split; [exact Hat2|]. split.
      { rewrite Hm2, Hm1. cbn [map all_members]. rewrite Eq.
        unfold q_f, q_r. cbn [fst snd]. subst i.
        rewrite app_length. cbn [length]. replace (length pre_f + 1)%nat with (S (length pre_f)) by lia.
        rewrite rev_app_distr. rewrite <- app_assoc. reflexivity. }
      split; [rewrite Hu2; exact Hu1|]. split; [exact Hc2|]. split.
      { rewrite Hsl2. cbn [map]. rewrite Eq. unfold q_f at 3, q_s at 2. cbn [fst snd]. rewrite <- app_assoc. reflexivity. }
      rewrite Hb2. exact Hb1.
Qed.

End ScanFrom.

(* ---------- the allocation pass on counters *)
Lemma alloc_cslots : forall A (ff : A -> field) (nf : A -> Z) (l : list A),
  (forall t, In t l -> 0 <= nf t < 4294967296) ->
  alloc_slots (map ff l) (map (fun t => label_eqb (f_label (ff t)) LRequired) l) (map (fun t => cslot (ff t) (nf t)) l) =
  Ok (map (fun t => aslot (ff t) (nf t)) l).
Proof.
  intros A ff nf. induction l as [|t l IH]; intros H; [reflexivity|].
  cbn [map alloc_slots hd tl].
  assert (H1 : alloc_slot (ff t) (label_eqb (f_label (ff t)) LRequired) (cslot (ff t) (nf t)) = Ok (aslot (ff t) (nf t))).
  { pose proof (H t (or_introl eq_refl)) as Hn. unfold alloc_slot, cslot, aslot.
    destruct (f_label (ff t)) eqn:El; cbn [label_eqb]; try reflexivity.
    - destruct (f_default (ff t)); reflexivity.
    - destruct (nf t =? 0) eqn:E0; [|rewrite u32_small by lia; reflexivity].
      apply Z.eqb_eq in E0. rewrite E0. reflexivity. }
  rewrite H1. cbn [bind]. rewrite IH by (intros t' Ht'; apply H; right; exact Ht'). reflexivity.
Qed.

(* ---------- members of a repeated field parsed into an array that already holds elements *)
Section Shift.
Variable E : env.
Variable usub : nat -> list Z -> res msg.
Variable md : mdesc.

Lemma rep_shift : forall i f ms d slots u k n cap a R,
  nth_error (md_fields md) i = Some f -> f_label f = LRepeated ->
  Forall (fun sm => sm_field sm = Some i) ms ->
  nth_error slots i = Some (SRep n cap a) ->
  parse_members E usub md ms (Msg d slots u k) = Ok R ->
  exists n' a', nth_error (m_slots R) i = Some (SRep n' cap a') /\ n <= n' /\
    forall slotsW n0 c l0,
      nth_error slotsW i = Some (SRep (n0 + n) c (Some (l0 ++ elems a))) -> n0 + n' <= c ->
      parse_members E usub md ms (Msg d slotsW u k) =
      Ok (Msg d (set_nth slotsW i (SRep (n0 + n') c (Some (l0 ++ elems a')))) u k).
Proof.
  intros i f ms. induction ms as [|sm ms IH]; intros d slots u k n cap a R Hn El Hall Hs Hp.
  - cbn [parse_members] in Hp. inversion Hp; subst R. cbn [m_slots]. exists n, a. split; [exact Hs|]. split; [lia|].
    intros slotsW n0 c l0 HW _. cbn [parse_members]. rewrite (set_nth_same _ slotsW i _ HW). reflexivity.
  - inversion Hall as [|? ? Hsm Hall']; subst. cbn [parse_members] in Hp.
    destruct (parse_member E usub md sm (Msg d slots u k)) as [m1|e] eqn:E1; [|discriminate Hp]. cbn [bind] in Hp.
    assert (Hil : (i < length slots)%nat) by (apply nth_error_Some; rewrite Hs; discriminate).
    (* one member *)
    assert (Hone : exists vs, 0 <= zlen vs /\
              (forall s, nth_error s i = Some (SRep n cap a) -> parse_member E usub md sm (Msg d s u k) =
                 (do s' <- append_elems (SRep n cap a) vs; Ok (Msg d (set_nth s i s') u k))) /\
              (forall s n1 c1 l1, nth_error s i = Some (SRep n1 c1 (Some l1)) -> parse_member E usub md sm (Msg d s u k) =
                 (do s' <- append_elems (SRep n1 c1 (Some l1)) vs; Ok (Msg d (set_nth s i s') u k)))).
    { unfold parse_member in E1. rewrite Hsm, Hn, Hs, El in E1.
      destruct (packed_arrival f (sm_wt sm)) eqn:Epa.
      - destruct (parse_packed f sm) as [vs|e] eqn:Epp; [|discriminate E1]. exists vs.
        split; [apply zlen_nonneg|]. split.
        + intros s Hsi. unfold parse_member. rewrite Hsm, Hn, Hsi, El, Epa, Epp. reflexivity.
        + intros s n1 c1 l1 Hsi. unfold parse_member. rewrite Hsm, Hn, Hsi, El, Epa, Epp. reflexivity.
      - destruct (parse_required E usub f sm (VWord 0) false) as [v|e] eqn:Epr; [|discriminate E1]. exists [v].
        split; [apply zlen_nonneg|]. split.
        + intros s Hsi. unfold parse_member. rewrite Hsm, Hn, Hsi, El, Epa, Epr. reflexivity.
        + intros s n1 c1 l1 Hsi. unfold parse_member. rewrite Hsm, Hn, Hsi, El, Epa, Epr. reflexivity. }
    destruct Hone as (vs & Hvs & Hex & Hsh).
    rewrite (Hex slots Hs) in E1.
    destruct (append_elems (SRep n cap a) vs) as [s1|e] eqn:Eap; [|discriminate E1]. cbn [bind] in E1.
    inversion E1; subst m1; clear E1.
    assert (Hs1 : exists a1, s1 = SRep (n + zlen vs) cap a1 /\ elems a1 = elems a ++ vs).
    { unfold append_elems in Eap. destruct a as [l|].
      - destruct (n + zlen vs <=? cap); [|discriminate Eap]. inversion Eap. exists (Some (l ++ vs)). split; reflexivity.
      - destruct (zlen vs =? 0) eqn:Ez; [|discriminate Eap]. inversion Eap. exists None. apply Z.eqb_eq in Ez.
        split; [rewrite Ez, Z.add_0_r; reflexivity|]. destruct vs; [reflexivity | rewrite zlen_cons in Ez; pose proof (zlen_nonneg _ vs); lia]. }
    destruct Hs1 as (a1 & -> & Hel1).
    destruct (IH d (set_nth slots i (SRep (n + zlen vs) cap a1)) u k (n + zlen vs) cap a1 R Hn El Hall'
                (nth_error_set_nth _ slots i _ Hil) Hp) as (n' & a' & HR & Hle & Hshift).
    exists n', a'. split; [exact HR|]. split; [lia|].
    intros slotsW n0 c l0 HW Hc. cbn [parse_members].
    rewrite (Hsh slotsW _ _ _ HW). unfold append_elems.
    replace (n0 + n + zlen vs <=? c) with true by lia. cbn [bind].
    assert (HilW : (i < length slotsW)%nat) by (apply nth_error_Some; rewrite HW; discriminate).
    rewrite (Hshift (set_nth slotsW i (SRep (n0 + n + zlen vs) c (Some ((l0 ++ elems a) ++ vs)))) n0 c l0).
    + rewrite set_nth_set_nth. reflexivity.
    + rewrite nth_error_set_nth by exact HilW. rewrite Hel1, <- app_assoc. f_equal. f_equal. lia.
    + exact Hc.
Qed.

End Shift.

(* ---------- the members of the first message parsed into slots allocated for both *)
Section Wide.
Variable E : env.
Variable usub : nat -> list Z -> res msg.
Variable md : mdesc.
Variable um : list (Z * sval).
Variable A : Type.
Variable qf : A -> quad.
Variable nf : A -> Z.          (* how many more elements the array is allocated for *)

Lemma members_of_field : forall f i recs, Forall (fun sm => sm_field sm = Some i) (members_of f i recs).
Proof. intros f i recs. unfold members_of. induction recs as [|r recs IH]; cbn [map]; constructor; [reflexivity | exact IH]. Qed.

Lemma parse_quads_wide : forall (l : list A) pre_s unions d unk,
  (forall k t, nth_error l k = Some t -> nth_error (md_fields md) (length pre_s + k) = Some (q_f (qf t))) ->
  (forall k t, nth_error l k = Some t ->
     fpkg_with E usub md (q_r (qf t)) (length pre_s + k) (q_f (qf t)) (q_s (qf t)) um (q_F (qf t))) ->
  (forall t, In t l -> kind_ok (q_f (qf t)) (q_s (qf t)) /\ 0 <= nf t) ->
  (forall t g, In t l -> active (qf t) g -> nth_error unions g = Some (0, VWord 0)) ->
  (forall k1 k2 t1 t2 g, nth_error l k1 = Some t1 -> nth_error l k2 = Some t2 ->
     active (qf t1) g -> active (qf t2) g -> k1 = k2) ->
  parse_members E usub md (all_members (length pre_s) (map qf l))
    (Msg d (pre_s ++ map (fun t => aslot (q_f (qf t)) (slot_n (q_s (qf t)) + nf t)) l) unions unk) =
  Ok (Msg d (pre_s ++ map (fun t => mid (q_s (qf t)) (nf t)) l) (apply_unions um (map qf l) unions) unk).
Proof.
  induction l as [|t l IH]; intros pre_s unions d unk Hfn Hpk Hkind Hfresh Huniq.
  - cbn [all_members parse_members map apply_unions fold_left]. reflexivity.
  - cbn [all_members map]. rewrite (parse_members_app E usub md).
    set (i := length pre_s).
    set (rest := map (fun t0 => aslot (q_f (qf t0)) (slot_n (q_s (qf t0)) + nf t0)) l).
    pose proof (Hpk 0%nat t eq_refl) as P. rewrite Nat.add_0_r in P.
    pose proof (Hfn 0%nat t eq_refl) as Hn. rewrite Nat.add_0_r in Hn.
    destruct (Hkind t (or_introl eq_refl)) as [K Hnf].
    pose proof (fun g => Hfresh t g (or_introl eq_refl)) as Hfr0.
    pose proof (fun k' t' g (H' : nth_error l k' = Some t') => Huniq 0%nat (S k') t t' g eq_refl H') as Hun0.
    unfold active in Hfr0, Hun0.
    destruct (qf t) as [[[f s] F] recs] eqn:Eq.
    change (q_f (f, s, F, recs)) with f in *. change (q_s (f, s, F, recs)) with s in *.
    change (q_r (f, s, F, recs)) with recs in *. change (q_F (f, s, F, recs)) with F in *. fold i in P, Hn.
    destruct P as (_ & _ & _ & _ & _ & Hparse).
    set (unions' := match s, recs with
                    | SUnion g, _ :: _ => set_nth unions g (nth g um (0, VWord 0))
                    | _, _ => unions
                    end).
    assert (Hstep : parse_members E usub md (members_of f i recs)
                      (Msg d (pre_s ++ aslot f (slot_n s + nf t) :: rest) unions unk) =
                    Ok (Msg d (pre_s ++ mid s (nf t) :: rest) unions' unk)).
    { assert (Hdirect : aslot f (slot_n s + nf t) = alloc_init f s -> mid s (nf t) = s ->
                parse_members E usub md (members_of f i recs)
                  (Msg d (pre_s ++ aslot f (slot_n s + nf t) :: rest) unions unk) =
                Ok (Msg d (pre_s ++ mid s (nf t) :: rest) unions' unk)).
      { intros Ha Hm. rewrite Ha, Hm.
        rewrite (Hparse d (pre_s ++ alloc_init f s :: rest) unions unk).
        - subst i. rewrite set_nth_app_mid. reflexivity.
        - apply nth_error_app_mid.
        - intros g Hs Hr. apply (Hfr0 g). split; assumption. }
      destruct s as [h v|n1 c1 a1|g].
      - apply Hdirect; [|reflexivity]. rewrite (alloc_init_aslot _ _ K).
        unfold aslot. unfold kind_ok in K. destruct (f_label f); try reflexivity. contradiction.
      - assert (El : f_label f = LRepeated).
        { unfold kind_ok in K. destruct (f_label f); try contradiction. reflexivity. }
        assert (Hn1 : 0 <= n1 < 268435456) by (unfold kind_ok in K; rewrite El in K; exact K).
        cbn [slot_n mid]. unfold aslot. rewrite El.
        destruct (Z.eqb_spec (n1 + nf t) 0) as [E0|E0].
        + assert (n1 = 0) by lia. subst n1.
          pose proof (Hdirect) as Hd. cbn [slot_n mid] in Hd. unfold aslot in Hd. rewrite El in Hd.
          replace (0 + nf t =? 0) with true in Hd by lia. apply Hd; reflexivity.
        + (* the exact run, then the shift *)
          cbv iota.
          set (slotsX := pre_s ++ alloc_init f (SRep n1 c1 a1) :: rest).
          pose proof (Hparse d slotsX unions unk (nth_error_app_mid _ pre_s _ rest)
                        ltac:(intros g Hs; discriminate Hs)) as HX.
          assert (HsX : exists cap0 a0, nth_error slotsX i = Some (SRep 0 cap0 a0) /\ elems a0 = []).
          { subst slotsX i. rewrite nth_error_app_mid. cbn [alloc_init].
            destruct (n1 =? 0); [exists 0, None | exists (u32 n1), (Some [])]; split; reflexivity. }
          destruct HsX as (cap0 & a0 & HsX & Hel0).
          destruct (rep_shift E usub md i f (members_of f i recs) d slotsX unions unk 0 cap0 a0 _
                      Hn El (members_of_field _ _ _) HsX HX) as (n' & a' & HR & _ & Hshift).
          cbn [m_slots] in HR. subst slotsX i. rewrite set_nth_app_mid, nth_error_app_mid in HR.
          inversion HR; subst n' cap0 a'.
          pose proof (Hshift (pre_s ++ SRep 0 (n1 + nf t) (Some []) :: rest) 0 (n1 + nf t) []
                        ltac:(rewrite nth_error_app_mid, Hel0; reflexivity) ltac:(lia)) as Hfin.
          etransitivity; [exact Hfin|].
          rewrite set_nth_app_mid. cbn [app]. rewrite Z.add_0_l. subst unions'. reflexivity.
      - apply Hdirect; [|reflexivity]. rewrite (alloc_init_aslot _ _ K).
        unfold aslot. unfold kind_ok in K. destruct (f_label f); try reflexivity. contradiction. }
    rewrite Hstep. cbn [bind].
    replace (pre_s ++ mid s (nf t) :: rest) with ((pre_s ++ [mid s (nf t)]) ++ rest) by (rewrite <- app_assoc; reflexivity).
    subst i. replace (S (length pre_s)) with (length (pre_s ++ [mid s (nf t)])) by (rewrite app_length; cbn; lia).
    subst rest. rewrite (IH (pre_s ++ [mid s (nf t)]) unions' d unk).
    + cbn [apply_unions fold_left]. change (q_s (f, s, F, recs)) with s. change (q_r (f, s, F, recs)) with recs.
      fold unions'. rewrite <- app_assoc. reflexivity.
    + intros k t' Ht'. rewrite app_length. cbn [length]. replace (length pre_s + 1 + k)%nat with (length pre_s + S k)%nat by lia.
      apply Hfn. exact Ht'.
    + intros k t' Ht'. rewrite app_length. cbn [length]. replace (length pre_s + 1 + k)%nat with (length pre_s + S k)%nat by lia.
      apply Hpk. exact Ht'.
    + intros t' Ht'. apply Hkind. right. exact Ht'.
    + intros t' g' Hin' Hact'.
      assert (Hfr : nth_error unions g' = Some (0, VWord 0)) by (apply (Hfresh t' g'); [right; exact Hin' | exact Hact']).
      subst unions'. destruct s as [| |g]; try exact Hfr.
      destruct recs as [|r0 rs0]; [exact Hfr|].
      destruct (Nat.eq_dec g g') as [-> | Hne]; [|rewrite nth_error_set_nth_other by exact Hne; exact Hfr].
      exfalso. apply In_nth_error in Hin'. destruct Hin' as (k' & Hk').
      assert (0%nat = S k') by (apply (Hun0 k' t' g' Hk'); [split; [reflexivity | discriminate] | exact Hact']).
      discriminate.
    + intros k1 k2 t1 t2 g H1 H2 A1 A2.
      assert (S k1 = S k2) by (apply (Huniq (S k1) (S k2) t1 t2 g); assumption). lia.
Qed.

End Wide.

(* C12 -- fresh messages hold the declared defaults; presence decides what is written.
   Statements only; proofs in Proofs/GenDefaults.v (generator model GenModel/Gen.v, tied to protoc-gen-c
   and the C compiler by the generator tie) and Proofs/Presence.v (serialiser model Impl/Pack.v, tied to
   protobuf-c.c by the pack correspondence).

   Not proved here: that the decimal text printed for a float / double default (9 / 17 significant
   digits since the "fix:" commit) is read back by the C compiler as the same bits.  The model contains
   that computation (compiled_fp_default, exact rational arithmetic) and the tie compares it with the
   real tool chain on boundary-dense values, and an oracle compares the compiled bits with the declared
   ones; a general round-trip theorem for printf/strtod is outside what was proved. *)
From Coq Require Import ZArith List Bool.
From PBC Require Import Base.CInt GenModel.Gen Impl.Desc Impl.Mem Impl.Enc Impl.Pack Proofs.GenDefaults Proofs.Presence.
Import ListNotations.
Local Open Scope Z_scope.

(* string and bytes defaults: the array the C compiler builds from the emitted literal holds exactly the
   declared bytes -- quotes, backslashes, NULs, high bytes, '?' included -- with or without trigraphs *)
Theorem C12_string_bytes_default_exact : forall tg (s : str),
  Forall (fun c => 0 <= c < 256) s -> c_literal_bytes tg s = s.
Proof. exact default_literal_exact. Qed.
Print Assumptions C12_string_bytes_default_exact.

Theorem C12_descriptor_default_bytes : forall tg f fd s,
  Forall (fun c => 0 <= c < 256) s -> pf_default fd = Some (PDStr s) ->
  match field_generator fd with
  | FGString => field_default tg f fd = Some (GDString s)
  | FGBytes => field_default tg f fd = Some (GDBytes (Z.of_nat (length s)) s)
  | _ => True
  end.
Proof. exact field_default_bytes_exact. Qed.
Print Assumptions C12_descriptor_default_bytes.

(* integer, bool and enum defaults: the declared value, modulo the width of the C type *)
Theorem C12_descriptor_default_int : forall tg f fd v, pf_default fd = Some (PDInt v) ->
  match field_generator fd with
  | FGPrimitive | FGEnum =>
      field_default tg f fd = Some (GDWord (match pf_type fd with
                                            | PInt64 | PSint64 | PSfixed64 | PUint64 | PFixed64 => v mod 2 ^ 64
                                            | _ => v mod 2 ^ 32
                                            end))
  | _ => True
  end.
Proof. exact field_default_int_exact. Qed.
Print Assumptions C12_descriptor_default_int.

(* <MSG>__INIT: optional fields absent, repeated fields empty, oneof members in the (unset) union *)
Theorem C12_init_presence : forall fs f fd dflt,
  let gi := field_init fs f fd dflt in
  match pf_oneof fd with
  | Some _ => gi_cell gi = GCUnion /\ gi_quant gi = None
  | None =>
      match pf_label fd with
      | PRepeated => gi_quant gi = Some 0 /\ gi_cell gi = GCRepeatedNull
      | POptional => gi_quant gi = None \/ gi_quant gi = Some 0
      | PRequired => gi_quant gi = None
      end
  end.
Proof. exact init_presence. Qed.
Print Assumptions C12_init_presence.

Theorem C12_init_oneofs_unset : forall tg fs f gi m,
  Forall (fun c => c = 0) (gm_oneof_case_init (gen_msg tg fs f gi m)).
Proof. exact init_oneofs_unset. Qed.
Print Assumptions C12_init_oneofs_unset.

(* <MSG>__INIT: every singular cell holds the declared default, or the implicit one (0, NULL / "",
   empty, the enum's first declared value) *)
Theorem C12_init_cell_is_default : forall fs f fd, is_repeated fd = false ->
  let dflt := field_default true f fd in
  let cell := field_init_cell fs f fd dflt in
  (field_generator fd = FGPrimitive ->
     cell = GCWord (match pf_default fd with Some d => scalar_default_bits fd d | None => 0 end)) /\
  (field_generator fd = FGEnum ->
     cell = GCWord (match pf_default fd with
                    | Some d => scalar_default_bits fd d
                    | None => enum_first_number fs (pf_type_name fd) mod two32
                    end)) /\
  (field_generator fd = FGString ->
     cell = match pf_default fd with
            | Some _ => GCStringDefault
            | None => if pfl_syntax f =? 3 then GCStringDefault else GCStringNull
            end) /\
  (field_generator fd = FGBytes ->
     cell = match pf_default fd with
            | Some (PDStr s) => GCBytes (Z.of_nat (length s)) true
            | _ => GCBytes 0 false
            end) /\
  (field_generator fd = FGMessage -> cell = GCMessageNull).
Proof. exact init_cell_is_default. Qed.
Print Assumptions C12_init_cell_is_default.

(* presence decides what is written (serialiser model) *)
Theorem C12_optional_scalar_written_iff_has : forall rec f has w,
  f_type f <> TString -> f_type f <> TMessage ->
  pk_optional rec f has w = if has =? 0 then Ok [] else pk_required rec f w.
Proof. exact optional_scalar_presence. Qed.
Print Assumptions C12_optional_scalar_written_iff_has.

Theorem C12_implicit_presence_omitted_iff_zero : forall rec f v z, zeroish f v = Ok z ->
  pk_unlabeled rec f v = if z then Ok [] else pk_required rec f v.
Proof. exact implicit_presence. Qed.
Print Assumptions C12_implicit_presence_omitted_iff_zero.

Theorem C12_oneof_written_iff_selected : forall rec f case v,
  pk_oneof rec f case v = if case =? f_id f then (do a <- ptr_absent f v; if a then Ok [] else pk_required rec f v) else Ok [].
Proof. exact oneof_presence. Qed.
Print Assumptions C12_oneof_written_iff_selected.

Theorem C12_empty_repeated_not_written : forall rec f arr, pk_repeated rec f 0 arr = Ok [].
Proof. exact repeated_empty. Qed.
Print Assumptions C12_empty_repeated_not_written.

(* C04 -- every valid encoding is accepted and read as the reference reads it.
   Proved here (Proofs/LeafDec.v, about the decoders regenerated from protobuf-c.c; Proofs/MsgRT4.v; Proofs/Merge.v):
   the leniency the property names at the level where it lives -- padded varints up to 10 bytes for values
   and 5 for keys and lengths are read as their value; packed and unpacked arrival are both taken for
   every packable type whatever the declared flag -- plus the canonical case as a whole (C01).
   NOT proved: independence of the result from the order in which different fields arrive (a commutation
   property of parse_member); that part of the property rests on the reference tie: shuffled / padded /
   repacked / mixed encodings produced by the Python reference encoder, parsed by protobuf-c, by the
   extracted model and by libprotobuf, results compared.  Hence the theorem names ending in _partial. *)
From Coq Require Import ZArith List Bool.
From PBC Require Import Base.CInt Gen.LeafC Spec.Wire Impl.Desc Impl.Mem Impl.Enc Impl.Pack Impl.Unpack Impl.Canon
     Proofs.LeafDec Proofs.MsgRT4 Proofs.Merge.
Import ListNotations.
Local Open Scope Z_scope.

(* a varint of 1..10 bytes, minimal or padded, is read as its value (mod 2^64; mod 2^32 for 32-bit types) *)
Theorem C04_padded_varint64 : forall bs rest, wfv bs -> (length bs <= 10)%nat ->
  (forall b, In b bs -> 0 <= b < 256) ->
  parse_uint64 (Z.of_nat (length bs)) (bs ++ rest) = varint_val bs mod 18446744073709551616.
Proof. exact parse_uint64_spec. Qed.
Print Assumptions C04_padded_varint64.

Theorem C04_padded_varint32 : forall bs rest, wfv bs -> (length bs <= 10)%nat ->
  parse_uint32 (Z.of_nat (length bs)) (bs ++ rest) = varint_val bs mod 4294967296.
Proof. exact parse_uint32_spec. Qed.
Print Assumptions C04_padded_varint32.

(* a key of 1..5 bytes, minimal or padded: field number and wire type *)
Theorem C04_padded_key : forall bs rest len t0 w0,
  wfv bs -> (length bs <= 5)%nat -> (forall b, In b bs -> 0 <= b < 256) ->
  Z.of_nat (length bs) <= len < 4294967296 ->
  (varint_val bs / 8) mod 4294967296 <> 0 ->
  parse_tag_and_wiretype len (bs ++ rest) t0 w0 =
  (Z.of_nat (length bs), (varint_val bs / 8) mod 4294967296, varint_val bs mod 8).
Proof. exact parse_tag_spec. Qed.
Print Assumptions C04_padded_key.

(* a length prefix of 1..5 bytes, minimal or padded *)
Theorem C04_padded_length : forall bs rest len p0,
  wfv bs -> (length bs <= 5)%nat -> (forall b, In b bs -> 0 <= b < 256) ->
  Z.of_nat (length bs) <= len < 4294967296 ->
  scan_length_prefixed_data len (bs ++ rest) p0 =
  scan_len_result (Z.of_nat (length bs)) len (varint_val bs).
Proof. exact scan_len_spec. Qed.
Print Assumptions C04_padded_length.

(* packed arrival is taken for every packable type, declared packed or not; anything else is an element *)
Theorem C04_packed_or_unpacked_partial : forall f,
  is_packable (f_type f) = true ->
  packed_arrival f WT_LEN = true /\ (forall wt, wt <> WT_LEN -> packed_arrival f wt = false).
Proof.
  intros f H. unfold packed_arrival. rewrite H. split.
  - rewrite orb_true_r. reflexivity.
  - intros wt Hw. destruct (Z.eqb_spec wt WT_LEN); [contradiction | reflexivity].
Qed.
Print Assumptions C04_packed_or_unpacked_partial.

(* stale earlier values of a singular field do not matter: the last one wins (shared with C10) *)
Theorem C04_last_value_wins_partial : forall E usub md sm d slots unions unk m' i f,
  parse_member E usub md sm (Msg d slots unions unk) = Ok m' ->
  sm_field sm = Some i -> nth_error (md_fields md) i = Some f ->
  f_label f <> LRepeated -> f_oneof f = false -> f_type f <> TMessage ->
  exists h v, nth_error (m_slots m') i = Some (SOne h v) /\
              parse_required E usub f sm (VWord 0) false = Ok v /\
              m_unions m' = unions /\ m_unk m' = unk.
Proof. exact singular_last_wins. Qed.
Print Assumptions C04_last_value_wins_partial.

(* the canonical encoding of every canonical message is accepted and read back exactly (C01) *)
Theorem C04_canonical_encoding_partial : forall (E : env) (m : msg) (b : list Z),
  env_ok E = true -> canon_msg E m = true ->
  pack_msg E m = Ok b -> Z.of_nat (length b) <= 2147483647 ->
  unpack_top E (m_desc m) b = Ok m.
Proof.
  intros E m b EO C Hp Hl. unfold unpack_top.
  exact (proj1 (roundtrip_canonical E EO m C (S (length b)) b Hp Hl (Nat.lt_succ_diag_r _))).
Qed.
Print Assumptions C04_canonical_encoding_partial.

(* C05 -- parsing arbitrary bytes is memory-safe and always terminates.
   Proved (Proofs/Terminates.v, Proofs/LeafSafe.v):
   - termination: with fuel above the input length the model of protobuf_c_message_unpack never runs out of
     fuel, for every descriptor environment, every message type, every byte string and at every nesting
     depth: the scanning loop consumes at least one byte per member, the packed-varint loop at least one
     byte per element, an embedded message is strictly shorter than the input it is embedded in;
   - no undefined behaviour in the decoding leaf functions (regenerated from protobuf-c.c by the translator,
     each with its UB-freedom predicate: array reads inside the buffer, shift amounts in range, signed
     arithmetic without overflow, loops within their bound) under exactly the preconditions their callers
     establish, for arbitrary byte contents.
   - no undefined behaviour in the layer above the leaves either, at the level of the hand-written Impl model
     (Proofs/UnpackSafe.v, with Shape / ScanCount / PackedCount / MergeSafe / TagRange / ParseSafe): for EVERY
     environment the generator can emit (env_ok), every message type in it and EVERY byte string shorter than
     2^31, the model of protobuf_c_message_unpack either rejects the input (EFail: the C function returns NULL)
     or returns a well-shaped message of the requested type.  The model reports each thing C05 forbids as a
     distinct error: an index outside the field table, the slot array, a oneof's storage or a repeated field's
     element array (EOob -- the element count found by the scan bounds what the parse stores), a NULL
     dereference (ENull), a slot or cell of the wrong kind (EDesc, EConfused), a failed assertion (EAssert),
     running out of fuel (EFuel).  The theorem says none of these can be the result.
   Not proved: that the C pointer arithmetic itself agrees with the model's list indexing (the model has no
   heap); that tie is the correspondence check (every input in an exact-size heap block under
   AddressSanitizer / UBSan, fork + watchdog, the model run on the same inputs).  Hence "partial". *)
From Coq Require Import ZArith List Bool.
From PBC Require Import Base.CInt Gen.LeafC Impl.Desc Impl.Mem Impl.Unpack Impl.Canon Proofs.Lookup Proofs.LeafSafe Proofs.Terminates Proofs.Shape Proofs.UnpackSafe Proofs.Examples.
Import ListNotations.
Local Open Scope Z_scope.

Theorem C05_unpack_terminates : forall (E : env) fuel d data,
  (length data < fuel)%nat -> unpack E fuel d data <> Err EFuel.
Proof. exact unpack_terminates. Qed.
Print Assumptions C05_unpack_terminates.

Theorem C05_top_level_terminates : forall (E : env) d data, unpack_top E d data <> Err EFuel.
Proof. intros E d data. apply unpack_terminates. apply Nat.lt_succ_diag_r. Qed.
Print Assumptions C05_top_level_terminates.

(* the whole parser, model level: reject or a well-shaped message, nothing else *)
Theorem C05_unpack_rejects_or_builds_a_well_shaped_message : forall (E : env) d data,
  env_ok E = true -> LeafSafe.bytes data -> Mem.zlen data < 2147483648 -> (d < length E)%nat ->
  unpack_top E d data = Err EFail \/
  exists m, unpack_top E d data = Ok m /\ shape_msg E m = true /\ m_desc m = d.
Proof. intros E d data EO. exact (unpack_top_total E EO d data). Qed.
Print Assumptions C05_unpack_rejects_or_builds_a_well_shaped_message.

Theorem C05_unpack_never_reports_undefined_behaviour : forall (E : env) d data e,
  env_ok E = true -> LeafSafe.bytes data -> Mem.zlen data < 2147483648 -> (d < length E)%nat ->
  unpack_top E d data = Err e -> e = EFail.
Proof. intros E d data e EO. exact (unpack_never_ub E EO d data e). Qed.
Print Assumptions C05_unpack_never_reports_undefined_behaviour.

(* the hypotheses are satisfiable, both outcomes occur *)
Example C05_nonvacuous :
  env_ok ex_env = true /\
  (exists m, unpack_top ex_env 0 [8; 150; 1; 26; 2; 1; 2; 58; 2; 8; 1] = Ok m) /\
  unpack_top ex_env 0 [8; 150; 1; 26; 9; 1] = Err EFail.
Proof. split; [exact ex_env_ok|]. split; [eexists; vm_compute; reflexivity | vm_compute; reflexivity]. Qed.

(* the key parser never reads outside the rest of the input and never shifts out of range *)
Theorem C05_key_parser_safe : forall d t w, d <> [] -> parse_tag_and_wiretype_ok (LeafSafe.zlen d) d t w = true.
Proof. exact parse_tag_and_wiretype_safe. Qed.
Print Assumptions C05_key_parser_safe.

Theorem C05_length_scanner_safe : forall len d, 0 <= len -> forall p, len <= LeafSafe.zlen d ->
  scan_length_prefixed_data_ok len d p = true.
Proof. exact scan_length_prefixed_data_safe. Qed.
Print Assumptions C05_length_scanner_safe.

Theorem C05_packed_counter_safe : forall ty len d c, 0 <= len <= LeafSafe.zlen d -> count_packed_elements_ok ty len d c = true.
Proof. exact count_packed_elements_safe. Qed.
Print Assumptions C05_packed_counter_safe.

Theorem C05_varint_scanner_safe : forall len d, 0 <= len <= LeafSafe.zlen d -> scan_varint_ok len d = true.
Proof. exact scan_varint_safe. Qed.
Print Assumptions C05_varint_scanner_safe.

Theorem C05_uint32_parser_safe : forall len d, 1 <= len <= LeafSafe.zlen d -> parse_uint32_ok len d = true.
Proof. exact parse_uint32_safe. Qed.
Print Assumptions C05_uint32_parser_safe.

Theorem C05_uint64_parser_safe : forall len d, 1 <= len <= LeafSafe.zlen d -> len <= 10 -> parse_uint64_ok len d = true.
Proof. exact parse_uint64_safe. Qed.
Print Assumptions C05_uint64_parser_safe.

Theorem C05_boolean_parser_safe : forall len d, 0 <= len <= LeafSafe.zlen d -> len < 4294967296 -> parse_boolean_ok len d = true.
Proof. exact parse_boolean_safe. Qed.
Print Assumptions C05_boolean_parser_safe.

Theorem C05_fixed_readers_safe : forall d,
  (4 <= LeafSafe.zlen d -> parse_fixed_uint32_ok d = true) /\ (8 <= LeafSafe.zlen d -> parse_fixed_uint64_ok d = true).
Proof. intros d. split; [apply parse_fixed_uint32_safe | apply parse_fixed_uint64_safe]. Qed.
Print Assumptions C05_fixed_readers_safe.

Theorem C05_field_lookup_safe : forall n rs v, ranges_ok rs n -> -2147483648 <= v < 2147483648 -> int_range_lookup_ok n rs v = true.
Proof. exact int_range_lookup_safe. Qed.
Print Assumptions C05_field_lookup_safe.

(* The reference reader of Spec/WireMsg.v once more, keeping for every record the payload bytes exactly as they came
   (a parser that retains unknown fields retains these), with a bound [kw] on the width of keys and length prefixes
   (protobuf-c reads at most 5 bytes for either; 5 bytes are enough for every field number and every length the format
   allows), and strict about 64-bit overflow: a varint whose value does not fit 64 bits is not read.
   Written from the encoding specification.  Definitions only. *)
From Coq Require Import ZArith List Bool.
From PBC Require Import Spec.Wire Spec.WireMsg.
Import ListNotations.
Local Open Scope Z_scope.

(* value, the bytes read, what follows *)
Fixpoint read_varint_raw (fuel : nat) (bs : list Z) : option (Z * list Z * list Z) :=
  match fuel, bs with
  | S k, b :: t =>
      if b <? 128 then Some (b, [b], t)
      else match read_varint_raw k t with
           | Some (v, raw, r) => Some (b mod 128 + 128 * v, b :: raw, r)
           | None => None
           end
  | _, _ => None
  end.

Record rawrec := { rr_num : Z; rr_pay : payload; rr_raw : list Z }.

Definition read_raw_rec (kw : nat) (bs : list Z) : option (rawrec * list Z) :=
  match read_varint_raw kw bs with
  | None => None
  | Some (k, _, r) =>
      let num := k / 8 in
      let wt := k mod 8 in
      if (1 <=? num) && (num <? 536870912) then
        if wt =? 0 then
          match read_varint_raw 10 r with
          | Some (v, raw, r') =>
              if v <? two64 then Some ({| rr_num := num; rr_pay := PVar v; rr_raw := raw |}, r') else None
          | None => None
          end
        else if wt =? 1 then
          match split_at 8 r with
          | Some (a, r') => Some ({| rr_num := num; rr_pay := PI64 (le_val a); rr_raw := a |}, r')
          | None => None
          end
        else if wt =? 2 then
          match read_varint_raw kw r with
          | Some (n, praw, r') =>
              match split_at n r' with
              | Some (a, r'') => Some ({| rr_num := num; rr_pay := PLen a; rr_raw := praw ++ a |}, r'')
              | None => None
              end
          | None => None
          end
        else if wt =? 5 then
          match split_at 4 r with
          | Some (a, r') => Some ({| rr_num := num; rr_pay := PI32 (le_val a); rr_raw := a |}, r')
          | None => None
          end
        else None
      else None
  end.

Fixpoint read_raw_recs (kw : nat) (fuel : nat) (bs : list Z) : option (list rawrec) :=
  match bs with
  | [] => Some []
  | _ :: _ =>
      match fuel with
      | O => None
      | S k => match read_raw_rec kw bs with
               | Some (r, rest) => match read_raw_recs kw k rest with Some rs => Some (r :: rs) | None => None end
               | None => None
               end
      end
  end.

Definition read_raw (kw : nat) (bs : list Z) : option (list rawrec) := read_raw_recs kw (length bs) bs.

(* Protocol Buffers wire format at the level of a whole message, written from the encoding specification (not from the
   C code): a message is a sequence of records (field number, payload), the payload being a varint, 8 little-endian
   bytes, a length-delimited byte string or 4 little-endian bytes.  [enc_recs] writes records in their shortest form;
   [read_message] is the reference reader: it splits ANY byte string into its records or rejects it (it accepts padded
   varints; groups, wire types 3 and 4, which protobuf-c never writes, are not read).  Tied to libprotobuf on every run
   (ref_driver RAW vs model_driver SREAD: the records libprotobuf's UnknownFieldSet reports for the same bytes). *)
From Coq Require Import ZArith List Bool.
From PBC Require Import Spec.Wire.
Import ListNotations.
Local Open Scope Z_scope.

Inductive payload :=
| PVar (v : Z)            (* wire type 0: a 64-bit unsigned value *)
| PI64 (v : Z)            (* wire type 1: 8 bytes, little-endian *)
| PLen (bs : list Z)      (* wire type 2: length, then that many bytes *)
| PI32 (v : Z).           (* wire type 5: 4 bytes, little-endian *)

Definition wrec := (Z * payload)%type.      (* field number, payload *)

Definition wt_of (p : payload) : Z :=
  match p with PVar _ => 0 | PI64 _ => 1 | PLen _ => 2 | PI32 _ => 5 end.

Definition wlen {A} (l : list A) : Z := Z.of_nat (length l).

Definition enc_payload (p : payload) : list Z :=
  match p with
  | PVar v => varint v
  | PI64 v => le_n 8 v
  | PLen bs => varint (wlen bs) ++ bs
  | PI32 v => le_n 4 v
  end.

Definition enc_rec (r : wrec) : list Z := key (fst r) (wt_of (snd r)) ++ enc_payload (snd r).
Definition enc_recs (rs : list wrec) : list Z := concat (map enc_rec rs).

(* ---------- the reference reader *)
(* a varint of at most [fuel] bytes: its value (continuation bits dropped) and what follows it *)
Fixpoint read_varint (fuel : nat) (bs : list Z) : option (Z * list Z) :=
  match fuel, bs with
  | S k, b :: t =>
      if b <? 128 then Some (b, t)
      else match read_varint k t with
           | Some (v, r) => Some (b mod 128 + 128 * v, r)
           | None => None
           end
  | _, _ => None
  end.

Definition split_at (n : Z) (bs : list Z) : option (list Z * list Z) :=
  if (0 <=? n) && (n <=? wlen bs) then Some (firstn (Z.to_nat n) bs, skipn (Z.to_nat n) bs) else None.

Fixpoint le_val (bs : list Z) : Z :=
  match bs with [] => 0 | b :: t => b + 256 * le_val t end.

Definition two64 := 18446744073709551616.

Definition read_rec (bs : list Z) : option (wrec * list Z) :=
  match read_varint 10 bs with
  | None => None
  | Some (k0, r) =>
      let k := k0 mod two64 in
      let num := k / 8 in
      let wt := k mod 8 in
      if (1 <=? num) && (num <? 536870912) then
        if wt =? 0 then
          match read_varint 10 r with
          | Some (v, r') => Some ((num, PVar (v mod two64)), r')
          | None => None
          end
        else if wt =? 1 then
          match split_at 8 r with Some (a, r') => Some ((num, PI64 (le_val a)), r') | None => None end
        else if wt =? 2 then
          match read_varint 10 r with
          | Some (n, r') => match split_at (n mod two64) r' with
                            | Some (a, r'') => Some ((num, PLen a), r'')
                            | None => None
                            end
          | None => None
          end
        else if wt =? 5 then
          match split_at 4 r with Some (a, r') => Some ((num, PI32 (le_val a)), r') | None => None end
        else None
      else None
  end.

Fixpoint read_recs (fuel : nat) (bs : list Z) : option (list wrec) :=
  match bs with
  | [] => Some []
  | _ :: _ =>
      match fuel with
      | O => None
      | S k => match read_rec bs with
               | Some (r, rest) => match read_recs k rest with Some rs => Some (r :: rs) | None => None end
               | None => None
               end
      end
  end.

(* every record takes at least two bytes, so the length of the input is fuel enough *)
Definition read_message (bs : list Z) : option (list wrec) := read_recs (length bs) bs.

(* a record the format can carry *)
Definition rec_wf (r : wrec) : Prop :=
  1 <= fst r < 536870912 /\
  match snd r with
  | PVar v => 0 <= v < two64
  | PI64 v => 0 <= v < two64
  | PLen bs => wlen bs < two64
  | PI32 v => 0 <= v < 4294967296
  end.

(* Concatenation of two encoded messages, part 2: the field level.
   (a) The per-field packages of FieldPkg.v / FieldPkg2.v with the records of a singular field made explicit
       ([sing_info]: none, or exactly one record from which parse_required_member reads the cell back --
       whatever the cell held before, a sub-message excepted): [field_package2], [build_quads2].
   (b) What the members of the LATER message's package do to the slot the EARLIER message's members have
       filled: exactly what merge_messages does to the two slots ([field_merge]), case by case --
       repeated (appended), singular absent in the later message (kept), singular present (replaced;
       sub-messages merged -- optional and required ones alike, since merge_messages merges a required
       sub-message like an optional one), oneof members (replaced; the same sub-message member merged). *)
From Coq Require Import ZArith List Bool Lia ZifyBool.
From PBC Require Import Base.CInt Base.Bits Base.Bits2 Gen.LeafC Spec.Wire
     Impl.Desc Impl.Mem Impl.Enc Impl.Pack Impl.WF Impl.Unpack Impl.Canon
     Proofs.LeafEnc Proofs.EncLemmas Proofs.LeafDec Proofs.SizePack Proofs.SizePackRep
     Proofs.ScanRec Proofs.ScanRecs Proofs.CellRT Proofs.CellRT2 Proofs.PackedDec Proofs.FieldRT Proofs.FieldRT2
     Proofs.MsgInd Proofs.FieldPkg Proofs.FieldPkg2 Proofs.MsgRT Proofs.MsgRT2 Proofs.MsgRT4
     Proofs.Shape Proofs.Merge Proofs.MergeSafe Proofs.ConcatScan.
Import ListNotations.
Local Open Scope Z_scope.

Ltac Zify.zify_post_hook ::= Z.div_mod_to_equations.

(* the has_ flag of a present singular field as the parser leaves it *)
Definition hflag (f : field) : Z :=
  match f_label f with
  | LRequired => 0
  | _ => match f_quant f with QNone => 0 | _ => 1 end
  end.

Section Pkg2.
Variable E : env.
Variable usub : nat -> list Z -> res msg.
Variable md : mdesc.
Variable lim : Z.
Hypothesis Hlim : lim <= 2147483647.

Definition cell_parse (f : field) (r : wrec) (v : sval) : Prop :=
  r_wt r = wire_type_of (f_type f) /\
  forall i0 old mc, (mc = true -> f_type f = TMessage -> as_msg old = Ok None) ->
    parse_required E usub f (new_member (f_id f) (wire_type_of (f_type f)) (Some i0) (r_payload r) (r_pref r)) old mc = Ok v.

Definition sing_info (recs : list wrec) (f : field) (s : slot) (um : list (Z * sval)) : Prop :=
  f_label f = LRepeated \/
  (recs = [] /\ forall h v, s = SOne h v -> h = 0 /\ v = init_cell f) \/
  (exists r v, recs = [r] /\ cell_parse f r v /\ canon_cell (canon_msg E) f v = true /\
     match s with
     | SOne h v' => v' = v /\ h = hflag f /\ (f_label f = LNone -> zeroish f v = Ok false)
     | SUnion g => nth g um (0, VWord 0) = (f_id f, v)
     | SRep _ _ _ => False
     end).

Definition fpkg2 (i : nat) (f : field) (s : slot) (um : list (Z * sval)) (F : list Z) : Prop :=
  exists recs, fpkg_with E usub md recs i f s um F /\ sing_info recs f s um.

Lemma absent2 : forall i f s um, s = alloc_init f s -> f_label f <> LRequired ->
  (f_label f = LRepeated -> slot_n s = 0) ->
  (forall g, s = SUnion g -> fst (nth g um (0, VWord 0)) <> f_id f) -> fpkg2 i f s um [].
Proof.
  intros i f s um Hs Hr Hn Hu. exists []. split.
  - split; [reflexivity|]. split; [constructor|]. split; [|split; [|split]].
    + intros El. exists []. split; [constructor | cbn; symmetry; auto].
    + intros El. contradiction.
    + intros g Hg. split; [intros H; exfalso; apply H; reflexivity | intros H; exfalso; exact (Hu g Hg H)].
    + intros d slots unions unk Hslot _. cbn [members_of map parse_members].
      rewrite <- Hs in Hslot. rewrite (ScanRecs.set_nth_same _ slots i s Hslot).
      destruct s; reflexivity.
  - right. left. split; [reflexivity|]. intros h v Hsv. subst s. cbn [alloc_init] in Hs. inversion Hs; subst. split; reflexivity.
Qed.

Lemma single2 : forall i f h v um F,
  nth_error (md_fields md) i = Some f ->
  f_oneof f = false -> label_eqb (f_label f) LRepeated = false ->
  cell_rt E usub lim f v ->
  pk_required (pack_msg E) f v = Ok F -> zlen F <= lim ->
  h = hflag f -> canon_cell (canon_msg E) f v = true -> (f_label f = LNone -> zeroish f v = Ok false) ->
  fpkg2 i f (SOne h v) um F.
Proof.
  intros i f h v um F Hn Ho Hrep Hcell Hpk Hlen Hh Cv Hzf.
  destruct (Hcell F Hpk Hlen) as (payload & pref & HF & Hpo & Hparse).
  exists [(wire_type_of (f_type f), payload, pref)]. split.
  - split; [cbn [map concat]; unfold rec_bytes; cbn [r_wt r_payload fst snd]; rewrite app_nil_r; exact HF|].
    split; [constructor; [|constructor]; split; [apply wt_range | exact Hpo]|].
    split; [|split; [|split]].
    + intros El. rewrite El in Hrep. discriminate Hrep.
    + intros _. discriminate.
    + intros g Hg. discriminate Hg.
    + intros d slots unions unk Hslot _. cbn [members_of map parse_members alloc_init] in *.
      rewrite (parse_single E usub md f i v (wire_type_of (f_type f), payload, pref) d slots unions unk 0 Hn Ho Hrep Hslot eq_refl).
      * cbn [bind]. rewrite Hh. unfold hflag. destruct (f_label f); reflexivity.
      * exact Hparse.
  - right. right. exists (wire_type_of (f_type f), payload, pref), v. split; [reflexivity|].
    split; [split; [reflexivity | exact Hparse]|]. split; [exact Cv|]. split; [reflexivity|]. split; [exact Hh | exact Hzf].
Qed.

Lemma oneof2 : forall i f g v um F,
  nth_error (md_fields md) i = Some f ->
  f_oneof f = true -> (f_label f = LOptional \/ f_label f = LNone) ->
  cell_rt E usub lim f v -> nth_error um g = Some (f_id f, v) ->
  pk_required (pack_msg E) f v = Ok F -> zlen F <= lim ->
  canon_cell (canon_msg E) f v = true ->
  fpkg2 i f (SUnion g) um F.
Proof.
  intros i f g v um F Hn Ho Hl Hcell Hum Hpk Hlen Cv.
  destruct (Hcell F Hpk Hlen) as (payload & pref & HF & Hpo & Hparse).
  exists [(wire_type_of (f_type f), payload, pref)]. split.
  - split; [cbn [map concat]; unfold rec_bytes; cbn [r_wt r_payload fst snd]; rewrite app_nil_r; exact HF|].
    split; [constructor; [|constructor]; split; [apply wt_range | exact Hpo]|].
    split; [|split; [|split]].
    + intros El. destruct Hl as [Hl|Hl]; rewrite Hl in El; discriminate El.
    + intros El. destruct Hl as [Hl|Hl]; rewrite Hl in El; discriminate El.
    + intros g0 Hg. inversion Hg; subst g0. rewrite (nth_error_nth um g (0, VWord 0) Hum). cbn [fst].
      split; [reflexivity | discriminate].
    + intros d slots unions unk Hslot Hu. cbn [members_of map parse_members alloc_init] in *.
      rewrite (parse_oneof E usub md f i g v (wire_type_of (f_type f), payload, pref) d slots unions unk Hn Ho Hl Hslot
                 (Hu g eq_refl ltac:(discriminate)) eq_refl Hparse).
      cbn [bind]. rewrite (ScanRecs.set_nth_same _ slots i (SUnion g) Hslot).
      rewrite (nth_error_nth um g (0, VWord 0) Hum). reflexivity.
  - right. right. exists (wire_type_of (f_type f), payload, pref), v. split; [reflexivity|].
    split; [split; [reflexivity | exact Hparse]|]. split; [exact Cv|]. exact (nth_error_nth um g (0, VWord 0) Hum).
Qed.

Lemma repeated2 : forall i f s um F, f_label f = LRepeated -> fpkg E usub md i f s um F -> fpkg2 i f s um F.
Proof. intros i f s um F El (recs & H). exists recs. split; [exact H | left; exact El]. Qed.

Notation SubIH v := (forall m, v = VMsg (Some m) -> sub_rt E usub lim m).

Lemma field_package2 : forall nu i f s um F,
  nth_error (md_fields md) i = Some f -> field_ok nu f = true -> 0 < f_id f < 536870912 ->
  (f_label f = LNone -> zeroish f (init_cell f) = Ok true) ->
  canon_slot (canon_msg E) um f s = true ->
  slot_all (fun v => SubIH v) s ->
  Forall (fun cv : Z * sval => SubIH (snd cv)) um ->
  pk_field (pack_msg E) um f s = Ok F -> zlen F <= lim ->
  fpkg2 i f s um F.
Proof.
  intros nu i f s um F Hn Hfo Hid Hz C HS HU Hpk Hlen.
  destruct (label_eqb (f_label f) LRepeated) eqn:Erep.
  { assert (El : f_label f = LRepeated) by (destruct (f_label f); try discriminate Erep; reflexivity).
    apply repeated2; [exact El|]. eapply field_package; eauto. }
  unfold field_ok in Hfo. rewrite !andb_true_iff in Hfo. destruct Hfo as [[[_ Hlq] Hpacked] _].
  unfold canon_slot in C. unfold pk_field in Hpk.
  destruct (f_label f) eqn:El; try discriminate Erep.
  - (* required *)
    destruct s as [h v| |]; try discriminate C.
    apply andb_true_iff in C. destruct C as [Hh Cv]. apply Z.eqb_eq in Hh. subst h.
    destruct (f_quant f); try discriminate Hlq. apply negb_true_iff in Hlq.
    apply (single2 i f 0 v um F Hn Hlq); [rewrite El; reflexivity | | exact Hpk | exact Hlen | unfold hflag; rewrite El; reflexivity | exact Cv | intros H; rewrite El in H; discriminate H].
    apply (cell_rt_holds E usub lim Hlim); [exact Cv | exact HS].
  - (* optional *)
    destruct s as [h v| |g]; try discriminate C.
    + destruct (f_quant f) eqn:Eq; try discriminate Hlq.
      * apply andb_true_iff in Hlq. destruct Hlq as [Ho Hty]. apply negb_true_iff in Ho. rewrite Ho in Hpk.
        apply andb_true_iff in C. destruct C as [Hh C]. apply Z.eqb_eq in Hh. subst h.
        assert (Hsm : f_type f = TString \/ f_type f = TMessage).
        { apply orb_true_iff in Hty. destruct Hty as [H|H]; [left | right]; destruct (f_type f); try discriminate H; reflexivity. }
        apply orb_true_iff in C. destruct C as [Ci | Cv].
        -- apply shallow_eq in Ci. subst v. unfold pk_optional in Hpk.
           assert (Hab := init_absent f Hsm).
           destruct Hsm as [Ht|Ht]; rewrite Ht in Hpk; rewrite Hab in Hpk; cbn [bind] in Hpk; inversion Hpk;
             apply absent2; try reflexivity; try (rewrite El; discriminate); try (intros E0; rewrite El in E0; discriminate); try (intros g0 Hg0; discriminate Hg0).
        -- unfold pk_optional in Hpk. assert (Hna := canon_not_absent E f v Cv).
           assert (Hpk' : pk_required (pack_msg E) f v = Ok F).
           { destruct Hsm as [Ht|Ht]; rewrite Ht in Hpk; rewrite Hna in Hpk; exact Hpk. }
           apply (single2 i f 0 v um F Hn Ho); [rewrite El; reflexivity | | exact Hpk' | exact Hlen | unfold hflag; rewrite El, Eq; reflexivity | exact Cv | intros H; rewrite El in H; discriminate H].
           apply (cell_rt_holds E usub lim Hlim); [exact Cv | exact HS].
      * rewrite !andb_true_iff in Hlq. destruct Hlq as [[Ho Hns] Hnm]. apply negb_true_iff in Ho. rewrite Ho in Hpk.
        unfold pk_optional in Hpk.
        assert (Hpk2 : (if h =? 0 then Ok [] else pk_required (pack_msg E) f v) = Ok F).
        { destruct (f_type f); try discriminate Hns; try discriminate Hnm; exact Hpk. }
        destruct (Z.eqb_spec h 0) as [-> | Hh].
        -- apply shallow_eq in C. subst v. inversion Hpk2.
           apply absent2; try reflexivity; try (rewrite El; discriminate); try (intros E0; rewrite El in E0; discriminate); try (intros g0 Hg0; discriminate Hg0).
        -- apply andb_true_iff in C. destruct C as [Hh1 Cv]. apply Z.eqb_eq in Hh1. subst h.
           apply (single2 i f 1 v um F Hn Ho); [rewrite El; reflexivity | | exact Hpk2 | exact Hlen | unfold hflag; rewrite El, Eq; reflexivity | exact Cv | intros H; rewrite El in H; discriminate H].
           apply (cell_rt_holds E usub lim Hlim); [exact Cv | exact HS].
      * apply andb_true_iff in Hlq. destruct Hlq as [Ho _]. rewrite Ho in Hpk. discriminate Hpk.
    + destruct (f_quant f) eqn:Eq; try discriminate Hlq;
        try (rewrite !andb_true_iff in Hlq; destruct Hlq as [[Ho _] _]; apply negb_true_iff in Ho; rewrite Ho in Hpk; discriminate Hpk);
        try (rewrite !andb_true_iff in Hlq; destruct Hlq as [Ho _]; apply negb_true_iff in Ho; rewrite Ho in Hpk; discriminate Hpk).
      apply andb_true_iff in Hlq. destruct Hlq as [Ho _]. rewrite Ho in Hpk.
      apply andb_true_iff in C. destruct C as [_ C].
      destruct (with_nth_cases _ _ (fun cv : Z * sval => if fst cv =? f_id f then canon_cell (canon_msg E) f (snd cv) else true) false um g)
        as [(x & Hx & Hw) | (Hx & Hw)]; rewrite Hw in C; [|discriminate C].
      destruct (with_nth_cases _ _ (fun cv : Z * sval => pk_oneof (pack_msg E) f (fst cv) (snd cv)) (Err EDesc) um g)
        as [(x1 & Hx1 & Hw1) | (Hx1 & _)]; [|congruence].
      assert (x1 = x) by congruence. subst x1. rewrite Hw1 in Hpk. destruct x as [case v]. cbn [fst snd] in *.
      unfold pk_oneof in Hpk.
      destruct (Z.eqb_spec case (f_id f)) as [-> | Hne]; cbn [negb] in Hpk.
      * rewrite (canon_not_absent E f v C) in Hpk. cbn [bind] in Hpk.
        apply (oneof2 i f g v um F Hn Ho (or_introl El)); [| exact Hx | exact Hpk | exact Hlen | exact C].
        apply (cell_rt_holds E usub lim Hlim); [exact C|]. rewrite Forall_forall in HU. exact (HU (f_id f, v) (nth_error_In _ _ Hx)).
      * inversion Hpk. apply absent2; try reflexivity; try (rewrite El; discriminate); try (intros E0; rewrite El in E0; discriminate).
        intros gg Hgg. inversion Hgg; subst gg. rewrite (nth_error_nth um g (0, VWord 0) Hx). cbn [fst]. exact Hne.
  - (* none *)
    destruct s as [h v| |g]; try discriminate C.
    + destruct (f_quant f) eqn:Eq; try discriminate Hlq.
      * apply negb_true_iff in Hlq. rewrite Hlq in Hpk.
        apply andb_true_iff in C. destruct C as [Hh C]. apply Z.eqb_eq in Hh. subst h.
        unfold pk_unlabeled in Hpk.
        apply orb_true_iff in C. destruct C as [Ci | Cv].
        -- apply shallow_eq in Ci. subst v. rewrite (Hz eq_refl) in Hpk. cbn [bind] in Hpk. inversion Hpk.
           apply absent2; try reflexivity; try (rewrite El; discriminate); try (intros E0; rewrite El in E0; discriminate); try (intros g0 Hg0; discriminate Hg0).
        -- apply andb_true_iff in Cv. destruct Cv as [Cv Hzf].
           destruct (zeroish f v) as [[|]|e] eqn:Ezv; try discriminate Hzf. cbn [bind] in Hpk.
           apply (single2 i f 0 v um F Hn Hlq); [rewrite El; reflexivity | | exact Hpk | exact Hlen | unfold hflag; rewrite El, Eq; reflexivity | exact Cv | intros _; exact Ezv].
           apply (cell_rt_holds E usub lim Hlim); [exact Cv | exact HS].
      * apply andb_true_iff in Hlq. destruct Hlq as [Ho _]. rewrite Ho in Hpk. discriminate Hpk.
    + destruct (f_quant f) eqn:Eq; try discriminate Hlq;
        try (apply negb_true_iff in Hlq; rewrite Hlq in Hpk; discriminate Hpk).
      apply andb_true_iff in Hlq. destruct Hlq as [Ho _]. rewrite Ho in Hpk.
      apply andb_true_iff in C. destruct C as [_ C].
      destruct (with_nth_cases _ _ (fun cv : Z * sval => if fst cv =? f_id f then canon_cell (canon_msg E) f (snd cv) else true) false um g)
        as [(x & Hx & Hw) | (Hx & Hw)]; rewrite Hw in C; [|discriminate C].
      destruct (with_nth_cases _ _ (fun cv : Z * sval => pk_oneof (pack_msg E) f (fst cv) (snd cv)) (Err EDesc) um g)
        as [(x1 & Hx1 & Hw1) | (Hx1 & _)]; [|congruence].
      assert (x1 = x) by congruence. subst x1. rewrite Hw1 in Hpk. destruct x as [case v]. cbn [fst snd] in *.
      unfold pk_oneof in Hpk.
      destruct (Z.eqb_spec case (f_id f)) as [-> | Hne]; cbn [negb] in Hpk.
      * rewrite (canon_not_absent E f v C) in Hpk. cbn [bind] in Hpk.
        apply (oneof2 i f g v um F Hn Ho (or_intror El)); [| exact Hx | exact Hpk | exact Hlen | exact C].
        apply (cell_rt_holds E usub lim Hlim); [exact C|]. rewrite Forall_forall in HU. exact (HU (f_id f, v) (nth_error_In _ _ Hx)).
      * inversion Hpk. apply absent2; try reflexivity; try (rewrite El; discriminate); try (intros E0; rewrite El in E0; discriminate).
        intros gg Hgg. inversion Hgg; subst gg. rewrite (nth_error_nth um g (0, VWord 0) Hx). cbn [fst]. exact Hne.
Qed.

End Pkg2.

Lemma slot_all_any : forall (Q : sval -> Prop), (forall v, Q v) -> forall s, slot_all Q s.
Proof.
  intros Q H s. destruct s as [h v|n c [l|]|g]; cbn [slot_all]; auto.
  apply Forall_forall. intros v _. apply H.
Qed.

(* ---------- all fields: the packages of a canonical message, with the records of singular fields explicit *)
Section Build2.
Variable E : env.
Variable usub : nat -> list Z -> res msg.
Variable md : mdesc.
Variable lim : Z.
Hypothesis Hlim : lim <= 2147483647.
Hypothesis D : desc_ok (length E) md = true.
Hypothesis SUB : forall m, sub_rt E usub lim m.
Variable um : list (Z * sval).

Lemma build_quads2 : forall fs ss pre a,
  md_fields md = pre ++ fs ->
  canon_slots (canon_msg E) um fs ss = true ->
  pk_fields (pack_msg E) um fs ss = Ok a -> zlen a <= lim ->
  exists qs, map q_f qs = fs /\ map q_s qs = ss /\ a = concat (map q_F qs) /\
    (forall k q, nth_error qs k = Some q ->
       fpkg_with E usub md (q_r q) (length pre + k) (q_f q) (q_s q) um (q_F q) /\
       sing_info E usub (q_r q) (q_f q) (q_s q) um) /\
    Forall (fun q => kind_ok (q_f q) (q_s q)) qs.
Proof.
  induction fs as [|f fs IH]; intros ss pre a Hfs C Hpk Hlen.
  - destruct ss; [|discriminate C]. cbn in Hpk. inversion Hpk; subst a.
    exists []. split; [reflexivity|]. split; [reflexivity|]. split; [reflexivity|]. split; [intros k0 q Hq; destruct k0; discriminate Hq | constructor].
  - destruct ss as [|s ss]; [discriminate C|].
    cbn [canon_slots] in C. apply andb_true_iff in C. destruct C as [C1 C2].
    cbn [pk_fields] in Hpk. fold (pk_fields (pack_msg E) um) in Hpk.
    destruct (pk_field (pack_msg E) um f s) as [F|e] eqn:EF; [|discriminate Hpk]. cbn [bind] in Hpk.
    destruct (pk_fields (pack_msg E) um fs ss) as [a'|e] eqn:Ea; [|discriminate Hpk]. cbn [bind] in Hpk.
    inversion Hpk; subst a. rewrite zlen_app in Hlen.
    pose proof (zlen_nonneg _ F). pose proof (zlen_nonneg _ a').
    assert (Hin : In f (md_fields md)) by (rewrite Hfs; apply in_or_app; right; left; reflexivity).
    destruct (desc_ok_fields _ _ D f Hin) as (Hfo & Hid & Hz).
    assert (Hn : nth_error (md_fields md) (length pre) = Some f) by (rewrite Hfs; apply nth_error_app_mid).
    destruct (field_package2 E usub md lim Hlim (md_n_oneofs md) (length pre) f s um F Hn Hfo Hid Hz C1
                (slot_all_any _ (fun v m _ => SUB m) s)
                ltac:(apply Forall_forall; intros cv _ m _; apply SUB) EF ltac:(lia))
      as (recs & Hpkg & Hsi).
    destruct (IH ss (pre ++ [f]) a') as (qs & Q1 & Q2 & Q3 & Q4 & Q5);
      [rewrite Hfs, <- app_assoc; reflexivity | exact C2 | exact Ea | lia |].
    exists ((f, s, F, recs) :: qs). cbn [map]. unfold q_f at 1, q_s at 1, q_F at 1. cbn [fst snd].
    split; [rewrite Q1; reflexivity|]. split; [rewrite Q2; reflexivity|]. split; [rewrite Q3; reflexivity|]. split.
    + intros k q Hq. destruct k as [|k].
      * inversion Hq; subst q. rewrite Nat.add_0_r. split; [exact Hpkg | exact Hsi].
      * replace (length pre + S k)%nat with (length (pre ++ [f]) + k)%nat by (rewrite app_length; cbn; lia).
        apply Q4. exact Hq.
    + constructor; [|exact Q5]. unfold q_f, q_s. cbn [fst snd]. eapply canon_kind; eauto.
Qed.

End Build2.

(* ---------- one more occurrence, on top of what an earlier message has put into the slot *)
Section Over.
Variable E : env.
Variable usub : nat -> list Z -> res msg.
Variable md : mdesc.

Lemma cell_parse_sub : forall f r lm, f_type f = TMessage -> cell_parse E usub f r (VMsg (Some lm)) ->
  usub (f_sub f) (skipn (Z.to_nat (r_pref r)) (r_payload r)) = Ok lm.
Proof.
  intros f r lm Ht [Hwt Hpr]. pose proof (Hpr 0%nat (VMsg None) false ltac:(discriminate)) as H.
  unfold parse_required, new_member in H. rewrite Ht in H. cbn [sm_wt sm_pref sm_data wire_type_of] in H.
  change (WT_LEN =? WT_LEN) with true in H. cbn [negb] in H.
  destruct (usub (f_sub f) (skipn (Z.to_nat (r_pref r)) (r_payload r))) as [sub|e]; cbn [bind] in H; [|discriminate H].
  inversion H. reflexivity.
Qed.

Definition hnext (f : field) (h : Z) : Z :=
  match f_label f with LRequired => h | _ => match f_quant f with QNone => h | _ => 1 end end.

(* the cell held no sub-message: the new value replaces it *)
Lemma parse_single_over : forall f i v r d slots unions unk h old,
  nth_error (md_fields md) i = Some f -> f_oneof f = false -> label_eqb (f_label f) LRepeated = false ->
  nth_error slots i = Some (SOne h old) -> cell_parse E usub f r v ->
  (f_type f = TMessage -> as_msg old = Ok None) ->
  parse_member E usub md (rec_member (f_id f) (Some i) r) (Msg d slots unions unk) =
  Ok (Msg d (set_nth slots i (SOne (hnext f h) v)) unions unk).
Proof.
  intros f i v r d slots unions unk h old Hn Ho Hrep Hs [Hwt Hpr] Hold.
  unfold parse_member, rec_member, new_member. cbn [sm_field]. rewrite Hn, Hs.
  assert (Hcall : parse_required E usub f
                    {| sm_tag := f_id f; sm_wt := r_wt r; sm_field := Some i; sm_len := zlen (r_payload r);
                       sm_pref := r_pref r; sm_data := r_payload r |} old true = Ok v).
  { rewrite Hwt. apply (Hpr i old true). intros _ Ht. exact (Hold Ht). }
  unfold hnext. destruct (f_label f) eqn:El; try discriminate Hrep.
  - rewrite Hcall. reflexivity.
  - rewrite Ho. rewrite Hcall. reflexivity.
  - rewrite Ho. rewrite Hcall. reflexivity.
Qed.

(* the cell held a sub-message: the new one is merged into it *)
Lemma parse_single_merge : forall f i r d slots unions unk h em lm,
  nth_error (md_fields md) i = Some f -> f_oneof f = false -> label_eqb (f_label f) LRepeated = false ->
  f_type f = TMessage ->
  nth_error slots i = Some (SOne h (VMsg (Some em))) -> cell_parse E usub f r (VMsg (Some lm)) ->
  parse_member E usub md (rec_member (f_id f) (Some i) r) (Msg d slots unions unk) =
  (do m <- merge_messages E em lm; Ok (Msg d (set_nth slots i (SOne (hnext f h) (VMsg (Some m)))) unions unk)).
Proof.
  intros f i r d slots unions unk h em lm Hn Ho Hrep Ht Hs Hcp.
  pose proof (cell_parse_sub f r lm Ht Hcp) as Hsub. destruct Hcp as [Hwt Hpr].
  unfold parse_member, rec_member, new_member. cbn [sm_field]. rewrite Hn, Hs.
  assert (Hcall : parse_required E usub f
                    {| sm_tag := f_id f; sm_wt := r_wt r; sm_field := Some i; sm_len := zlen (r_payload r);
                       sm_pref := r_pref r; sm_data := r_payload r |} (VMsg (Some em)) true =
                  (do m <- merge_messages E em lm; Ok (VMsg (Some m)))).
  { apply message_occurrences_merge; [exact Ht | cbn [sm_wt]; rewrite Hwt, Ht; reflexivity | exact Hsub]. }
  unfold hnext. destruct (f_label f) eqn:El; try discriminate Hrep; rewrite ?Ho, Hcall;
    destruct (merge_messages E em lm); reflexivity.
Qed.

(* oneof members *)
Lemma parse_oneof_over : forall f i g v r d slots unions unk ec ev,
  nth_error (md_fields md) i = Some f -> f_oneof f = true -> (f_label f = LOptional \/ f_label f = LNone) ->
  nth_error slots i = Some (SUnion g) -> nth_error unions g = Some (ec, ev) ->
  cell_parse E usub f r v ->
  ((ec = 0 /\ ev = VWord 0) \/
   (ec <> 0 /\ (exists j, find_field md ec = Some j) /\ (ec = f_id f -> f_type f <> TMessage))) ->
  parse_member E usub md (rec_member (f_id f) (Some i) r) (Msg d slots unions unk) =
  Ok (Msg d slots (set_nth unions g (f_id f, v)) unk).
Proof.
  intros f i g v r d slots unions unk ec ev Hn Ho Hl Hs Hu [Hwt Hpr] Hcase.
  unfold parse_member, rec_member, new_member. cbn [sm_field sm_tag]. rewrite Hn, Hs, Hu.
  assert (Hcall : parse_required E usub f
                    {| sm_tag := f_id f; sm_wt := r_wt r; sm_field := Some i; sm_len := zlen (r_payload r);
                       sm_pref := r_pref r; sm_data := r_payload r |} (VWord 0) true = Ok v).
  { rewrite Hwt. apply (Hpr i (VWord 0) true). intros _ _. reflexivity. }
  assert (Hc0 : (do cell0 <- (if negb (ec =? 0) && negb ((ec =? f_id f) && ftype_eqb (f_type f) TMessage)
                              then match find_field md ec with None => Err EFail | Some _ => Ok (VWord 0) end
                              else Ok ev);
                 do v0 <- parse_required E usub f
                    {| sm_tag := f_id f; sm_wt := r_wt r; sm_field := Some i; sm_len := zlen (r_payload r);
                       sm_pref := r_pref r; sm_data := r_payload r |} cell0 true;
                 Ok (Msg d slots (set_nth unions g (f_id f, v0)) unk)) =
                Ok (Msg d slots (set_nth unions g (f_id f, v)) unk)).
  { destruct Hcase as [[-> ->] | (Hne & (j & Hj) & Hnm)].
    - change (0 =? 0) with true. cbn [negb andb bind]. rewrite Hcall. reflexivity.
    - replace (ec =? 0) with false by lia. cbn [negb andb].
      assert (Hb : (ec =? f_id f) && ftype_eqb (f_type f) TMessage = false).
      { destruct (Z.eqb_spec ec (f_id f)) as [Ee|Ee]; [|reflexivity]. cbn [andb].
        specialize (Hnm Ee). destruct (f_type f); try reflexivity. congruence. }
      rewrite Hb. cbn [negb]. rewrite Hj. cbn [bind]. rewrite Hcall. reflexivity. }
  destruct Hl as [El | El]; rewrite El, Ho; exact Hc0.
Qed.

Lemma parse_oneof_merge : forall f i g r d slots unions unk em lm,
  nth_error (md_fields md) i = Some f -> f_oneof f = true -> (f_label f = LOptional \/ f_label f = LNone) ->
  f_type f = TMessage -> f_id f <> 0 ->
  nth_error slots i = Some (SUnion g) -> nth_error unions g = Some (f_id f, VMsg (Some em)) ->
  cell_parse E usub f r (VMsg (Some lm)) ->
  parse_member E usub md (rec_member (f_id f) (Some i) r) (Msg d slots unions unk) =
  (do m <- merge_messages E em lm; Ok (Msg d slots (set_nth unions g (f_id f, VMsg (Some m))) unk)).
Proof.
  intros f i g r d slots unions unk em lm Hn Ho Hl Ht Hid Hs Hu Hcp.
  pose proof (cell_parse_sub f r lm Ht Hcp) as Hsub. destruct Hcp as [Hwt Hpr].
  unfold parse_member, rec_member, new_member. cbn [sm_field sm_tag]. rewrite Hn, Hs, Hu.
  assert (Hcall : parse_required E usub f
                    {| sm_tag := f_id f; sm_wt := r_wt r; sm_field := Some i; sm_len := zlen (r_payload r);
                       sm_pref := r_pref r; sm_data := r_payload r |} (VMsg (Some em)) true =
                  (do m <- merge_messages E em lm; Ok (VMsg (Some m)))).
  { apply message_occurrences_merge; [exact Ht | cbn [sm_wt]; rewrite Hwt, Ht; reflexivity | exact Hsub]. }
  rewrite Z.eqb_refl, Ht. cbn [ftype_eqb andb negb]. rewrite andb_false_r. cbn [bind].
  destruct Hl as [El | El]; rewrite El, Ho, Hcall; destruct (merge_messages E em lm); reflexivity.
Qed.

End Over.

(* ---------- merge_slot on two canonical singular slots *)
Section MergeSlot.
Variable E : env.
Variable nu : nat.
Notation rec := (merge_messages E).
Notation cnm := (canon_msg E).

Lemma canon_sone_cases : forall um f h v,
  field_ok nu f = true -> f_oneof f = false -> canon_slot cnm um f (SOne h v) = true ->
  (f_label f = LRequired /\ h = 0 /\ canon_cell cnm f v = true) \/
  (f_label f = LOptional /\ f_quant f = QHas /\ f_type f <> TString /\ f_type f <> TMessage /\
     ((h = 0 /\ v = init_cell f) \/ (h = 1 /\ canon_cell cnm f v = true))) \/
  (f_label f = LOptional /\ f_quant f = QNone /\ (f_type f = TString \/ f_type f = TMessage) /\ h = 0 /\
     (v = init_cell f \/ canon_cell cnm f v = true)) \/
  (f_label f = LNone /\ f_quant f = QNone /\ h = 0 /\
     (v = init_cell f \/ (canon_cell cnm f v = true /\ zeroish f v = Ok false))).
Proof.
  intros um f h v Hfo Ho C. unfold field_ok in Hfo. rewrite !andb_true_iff in Hfo. destruct Hfo as [[[_ Hlq] _] _].
  unfold canon_slot in C. rewrite Ho in Hlq.
  destruct (f_label f) eqn:El; try discriminate C.
  - left. apply andb_true_iff in C. destruct C as [Hh Cv]. split; [reflexivity|]. split; [lia | exact Cv].
  - destruct (f_quant f) eqn:Eq; try discriminate Hlq.
    + right. right. left. cbn [negb andb] in Hlq. apply andb_true_iff in C. destruct C as [Hh C].
      split; [reflexivity|]. split; [reflexivity|]. split.
      { apply orb_true_iff in Hlq. destruct Hlq as [H|H]; [left | right]; destruct (f_type f); try discriminate H; reflexivity. }
      split; [lia|]. apply orb_true_iff in C. destruct C as [Ci|Cv]; [left; apply shallow_eq; exact Ci | right; exact Cv].
    + right. left. cbn [negb andb] in Hlq. apply andb_true_iff in Hlq. destruct Hlq as [Hns Hnm].
      split; [reflexivity|]. split; [reflexivity|].
      split; [intros Ht; rewrite Ht in Hns; discriminate Hns|]. split; [intros Ht; rewrite Ht in Hnm; discriminate Hnm|].
      destruct (Z.eqb_spec h 0) as [-> | Hh].
      * left. split; [reflexivity | apply shallow_eq; exact C].
      * right. apply andb_true_iff in C. destruct C as [Hh1 Cv]. split; [lia | exact Cv].
  - destruct (f_quant f) eqn:Eq; try discriminate Hlq.
    right. right. right. apply andb_true_iff in C. destruct C as [Hh C].
    split; [reflexivity|]. split; [reflexivity|]. split; [lia|].
    apply orb_true_iff in C. destruct C as [Ci|Cv]; [left; apply shallow_eq; exact Ci|].
    right. apply andb_true_iff in Cv. destruct Cv as [Cv Hz]. split; [exact Cv|].
    destruct (zeroish f v) as [[|]|]; try discriminate Hz. reflexivity.
Qed.

Lemma init_str_dflt : forall f, f_type f = TString -> exists p, init_cell f = VStr p /\ str_is_dflt f p = true.
Proof.
  intros f Ht. unfold init_cell. rewrite Ht. destruct (f_default f) eqn:Ed.
  - exists PDef. split; reflexivity.
  - exists PNull. split; [reflexivity|]. unfold str_is_dflt. rewrite Ed. reflexivity.
Qed.

Lemma canon_str : forall f v, f_type f = TString -> canon_cell cnm f v = true -> exists s, v = VStr (PHeap s).
Proof.
  intros f v Ht C. unfold canon_cell in C. rewrite Ht in C. destruct v as [|[| |s]| |]; try discriminate C. exists s. reflexivity.
Qed.

Lemma canon_msgv : forall f v, f_type f = TMessage -> canon_cell cnm f v = true ->
  exists m, v = VMsg (Some m) /\ cnm m = true /\ m_desc m = f_sub f.
Proof.
  intros f v Ht C. unfold canon_cell in C. rewrite Ht in C. destruct v as [| | |[m|]]; try discriminate C.
  apply andb_true_iff in C. destruct C as [C D]. apply Nat.eqb_eq in D. exists m. auto.
Qed.

(* --- the later message does not have the field *)
Lemma absent_str : forall f h v1, f_type f = TString -> (f_label f = LOptional \/ f_label f = LNone) ->
  (v1 = init_cell f \/ canon_cell cnm f v1 = true) ->
  merge_slot rec f (SOne h v1) (SOne h (init_cell f)) = Ok (SOne h v1).
Proof.
  intros f h v1 Ht Hl Hv. destruct (init_str_dflt f Ht) as (p0 & Hi & Hd).
  unfold merge_slot. rewrite Ht. rewrite Hi.
  assert (G : (do ep <- as_str v1; do lp <- as_str (VStr p0);
               if negb (str_is_dflt f ep) && str_is_dflt f lp then Ok (SOne h v1) else Ok (SOne h (VStr p0))) = Ok (SOne h v1)).
  { destruct Hv as [-> | C].
    - rewrite Hi. cbn [as_str bind]. rewrite Hd. reflexivity.
    - destruct (canon_str f v1 Ht C) as (s & ->). cbn [as_str bind str_is_dflt negb]. rewrite Hd. reflexivity. }
  destruct Hl as [El|El]; rewrite El; exact G.
Qed.

Lemma absent_msg : forall f h v1, f_type f = TMessage -> (f_label f = LOptional \/ f_label f = LNone) ->
  (v1 = init_cell f \/ canon_cell cnm f v1 = true) ->
  merge_slot rec f (SOne h v1) (SOne h (init_cell f)) = Ok (SOne h v1).
Proof.
  intros f h v1 Ht Hl Hv.
  assert (Hi : init_cell f = VMsg None) by (unfold init_cell; rewrite Ht; reflexivity).
  unfold merge_slot. rewrite Ht, Hi.
  destruct Hv as [-> | C].
  - rewrite Hi. destruct Hl as [El|El]; rewrite El; reflexivity.
  - destruct (canon_msgv f v1 Ht C) as (m & -> & _). destruct Hl as [El|El]; rewrite El; reflexivity.
Qed.

Lemma absent_none_other : forall f h v1, f_label f = LNone -> f_quant f = QNone ->
  f_type f <> TString -> f_type f <> TMessage ->
  zeroish f (init_cell f) = Ok true ->
  (v1 = init_cell f \/ zeroish f v1 = Ok false) ->
  merge_slot rec f (SOne h v1) (SOne h (init_cell f)) = Ok (SOne h v1).
Proof.
  intros f h v1 El Eq Hns Hnm Hz Hv. unfold merge_slot. rewrite El, Eq.
  assert (G : (do ze <- zeroish f v1; do zl <- zeroish f (init_cell f);
               if negb ze && zl then Ok (SOne h v1) else Ok (SOne h (init_cell f))) = Ok (SOne h v1)).
  { destruct Hv as [-> | Hv]; [rewrite Hz | rewrite Hv, Hz]; reflexivity. }
  destruct (f_type f); try congruence; exact G.
Qed.

Lemma absent_has : forall f h1 v1, f_label f = LOptional -> f_quant f = QHas ->
  f_type f <> TString -> f_type f <> TMessage ->
  ((h1 = 0 /\ v1 = init_cell f) \/ h1 = 1) ->
  merge_slot rec f (SOne h1 v1) (SOne 0 (init_cell f)) = Ok (SOne h1 v1).
Proof.
  intros f h1 v1 El Eq Hns Hnm Hv. unfold merge_slot. rewrite El, Eq.
  assert (G : (if negb (h1 =? 0) && (0 =? 0) then Ok (SOne h1 v1) else Ok (SOne 0 (init_cell f))) = Ok (SOne h1 v1)).
  { destruct Hv as [[-> ->] | ->]; reflexivity. }
  destruct (f_type f); try congruence; exact G.
Qed.

Lemma merge_absent : forall um f h1 v1,
  field_ok nu f = true -> f_oneof f = false -> f_label f <> LRequired ->
  (f_label f = LNone -> zeroish f (init_cell f) = Ok true) ->
  canon_slot cnm um f (SOne h1 v1) = true ->
  merge_slot rec f (SOne h1 v1) (SOne 0 (init_cell f)) = Ok (SOne h1 v1).
Proof.
  intros um f h1 v1 Hfo Ho Hnr Hz C.
  destruct (canon_sone_cases um f h1 v1 Hfo Ho C) as [(El & _) | [(El & Eq & Hns & Hnm & Hv) | [(El & Eq & Hsm & -> & Hv) | (El & Eq & -> & Hv)]]].
  - contradiction.
  - apply absent_has; try assumption. destruct Hv as [Hv | [Hv _]]; [left; exact Hv | right; exact Hv].
  - destruct Hsm as [Ht|Ht]; [apply absent_str | apply absent_msg]; auto.
  - destruct (ftype_eqb (f_type f) TString) eqn:Es.
    { assert (Ht : f_type f = TString) by (destruct (f_type f); try discriminate Es; reflexivity).
      apply absent_str; auto. destruct Hv as [Hv | [Hv _]]; auto. }
    destruct (ftype_eqb (f_type f) TMessage) eqn:Em.
    { assert (Ht : f_type f = TMessage) by (destruct (f_type f); try discriminate Em; reflexivity).
      apply absent_msg; auto. destruct Hv as [Hv | [Hv _]]; auto. }
    apply absent_none_other; auto.
    + intros Ht. rewrite Ht in Es. discriminate Es.
    + intros Ht. rewrite Ht in Em. discriminate Em.
    + destruct Hv as [Hv | [_ Hv]]; auto.
Qed.

(* --- the later message has the field *)
Lemma present_nomerge : forall um f h1 v1 v2,
  field_ok nu f = true -> f_oneof f = false -> f_label f <> LRepeated ->
  (f_label f = LNone -> zeroish f (init_cell f) = Ok true) ->
  canon_slot cnm um f (SOne h1 v1) = true ->
  canon_cell cnm f v2 = true -> (f_label f = LNone -> zeroish f v2 = Ok false) ->
  (f_type f = TMessage -> v1 = VMsg None) ->
  merge_slot rec f (SOne h1 v1) (SOne (hflag f) v2) = Ok (SOne (hflag f) v2).
Proof.
  intros um f h1 v1 v2 Hfo Ho Hnrep Hz C1 C2 Hz2 Hm.
  destruct (canon_sone_cases um f h1 v1 Hfo Ho C1) as [(El & _) | [(El & Eq & Hns & Hnm & Hv) | [(El & Eq & Hsm & -> & Hv) | (El & Eq & -> & Hv)]]].
  - (* required: a sub-message would be merged, but the earlier message has none; anything else is replaced *)
    unfold merge_slot. rewrite El.
    destruct (ftype_eqb (f_type f) TMessage) eqn:Em.
    + assert (Ht : f_type f = TMessage) by (destruct (f_type f); try discriminate Em; reflexivity).
      rewrite (Hm Ht). rewrite Ht. reflexivity.
    + destruct (f_type f); try discriminate Em; reflexivity.
  - unfold merge_slot, hflag. rewrite El, Eq.
    assert (G : (if negb (h1 =? 0) && (1 =? 0) then Ok (SOne h1 v1) else Ok (SOne 1 v2)) = Ok (SOne 1 v2))
      by (rewrite andb_false_r; reflexivity).
    destruct (f_type f); try congruence; exact G.
  - assert (Hh : hflag f = 0) by (unfold hflag; rewrite El, Eq; reflexivity). rewrite Hh.
    destruct Hsm as [Ht|Ht].
    + destruct (canon_str f v2 Ht C2) as (s2 & ->). unfold merge_slot. rewrite El, Ht.
      assert (exists p1, v1 = VStr p1) as (p1 & ->).
      { destruct Hv as [-> | Cv]; [destruct (init_str_dflt f Ht) as (p & -> & _); eauto | destruct (canon_str f v1 Ht Cv) as (s & ->); eauto]. }
      cbn [as_str bind str_is_dflt]. rewrite andb_false_r. reflexivity.
    + rewrite (Hm Ht). destruct (canon_msgv f v2 Ht C2) as (m2 & -> & _).
      unfold merge_slot. rewrite El, Ht. reflexivity.
  - assert (Hh : hflag f = 0) by (unfold hflag; rewrite El, Eq; reflexivity). rewrite Hh.
    destruct (ftype_eqb (f_type f) TString) eqn:Es.
    { assert (Ht : f_type f = TString) by (destruct (f_type f); try discriminate Es; reflexivity).
      destruct (canon_str f v2 Ht C2) as (s2 & ->). unfold merge_slot. rewrite El, Ht.
      assert (exists p1, v1 = VStr p1) as (p1 & ->).
      { destruct Hv as [-> | [Cv _]]; [destruct (init_str_dflt f Ht) as (p & -> & _); eauto | destruct (canon_str f v1 Ht Cv) as (s & ->); eauto]. }
      cbn [as_str bind str_is_dflt]. rewrite andb_false_r. reflexivity. }
    destruct (ftype_eqb (f_type f) TMessage) eqn:Em.
    { assert (Ht : f_type f = TMessage) by (destruct (f_type f); try discriminate Em; reflexivity).
      rewrite (Hm Ht). destruct (canon_msgv f v2 Ht C2) as (m2 & -> & _).
      unfold merge_slot. rewrite El, Ht. reflexivity. }
    unfold merge_slot. rewrite El, Eq.
    assert (G : (do ze <- zeroish f v1; do zl <- zeroish f v2;
                 if negb ze && zl then Ok (SOne 0 v1) else Ok (SOne 0 v2)) = Ok (SOne 0 v2)).
    { rewrite (Hz2 El). destruct Hv as [-> | [_ Hv]]; [rewrite (Hz El) | rewrite Hv]; reflexivity. }
    destruct (f_type f); try discriminate Es; try discriminate Em; exact G.
Qed.

(* a sub-message present in both is merged recursively -- optional, implicit presence, and (since the repair of
   merge_messages) required alike *)
Lemma present_merge : forall f h1 h2 em lm, f_type f = TMessage -> f_label f <> LRepeated ->
  merge_slot rec f (SOne h1 (VMsg (Some em))) (SOne h2 (VMsg (Some lm))) =
  (do m <- rec em lm; Ok (SOne h2 (VMsg (Some m)))).
Proof.
  intros f h1 h2 em lm Ht Hl. unfold merge_slot.
  destruct (f_label f); try (rewrite Ht; reflexivity). exfalso. apply Hl. reflexivity.
Qed.

End MergeSlot.

(* ---------- merge_union on canonical unions *)
Section MergeUnion.
Variable E : env.
Variable md : mdesc.
Hypothesis D : desc_ok (length E) md = true.
Notation rec := (merge_messages E).
Notation cnm := (canon_msg E).

(* the union is unset, or selects a member of its group *)
Definition ucanon (um : list (Z * sval)) (g : nat) : Prop :=
  (fst (nth g um (0, VWord 0)) = 0 /\ snd (nth g um (0, VWord 0)) = VWord 0) \/
  (fst (nth g um (0, VWord 0)) <> 0 /\
   exists j f', nth_error (md_fields md) j = Some f' /\ f_id f' = fst (nth g um (0, VWord 0)) /\ f_quant f' = QCase g).

Lemma canon_unions_ucanon : forall um g, canon_unions (md_fields md) 0 um = true -> ucanon um g.
Proof.
  intros um g CU. unfold ucanon. destruct (nth_error um g) as [cv|] eqn:Ecv.
  - rewrite (nth_error_nth um g (0, VWord 0) Ecv).
    destruct (canon_unions_nth _ _ 0%nat g cv CU Ecv) as [Hex | Hzero].
    + apply existsb_exists in Hex. destruct Hex as (f' & Hin & Hf). apply andb_true_iff in Hf. destruct Hf as [Hid Hq].
      apply Z.eqb_eq in Hid. cbn [Nat.add] in Hq.
      destruct (f_quant f') as [| |g'|] eqn:Eq; try discriminate Hq. apply Nat.eqb_eq in Hq. subst g'.
      destruct (desc_ok_fields _ _ D f' Hin) as (_ & Hr & _).
      right. split; [lia|]. apply In_nth_error in Hin. destruct Hin as (j & Hj). exists j, f'. auto.
    + apply andb_true_iff in Hzero. destruct Hzero as [Hc Hz]. apply Z.eqb_eq in Hc. apply shallow_eq in Hz. left. auto.
  - rewrite (nth_overflow um (0, VWord 0)) by (apply nth_error_None; exact Ecv). left. split; reflexivity.
Qed.

Lemma find_group : forall i f g, nth_error (md_fields md) i = Some f -> f_quant f = QCase g ->
  find_by_id (filter (fun f' => in_group f' g) (md_fields md)) (f_id f) = Some f.
Proof.
  intros i f g Hn Hq. unfold find_by_id.
  destruct (find (fun f' => f_id f' =? f_id f) (filter (fun f' => in_group f' g) (md_fields md))) as [f'|] eqn:Ef.
  - apply find_some in Ef. destruct Ef as [Hin Hid]. apply filter_In in Hin. destruct Hin as [Hin _].
    apply Z.eqb_eq in Hid. apply In_nth_error in Hin. destruct Hin as (j & Hj).
    assert (j = i) by (apply (field_index_unique (length E) md D j i f' f Hj Hn Hid)). subst j. congruence.
  - exfalso. assert (Hin : In f (filter (fun f' => in_group f' g) (md_fields md))).
    { apply filter_In. split; [eapply nth_error_In; eauto|]. unfold in_group. rewrite Hq. apply Nat.eqb_refl. }
    pose proof (find_none _ _ Ef f Hin) as Hc. cbn beta in Hc. rewrite Z.eqb_refl in Hc. discriminate Hc.
Qed.

(* the later message sets the oneof: its member wins, unless it is the same sub-message member *)
Lemma merge_union_replace : forall i f g ec ev lv,
  nth_error (md_fields md) i = Some f -> f_quant f = QCase g -> f_id f <> 0 ->
  (ec = f_id f -> f_type f <> TMessage) ->
  merge_union rec md g (ec, ev) (f_id f, lv) = Ok (f_id f, lv).
Proof.
  intros i f g ec ev lv Hn Hq Hid Hnm.
  destruct (Z.eq_dec (f_id f) ec) as [Ee|Ee]; [|apply merge_union_later_sets; assumption].
  unfold merge_union. replace (f_id f =? 0) with false by lia. replace (f_id f =? ec) with true by lia.
  rewrite (find_group i f g Hn Hq). specialize (Hnm (eq_sym Ee)). destruct (f_type f); try reflexivity. congruence.
Qed.

Lemma merge_union_submsg : forall i f g em lm,
  nth_error (md_fields md) i = Some f -> f_quant f = QCase g -> f_id f <> 0 -> f_type f = TMessage ->
  merge_union rec md g (f_id f, VMsg (Some em)) (f_id f, VMsg (Some lm)) =
  (do m <- rec em lm; Ok (f_id f, VMsg (Some m))).
Proof.
  intros i f g em lm Hn Hq Hid Ht. unfold merge_union. replace (f_id f =? 0) with false by lia. rewrite Z.eqb_refl.
  rewrite (find_group i f g Hn Hq), Ht. reflexivity.
Qed.

(* the later message leaves the oneof unset: the earlier state is carried over *)
Lemma merge_union_unset : forall g ec ev,
  ((ec = 0 /\ ev = VWord 0) \/
   (ec <> 0 /\ exists j f', nth_error (md_fields md) j = Some f' /\ f_id f' = ec /\ f_quant f' = QCase g /\
                           (f_type f' = TMessage -> exists em, ev = VMsg (Some em)))) ->
  merge_union rec md g (ec, ev) (0, VWord 0) = Ok (ec, ev).
Proof.
  intros g ec ev [[-> ->] | (Hne & j & f' & Hj & Hid & Hq & Hm)]; [reflexivity|].
  unfold merge_union. change (0 =? 0) with true. replace (ec =? 0) with false by lia. cbv iota.
  rewrite <- Hid. rewrite (find_field_known (length E) md D j f' Hj), Hj.
  unfold in_group. rewrite Hq, Nat.eqb_refl. cbn [negb].
  destruct (f_type f') eqn:Et; try reflexivity.
  destruct (Hm eq_refl) as (em & ->). reflexivity.
Qed.

End MergeUnion.

(* ---------- the later message's package on top of the earlier message's slot = merge_messages on the two *)
Section FieldMerge.
Variable E : env.
Hypothesis EO : env_ok E = true.
Variable usub : nat -> list Z -> res msg.
Variable md : mdesc.
Hypothesis D : desc_ok (length E) md = true.
Variable nu : nat.
Notation rec := (merge_messages E).
Notation cnm := (canon_msg E).
Notation shp := (shape_msg E).

(* the sub-message a slot holds for field f, if any, is well-shaped *)
Definition sub_shaped (f : field) (s : slot) (um : list (Z * sval)) : Prop :=
  forall em,
    match s with
    | SOne _ v => v = VMsg (Some em)
    | SUnion g => nth g um (0, VWord 0) = (f_id f, VMsg (Some em))
    | SRep _ _ _ => False
    end -> shp em = true.

Definition mconcl (i : nat) (f : field) (s1 s2 : slot) (um1 um2 : list (Z * sval)) (recs2 : list wrec) : Prop :=
  exists s12 u12,
    merge_slot rec f s1 s2 = Ok s12 /\
    (forall g, s2 = SUnion g -> recs2 <> [] ->
       merge_union rec md g (nth g um1 (0, VWord 0)) (nth g um2 (0, VWord 0)) = Ok u12) /\
    forall d slots unions unk,
      nth_error slots i = Some (mid s1 (slot_n s2)) ->
      (forall g, s2 = SUnion g -> recs2 <> [] -> nth_error unions g = Some (nth g um1 (0, VWord 0))) ->
      parse_members E usub md (members_of f i recs2) (Msg d slots unions unk) =
      Ok (Msg d (set_nth slots i s12)
              (match s2, recs2 with SUnion g, _ :: _ => set_nth unions g u12 | _, _ => unions end) unk).

Lemma canon_rep_cases : forall um f n c a, canon_slot cnm um f (SRep n c a) = true ->
  f_label f = LRepeated /\
  ((n = 0 /\ c = 0 /\ a = None) \/ (exists l, a = Some l /\ 0 < n /\ n = zlen l /\ c = n /\ n < 268435456)).
Proof.
  intros um f n c a C. unfold canon_slot in C. destruct (f_label f); try discriminate C. split; [reflexivity|].
  destruct a as [l|].
  - right. rewrite !andb_true_iff in C. exists l. split; [reflexivity|]. lia.
  - left. apply andb_true_iff in C. split; [lia|]. split; [lia | reflexivity].
Qed.

Lemma field_merge_rep : forall i f n1 c1 a1 n2 c2 a2 um1 um2 recs2 F2,
  nth_error (md_fields md) i = Some f ->
  canon_slot cnm um1 f (SRep n1 c1 a1) = true -> canon_slot cnm um2 f (SRep n2 c2 a2) = true ->
  fpkg_with E usub md recs2 i f (SRep n2 c2 a2) um2 F2 ->
  mconcl i f (SRep n1 c1 a1) (SRep n2 c2 a2) um1 um2 recs2.
Proof.
  intros i f n1 c1 a1 n2 c2 a2 um1 um2 recs2 F2 Hn C1 C2 P2.
  destruct (canon_rep_cases _ _ _ _ _ C1) as [El R1]. destruct (canon_rep_cases _ _ _ _ _ C2) as [_ R2].
  destruct P2 as (_ & _ & _ & _ & _ & Hparse).
  assert (Hn2 : 0 <= n2 < 268435456) by (destruct R2 as [(-> & _) | (l & _ & H0 & _ & _ & H1)]; lia).
  destruct R1 as [(-> & -> & ->) | (l1 & -> & Hp1 & Hl1 & -> & Hb1)].
  - (* nothing in the earlier message *)
    assert (Hmid : mid (SRep 0 0 None) n2 = alloc_init f (SRep n2 c2 a2)).
    { cbn [mid alloc_init elems]. rewrite Z.add_0_l. destruct (n2 =? 0); [reflexivity|]. rewrite u32_small by lia. reflexivity. }
    exists (SRep n2 c2 a2), (0, VWord 0). split; [unfold merge_slot; rewrite El; reflexivity|].
    split; [intros g Hg; discriminate Hg|].
    intros d slots unions unk Hslot _. cbn [slot_n] in Hslot. rewrite Hmid in Hslot.
    exact (Hparse d slots unions unk Hslot ltac:(intros g Hg; discriminate Hg)).
  - exists (SRep (n1 + n2) (n1 + n2) (Some (l1 ++ elems a2))), (0, VWord 0). split.
    { unfold merge_slot. rewrite El. replace (n1 >? 0) with true by lia.
      destruct R2 as [(-> & -> & ->) | (l2 & -> & Hp2 & Hl2 & -> & Hb2)].
      - cbn [Z.gtb Z.compare elems]. rewrite Z.add_0_r, app_nil_r. reflexivity.
      - replace (n2 >? 0) with true by lia. replace ((n1 <=? zlen l1) && (n2 <=? zlen l2)) with true by lia.
        rewrite Hl1, Hl2, !firstn_zlen. reflexivity. }
    split; [intros g Hg; discriminate Hg|].
    intros d slots unions unk Hslot _. cbn [slot_n mid elems] in Hslot.
    replace (n1 + n2 =? 0) with false in Hslot by lia.
    assert (Hil : (i < length slots)%nat) by (apply nth_error_Some; rewrite Hslot; discriminate).
    set (slotsX := set_nth slots i (alloc_init f (SRep n2 c2 a2))).
    pose proof (Hparse d slotsX unions unk (nth_error_set_nth _ slots i _ Hil) ltac:(intros g Hg; discriminate Hg)) as HX.
    assert (HsX : exists cap0 a0, nth_error slotsX i = Some (SRep 0 cap0 a0) /\ elems a0 = []).
    { subst slotsX. rewrite nth_error_set_nth by exact Hil. cbn [alloc_init].
      destruct (n2 =? 0); [exists 0, None | exists (u32 n2), (Some [])]; split; reflexivity. }
    destruct HsX as (cap0 & a0 & HsX & Hel0).
    destruct (rep_shift E usub md i f (members_of f i recs2) d slotsX unions unk 0 cap0 a0 _
                Hn El (members_of_field _ _ _) HsX HX) as (n' & a' & HR & _ & Hshift).
    cbn [m_slots] in HR. subst slotsX. rewrite set_nth_set_nth, nth_error_set_nth in HR by exact Hil.
    inversion HR; subst n' cap0 a'.
    pose proof (Hshift slots n1 (n1 + n2) l1
                  ltac:(rewrite Z.add_0_r, Hel0, app_nil_r; exact Hslot) ltac:(lia)) as Hfin.
    exact Hfin.
Qed.

Lemma hnext_hflag : forall um f h v, field_ok nu f = true -> f_oneof f = false ->
  canon_slot cnm um f (SOne h v) = true -> hnext f h = hflag f.
Proof.
  intros um f h v Hfo Ho C. unfold hnext, hflag.
  destruct (canon_sone_cases E nu um f h v Hfo Ho C) as [(El & -> & _) | [(El & Eq & _) | [(El & Eq & _ & -> & _) | (El & Eq & -> & _)]]];
    rewrite El; try rewrite Eq; reflexivity.
Qed.

Lemma field_merge_single : forall i f h1 v1 h2 v2 um1 um2 recs2 F2,
  nth_error (md_fields md) i = Some f -> field_ok nu f = true -> f_oneof f = false -> f_label f <> LRepeated ->
  (f_label f = LNone -> zeroish f (init_cell f) = Ok true) ->
  canon_slot cnm um1 f (SOne h1 v1) = true ->
  fpkg_with E usub md recs2 i f (SOne h2 v2) um2 F2 -> sing_info E usub recs2 f (SOne h2 v2) um2 ->
  sub_shaped f (SOne h1 v1) um1 -> sub_shaped f (SOne h2 v2) um2 ->
  mconcl i f (SOne h1 v1) (SOne h2 v2) um1 um2 recs2.
Proof.
  intros i f h1 v1 h2 v2 um1 um2 recs2 F2 Hn Hfo Ho Hnrep Hz C1 P2 SI Sh1 Sh2.
  assert (Hrep : label_eqb (f_label f) LRepeated = false) by (destruct (f_label f); try reflexivity; congruence).
  destruct P2 as (_ & _ & _ & Hreq & _ & _).
  destruct SI as [El | [(-> & Habs) | (r & v & -> & Hcp & Cv & Hv2 & Hh2 & Hz2)]]; [contradiction | |].
  - (* absent in the later message *)
    destruct (Habs h2 v2 eq_refl) as [-> ->].
    exists (SOne h1 v1), (0, VWord 0). split.
    { apply (merge_absent E nu um1); try assumption. intros El. apply (Hreq El). reflexivity. }
    split; [intros g Hg; discriminate Hg|].
    intros d slots unions unk Hslot _. cbn [mid members_of map parse_members] in *.
    rewrite (ScanRecs.set_nth_same _ slots i _ Hslot). reflexivity.
  - subst v2 h2.
    assert (Hhn : hnext f h1 = hflag f) by (apply (hnext_hflag um1 f h1 v1); assumption).
    (* is a sub-message merged into an earlier one? *)
    assert (Hcase : (exists em lm, f_type f = TMessage /\
                                   v1 = VMsg (Some em) /\ v = VMsg (Some lm) /\ m_desc em = m_desc lm) \/
                    (f_type f = TMessage -> v1 = VMsg None)).
    { destruct (ftype_eqb (f_type f) TMessage) eqn:Em.
      - assert (Ht : f_type f = TMessage) by (destruct (f_type f); try discriminate Em; reflexivity).
        assert (Hboth : canon_cell cnm f v1 = true ->
                  exists em lm, f_type f = TMessage /\ v1 = VMsg (Some em) /\ v = VMsg (Some lm) /\ m_desc em = m_desc lm).
        { intros Cv1. destruct (canon_msgv E f v1 Ht Cv1) as (em & -> & _ & De). destruct (canon_msgv E f v Ht Cv) as (lm & -> & _ & Dl).
          exists em, lm. split; [exact Ht|]. split; [reflexivity|]. split; [reflexivity | congruence]. }
        destruct (canon_sone_cases E nu um1 f h1 v1 Hfo Ho C1) as [(El & _ & Cv1) | [(El & Eq & _ & Hnm & _) | [(El & Eq & _ & _ & Hv) | (El & Eq & _ & Hv)]]].
        + (* required: the earlier message has the sub-message too, and the two are merged *)
          left. exact (Hboth Cv1).
        + contradiction.
        + destruct Hv as [-> | Cv1].
          * right. intros _. unfold init_cell. rewrite Ht. reflexivity.
          * left. exact (Hboth Cv1).
        + destruct Hv as [-> | [Cv1 _]].
          * right. intros _. unfold init_cell. rewrite Ht. reflexivity.
          * left. exact (Hboth Cv1).
      - right. intros Ht. rewrite Ht in Em. discriminate Em. }
    destruct Hcase as [(em & lm & Ht & -> & -> & Hd) | Hno].
    + destruct (merge_shape E EO em lm (Sh1 em eq_refl) (Sh2 lm eq_refl) Hd) as (m & Hm & _).
      exists (SOne (hflag f) (VMsg (Some m))), (0, VWord 0). split.
      { rewrite (present_merge E f h1 (hflag f) em lm Ht Hnrep), Hm. reflexivity. }
      split; [intros g Hg; discriminate Hg|].
      intros d slots unions unk Hslot _. cbn [mid members_of map parse_members] in *.
      rewrite (parse_single_merge E usub md f i r d slots unions unk h1 em lm Hn Ho Hrep Ht Hslot Hcp).
      rewrite Hm. cbn [bind]. rewrite Hhn. reflexivity.
    + exists (SOne (hflag f) v), (0, VWord 0). split.
      { apply (present_nomerge E nu um1); try assumption. }
      split; [intros g Hg; discriminate Hg|].
      intros d slots unions unk Hslot _. cbn [mid members_of map parse_members] in *.
      rewrite (parse_single_over E usub md f i v r d slots unions unk h1 v1 Hn Ho Hrep Hslot Hcp
                 ltac:(intros Ht; rewrite (Hno Ht); reflexivity)).
      cbn [bind]. rewrite Hhn. reflexivity.
Qed.

Lemma field_merge_oneof : forall i f g um1 um2 recs2 F2,
  nth_error (md_fields md) i = Some f -> f_oneof f = true -> (f_label f = LOptional \/ f_label f = LNone) ->
  f_quant f = QCase g -> 0 < f_id f ->
  canon_slot cnm um1 f (SUnion g) = true ->
  fpkg_with E usub md recs2 i f (SUnion g) um2 F2 -> sing_info E usub recs2 f (SUnion g) um2 ->
  sub_shaped f (SUnion g) um1 -> sub_shaped f (SUnion g) um2 ->
  ucanon md um1 g ->
  mconcl i f (SUnion g) (SUnion g) um1 um2 recs2.
Proof.
  intros i f g um1 um2 recs2 F2 Hn Ho Hl Hq Hid C1 P2 SI Sh1 Sh2 UC.
  assert (Hms : merge_slot rec f (SUnion g) (SUnion g) = Ok (SUnion g)).
  { unfold merge_slot. destruct Hl as [El|El]; rewrite El; reflexivity. }
  destruct SI as [El | [(-> & _) | (r & v & -> & Hcp & Cv & Hv2)]].
  - destruct Hl as [Hl|Hl]; rewrite Hl in El; discriminate El.
  - exists (SUnion g), (0, VWord 0). split; [exact Hms|]. split; [intros g0 _ Hne; exfalso; apply Hne; reflexivity|].
    intros d slots unions unk Hslot _. cbn [mid members_of map parse_members] in *.
    rewrite (ScanRecs.set_nth_same _ slots i _ Hslot). reflexivity.
  - (* the earlier state of the union *)
    unfold canon_slot in C1.
    assert (C1' : with_nth (fun cv : Z * sval => if fst cv =? f_id f then canon_cell cnm f (snd cv) else true) false um1 g = true).
    { destruct Hl as [El|El]; rewrite El in C1; apply andb_true_iff in C1; exact (proj2 C1). }
    destruct (with_nth_cases _ _ (fun cv : Z * sval => if fst cv =? f_id f then canon_cell cnm f (snd cv) else true) false um1 g)
      as [(x & Hx & Hw) | (Hx & Hw)]; rewrite Hw in C1'; [|discriminate C1'].
    destruct x as [ec ev]. cbn [fst snd] in C1'.
    pose proof (nth_error_nth um1 g (0, VWord 0) Hx) as Hnth1.
    unfold ucanon in UC. rewrite Hnth1 in UC. cbn [fst snd] in UC.
    unfold mconcl.
    destruct (Z.eq_dec ec (f_id f)) as [Ee|Ee]; [destruct (ftype_eqb (f_type f) TMessage) eqn:Em|].
    + (* the same sub-message member: merged *)
      assert (Ht : f_type f = TMessage) by (destruct (f_type f); try discriminate Em; reflexivity).
      subst ec. rewrite Z.eqb_refl in C1'.
      destruct (canon_msgv E f ev Ht C1') as (em & -> & _ & De). destruct (canon_msgv E f v Ht Cv) as (lm & -> & _ & Dl).
      destruct (merge_shape E EO em lm (Sh1 em Hnth1) (Sh2 lm Hv2) ltac:(congruence)) as (m & Hm & _).
      exists (SUnion g), (f_id f, VMsg (Some m)). split; [exact Hms|]. split.
      { intros g0 Hg0 _. inversion Hg0; subst g0. rewrite Hnth1, Hv2. rewrite (merge_union_submsg E md D i f g em lm Hn Hq ltac:(lia) Ht), Hm. reflexivity. }
      intros d slots unions unk Hslot Hu. cbn [mid members_of map parse_members] in *.
      pose proof (Hu g eq_refl ltac:(discriminate)) as Hug. rewrite Hnth1 in Hug.
      rewrite (parse_oneof_merge E usub md f i g r d slots unions unk em lm Hn Ho Hl Ht ltac:(lia) Hslot Hug Hcp).
      rewrite Hm. cbn [bind]. rewrite (ScanRecs.set_nth_same _ slots i _ Hslot). reflexivity.
    + assert (Hnm : f_type f <> TMessage) by (intros Ht; rewrite Ht in Em; discriminate Em).
      exists (SUnion g), (f_id f, v). split; [exact Hms|]. split.
      { intros g0 Hg0 _. inversion Hg0; subst g0. rewrite Hnth1, Hv2. apply (merge_union_replace E md D i f g); auto. lia. }
      intros d slots unions unk Hslot Hu. cbn [mid members_of map parse_members] in *.
      pose proof (Hu g eq_refl ltac:(discriminate)) as Hug. rewrite Hnth1 in Hug.
      rewrite (parse_oneof_over E usub md f i g v r d slots unions unk ec ev Hn Ho Hl Hslot Hug Hcp).
      * cbn [bind]. rewrite (ScanRecs.set_nth_same _ slots i _ Hslot). reflexivity.
      * right. split; [lia|]. split; [|intros _; exact Hnm]. exists i. rewrite Ee. apply (find_field_known (length E) md D i f Hn).
    + exists (SUnion g), (f_id f, v). split; [exact Hms|]. split.
      { intros g0 Hg0 _. inversion Hg0; subst g0. rewrite Hnth1, Hv2. apply (merge_union_replace E md D i f g); auto; try lia; intros H; contradiction. }
      intros d slots unions unk Hslot Hu. cbn [mid members_of map parse_members] in *.
      pose proof (Hu g eq_refl ltac:(discriminate)) as Hug. rewrite Hnth1 in Hug.
      rewrite (parse_oneof_over E usub md f i g v r d slots unions unk ec ev Hn Ho Hl Hslot Hug Hcp).
      * cbn [bind]. rewrite (ScanRecs.set_nth_same _ slots i _ Hslot). reflexivity.
      * destruct UC as [[U0 U1] | (Une & j & f' & Hj & Hid' & _)]; [left; auto|].
        right. split; [exact Une|]. split; [|intros H; contradiction]. exists j. rewrite <- Hid'. apply (find_field_known (length E) md D j f' Hj).
Qed.

Theorem field_merge : forall i f s1 s2 um1 um2 recs2 F2,
  nth_error (md_fields md) i = Some f -> field_ok nu f = true -> 0 < f_id f ->
  (f_label f = LNone -> zeroish f (init_cell f) = Ok true) ->
  kind_ok f s1 -> kind_ok f s2 ->
  canon_slot cnm um1 f s1 = true -> canon_slot cnm um2 f s2 = true ->
  fpkg_with E usub md recs2 i f s2 um2 F2 -> sing_info E usub recs2 f s2 um2 ->
  sub_shaped f s1 um1 -> sub_shaped f s2 um2 ->
  (forall g, s2 = SUnion g -> ucanon md um1 g) ->
  mconcl i f s1 s2 um1 um2 recs2.
Proof.
  intros i f s1 s2 um1 um2 recs2 F2 Hn Hfo Hid Hz K1 K2 C1 C2 P2 SI Sh1 Sh2 UC.
  pose proof Hfo as Hfo'. unfold field_ok in Hfo'. rewrite !andb_true_iff in Hfo'. destruct Hfo' as [[[_ Hlq] _] _].
  unfold kind_ok in K1, K2.
  destruct (f_label f) eqn:El.
  - destruct s1 as [h1 v1| |g1]; try contradiction; destruct s2 as [h2 v2| |g2]; try contradiction;
      try (rewrite K1 in Hlq; discriminate Hlq); try (rewrite K2 in Hlq; discriminate Hlq).
    apply (field_merge_single i f h1 v1 h2 v2 um1 um2 recs2 F2); try assumption; try (rewrite El; assumption); try (rewrite El; discriminate).
    destruct (f_quant f); try discriminate Hlq. apply negb_true_iff in Hlq. exact Hlq.
  - destruct s1 as [h1 v1| |g1]; try contradiction; destruct s2 as [h2 v2| |g2]; try contradiction.
    + apply (field_merge_single i f h1 v1 h2 v2 um1 um2 recs2 F2); try assumption; try (rewrite El; assumption); try (rewrite El; discriminate).
      destruct (f_quant f) as [| |g|] eqn:Eq; try discriminate Hlq; try (exfalso; exact (K1 g eq_refl)).
      * apply andb_true_iff in Hlq. destruct Hlq as [Ho _]. apply negb_true_iff in Ho. exact Ho.
      * rewrite !andb_true_iff in Hlq. destruct Hlq as [[Ho _] _]. apply negb_true_iff in Ho. exact Ho.
    + exfalso. exact (K1 g2 K2).
    + exfalso. exact (K2 g1 K1).
    + assert (g2 = g1) by congruence. subst g2. rewrite K1 in Hlq. apply andb_true_iff in Hlq. destruct Hlq as [Ho _].
      apply (field_merge_oneof i f g1 um1 um2 recs2 F2); try assumption; [left; exact El | apply UC; reflexivity].
  - destruct s1 as [|n1 c1 a1|]; try contradiction; destruct s2 as [|n2 c2 a2|]; try contradiction.
    apply (field_merge_rep i f n1 c1 a1 n2 c2 a2 um1 um2 recs2 F2); assumption.
  - destruct s1 as [h1 v1| |g1]; try contradiction; destruct s2 as [h2 v2| |g2]; try contradiction.
    + apply (field_merge_single i f h1 v1 h2 v2 um1 um2 recs2 F2); try assumption; try (rewrite El; assumption); try (rewrite El; discriminate).
      destruct (f_quant f) as [| |g|] eqn:Eq; try discriminate Hlq; try (exfalso; exact (K1 g eq_refl)).
      apply negb_true_iff in Hlq. exact Hlq.
    + exfalso. exact (K1 g2 K2).
    + exfalso. exact (K2 g1 K1).
    + assert (g2 = g1) by congruence. subst g2. rewrite K1 in Hlq. apply andb_true_iff in Hlq. destruct Hlq as [Ho _].
      apply (field_merge_oneof i f g1 um1 um2 recs2 F2); try assumption; [right; exact El | apply UC; reflexivity].
Qed.

End FieldMerge.

(* C09: unknown fields are retained in arrival order with their exact bytes, and written out again. *)
From Coq Require Import ZArith List Bool Lia.
From PBC Require Import Base.CInt Gen.LeafC Impl.Desc Impl.Mem Impl.Enc Impl.Pack Impl.Unpack Proofs.Required.
Import ListNotations.
Local Open Scope Z_scope.

Definition ufield_of (sm : smember) : ufield := {| u_tag := sm_tag sm; u_wt := sm_wt sm; u_data := sm_data sm |}.
Definition unknown_of (sm : smember) : list ufield := match sm_field sm with None => [ufield_of sm] | Some _ => [] end.

Section U.
Variable E : env.
Variable usub : nat -> list Z -> res msg.

Lemma parse_member_unk : forall md sm m m', parse_member E usub md sm m = Ok m' ->
  m_unk m' = m_unk m ++ unknown_of sm /\ m_desc m' = m_desc m.
Proof.
  intros md sm [d slots unions unk] m' H. unfold parse_member in H. unfold unknown_of.
  destruct (sm_field sm) as [i|].
  2:{ inversion H; subst. split; reflexivity. }
  destruct (nth_error (md_fields md) i) as [f|]; [|discriminate H].
  destruct (nth_error slots i) as [s|]; [|discriminate H].
  assert (Hdone : forall r : res msg, (exists sl un, r = Ok (Msg d sl un unk)) \/ (exists e, r = Err e) -> r = Ok m' ->
            m_unk m' = unk ++ [] /\ m_desc m' = d).
  { intros r [(sl & un & ->) | (e & ->)] Hr; [inversion Hr; subst; rewrite app_nil_r; split; reflexivity | discriminate Hr]. }
  cbn [m_unk m_desc]. apply (Hdone _ ) in H; [exact H|]. clear H Hdone.
  destruct (f_label f).
  - destruct s; try (right; eauto; fail).
    destruct (parse_required E usub f sm v true); cbn [bind]; [left; eauto | right; eauto].
  - destruct (f_oneof f).
    + destruct s; try (right; eauto; fail). destruct (nth_error unions g) as [[case cell]|]; [|right; eauto].
      match goal with |- context [do cell0 <- ?X; _] => destruct X as [c0|] end; cbn [bind]; [|right; eauto].
      destruct (parse_required E usub f sm c0 true); cbn [bind]; [left; eauto | right; eauto].
    + destruct s; try (right; eauto; fail).
      destruct (parse_required E usub f sm v true); cbn [bind]; [left; eauto | right; eauto].
  - destruct (packed_arrival f (sm_wt sm)).
    + destruct (parse_packed f sm) as [vs|]; cbn [bind]; [|right; eauto].
      destruct (append_elems s vs); cbn [bind]; [left; eauto | right; eauto].
    + destruct (parse_required E usub f sm (VWord 0) false) as [v1|]; cbn [bind]; [|right; eauto].
      destruct (append_elems s [v1]); cbn [bind]; [left; eauto | right; eauto].
  - destruct (f_oneof f).
    + destruct s; try (right; eauto; fail). destruct (nth_error unions g) as [[case cell]|]; [|right; eauto].
      match goal with |- context [do cell0 <- ?X; _] => destruct X as [c0|] end; cbn [bind]; [|right; eauto].
      destruct (parse_required E usub f sm c0 true); cbn [bind]; [left; eauto | right; eauto].
    + destruct s; try (right; eauto; fail).
      destruct (parse_required E usub f sm v true); cbn [bind]; [left; eauto | right; eauto].
Qed.

Lemma parse_members_unk : forall md sms m m', parse_members E usub md sms m = Ok m' ->
  m_unk m' = m_unk m ++ flat_map unknown_of sms /\ m_desc m' = m_desc m.
Proof.
  intros md. induction sms as [|sm t IH]; intros m m' H; cbn [parse_members] in H.
  - inversion H; subst. cbn. rewrite app_nil_r. split; reflexivity.
  - destruct (parse_member E usub md sm m) as [m1|e] eqn:E1; cbn [bind] in H; [|discriminate H].
    destruct (parse_member_unk _ _ _ _ E1) as [U1 D1]. destruct (IH _ _ H) as [U2 D2].
    cbn [flat_map]. rewrite U2, U1, app_assoc. split; [reflexivity | congruence].
Qed.
End U.

(* Whenever parsing succeeds, the unknown fields of the result are exactly the members the scan could
   not attribute to a field -- any wire type, any number -- in arrival order, each with its tag, wire
   type and the very bytes that followed its key. *)
Theorem unknown_retained : forall E k d data m md,
  unpack E (S k) d data = Ok m -> nth_error E d = Some md ->
  exists st, scan_loop (S (length data)) md (st_init d md data) = Ok st /\
    m_unk m = flat_map unknown_of (rev (st_members st)).
Proof.
  intros E k d data m md H Hmd. cbn [unpack] in H. rewrite Hmd in H. fold (st_init d md data) in H.
  destruct (scan_loop (S (length data)) md (st_init d md data)) as [st|e] eqn:Es; cbn [bind] in H; [|discriminate H].
  destruct (max_members <? zlen (st_members st)); [discriminate H|].
  destruct (alloc_slots (md_fields md) (st_bitmap st) (st_slots st)) as [slots|e]; cbn [bind] in H; [|discriminate H].
  exists st. split; [reflexivity|].
  destruct (parse_members_unk E (unpack E k) md _ _ _ H) as [U _]. exact U.
Qed.

(* ... and serialisation writes them out again, after the known fields, byte for byte: key (re-encoded
   from tag and wire type) followed by the retained bytes *)
Theorem unknown_written : forall E m b, pack_msg E m = Ok b ->
  exists known, b = known ++ concat (map (fun u => e_tag (u_tag u) (u_wt u) ++ u_data u) (m_unk m)).
Proof.
  intros E [d slots unions unk] b H. cbn [pack_msg] in H.
  destruct (nth_error E d) as [md|]; [|discriminate H].
  destruct (pk_fields (pack_msg E) unions (md_fields md) slots) as [a|e]; cbn [bind] in H; [|discriminate H].
  inversion H; subst. exists a. reflexivity.
Qed.

(* C07 -- all message memory comes from, and returns to, the caller's allocator.
   Proved on the allocation-level model of the parser (Impl/Heap.v: every do_alloc / do_free of
   protobuf_c_message_unpack, merge_messages and protobuf_c_message_free_unpacked, in the order the C code performs
   them; heap pointers carry the number of the allocator request that produced the block; comparisons with the static
   default values are modelled, a default handed to free is an event EvX):
   for every generator-producible environment (env_ok), every message type, every input shorter than 2^31 -- accepted
   or rejected, with merging, oneof replacement, any number of field occurrences (slabs), more than 128 fields
   (bitmap), unknown fields -- the sequence of allocator events obeys the discipline `replay` (Impl/HeapInv.v: no
   block granted twice, nothing freed that is not a live block -- no double free, no foreign pointer --, no static
   default freed); when parsing fails nothing is outstanding at return; when it succeeds the live blocks are exactly
   the blocks the message owns, and free_unpacked hands each of them back once, leaving nothing.  The statement is for
   an arbitrary refusal plan; C07 proper is the instance "no request refused", C08 the general one.
   The model is tied to protobuf-c.c on every run: the check compares its event sequence (request numbers and sizes)
   with the one the real library produces through a recording allocator, token by token.
   Also kept: the trace monitor of the first version (Impl/Ledger.v), proved sound, which judges the REAL traces. *)
From Coq Require Import ZArith List Bool.
From PBC Require Import Impl.Desc Impl.Mem Impl.Canon Impl.Ledger Impl.Heap Impl.HeapInv Proofs.LedgerSound Proofs.HeapSafe Proofs.Examples.
Local Open Scope Z_scope.
Import ListNotations.

(* ---- the parser itself (allocation-level model) *)
Theorem C07_every_block_is_returned_exactly_once : forall (E : env) (szmsg : nat -> Z) (d : nat) (data : list Z),
  env_ok E = true -> Forall (fun b => 0 <= b < 256) data -> Mem.zlen data < 2147483648 ->
  let r := h_unpack E (fun _ => false) szmsg (S (length data)) d data (mkH 0 []) in
  match fst r with
  | None => live_of (snd r) = Some []                                        (* rejected: everything already returned *)
  | Some m => lives (snd r) (owned m) /\                                     (* accepted: live = what the message owns *)
              live_of (snd (h_free E m (snd r))) = Some []                   (* and freeing it returns all of it *)
  end.
Proof. intros E szmsg d data. exact (heap_trace_discipline E (fun _ => false) szmsg d data). Qed.
Print Assumptions C07_every_block_is_returned_exactly_once.

(* both outcomes occur on the example environment: an accepted input (3 blocks, all returned by free_unpacked) and a
   rejected one (the message block requested and returned before the call returns) *)
Example C07_nonvacuous :
  (let r := h_run ex_env (fun _ => false) (fun _ => 152) 0 [8; 150; 1; 26; 2; 1; 2; 58; 2; 8; 1] (mkH 0 []) in
   fst r = true /\ (length (h_trace (snd r)) = 6)%nat /\ live_of (snd r) = Some []) /\
  (let r := h_run ex_env (fun _ => false) (fun _ => 152) 0 [8; 150; 1; 26; 9; 1] (mkH 0 []) in
   fst r = false /\ h_trace (snd r) = [EvF 0; EvA 0 152] /\ live_of (snd r) = Some []).
Proof. vm_compute. repeat split. Qed.

(* ---- the monitor that judges the real traces *)
Theorem C07_monitor_sound_partial : forall evs, monitor evs = true -> discipline evs.
Proof. exact monitor_sound. Qed.
Print Assumptions C07_monitor_sound_partial.

(* the monitor accepts the two shapes a correct run has, and rejects a leak on failure, a double free,
   success after a refusal, and a free of something that is not a live block (e.g. a static default) *)
Theorem C07_monitor_nonvacuous :
  (monitor [EvAlloc 0 152; EvAlloc 1 48; EvAlloc 2 301; EvRet true; EvFree 2; EvFree 1; EvFree 0; EvFreeDone] = true /\
   monitor [EvAlloc 0 152; EvAlloc 1 48; EvRefuse 2 301; EvFree 1; EvFree 0; EvRet false] = true) /\
  (monitor [EvAlloc 0 152; EvAlloc 1 48; EvRefuse 2 301; EvFree 1; EvRet false] = false /\
   monitor [EvAlloc 0 8; EvRet true; EvFree 0; EvFree 0; EvFreeDone] = false /\
   monitor [EvAlloc 0 8; EvRefuse 1 8; EvRet true; EvFree 0; EvFreeDone] = false /\
   monitor [EvAlloc 0 8; EvRet true; EvBadFree; EvFree 0; EvFreeDone] = false).
Proof. exact (conj ledger_accepts ledger_rejects). Qed.
Print Assumptions C07_monitor_nonvacuous.

(* The byte-list wrappers of Impl/Enc.v in terms of the wire specification. *)
From Coq Require Import ZArith List Bool Lia ZifyBool.
From PBC Require Import Base.CInt Base.Bits Gen.LeafC Spec.Wire Impl.Desc Impl.Mem Impl.Enc Proofs.LeafEnc.
Import ListNotations.
Local Open Scope Z_scope.

Ltac Zify.zify_post_hook ::= Z.div_mod_to_equations.

Lemma enc_exact : forall (l : list Z), enc (Z.of_nat (length l), l) = l.
Proof. intros l. unfold enc. cbn [fst snd]. rewrite Nat2Z.id. apply take_pad_all. Qed.

Lemma e_uint32_spec : forall v, 0 <= v < 4294967296 -> e_uint32 v = varint v.
Proof. intros. unfold e_uint32. rewrite uint32_pack_spec by assumption. apply enc_exact. Qed.
Lemma e_int32_spec : forall v, 0 <= v < 4294967296 -> e_int32 v = varint (sext32 v).
Proof. intros. unfold e_int32. rewrite int32_pack_spec by assumption. apply enc_exact. Qed.
Lemma e_sint32_spec : forall v, -2147483648 <= v < 2147483648 -> e_sint32 v = varint (zigzag 32 v).
Proof. intros. unfold e_sint32. rewrite sint32_pack_spec by assumption. apply enc_exact. Qed.
Lemma e_uint64_spec : forall v, 0 <= v < 18446744073709551616 -> e_uint64 v = varint v.
Proof. intros. unfold e_uint64. rewrite uint64_pack_spec by assumption. apply enc_exact. Qed.
Lemma e_sint64_spec : forall v, -9223372036854775808 <= v < 9223372036854775808 -> e_sint64 v = varint (zigzag 64 v).
Proof. intros. unfold e_sint64. rewrite sint64_pack_spec by assumption. apply enc_exact. Qed.
Lemma e_fixed32_spec : forall v, e_fixed32 v = le_n 4 v.
Proof. intros. unfold e_fixed32. rewrite fixed32_pack_spec. reflexivity. Qed.
Lemma e_fixed64_spec : forall v, e_fixed64 v = le_n 8 v.
Proof. intros. unfold e_fixed64. rewrite fixed64_pack_spec. reflexivity. Qed.
Lemma e_bool_spec : forall v, e_bool v = [if v =? 0 then 0 else 1].
Proof. intros. unfold e_bool. rewrite boolean_pack_spec. reflexivity. Qed.

Lemma lor_low3_sweep :
  forallb (fun x => forallb (fun w => Z.lor (x * 8) w =? x * 8 + w) (zrange 8)) (zrange 32) = true.
Proof. vm_compute. reflexivity. Qed.

Lemma e_tag_spec : forall id wt, 0 <= id < 4294967296 -> 0 <= wt < 8 -> e_tag id wt = key id wt.
Proof.
  intros id wt Hid Hwt. unfold e_tag, key. rewrite tag_pack_spec by lia. rewrite enc_exact.
  unfold varint.
  destruct (Z.ltb_spec (id * 8) 128) as [Hs | Hb].
  - rewrite !varint_small by lia.
    change (rd [id * 8] 0) with (id * 8). change (upd [id * 8] 0 ?x) with [x].
    pose proof (sweep2 32 8 _ lor_low3_sweep id wt ltac:(change (Z.of_nat 32) with 32; lia)
                  ltac:(change (Z.of_nat 8) with 8; lia)) as Hs2.
    apply Z.eqb_eq in Hs2. rewrite Hs2. rewrite u8_small by lia. reflexivity.
  - rewrite (varint_big _ (id * 8)) by lia. rewrite (varint_big _ (id * 8 + wt)) by lia.
    match goal with |- upd (?b :: ?r) 0 ?x = _ => change (upd (b :: r) 0 x) with (x :: r); change (rd (b :: r) 0) with b end.
    replace ((id * 8) mod 128 + 128) with ((id mod 16 + 16) * 8) by lia.
    pose proof (sweep2 32 8 _ lor_low3_sweep (id mod 16 + 16) wt ltac:(change (Z.of_nat 32) with 32; lia)
                  ltac:(change (Z.of_nat 8) with 8; lia)) as Hs2.
    apply Z.eqb_eq in Hs2. rewrite Hs2. rewrite u8_small by lia.
    f_equal; [lia|]. f_equal. lia.
Qed.

Lemma key_length : forall id wt, 0 <= id < 4294967296 -> 0 <= wt < 8 ->
  get_tag_size id = Z.of_nat (length (e_tag id wt)).
Proof. intros. rewrite e_tag_spec by assumption. apply get_tag_size_spec; assumption. Qed.

(* The scanning loop of protobuf_c_message_unpack on one well-formed wire
   record: key, then a payload delimited according to the wire type. *)
From Coq Require Import ZArith List Bool Lia ZifyBool.
From PBC Require Import Base.CInt Base.Bits Base.Bits2 Gen.LeafC Spec.Wire GenModel.Ranges
     Impl.Desc Impl.Mem Impl.Enc Impl.WF Impl.Unpack Impl.Canon
     Proofs.LeafEnc Proofs.EncLemmas Proofs.LeafDec Proofs.Lookup Proofs.LookupGen Proofs.SizePack.
Import ListNotations.
Local Open Scope Z_scope.

Ltac Zify.zify_post_hook ::= Z.div_mod_to_equations.

(* ---------- the inline varint scan *)
Lemma varint_end_spec : forall bs rest max, wfv bs -> (length bs <= max)%nat ->
  (forall b, In b bs -> 0 <= b < 256) ->
  varint_end (bs ++ rest) max = Some (Z.of_nat (length bs) - 1).
Proof.
  induction bs as [|b t IH]; intros rest max W L HB; [contradiction|].
  destruct max as [|k]; [cbn in L; lia|].
  cbn [app varint_end]. pose proof (HB b (or_introl eq_refl)) as Bb.
  rewrite land128_zero by lia.
  destruct t as [|b1 t'].
  - cbn [wfv] in W. replace (b <? 128) with true by lia. cbn [length]. f_equal.
  - cbn [wfv] in W. destruct W as [W0 W]. replace (b <? 128) with false by lia.
    rewrite (IH rest k W ltac:(cbn [length] in *; lia) ltac:(intros x Hx; apply HB; right; exact Hx)).
    f_equal. cbn [length]. lia.
Qed.

(* ---------- wire records *)
(* payload of a record of wire type wt: its length prefix length *)
Definition payload_ok (wt : Z) (payload : list Z) (pref : Z) : Prop :=
  (forall b, In b payload -> 0 <= b < 256) /\
  ((wt = WT_VARINT /\ wfv payload /\ (length payload <= 10)%nat /\ pref = 0) \/
   (wt = WT_64BIT /\ length payload = 8%nat /\ pref = 0) \/
   (wt = WT_32BIT /\ length payload = 4%nat /\ pref = 0) \/
   (wt = WT_LEN /\ exists lp body, payload = lp ++ body /\ wfv lp /\ (length lp <= 5)%nat /\
                   varint_val lp = zlen body /\ zlen body <= 2147483647 /\ pref = zlen lp)).

Lemma ranges_eqb_eq : forall (a b : list IntRange),
  Nat.eqb (length a) (length b) = true ->
  forallb (fun p => (start_value (fst p) =? start_value (snd p)) && (orig_index (fst p) =? orig_index (snd p)))
          (combine a b) = true -> a = b.
Proof.
  induction a as [|x a IH]; intros b Hl Hf; destruct b as [|y b]; try discriminate Hl; [reflexivity|].
  cbn [combine forallb fst snd] in Hf. rewrite !andb_true_iff in Hf. destruct Hf as [[H1 H2] Hf].
  apply Z.eqb_eq in H1, H2. destruct x, y. cbn in H1, H2. subst. f_equal. apply IH; assumption.
Qed.

Lemma incrb_incr : forall vs, incrb vs = true -> incr vs.
Proof.
  induction vs as [|v t IH]; intros H; [exact I|].
  cbn [incrb] in H. cbn [incr]. destruct t as [|w t']; [exact I|].
  apply andb_true_iff in H. destruct H as [H1 H2]. split; [lia | apply IH; exact H2].
Qed.

Lemma index_of_nth : forall vs i v, incr vs -> nth_error vs i = Some v -> index_of v vs = Some (Z.of_nat i).
Proof.
  induction vs as [|x t IH]; intros i v Hi Hn; [destruct i; discriminate|].
  destruct i as [|i].
  - cbn in Hn. inversion Hn; subst. cbn [index_of]. rewrite Z.eqb_refl. reflexivity.
  - cbn [nth_error] in Hn. rewrite index_of_cons.
    assert (Hlt : x < v). { apply (incr_lower t x v Hi). eapply nth_error_In; eauto. }
    destruct (Z.eqb_spec x v); [lia|].
    rewrite (IH i v); [cbn [option_map]; f_equal; lia | | exact Hn].
    cbn [incr] in Hi. destruct t; [exact I | tauto].
Qed.

Lemma index_of_not_in : forall vs v, existsb (Z.eqb v) vs = false -> index_of v vs = None.
Proof.
  induction vs as [|x t IH]; intros v H; [reflexivity|].
  cbn [existsb] in H. apply orb_false_iff in H. destruct H as [H1 H2].
  rewrite index_of_cons. rewrite Z.eqb_sym, H1. rewrite (IH v H2). reflexivity.
Qed.

Section Scan.
Variable nenv : nat.
Variable md : mdesc.
Hypothesis D : desc_ok nenv md = true.

Let ids := map f_id (md_fields md).

Lemma desc_ok_parts :
  incr ids /\ (forall id, In id ids -> 0 < id < 536870912) /\
  Z.of_nat (length ids) < 2147483648 /\
  md_ranges md = fst (mk_ranges ids) /\ md_n_ranges md = snd (mk_ranges ids).
Proof.
  unfold desc_ok in D. fold ids in D. rewrite !andb_true_iff in D.
  destruct D as [[[[[[Hi Hb] _] _] Hl] Hr] _].
  split; [apply incrb_incr; exact Hi|]. split.
  { intros id Hin. rewrite forallb_forall in Hb. specialize (Hb id Hin). lia. }
  split; [lia|].
  destruct (mk_ranges ids) as [rs n] eqn:E. rewrite !andb_true_iff in Hr. destruct Hr as [[Hn Hlen] Hf].
  cbn [fst snd]. split; [symmetry; apply ranges_eqb_eq; assumption | lia].
Qed.

Lemma find_field_known : forall i f, nth_error (md_fields md) i = Some f -> find_field md (f_id f) = Some i.
Proof.
  intros i f Hn. destruct desc_ok_parts as (Hinc & Hb & Hl & Er & En).
  assert (Hin : In (f_id f) ids) by (unfold ids; apply in_map; eapply nth_error_In; eauto).
  pose proof (Hb _ Hin) as Hid.
  unfold find_field. rewrite Er, En. rewrite (s32_small (f_id f)) by lia.
  rewrite generated_table_lookup.
  - rewrite (index_of_nth ids i (f_id f) Hinc).
    + replace (Z.of_nat i <? 0) with false by lia. rewrite Nat2Z.id. reflexivity.
    + unfold ids. rewrite nth_error_map, Hn. reflexivity.
  - intros E. rewrite E in Hin. contradiction.
  - exact Hinc.
  - apply Forall_forall. intros x Hx. specialize (Hb x Hx). unfold in32. lia.
  - exact Hl.
  - unfold in32. lia.
Qed.

Lemma find_field_unknown : forall tag, 0 < tag < 536870912 -> existsb (Z.eqb tag) ids = false ->
  find_field md tag = None.
Proof.
  intros tag Ht Hex. destruct desc_ok_parts as (Hinc & Hb & Hl & Er & En).
  unfold find_field. rewrite Er, En. rewrite (s32_small tag) by lia.
  destruct ids as [|v0 t0] eqn:Eids.
  - reflexivity.
  - rewrite generated_table_lookup.
    + rewrite (index_of_not_in _ _ Hex). reflexivity.
    + discriminate.
    + exact Hinc.
    + apply Forall_forall. intros x Hx. specialize (Hb x Hx). unfold in32. lia.
    + exact Hl.
    + unfold in32. lia.
Qed.

End Scan.

(* ---------- one iteration of the scanning loop on a well-formed record *)
Lemma key_wfv : forall id wt, 0 < id < 536870912 -> 0 <= wt < 8 ->
  let k := e_tag id wt in
  wfv k /\ (length k <= 5)%nat /\ (forall b, In b k -> 0 <= b < 256) /\
  varint_val k = id * 8 + wt.
Proof.
  intros id wt Hid Hwt k. subst k. rewrite e_tag_spec by lia. unfold key.
  destruct (varint_wf (id * 8 + wt) ltac:(lia)) as (W & V & L & B).
  split; [exact W|]. split; [|split; [exact B | exact V]].
  pose proof (varint_length 5 (id * 8 + wt) ltac:(lia)) as H5.
  destruct (Z_lt_ge_dec (id * 8 + wt) 128) as [Hs|Hb].
  - unfold varint. rewrite varint_small by lia. cbn. lia.
  - assert (Hk : exists k : nat, (2 <= k <= 5)%nat /\ 128 ^ (Z.of_nat k - 1) <= id * 8 + wt < 128 ^ Z.of_nat k).
    { destruct (Z_lt_ge_dec (id * 8 + wt) 16384); [exists 2%nat; cbn; lia|].
      destruct (Z_lt_ge_dec (id * 8 + wt) 2097152); [exists 3%nat; cbn; lia|].
      destruct (Z_lt_ge_dec (id * 8 + wt) 268435456); [exists 4%nat; cbn; lia|].
      exists 5%nat. cbn. lia. }
    destruct Hk as (k & Hk & Hr).
    pose proof (varint_length k (id * 8 + wt) ltac:(lia) ltac:(lia) ltac:(right; lia)). lia.
Qed.

Section ScanOne.
Variable nenv : nat.
Variable md : mdesc.
Hypothesis D : desc_ok nenv md = true.

Definition cache_ok (st : sstate) : Prop :=
  match st_last st with
  | Some j => st_last_idx st = j /\ (j < length (md_fields md))%nat
  | None => True
  end.

Definition new_member (tag wt : Z) (fidx : option nat) (payload : list Z) (pref : Z) : smember :=
  {| sm_tag := tag; sm_wt := wt; sm_field := fidx; sm_len := zlen payload; sm_pref := pref; sm_data := payload |}.

(* the length / prefix the wire-type switch computes for a well-formed payload *)
Lemma payload_scan : forall wt payload pref rest,
  payload_ok wt payload pref -> zlen (payload ++ rest) < 4294967296 ->
  (if wt =? WT_VARINT then
     match varint_end (payload ++ rest) 10 with Some i => Ok (i + 1, 0) | None => Err EFail end
   else if wt =? WT_64BIT then (if zlen (payload ++ rest) <? 8 then Err EFail else Ok (8, 0))
   else if wt =? WT_LEN then
     let '(l, pref) := scan_length_prefixed_data (zlen (payload ++ rest)) (payload ++ rest) 0 in
     if l =? 0 then Err EFail else Ok (l, pref)
   else if wt =? WT_32BIT then (if zlen (payload ++ rest) <? 4 then Err EFail else Ok (4, 0))
   else Err EFail) = Ok (zlen payload, pref).
Proof.
  intros wt payload pref rest [HB H] Hlen.
  destruct H as [(-> & W & L & ->) | [(-> & L & ->) | [(-> & L & ->) | (-> & lp & body & -> & W & L & V & Hmax & ->)]]].
  - change (WT_VARINT =? WT_VARINT) with true. cbv iota.
    rewrite (varint_end_spec payload rest 10 W L HB). f_equal. f_equal. unfold zlen. lia.
  - change (WT_64BIT =? WT_VARINT) with false. change (WT_64BIT =? WT_64BIT) with true. cbv iota.
    rewrite zlen_app. unfold zlen at 1. rewrite L. pose proof (zlen_nonneg _ rest).
    replace (Z.of_nat 8 + zlen rest <? 8) with false by lia. unfold zlen. rewrite L. reflexivity.
  - change (WT_32BIT =? WT_VARINT) with false. change (WT_32BIT =? WT_64BIT) with false.
    change (WT_32BIT =? WT_LEN) with false. change (WT_32BIT =? WT_32BIT) with true. cbv iota.
    rewrite zlen_app. unfold zlen at 1. rewrite L. pose proof (zlen_nonneg _ rest).
    replace (Z.of_nat 4 + zlen rest <? 4) with false by lia. unfold zlen. rewrite L. reflexivity.
  - change (WT_LEN =? WT_VARINT) with false. change (WT_LEN =? WT_64BIT) with false.
    change (WT_LEN =? WT_LEN) with true. cbv iota.
    rewrite <- app_assoc.
    assert (HBlp : forall b, In b lp -> 0 <= b < 256) by (intros b Hb; apply HB; apply in_or_app; left; exact Hb).
    rewrite (scan_len_spec lp (body ++ rest) _ 0 W L HBlp).
    2:{ rewrite !zlen_app in *. unfold zlen in *. lia. }
    unfold scan_len_result. rewrite V.
    replace (zlen body >? 2147483647) with false by lia.
    rewrite !zlen_app in *. pose proof (zlen_nonneg _ rest). pose proof (zlen_nonneg _ body). pose proof (zlen_nonneg _ lp).
    fold (zlen lp). rewrite (u64_small (zlen lp + zlen body)) by lia.
    replace (zlen lp + zlen body >? zlen lp + (zlen body + zlen rest)) with false by lia.
    assert (Hlp1 : 1 <= zlen lp). { destruct lp as [|b0 lp0]; [contradiction | rewrite zlen_cons; pose proof (zlen_nonneg _ lp0); lia]. }
    replace (zlen lp + zlen body =? 0) with false by lia. reflexivity.
Qed.

Lemma field_index_unique : forall i j f g,
  nth_error (md_fields md) i = Some f -> nth_error (md_fields md) j = Some g -> f_id f = f_id g -> i = j.
Proof.
  intros i j f g Hi Hj E. destruct (desc_ok_parts nenv md D) as (Hinc & _).
  assert (Ai : index_of (f_id f) (map f_id (md_fields md)) = Some (Z.of_nat i)).
  { apply index_of_nth; [exact Hinc|]. rewrite nth_error_map, Hi. reflexivity. }
  assert (Aj : index_of (f_id g) (map f_id (md_fields md)) = Some (Z.of_nat j)).
  { apply index_of_nth; [exact Hinc|]. rewrite nth_error_map, Hj. reflexivity. }
  rewrite E in Ai. rewrite Ai in Aj. inversion Aj. lia.
Qed.

Lemma skipn_app_exact : forall (a b : list Z), skipn (length a) (a ++ b) = b.
Proof. induction a as [|x a IH]; intros b; cbn [length skipn app]; [reflexivity | apply IH]. Qed.
Lemma firstn_app_exact : forall (a b : list Z), firstn (length a) (a ++ b) = a.
Proof. induction a as [|x a IH]; intros b; cbn [length firstn app]; [reflexivity | rewrite IH; reflexivity]. Qed.

(* the tag parse at the head of a record *)
Lemma tag_of_record : forall id wt tail,
  0 < id < 536870912 -> 0 <= wt < 8 -> zlen (e_tag id wt ++ tail) < 4294967296 ->
  parse_tag_and_wiretype (zlen (e_tag id wt ++ tail)) (e_tag id wt ++ tail) 0 0 = (zlen (e_tag id wt), id, wt).
Proof.
  intros id wt tail Hid Hwt Hlen.
  destruct (key_wfv id wt Hid Hwt) as (W & L & B & V).
  rewrite (parse_tag_spec (e_tag id wt) tail _ 0 0 W L B).
  - rewrite V. unfold zlen. repeat (f_equal; try lia).
  - rewrite zlen_app in *. pose proof (zlen_nonneg _ tail). unfold zlen in *. lia.
  - rewrite V. lia.
Qed.

Definition scanned (st : sstate) (tag wt : Z) (fidx : option nat) (payload rest : list Z) (pref : Z)
           (bitmap : list bool) (slots : list slot) : sstate :=
  {| st_at := rest;
     st_last := match fidx with Some i => Some i | None => st_last st end;
     st_last_idx := match fidx with Some i => i | None => st_last_idx st end;
     st_bitmap := bitmap;
     st_members := new_member tag wt fidx payload pref :: st_members st;
     st_slots := slots;
     st_nunk := match fidx with Some _ => st_nunk st | None => st_nunk st + 1 end |}.

Lemma scan_one_known : forall st i f wt payload pref rest slots',
  nth_error (md_fields md) i = Some f ->
  st_at st = e_tag (f_id f) wt ++ payload ++ rest ->
  0 <= wt < 8 -> payload_ok wt payload pref ->
  zlen (st_at st) < 4294967296 -> cache_ok st ->
  (if label_eqb (f_label f) LRepeated then
     if packed_arrival f wt then
       exists c, count_packed_elements (type_code (f_type f)) (zlen payload - pref)
                   (skipn (Z.to_nat pref) payload) 0 = (1, c) /\ bump_count (st_slots st) i c = Ok slots'
     else bump_count (st_slots st) i 1 = Ok slots'
   else slots' = st_slots st) ->
  scan_one md st =
  Ok (scanned st (f_id f) wt (Some i) payload rest pref
        (if label_eqb (f_label f) LRequired then set_nth (st_bitmap st) i true else st_bitmap st) slots').
Proof.
  intros st i f wt payload pref rest slots' Hn Hat Hwt Hp Hlen Hc Hslots.
  destruct (desc_ok_parts nenv md D) as (Hinc & Hb & _).
  assert (Hid : 0 < f_id f < 536870912).
  { apply Hb. apply in_map. eapply nth_error_In; eauto. }
  unfold scan_one. rewrite Hat in *.
  rewrite (tag_of_record (f_id f) wt (payload ++ rest) Hid Hwt Hlen).
  assert (Hk1 : 1 <= zlen (e_tag (f_id f) wt)).
  { destruct (key_wfv (f_id f) wt Hid Hwt) as (W & _). destruct (e_tag (f_id f) wt) as [|b0 k0]; [contradiction|].
    rewrite zlen_cons. pose proof (zlen_nonneg _ k0). lia. }
  replace (zlen (e_tag (f_id f) wt) =? 0) with false by lia.
  (* the lookup, cached or not, finds field i *)
  assert (Hlook : (let cached := match st_last st with
                                 | None => false
                                 | Some li => match nth_error (md_fields md) li with
                                              | Some lf => f_id lf =? f_id f
                                              | None => false
                                              end
                                 end in
                   if cached then (st_last st, st_last st, st_last_idx st, st_nunk st)
                   else match find_field md (f_id f) with
                        | None => (None, st_last st, st_last_idx st, st_nunk st + 1)
                        | Some i0 => (Some i0, Some i0, i0, st_nunk st)
                        end) = (Some i, Some i, i, st_nunk st)).
  { cbv zeta. unfold cache_ok in Hc. destruct (st_last st) as [li|] eqn:El.
    - destruct (nth_error (md_fields md) li) as [lf|] eqn:Elf.
      + destruct (Z.eqb_spec (f_id lf) (f_id f)) as [E|_].
        * assert (li = i) by (eapply field_index_unique; eauto). subst li. destruct Hc as [-> _]. reflexivity.
        * rewrite (find_field_known nenv md D i f Hn). reflexivity.
      + rewrite (find_field_known nenv md D i f Hn). reflexivity.
    - rewrite (find_field_known nenv md D i f Hn). reflexivity. }
  cbv zeta in Hlook. rewrite Hlook. rewrite Hn. cbn [bind].
  assert (Esk : skipn (Z.to_nat (zlen (e_tag (f_id f) wt))) (e_tag (f_id f) wt ++ payload ++ rest) = payload ++ rest).
  { unfold zlen. rewrite Nat2Z.id. apply skipn_app_exact. }
  rewrite !Esk.
  assert (Hrem : zlen (e_tag (f_id f) wt ++ payload ++ rest) - zlen (e_tag (f_id f) wt) = zlen (payload ++ rest)).
  { rewrite zlen_app. lia. }
  rewrite Hrem.
  pose proof (payload_scan wt payload pref rest Hp ltac:(rewrite zlen_app in Hlen; pose proof (zlen_nonneg _ (e_tag (f_id f) wt)); lia)) as Hps.
  cbv zeta in Hps. rewrite Hps. cbn [bind].
  assert (Efn : firstn (Z.to_nat (zlen payload)) (payload ++ rest) = payload).
  { unfold zlen. rewrite Nat2Z.id. apply firstn_app_exact. }
  assert (Esk2 : skipn (Z.to_nat (zlen payload)) (payload ++ rest) = rest).
  { unfold zlen. rewrite Nat2Z.id. apply skipn_app_exact. }
  rewrite !Efn, !Esk2.
  assert (Hsl : (if label_eqb (f_label f) LRepeated
                 then if packed_arrival f wt
                      then let '(okc, count) := count_packed_elements (type_code (f_type f)) (zlen payload - pref)
                                                  (skipn (Z.to_nat pref) payload) 0 in
                           if okc =? 0 then Err EFail else bump_count (st_slots st) i count
                      else bump_count (st_slots st) i 1
                 else Ok (st_slots st)) = Ok slots').
  { destruct (label_eqb (f_label f) LRepeated).
    - destruct (packed_arrival f wt).
      + destruct Hslots as (c & Hcnt & Hbump). rewrite Hcnt. cbv iota. exact Hbump.
      + exact Hslots.
    - rewrite Hslots. reflexivity. }
  rewrite Hsl. cbn [bind]. reflexivity.
Qed.

Lemma scan_one_unknown : forall st tag wt payload pref rest,
  0 < tag < 536870912 -> existsb (Z.eqb tag) (map f_id (md_fields md)) = false ->
  st_at st = e_tag tag wt ++ payload ++ rest ->
  0 <= wt < 8 -> payload_ok wt payload pref ->
  zlen (st_at st) < 4294967296 -> cache_ok st ->
  scan_one md st = Ok (scanned st tag wt None payload rest pref (st_bitmap st) (st_slots st)).
Proof.
  intros st tag wt payload pref rest Hid Hex Hat Hwt Hp Hlen Hc.
  unfold scan_one. rewrite Hat in *.
  rewrite (tag_of_record tag wt (payload ++ rest) Hid Hwt Hlen).
  assert (Hk1 : 1 <= zlen (e_tag tag wt)).
  { destruct (key_wfv tag wt Hid Hwt) as (W & _). destruct (e_tag tag wt) as [|b0 k0]; [contradiction|].
    rewrite zlen_cons. pose proof (zlen_nonneg _ k0). lia. }
  replace (zlen (e_tag tag wt) =? 0) with false by lia.
  assert (Hnotid : forall lf, In lf (md_fields md) -> (f_id lf =? tag) = false).
  { intros lf Hin. destruct (Z.eqb_spec (f_id lf) tag) as [E|_]; [|reflexivity].
    exfalso. assert (existsb (Z.eqb tag) (map f_id (md_fields md)) = true).
    { apply existsb_exists. exists (f_id lf). split; [apply in_map; exact Hin | lia]. }
    congruence. }
  assert (Hlook : (let cached := match st_last st with
                                 | None => false
                                 | Some li => match nth_error (md_fields md) li with
                                              | Some lf => f_id lf =? tag
                                              | None => false
                                              end
                                 end in
                   if cached then (st_last st, st_last st, st_last_idx st, st_nunk st)
                   else match find_field md tag with
                        | None => (None, st_last st, st_last_idx st, st_nunk st + 1)
                        | Some i0 => (Some i0, Some i0, i0, st_nunk st)
                        end) = (None, st_last st, st_last_idx st, st_nunk st + 1)).
  { cbv zeta. rewrite (find_field_unknown nenv md D tag Hid Hex).
    destruct (st_last st) as [li|]; [|reflexivity].
    destruct (nth_error (md_fields md) li) as [lf|] eqn:Elf; [|reflexivity].
    rewrite (Hnotid lf (nth_error_In _ _ Elf)). reflexivity. }
  cbv zeta in Hlook. rewrite Hlook. cbn [bind].
  assert (Esk : skipn (Z.to_nat (zlen (e_tag tag wt))) (e_tag tag wt ++ payload ++ rest) = payload ++ rest).
  { unfold zlen. rewrite Nat2Z.id. apply skipn_app_exact. }
  rewrite !Esk.
  assert (Hrem : zlen (e_tag tag wt ++ payload ++ rest) - zlen (e_tag tag wt) = zlen (payload ++ rest)).
  { rewrite zlen_app. lia. }
  rewrite Hrem.
  pose proof (payload_scan wt payload pref rest Hp ltac:(rewrite zlen_app in Hlen; pose proof (zlen_nonneg _ (e_tag tag wt)); lia)) as Hps.
  cbv zeta in Hps. rewrite Hps. cbn [bind].
  assert (Efn : firstn (Z.to_nat (zlen payload)) (payload ++ rest) = payload).
  { unfold zlen. rewrite Nat2Z.id. apply firstn_app_exact. }
  assert (Esk2 : skipn (Z.to_nat (zlen payload)) (payload ++ rest) = rest).
  { unfold zlen. rewrite Nat2Z.id. apply skipn_app_exact. }
  rewrite !Efn, !Esk2. reflexivity.
Qed.

End ScanOne.

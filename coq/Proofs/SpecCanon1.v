(* The specification-level parser reads every canonical encoding back, part 1: the reference reader that keeps the
   raw payload bytes (Spec/WireRaw.v, key and length prefix of at most five bytes) splits the bytes
   protobuf_c_message_pack writes for a canonical message into the records the message denotes (Impl/Denote.v), each
   known record with its shortest-form payload bytes, each retained unknown field with exactly its retained bytes. *)
From Coq Require Import ZArith List Bool Lia ZifyBool.
From PBC Require Import Base.CInt Spec.Wire Spec.WireMsg Spec.WireRaw Impl.Desc Impl.Mem Impl.Enc Impl.Pack Impl.WF
     Impl.Unpack Impl.Canon Impl.Denote Impl.SpecParse.
From PBC Require Proofs.EncLemmas.
From PBC Require Import Proofs.WholeMsg.
Import ListNotations.
Local Open Scope Z_scope.

Ltac Zify.zify_post_hook ::= Z.div_mod_to_equations.

(* ---------------------------------------------------------------- varints, with the bytes read *)
Lemma rvr_varint_n : forall k f g v rest, 0 <= v < 128 ^ Z.of_nat k -> (1 <= k)%nat -> (k <= f)%nat -> (k <= g)%nat ->
  read_varint_raw f (varint_n g v ++ rest) = Some (v, varint_n g v, rest).
Proof.
  induction k as [|k IH]; intros f g v rest Hv Hk Hf Hg; [lia|].
  destruct f as [|f]; [lia|]. destruct g as [|g]; [lia|].
  cbn [varint_n]. destruct (Z.ltb_spec v 128) as [Hs|Hb].
  - cbn [app read_varint_raw]. replace (v <? 128) with true by lia. reflexivity.
  - cbn [app read_varint_raw]. replace (v mod 128 + 128 <? 128) with false by lia.
    destruct k as [|k'].
    { change (128 ^ Z.of_nat 1) with 128 in Hv. lia. }
    rewrite (IH f g (v / 128) rest); [| | lia | lia | lia].
    + replace ((v mod 128 + 128) mod 128 + 128 * (v / 128)) with v by lia. reflexivity.
    + replace (Z.of_nat (S (S k'))) with (Z.of_nat (S k') + 1) in Hv by lia.
      rewrite Z.pow_add_r in Hv by lia. change (128 ^ 1) with 128 in Hv.
      assert (0 < 128 ^ Z.of_nat (S k')) by (apply Z.pow_pos_nonneg; lia). nia.
Qed.

Lemma rvr_varint5 : forall v rest, 0 <= v < 34359738368 ->
  read_varint_raw 5 (varint v ++ rest) = Some (v, varint v, rest).
Proof.
  intros v rest Hv. unfold varint. apply (rvr_varint_n 5); [|lia|lia|lia].
  change (128 ^ Z.of_nat 5) with 34359738368. exact Hv.
Qed.

Lemma rvr_varint10 : forall v rest, 0 <= v < two64 ->
  read_varint_raw 10 (varint v ++ rest) = Some (v, varint v, rest).
Proof.
  intros v rest Hv. unfold varint. apply (rvr_varint_n 10); [|lia|lia|lia].
  change (128 ^ Z.of_nat 10) with 1180591620717411303424. unfold two64 in Hv. lia.
Qed.

(* a retained (possibly padded) varint *)
Lemma rvr_take : forall k data p r rest k', take_varint k data = Some (p, r) ->
  (forall b, In b data -> 0 <= b) -> (k <= k')%nat ->
  read_varint_raw k' (data ++ rest) = Some (varint_val p, p, r ++ rest).
Proof.
  induction k as [|k IH]; intros data p r rest k' H Hb Hk; [destruct data; discriminate H|].
  destruct data as [|b t]; [discriminate H|]. cbn [take_varint] in H.
  destruct k' as [|k']; [lia|]. cbn [app read_varint_raw].
  destruct (Z.ltb_spec b 128) as [Hs|Hg].
  - inversion H; subst. cbn [varint_val app]. f_equal. f_equal. f_equal.
    assert (0 <= b) by (apply Hb; left; reflexivity). lia.
  - destruct (take_varint k t) as [[p' r']|] eqn:Et; [|discriminate H]. inversion H; subst.
    rewrite (IH t p' r rest k' Et); [reflexivity | intros x Hx; apply Hb; right; exact Hx | lia].
Qed.

(* ---------------------------------------------------------------- one record *)
Lemma raw_rec_key : forall num wt r, 1 <= num < 536870912 -> 0 <= wt < 8 ->
  read_raw_rec 5 (key num wt ++ r) =
  if wt =? 0 then
    match read_varint_raw 10 r with
    | Some (v, raw, r') =>
        if v <? two64 then Some ({| rr_num := num; rr_pay := PVar v; rr_raw := raw |}, r') else None
    | None => None
    end
  else if wt =? 1 then
    match split_at 8 r with
    | Some (a, r') => Some ({| rr_num := num; rr_pay := PI64 (le_val a); rr_raw := a |}, r')
    | None => None
    end
  else if wt =? 2 then
    match read_varint_raw 5 r with
    | Some (n, praw, r') =>
        match split_at n r' with
        | Some (a, r'') => Some ({| rr_num := num; rr_pay := PLen a; rr_raw := praw ++ a |}, r'')
        | None => None
        end
    | None => None
    end
  else if wt =? 5 then
    match split_at 4 r with
    | Some (a, r') => Some ({| rr_num := num; rr_pay := PI32 (le_val a); rr_raw := a |}, r')
    | None => None
    end
  else None.
Proof.
  intros num wt r Hn Hw. unfold read_raw_rec, key.
  rewrite rvr_varint5 by lia. cbv zeta.
  replace ((num * 8 + wt) / 8) with num by lia. replace ((num * 8 + wt) mod 8) with wt by lia.
  replace ((1 <=? num) && (num <? 536870912)) with true by lia. reflexivity.
Qed.

(* a record of the message's denotation, as the raw reader returns it: the payload bytes are the shortest form *)
Definition to_raw (r : wrec) : rawrec := {| rr_num := fst r; rr_pay := snd r; rr_raw := enc_payload (snd r) |}.

Definition rec_small (r : wrec) : Prop :=
  1 <= fst r < 536870912 /\
  match snd r with
  | PVar v => 0 <= v < two64
  | PI64 v => 0 <= v < two64
  | PLen bs => wlen bs < 2147483648
  | PI32 v => 0 <= v < 4294967296
  end.

Definition rchunk (c : list Z) (r : rawrec) : Prop :=
  forall rest, read_raw_rec 5 (c ++ rest) = Some (r, rest).

Lemma enc_rec_raw : forall r, rec_small r -> rchunk (enc_rec r) (to_raw r).
Proof.
  intros [num p] [Hn Hp] rest. cbn [fst snd] in Hn, Hp.
  unfold enc_rec, to_raw. cbn [fst snd]. rewrite <- app_assoc.
  destruct p as [v|v|bs|v]; cbn [wt_of enc_payload]; rewrite raw_rec_key by lia.
  - change (0 =? 0) with true. cbv iota. rewrite rvr_varint10 by exact Hp.
    replace (v <? two64) with true by lia. reflexivity.
  - change (1 =? 0) with false. change (1 =? 1) with true. cbv iota.
    change 8 with (wlen (le_n 8 v)) at 1. rewrite split_at_app. rewrite le_val_le_n; [reflexivity|].
    change (256 ^ Z.of_nat 8) with two64. exact Hp.
  - change (2 =? 0) with false. change (2 =? 1) with false. change (2 =? 2) with true. cbv iota.
    rewrite <- app_assoc. assert (0 <= wlen bs) by (unfold wlen; lia).
    rewrite rvr_varint5 by lia. rewrite split_at_app. reflexivity.
  - change (5 =? 0) with false. change (5 =? 1) with false. change (5 =? 2) with false.
    change (5 =? 5) with true. cbv iota.
    change 4 with (wlen (le_n 4 v)) at 1. rewrite split_at_app. rewrite le_val_le_n; [reflexivity|].
    change (256 ^ Z.of_nat 4) with 4294967296. exact Hp.
Qed.

(* ---------------------------------------------------------------- a sequence of records *)
Inductive rreads : list Z -> list rawrec -> Prop :=
| rreads_nil : rreads [] []
| rreads_cons : forall c r cs rs, rchunk c r -> rreads cs rs -> rreads (c ++ cs) (r :: rs).

Lemma rreads_app : forall a ra b rb, rreads a ra -> rreads b rb -> rreads (a ++ b) (ra ++ rb).
Proof.
  intros a ra b rb Ha Hb. induction Ha as [|c r cs rs Hc Hcs IH]; [exact Hb|].
  rewrite <- app_assoc. cbn [app]. apply rreads_cons; assumption.
Qed.

Lemma rchunk_nonempty : forall c r, rchunk c r -> (1 <= length c)%nat.
Proof.
  intros c r H. destruct c as [|x t]; [|cbn [length]; lia].
  specialize (H []). discriminate H.
Qed.

Lemma rreads_read : forall c rs, rreads c rs -> forall fuel, (length c <= fuel)%nat ->
  read_raw_recs 5 fuel c = Some rs.
Proof.
  intros c rs H. induction H as [|c r cs rs Hc Hcs IH]; intros fuel Hf.
  - destruct fuel; reflexivity.
  - pose proof (rchunk_nonempty _ _ Hc) as Hne. rewrite app_length in Hf.
    destruct fuel as [|k]; [lia|].
    destruct (c ++ cs) as [|x t] eqn:Ecs.
    + apply (f_equal (@length Z)) in Ecs. rewrite app_length in Ecs. cbn [length] in Ecs. lia.
    + cbn [read_raw_recs]. rewrite <- Ecs. rewrite (Hc cs). rewrite IH by lia. reflexivity.
Qed.

Lemma rreads_enc : forall rs, Forall rec_small rs -> rreads (enc_recs rs) (map to_raw rs).
Proof.
  intros rs H. induction H as [|r rs Hr _ IH]; [constructor|].
  rewrite enc_recs_cons. cbn [map]. apply rreads_cons; [apply enc_rec_raw; exact Hr | exact IH].
Qed.

(* every length-delimited payload is shorter than the whole *)
Lemma enc_rec_len : forall r, zlen (enc_payload (snd r)) <= zlen (enc_rec r).
Proof. intros r. unfold enc_rec. rewrite zlen_app'. pose proof (zlen_nonneg' _ (key (fst r) (wt_of (snd r)))). lia. Qed.

Lemma rec_wf_small : forall rs, Forall rec_wf rs -> zlen (enc_recs rs) < 2147483648 -> Forall rec_small rs.
Proof.
  intros rs H. induction H as [|r rs Hr _ IH]; intros Hz; [constructor|].
  rewrite enc_recs_cons, zlen_app' in Hz.
  pose proof (zlen_nonneg' _ (enc_rec r)). pose proof (zlen_nonneg' _ (enc_recs rs)).
  constructor; [|apply IH; lia].
  destruct Hr as [Hn Hp]. split; [exact Hn|].
  pose proof (enc_rec_len r) as Hl.
  destruct (snd r) as [v|v|bs|v]; try exact Hp.
  cbn [enc_payload] in Hl. rewrite zlen_app' in Hl. pose proof (zlen_nonneg' _ (varint (wlen bs))).
  rewrite wlen_zlen. lia.
Qed.

(* ---------------------------------------------------------------- retained unknown fields *)
Definition unk_raw (u : ufield) : rawrec :=
  {| rr_num := u_tag u;
     rr_pay := if u_wt u =? 0 then PVar (varint_val (u_data u))
               else if u_wt u =? 1 then PI64 (le_val (u_data u))
               else if u_wt u =? 5 then PI32 (le_val (u_data u))
               else match take_varint 5 (u_data u) with
                    | Some (_, body) => PLen body
                    | None => PLen []
                    end;
     rr_raw := u_data u |}.

Lemma unk_rchunk : forall ids u, canon_unk ids u = true -> ufield_strict u = true ->
  rchunk (pk_unknown u) (unk_raw u) /\ wt_of (rr_pay (unk_raw u)) = u_wt u.
Proof.
  intros ids [tag wt data] H Hst. unfold canon_unk in H. cbn [u_tag u_wt u_data] in H.
  unfold ufield_strict in Hst. cbn [u_wt u_data] in Hst.
  apply andb_true_iff in H. destruct H as [H Hp].
  apply andb_true_iff in H. destruct H as [H _].
  apply andb_true_iff in H. destruct H as [Ht1 Ht2].
  unfold unk_payload_ok in Hp. apply andb_true_iff in Hp. destruct Hp as [Hb Hp].
  pose proof (forallb_byte_ok _ Hb) as Hbytes. clear Hb.
  assert (Hb0 : forall b, In b data -> 0 <= b) by (intros b Hin; specialize (Hbytes b Hin); lia).
  unfold pk_unknown, unk_raw, rchunk. cbn [u_tag u_wt u_data rr_pay].
  destruct (Z.eqb_spec wt 0) as [E0|N0].
  { subst wt. rewrite EncLemmas.e_tag_spec by lia.
    destruct (take_varint 10 data) as [[p r]|] eqn:Et; [|discriminate Hp].
    destruct r; [|discriminate Hp].
    split; [|reflexivity].
    intros rest. rewrite <- app_assoc. rewrite raw_rec_key by lia. change (0 =? 0) with true. cbv iota.
    rewrite (rvr_take 10 data p [] rest 10 Et Hb0) by lia.
    pose proof (take_varint_split _ _ _ _ Et) as Es. rewrite app_nil_r in Es. subst p.
    rewrite Hst. reflexivity. }
  destruct (Z.eqb_spec wt 1) as [E1|N1].
  { subst wt. rewrite EncLemmas.e_tag_spec by lia. apply Z.eqb_eq in Hp.
    split; [|reflexivity].
    intros rest. rewrite <- app_assoc. rewrite raw_rec_key by lia.
    change (1 =? 0) with false. change (1 =? 1) with true. cbv iota.
    replace 8 with (wlen data) by exact Hp. rewrite split_at_app. reflexivity. }
  destruct (Z.eqb_spec wt 5) as [E5|N5].
  { subst wt. rewrite EncLemmas.e_tag_spec by lia. apply Z.eqb_eq in Hp.
    split; [|reflexivity].
    intros rest. rewrite <- app_assoc. rewrite raw_rec_key by lia.
    change (5 =? 0) with false. change (5 =? 1) with false. change (5 =? 2) with false.
    change (5 =? 5) with true. cbv iota.
    replace 4 with (wlen data) by exact Hp. rewrite split_at_app. reflexivity. }
  destruct (Z.eqb_spec wt 2) as [E2|N2]; [|discriminate Hp].
  subst wt. rewrite EncLemmas.e_tag_spec by lia.
  destruct (take_varint 5 data) as [[lp body]|] eqn:Et; [|discriminate Hp].
  apply andb_true_iff in Hp. destruct Hp as [Hv Hl]. apply Z.eqb_eq in Hv. apply Z.ltb_lt in Hl.
  split; [|reflexivity].
  intros rest. rewrite <- app_assoc. rewrite raw_rec_key by lia.
  change (2 =? 0) with false. change (2 =? 1) with false. change (2 =? 2) with true. cbv iota.
  rewrite (rvr_take 5 data lp body rest 5 Et Hb0) by lia.
  rewrite Hv. rewrite <- wlen_zlen. rewrite split_at_app.
  rewrite (take_varint_split _ _ _ _ Et). reflexivity.
Qed.

Lemma rreads_unknown : forall ids unk, forallb (canon_unk ids) unk = true -> forallb ufield_strict unk = true ->
  rreads (concat (map pk_unknown unk)) (map unk_raw unk).
Proof.
  intros ids unk. induction unk as [|u t IH]; intros H Hs; [constructor|].
  cbn [forallb] in H, Hs. apply andb_true_iff in H. destruct H as [Hu Ht].
  apply andb_true_iff in Hs. destruct Hs as [Hsu Hst].
  cbn [map concat]. apply rreads_cons; [apply (unk_rchunk ids); assumption | apply IH; assumption].
Qed.

(* ---------------------------------------------------------------- the whole message *)
Lemma desc_of_env : forall E d md, env_ok E = true -> nth_error E d = Some md -> desc_ok (length E) md = true.
Proof.
  intros E d md HE Ed. unfold env_ok in HE. rewrite forallb_forall in HE. apply HE. apply (nth_error_In _ _ Ed).
Qed.

Theorem pack_raw_reads : forall E d md slots unions unk b,
  env_ok E = true -> nth_error E d = Some md ->
  canon_msg E (Msg d slots unions unk) = true -> forallb ufield_strict unk = true ->
  pack_msg E (Msg d slots unions unk) = Ok b -> zlen b < 2147483648 ->
  read_raw 5 b = Some (map to_raw (known_records E unions (md_fields md) slots) ++ map unk_raw unk).
Proof.
  intros E d md slots unions unk b HE Ed Hc Hst Hp Hz.
  rewrite canon_msg_eq in Hc. rewrite pack_msg_eq in Hp. rewrite Ed in Hc, Hp.
  pose proof (desc_of_env _ _ _ HE Ed) as Hd.
  apply andb_true_iff in Hc. destruct Hc as [Hc Hunk].
  apply andb_true_iff in Hc. destruct Hc as [Hc _].
  apply andb_true_iff in Hc. destruct Hc as [_ Hslots].
  destruct (pk_fields (pack_msg E) unions (md_fields md) slots) as [a|e] eqn:Ea; cbn [bind] in Hp; [|discriminate Hp].
  inversion Hp; subst b. clear Hp. rewrite zlen_app' in Hz.
  pose proof (zlen_nonneg' _ a). pose proof (zlen_nonneg' _ (concat (map pk_unknown unk))).
  destruct (fields_conform E _ unions slots (md_fields md) a (desc_ok_fgood _ _ Hd) Hslots Ea ltac:(lia)) as [Ha Hw].
  unfold read_raw. apply rreads_read; [|lia].
  apply rreads_app.
  - rewrite Ha. apply rreads_enc. apply rec_wf_small; [exact Hw | rewrite <- Ha; lia].
  - apply (rreads_unknown _ _ Hunk Hst).
Qed.

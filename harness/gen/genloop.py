#!/usr/bin/env python3
"""Generator-in-the-loop driver (harness/GENFORMAT.md section 3).

Library:
    ensure_plugin()                      rebuild /repo/protoc-gen-c/protoc-gen-c from the current sources
    build_tools(builddir) -> dict        compile fd_dump, desc_dump.o and the runtime object once (mtime cache)
    run_case(workdir, protos, root, cc_std_list=('c99','c11'), check_cxx=True) -> dict

CLI:
    python3 genloop.py <root.proto> [-I dir]...      prints the schema dump and the descriptor dump

The tool cache directory is $GENLOOP_BUILDDIR (default /verif/build/genloop); scratch work directories of
the CLI go to $GENLOOP_SCRATCH (default /tmp/genloop_scratch).
"""
import concurrent.futures
import filecmp
import os
import re
import shutil
import subprocess
import sys
import time

REPO = os.environ.get('VERIF_REPO', '/repo')
PLUGIN = REPO + '/protoc-gen-c/protoc-gen-c'
HARNESS = os.path.dirname(os.path.dirname(os.path.abspath(__file__)))
FD_DUMP_SRC = os.path.join(HARNESS, 'cxx', 'fd_dump.cc')
DESC_DUMP_SRC = os.path.join(HARNESS, 'c', 'desc_dump.c')
PBC_OPTS_CC = REPO + '/protobuf-c/protobuf-c.pb.cc'
PBC_OPTS_H = REPO + '/protobuf-c/protobuf-c.pb.h'
RUNTIME_C = REPO + '/protobuf-c/protobuf-c.c'
RUNTIME_H = REPO + '/protobuf-c/protobuf-c.h'
SYS_INCLUDE = '/usr/include'

DEFAULT_BUILDDIR = os.environ.get('GENLOOP_BUILDDIR') or os.path.join(os.path.dirname(os.path.dirname(os.path.dirname(os.path.abspath(__file__)))), 'build', 'genloop')
DEFAULT_SCRATCH = os.environ.get('GENLOOP_SCRATCH') or '/tmp/genloop_scratch'

CFLAGS_GEN = ['-Wall', '-Werror=implicit-function-declaration']
MAX_ERR_LINES = 20

_plugin_done = False
_tools = {}


class ToolError(RuntimeError):
    pass


def _run(cmd, cwd=None, timeout=300):
    """Run cmd, return (rc, stdout, stderr) as text (undecodable bytes replaced).  A timeout gives rc -999."""
    try:
        p = subprocess.run(cmd, cwd=cwd, stdout=subprocess.PIPE, stderr=subprocess.PIPE, timeout=timeout)
    except subprocess.TimeoutExpired as e:
        return -999, (e.stdout or b'').decode('utf-8', 'replace'), 'TIMEOUT after %ss' % timeout
    return p.returncode, p.stdout.decode('utf-8', 'replace'), p.stderr.decode('utf-8', 'replace')


def _first_lines(text, n=MAX_ERR_LINES):
    lines = text.splitlines()
    return '\n'.join(lines[:n])


def _mtime(path):
    try:
        return os.stat(path).st_mtime
    except OSError:
        return 0.0


def _stale(target, sources):
    t = _mtime(target)
    return t == 0.0 or any(_mtime(s) >= t for s in sources)


def ensure_plugin(force=False):
    """(Re)build the plugin binary from the current sources.  Done once per process."""
    global _plugin_done
    if _plugin_done and not force:
        return PLUGIN
    rc, out, err = _run(['make', '-C', REPO, 'protoc-gen-c/protoc-gen-c'], timeout=1800)
    if rc != 0 or not os.access(PLUGIN, os.X_OK):
        raise ToolError('cannot build the plugin (rc=%d):\n%s\n%s' % (rc, out[-2000:], err[-4000:]))
    _plugin_done = True
    return PLUGIN


def _pkg_config():
    rc, out, err = _run(['pkg-config', '--cflags', '--libs', 'protobuf'])
    if rc != 0:
        raise ToolError('pkg-config protobuf failed: ' + err)
    return out.split()


def build_tools(builddir=None):
    """Compile fd_dump, desc_dump.o and the runtime object (from /repo/protobuf-c/protobuf-c.c) into
    builddir; each is rebuilt only when one of its sources is newer than the product."""
    builddir = os.path.abspath(builddir or DEFAULT_BUILDDIR)
    # the products depend on the CONTENT of the sources (a check may be pointed at another copy of the repository,
    # or the tree may have been restored to an earlier state: modification times say nothing then)
    import hashlib
    h = hashlib.sha1()
    for src in (FD_DUMP_SRC, PBC_OPTS_CC, PBC_OPTS_H, DESC_DUMP_SRC, RUNTIME_H, RUNTIME_C):
        try:
            with open(src, 'rb') as fh:
                h.update(src.encode() + b'\0' + fh.read() + b'\0')
        except OSError:
            h.update(src.encode() + b'\0<missing>\0')
    key = os.path.abspath(builddir)
    builddir = os.path.join(builddir, 'tools-' + h.hexdigest()[:16])
    if not os.path.isdir(builddir):
        # keep the directory small: drop older tool sets
        try:
            old_sets = sorted((d for d in os.listdir(key) if d.startswith('tools-')),
                              key=lambda d: os.path.getmtime(os.path.join(key, d)))
            for d in old_sets[:-3]:
                shutil.rmtree(os.path.join(key, d), ignore_errors=True)
        except OSError:
            pass
    os.makedirs(builddir, exist_ok=True)
    fd_dump = os.path.join(builddir, 'fd_dump')
    desc_o = os.path.join(builddir, 'desc_dump.o')
    rt_o = os.path.join(builddir, 'protobuf-c.o')
    if _stale(fd_dump, [FD_DUMP_SRC, PBC_OPTS_CC, PBC_OPTS_H]):
        tmp = fd_dump + '.tmp%d' % os.getpid()
        cmd = ['g++', '-std=c++17', '-O1', '-I' + REPO, '-I' + REPO + '/protobuf-c', FD_DUMP_SRC, PBC_OPTS_CC]
        cmd += _pkg_config() + ['-o', tmp]
        rc, out, err = _run(cmd, timeout=1800)
        if rc != 0:
            raise ToolError('cannot build fd_dump:\n' + err[-4000:])
        os.replace(tmp, fd_dump)
    if _stale(desc_o, [DESC_DUMP_SRC, RUNTIME_H]):
        tmp = desc_o + '.tmp%d' % os.getpid()
        rc, out, err = _run(['gcc', '-std=c11', '-O1', '-g', '-Wall', '-Wextra', '-I' + REPO, '-c', DESC_DUMP_SRC,
                             '-o', tmp])
        if rc != 0:
            raise ToolError('cannot build desc_dump.o:\n' + err[-4000:])
        os.replace(tmp, desc_o)
    if _stale(rt_o, [RUNTIME_C, RUNTIME_H]):
        tmp = rt_o + '.tmp%d' % os.getpid()
        rc, out, err = _run(['gcc', '-O1', '-g', '-I' + REPO, '-I' + REPO + '/protobuf-c', '-c', RUNTIME_C,
                             '-o', tmp])
        if rc != 0:
            raise ToolError('cannot build the runtime object:\n' + err[-4000:])
        os.replace(tmp, rt_o)
    tools = {'builddir': builddir, 'fd_dump': fd_dump, 'desc_dump_o': desc_o, 'runtime_o': rt_o}
    _tools[key] = tools
    return tools


# ---------------------------------------------------------------------------------------------------------

_DECL_RE = re.compile(r'^\s*extern\s+(?:\S+\s+)*?const\s+ProtobufC(Message|Enum|Service)Descriptor\s+'
                      r'([A-Za-z_][A-Za-z0-9_]*)\s*;', re.M)


def scan_registry(headers):
    """headers: {relative name: text}.  Returns {'Message': [sym...], 'Enum': [...], 'Service': [...]} with each
    list sorted bytewise and without duplicates (this order is the tie-break of desc_dump's stable sort)."""
    reg = {'Message': set(), 'Enum': set(), 'Service': set()}
    for name in sorted(headers):
        for kind, sym in _DECL_RE.findall(headers[name]):
            reg[kind].add(sym)
    return {k: sorted(v, key=lambda s: s.encode()) for k, v in reg.items()}


_SVC_STRUCT_RE = re.compile(r'struct\s+(\w+)_Service\s*\{\s*ProtobufCService\s+base;(.*?)\n\};', re.S)
_SVC_MEMBER_RE = re.compile(r'void\s+\(\*(\w+)\)\((\w+)_Service\s+\*service,\s*const\s+(\w+)\s+\*input,\s*'
                            r'(\w+)_Closure\s+closure,\s*void\s+\*closure_data\);')
_SVC_INIT_RE = re.compile(r'void\s+(\w+)__init\s+\((\w+)_Service\s+\*service,')
_SVC_BASE_INIT_RE = re.compile(r'#define\s+(\w+)__BASE_INIT\s+\\\n\s*\{\s*&(\w+)__descriptor,')


def scan_services(headers):
    """headers: {relative name: text}.  Finds what c_service.cc emits for every service: the struct
    <Cname>_Service with its handler members, <lcfullname>__init, the <UCFULLNAME>__INIT macro and the stubs
    <lcfullname>__<method>.  Returns a list (sorted by descriptor symbol) of dicts
    {'cname', 'lc', 'uc', 'sym', 'members': [(member, input C type, output C type)], 'stubs': [function names]};
    'stubs' are in header order, which is the order the service tests call them in (SS lines)."""
    res = []
    for name in sorted(headers):
        text = headers[name]
        lc_of = {c: lc for lc, c in _SVC_INIT_RE.findall(text)}
        uc_of = {lc: uc for uc, lc in _SVC_BASE_INIT_RE.findall(text)}
        for cname, body in _SVC_STRUCT_RE.findall(text):
            lc = lc_of.get(cname)
            if lc is None or lc not in uc_of:
                continue
            members = [(m, i, o) for m, c, i, o in _SVC_MEMBER_RE.findall(body) if c == cname]
            stubs = re.findall(r'^void\s+(%s__\w+)\(ProtobufCService\s+\*service,' % re.escape(lc), text, re.M)
            res.append({'cname': cname, 'lc': lc, 'uc': uc_of[lc], 'sym': lc + '__descriptor', 'members': members,
                        'stubs': stubs})
    return sorted(res, key=lambda d: d['sym'].encode())


def service_test_source(svcs):
    """C code (appended to registry.c) that exercises the generated service code of every scanned service and
    prints the SS / SI / SX lines of GENFORMAT.md; ends with the table all_svc_tests[]."""
    out = ['',
           '/* ---- service tests (GENFORMAT.md: SS SI SX) */',
           '#include <stdio.h>',
           '#include <string.h>',
           'typedef void (*SvctFn)(void);',
           'typedef struct { const ProtobufCServiceDescriptor *desc; void (*run)(void); } DescDumpSvcTest;',
           'static void svct_name(const char *tag, const ProtobufCServiceDescriptor *d)',
           '{',
           '  const char *s = d->name;',
           '  fputs(tag, stdout);',
           '  if (s == NULL) { fputs(" NULL", stdout); return; }',
           '  fputs(" s:", stdout);',
           '  for (; *s; s++) printf("%02x", (unsigned char)*s);',
           '}']
    for k, sv in enumerate(svcs):
        p = 'svct%d' % k
        c, lc, uc, members, stubs = sv['cname'], sv['lc'], sv['uc'], sv['members'], sv['stubs']
        n = len(members)
        out.append('/* %s */' % c)
        out.append('static int %s_fired; static const void *%s_in; static SvctFn %s_cl; static void *%s_data;'
                   % (p, p, p, p))
        for j, (m, it, ot) in enumerate(members):
            out.append('static void %s_h_%s(%s_Service *service, const %s *input, %s_Closure closure, void *closure_data)'
                       % (p, m, c, it, ot))
            out.append('{ (void)service; %s_fired = %d; %s_in = input; %s_cl = (SvctFn)closure; %s_data = closure_data; }'
                       % (p, j, p, p, p))
            out.append('static void %s_c%d(const %s *message, void *closure_data) { (void)message; (void)closure_data; }'
                       % (p, j, ot))
        out.append('static %s_Service *%s_destroyed;' % (c, p))
        out.append('static void %s_destroy(%s_Service *s) { %s_destroyed = s; }' % (p, c, p))
        out.append('static void %s_run(void)' % p)
        out.append('{')
        out.append('  const ProtobufCServiceDescriptor *d = &%s;' % sv['sym'])
        out.append('  static %s_Service svc = %s__INIT(%s_h_);' % (c, uc, p))
        out.append('  static long long in_obj[%d], data_obj[%d];' % (n + 1, n + 1))
        out.append('  %s_Service t;' % c)
        out.append('  int all_null = 1;')
        out.append('  (void)in_obj; (void)data_obj; (void)svc;')
        # the i-th stub of the header against the handler that fires
        for i, stub in enumerate(stubs):
            if i >= n:
                break
            it, ot = members[i][1], members[i][2]
            out.append('  %s_fired = -1; %s_in = NULL; %s_cl = (SvctFn)0; %s_data = NULL;' % (p, p, p, p))
            out.append('  %s(&svc.base, (const %s *)(const void *)&in_obj[%d], %s_c%d, &data_obj[%d]);'
                       % (stub, it, i, p, i, i))
            # ... and once more with a NULL closure and NULL closure data (both are legitimate arguments: the handler decides
            # what to do with them): the same handler must run and see exactly those arguments
            out.append('  { int f1 = %s_fired, i1 = %s_in == (const void *)&in_obj[%d], c1 = %s_cl == (SvctFn)%s_c%d, d1 = %s_data == (void *)&data_obj[%d];'
                       % (p, p, i, p, p, i, p, i))
            out.append('    %s_fired = -1; %s_in = NULL; %s_cl = (SvctFn)%s_c%d; %s_data = (void *)&data_obj[%d];' % (p, p, p, p, i, p, i))
            out.append('    %s(&svc.base, (const %s *)(const void *)&in_obj[%d], NULL, NULL);' % (stub, it, i))
            out.append('    svct_name("SS", d);')
            out.append('    printf(" %d %%d %%d %%d %%d\\n", f1 == %s_fired ? f1 : -2, i1 && %s_in == (const void *)&in_obj[%d], '
                       'c1 && %s_cl == (SvctFn)0, d1 && %s_data == NULL); }' % (i, p, p, i, p, p))
        out.append('  memset(&t, 0xAA, sizeof t);')
        out.append('  %s__init(&t, %s_destroy);' % (lc, p))
        for m, _it, _ot in members:
            out.append('  if (t.%s != NULL) all_null = 0;' % m)
        out.append('  svct_name("SI", d);')
        out.append('  printf(" %%d %%d %%d\\n", t.base.descriptor == d && t.base.invoke == protobuf_c_service_invoke_internal, '
                   't.base.destroy == (ProtobufCServiceDestroy)%s_destroy, all_null);' % p)
        out.append('  %s_destroyed = NULL;' % p)
        out.append('  protobuf_c_service_destroy(&t.base);')
        out.append('  svct_name("SX", d);')
        out.append('  printf(" %%d\\n", %s_destroyed == &t);' % p)
        out.append('  fflush(stdout);')
        out.append('}')
    out.append('const DescDumpSvcTest all_svc_tests[] = {')
    for k, sv in enumerate(svcs):
        out.append('  { &%s, svct%d_run },' % (sv['sym'], k))
    out.append('  { NULL, NULL }')
    out.append('};')
    out.append('const unsigned n_all_svc_tests = %d;' % len(svcs))
    return '\n'.join(out) + '\n'


def registry_source(header_names, reg, svcs=()):
    out = ['/* generated by genloop.py */', '#include <stddef.h>', '#include <protobuf-c/protobuf-c.h>']
    for h in sorted(header_names):
        out.append('#include "%s"' % h)
    for kind, arr in (('Message', 'all_msgs'), ('Enum', 'all_enums'), ('Service', 'all_svcs')):
        syms = reg[kind]
        out.append('const ProtobufC%sDescriptor *const %s[] = {' % (kind, arr))
        for s in syms:
            out.append('  &%s,' % s)
        out.append('  NULL')
        out.append('};')
        out.append('const unsigned n_%s = %d;' % (arr, len(syms)))
    return '\n'.join(out) + '\n' + service_test_source(list(svcs))


def _walk_files(top):
    res = []
    for d, _dirs, files in os.walk(top):
        for f in files:
            full = os.path.join(d, f)
            res.append(os.path.relpath(full, top))
    return sorted(res)


def _same_tree(a, b):
    fa, fb = _walk_files(a), _walk_files(b)
    if fa != fb:
        return False
    for f in fa:
        if not filecmp.cmp(os.path.join(a, f), os.path.join(b, f), shallow=False):
            return False
    return True


def _parse_nm(text):
    syms = set()
    for line in text.splitlines():
        parts = line.split()
        if len(parts) == 3 and len(parts[1]) == 1:
            syms.add(parts[2])
    return sorted(syms)


def run_case(workdir, protos, root, cc_std_list=('c99', 'c11'), check_cxx=True, builddir=None, jobs=None):
    """Run one schema through protoc + protoc-gen-c, the C/C++ compilers, desc_dump and fd_dump.

    protos: {relative file name: text}; every file is written below workdir and passed to protoc in ONE
    invocation.  root: the key of the root file (fd_dump prints the other files first, the root last)."""
    t0 = time.time()
    ensure_plugin()
    tools = _tools.get(os.path.abspath(builddir or DEFAULT_BUILDDIR)) or build_tools(builddir)
    jobs = jobs or min(8, os.cpu_count() or 1)
    workdir = os.path.abspath(workdir)
    res = {
        'protoc_rc': None, 'protoc_stderr': '', 'deterministic': False,
        'compile_errors': [], 'compile_warnings': [], 'cxx_errors': [], 'link_errors': [],
        'desc_dump': '', 'desc_dump_rc': None, 'desc_dump_stderr': '',
        'fd_dump': '', 'fd_dump_rc': None, 'fd_dump_stderr': '',
        'symbols': [], 'generated': {}, 'wall_s': 0.0,
    }
    if root not in protos:
        raise ValueError('root %r is not a key of protos' % root)
    os.makedirs(workdir, exist_ok=True)
    for sub in ['out', 'out2', 'link'] + ['obj_' + s for s in cc_std_list]:
        shutil.rmtree(os.path.join(workdir, sub), ignore_errors=True)
    names = sorted(protos)
    for name in names:
        if os.path.isabs(name) or '..' in name.split('/'):
            raise ValueError('bad proto file name %r' % name)
        path = os.path.join(workdir, name)
        os.makedirs(os.path.dirname(path), exist_ok=True)
        data = protos[name]
        with open(path, 'wb') as f:
            f.write(data if isinstance(data, bytes) else data.encode('utf-8'))

    # ---- fd_dump (independent of the plugin) ---------------------------------------------------------
    others = [n for n in names if n != root]
    rc, out, err = _run([tools['fd_dump']] + others + [root, '-I', workdir, '-I', REPO, '-I', SYS_INCLUDE],
                        cwd=workdir)
    res['fd_dump_rc'], res['fd_dump'], res['fd_dump_stderr'] = rc, (out if rc == 0 else ''), err

    # ---- 1. protoc, twice ------------------------------------------------------------------------------
    outs = [os.path.join(workdir, 'out'), os.path.join(workdir, 'out2')]
    rcs = []
    for i, od in enumerate(outs):
        os.makedirs(od)
        cmd = ['protoc', '--plugin=protoc-gen-c=' + PLUGIN, '-I' + workdir, '-I' + REPO, '-I' + SYS_INCLUDE,
               '--c_out=' + od] + [os.path.join(workdir, n) for n in names]
        rc, out, err = _run(cmd, cwd=workdir)
        rcs.append(rc)
        if i == 0:
            res['protoc_rc'], res['protoc_stderr'] = rc, err
    res['deterministic'] = rcs[0] == rcs[1] and _same_tree(outs[0], outs[1])
    outdir = outs[0]
    gen_files = _walk_files(outdir)
    for f in gen_files:
        if f.endswith('.pb-c.h') or f.endswith('.pb-c.c'):
            with open(os.path.join(outdir, f), 'rb') as fh:
                res['generated'][f] = fh.read().decode('utf-8', 'replace')
    c_files = [f for f in gen_files if f.endswith('.pb-c.c')]
    h_files = [f for f in gen_files if f.endswith('.pb-c.h')]
    if rcs[0] != 0 or not c_files:
        res['wall_s'] = time.time() - t0
        return res

    # ---- 2. compile ------------------------------------------------------------------------------------
    def obj_name(std, cf):
        return os.path.join(workdir, 'obj_' + std, cf[:-2].replace('/', '__') + '.o')

    tasks = []
    for std in cc_std_list:
        os.makedirs(os.path.join(workdir, 'obj_' + std), exist_ok=True)
        for cf in c_files:
            cmd = ['gcc', '-std=' + std] + CFLAGS_GEN + ['-I' + REPO, '-I' + outdir, '-c', os.path.join(outdir, cf),
                                                         '-o', obj_name(std, cf)]
            tasks.append(('c', cf, std, cmd))
    if check_cxx:
        for hf in h_files:
            cmd = ['g++', '-std=c++11', '-fsyntax-only', '-x', 'c++', '-I' + REPO, '-I' + outdir,
                   os.path.join(outdir, hf)]
            tasks.append(('cxx', hf, 'c++11', cmd))
    with concurrent.futures.ThreadPoolExecutor(max_workers=jobs) as ex:
        results = list(ex.map(lambda t: _run(t[3], cwd=workdir), tasks))
    ok_std = {std: True for std in cc_std_list}
    for (kind, f, std, _cmd), (rc, _out, err) in zip(tasks, results):
        if kind == 'c':
            if rc != 0:
                ok_std[std] = False
                res['compile_errors'].append({'file': f, 'std': std, 'stderr': _first_lines(err)})
            elif err.strip():
                res['compile_warnings'].append({'file': f, 'std': std, 'stderr': _first_lines(err)})
        else:
            if rc != 0:
                res['cxx_errors'].append({'file': f, 'std': std, 'stderr': _first_lines(err)})

    # ---- 3. desc_dump, symbols -------------------------------------------------------------------------
    use_std = next((s for s in cc_std_list if ok_std[s]), None)
    if use_std is not None:
        objs = [obj_name(use_std, cf) for cf in c_files]
        rc, out, err = _run(['nm', '-g', '--defined-only'] + objs)
        if rc == 0:
            res['symbols'] = _parse_nm(out)
        linkdir = os.path.join(workdir, 'link')
        os.makedirs(linkdir)
        reg = scan_registry({h: res['generated'][h] for h in h_files})
        reg_c = os.path.join(linkdir, 'registry.c')
        with open(reg_c, 'w') as fh:
            fh.write(registry_source(h_files, reg, scan_services({h: res['generated'][h] for h in h_files})))
        exe = os.path.join(linkdir, 'desc_dump')
        # -no-pie: fixed link-time addresses, so that stray pointers in dumped memory do not vary from run to run
        cmd = ['gcc', '-std=' + use_std, '-Wall', '-no-pie', '-I' + REPO, '-I' + outdir, reg_c,
               tools['desc_dump_o']] + objs + [tools['runtime_o'], '-o', exe]
        rc, out, err = _run(cmd, cwd=workdir)
        if rc != 0:
            res['link_errors'].append({'file': 'registry.c', 'std': use_std, 'stderr': _first_lines(err)})
        else:
            rc, out, err = _run([exe], cwd=workdir, timeout=60)
            res['desc_dump_rc'], res['desc_dump_stderr'] = rc, _first_lines(err)
            # keep partial output of a crashed run: it shows where the generated code misbehaved
            res['desc_dump'] = out
    res['wall_s'] = time.time() - t0
    return res


# ---------------------------------------------------------------------------------------------------------
# Parsers for the two dump formats (used by the CLI's self check and by tests).

def unhex_token(tok):
    """'s:<hex>' -> bytes, 'NULL' -> None."""
    if tok == 'NULL':
        return None
    if not tok.startswith('s:'):
        raise ValueError('not a string token: %r' % tok)
    return bytes.fromhex(tok[2:])


_FD_ARITY = {'FILE': 10, 'ENUM': 2, 'EV': 2, 'MSG': 8, 'ONEOF': 2, 'FLD': 12, 'SVC': 3, 'MTH': 3, 'ENDFILE': 0}


def parse_fd_dump(text):
    """Returns a list of files: {'name','package','syntax',...,'messages':[...],'enums':[...],'services':[...]}.
    Raises ValueError on any malformed line."""
    files, cur, cur_msg, cur_enum, cur_svc = [], None, None, None, None
    for ln, line in enumerate(text.splitlines(), 1):
        t = line.split(' ')
        k, a = t[0], t[1:]
        if k not in _FD_ARITY or len(a) != _FD_ARITY[k]:
            raise ValueError('fd_dump line %d malformed: %r' % (ln, line))
        if k == 'FILE':
            cur = {'name': unhex_token(a[0]), 'package': unhex_token(a[1]), 'syntax': int(a[2]),
                   'c_package': unhex_token(a[3]), 'no_generate': int(a[4]), 'const_strings': int(a[5]),
                   'use_oneof_field_name': int(a[6]), 'gen_pack_helpers': int(a[7]), 'gen_init_helpers': int(a[8]),
                   'optimize_for': a[9], 'messages': [], 'enums': [], 'services': []}
            files.append(cur)
        elif k == 'ENDFILE':
            cur = cur_msg = cur_enum = cur_svc = None
        elif cur is None:
            raise ValueError('fd_dump line %d outside FILE: %r' % (ln, line))
        elif k == 'MSG':
            cur_msg = {'full_name': unhex_token(a[0]), 'nfields': int(a[1]), 'noneofs': int(a[2]),
                       'is_nested': int(a[3]), 'no_generate': int(a[4]), 'base_field_name': unhex_token(a[5]),
                       'gen_pack_helpers': a[6], 'gen_init_helpers': a[7], 'oneofs': [], 'fields': []}
            cur['messages'].append(cur_msg)
        elif k == 'ONEOF':
            cur_msg['oneofs'].append((int(a[0]), unhex_token(a[1])))
        elif k == 'FLD':
            cur_msg['fields'].append({'name': unhex_token(a[0]), 'number': int(a[1]), 'label': a[2], 'type': a[3],
                                      'type_name': unhex_token(a[4]), 'oneof_index': int(a[5]), 'packed': a[6],
                                      'deprecated': int(a[7]), 'string_as_bytes': int(a[8]),
                                      'has_default': int(a[9]), 'default': a[10], 'proto3_optional': int(a[11])})
        elif k == 'ENUM':
            cur_enum = {'full_name': unhex_token(a[0]), 'nvalues': int(a[1]), 'values': []}
            cur['enums'].append(cur_enum)
        elif k == 'EV':
            cur_enum['values'].append((unhex_token(a[0]), int(a[1])))
        elif k == 'SVC':
            cur_svc = {'full_name': unhex_token(a[0]), 'nmethods': int(a[1]), 'no_generate': int(a[2]),
                       'methods': []}
            cur['services'].append(cur_svc)
        elif k == 'MTH':
            cur_svc['methods'].append(tuple(unhex_token(x) for x in a))
    for f in files:
        for m in f['messages']:
            if len(m['fields']) != m['nfields'] or len(m['oneofs']) != m['noneofs']:
                raise ValueError('fd_dump: counts of %r do not match' % m['full_name'])
        for e in f['enums']:
            if len(e['values']) != e['nvalues']:
                raise ValueError('fd_dump: counts of %r do not match' % e['full_name'])
        for s in f['services']:
            if len(s['methods']) != s['nmethods']:
                raise ValueError('fd_dump: counts of %r do not match' % s['full_name'])
    return files


_DD_ARITY = {'MD': 8, 'MF': 10, 'MR': 2, 'MI': 1, 'MU': 1, 'ED': 7, 'EV': 4, 'ER': 2, 'SD': 5, 'SM': 4,
             'ML': 2, 'MK': 2, 'EL': 2, 'EK': 2, 'SL': 2, 'SS': 6, 'SI': 4, 'SX': 2}


def parse_desc_dump(text):
    """Returns {'messages': [...], 'enums': [...], 'services': [...]}; raises ValueError on malformed input."""
    res = {'messages': [], 'enums': [], 'services': []}
    cur = None
    for ln, line in enumerate(text.splitlines(), 1):
        t = line.split(' ')
        k, a = t[0], t[1:]
        if k in _DD_ARITY and len(a) != _DD_ARITY[k]:
            raise ValueError('desc_dump line %d malformed: %r' % (ln, line))
        if k == 'MD':
            cur = {'name': unhex_token(a[0]), 'short_name': unhex_token(a[1]), 'c_name': unhex_token(a[2]),
                   'package_name': unhex_token(a[3]), 'nfields': int(a[4]), 'nranges': int(a[5]),
                   'has_init': int(a[6]), 'sizeof_ok': int(a[7]), 'fields': [], 'ranges': [], 'by_name': None,
                   'MI': None, 'MU': None}
            res['messages'].append(cur)
        elif k == 'MF':
            cur['fields'].append({'index': int(a[0]), 'name': unhex_token(a[1]), 'id': int(a[2]), 'label': a[3],
                                  'type': a[4], 'quant': a[5], 'flags': int(a[6]),
                                  'desc': None if a[7] == '-' else a[7], 'default': a[8], 'off_ok': int(a[9])})
        elif k == 'MR':
            cur['ranges'].append((int(a[0]), int(a[1])))
        elif k == 'MN':
            cur['by_name'] = None if a == ['NULL'] else [int(x) for x in a if x != '']
        elif k in ('MI', 'MU'):
            cur[k] = a[0]
        elif k == 'ED':
            cur = {'name': unhex_token(a[0]), 'short_name': unhex_token(a[1]), 'c_name': unhex_token(a[2]),
                   'package_name': unhex_token(a[3]), 'nvalues': int(a[4]), 'nvalue_names': int(a[5]),
                   'nranges': int(a[6]), 'values': [], 'by_name': [], 'ranges': []}
            res['enums'].append(cur)
        elif k == 'EV':
            cur['values'].append((int(a[0]), unhex_token(a[1]), unhex_token(a[2]), int(a[3])))
        elif k == 'EN':
            if a == ['NULL']:
                cur['by_name'] = None
            elif len(a) == 2:
                cur['by_name'].append((unhex_token(a[0]), int(a[1])))
            else:
                raise ValueError('desc_dump line %d malformed: %r' % (ln, line))
        elif k == 'ER':
            cur['ranges'].append((int(a[0]), int(a[1])))
        elif k == 'SD':
            cur = {'name': unhex_token(a[0]), 'short_name': unhex_token(a[1]), 'c_name': unhex_token(a[2]),
                   'package': unhex_token(a[3]), 'nmethods': int(a[4]), 'methods': [], 'by_name': None}
            res['services'].append(cur)
        elif k == 'SM':
            cur['methods'].append((int(a[0]), unhex_token(a[1]), a[2], a[3]))
        elif k == 'SN':
            cur['by_name'] = None if a == ['NULL'] else [int(x) for x in a if x != '']
        elif k in ('ML', 'EL', 'SL'):
            cur.setdefault('lookups_by_name', []).append((unhex_token(a[0]), int(a[1])))
        elif k in ('MK', 'EK'):
            cur.setdefault('lookups_by_number', []).append((int(a[0]), int(a[1])))
        elif k in ('SS', 'SI', 'SX'):
            cur.setdefault('service_tests', []).append((k,) + tuple(int(x) for x in a[1:]))
        else:
            raise ValueError('desc_dump line %d: unknown kind %r' % (ln, line))
    for m in res['messages']:
        if len(m['fields']) != m['nfields']:
            raise ValueError('desc_dump: field count of %r' % m['name'])
        if m['ranges'] and len(m['ranges']) != m['nranges'] + 1:
            raise ValueError('desc_dump: range count of %r' % m['name'])
    for e in res['enums']:
        if len(e['values']) != e['nvalues']:
            raise ValueError('desc_dump: value count of %r' % e['name'])
    for s in res['services']:
        if len(s['methods']) != s['nmethods']:
            raise ValueError('desc_dump: method count of %r' % s['name'])
    return res


# ---------------------------------------------------------------------------------------------------------

_IMPORT_RE = re.compile(r'^\s*import\s+(?:public\s+|weak\s+)?"([^"]+)"\s*;', re.M)


def _skipped(name):
    return name.startswith('google/protobuf/') or name == 'protobuf-c/protobuf-c.proto'


def collect_protos(root_path, incdirs):
    """Find the virtual name of root_path and of everything it imports (transitively) in incdirs."""
    root_abs = os.path.abspath(root_path)
    incdirs = [os.path.abspath(d) for d in incdirs] or [os.path.dirname(root_abs)]
    root = None
    for d in incdirs:
        if root_abs.startswith(d.rstrip('/') + '/'):
            root = os.path.relpath(root_abs, d)
            break
    if root is None:
        incdirs.insert(0, os.path.dirname(root_abs))
        root = os.path.basename(root_abs)
    protos, todo = {}, [root]
    while todo:
        n = todo.pop()
        if n in protos or _skipped(n):
            continue
        for d in incdirs:
            p = os.path.join(d, n)
            if os.path.isfile(p):
                with open(p, 'rb') as fh:
                    protos[n] = fh.read().decode('utf-8', 'replace')
                break
        else:
            continue            # protoc will report it
        todo.extend(_IMPORT_RE.findall(protos[n]))
    return protos, root


def main(argv):
    files, incs = [], []
    i = 0
    while i < len(argv):
        a = argv[i]
        if a == '-I':
            i += 1
            incs.append(argv[i])
        elif a.startswith('-I'):
            incs.append(a[2:])
        else:
            files.append(a)
        i += 1
    if len(files) != 1:
        sys.stderr.write('usage: genloop.py <root.proto> [-I dir]...\n')
        return 2
    protos, root = collect_protos(files[0], incs)
    work = os.path.join(DEFAULT_SCRATCH, 'cli_%d' % os.getpid())
    try:
        r = run_case(work, protos, root)
    finally:
        if not os.environ.get('GENLOOP_KEEP'):
            shutil.rmtree(work, ignore_errors=True)
    bad = 0
    print('== fd_dump ==')
    sys.stdout.write(r['fd_dump'])
    print('== desc_dump ==')
    sys.stdout.write(r['desc_dump'])
    sys.stdout.flush()
    if r['fd_dump_rc'] != 0:
        sys.stderr.write('fd_dump failed (rc=%s):\n%s\n' % (r['fd_dump_rc'], r['fd_dump_stderr']))
        bad = 1
    if r['protoc_rc'] != 0:
        sys.stderr.write('protoc failed (rc=%s):\n%s\n' % (r['protoc_rc'], r['protoc_stderr']))
        bad = 1
    if not r['deterministic']:
        sys.stderr.write('plugin output is not deterministic\n')
        bad = 1
    for key in ('compile_errors', 'cxx_errors', 'link_errors'):
        for e in r[key]:
            sys.stderr.write('%s: %s (%s):\n%s\n' % (key, e['file'], e['std'], e['stderr']))
            bad = 1
    if r['desc_dump_rc'] not in (0, None):
        sys.stderr.write('desc_dump exited with %s\n%s\n' % (r['desc_dump_rc'], r['desc_dump_stderr']))
        bad = 1
    sys.stderr.write('wall %.2fs, %d symbols, %d warnings\n' % (r['wall_s'], len(r['symbols']),
                                                              len(r['compile_warnings'])))
    return bad


if __name__ == '__main__':
    sys.exit(main(sys.argv[1:]))

(* C02, continued: a whole repeated field, in the three serialiser families. *)
From Coq Require Import ZArith List Bool Lia ZifyBool.
From PBC Require Import Base.CInt Base.Bits Gen.LeafC Spec.Wire Impl.Desc Impl.Mem Impl.Enc Impl.Size
     Impl.Pack Impl.PackBuf Impl.WF Proofs.LeafEnc Proofs.EncLemmas Proofs.MsgInd Proofs.SizePack Proofs.SizePackRep.
Import ListNotations.
Local Open Scope Z_scope.

Ltac Zify.zify_post_hook ::= Z.div_mod_to_equations.

Lemma field_ok_packed : forall nu f, field_ok nu f = true -> f_packed f = true -> is_scalar (f_type f) = true.
Proof.
  intros nu f H Hp. unfold field_ok in H. rewrite Hp in H. rewrite !andb_true_iff in H.
  tauto.
Qed.

Section Rep2.
Variable E : env.
Notation IHm v := (forall m, v = VMsg (Some m) -> wf_msg E m = true -> msg_agree E m).

Lemma sz_rep_payload_val : forall f l (n : nat) s,
  (is_scalar (f_type f) = true ->
   forall c, const_size (f_type f) = Some c -> s = c * Z.of_nat n) ->
  (is_scalar (f_type f) = false -> const_size (f_type f) = None) ->
  sumM_n (sz_elem (size_msg E) f) l n = Ok s ->
  sz_rep_payload (size_msg E) f (Z.of_nat n) (Some l) = Ok s.
Proof.
  intros f l n s Hc _ Hs. unfold sz_rep_payload. rewrite Nat2Z.id.
  destruct (f_type f) eqn:Et; try exact Hs;
    (rewrite (Hc eq_refl _ eq_refl); f_equal; lia).
Qed.

Lemma repeated_agree : forall nu f n arr,
  field_ok nu f = true ->
  0 <= n < 268435456 ->
  match arr with
  | None => n = 0
  | Some l => n <= zlen l /\ forallb (wf_cell (wf_msg E) f true) l = true /\ Forall (fun v => IHm v) l
  end ->
  agree_res (pk_repeated (pack_msg E) f n arr) (sz_repeated (size_msg E) f n arr)
            (pb_repeated E (chunks_msg E) f n arr).
Proof.
  intros nu f n arr Hf Hn Harr.
  pose proof (field_ok_id _ _ Hf) as Hid.
  unfold pk_repeated, sz_repeated, pb_repeated.
  rewrite ?(u32_small n) by lia.
  destruct (Z.eqb_spec n 0) as [-> | Hn0].
  { destruct (f_packed f); apply agree_nil. }
  destruct arr as [l|]; [|lia]. destruct Harr as (Hnl & W & HI).
  assert (Hnat : (Z.to_nat n <= length l)%nat) by (unfold zlen in Hnl; lia).
  assert (En : Z.of_nat (Z.to_nat n) = n) by lia.
  destruct (f_packed f) eqn:Ep.
  - (* packed *)
    pose proof (field_ok_packed _ _ Hf Ep) as Hs.
    destruct (packed_elems E f Hs l (Z.to_nat n) Hnat W)
      as (p & cs & H1 & H2 & H3 & H4 & H5 & H6 & H7 & H8 & H9).
    rewrite En in *.
    assert (Hpl : 0 <= zlen p < 4294967296).
    { destruct (min_size_cases (f_type f) Hs) as [_ _]. rewrite min_size_val in H7.
      pose proof (zlen_nonneg _ p). lia. }
    rewrite H1. cbn [bind].
    (* size *)
    assert (Hsz : sz_rep_payload (size_msg E) f n (Some l) = Ok (zlen p)).
    { rewrite <- En. apply sz_rep_payload_val; rewrite ?En.
      - intros _ c Hc. exact (H9 c Hc).
      - intros Hns. rewrite Hs in Hns. discriminate.
      - exact H2. }
    rewrite Hsz. cbn [bind].
    (* the assert of repeated_field_pack *)
    assert (Hassert : (uint32_size (u32 (get_type_min_size (type_code (f_type f)) * n)) =? uint32_size (u32 (zlen p)))
                      || (uint32_size (u32 (zlen p)) =? uint32_size (u32 (get_type_min_size (type_code (f_type f)) * n)) + 1) = true).
    { fold (min_size (f_type f)). rewrite (u32_small (zlen p)) by lia.
      destruct H8 as [Hm1 | Hfix].
      - rewrite Hm1 in *. rewrite Z.mul_1_l. rewrite (u32_small n) by lia.
        pose proof (uint32_size_mono n (zlen p) ltac:(lia)).
        pose proof (uint32_size_mono (zlen p) (10 * n) ltac:(lia)).
        pose proof (uint32_size_x10 n ltac:(lia)). lia.
      - rewrite <- Hfix. rewrite (u32_small (zlen p)) by lia. lia. }
    rewrite Hassert.
    (* pack_to_buffer *)
    assert (Hlen : pb_payload_len f n l = Ok (zlen p)).
    { unfold pb_payload_len.
      destruct (f_type f) eqn:Et; try discriminate Hs; try exact H3;
        rewrite (H9 _ eq_refl); f_equal; unfold u32; lia. }
    assert (Hpay : exists chunks, pb_payload f n l = Ok (chunks, zlen p) /\ concat chunks = p).
    { unfold pb_payload. rewrite H4. cbn [bind].
      destruct (f_type f) eqn:Et; try discriminate Hs;
        try (exists cs; rewrite H5; split; reflexivity);
        try (exists [concat cs]; rewrite H5; split; [reflexivity | cbn [concat]; apply app_nil_r]).
      exists cs. split; [|exact H5]. rewrite (H9 _ eq_refl). f_equal. f_equal. unfold u32. lia. }
    destruct Hpay as (chunks & Hpay & Hcc).
    rewrite Hlen, Hpay. cbn [bind fst snd]. rewrite Z.eqb_refl.
    pose proof (key_length (f_id f) WT_LEN Hid ltac:(vm_compute; split; congruence)) as Hk.
    eexists. split; [reflexivity|]. split.
    + rewrite !zlen_app. rewrite e_uint32_len. unfold zlen in *. f_equal. lia.
    + eexists. split; [reflexivity|]. cbn [concat]. rewrite Hcc, app_assoc. reflexivity.
  - (* unpacked *)
    destruct (unpacked_elems E nu f Hf l (Z.to_nat n) Hnat W HI) as (b & Hp & Hs & cs & Hc & Hcc).
    rewrite En in *. rewrite Hp, Hc.
    assert (Hsz : sz_rep_payload (size_msg E) f n (Some l) = Ok (zlen b - get_tag_size (f_id f) * n)).
    { rewrite <- En at 1. apply sz_rep_payload_val; rewrite ?En; [ | | exact Hs].
      - intros Hsc c Hcs.
        destruct (packed_elems E f Hsc l (Z.to_nat n) Hnat W)
          as (p & cs' & _ & H2 & _ & _ & _ & _ & _ & _ & H9).
        rewrite En in *. rewrite Hs in H2. inversion H2 as [H2']. rewrite H2'. exact (H9 c Hcs).
      - intros Hns. destruct (f_type f); try discriminate Hns; reflexivity. }
    rewrite Hsz. cbn [bind].
    eexists. split; [reflexivity|]. split; [f_equal; lia|].
    eexists. split; [reflexivity | exact Hcc].
Qed.

End Rep2.

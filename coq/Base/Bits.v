(* Bit-level facts used by the leaf lemmas: byte masks by a 256-point sweep
   (vm_compute) lifted by forallb_forall; shifts as division. *)
From Coq Require Import ZArith List Bool Lia.
From PBC Require Import Base.CInt.
Import ListNotations.
Local Open Scope Z_scope.

Ltac Zify.zify_post_hook ::= Z.div_mod_to_equations.

Definition zrange (n : nat) : list Z := map Z.of_nat (seq 0 n).

Lemma in_zrange : forall n x, 0 <= x < Z.of_nat n -> In x (zrange n).
Proof.
  intros n x H. unfold zrange. apply in_map_iff. exists (Z.to_nat x). split.
  - rewrite Z2Nat.id; lia.
  - apply in_seq. lia.
Qed.

Lemma sweep : forall (n : nat) (P : Z -> bool),
  forallb P (zrange n) = true -> forall x, 0 <= x < Z.of_nat n -> P x = true.
Proof. intros n P H x Hx. rewrite forallb_forall in H. apply H. apply in_zrange. exact Hx. Qed.

Lemma mod256_land : forall x, x mod 256 = Z.land x 255.
Proof. intros x. change 256 with (2 ^ 8). rewrite <- Z.land_ones by lia. reflexivity. Qed.

Lemma mod128_land : forall x, x mod 128 = Z.land x 127.
Proof. intros x. change 128 with (2 ^ 7). rewrite <- Z.land_ones by lia. reflexivity. Qed.

(* (v | 0x80) as a byte *)
Lemma lor128_byte_sweep : forallb (fun w => Z.lor w 128 =? w mod 128 + 128) (zrange 256) = true.
Proof. vm_compute. reflexivity. Qed.

Lemma u8_lor128 : forall v, u8 (Z.lor v 128) = v mod 128 + 128.
Proof.
  intros v. unfold u8. rewrite mod256_land, Z.land_lor_distr_l.
  change (Z.land 128 255) with 128. rewrite <- mod256_land.
  pose proof (sweep 256 _ lor128_byte_sweep (v mod 256) ltac:(change (Z.of_nat 256) with 256; apply Z.mod_pos_bound; lia)) as H.
  apply Z.eqb_eq in H. rewrite H.
  replace 256 with (128 * 2) by lia. rewrite Z.rem_mul_r by lia. lia.
Qed.

Lemma land127_sweep : forallb (fun w => Z.land w 127 =? w mod 128) (zrange 256) = true.
Proof. vm_compute. reflexivity. Qed.

Lemma shiftr7 : forall v, Z.shiftr v 7 = v / 128.
Proof. intros v. rewrite Z.shiftr_div_pow2 by lia. reflexivity. Qed.

Lemma shiftr_div : forall v n, 0 <= n -> Z.shiftr v n = v / 2 ^ n.
Proof. intros. apply Z.shiftr_div_pow2. assumption. Qed.

Lemma shiftl_mul : forall v n, 0 <= n -> Z.shiftl v n = v * 2 ^ n.
Proof. intros. apply Z.shiftl_mul_pow2. assumption. Qed.

Lemma u8_small : forall v, 0 <= v < 256 -> u8 v = v.
Proof. intros v H. unfold u8. apply Z.mod_small. exact H. Qed.
Lemma u32_small : forall v, 0 <= v < 4294967296 -> u32 v = v.
Proof. intros v H. unfold u32. apply Z.mod_small. exact H. Qed.
Lemma u64_small : forall v, 0 <= v < 18446744073709551616 -> u64 v = v.
Proof. intros v H. unfold u64. apply Z.mod_small. exact H. Qed.

Lemma u8_range : forall v, 0 <= u8 v < 256.
Proof. intros v. unfold u8. apply Z.mod_pos_bound. lia. Qed.
Lemma u32_range : forall v, 0 <= u32 v < 4294967296.
Proof. intros v. unfold u32. apply Z.mod_pos_bound. lia. Qed.
Lemma u64_range : forall v, 0 <= u64 v < 18446744073709551616.
Proof. intros v. unfold u64. apply Z.mod_pos_bound. lia. Qed.

Lemma s32_range : forall v, -2147483648 <= s32 v < 2147483648.
Proof. intros v. unfold s32, sw. destruct (_ <? _) eqn:E; [apply Z.ltb_lt in E | apply Z.ltb_ge in E]; lia. Qed.
Lemma s64_range : forall v, -9223372036854775808 <= s64 v < 9223372036854775808.
Proof. intros v. unfold s64, sw. destruct (_ <? _) eqn:E; [apply Z.ltb_lt in E | apply Z.ltb_ge in E]; lia. Qed.

Lemma u32_s32 : forall v, u32 (s32 v) = u32 v.
Proof.
  intros v. unfold u32, s32, sw. destruct (_ <? _) eqn:E.
  - apply Z.mod_mod. lia.
  - rewrite <- Zminus_mod_idemp_r. rewrite Z.mod_same by lia. rewrite Z.sub_0_r. apply Z.mod_mod. lia.
Qed.
Lemma u64_s64 : forall v, u64 (s64 v) = u64 v.
Proof.
  intros v. unfold u64, s64, sw. destruct (_ <? _) eqn:E.
  - apply Z.mod_mod. lia.
  - rewrite <- Zminus_mod_idemp_r. rewrite Z.mod_same by lia. rewrite Z.sub_0_r. apply Z.mod_mod. lia.
Qed.

(* buffers *)
Lemma upd_nat_app : forall l v, upd_nat l (length l) v = l ++ [v].
Proof. induction l as [|x t IH]; intros v; cbn [upd_nat length app]; [reflexivity | rewrite IH; reflexivity]. Qed.

Lemma upd_app : forall l v, upd l (Z.of_nat (length l)) v = l ++ [v].
Proof. intros. unfold upd. rewrite Nat2Z.id. apply upd_nat_app. Qed.

Lemma take_pad_all : forall l, take_pad (length l) l = l.
Proof. induction l as [|x t IH]; cbn [take_pad length]; [reflexivity | rewrite IH; reflexivity]. Qed.

Lemma take_pad_length : forall n l, length (take_pad n l) = n.
Proof. induction n as [|k IH]; intros l; cbn [take_pad length]; [reflexivity|]. destruct l; cbn [length]; rewrite IH; reflexivity. Qed.

(* two-variable sweep *)
Lemma sweep2 : forall (n m : nat) (P : Z -> Z -> bool),
  forallb (fun x => forallb (P x) (zrange m)) (zrange n) = true ->
  forall x y, 0 <= x < Z.of_nat n -> 0 <= y < Z.of_nat m -> P x y = true.
Proof.
  intros n m P H x y Hx Hy.
  pose proof (sweep n _ H x Hx) as H1. cbv beta in H1.
  exact (sweep m _ H1 y Hy).
Qed.

Lemma land_ones_mod : forall x k, 0 <= k -> Z.land x (2 ^ k - 1) = x mod 2 ^ k.
Proof. intros x k Hk. replace (2 ^ k - 1) with (Z.ones k) by (rewrite Z.ones_equiv; lia). rewrite Z.land_ones by lia. reflexivity. Qed.

Lemma land7 : forall x, Z.land x 7 = x mod 8.
Proof. intros. exact (land_ones_mod x 3 ltac:(lia)). Qed.
Lemma land127 : forall x, Z.land x 127 = x mod 128.
Proof. intros. exact (land_ones_mod x 7 ltac:(lia)). Qed.
Lemma land1 : forall x, Z.land x 1 = x mod 2.
Proof. intros. exact (land_ones_mod x 1 ltac:(lia)). Qed.

(* x xor (2^n - 1) for an n-bit x *)
Lemma lxor_ones_sub : forall n x, 0 <= n -> 0 <= x < 2 ^ n -> Z.lxor x (2 ^ n - 1) = 2 ^ n - 1 - x.
Proof.
  intros n x Hn Hx.
  replace (2 ^ n - 1 - x) with ((Z.lnot x) mod 2 ^ n).
  2:{ unfold Z.lnot. rewrite <- Z.sub_1_r.
      replace (- x - 1) with ((2 ^ n - 1 - x) + (-1) * 2 ^ n) by lia.
      rewrite Z.mod_add by lia. apply Z.mod_small. lia. }
  apply Z.bits_inj'. intros i Hi.
  rewrite Z.lxor_spec. replace (2 ^ n - 1) with (Z.ones n) by (rewrite Z.ones_equiv; lia).
  destruct (Z_lt_ge_dec i n) as [Hlt | Hge].
  - rewrite Z.ones_spec_low by lia. rewrite Z.mod_pow2_bits_low by lia.
    rewrite Z.lnot_spec by lia. rewrite xorb_true_r. reflexivity.
  - rewrite Z.ones_spec_high by lia. rewrite Z.mod_pow2_bits_high by lia.
    rewrite xorb_false_r.
    destruct (Z.eq_dec x 0) as [-> | Hx0]; [apply Z.bits_0|].
    apply Z.bits_above_log2; [lia|].
    apply Z.log2_lt_pow2; [lia|]. apply Z.lt_le_trans with (2 ^ n); [lia|]. apply Z.pow_le_mono_r; lia.
Qed.

Lemma lxor_0_r' : forall x, Z.lxor x 0 = x.
Proof. apply Z.lxor_0_r. Qed.

(* or of bit-disjoint pieces is addition *)
Lemma lor_disjoint : forall a b k, 0 <= k -> 0 <= a < 2 ^ k -> Z.lor a (b * 2 ^ k) = a + b * 2 ^ k.
Proof.
  intros a b k Hk Ha.
  assert (Hl : Z.land a (b * 2 ^ k) = 0).
  { apply Z.bits_inj'. intros i Hi. rewrite Z.land_spec, Z.bits_0.
    destruct (Z_lt_ge_dec i k) as [Hlt | Hge].
    - rewrite Z.mul_pow2_bits_low by lia. apply andb_false_r.
    - replace (Z.testbit a i) with false; [reflexivity|].
      symmetry. destruct (Z.eq_dec a 0) as [-> | Hne]; [apply Z.bits_0|].
      apply Z.bits_above_log2; [lia|]. apply Z.log2_lt_pow2; [lia|].
      apply Z.lt_le_trans with (2 ^ k); [lia|]. apply Z.pow_le_mono_r; lia. }
  rewrite <- Z.lxor_lor by exact Hl. symmetry. apply Z.add_nocarry_lxor. exact Hl.
Qed.

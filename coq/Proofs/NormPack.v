(* Serialisation does not see the difference between a message and its normalisation (Impl/Norm.v). *)
From Coq Require Import ZArith List Bool Lia.
From PBC Require Import Base.CInt Gen.LeafC Impl.Desc Impl.Mem Impl.Enc Impl.Pack Impl.Unpack Impl.Canon Impl.Norm
     Proofs.MsgInd Proofs.MsgRT4.
Import ListNotations.
Local Open Scope Z_scope.

Section NP.
Variable E : env.
Notation rec := (pack_msg E).
Notation nrm := (norm_msg E).

Definition nP (m : msg) : Prop := pack_msg E (nrm m) = pack_msg E m.
Definition nQ (v : sval) : Prop := forall sub, v = VMsg (Some sub) -> nP sub.

Lemma as_same : forall v, as_word (norm_val nrm v) = as_word v /\ as_str (norm_val nrm v) = as_str v /\
                          as_bytes (norm_val nrm v) = as_bytes v.
Proof. intros v. destruct v as [w|p|n p|[m|]]; repeat split; reflexivity. Qed.

Lemma pk_required_norm : forall f v, nQ v -> pk_required rec f (norm_val nrm v) = pk_required rec f v.
Proof.
  intros f v HQ. unfold pk_required. destruct (as_same v) as (Hw & Hs & Hb).
  destruct (f_type f); rewrite ?Hw, ?Hs, ?Hb; try reflexivity.
  destruct v as [w|p|n p|[m|]]; try reflexivity. cbn [norm_val]. rewrite (HQ m eq_refl). reflexivity.
Qed.

Lemma ptr_absent_norm : forall f v, ptr_absent f (norm_val nrm v) = ptr_absent f v.
Proof. intros f v. unfold ptr_absent. destruct (f_type f); try reflexivity; destruct v as [w|p|n p|[m|]]; reflexivity. Qed.

Lemma zeroish_norm : forall f v, zeroish f (norm_val nrm v) = zeroish f v.
Proof. intros f v. unfold zeroish. destruct (f_type f); try reflexivity; destruct v as [w|p|n p|[m|]]; reflexivity. Qed.

Lemma concatM_n_map : forall (g : sval -> res (list Z)) (h : sval -> sval) l k,
  (forall x, In x l -> g (h x) = g x) -> concatM_n g (map h l) k = concatM_n g l k.
Proof.
  intros g h l. induction l as [|x l IH]; intros k H; destruct k; cbn [map concatM_n]; try reflexivity.
  fold (concatM_n g). rewrite (H x (or_introl eq_refl)). rewrite IH by (intros y Hy; apply H; right; exact Hy). reflexivity.
Qed.

Lemma pk_packed_elem_norm : forall f v, pk_packed_elem f (norm_val nrm v) = pk_packed_elem f v.
Proof. intros f v. unfold pk_packed_elem. destruct (as_same v) as (Hw & _). destruct (f_type f); rewrite ?Hw; reflexivity. Qed.

Lemma with_nth_map : forall (A B : Type) (k : A -> B) d (h : A -> A) l g,
  with_nth k d (map h l) g = with_nth (fun x => k (h x)) d l g.
Proof. intros A B k d h l. induction l as [|x l IH]; intros g; destruct g; cbn [map with_nth]; auto. Qed.

Lemma with_nth_ext : forall (A B : Type) (k k' : A -> B) d l g,
  (forall x, In x l -> k x = k' x) -> with_nth k d l g = with_nth k' d l g.
Proof.
  intros A B k k' d l. induction l as [|x l IH]; intros g H; destruct g; cbn [with_nth]; auto.
  - apply H. left. reflexivity.
  - apply IH. intros y Hy. apply H. right. exact Hy.
Qed.

(* one field *)
Lemma pk_field_norm : forall unions f s,
  slot_all nQ s -> Forall (fun cv : Z * sval => nQ (snd cv)) unions ->
  (f_label f = LNone -> zeroish f (init_cell f) = Ok true) ->
  pk_field rec (map (fun cv : Z * sval => (fst cv, norm_val nrm (snd cv))) unions) f (norm_slot nrm f s) =
  pk_field rec unions f s.
Proof.
  intros unions f s HS HU Hz. unfold pk_field.
  assert (Hun : forall g, with_nth (fun cv : Z * sval => pk_oneof rec f (fst cv) (snd cv)) (Err EDesc)
                            (map (fun cv : Z * sval => (fst cv, norm_val nrm (snd cv))) unions) g =
                          with_nth (fun cv : Z * sval => pk_oneof rec f (fst cv) (snd cv)) (Err EDesc) unions g).
  { intros g. rewrite with_nth_map. apply with_nth_ext. intros cv Hin. cbn [fst snd].
    unfold pk_oneof. rewrite ptr_absent_norm. rewrite pk_required_norm; [reflexivity|].
    rewrite Forall_forall in HU. exact (HU cv Hin). }
  destruct s as [h v | n cap arr | g]; cbn [norm_slot slot_all] in *.
  - (* one cell *)
    destruct (f_label f) eqn:El.
    + apply pk_required_norm. exact HS.
    + destruct (f_oneof f); [reflexivity|]. unfold pk_optional. rewrite ptr_absent_norm, pk_required_norm by exact HS. reflexivity.
    + reflexivity.
    + destruct (f_oneof f).
      * destruct (zeroish f v) as [[|]|]; reflexivity.
      * destruct (zeroish f v) as [[|]|] eqn:Ez; cbn [pk_unlabeled].
        -- unfold pk_unlabeled. rewrite (Hz eq_refl), Ez. reflexivity.
        -- unfold pk_unlabeled. rewrite zeroish_norm, Ez. apply pk_required_norm. exact HS.
        -- unfold pk_unlabeled. rewrite zeroish_norm, Ez. reflexivity.
  - (* repeated *)
    destruct arr as [l|]; [|reflexivity].
    destruct (f_label f); try reflexivity; try (destruct (f_oneof f); reflexivity).
    unfold pk_repeated. destruct (f_packed f).
    + destruct (n =? 0); [reflexivity|].
      rewrite concatM_n_map by (intros x _; apply pk_packed_elem_norm). reflexivity.
    + destruct (n =? 0); [reflexivity|].
      rewrite concatM_n_map; [reflexivity|]. intros x Hx. apply pk_required_norm.
      rewrite Forall_forall in HS. exact (HS x Hx).
  - destruct (f_label f); try reflexivity; destruct (f_oneof f); try reflexivity; apply Hun.
Qed.

Lemma pk_fields_norm : forall unions fs ss,
  Forall (slot_all nQ) ss -> Forall (fun cv : Z * sval => nQ (snd cv)) unions ->
  (forall f, In f fs -> f_label f = LNone -> zeroish f (init_cell f) = Ok true) ->
  pk_fields rec (map (fun cv : Z * sval => (fst cv, norm_val nrm (snd cv))) unions) fs (norm_slots nrm fs ss) =
  pk_fields rec unions fs ss.
Proof.
  intros unions fs. induction fs as [|f fs IH]; intros ss HS HU Hz.
  - destruct ss; reflexivity.
  - destruct ss as [|s ss]; [reflexivity|]. inversion HS; subst.
    cbn [norm_slots pk_fields]. fold (norm_slots nrm). fold (pk_fields rec (map (fun cv : Z * sval => (fst cv, norm_val nrm (snd cv))) unions)).
    fold (pk_fields rec unions).
    rewrite pk_field_norm by (try assumption; apply Hz; left; reflexivity).
    rewrite IH by (try assumption; intros f' Hf'; apply Hz; right; exact Hf'). reflexivity.
Qed.

Hypothesis EO : env_ok E = true.

Theorem pack_norm : forall m, pack_msg E (nrm m) = pack_msg E m.
Proof.
  apply (msg_ind2 nP nQ); unfold nQ, nP; try (intros; discriminate).
  - intros m IH sub Hv. inversion Hv; subst. exact IH.
  - intros d slots unions unk HS HU. cbn [norm_msg].
    destruct (nth_error E d) as [md|] eqn:Ed; [|reflexivity].
    cbn [pack_msg]. rewrite Ed.
    rewrite pk_fields_norm; [reflexivity | exact HS | exact HU |].
    intros f Hf El.
    assert (D : desc_ok (length E) md = true).
    { unfold env_ok in EO. rewrite forallb_forall in EO. apply EO. eapply nth_error_In; exact Ed. }
    destruct (desc_ok_fields _ _ D f Hf) as (_ & _ & Hz). exact (Hz El).
Qed.

Lemma norm_desc : forall m, m_desc (nrm m) = m_desc m.
Proof. intros [d s u k]. cbn [norm_msg]. destruct (nth_error E d); reflexivity. Qed.

(* hence: whenever the normalisation of a message is canonical, what pack writes for the message parses back to
   that normal form, and serialising the result reproduces the bytes *)
Theorem stable_via_norm : forall m b,
  canon_msg E (nrm m) = true -> pack_msg E m = Ok b -> Z.of_nat (length b) <= max_input ->
  unpack_top E (m_desc m) b = Ok (nrm m) /\ pack_msg E (nrm m) = Ok b.
Proof.
  intros m b C Hp Hl. rewrite <- pack_norm in Hp. split; [|exact Hp].
  rewrite <- norm_desc. unfold unpack_top.
  exact (proj1 (roundtrip_canonical E EO (nrm m) C (S (length b)) b Hp Hl (Nat.lt_succ_diag_r _))).
Qed.
End NP.
